/-
`dask.delayed.unpack_collections` (dask/delayed.py): how an argument of a delayed call — any nesting of lists, tuples,
sets, dicts, slices, dataclasses, namedtuples and their iterators around `Delayed` values — is turned into a task
that rebuilds the argument around the computed values, transliterated.

Python                                                              Lean
------                                                              ----
a Delayed with key k                                                `PV.del k`
any other object without a rule (returned as it is)                 `PV.lit v`
list / tuple / set                                                  `PV.cont kind xs`
list_iterator / tuple_iterator / set_iterator (converted first)     `PV.iter kind xs`
dict (items in insertion order)                                     `PV.dict kvs`
slice(a, b, c)                                                      `PV.slice a b c`
dataclass instance (fields in declaration order)                    `PV.dataclass cls fields`
namedtuple instance                                                 `PV.namedtuple cls fields`

returned task:
the object itself when no Delayed is inside (`return expr, ()`);   `TT.obj p`
  iterators inside it have been consumed and are replaced by the
  containers they were converted to (`deiter`)
TaskRef(key)                                                        `TT.ref k`
List(*args)                                                         `TT.list ts`
Task(None, typ, List(*args))   typ = tuple | set                    `TT.conv kind (TT.list ts)`
Dict([[k, v] …])                                                    `TT.dict kvs`
Task(None, apply, slice, List(a, b, c))                             `TT.slice a b c`
Task(None, apply, typ, (), Task(None, dict, List([name, v] …)))     `TT.dataclass cls ts`   (the `[name, ·]` / dict /
                                                                     apply plumbing is abstracted: field values in order)
Task(None, _reconstruct_namedtuple, typ, Task(None, tuple, List(…)))  `TT.namedtuple cls ts`
collections: `tuple(toolz.unique(concat(…), key=id))`               the list of keys, one per OCCURRENCE: below the top
                                                                    level every Delayed is wrapped in a fresh expression
                                                                    object, so `unique(key=id)` never removes anything;
                                                                    for a dict: keys' collections ++ values' collections

`_finalize_args_collections` (top level only: the collections are optimized together and renamed keys substituted) is
not modelled; the recursive calls (`_return_collections=False`) are what is transliterated.  Futures are not modelled.
Import-free.
-/
namespace Dask.DelayedUnpack

inductive CK where
  | list | tuple | set
  deriving DecidableEq, Repr, Inhabited

inductive PV where
  | lit (v : Nat)
  | del (key : Nat)
  | cont (k : CK) (xs : List PV)
  | iter (k : CK) (xs : List PV)
  | dict (kvs : List (PV × PV))
  | slice (a b c : PV)
  | dataclass (cls : Nat) (fields : List PV)
  | namedtuple (cls : Nat) (fields : List PV)
  deriving Repr, Inhabited

inductive TT where
  | obj (p : PV)
  | ref (key : Nat)
  | list (ts : List TT)
  | conv (k : CK) (t : TT)
  | dict (kvs : List (TT × TT))
  | slice (a b c : TT)
  | dataclass (cls : Nat) (ts : List TT)
  | namedtuple (cls : Nat) (ts : List TT)
  deriving Repr, Inhabited

mutual
/-- the object with every list / tuple / set iterator inside replaced by the list / tuple / set it was converted to:
    what is handed on when no Delayed is found (the traversal has consumed the iterators) -/
def deiter : PV → PV
  | .lit v => .lit v
  | .del k => .del k
  | .cont k xs => .cont k (deiterL xs)
  | .iter k xs => .cont k (deiterL xs)
  | .dict kvs => .dict (deiterP kvs)
  | .slice a b c => .slice (deiter a) (deiter b) (deiter c)
  | .dataclass cls fs => .dataclass cls (deiterL fs)
  | .namedtuple cls fs => .namedtuple cls (deiterL fs)
def deiterL : List PV → List PV
  | [] => []
  | x :: xs => deiter x :: deiterL xs
def deiterP : List (PV × PV) → List (PV × PV)
  | [] => []
  | (k, v) :: r => (deiter k, deiter v) :: deiterP r
end

/-- the container a list / tuple / set (or its iterator) is rebuilt as -/
def rebuild (k : CK) (ts : List TT) : TT :=
  match k with
  | .list => .list ts
  | k => .conv k (.list ts)

mutual
/-- `unpack_collections(expr, _return_collections=False)`: `(task, keys of the collections)` -/
def unpack : PV → TT × List Nat
  | .lit v => (.obj (.lit v), [])
  | .del k => (.ref k, [k])
  | .cont k xs =>
    let r := unpackL xs
    let cs := r.2
    if cs.isEmpty then (.obj (deiter (.cont k xs)), []) else (rebuild k r.1, cs)
  | .iter k xs =>
    -- `expr = list(expr)` (tuple / set likewise) comes first: the object returned when nothing is found is the converted one
    let r := unpackL xs
    let cs := r.2
    if cs.isEmpty then (.obj (deiter (.cont k xs)), []) else (rebuild k r.1, cs)
  | .dict kvs =>
    let r := unpackP kvs
    let cs := r.2.1 ++ r.2.2
    if cs.isEmpty then (.obj (deiter (.dict kvs)), []) else (.dict r.1, cs)
  | .slice a b c =>
    let ra := unpack a
    let rb := unpack b
    let rc := unpack c
    let cs := ra.2 ++ rb.2 ++ rc.2
    if cs.isEmpty then (.obj (deiter (.slice a b c)), []) else (.slice ra.1 rb.1 rc.1, cs)
  | .dataclass cls fs =>
    let r := unpackL fs
    let cs := r.2
    if cs.isEmpty then (.obj (deiter (.dataclass cls fs)), []) else (.dataclass cls r.1, cs)
  | .namedtuple cls fs =>
    let r := unpackL fs
    let cs := r.2
    if cs.isEmpty then (.obj (deiter (.namedtuple cls fs)), []) else (.namedtuple cls r.1, cs)
/-- the elements one by one; the collections concatenated -/
def unpackL : List PV → List TT × List Nat
  | [] => ([], [])
  | x :: xs =>
    let r := unpack x
    let rs := unpackL xs
    (r.1 :: rs.1, r.2 ++ rs.2)
/-- the items of a dict: `(pairs, collections of the keys, collections of the values)` -/
def unpackP : List (PV × PV) → List (TT × TT) × List Nat × List Nat
  | [] => ([], [], [])
  | (k, v) :: r =>
    let rk := unpack k
    let rv := unpack v
    let rs := unpackP r
    ((rk.1, rv.1) :: rs.1, rk.2 ++ rs.2.1, rv.2 ++ rs.2.2)
end

/-! ## evaluation -/

structure Sem (V : Type) where
  lit : Nat → V
  build : CK → List V → V
  /-- `tuple(value)` / `set(value)` applied to a computed list -/
  conv : CK → V → V
  mkDict : List (V × V) → V
  mkSlice : V → V → V → V
  mkDC : Nat → List V → V
  mkNT : Nat → List V → V

section
variable {V : Type} (S : Sem V) (env : Nat → V)

mutual
/-- the argument as the eager program sees it: every Delayed stands for its value -/
def evalPV : PV → V
  | .lit v => S.lit v
  | .del k => env k
  | .cont k xs => S.build k (evalPVL xs)
  | .iter k xs => S.build k (evalPVL xs)
  | .dict kvs => S.mkDict (evalPVP kvs)
  | .slice a b c => S.mkSlice (evalPV a) (evalPV b) (evalPV c)
  | .dataclass cls fs => S.mkDC cls (evalPVL fs)
  | .namedtuple cls fs => S.mkNT cls (evalPVL fs)
def evalPVL : List PV → List V
  | [] => []
  | x :: xs => evalPV x :: evalPVL xs
def evalPVP : List (PV × PV) → List (V × V)
  | [] => []
  | (k, v) :: r => (evalPV k, evalPV v) :: evalPVP r
end

mutual
/-- the task evaluated on the values of its dependencies -/
def evalTT : TT → V
  | .obj p => evalPV S env p
  | .ref k => env k
  | .list ts => S.build .list (evalTTL ts)
  | .conv k t => S.conv k (evalTT t)
  | .dict kvs => S.mkDict (evalTTP kvs)
  | .slice a b c => S.mkSlice (evalTT a) (evalTT b) (evalTT c)
  | .dataclass cls ts => S.mkDC cls (evalTTL ts)
  | .namedtuple cls ts => S.mkNT cls (evalTTL ts)
def evalTTL : List TT → List V
  | [] => []
  | t :: ts => evalTT t :: evalTTL ts
def evalTTP : List (TT × TT) → List (V × V)
  | [] => []
  | (k, v) :: r => (evalTT k, evalTT v) :: evalTTP r
end
end

mutual
/-- the keys of the Delayed values inside an argument, in traversal order -/
def delayedKeys : PV → List Nat
  | .lit _ => []
  | .del k => [k]
  | .cont _ xs => delayedKeysL xs
  | .iter _ xs => delayedKeysL xs
  | .dict kvs => delayedKeysP kvs
  | .slice a b c => delayedKeys a ++ delayedKeys b ++ delayedKeys c
  | .dataclass _ fs => delayedKeysL fs
  | .namedtuple _ fs => delayedKeysL fs
def delayedKeysL : List PV → List Nat
  | [] => []
  | x :: xs => delayedKeys x ++ delayedKeysL xs
def delayedKeysP : List (PV × PV) → List Nat
  | [] => []
  | (k, v) :: r => delayedKeys k ++ delayedKeys v ++ delayedKeysP r
end

mutual
/-- the keys a task refers to -/
def refs : TT → List Nat
  | .obj _ => []
  | .ref k => [k]
  | .list ts => refsL ts
  | .conv _ t => refs t
  | .dict kvs => refsP kvs
  | .slice a b c => refs a ++ refs b ++ refs c
  | .dataclass _ ts => refsL ts
  | .namedtuple _ ts => refsL ts
def refsL : List TT → List Nat
  | [] => []
  | t :: ts => refs t ++ refsL ts
def refsP : List (TT × TT) → List Nat
  | [] => []
  | (k, v) :: r => refs k ++ refs v ++ refsP r
end

/-! ## `call_function`: the task of one delayed call -/

/-- `Task(name, func, *args2, **dask_kwargs)`: the positional arguments are unpacked one by one, the keyword arguments
    as one dict (whose keys are the parameter names) -/
def callArgs (args : List PV) (kwargs : List (String × PV)) : List TT × List (String × TT) × List Nat :=
  let ra := args.map unpack
  let rk := kwargs.map (fun p => (p.1, unpack p.2))
  (ra.map Prod.fst, rk.map (fun p => (p.1, p.2.1)),
   (ra.map Prod.snd).flatten ++ (rk.map (fun p => p.2.2)).flatten)

end Dask.DelayedUnpack
