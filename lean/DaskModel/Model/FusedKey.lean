/-
`default_fused_keys_renamer` (dask/optimization.py), the naming of the task that replaces a fused linear chain
(`fuse_linear_task_spec`, used by the bag, array and delayed optimizers), transliterated.

Python                                                       Lean
------                                                       ----
keys (bottom … top of the chain); `first_key = keys[-1]`      the top key's name `first` (for tuple keys: `first_key[0]`,
                                                              the index part `first_key[1:]` is carried over unchanged)
`utils.key_split(k)` (prefix of a key; not modelled,          given with every key: `splits` (those of the other keys),
  supplied by the harness from the real function)              `firstSplit` (that of the top key)
`names = {key_split(k) for k in it}; names.discard(first_name)`
`names = sorted(names); names.append(first_key)`              `nameParts splits firstSplit first`
`"-".join(names)`                                             `concatName`
`max_fused_key_length -= slack` (if truthy)                   `threshold maxLen slack`
`_enforce_max_key_limit`:                                     `enforce h thr keep name`
   if limit and len(name) > limit:                              `h` = the digest as a function of the FULL name
       name_hash = md5(full name).hexdigest()                   (md5: not modelled)
       name = f"{name[:max(limit - room, 0)]}-{name_hash}"      `keep = keepLen maxLen slack room`

Strings are lists of code points (`List Char`).  Import-free.
-/
namespace Dask.FusedKey

abbrev Name := List Char

/-- Python `a < b` on `str`: lexicographic by code point -/
def ltName : Name → Name → Bool
  | [], [] => false
  | [], _ :: _ => true
  | _ :: _, [] => false
  | a :: as, b :: bs =>
    if a.toNat < b.toNat then true
    else if b.toNat < a.toNat then false
    else ltName as bs

/-- insert into a sorted list without duplicates -/
def insertSorted (x : Name) : List Name → List Name
  | [] => [x]
  | y :: ys =>
    if x == y then y :: ys
    else if ltName x y then x :: y :: ys
    else y :: insertSorted x ys

/-- `sorted(set(names))` -/
def sortedSet (names : List Name) : List Name := names.foldr insertSorted []

/-- `"-".join(parts)` -/
def joinDash : List Name → Name
  | [] => []
  | [x] => x
  | x :: y :: r => x ++ '-' :: joinDash (y :: r)

/-- the list that is joined: sorted distinct prefixes of the other keys, without the prefix of the top key, then the
    full name of the top key -/
def nameParts (splits : List Name) (firstSplit first : Name) : List Name :=
  sortedSet (splits.filter (fun s => s != firstSplit)) ++ [first]

def concatName (splits : List Name) (firstSplit first : Name) : Name :=
  joinDash (nameParts splits firstSplit first)

/-- `if max_fused_key_length: max_fused_key_length -= slack`: names up to this length are kept as they are
    (only lengths ≥ the slack are modelled: Python goes negative below it) -/
def threshold (maxLen slack : Nat) : Nat := if maxLen = 0 then 0 else maxLen - slack

/-- `max(max_fused_key_length - room, 0)`: the characters kept of a name that is cut (`room` = what dash and digest
    need beyond the slack) -/
def keepLen (maxLen slack room : Nat) : Nat := threshold maxLen slack - room

/-- `_enforce_max_key_limit`: names longer than the threshold keep `keep` characters and get a digest of the full
    name as suffix; threshold 0 = no limit -/
def enforce (h : Name → Name) (thr keep : Nat) (name : Name) : Name :=
  if thr != 0 && name.length > thr then name.take keep ++ '-' :: h name else name

/-- name of the fused task -/
def fusedName (h : Name → Name) (thr keep : Nat) (splits : List Name) (firstSplit first : Name) : Name :=
  enforce h thr keep (concatName splits firstSplit first)

/-- what the driver reports for one chain: the kept characters and, when the name was cut, the full name whose
    digest is appended -/
def fusedParts (thr keep : Nat) (splits : List Name) (firstSplit first : Name) : Name × Option Name :=
  let c := concatName splits firstSplit first
  if thr != 0 && c.length > thr then (c.take keep, some c) else (c, none)

end Dask.FusedKey
