import DaskModel.Model.ArrOverlap
/-
C26 extension: the N-d product of the one-axis overlap model (`Model/ArrOverlap.lean`).

An n-d array is a function from index lists (`Nd.cell`, `none` outside `Nd.shape`).  Everything `overlap_internal`,
`boundaries`, `overlap`, `_trim` build is a *separable gather* of the source array `X`: per axis a list of sources
(`some p` = position `p` of that axis, `none` = the constant fill of that axis), the cell at index `(e₁,…,e_k)` being
`X [L₁[e₁], …, L_k[e_k]]` (`sepGather`, NumPy `X[np.ix_(L₁,…,L_k)]`).

Python                                                          Lean
------                                                          ----
ArrayOverlapLayer: block (b₁,…,b_k) = concatenate_shaped of the
  3^k neighbour pieces, each cut per axis by fractional_slice   `ndOverlapBlock axes bs` (per axis the 1-d `overlapBlocks`)
boundaries(): axes padded one after the other                   `Axis.padded` per axis (`padPositions`)
overlap(): boundaries, overlap_internal, chunk.trim(2·d)        `Axis.ext` with a kind (`overlapWithBoundary`)
_trim: x[front:back] per axis of an n-d block                   `trimNd axes bs`
a function whose output at a cell reads at most dlᵢ cells
  before and drᵢ after it along axis i                          `winSep deps g X Ls`
the global hyper-rectangle the block should hold                `ndRect axes bs` (closed form)
Import-free of Mathlib (linked into the native driver).
-/
namespace Dask.ArrOverlapNd
open Dask.ArrOverlap

/-- cartesian product in row-major (C) order: the index tuples of an n-d array with the given per-axis lists -/
def cart {σ : Type} : List (List σ) → List (List σ)
  | [] => [[]]
  | L :: Ls => L.flatMap fun a => (cart Ls).map (a :: ·)

/-- an n-d array: extents and the cell at an index list (`none` outside the extents) -/
structure Nd (α : Type) where
  shape : List Nat
  cell : List Nat → Option α

/-- per-axis lookups `[L₁[i₁], …, L_k[i_k]]`; `none` = rank mismatch or out of bounds -/
def lookups {σ : Type} : List (List σ) → List Nat → Option (List σ)
  | [], [] => some []
  | L :: Ls, i :: is =>
    match L[i]?, lookups Ls is with
    | some s, some r => some (s :: r)
    | _, _ => none
  | _, _ => none

/-- separable gather `X[np.ix_(L₁, …, L_k)]` -/
def sepGather {σ α : Type} (X : List σ → α) (Ls : List (List σ)) : Nd α :=
  ⟨Ls.map List.length, fun e => (lookups Ls e).map X⟩

/-- every index is inside the extent of its axis (same rank) -/
def within : List Nat → List Nat → Bool
  | [], [] => true
  | c :: cs, n :: ns => decide (c < n) && within cs ns
  | _, _ => false

def addIdx : List Nat → List Nat → List Nat
  | s :: ss, c :: cs => (s + c) :: addIdx ss cs
  | _, _ => []

/-- NumPy basic slicing `A[s₁:s₁+l₁, …, s_k:s_k+l_k]` -/
def Nd.slice {α : Type} (A : Nd α) (starts lens : List Nat) : Nd α :=
  ⟨lens, fun c => if within c lens then A.cell (addIdx starts c) else none⟩

/-- per axis `(L.drop s).take l`: the source lists of `A[s₁:s₁+l₁, …]` when `A` is the gather of `Ls` -/
def sliceLists {σ : Type} : List (List σ) → List Nat → List Nat → List (List σ)
  | L :: Ls, s :: ss, l :: ls => (L.drop s).take l :: sliceLists Ls ss ls
  | _, _, _ => []

/-! ### one axis of the chunked array -/

/-- chunks, depth before / after, boundary kind (`none` = boundary 'none'; with a kind the depth is symmetric: `dl`) -/
structure Axis where
  cs : List Nat
  dl : Nat
  dr : Nat
  kind : Option Kind

def splitFrom : Nat → List Nat → List (List Nat)
  | _, [] => []
  | s, c :: cs => List.range' s c :: splitFrom (s + c) cs

/-- the positions held by each block of an axis with chunks `cs` -/
def splitPos (cs : List Nat) : List (List Nat) := splitFrom 0 cs

def Axis.n (a : Axis) : Nat := a.cs.sum

/-- the blocks of the axis as source lists -/
def Axis.blocks (a : Axis) : List (List (Option Nat)) := (splitPos a.cs).map (·.map some)

/-- the axis after `boundaries()`: untouched for 'none', `d` pad cells each side otherwise -/
def Axis.padded (a : Axis) : List (Option Nat) :=
  match a.kind with
  | none => (List.range a.n).map some
  | some k => padPositions k a.dl a.n

/-- the extended blocks of the axis: `overlap_internal` for 'none', `overlap` with the boundary otherwise -/
def Axis.ext (a : Axis) : List (List (Option Nat)) :=
  match a.kind with
  | none => overlapBlocks a.dl a.dr a.blocks
  | some k => overlapWithBoundary a.dl (padLeft k a.dl a.n) (padRight k a.dl a.n) a.blocks

/-- **the n-d extended block** `(b₁,…,b_k)`: per axis the source list of the 1-d extended block -/
def ndOverlapBlock (axes : List Axis) (bs : List Nat) : Option (List (List (Option Nat))) :=
  lookups (axes.map Axis.ext) bs

/-- the original block `(b₁,…,b_k)` -/
def ndBlock (axes : List Axis) (bs : List Nat) : Option (List (List (Option Nat))) :=
  lookups (axes.map Axis.blocks) bs

/-! ### closed form: the hyper-rectangle of the (padded) global array -/

/-- first cell of block `b` -/
def Axis.lo (a : Axis) (b : Nat) : Nat := (a.cs.take b).sum

/-- cells the extended block has in front of the block's own cells -/
def Axis.front (a : Axis) (b : Nat) : Nat :=
  match a.kind with
  | none => if b = 0 then 0 else a.dl
  | some _ => a.dl

/-- cells the extended block has behind the block's own cells -/
def Axis.back (a : Axis) (b : Nat) : Nat :=
  match a.kind with
  | none => if b + 1 = a.cs.length then 0 else a.dr
  | some _ => a.dl

/-- first cell of the extended block in the padded axis (`lo - d⁻` clipped at the array edge for 'none'; with a
    boundary the padded axis is shifted by `d`, so it is `lo + d - d`) -/
def Axis.base (a : Axis) (b : Nat) : Nat :=
  match a.kind with
  | none => a.lo b - a.front b
  | some _ => a.lo b

/-- the interval `[lo - d⁻, hi + d⁺)` of the padded axis held by the extended block `b` -/
def Axis.rect (a : Axis) (b : Nat) : Option (List (Option Nat)) :=
  match a.cs[b]? with
  | none => none
  | some len => some ((a.padded.drop (a.base b)).take (a.front b + len + a.back b))

def ndRect : List Axis → List Nat → Option (List (List (Option Nat)))
  | [], [] => some []
  | a :: as, b :: bs =>
    match a.rect b, ndRect as bs with
    | some r, some rs => some (r :: rs)
    | _, _ => none
  | _, _ => none

/-- per axis `(first cell, length)` of the extended block `bs` in the padded global array -/
def rectSpec : List Axis → List Nat → Option (List (Nat × Nat))
  | [], [] => some []
  | a :: as, b :: bs =>
    match a.cs[b]?, rectSpec as bs with
    | some len, some r => some ((a.base b, a.front b + len + a.back b) :: r)
    | _, _ => none
  | _, _ => none

/-- the depth (before, after) a function may use along the axis -/
def Axis.dep (a : Axis) : Nat × Nat := match a.kind with | none => (a.dl, a.dr) | some _ => (a.dl, a.dl)

/-! ### `_trim` on an n-d block -/

/-- the front cut of `_trim` along one axis -/
def trimFront (bdyNone : Bool) (dl j : Nat) : Nat := if j = 0 ∧ bdyNone then 0 else dl

/-- the back cut of `_trim` along one axis (`none` = slice end `None`) -/
def trimBack (bdyNone : Bool) (dr nb j : Nat) : Option Nat :=
  if (j = nb - 1 ∧ bdyNone) ∨ dr = 0 then none else some dr

/-- the stop of `x[front:back]` on an axis of `n` cells -/
def trimStop (n : Nat) : Option Nat → Nat
  | none => n
  | some dr => n - dr

/-- per axis `(front, length)` of `x[front:back]` for a block of extents `shape` -/
def trimSpec : List Axis → List Nat → List Nat → Option (List (Nat × Nat))
  | [], [], [] => some []
  | a :: as, b :: bs, n :: ns =>
    let front := trimFront a.kind.isNone a.dl b
    let stop := trimStop n (trimBack a.kind.isNone a.dep.2 a.cs.length b)
    match trimSpec as bs ns with
    | some r => some ((front, stop - front) :: r)
    | none => none
  | _, _, _ => none

/-- `_trim(x, axes, boundary, (chunk_location, num_chunks))` on the n-d block `A` at block index `bs` -/
def trimNd {α : Type} (axes : List Axis) (bs : List Nat) (A : Nd α) : Option (Nd α) :=
  (trimSpec axes bs A.shape).map fun fl => A.slice (fl.map (·.1)) (fl.map (·.2))

/-! ### functions local within per-axis depths -/

/-- per axis: (offset of the cell inside its window, the window) for the cell at index `e`; the window reaches `dl`
    cells back and `dr` cells ahead, cut at the ends of the array it is applied to -/
def winAxes {σ : Type} : List (Nat × Nat) → List (List σ) → List Nat → Option (List (Nat × List σ))
  | [], [], [] => some []
  | d :: ds, L :: Ls, e :: es =>
    if e < L.length then
      match winAxes ds Ls es with
      | some r => some ((e - (e - d.1), (L.drop (e - d.1)).take (e - (e - d.1) + 1 + d.2)) :: r)
      | none => none
    else none
  | _, _, _ => none

/-- the general n-d function "local within the depths" applied to the array `X[np.ix_(Ls)]`: the output at a cell is
    `g (offset of the cell in its window) (window extents) (window cells, row-major)` -/
def winSep {σ α β : Type} (deps : List (Nat × Nat)) (g : List Nat → List Nat → List α → β) (X : List σ → α)
    (Ls : List (List σ)) : Nd β :=
  ⟨Ls.map List.length, fun e =>
    (winAxes deps Ls e).map fun cw => g (cw.map (·.1)) (cw.map (·.2.length)) ((cart (cw.map (·.2))).map X)⟩

def deps (axes : List Axis) : List (Nat × Nat) := axes.map Axis.dep

/-- index of the block's own cell `c` inside the extended block / inside the padded global array -/
def localIdx : List Axis → List Nat → List Nat → List Nat
  | a :: as, b :: bs, c :: cs => (a.front b + c) :: localIdx as bs cs
  | _, _, _ => []

def globalIdx : List Axis → List Nat → List Nat → List Nat
  | a :: as, b :: bs, c :: cs => (a.base b + a.front b + c) :: globalIdx as bs cs
  | _, _, _ => []

/-- cells `boundaries()` puts in front of the axis -/
def Axis.pad (a : Axis) : Nat := match a.kind with | none => 0 | some _ => a.dl

/-- the block's own cell `c` in the padded global array, written from the block's first cell -/
def blockOffsetIdx : List Axis → List Nat → List Nat → List Nat
  | a :: as, b :: bs, c :: cs => (a.pad + a.lo b + c) :: blockOffsetIdx as bs cs
  | _, _, _ => []

/-- `c` is a cell of block `bs` -/
def coreIdx : List Axis → List Nat → List Nat → Bool
  | [], [], [] => true
  | a :: as, b :: bs, c :: cs => (match a.cs[b]? with | some len => decide (c < len) | none => false) && coreIdx as bs cs
  | _, _, _ => false

end Dask.ArrOverlapNd
