import DaskModel.Model.Counting
/-
`da.unique` on float data containing NaN (C27 extension; dask/array/routines.py `_unique_internal`, `unique`).

Python                                                              Lean
------                                                              ----
float element: a number or NaN                                      `FV := Option Nat` (`none` = NaN; numbers interned
                                                                     order-preservingly by the harness)
`a == b` on floats (IEEE: NaN equals nothing, not even itself)      `ieq`
`v != v`                                                            `isNan`
`u = np.unique(ar)` (sorted distinct numbers, then ONE NaN)         `npUnique`
loop body: `m = ar == v; if v != v: m = ar != ar`                   `mask`
`indices[m].min()`, `counts[m].sum()`                               `uniqueInternalF`
blockwise `_unique_internal` + once more on the concatenation       `chunkRowsF`, `uniqueChunkedF`
`matches = (ar[:,None] == values[None,:]) | (ar != ar)[:,None] & (values != values)[None,:]`;
`(matches * inverse).sum(axis=1)`                                   `inverseOfF`
Import-free of Mathlib (linked into the native driver).
-/
namespace Dask.UniqueNaN
open Dask.Chunks Dask.Counting

/-- a float: `some n` a number, `none` NaN -/
abbrev FV := Option Nat

/-- IEEE `==` -/
def ieq : FV → FV → Bool
  | some a, some b => a == b
  | _, _ => false

/-- `v != v` -/
def isNan (v : FV) : Bool := !(ieq v v)

def numsOf (xs : List FV) : List Nat := xs.filterMap id

/-- `np.unique(ar)` (`equal_nan=True`): the sorted distinct numbers, then one NaN when the array holds any -/
def npUnique (xs : List FV) : List FV :=
  (uniq (numsOf xs)).map some ++ (if xs.any isNan then [none] else [])

structure FRow where
  value : FV
  index : Nat
  count : Nat
  deriving Repr, DecidableEq

/-- the selection `m` of the loop body for the unique value `v` -/
def mask (v : FV) (r : FRow) : Bool := if isNan v then isNan r.value else ieq r.value v

/-- `_unique_internal(ar, indices, counts)` on float data -/
def uniqueInternalF (rows : List FRow) : List FRow :=
  (npUnique (rows.map (·.value))).map (fun v =>
    ⟨v, minList ((rows.filter (mask v)).map (·.index)), sum ((rows.filter (mask v)).map (·.count))⟩)

/-- the rows of one chunk: values with their global positions and counts `1` -/
def rowsOfF : Nat → List FV → List FRow
  | _, [] => []
  | off, x :: xs => ⟨x, off, 1⟩ :: rowsOfF (off + 1) xs

def chunkRowsF : Nat → List (List FV) → List (List FRow)
  | _, [] => []
  | off, b :: bs => uniqueInternalF (rowsOfF off b) :: chunkRowsF (off + b.length) bs

/-- `da.unique(ar, return_index=True, return_counts=True)` -/
def uniqueChunkedF (blocks : List (List FV)) : List FRow :=
  uniqueInternalF (chunkRowsF 0 blocks).flatten

/-- `_unique_internal` once on the whole array -/
def uniqueSpecF (xs : List FV) : List FRow := uniqueInternalF (rowsOfF 0 xs)

/-- one entry of `matches` -/
def matchF (v u : FV) : Bool := ieq v u || (isNan v && isNan u)

/-- `return_inverse` for one element `v` of the array, `u` the unique values -/
def inverseOfF (u : List FV) (v : FV) : Nat :=
  sum ((List.range u.length).map (fun j => if matchF v (u.getD j none) then j else 0))

end Dask.UniqueNaN
