import DaskModel.Model.Csv
/-
K11 (CSV part, options): the header / names / skiprows handling of `dask/dataframe/io/csv.py` as it is NOW.

Python                                                        Lean
------                                                        ----
the keywords one `pandas.read_csv` call sees                  `Kw` (`header`: absent | 'infer' | int | None; `names` given?;
                                                              `skiprows` int)
`pandas.read_csv(text, **kw)` at LINE level                   `pdFrame` (`keptLines`: physical `skiprows`, blank lines are not
                                                              rows; `resolve`: absent/'infer' = row 0 without names, no header
                                                              row with names; EmptyDataError / ParserError = `none`)
`read_pandas`: `kwargs["header"] = kwargs.get("header",       `effHeader`
   "infer" if names is None else None)`
`_header_row(lines, firstrow, header, skip_blank_lines)`      `blanksAt`, `headerRowAux`, `headerRow` (after fix e673923: blank
                                                              lines are not counted, as in pandas)
`header = b"" if header is None or firstrow >= len(parts)     `headerBytes` (after fix 61520db: never IndexError)
   else parts[firstrow] + lt`
`head = reader(BytesIO(b_sample), …)`                         `pdFrame u sample` (its `cols` are the columns of `meta`)
`b_sample` (`read_bytes(sample=…)`), sample-size rule,        `sampleSize`, `TextBlocks.sampleOf`, `need`, `sampleTooSmall`
   "Sample is not large enough"
`_read_csv`, block that starts a file                         `firstKw`  (kwargs as passed, header made explicit)
`_read_csv`, other blocks: `write_header = names is None`,    `writeHeader`, `restKw`
   `pop("skiprows")`, `pop("header")` unless it is None
`pandas_read_text`: `bio.write(header)` iff `write_header`    `blockBytes`
`except EmptyDataError: if is_first: raise; head.iloc[:0]`    `blockFrame` (`emptyData`; after fix af2d511)
`block_mask` (first block of EVERY file)                      `framesOf … true` per file in `readFiles`
`if not blocks: return dd.from_pandas(head.iloc[:0], 1)`      `readFilesWith`: one empty partition (after fix 9074abb)
`to_csv`: header of partition i                               `WOpts`, `hfpo`, `partHeader`, `partText`, `writeFiles`
A frame is `(cols, rows)`: the text of the line that names the columns, terminator stripped (absent when `names=` /
positional), and the data lines.
Not modelled: quoting, `comment=`, list `skiprows`, `skipfooter`, ragged rows, dtype inference.
Import-free of Mathlib.
-/
namespace Dask.CsvOpts
open Dask.TextBlocks Dask.Csv

/-- lines of a text with the terminator kept; the last one may lack it (`decode` of the C50 model, total for `\n`) -/
def mlines (t : List Nat) : List (List Nat) :=
  (pySplitAux NL 0 [] t).dropLast.map (· ++ NL) ++ lastPart (pySplitAux NL 0 [] t)

inductive Hdr where
  | infer
  | row (h : Nat)
  | none
deriving DecidableEq, Repr

/-- keywords of one reader call; `header = Option.none`: the keyword is absent -/
structure Kw where
  header : Option Hdr
  names : Bool
  skiprows : Nat
deriving DecidableEq, Repr

structure Frame where
  cols : Option (List Nat)
  rows : List (List Nat)
deriving DecidableEq, Repr

/-- pandas: `some h` = line `h` (of the lines that count) names the columns; `none` = no header row -/
def resolve (kw : Kw) : Option Nat :=
  match kw.header with
  | some (.row h) => some h
  | some .none => none
  | _ => if kw.names then none else some 0

/-- a line pandas does not count (`skip_blank_lines=True`): only blanks / tabs before the terminator -/
def isBlank (l : List Nat) : Bool := l.all fun c => c == 10 || c == 13 || c == 32 || c == 9

/-- the lines that count: `skiprows` physical lines dropped, then the blank ones -/
def keptLines (kw : Kw) (text : List Nat) : List (List Nat) :=
  ((mlines text).drop kw.skiprows).filter fun l => !isBlank l

/-- a line without its terminator -/
def stripNL (l : List Nat) : List Nat := if l.getLast? == some 10 then l.dropLast else l

/-- a frame from the lines that count; `none` = EmptyDataError (no names, nothing to parse) or
    ParserError ("Passed header=h but only k lines in file") -/
def pdOf (kw : Kw) (ls : List (List Nat)) : Option Frame :=
  if ls.isEmpty then (if kw.names then some ⟨none, []⟩ else none)
  else match resolve kw with
    | none => some ⟨none, ls⟩
    | some h => if h < ls.length then some ⟨if kw.names then none else ls[h]?.map stripNL, ls.drop (h + 1)⟩ else none

/-- `pandas.read_csv(BytesIO(text), header=…, names=…, skiprows=…)` at line level -/
def pdFrame (kw : Kw) (text : List Nat) : Option Frame := pdOf kw (keptLines kw text)

/-! ## `read_pandas` / `_read_csv` (`u` = the user's keywords) -/

def effHeader (u : Kw) : Hdr := u.header.getD (if u.names then .none else .infer)

/-- the `header` argument of `_header_row`: `header if isinstance(header, int) else 0` -/
def headerInt (u : Kw) : Nat := match effHeader u with | .row h => h | _ => 0

/-- `while skip_blank_lines and row < len(lines) and not lines[row].strip(b" \t\r"): row += 1` — the number of steps -/
def blanksAt (lines : List (List Nat)) (row : Nat) : Nat := ((lines.drop row).takeWhile isBlank).length

/-- the `for remaining in range(header, -1, -1)` loop of `_header_row` -/
def headerRowAux (lines : List (List Nat)) : Nat → Nat → Nat
  | 0, row => row + blanksAt lines row
  | r + 1, row => headerRowAux lines r (row + blanksAt lines row + 1)

/-- `_header_row(lines, firstrow, header, True)` -/
def headerRow (lines : List (List Nat)) (firstrow header : Nat) : Nat :=
  if headerRowAux lines header firstrow < lines.length then headerRowAux lines header firstrow else firstrow + header

/-- `header = b"" if header is None or firstrow >= len(parts) else parts[firstrow] + lt` (after fix 61520db the row
    beyond the sample no longer raises IndexError; the `Option` is kept for the callers, the value is always `some`) -/
def headerBytes (u : Kw) (sample : List Nat) : Option (List Nat) :=
  match effHeader u with
  | .none => some []
  | _ =>
    match (pySplitAux NL 0 [] sample)[headerRow (pySplitAux NL 0 [] sample) u.skiprows (headerInt u)]? with
    | some p => some (p ++ NL)
    | none => some []

def firstKw (u : Kw) : Kw := { u with header := some (effHeader u) }

def restKw (u : Kw) : Kw :=
  { header := (match effHeader u with | .none => some .none | _ => Option.none), names := u.names, skiprows := 0 }

def writeHeader (u : Kw) (isFirst : Bool) : Bool := !isFirst && !u.names

def blockBytes (u : Kw) (hdr : List Nat) (isFirst : Bool) (block : List Nat) : List Nat :=
  if writeHeader u isFirst then hdr ++ block else block

/-- pandas raises EmptyDataError: nothing to parse and no `names` -/
def emptyData (kw : Kw) (text : List Nat) : Bool := (keptLines kw text).isEmpty && !kw.names

/-- one partition; `rk` = the keyword rewrite for blocks that do not start a file (`restKw` in the code); `hc` = the
    columns of `head` -/
def blockFrame (rk : Kw → Kw) (u : Kw) (hdr : List Nat) (hc : Option (List Nat)) (isFirst : Bool) (block : List Nat) :
    Option Frame :=
  if !isFirst && emptyData (rk u) (blockBytes u hdr isFirst block) then some ⟨hc, []⟩
  else pdFrame (if isFirst then firstKw u else rk u) (blockBytes u hdr isFirst block)

def framesOf (rk : Kw → Kw) (u : Kw) (hdr : List Nat) (hc : Option (List Nat)) : Bool → List (List Nat) → Option (List Frame)
  | _, [] => some []
  | first, b :: bs =>
    match blockFrame rk u hdr hc first b, framesOf rk u hdr hc false bs with
    | some f, some fs => some (f :: fs)
    | _, _ => none

def readFileWith (rk : Kw → Kw) (u : Kw) (hdr : List Nat) (hc : Option (List Nat)) (data : List Nat) (bs : Option Nat) :
    Option (List Frame) :=
  match fileBlocks ieee data NL bs with
  | some blocks => framesOf rk u hdr hc true blocks
  | none => none

def readFile := readFileWith restKw

def readAll (rk : Kw → Kw) (u : Kw) (hdr : List Nat) (hc : Option (List Nat)) (bs : Option Nat) :
    List (List Nat) → Option (List Frame)
  | [] => some []
  | d :: ds =>
    match readFileWith rk u hdr hc d bs, readAll rk u hdr hc bs ds with
    | some f, some fs => some (f ++ fs)
    | _, _ => none

/-- the number of bytes `read_pandas` samples: `sample=` (`S`, default 256000), cut down to the blocksize when rows are
    skipped (`if blocksize and sample and blocksize < sample and lastskiprow != 0: sample = blocksize`) -/
def sampleSize (u : Kw) (bs : Option Nat) (S : Nat) : Nat :=
  match bs with
  | some b => if b < S && u.skiprows != 0 then b else S
  | none => S

/-- `need = 1 if header is None else 2` -/
def need (u : Kw) : Nat := match effHeader u with | .none => 1 | _ => 2

/-- `nparts < lastskiprow + need and len(b_sample) >= sample`: ValueError("Sample is not large enough …") -/
def sampleTooSmall (u : Kw) (ss : Nat) (smp : List Nat) : Bool :=
  decide ((mlines smp).length < u.skiprows + need u) && decide (ss ≤ smp.length)

/-- `dd.read_csv([files…], blocksize=bs, sample=S, **u)`: the frame of every partition (the header bytes and `head` come
    from the sample of the FIRST file; every file's first block is parsed with the user's keywords) -/
def readFilesWith (rk : Kw → Kw) (u : Kw) (S : Nat) (files : List (List Nat)) (bs : Option Nat) : Option (List Frame) :=
  match files with
  | [] => none
  | f0 :: _ =>
    if sampleTooSmall u (sampleSize u bs S) (sampleOf (sampleSize u bs S) NL f0) then none
    else match headerBytes u (sampleOf (sampleSize u bs S) NL f0), pdFrame u (sampleOf (sampleSize u bs S) NL f0) with
      | some hdr, some head =>
        -- no block at all (every file empty, read with a blocksize): one empty partition built from `head`
        -- (`if not blocks: return dd.from_pandas(head.iloc[:0], npartitions=1)`, after fix 9074abb)
        match readAll rk u hdr head.cols bs files with
        | some [] => some [⟨head.cols, []⟩]
        | r => r
      | _, _ => none

def readFiles := readFilesWith restKw

/-- executable form of the hypothesis `FirstCovers` of the theorems (Lemmas/CsvOpts.lean): the first block contains the
    rows the keywords consume -/
def coversB (kw : Kw) (K0 : List (List Nat)) : Bool :=
  match resolve kw with
  | some h => decide (h < K0.length)
  | none => kw.names || !K0.isEmpty

def firstCoversB (u : Kw) : List (List Nat) → Bool
  | [] => u.names
  | b0 :: _ => decide (u.skiprows ≤ (mlines b0).length) && coversB u (keptLines u b0)

/-- `FileOK` of the theorems for one file and blocksize -/
def fileOKB (u : Kw) (data : List Nat) (bs : Option Nat) : Bool :=
  match fileBlocks ieee data NL bs with
  | some blocks => firstCoversB u blocks
  | none => false

/-- a seeded variant (kept as a refutation witness): `header` is cleared for later blocks only when `names` is not
    given, so `names=… , header=0` keeps `header=0` and every later block loses its first row -/
def restKwNamesKeepHeader (u : Kw) : Kw :=
  { header := (if u.names then some (effHeader u) else (restKw u).header), names := u.names, skiprows := 0 }

/-! ## `to_csv` -/

structure WOpts where
  singleFile : Bool
  headerFirstOnly : Option Bool
  header : Bool
deriving DecidableEq, Repr

/-- `header_first_partition_only` after defaulting; `none` = ValueError -/
def hfpo (w : WOpts) : Option Bool :=
  match w.headerFirstOnly with
  | none => some w.singleFile
  | some v => if !v && w.singleFile then none else some v

/-- does partition `i` write the header line -/
def partHeader (w : WOpts) (first : Bool) (i : Nat) : Bool := w.header && (i == 0 || !first)

/-- `pandas.DataFrame.to_csv` of one partition at line level -/
def partText (cols : List Nat) (hdr : Bool) (rows : List (List Nat)) : List Nat :=
  (if hdr then cols else []) ++ rows.flatten

def partTextsFrom (w : WOpts) (first : Bool) (cols : List Nat) : Nat → List (List (List Nat)) → List (List Nat)
  | _, [] => []
  | i, rows :: ps => partText cols (partHeader w first i) rows :: partTextsFrom w first cols (i + 1) ps

def partTexts (w : WOpts) (first : Bool) (cols : List Nat) (parts : List (List (List Nat))) : List (List Nat) :=
  partTextsFrom w first cols 0 parts

/-- the contents of the files `to_csv` writes, in partition order (`none` = ValueError) -/
def writeFiles (w : WOpts) (cols : List Nat) (parts : List (List (List Nat))) : Option (List (List Nat)) :=
  match hfpo w with
  | none => none
  | some first =>
    if w.singleFile then some [(partTexts w first cols parts).flatten] else some (partTexts w first cols parts)

end Dask.CsvOpts
