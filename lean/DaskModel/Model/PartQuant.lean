import DaskModel.Model.Repart
/-
C45 (last clause): the quantile-based divisions of `set_index` / `sort_values`.
`dask/dataframe/partitionquantiles.py` and `dask/dataframe/dask_expr/_quantiles.py`, transliterated over
EXACT weights (integers; every step below is homogeneous in the weights, so a list of rational weights is
covered by scaling with the common denominator).

Python                                                     Lean
------                                                     ----
a summary `(vals, weights)` / `()`                          `Summary = List (Int × Int)` (zipped) / `[]`
tuple comparison `(v2, w2) < (v1, w1)`                      `pairLt`
`toolz.merge_sorted` (`_merge_sorted_binary`)               `merge2` (= core `List.merge`, ties from the left), `mergeSorted`
the compress loop of `merge_and_compress_summaries`         `compressGo`, `compress`
`merge_and_compress_summaries`                              `mergeAndCompress`
`percentiles_to_weights` (twice the weight, integer qs)     `ptw2`
`percentiles_summary` on one partition, 'nearest'           `percentilesSummary` (picked positions = parameter)
`tree_groups` (Bresenham)                                   `tgLoop`, `treeGroups`
`create_merge_tree` evaluated + the one-partition fix-up    `treeLevel`, `treeReduce`, `mergedSummary` (`tree_width` = parameter)
`process_val_weights`                                       `processValWeights` (`exactly`, `undersampled`, `oversampled`)
`np.cumsum`, `np.searchsorted(.., 'left'|'right')`          `cumsum`, `countLt`, `countLe` (on `j*T/k` by cross-multiplication)
`np.linspace(0, L-1, m, dtype=int)`                         `dupIndex` (IEEE model `Repart.splitPositions`)
`rv.sort()`                                                 `sortInts` (insertion sort)
`RepartitionQuantiles._layer` evaluated                     `repartitionQuantiles`
`_calculate_divisions`: drop duplicate divisions            `pdUnique`, `dropDuplicateDivisions`

Values are `Int` (integer-valued data; any other ordered type after an order-preserving interning: the modelled
paths only compare values). NOT modelled (validated only): the `np.interp` branch for under-sampled numeric data
(`Out.interp`), float rounding of weights / `np.linspace` targets, NaN/NaT values, the dtype conversions at the end
of `process_val_weights` (categorical codes, datetimes, `np.floor` for integer dtypes).
`()` and `([], [])` are both `[]`: `percentiles_summary` returns `()` exactly for an empty partition and otherwise
one value per percentile (at least two). No Mathlib.
-/
namespace Dask.PQ

abbrev P := Int × Int
abbrev Summary := List P

/-- Python's `a < b` on `(val, weight)` tuples -/
def pairLt (a b : P) : Bool := decide (a.1 < b.1) || (a.1 == b.1 && decide (a.2 < b.2))

/-- one binary merge of `_merge_sorted_binary`: `if val2 < val1: yield val2 else: yield val1` -/
def merge2 (xs ys : List P) : List P := List.merge xs ys (fun a b => !pairLt b a)

/-- `merge_sorted(*seqs)`: `[]`, one sequence, or split at `len // 2` and merge the halves -/
def mergeSorted (seqs : List (List P)) : List P :=
  match seqs with
  | [] => []
  | [s] => s
  | a :: b :: rest =>
    merge2 (mergeSorted ((a :: b :: rest).take ((a :: b :: rest).length / 2)))
           (mergeSorted ((a :: b :: rest).drop ((a :: b :: rest).length / 2)))
termination_by seqs.length
decreasing_by
  all_goals simp only [List.length_take, List.length_drop, List.length_cons]
  all_goals omega

/-- the `for val, weight in it` loop with `(prev_val, prev_weight)` carried; the trailing
    `if val == prev_val` always holds for integers (it drops a trailing NaN group: float path) -/
def compressGo (pv pw : Int) : List P → List P
  | [] => [(pv, pw)]
  | (v, w) :: rest => if v = pv then compressGo pv (pw + w) rest else (pv, pw) :: compressGo v w rest

def compress : List P → List P
  | [] => []
  | (v, w) :: rest => compressGo v w rest

/-- `merge_and_compress_summaries` -/
def mergeAndCompress (ss : List Summary) : Summary :=
  let ne := ss.filter (fun s => !s.isEmpty)
  if ne.isEmpty then [] else compress (mergeSorted ne)

/-! ### per-partition summaries -/

/-- `diff[1:] + diff[:-1]` of `np.ediff1d(qs, 0.0, 0.0)` -/
def diffSums : Int → List Int → List Int
  | _, [] => []
  | prev, [q] => [q - prev]
  | prev, q :: q' :: rest => (q' - prev) :: diffSums q (q' :: rest)

/-- twice `percentiles_to_weights(qs, vals, length)[1]` for integer percentiles: `length * (diff[1:] + diff[:-1])` -/
def ptw2 (qs : List Int) (length : Nat) : List Int :=
  if length = 0 then [] else                       -- `if length == 0: return ()`
  match qs with
  | [] => []
  | q :: rest => (diffSums q (q :: rest)).map (fun d => (length : Int) * d)

/-- `percentiles_summary` on a partition whose SORTED values are `d`, with interpolation='nearest': percentile `i`
    picks the element at position `pos[i]` (computed by pandas in floating point: a parameter). `none` = a position
    outside the data. Weights in half units. -/
def percentilesSummary (d : List Int) (pos : List Nat) (qs : List Int) : Option Summary :=
  if d.isEmpty then some [] else
  (pos.mapM (fun p => d[p]?)).map fun vals => vals.zip (ptw2 qs d.length)

/-! ### the merge tree -/

/-- the `for _ in range(num_groups)` loop of `tree_groups` -/
def tgLoop (gs : Nat) (dx dy : Int) : Nat → Int → List Nat
  | 0, _ => []
  | m + 1, D => if D < 0 then gs :: tgLoop gs dx dy m (D + 2 * dy)
                else (gs + 1) :: tgLoop gs dx dy m (D - 2 * dx + 2 * dy)

/-- `tree_groups(N, num_groups)`; `none` = ZeroDivisionError -/
def treeGroups (N g : Nat) : Option (List Nat) :=
  if g = 0 then none else
  let gs := N / g
  let dy : Int := (N : Int) - (gs * g : Nat)
  some (tgLoop gs g dy g (2 * dy - g))

/-- one level of `create_merge_tree`: `func(list(take(num, prev_keys)))` for every group (what is left over when
    the groups do not cover the keys is dropped, as `zip`/`take` do) -/
def treeLevel : List Nat → List Summary → List Summary
  | [], _ => []
  | g :: gs, xs => mergeAndCompress (xs.take g) :: treeLevel gs (xs.drop g)

/-- the `while prev_width > 1` loop; `widths` = the successive `tree_width(prev_width)` (float `math.log`: a
    parameter). `none` = the widths ran out (the model was not given enough levels) or ZeroDivisionError. -/
def treeReduce : List Nat → List Summary → Option (List Summary)
  | ws, xs =>
    if xs.length ≤ 1 then some xs else
    match ws with
    | [] => none
    | w :: ws' =>
      match treeGroups xs.length w with
      | none => none
      | some gs => treeReduce ws' (treeLevel gs xs)

/-- the summary under `merged_key = max(merge_dsk)` in `RepartitionQuantiles._layer`: the single node of the last
    level, or `merge_and_compress_summaries([s])` when there is only one partition ("Compress the data even if we
    only have one partition"). `none` = no partition / no single root. -/
def mergedSummary (widths : List Nat) (parts : List Summary) : Option Summary :=
  match parts with
  | [] => none
  | [s] => some (mergeAndCompress [s])
  | _ => match treeReduce widths parts with
    | some [s] => some s
    | _ => none

/-! ### `process_val_weights` -/

inductive Out where
  | ok (divs : List Int)
  | empty      -- `np.array(None)`: no data at all
  | interp     -- under-sampled numeric data: `np.interp` (float interpolation, not modelled)
  | raised
  deriving Repr, DecidableEq

/-- `np.cumsum` -/
def cumsum : Int → List Int → List Int
  | _, [] => []
  | acc, w :: ws => (acc + w) :: cumsum (acc + w) ws

/-- `np.searchsorted(c, num/den, side='left')` for non-decreasing `c`, `den > 0`: how many entries are `< num/den` -/
def countLt (c : List Int) (num den : Int) : Nat := (c.filter fun x => decide (x * den < num)).length
/-- `np.searchsorted(c, num/den, side='right')`: how many entries are `≤ num/den` -/
def countLe (c : List Int) (num den : Int) : Nat := (c.filter fun x => decide (x * den ≤ num)).length

/-- `np.linspace(0, T, k + 1)` as exact fractions `(num, den)`; `k = 0` gives `[0.0]` -/
def qTargets (T : Int) (k : Nat) : List (Int × Int) :=
  if k = 0 then [(0, 1)] else (List.range (k + 1)).map fun (j : Nat) => ((j : Int) * T, (k : Int))

/-- `np.minimum(left, np.maximum(right - 1, 0))` for one target -/
def lowerIdx (c : List Int) (q : Int × Int) : Nat := min (countLt c q.1 q.2) (countLe c q.1 q.2 - 1)

def insertInt (x : Int) : List Int → List Int
  | [] => [x]
  | y :: ys => if x ≤ y then x :: y :: ys else y :: insertInt x ys

/-- `rv.sort()` -/
def sortInts : List Int → List Int
  | [] => []
  | x :: xs => insertInt x (sortInts xs)

/-- `weights >= weights.sum() / npartitions` (exact; `x / 0` is `inf`/`nan` in NumPy: never `>=`) -/
def isJumbo (S : Int) (n : Nat) (p : P) : Bool := decide (n ≠ 0) && decide (S ≤ p.2 * n)

/-- `np.linspace(0, L - 1, m, dtype=int)` (IEEE double model shared with `split_evenly`) -/
def dupIndex (L m : Nat) : Option (List Nat) :=
  if m = 0 then some [] else if m = 1 then some [0] else Repart.splitPositions (L - 1) (m - 1)

/-- `len(vals) < npartitions + 1` -/
def undersampled (s : Summary) (n : Nat) (numeric : Bool) : Out :=
  if numeric then .interp else
  let vals := s.map (·.1)
  match dupIndex vals.length (n - vals.length + 1) with
  | none => .raised
  | some idx =>
    match idx.mapM (fun i => vals[i]?) with
    | none => .raised
    | some dv => .ok (sortInts (vals ++ dv))

/-- the divisions picked among the non-jumbo values: `trimmed_vals[lower]`; `none` = IndexError -/
def pickTrimmed (tr : Summary) (k : Nat) : Option (List Int) :=
  let c := cumsum 0 (tr.map (·.2))
  match c.getLast? with
  | none => none                                  -- `q_weights[-1]` on an empty array
  | some T => (qTargets T k).mapM fun q => (tr.map (·.1))[lowerIdx c q]?

/-- `len(vals) > npartitions + 1` -/
def oversampled (s : Summary) (n : Nat) : Out :=
  let S := (s.map (·.2)).sum
  let jv := (s.filter (isJumbo S n)).map (·.1)
  let tr := s.filter (fun p => !isJumbo S n p)
  if n < jv.length then .raised else               -- `np.linspace(.., negative)`: ValueError
  match pickTrimmed tr (n - jv.length) with
  | none => .raised
  | some trimmed => .ok (sortInts (trimmed ++ jv))

/-- `process_val_weights(vals_and_weights, npartitions, dtype_info)` up to the dtype conversion; `numeric` =
    `np.issubdtype(vals.dtype, np.number) and not categorical` -/
def processValWeights (s : Summary) (n : Nat) (numeric : Bool) : Out :=
  if s.isEmpty then .empty
  else if s.length = n + 1 then .ok (s.map (·.1))
  else if s.length < n + 1 then undersampled s n numeric
  else oversampled s n

/-- the value of `RepartitionQuantiles(frame, n)` given the per-partition summaries -/
def repartitionQuantiles (widths : List Nat) (parts : List Summary) (n : Nat) (numeric : Bool) : Out :=
  match mergedSummary widths parts with
  | none => .raised
  | some s => processValWeights s n numeric

/-! ### the fix-up in `_calculate_divisions` -/

/-- `Series.unique()`: first occurrences, in order -/
def pdUnique : List Int → List Int
  | [] => []
  | x :: xs => x :: (pdUnique xs).filter (fun y => y != x)

/-- `list(divisions.iloc[: n - 1].unique()) + divisions.iloc[n - 1 :].tolist()` -/
def dropDuplicateDivisions (divs : List Int) : List Int :=
  pdUnique (divs.take (divs.length - 1)) ++ divs.drop (divs.length - 1)

end Dask.PQ
