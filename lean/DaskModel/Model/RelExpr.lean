/-
K7' (dfrows): a small relational expression language mirroring the dask-expr classes that the
projection / filter pushdown rules of `_simplify_down` / `_simplify_up` move around
(`FromPandas`, `Projection` with a list / with a scalar, `Filter`, `Assign`, `Binop` subclasses,
`Invert`, literals), its pandas denotation, a NORMAL FORM (symbolic evaluation down to the source
columns) and the decidable equivalence on normal forms that the harness uses to validate every step
of the real optimizer; plus the lazy schema (`metaOf`) for C42.

Python                                             Lean
------                                             ----
`FromPandas(df)` (the single root)                 `E.src`;   `Src` = column names + rows
`Projection(f, [cols])`                            `E.proj cols f`
`Projection(f, 'c')` (a Series)                    `E.col f c`
`Filter(f, predicate)`                             `E.filter f p`
`Assign(f, name, value)`                           `E.assign f name v`
`Add/Sub/Mul/LT/LE/GT/GE/EQ/NE/And/Or(a, b)`       `E.bin op a b`
`Invert(a)`                                        `E.not a`
a Python int operand                               `E.lit k`
a computed frame / series / scalar                 `Val` (rows carry the SOURCE ROW NUMBER: binary blockwise
                                                   operands must have identical row sets — dask's co-alignment)
booleans                                           cells `some 1` / `some 0`
Import-free (linked into the native driver).
-/
namespace Dask.RelExpr

abbrev Cell := Option Int

inductive BinOp where
  | add | sub | mul | lt | le | gt | ge | eq | ne | and | or
  deriving DecidableEq, Repr

def b2c (b : Bool) : Cell := some (if b then 1 else 0)

def BinOp.app : BinOp → Cell → Cell → Cell
  | .add, some a, some b => some (a + b)
  | .sub, some a, some b => some (a - b)
  | .mul, some a, some b => some (a * b)
  | .add, _, _ => none
  | .sub, _, _ => none
  | .mul, _, _ => none
  | .lt, some a, some b => b2c (a < b)
  | .le, some a, some b => b2c (a ≤ b)
  | .gt, some a, some b => b2c (a > b)
  | .ge, some a, some b => b2c (a ≥ b)
  | .eq, some a, some b => b2c (a == b)
  | .ne, some a, some b => b2c (a != b)
  | .ne, _, _ => b2c true
  | .lt, _, _ => b2c false
  | .le, _, _ => b2c false
  | .gt, _, _ => b2c false
  | .ge, _, _ => b2c false
  | .eq, _, _ => b2c false
  | .and, a, b => b2c (a == some 1 && b == some 1)
  | .or, a, b => b2c (a == some 1 || b == some 1)

def notC (a : Cell) : Cell := b2c (!(a == some 1))

inductive E where
  | src
  | proj (cols : List String) (f : E)
  | filter (f p : E)
  | assign (f : E) (name : String) (v : E)
  | col (f : E) (name : String)
  | lit (k : Int)
  | bin (op : BinOp) (a b : E)
  | not (a : E)
  deriving DecidableEq, Repr

structure Src where
  cols : List String
  rows : List (List Cell)
  deriving Repr

/-- position of a column name -/
def colIdx (cols : List String) (n : String) : Option Nat :=
  let i := cols.findIdx (· == n)
  if i < cols.length then some i else none

def getCell (cols : List String) (cells : List Cell) (n : String) : Cell :=
  match colIdx cols n with
  | some i => (cells[i]?).getD none
  | none => none

inductive Val where
  | frame (cols : List String) (rows : List (Nat × List Cell))
  | series (rows : List (Nat × Cell))
  | scalar (c : Cell)
  deriving DecidableEq, Repr

def ids {α} (rows : List (Nat × α)) : List Nat := rows.map (·.1)

/-- pandas/dask semantics; `none` = the expression is ill-formed (unknown column, operands with different row sets) -/
def den (s : Src) : E → Option Val
  | .src => some (.frame s.cols (s.rows.zipIdx.map (fun (r, i) => (i, r))))
  | .proj cs f =>
    match den s f with
    | some (.frame cols rows) =>
      if cs.all (fun c => (colIdx cols c).isSome) then
        some (.frame cs (rows.map (fun (i, r) => (i, cs.map (getCell cols r)))))
      else none
    | _ => none
  | .col f n =>
    match den s f with
    | some (.frame cols rows) =>
      if (colIdx cols n).isSome then some (.series (rows.map (fun (i, r) => (i, getCell cols r n)))) else none
    | _ => none
  | .filter f p =>
    match den s f, den s p with
    | some (.frame cols rows), some (.series ps) =>
      if ids rows == ids ps then
        some (.frame cols ((rows.zip ps).filterMap (fun (r, q) => if q.2 == some 1 then some r else none)))
      else none
    | some (.series xs), some (.series ps) =>       -- `series[predicate]`
      if ids xs == ids ps then
        some (.series ((xs.zip ps).filterMap (fun (r, q) => if q.2 == some 1 then some r else none)))
      else none
    | _, _ => none
  | .assign f n v =>
    match den s f, den s v with
    | some (.frame cols rows), some (.series vs) =>
      if ids rows == ids vs then
        match colIdx cols n with
        | some j => some (.frame cols ((rows.zip vs).map (fun (r, q) => (r.1, r.2.set j q.2))))
        | none => some (.frame (cols ++ [n]) ((rows.zip vs).map (fun (r, q) => (r.1, r.2 ++ [q.2]))))
      else none
    | some (.frame cols rows), some (.scalar c) =>
      match colIdx cols n with
      | some j => some (.frame cols (rows.map (fun r => (r.1, r.2.set j c))))
      | none => some (.frame (cols ++ [n]) (rows.map (fun r => (r.1, r.2 ++ [c]))))
    | _, _ => none
  | .lit k => some (.scalar (some k))
  | .bin op a b =>
    match den s a, den s b with
    | some (.series xs), some (.series ys) =>
      if ids xs == ids ys then some (.series ((xs.zip ys).map (fun (x, y) => (x.1, op.app x.2 y.2)))) else none
    | some (.series xs), some (.scalar c) => some (.series (xs.map (fun x => (x.1, op.app x.2 c))))
    | some (.scalar c), some (.series ys) => some (.series (ys.map (fun y => (y.1, op.app c y.2))))
    | some (.scalar c), some (.scalar d) => some (.scalar (op.app c d))
    | _, _ => none
  | .not a =>
    match den s a with
    | some (.series xs) => some (.series (xs.map (fun x => (x.1, notC x.2))))
    | some (.scalar c) => some (.scalar (notC c))
    | _ => none

/-! ## normal forms: everything expressed over the SOURCE columns -/

inductive CX where
  | col (n : String)
  | const (c : Cell)
  | bin (op : BinOp) (a b : CX)
  | not (a : CX)
  deriving DecidableEq, Repr

def CX.eval (cols : List String) (r : List Cell) : CX → Cell
  | .col n => getCell cols r n
  | .const c => c
  | .bin op a b => op.app (a.eval cols r) (b.eval cols r)
  | .not a => notC (a.eval cols r)

/-- the conjuncts of a predicate -/
def conj : CX → List CX
  | .bin .and a b => conj a ++ conj b
  | c => [c]

inductive NF where
  | frame (filters : List CX) (cols : List (String × CX))
  | series (filters : List CX) (c : CX)
  | scalar (c : Cell)
  deriving DecidableEq, Repr

def subset (a b : List CX) : Bool := a.all (fun x => b.contains x)
def sameSet (a b : List CX) : Bool := subset a b && subset b a

def lookupCX (cols : List (String × CX)) (n : String) : Option CX := (cols.find? (·.1 == n)).map (·.2)

def setCX (cols : List (String × CX)) (n : String) (c : CX) : List (String × CX) :=
  if cols.any (·.1 == n) then cols.map (fun kv => if kv.1 == n then (n, c) else kv) else cols ++ [(n, c)]

/-- symbolic evaluation; `none` = outside the checkable fragment (ill-formed, or operands whose row
    sets are not syntactically the same filter set) -/
def nf (srcCols : List String) : E → Option NF
  | .src => some (.frame [] (srcCols.map (fun c => (c, CX.col c))))
  | .proj cs f =>
    match nf srcCols f with
    | some (.frame fl cols) =>
      if cs.Nodup && cs.all (fun c => (lookupCX cols c).isSome) then
        some (.frame fl (cs.map (fun c => (c, (lookupCX cols c).getD (.const none)))))
      else none     -- unknown columns are ill-formed; duplicate selections are outside the checkable fragment
    | _ => none
  | .col f n =>
    match nf srcCols f with
    | some (.frame fl cols) => (lookupCX cols n).map (fun cx => NF.series fl cx)
    | _ => none
  | .filter f p =>
    match nf srcCols f, nf srcCols p with
    | some (.frame fl cols), some (.series fl' c) =>
      if sameSet fl fl' then some (.frame (fl ++ conj c) cols) else none
    | some (.series fl x), some (.series fl' c) =>
      if sameSet fl fl' then some (.series (fl ++ conj c) x) else none
    | _, _ => none
  | .assign f n v =>
    match nf srcCols f, nf srcCols v with
    | some (.frame fl cols), some (.series fl' c) =>
      if sameSet fl fl' then some (.frame fl (setCX cols n c)) else none
    | some (.frame fl cols), some (.scalar c) => some (.frame fl (setCX cols n (.const c)))
    | _, _ => none
  | .lit k => some (.scalar (some k))
  | .bin op a b =>
    match nf srcCols a, nf srcCols b with
    | some (.series fl x), some (.series fl' y) => if sameSet fl fl' then some (.series fl (.bin op x y)) else none
    | some (.series fl x), some (.scalar y) => some (.series fl (.bin op x (.const y)))
    | some (.scalar x), some (.series fl y) => some (.series fl (.bin op (.const x) y))
    | some (.scalar x), some (.scalar y) => some (.scalar (op.app x y))
    | _, _ => none
  | .not a =>
    match nf srcCols a with
    | some (.series fl x) => some (.series fl (.not x))
    | some (.scalar x) => some (.scalar (notC x))
    | _ => none

/-- rows of the source that pass every filter, with their row numbers -/
def keep (s : Src) (fl : List CX) : List (Nat × List Cell) :=
  (s.rows.zipIdx.map (fun (r, i) => (i, r))).filter (fun ir => fl.all (fun c => c.eval s.cols ir.2 == some 1))

def denNF (s : Src) : NF → Val
  | .frame fl cols => .frame (cols.map (·.1)) ((keep s fl).map (fun ir => (ir.1, cols.map (fun kv => kv.2.eval s.cols ir.2))))
  | .series fl c => .series ((keep s fl).map (fun ir => (ir.1, c.eval s.cols ir.2)))
  | .scalar c => .scalar c

/-! ### boolean structure of predicates: equivalence by truth table over the atoms -/

/-- maximal non-boolean subterms of a predicate -/
def atoms : CX → List CX
  | .bin .and a b => atoms a ++ atoms b
  | .bin .or a b => atoms a ++ atoms b
  | .not a => atoms a
  | c => [c]

/-- truth of a predicate as a function of the truth of its atoms -/
def truthWith (σ : CX → Bool) : CX → Bool
  | .bin .and a b => truthWith σ a && truthWith σ b
  | .bin .or a b => truthWith σ a || truthWith σ b
  | .not a => !truthWith σ a
  | c => σ c

/-- all boolean vectors of length n -/
def allBools : Nat → List (List Bool)
  | 0 => [[]]
  | n + 1 => (allBools n).flatMap (fun bs => [true :: bs, false :: bs])

/-- the assignment that gives atom `as[i]` the value `bs[i]` (first occurrence) -/
def assign (as : List CX) (bs : List Bool) (c : CX) : Bool :=
  match as, bs with
  | a :: as', b :: bs' => if a == c then b else assign as' bs' c
  | _, _ => false

/-- two filter lists denote the same row predicate for EVERY truth assignment of their atoms
    (`p | p = p`, `(p & q) | (p & r) = p & (q | r)`, commutativity, De Morgan, …) -/
def ttEquiv (fl fl' : List CX) : Bool :=
  let as := (fl ++ fl').flatMap atoms
  (allBools as.length).all (fun bs => fl.all (truthWith (assign as bs)) == fl'.all (truthWith (assign as bs)))

def filtEquiv (fl fl' : List CX) : Bool := sameSet fl fl' || ttEquiv fl fl'

/-- decidable equivalence of normal forms: same output expressions, equivalent filters -/
def NF.equiv : NF → NF → Bool
  | .frame fl cols, .frame fl' cols' => cols == cols' && filtEquiv fl fl'
  | .series fl c, .series fl' c' => c == c' && filtEquiv fl fl'
  | .scalar c, .scalar c' => c == c'
  | _, _ => false

/-- one optimizer step `a ⟶ b` is accepted when both sides have equivalent normal forms -/
def checkStep (srcCols : List String) (a b : E) : Bool :=
  match nf srcCols a, nf srcCols b with
  | some x, some y => x.equiv y
  | _, _ => false

def checkTrace (srcCols : List String) : List E → Bool
  | a :: b :: rest => checkStep srcCols a b && checkTrace srcCols (b :: rest)
  | _ => true

/-! ## lazy schema (C42) -/

inductive Schema where
  | frame (cols : List String)
  | series
  | scalar
  deriving DecidableEq, Repr

def Val.schema : Val → Schema
  | .frame cols _ => .frame cols
  | .series _ => .series
  | .scalar _ => .scalar

/-- what `._meta` knows without data: the kind of object and the column names in order -/
def metaOf (srcCols : List String) : E → Option Schema
  | .src => some (.frame srcCols)
  | .proj cs f =>
    match metaOf srcCols f with
    | some (.frame cols) => if cs.all (fun c => (colIdx cols c).isSome) then some (.frame cs) else none
    | _ => none
  | .col f n =>
    match metaOf srcCols f with
    | some (.frame cols) => if (colIdx cols n).isSome then some .series else none
    | _ => none
  | .filter f p =>
    match metaOf srcCols f, metaOf srcCols p with
    | some (.frame cols), some .series => some (.frame cols)
    | some .series, some .series => some .series
    | _, _ => none
  | .assign f n v =>
    match metaOf srcCols f, metaOf srcCols v with
    | some (.frame cols), some .series => some (.frame (if (colIdx cols n).isSome then cols else cols ++ [n]))
    | some (.frame cols), some .scalar => some (.frame (if (colIdx cols n).isSome then cols else cols ++ [n]))
    | _, _ => none
  | .lit _ => some .scalar
  | .bin _ a b =>
    match metaOf srcCols a, metaOf srcCols b with
    | some .series, some .series => some .series
    | some .series, some .scalar => some .series
    | some .scalar, some .series => some .series
    | some .scalar, some .scalar => some .scalar
    | _, _ => none
  | .not a =>
    match metaOf srcCols a with
    | some .series => some .series
    | some .scalar => some .scalar
    | _ => none

end Dask.RelExpr
