import DaskModel.Model.UniqueNaN
/-
C27 extension — `da.unique(ar, return_inverse=True)` on an N-D array (dask/array/routines.py `unique`):

    orig_shape = ar.shape ; ar = ar.ravel()                       # in front
    … per chunk `_unique_internal`, merged `_unique_internal` …   # `uniqueChunkedF` (Model/UniqueNaN.lean)
    matches = ar[:, None] == out["values"][None, :]  (+ NaN clause)
    inverse = (matches * out["inverse"]).sum(axis=1)              # `inverseOfF`
    if len(orig_shape) > 1: inverse = inverse.reshape(orig_shape) # at the end

A 2-d array is the list of its rows; `ravel` (C order) is `flatten`; the blocks are ANY chunking of the ravelled array
(what `ravel` of the chunked n-d array produces is C24's subject).  Leading axes beyond two are more of the same
reshape (rows of rows).  Mathlib-free.
-/
namespace Dask.UniqueNd
open Dask.Counting Dask.UniqueNaN

/-- `ar.ravel()` of a 2-d array given by its rows (C order) -/
def ravel2 {α : Type} (rows : List (List α)) : List α := rows.flatten

/-- `xs.reshape((r, w))` (C order): `r` rows of `w` consecutive elements -/
def reshape2 {α : Type} : Nat → Nat → List α → List (List α)
  | 0, _, _ => []
  | r + 1, w, xs => xs.take w :: reshape2 r w (xs.drop w)

/-- `da.unique(ar, return_inverse=True)` for `ar.shape = (r, w)`, `blocks` = the chunks of `ar.ravel()`:
    (values, inverse reshaped to `(r, w)`).  The values are those of the merged `_unique_internal`, the inverse is
    the `matches` formula against them. -/
def uniqueNdInverse (r w : Nat) (blocks : List (List FV)) : List FV × List (List Nat) :=
  let u := (uniqueChunkedF blocks).map (·.value)
  (u, reshape2 r w (blocks.flatten.map (inverseOfF u)))

end Dask.UniqueNd
