/-
Python `str` methods used by the modelled code, as plain structural functions on `List Char`
(`String.toList` / `String.ofList` at the boundary), so that they reduce in the kernel (`decide`, `rfl`)
and are easy to reason about. ASCII only: the harness never sends non-ASCII text to these functions.
Import-free.
-/
namespace Dask.PyStr

/-- `s.replace(a, b)` for single characters -/
def replaceCharL (a b : Char) : List Char → List Char
  | [] => []
  | c :: r => (if c = a then b else c) :: replaceCharL a b r

def replaceChar (a b : Char) (s : String) : String := String.ofList (replaceCharL a b s.toList)

/-- `s.replace(aa, b)` for a doubled character `aa` (non-overlapping, left to right, like CPython) -/
def replaceDoubleL (a b : Char) : List Char → List Char
  | [] => []
  | [c] => [c]
  | c :: d :: r => if c = a ∧ d = a then b :: replaceDoubleL a b r else c :: replaceDoubleL a b (d :: r)

def replaceDouble (a b : Char) (s : String) : String := String.ofList (replaceDoubleL a b s.toList)

/-- `s.split(sep)` for a single-character separator: always at least one piece -/
def splitL (sep : Char) : List Char → List (List Char)
  | [] => [[]]
  | c :: r =>
    match splitL sep r with
    | [] => [[]]            -- unreachable
    | p :: ps => if c = sep then [] :: p :: ps else (c :: p) :: ps

def split (sep : Char) (s : String) : List String := (splitL sep s.toList).map String.ofList

def lowerL (cs : List Char) : List Char := cs.map Char.toLower
def lower (s : String) : String := String.ofList (lowerL s.toList)
def upperL (cs : List Char) : List Char := cs.map Char.toUpper

def hasChar (c : Char) (s : String) : Bool := s.toList.contains c

def startsWithL (p s : List Char) : Bool := p.isPrefixOf s

end Dask.PyStr
