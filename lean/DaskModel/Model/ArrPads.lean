import DaskModel.Model.Slice1D
import DaskModel.Model.ArrOverlap
/-
C26: the boundary kinds of `dask/array/overlap.py` as the code writes them — Python slices of the axis —

Python                                                          Lean
------                                                          ----
periodic:  l = x[0:depth]; r = x[-depth:]; concatenate([r, x, l])                       `codeLeft/Right .periodic`
reflect:   left = x[0:1] if depth == 1 else x[depth-1::-1]; right = x[-1:-depth-1:-1];
           concatenate([l, x, r])                                                       `codeLeft/Right .reflect`
nearest:   l = repeat(x[0:1], depth); r = repeat(x[-1:-2:-1], depth); concatenate([l, x, r])   `codeLeft/Right .nearest`
constant:  full_like(..., value) of `depth` cells on both sides                        `none` entries
Import-free of Mathlib.
-/
namespace Dask.ArrOverlap
open Dask.Slice1D

/-- positions (of an axis of length `n`) that make up the `d` cells put BEFORE the axis; `none` entry = fill value;
    outer `none` = the slice raised (cannot happen: the steps are ±1) -/
def codeLeft (k : Kind) (d n : Nat) : Option (List (Option Int)) :=
  match k with
  | .periodic => (pySliceIdx n ⟨some (-(d : Int)), none, none⟩).map (·.map some)
  | .reflect =>
    if d = 1 then (pySliceIdx n ⟨some 0, some 1, none⟩).map (·.map some)
    else (pySliceIdx n ⟨some ((d : Int) - 1), none, some (-1)⟩).map (·.map some)
  | .nearest => (pySliceIdx n ⟨some 0, some 1, none⟩).map fun l => l.flatMap fun p => List.replicate d (some p)
  | .constant => some (List.replicate d none)

/-- …and AFTER it -/
def codeRight (k : Kind) (d n : Nat) : Option (List (Option Int)) :=
  match k with
  | .periodic => (pySliceIdx n ⟨some 0, some (d : Int), none⟩).map (·.map some)
  | .reflect => (pySliceIdx n ⟨some (-1), some (-(d : Int) - 1), some (-1)⟩).map (·.map some)
  | .nearest => (pySliceIdx n ⟨some (-1), some (-2), some (-1)⟩).map fun l => l.flatMap fun p => List.replicate d (some p)
  | .constant => some (List.replicate d none)

end Dask.ArrOverlap
