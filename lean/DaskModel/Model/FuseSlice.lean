/-
`dask.array.optimization.fuse_slice` for basic slices and integers (the part `_optimize_slices` uses to fuse
`getitem(getitem(x, a), b)` into `getitem(x, fuse_slice(a, b))`).

Python                                             Lean
------                                             ----
`slice(start, stop, step)` after `normalize_slice` `Sl` (`start`, optional `stop`, `step`; all non-negative)
`normalize_slice` raising for negative entries      the harness maps it to `raised`; the model is total on `Nat`
integer index                                       `Ix.int`
`x[s][j]` for a basic slice with positive step      `Sl.at n s j` : the source position of element `j` (`none` past the end)
Import-free.
-/
namespace Dask.FuseSlice

structure Sl where
  start : Nat
  stop : Option Nat
  step : Nat
  deriving Repr, DecidableEq

/-- `min(a.stop, stop)` over optional stops -/
def minStop : Option Nat → Option Nat → Option Nat
  | none, s => s
  | s, none => s
  | some x, some y => some (min x y)

/-- `fuse_slice(a, b)` for two slices -/
def fuse (a b : Sl) : Sl :=
  { start := a.start + a.step * b.start,
    stop := minStop a.stop (b.stop.map fun s => a.start + a.step * s),
    step := a.step * b.step }

/-- `fuse_slice(a, b)` for a slice and a non-negative integer -/
def fuseInt (a : Sl) (b : Nat) : Nat := a.start + b * a.step

/-- position in a sequence of length `n` of element `j` of `x[s]` (positive step): `start + step*j` while it is
    below `min(stop, n)` -/
def Sl.at (n : Nat) (s : Sl) (j : Nat) : Option Nat :=
  let i := s.start + s.step * j
  if i < n && (match s.stop with | none => true | some t => decide (i < t)) then some i else none

/-- number of elements of `x[s]` for a sequence of length `n` (positive step) -/
def Sl.len (n : Nat) (s : Sl) : Nat :=
  let bound := match s.stop with | none => n | some t => min t n
  if s.step = 0 then 0 else (bound - s.start + s.step - 1) / s.step

/-- the index map of `x[a][b]`: element `j` of the outer slice is element `k = b.start + b.step*j` of `x[a]` (if below
    `b.stop` and inside `x[a]`), which sits at `a`'s position `k` -/
def chainAt (n : Nat) (a b : Sl) (j : Nat) : Option Nat :=
  let k := b.start + b.step * j
  if (match b.stop with | none => true | some t => decide (k < t)) then a.at n k else none

/-! ### index tuples: the walk of `fuse_slice(a, b)` for two tuples

`_optimize_slices` always calls `fuse_slice` with two tuples (dask's `getitem` tasks carry normalised, full-length index
tuples of integers, slices and `None`; integer-array indices never reach a `getitem` task).

Python                                              Lean
------                                              ----
entry of an index tuple                             `Ix` : `int n`, `sl s`, `full` (exactly `slice(None, None, None)`), `newaxis`
`fuse_slice(a[i], b[j])` on entries                 `fuseIx` (`none` = `NotImplementedError`)
`while b[j] is None: result.append(None); j += 1`   `splitNones` (running off the end of `b` is Python's `IndexError`)
the `for i in range(len(a))` walk                   `fuseTuple` (structural in `a`)
-/

inductive Ix where
  | int (n : Nat)
  | sl (s : Sl)
  | full
  | newaxis
  deriving Repr, DecidableEq

def Ix.isInt : Ix → Bool
  | .int _ => true
  | _ => false

/-- `normalize_slice(slice(None, None, None))` -/
def fullSl : Sl := ⟨0, none, 1⟩

/-- the normalised slice of an entry that is a slice -/
def Ix.slice? : Ix → Option Sl
  | .sl s => some s
  | .full => some fullSl
  | _ => none

/-- `fuse_slice` on two entries; `none` is `NotImplementedError` -/
def fuseIx : Ix → Ix → Option Ix
  | .newaxis, .full => some .newaxis
  | a, .int m => a.slice?.map fun s => .int (fuseInt s m)
  | a, b =>
    match a.slice?, b.slice? with
    | some s, some t => some (.sl (fuse s t))
    | _, _ => none

/-- the leading `None`s of `b` (their number) and what follows them -/
def splitNones : List Ix → Nat × List Ix
  | .newaxis :: r => ((splitNones r).1 + 1, (splitNones r).2)
  | r => (0, r)

inductive Res where
  | ok (r : List Ix)
  | notImplemented
  | indexError
  deriving Repr, DecidableEq

def Res.push (pre : List Ix) : Res → Res
  | .ok r => .ok (pre ++ r)
  | e => e

/-- `fuse_slice(a, b)` for two tuples -/
def fuseTuple : List Ix → List Ix → Res
  | [], b => .ok b
  | x :: a, b =>
    if x.isInt || b.isEmpty then (fuseTuple a b).push [x]
    else
      match splitNones b with
      | (_, []) => .indexError
      | (k, y :: b') =>
        match fuseIx x y with
        | none => .notImplemented
        | some z => (fuseTuple a b').push (List.replicate k .newaxis ++ [z])

/-! #### what an index tuple means

`applyB dims t c` : the source coordinate (in an array of shape `dims`) of element `c` of `x[t]`, `none` when `c` is
outside `x[t]`. `applyU t c` is the same without the bounds of the source (only the explicit stops): the position inside
the intermediate array `x[a]` that `b` asks for; whether that position exists is decided by `applyB dims a`. -/

def Sl.atU (s : Sl) (j : Nat) : Option Nat :=
  let i := s.start + s.step * j
  if (match s.stop with | none => true | some t => decide (i < t)) then some i else none

def inBounds : List Nat → List Nat → Bool
  | [], [] => true
  | d :: ds, c :: cs => decide (c < d) && inBounds ds cs
  | _, _ => false

def consOpt (p : Option Nat) (r : Option (List Nat)) : Option (List Nat) :=
  match p, r with
  | some p, some r => some (p :: r)
  | _, _ => none

def applyU : List Ix → List Nat → Option (List Nat)
  | [], c => some c
  | .int n :: t, c => consOpt (some n) (applyU t c)
  | .newaxis :: t, ci :: c => if ci = 0 then applyU t c else none
  | .sl s :: t, ci :: c => consOpt (s.atU ci) (applyU t c)
  | .full :: t, ci :: c => consOpt (fullSl.atU ci) (applyU t c)
  | _ :: _, [] => none

def applyB : List Nat → List Ix → List Nat → Option (List Nat)
  | dims, [], c => if inBounds dims c then some c else none
  | d :: dims, .int n :: t, c => if n < d then consOpt (some n) (applyB dims t c) else none
  | dims, .newaxis :: t, ci :: c => if ci = 0 then applyB dims t c else none
  | d :: dims, .sl s :: t, ci :: c => consOpt (s.at d ci) (applyB dims t c)
  | d :: dims, .full :: t, ci :: c => consOpt (fullSl.at d ci) (applyB dims t c)
  | _, _, _ => none

/-- what dask's index normalisation guarantees before a `getitem` task exists: the slices of `a` that meet an entry of
    `b` have a positive step, and an integer of `b` addresses an existing element of `x[a]`. Same walk as `fuseTuple`. -/
def pairsOK : List Nat → List Ix → List Ix → Bool
  | _, [], _ => true
  | dims, x :: a, b =>
    if x.isInt || b.isEmpty then pairsOK (if x = .newaxis then dims else dims.tail) a b
    else
      match splitNones b with
      | (_, []) => true
      | (_, y :: b') =>
        match x with
        | .newaxis => pairsOK dims a b'
        | _ =>
          (match x.slice?, dims with
           | some s, d :: _ =>
             decide (0 < s.step) && (match y with | .int m => (s.at d m).isSome | _ => true)
           | _, _ => true) && pairsOK dims.tail a b'

/-- entries of an index tuple that are not `None` (each indexes one axis of the array it is applied to) -/
def cntIdx : List Ix → Nat
  | [] => 0
  | .newaxis :: t => cntIdx t
  | _ :: t => cntIdx t + 1

/-- entries of an index tuple that leave an axis in `x[a]` (everything but integers) -/
def cntAxes : List Ix → Nat
  | [] => 0
  | .int _ :: t => cntAxes t
  | _ :: t => cntAxes t + 1

/-- shape of `x[t]` for `x` of shape `dims` (`none`: an integer out of range or too many indices) -/
def shapeIx : List Nat → List Ix → Option (List Nat)
  | dims, [] => some dims
  | d :: dims, .int n :: t => if n < d then shapeIx dims t else none
  | dims, .newaxis :: t => (shapeIx dims t).map (1 :: ·)
  | d :: dims, .sl s :: t => (shapeIx dims t).map (s.len d :: ·)
  | d :: dims, .full :: t => (shapeIx dims t).map (fullSl.len d :: ·)
  | _, _ => none

def stepsPos : List Ix → Bool
  | [] => true
  | .sl s :: t => decide (0 < s.step) && stepsPos t
  | _ :: t => stepsPos t

end Dask.FuseSlice
