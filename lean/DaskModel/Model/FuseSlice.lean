/-
`dask.array.optimization.fuse_slice` for basic slices and integers (the part `_optimize_slices` uses to fuse
`getitem(getitem(x, a), b)` into `getitem(x, fuse_slice(a, b))`).

Python                                             Lean
------                                             ----
`slice(start, stop, step)` after `normalize_slice` `Sl` (`start`, optional `stop`, `step`; all non-negative)
`normalize_slice` raising for negative entries      the harness maps it to `raised`; the model is total on `Nat`
integer index                                       `Ix.int`
`x[s][j]` for a basic slice with positive step      `Sl.at n s j` : the source position of element `j` (`none` past the end)
Import-free.
-/
namespace Dask.FuseSlice

structure Sl where
  start : Nat
  stop : Option Nat
  step : Nat
  deriving Repr, DecidableEq

/-- `min(a.stop, stop)` over optional stops -/
def minStop : Option Nat → Option Nat → Option Nat
  | none, s => s
  | s, none => s
  | some x, some y => some (min x y)

/-- `fuse_slice(a, b)` for two slices -/
def fuse (a b : Sl) : Sl :=
  { start := a.start + a.step * b.start,
    stop := minStop a.stop (b.stop.map fun s => a.start + a.step * s),
    step := a.step * b.step }

/-- `fuse_slice(a, b)` for a slice and a non-negative integer -/
def fuseInt (a : Sl) (b : Nat) : Nat := a.start + b * a.step

/-- position in a sequence of length `n` of element `j` of `x[s]` (positive step): `start + step*j` while it is
    below `min(stop, n)` -/
def Sl.at (n : Nat) (s : Sl) (j : Nat) : Option Nat :=
  let i := s.start + s.step * j
  if i < n && (match s.stop with | none => true | some t => decide (i < t)) then some i else none

/-- number of elements of `x[s]` for a sequence of length `n` (positive step) -/
def Sl.len (n : Nat) (s : Sl) : Nat :=
  let bound := match s.stop with | none => n | some t => min t n
  if s.step = 0 then 0 else (bound - s.start + s.step - 1) / s.step

/-- the index map of `x[a][b]`: element `j` of the outer slice is element `k = b.start + b.step*j` of `x[a]` (if below
    `b.stop` and inside `x[a]`), which sits at `a`'s position `k` -/
def chainAt (n : Nat) (a b : Sl) (j : Nat) : Option Nat :=
  let k := b.start + b.step * j
  if (match b.stop with | none => true | some t => decide (k < t)) then a.at n k else none

end Dask.FuseSlice
