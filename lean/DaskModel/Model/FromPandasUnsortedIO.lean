import DaskModel.DriverLib
import DaskModel.Model.FromPandasUnsorted
/-! Driver handlers of the unsorted / empty `from_pandas` branches (C44 extension). -/
namespace Dask.FPU
open Dask

def optNat? (e : SExp) : Option (Option Nat) :=
  match e.toNat? with
  | some k => some (some k)
  | none => some none

/-- `(fpu-locations n npartitions|none chunksize|none)` ↦ `(ok (locs…))` | `(raised)` -/
def hLocations : Handler := handler fun
  | [n, p, c] => do
    pure (match locations (← n.toNat?) (← optNat? p) (← optNat? c) with
      | some l => .list [.sym "ok", SExp.ofNats l]
      | none => .list [.sym "raised"])
  | _ => none

/-- `(fpu-parts (rows…) npartitions|none chunksize|none)` ↦ `(ok ((rows…)…))` | `(raised)` -/
def hParts : Handler := handler fun
  | [rows, p, c] => do
    pure (match fromPandasUnsorted (← rows.toInts?) (← optNat? p) (← optNat? c) with
      | some ps => .list [.sym "ok", .list (ps.map SExp.ofInts)]
      | none => .list [.sym "raised"])
  | _ => none

def handlers : List (String × Handler) := [("fpu-locations", hLocations), ("fpu-parts", hParts)]

end Dask.FPU
