/-
K13 (part): `HighLevelGraph.cull` (dask/highlevelgraph.py) over a tiny high-level graph.

Python                                                    Lean
------                                                    ----
task key                                                  `K = Nat` (interned)
a layer (Blockwise or Materialized), materialised view    `Layer` = list of `(key, dependencies)`; for a Blockwise layer this is
                                                          what `_cull_dependencies` / `_make_blockwise_graph` give (C10
                                                          `cull_deps_eq_materialised`), no task depends on a key of its own layer
dict iteration order inside a layer                       the list is in *dependents-first* order (well-formedness `Layer.Topo`);
                                                          the worklist of `dask._task_spec.cull` computes the same *set*
`dask._task_spec.cull(dict(layer), keys)`                 `cullTasks` (+ the `len(keys) == len(dsk)` shortcut, `cullLayer`)
`Blockwise.cull` (keys of the layer among `keys`)         `cullTasks` on a layer without internal dependencies
`for layer in reversed(toposort)` loop of `HLG.cull`      `cullLoop` over the layers listed outputs-first
`keys_set |= d; keys_set.discard(k)`                      `updKeys`
`if keys_set:` false → the layer is kept whole            the `keys.isEmpty` branch of `cullStep`
`if not culled_deps: continue`                            the `kept.isEmpty` branch
iteration order of the dict `culled_deps`                 `LayerIn.ord` (arbitrary; supplied by the harness from the real run)
Import-free.
-/
namespace Dask.HLG

abbrev K := Nat
abbrev Task := K × List K
abbrev Layer := List Task

def keysOf (l : List Task) : List K := l.map (·.1)

/-- one pass over a dependents-first task list: keep a task iff it is needed, then need its dependencies -/
def cullTasks : List Task → List K → List Task
  | [], _ => []
  | (k, d) :: r, need => if need.contains k then (k, d) :: cullTasks r (need ++ d) else cullTasks r need

/-- `Layer.cull` / `Blockwise.cull`, with the `len(keys) == len(dsk)` shortcut of `_task_spec.cull`
    (`nkeys` = size of the whole `keys_set`, not only of the keys of this layer) -/
def cullLayer (shortcut : Bool) (l : Layer) (keys : List K) : List Task :=
  if shortcut && keys.eraseDups.length == l.length then l else cullTasks l keys

/-- `for k, d in culled_deps.items(): keys_set |= d; keys_set.discard(k)` -/
def updKeys (keys : List K) (kept : List Task) : List K :=
  kept.foldl (fun ks t => (ks ++ t.2).filter (· != t.1)) keys

/-- `culled_deps` is a dict filled in the pop order of a Python set: its iteration order is unspecified. `ord` is the
    order observed (any list of keys); the tasks are listed in that order, unlisted ones after -/
def reorder (ord : List K) (kept : List Task) : List Task :=
  ord.filterMap (fun k => kept.find? (fun t => t.1 == k)) ++ kept.filter (fun t => !ord.contains t.1)

structure LayerIn where
  /-- the layer's `cull` has the `len(keys) == len(dsk)` shortcut (materialized layers) -/
  shortcut : Bool
  tasks : Layer
  /-- iteration order of the `culled_deps` this layer returns -/
  ord : List K

/-- one iteration of the layer loop; state = (keys_set, ret_layers) -/
def cullStep (st : List K × List (List Task)) (l : LayerIn) : List K × List (List Task) :=
  if st.1.isEmpty then (st.1, st.2 ++ [l.tasks])
  else
    let kept := cullLayer l.shortcut l.tasks st.1
    if kept.isEmpty then st else (updKeys st.1 (reorder l.ord kept), st.2 ++ [kept])

/-- `HighLevelGraph.cull(keys)`; `layers` are listed in `reversed(toposort)` order (outputs first) -/
def cull (layers : List LayerIn) (keys : List K) : List (List Task) :=
  (layers.foldl cullStep (keys, [])).2

/-- symbolic value of a key: the tree of the tasks it is computed from (`fuel` bounds the depth) -/
inductive Tree where
  | missing (k : K)
  | node (k : K) (children : List Tree)
  deriving Repr

def lookupTask (g : List Task) (k : K) : Option (List K) :=
  match g with
  | [] => none
  | (k', d) :: r => if k' = k then some d else lookupTask r k

def eval (g : List Task) : Nat → K → Tree
  | 0, k => .missing k
  | fuel + 1, k => match lookupTask g k with
    | none => .missing k
    | some d => .node k (d.map (eval g fuel))

end Dask.HLG
