import DaskModel.Model.ArrOverlapNd
/-
C26 extension: how `ArrayOverlapLayer` really builds an extended block — not axis by axis but as ONE
`concatenate_shaped` of up to 3^k pieces (`_expand_keys_around_center`: per axis the previous block, the block, the next
block; `fractional_slice`: the previous one cut to its last `dl` cells, the next one to its first `dr` cells; the pieces
are the product over the axes, so a corner block takes a piece from its diagonal neighbour).

Python                                               Lean
------                                               ----
inds(i, ind, depth) + fractional_slice, one axis     `axisPieces dl dr blocks b`
concatenate_shaped(pieces, shape) (= concatenate3)   `assemble segLens piece`
the whole task of block (b₁,…,b_k)                   `ndGather X segs`
-/
namespace Dask.ArrOverlapNd
open Dask.ArrOverlap

/-- the pieces block `b` of one axis is assembled from: `[prev[-dl:]]` (if there is a previous block and `dl ≠ 0`),
    the block, `[next[:dr]]` (if there is a next block and `dr ≠ 0`) -/
def axisPieces {σ : Type} (dl dr : Nat) (blocks : List (List σ)) (b : Nat) : Option (List (List σ)) :=
  match blocks[b]? with
  | none => none
  | some blk =>
    let left : List (List σ) :=
      if b ≠ 0 ∧ dl ≠ 0 then (match blocks[b - 1]? with | some p => [lastN dl p] | none => []) else []
    let right : List (List σ) :=
      if dr ≠ 0 then (match blocks[b + 1]? with | some n => [n.take dr] | none => []) else []
    some (left ++ [blk] ++ right)

/-- position `e` of a concatenation of segments of the given lengths ↦ (segment, offset inside it) -/
def locate : List Nat → Nat → Option (Nat × Nat)
  | [], _ => none
  | n :: ns, e => if e < n then some (0, e) else (locate ns (e - n)).map fun po => (po.1 + 1, po.2)

def locateAll : List (List Nat) → List Nat → Option (List Nat × List Nat)
  | [], [] => some ([], [])
  | ns :: nss, e :: es =>
    match locate ns e, locateAll nss es with
    | some po, some r => some (po.1 :: r.1, po.2 :: r.2)
    | _, _ => none
  | _, _ => none

/-- `concatenate_shaped`: the grid of pieces (`piece ps` = the piece at grid position `ps`; segment lengths per axis)
    assembled into one array -/
def assemble {α : Type} (segLens : List (List Nat)) (piece : List Nat → Option (Nd α)) : Nd α :=
  ⟨segLens.map List.sum, fun e =>
    (locateAll segLens e).bind fun pso => (piece pso.1).bind fun P => P.cell pso.2⟩

/-- the task of one extended block: every grid position `ps` holds the gather of the per-axis pieces `segs_i[ps_i]` -/
def ndGather {σ α : Type} (X : List σ → α) (segs : List (List (List σ))) : Nd α :=
  assemble (segs.map (·.map List.length)) fun ps => (lookups segs ps).map (sepGather X)

/-- per axis the pieces of block `b`: on an axis with a boundary kind the blocks are `padL :: blocks ++ [padR]`
    (what `boundaries()` concatenated) and the block is number `b + 1` -/
def Axis.pieces (a : Axis) (b : Nat) : Option (List (List (Option Nat))) :=
  match a.kind with
  | none => axisPieces a.dl a.dr a.blocks b
  | some k =>
    if b < a.cs.length then
      axisPieces a.dl a.dl (padLeft k a.dl a.n :: (a.blocks ++ [padRight k a.dl a.n])) (b + 1)
    else none

def ndPieces : List Axis → List Nat → Option (List (List (List (Option Nat))))
  | [], [] => some []
  | a :: as, b :: bs =>
    match a.pieces b, ndPieces as bs with
    | some s, some r => some (s :: r)
    | _, _ => none
  | _, _ => none

end Dask.ArrOverlapNd
