import DaskModel.Model.PyStr
/-
K12 `Config`: `dask/config.py`, transliterated.

Python                                        Lean
------                                        ----
nested config dict                            `Dict = List (String × Cfg)` — insertion-ordered association list
                                              (first entry with a key is THE entry; `dset` keeps positions exactly
                                              like a Python dict: overwrite in place, new keys at the end)
any non-mapping value (int, None, str, list)  `Cfg.leaf code`  (the harness interns Python scalars to `Int` codes)
`canonical_name(k, config)`                   `canonicalName`
`set._assign(keys, value, d, path, record)`   `assign`   (`none` = the Python code raised `TypeError`: the walk crossed a
                                              non-mapping; nothing has been mutated at that point — validated by the tie)
`set.__init__(arg, **kwargs)`                 `setInit`  (ops in order; on a raising op the already applied ops are rolled
                                              back by replaying the record — this is the repaired code, see `setInitNoRollback`
                                              for the code as it was before the `fix:` commit)
`set.__exit__`                                `rollback` (reverse replay of the record; `none` = the Python code raised)
`get(key, config=…)`                          `get`
`update(old, new, priority, defaults)`        `update`
`merge(*dicts)`                               `merge`
`collect_env(env)`                            `collectEnv` (`interpret_value` is applied by the caller: values arrive as `Cfg`)
`check_deprecations(key)`                     `checkDeprecations` over the extracted `deprecations` table (parameter)
No Mathlib (linked into the native driver).
-/
namespace Dask.Config
open Dask.PyStr

inductive Cfg where
  | leaf : Int → Cfg
  | node : List (String × Cfg) → Cfg
  deriving Repr, Inhabited

abbrev Dict := List (String × Cfg)

/-! ### Python `dict` primitives on an insertion-ordered association list -/

/-- `d.get(k)` / `d[k]` -/
def dget {α : Type} : List (String × α) → String → Option α
  | [], _ => none
  | (k', v) :: r, k => if k' = k then some v else dget r k

/-- `k in d` -/
def dhas {α : Type} (d : List (String × α)) (k : String) : Bool := (dget d k).isSome

/-- `d[k] = v`: overwrite in place, or append at the end -/
def dset {α : Type} : List (String × α) → String → α → List (String × α)
  | [], k, v => [(k, v)]
  | (k', v') :: r, k, v => if k' = k then (k, v) :: r else (k', v') :: dset r k v

/-- `d.pop(k, None)` -/
def dpop {α : Type} : List (String × α) → String → List (String × α)
  | [], _ => []
  | (k', v') :: r, k => if k' = k then r else (k', v') :: dpop r k

/-! ### canonical_name -/

/-- `k.replace("_", "-") if "_" in k else k.replace("-", "_")` -/
def altName (k : String) : String :=
  if hasChar '_' k then replaceChar '_' '-' k else replaceChar '-' '_' k

/-- `canonical_name(k, config)` for a mapping `config` -/
def canonicalName {α : Type} (k : String) (d : List (String × α)) : String :=
  if dhas d k then k
  else if dhas d (altName k) then altName k
  else k

/-! ### set._assign / set.__init__ / set.__exit__ -/

/-- one entry of `set._record`: `("replace", path, old)` or `("insert", path, None)` -/
inductive Op where
  | replace (path : List String) (old : Cfg)
  | insert (path : List String)
  deriving Repr, Inhabited

/-- `_assign(keys, value, d, path, record)`; result = (mutated `d`, entries appended to `_record`).
    `none` = raised (`TypeError` crossing a non-mapping, or `IndexError` on empty `keys`). -/
def assign : List String → Cfg → Dict → List String → Bool → Option (Dict × List Op)
  | [], _, _, _, _ => none
  | [k], v, d, path, record =>
    let key := canonicalName k d
    let path := path ++ [key]
    let r := if record then
        (match dget d key with
         | some old => [Op.replace path old]
         | none => [Op.insert path])
      else []
    some (dset d key v, r)
  | k :: k2 :: ks, v, d, path, record =>
    let key := canonicalName k d
    let path := path ++ [key]
    match dget d key with
    | none =>
      -- `d[key] = {}`; recorded once; nothing below is recorded
      match assign (k2 :: ks) v [] path false with
      | some (sub, _) => some (dset d key (.node sub), if record then [Op.insert path] else [])
      | none => none
    | some (.node sub) =>
      match assign (k2 :: ks) v sub path record with
      | some (sub', r) => some (dset d key (.node sub'), r)
      | none => none
    | some (.leaf _) => none

/-- `__exit__`, "replace" arm: `for key in path[:-1]: d = d.setdefault(key, {})` then `d[path[-1]] = value`.
    `none` = raised (`setdefault` on a non-mapping). -/
def replaceAt : List String → Cfg → Dict → Option Dict
  | [], _, _ => none
  | [k], v, d => some (dset d k v)
  | k :: k2 :: ks, v, d =>
    match dget d k with
    | none => (replaceAt (k2 :: ks) v []).map fun sub => dset d k (.node sub)
    | some (.node sub) => (replaceAt (k2 :: ks) v sub).map fun sub' => dset d k (.node sub')
    | some (.leaf _) => none

/-- `__exit__`, "insert" arm: walk `d = d[key]` (a missing key ends the walk silently), then `d.pop(path[-1], None)`.
    `none` = raised (subscripting / popping a non-mapping). -/
def popAt : List String → Dict → Option Dict
  | [], _ => none
  | [k], d => some (dpop d k)
  | k :: k2 :: ks, d =>
    match dget d k with
    | none => some d
    | some (.node sub) => (popAt (k2 :: ks) sub).map fun sub' => dset d k (.node sub')
    | some (.leaf _) => none

def undoOp (op : Op) (d : Dict) : Option Dict :=
  match op with
  | .replace path old => replaceAt path old d
  | .insert path => popAt path d

/-- replay of an already reversed record -/
def undoAll : List Op → Dict → Option Dict
  | [], d => some d
  | op :: ops, d => (undoOp op d).bind (undoAll ops)

/-- `set.__exit__`: `for op, path, value in reversed(self._record)` -/
def rollback (record : List Op) (d : Dict) : Option Dict := undoAll record.reverse d

/-- `key.split(".")` -/
def splitKey (key : String) : List String := split '.' key

/-- `check_deprecations(key)` over the extracted `deprecations` table (`none` value = removed key).
    Result `none` = `ValueError` (key removed). -/
def checkDeprecations (depr : List (String × Option String)) (key : String) : Option String :=
  match dget depr (replaceChar '_' '-' key) with
  | some (some new) => if new.isEmpty then none else some new
  | some none => none
  | none => some key

/-- one `(key, value)` item of `arg` (`kw = false`) or of `**kwargs` (`kw = true`: `__` → `.`),
    turned into the `(keys, value)` pair handed to `_assign`; `none` = `check_deprecations` raised. -/
def prepOp (depr : List (String × Option String)) (kw : Bool) (key : String) (v : Cfg) : Option (List String × Cfg) :=
  let key := if kw then replaceDouble '_' '.' key else key
  (checkDeprecations depr key).map fun k => (splitKey k, v)

/-- the loop of `set.__init__` over prepared items, accumulating the record.
    `Sum.inl (cfg, record)` = all ops applied; `Sum.inr (cfg, record)` = an op raised with this state
    (`none` item = `check_deprecations` raised; `assign = none` = `_assign` raised). -/
def applyOps : List (Option (List String × Cfg)) → Dict → List Op → (Dict × List Op) ⊕ (Dict × List Op)
  | [], d, rec => .inl (d, rec)
  | none :: _, d, rec => .inr (d, rec)
  | some (keys, v) :: ops, d, rec =>
    match assign keys v d [] true with
    | some (d', r) => applyOps ops d' (rec ++ r)
    | none => .inr (d, rec)

inductive SetResult where
  | ok (cfg : Dict) (record : List Op)
  | raised (cfg : Dict)            -- config as the raising call leaves it
  | brokenRollback                  -- the rollback inside `__init__` itself raised (proved impossible)
  deriving Repr

/-- `set.__init__` as repaired: a raising assignment rolls the record back before re-raising. -/
def setInit (ops : List (Option (List String × Cfg))) (d : Dict) : SetResult :=
  match applyOps ops d [] with
  | .inl (d', rec) => .ok d' rec
  | .inr (d', rec) =>
    match rollback rec d' with
    | some d'' => .raised d''
    | none => .brokenRollback

/-- `set.__init__` as it was before the repair: a raising assignment leaves the earlier ones applied. -/
def setInitNoRollback (ops : List (Option (List String × Cfg))) (d : Dict) : SetResult :=
  match applyOps ops d [] with
  | .inl (d', rec) => .ok d' rec
  | .inr (d', _) => .raised d'

/-- `set(arg, config=d, **kwargs)`: items of `arg` first, then the keyword items. -/
def setCall (depr : List (String × Option String)) (arg kwargs : List (String × Cfg)) (d : Dict) : SetResult :=
  setInit (arg.map (fun kv => prepOp depr false kv.1 kv.2) ++ kwargs.map (fun kv => prepOp depr true kv.1 kv.2)) d

/-! ### nested `with dask.config.set(...)` blocks -/

/-- programs made of nested/sequenced `with set(arg, **kwargs): body` blocks -/
inductive Prog where
  | skip
  | seq (a b : Prog)
  | withSet (ops : List (Option (List String × Cfg))) (body : Prog)
  deriving Inhabited

inductive Outcome where
  | normal (cfg : Dict)
  | exc (cfg : Dict)       -- an exception is propagating; `cfg` = configuration at that moment
  | stuck                  -- `__exit__` (or the rollback in `__init__`) itself raised: proved impossible
  deriving Repr

/-- run a program; the trace lists the configuration seen at the start of every `with` body (in order). -/
def exec : Prog → Dict → Outcome × List Dict
  | .skip, d => (.normal d, [])
  | .seq a b, d =>
    match exec a d with
    | (.normal d', t) => let (o, t') := exec b d'; (o, t ++ t')
    | r => r
  | .withSet ops body, d =>
    match setInit ops d with
    | .ok d' rec =>
      let (o, t) := exec body d'
      let t := d' :: t
      (match o with
       | .normal d'' => (match rollback rec d'' with | some e => (.normal e, t) | none => (.stuck, t))
       | .exc d'' => (match rollback rec d'' with | some e => (.exc e, t) | none => (.stuck, t))
       | .stuck => (.stuck, t))
    | .raised d' => (.exc d', [])
    | .brokenRollback => (.stuck, [])

/-! ### get -/

inductive GetResult where
  | ok (v : Cfg)
  | keyError
  | typeError
  deriving Repr

/-- `get(key, config=d)` without `default`: walk with `canonical_name` at each level -/
def getPath : List String → Cfg → GetResult
  | [], c => .ok c
  | k :: ks, .node d =>
    match dget d (canonicalName k d) with
    | some c => getPath ks c
    | none => .keyError
  | _ :: _, .leaf _ => .typeError

def get (key : String) (d : Dict) : GetResult := getPath (splitKey key) (.node d)

/-! ### update / merge -/

inductive Priority where
  | new | old | newDefaults
  deriving Repr, DecidableEq

/-- Python truthiness of `defaults`: `None` (no argument), `{}` are falsy; for scalar leaves the wire convention
    is that Python-falsy scalars carry a code `≤ 0` (`0` itself, and codes `≤ -10^6` for `None`, `""`, `[]`, `False`). -/
def truthy : Option Cfg → Bool
  | none => false
  | some (.node []) => false
  | some (.node _) => true
  | some (.leaf c) => decide (c > 0) || decide (-1000000 < c ∧ c < 0)

def cfgBeq : Cfg → Cfg → Bool
  | .leaf a, .leaf b => a == b
  | .node a, .node b => dictBeq a b
  | _, _ => false
where
  /-- Python `dict.__eq__`: same key set, equal values (order-insensitive); here on duplicate-free lists -/
  dictBeq : Dict → Dict → Bool
    | a, b => a.length == b.length && sub a b
  sub : Dict → Dict → Bool
    | [], _ => true
    | (k, v) :: r, b =>
      (match dget b k with
       | some w => cfgBeq v w
       | none => false) && sub r b

/-- `defaults.get(k) if defaults else None`; outer `none` = AttributeError (`.get` on a truthy scalar) -/
def subDefaults (defaults : Option Cfg) (k : String) : Option (Option Cfg) :=
  if truthy defaults then
    (match defaults with
     | some (.node dd) => some (dget dd k)
     | _ => none)
  else some none

/-- entries of `old[k]` when it is a dict, else of the `{}` that replaces it
    (`if k not in old or old[k] is None or not isinstance(old[k], dict): old[k] = {}`) -/
def curOf (old : Dict) (k : String) : Dict :=
  match dget old k with
  | some (.node s) => s
  | _ => []

/-- does a non-mapping item `(k, v)` of `new` overwrite `old[k]`?
    `priority == "new" or k not in old or (priority == "new-defaults" and defaults and k in defaults and
    defaults[k] == old[k])`; `none` = raised (`k in defaults` on a truthy scalar).
    Generic in the value type (`toCfg` reads a value for the `==`), shared with `Model/ConfigAlias.lean`. -/
def leafWins {α : Type} (toCfg : α → Cfg) (p : Priority) (old : List (String × α)) (k : String)
    (defaults : Option Cfg) : Option Bool :=
  if p == .new || !(dhas old k) then some true
  else if p == .newDefaults && truthy defaults then
    match defaults with
    | some (.node dd) =>
      (match dget dd k, dget old k with
       | some dv, some ov => some (cfgBeq dv (toCfg ov))
       | _, _ => some false)
    | _ => none
  else some false

mutual
/-- the recursive call `update(old[k], v, …)` for a mapping-valued item `v` (`cur` = entries of `old[k]`) -/
def updateNode (p : Priority) : Cfg → Dict → Option Cfg → Option Dict
  | .node sub, cur, sd => updateGo p sub cur sd
  | .leaf _, cur, _ => some cur
/-- the loop `for k, v in new.items()` of `update`, argument order `new old` (structural recursion on `new`) -/
def updateGo (p : Priority) : Dict → Dict → Option Cfg → Option Dict
  | [], old, _ => some old
  | kv :: rest, old, defaults =>
    let k := canonicalName kv.1 old
    match kv.2 with
    | .node _ =>
      match subDefaults defaults k with
      | none => none
      | some sd =>
        match updateNode p kv.2 (curOf old k) sd with
        | some cur' => updateGo p rest (dset old k (.node cur')) defaults
        | none => none
    | .leaf _ =>
      match leafWins id p old k defaults with
      | none => none
      | some true => updateGo p rest (dset old k kv.2) defaults
      | some false => updateGo p rest old defaults
end

/-- `update(old, new, priority, defaults)`; `none` = raised (`defaults.get` / `k in defaults` on a truthy scalar). -/
def update (p : Priority) (old new : Dict) (defaults : Option Cfg) : Option Dict := updateGo p new old defaults

/-- `merge(*dicts)` -/
def merge : List Dict → Option Dict
  | ds => ds.foldl (fun acc d => acc.bind fun r => update .new r d none) (some [])

/-! ### collect_env -/

/-- `name[5:].lower().replace("__", ".")` for a name that starts with `DASK_` -/
def envVarName (name : String) : Option String :=
  if startsWithL "DASK_".toList name.toList then
    some (String.ofList (replaceDoubleL '_' '.' (lowerL (name.toList.drop 5))))
  else none

/-- `collect_env(env)`; `inherit` = the already deserialised `DASK_INTERNAL_INHERIT_CONFIG` mapping (`[]` if absent);
    values are already passed through `interpret_value`. The intermediate `d[varname] = …` dict
    makes a later duplicate overwrite an earlier one *in place*. -/
def collectEnv (inherit : Dict) (env : List (String × Cfg)) : SetResult :=
  let d : Dict := env.foldl (fun acc (nv : String × Cfg) =>
    match envVarName nv.1 with
    | some vn => dset acc vn nv.2
    | none => acc) inherit
  setInit (d.map fun kv => some (splitKey kv.1, kv.2)) []

end Dask.Config
