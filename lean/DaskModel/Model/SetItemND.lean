import DaskModel.Model.SetItem
import DaskModel.Model.Store
/-
C21, N-d part: `dask/array/slicing.py::setitem_array` after `parse_assignment_indices` — how the per-axis block
plans are combined, and how the part of the assignment value that belongs to a block is addressed (offset between
array axes and value axes, broadcast value axes, reversed axes, extra leading value axes).

Python (setitem_array)                                              Lean
----------------------                                              ----
parsed indices: slice (int fields, step > 0) | int | 1-d int array  `AIdx`  (NumPy indices; dask indices are not modelled)
implied_shape, reverse (from parse_assignment_indices)              arguments `implied`, `reverse`
reverse renumbered past integer axes; offset / value_offset;
  array_common_shape / value_common_shape                           `setup`
base_value_indices / non_broadcast_dimensions                       `baseValueIndices`  (`none` = ValueError)
the loop `for dim, (index, (loc0, loc1)) in enumerate(zip(indices, locations))`   `loopDims`  (`none` = no overlap)
value_indices for the block (slices from n_preceding / size, value_indices_from_1d_int_index)   `valueIndices`
"reverse the indices to assignment value"                           `reverseVIx`
`value_indices.insert(0, Ellipsis)`                                 leading `.ellipsis`
one dict entry per block in `product(*array_locations)` order       `planND`
Import-free of Mathlib (linked into the native driver).
-/
namespace Dask.SetItemND
open Dask.Slice1D Dask.SetItem Dask.Store

inductive AIdx where
  | sl (start stop step : Int)
  | int (i : Int)
  | arr (index : List Int)
  deriving Repr, DecidableEq

inductive BIx where
  | sl (start stop step : Int)
  | int (i : Int)
  | arr (index : List Int)
  deriving Repr, DecidableEq

inductive VIx where
  | sl (s : PSlice)
  | arr (positions : List Nat)
  | ellipsis
  deriving Repr, DecidableEq

def isInt : AIdx → Bool
  | .int _ => true
  | _ => false

/-- state of the loop over the dimensions of one block -/
structure LoopState where
  blockIndices : List BIx              -- `block_indices`
  shape : List (Option Int)            -- `block_indices_shape` (None for a 1-d integer array)
  preceding : List (Option Int)        -- `block_preceding_sizes`
  arrInfo : Option (Nat × List Int × Int × Int)   -- (pos_1d_int_index, the index array, loc0, loc1)
  deriving Repr, DecidableEq

/-- the loop over dimensions for one block; `none` = "does not overlap" (`overlaps = False; break`) -/
def loopDims : List (AIdx × (Int × Int)) → LoopState → Option LoopState
  | [], st => some st
  | (.sl start stop step, (loc0, loc1)) :: rest, st =>
    match blockSlice start stop step loc0 loc1 with
    | none => none
    | some b => loopDims rest { st with blockIndices := st.blockIndices ++ [BIx.sl b.bstart b.bstop step],
                                        shape := st.shape ++ [some b.size], preceding := st.preceding ++ [some b.npre] }
  | (.int i, (loc0, loc1)) :: rest, st =>
    if loc0 ≤ i ∧ i < loc1 then loopDims rest { st with blockIndices := st.blockIndices ++ [BIx.int (i - loc0)] }
    else none
  | (.arr index, (loc0, loc1)) :: rest, st =>
    let bi := blockIndexInt index loc0 loc1
    if bi.isEmpty then none
    else loopDims rest { blockIndices := st.blockIndices ++ [BIx.arr bi], shape := st.shape ++ [none],
                         preceding := st.preceding ++ [none], arrInfo := some (st.shape.length, index, loc0, loc1) }

structure Setup where
  offset : Nat
  valueOffset : Nat
  arrayCommon : List Int
  valueCommon : List Nat
  reverse : List Nat
  deriving Repr

/-- offsets between array and value axes; `none` = ValueError (extra leading value axes not of size 1) -/
def setup (indices : List AIdx) (implied : List Int) (reverse : List Nat) (vshape : List Nat) : Option Setup :=
  let reverse1 := reverse.map fun i => i - ((indices.take i).filter isInt).length
  if vshape.length ≤ implied.length then
    let offset := implied.length - vshape.length
    some ⟨offset, 0, implied.drop offset, vshape, (reverse1.filter (fun i => decide (offset ≤ i))).map (· - offset)⟩
  else
    let valueOffset := vshape.length - implied.length
    if (vshape.take valueOffset).all (· == 1) then some ⟨0, valueOffset, implied, vshape.drop valueOffset, reverse1⟩
    else none

/-- `base_value_indices` (`some colon` = broadcast, `none` = filled per block) ; outer `none` = ValueError -/
def baseValueIndices : List Int → List Nat → Option (List (Option VIx))
  | a :: as, b :: bs =>
    match baseValueIndices as bs with
    | none => none
    | some rest =>
      if b = 1 then some (some (VIx.sl colon) :: rest)
      else if a = (b : Int) then some (none :: rest)
      else none
  | _, _ => some []

/-- the value index of one non-broadcast dimension `i` of the value for the current block -/
def valueIndexAt (st : LoopState) (vshape : List Nat) (offset valueOffset i : Nat) : Option VIx :=
  let j := i + offset
  match st.arrInfo with
  | some (pos, index, loc0, loc1) =>
    if j = pos then
      -- value_indices_from_1d_int_index(dim, vsize, loc0, loc1); vsize = value_shape[i + value_offset] is only used for dask indices
      let _ := vshape[i + valueOffset]?
      some (VIx.arr (valueIndicesInt index loc0 loc1))
    else
      match st.preceding[j]?, st.shape[j]? with
      | some (some p), some (some s) => some (VIx.sl ⟨some p, some (p + s), none⟩)
      | _, _ => none
  | none =>
    match st.preceding[j]?, st.shape[j]? with
    | some (some p), some (some s) => some (VIx.sl ⟨some p, some (p + s), none⟩)
    | _, _ => none

def fillValueIndices (st : LoopState) (vshape : List Nat) (offset valueOffset : Nat) :
    Nat → List (Option VIx) → Option (List VIx)
  | _, [] => some []
  | i, some v :: rest => (fillValueIndices st vshape offset valueOffset (i + 1) rest).map (v :: ·)
  | i, none :: rest =>
    match valueIndexAt st vshape offset valueOffset i, fillValueIndices st vshape offset valueOffset (i + 1) rest with
    | some v, some r => some (v :: r)
    | _, _ => none

/-- `start, stop, step = value_indices[i].indices(size); size -= 1; start = size - start; stop = size - stop;
    if stop < 0: stop = None; value_indices[i] = slice(start, stop, -1)` -/
def reverseVIx (size : Nat) : VIx → Option VIx
  | .sl s =>
    match pyIndices size s with
    | none => none
    | some (a, b, _) =>
      let sz : Int := (size : Int) - 1
      let start := sz - a
      let stop := sz - b
      some (VIx.sl ⟨some start, if stop < 0 then none else some stop, some (-1)⟩)
  | _ => none

def applyReverse (valueCommon : List Nat) : List Nat → List VIx → Option (List VIx)
  | [], vis => some vis
  | i :: rest, vis =>
    match vis[i]?, valueCommon[i]? with
    | some v, some size =>
      match reverseVIx size v with
      | some v' => applyReverse valueCommon rest (vis.set i v')
      | none => none
    | _, _ => none

inductive Res where
  | raised
  | ok (blocks : List (Option (List BIx × List VIx)))
  deriving Repr

/-- the plan of `setitem_array`: per block, in `product(*array_locations)` order, `none` (passed through unchanged)
    or (block indices, value indices) -/
def planND (chunks : List (List Nat)) (indices : List AIdx) (implied : List Int) (reverse : List Nat)
    (vshape : List Nat) : Res :=
  if implied.any (· == 0) then
    -- nothing selected: the value only has to be broadcastable to the empty result
    let nExtra := vshape.length - implied.length
    let ok1 := (vshape.take nExtra).all (· == 1)
    let ok2 := (implied.reverse.zip vshape.reverse).all fun (a, b) => b == 1 || (b : Int) == a
    if ok1 && ok2 then Res.ok ((product (chunks.map locations)).map fun _ => none) else Res.raised
  else
    match setup indices implied reverse vshape with
    | none => Res.raised
    | some su =>
      match baseValueIndices su.arrayCommon su.valueCommon with
      | none => Res.raised
      | some base =>
        Res.ok ((product (chunks.map locations)).map fun locs =>
          match loopDims (indices.zip locs) ⟨[], [], [], none⟩ with
          | none => none
          | some st =>
            match fillValueIndices st vshape su.offset su.valueOffset 0 base with
            | none => none
            | some vis =>
              match applyReverse su.valueCommon su.reverse vis with
              | none => none
              | some vis' => some (st.blockIndices, if su.valueOffset ≠ 0 then VIx.ellipsis :: vis' else vis'))

end Dask.SetItemND
