import DaskModel.Model.Overlap
/-
K2 (dataframe part, review round): TIME-BASED `before` (a `Timedelta`, `after = 0`) of `MapOverlap`:
`CreateOverlappingPartitions._layer` (timedelta branch: fast path / slow path over several partitions),
`_tail_timedelta`, the non-integral branch of `_combined_parts` and `overlap_chunk` with a timedelta `before`
(`dask/dataframe/dask_expr/_expr.py`, `dask/dataframe/rolling.py`), transliterated.

Python                                                   Lean
------                                                   ----
a row with its (time) index label                        `TRow α = Int × α` (time in integer units)
`current.index.min()` (`NaT` for an empty partition)      `tmin cur` (`none` = NaT)
`_tail_timedelta(current, prevs, before)`                `tailTime W cur prevs` (NaT: every comparison is False)
`deltas = divs.diff().iloc[1:-1]`;                        `deltas divs`
`(self.before > deltas).any()`                            `slowPath W divs`
the `while first > lb and j > 0` loop of prepend task `i` `walkBack` / `startIdx W divs i` (the `j` it stops at)
`[(frame._name, k) for k in range(j, i + 1)]`            `selectPrev`
`_combined_parts(prev, cur, None, before, 0)`            `combinedTime W prev cur`
`overlap_chunk` (`before = prev_part_length`)            `Overlap.overlapChunk func len 0 (combined, prevLen, none)`
the lowered `MapOverlap(before=Timedelta)`                `mapOverlapTime func W divs parts`
a row function that looks at the earlier rows whose       `twin W g` / `twinFn W g`
   time is in `(t - W, t]` (`rolling('Ws')`, closed right)
Import-free of Mathlib (linked into the native driver).
-/
namespace Dask.OverlapTime

abbrev TRow (α : Type) := Int × α

/-- `current.index.min()`: `none` = NaT (empty partition) -/
def tmin (p : List (TRow α)) : Option Int := (p.map (·.1)).min?

/-- `_tail_timedelta(current, prevs, before)`: rows of the given earlier partitions later than
    `current.index.min() - before` -/
def tailTime (W : Int) (cur : List (TRow α)) (prevs : List (List (TRow α))) : List (TRow α) :=
  match tmin cur with
  | none => []
  | some m => (prevs.map (fun p => p.filter (fun r => decide (r.1 > m - W)))).flatten

/-- `divs.diff().iloc[1:-1]`: the widths of all partitions but the last -/
def deltas : List Int → List Int
  | d0 :: d1 :: d2 :: rest => (d1 - d0) :: deltas (d1 :: d2 :: rest)
  | _ => []

/-- `(self.before > deltas).any()` -/
def slowPath (W : Int) (divs : List Int) : Bool := (deltas divs).any (fun d => decide (W > d))

/-- the `while first > lb and j > 0` loop, on `[divs[j], divs[j-1], …, divs[0]]`; returns the final `j` -/
def walkBack (lb : Int) : Int → List Int → Nat
  | first, dj :: dj1 :: rest =>
    if first > lb then walkBack lb (first - (dj - dj1)) (dj1 :: rest) else (dj1 :: rest).length
  | _, l => l.length - 1

/-- the `j` at which prepend task `i` starts (`none` when the divisions are too short) -/
def startIdx (W : Int) (divs : List Int) (i : Nat) : Option Nat :=
  match divs[i + 1]?, divs[0]?, divs[i]? with
  | some pti, some ptz, some di =>
    let lb := max (pti - W) ptz
    some (walkBack lb di ((divs.take (i + 1)).reverse))
  | _, _, _ => none

/-- the partitions prepend task `i - 1` reads for partition `i ≥ 1`; `before` = partitions `0 … i-1` -/
def selectPrev (W : Int) (divs : List Int) (slow : Bool) (i : Nat) (before : List (List (TRow α))) :
    Option (List (List (TRow α))) :=
  if slow then (startIdx W divs (i - 1)).map (fun j => before.drop j)
  else before.getLast?.map (fun p => [p])

/-- `_combined_parts(prev_part, current_part, None, before, 0)` for a timedelta `before`: never raises -/
def combinedTime (W : Int) (prev : Option (List (TRow α))) (cur : List (TRow α)) :
    List (TRow α) × Option Nat × Option Nat :=
  match prev with
  | none => (cur, none, none)
  | some p =>
    let p' := tailTime W cur [p]
    (p' ++ cur, Overlap.lenOrNone (some p'), none)

/-- one output partition: `overlap_chunk(func, before=prev_part_length, after=0, combined)` -/
def chunkTime (func : List (TRow α) → List β) (c : List (TRow α) × Option Nat × Option Nat) : List β :=
  Overlap.overlapChunk func (c.2.1.getD 0) 0 c

/-- tasks of the lowered expression for partitions `i, i+1, …`; `none` = malformed divisions -/
def goTime (func : List (TRow α) → List β) (W : Int) (divs : List Int) (slow : Bool) :
    Nat → List (List (TRow α)) → List (List (TRow α)) → Option (List (List β))
  | _, _, [] => some []
  | i, before, cur :: rest =>
    let prev : Option (Option (List (TRow α))) :=
      if i = 0 then some none
      else (selectPrev W divs slow i before).map (fun sel => some (tailTime W cur sel))
    match prev, goTime func W divs slow (i + 1) (before ++ [cur]) rest with
    | some pv, some r => some (chunkTime func (combinedTime W pv cur) :: r)
    | _, _ => none

/-- the lowered `MapOverlap(before=Timedelta(W), after=0)` -/
def mapOverlapTime (func : List (TRow α) → List β) (W : Int) (divs : List Int) (parts : List (List (TRow α))) :
    Option (List (List β)) :=
  goTime func W divs (slowPath W divs) 0 [] parts

/-! ## time-local row functions -/

/-- the rows of `pre` inside the window `(t - W, t]` of a row at time `t` (rows of `pre` precede it) -/
def tctx (W : Int) (t : Int) (pre : List (TRow α)) : List (TRow α) := pre.filter (fun r => decide (r.1 > t - W))

/-- outputs for the rows `xs` preceded by `pre` -/
def twin (W : Int) (g : List (TRow α) → TRow α → β) : List (TRow α) → List (TRow α) → List β
  | _, [] => []
  | pre, x :: rest => g (tctx W x.1 pre) x :: twin W g (pre ++ [x]) rest

/-- the function on a whole block (what pandas computes on the unpartitioned frame) -/
def twinFn (W : Int) (g : List (TRow α) → TRow α → β) (xs : List (TRow α)) : List β := twin W g [] xs

/-- `rolling('Ws', min_periods=m).sum()` on the rows of the window -/
def gTRollSum (m : Nat) (ctx : List (TRow (Option Int))) (x : TRow (Option Int)) : Option Int :=
  let vals := Overlap.validVals ((ctx ++ [x]).map (·.2))
  if vals.length < m then none else some (vals.foldl (· + ·) 0)

/-- `rolling('Ws', min_periods=m).count()` -/
def gTRollCount (m : Nat) (ctx : List (TRow (Option Int))) (x : TRow (Option Int)) : Option Int :=
  let vals := Overlap.validVals ((ctx ++ [x]).map (·.2))
  if (ctx.length + 1) < m then none else some vals.length

end Dask.OverlapTime
