import DaskModel.Model.LegacyOpt
import DaskModel.Model.GraphAlg
/-
K7 (part 3): `inline` and `inline_functions` of dask/optimization.py, transliterated over the legacy term model.

Python                                                        Lean
------                                                        ----
iteration order of a Python set                               the parameter `iter : List Obj → List Obj` (any function that
                                                              keeps the members; the driver uses the identity)
dependencies = {k: get_dependencies(dsk, k)} (sets)           `refSet K t` (duplicate-free `legacyRefs`)
keys = _flat_set(keys); keys.update(constants and aliases)    `S = keys ++ constKeys g K` (a list used as a set)
(ishashable(v) and v in dsk) or (not deps[k] and not istask)  `isConstEntry`
toposort({k: dsk[k] for k in keys if k in dsk}, dependencies) `replaceOrder`: the C07 model `GraphAlg.toposort` run on the graph's
                                                              dependency sets with the keys interned by their position
RuntimeError (cycle) / KeyError                               `none`
for key in replaceorder: ... keysubs[key] = val               `keysubsLoop` (`replaceOf` = `keysubs[dep] if dep in keysubs else dsk[dep]`)
dsk2 = keysubs.copy(); for key, val in dsk.items(): ...       `restLoop` (`keysubs[item]`: a missing item is a KeyError)
inline(dsk, keys, inline_constants, dependencies)             `inline iter g keys inlineConstants`
functions_of(task)                                            `functionsOf`
functions_of(task).issubset(fast_functions)                   `(functionsOf t).all fast` for a predicate `fast` (a parameter)
`if not fast_functions: return dsk`                           the parameter `anyFast`
dependents[key] non-empty (reverse_dict(dependencies))        `hasDependent`
for k in keys: del dsk[k]                                     `delKeys` (`none` = KeyError)
Import-free (linked into the native driver).
-/
namespace Dask.TaskTerm

/-- `get_dependencies(dsk, k)` as a set -/
def refSet (K : List Obj) (t : Obj) : List Obj := dedup (legacyRefs K t)

/-- the test of `inline_constants`: `(ishashable(v) and v in dsk) or (not dependencies[k] and not istask(v))` -/
def isConstEntry (K : List Obj) (v : Obj) : Bool :=
  (v.hashable && K.contains v) || ((legacyRefs K v).isEmpty && !v.isTask)

/-- the keys `inline_constants=True` adds to `keys` -/
def constKeys (g : LGraph) (K : List Obj) : List Obj := (g.filter fun kv => isConstEntry K kv.2).map Prod.fst

/-- `keys & dependencies[key]`, iterated in the order `iter` -/
def interS (iter : List Obj → List Obj) (S K : List Obj) (t : Obj) : List Obj :=
  iter ((refSet K t).filter fun d => S.contains d)

/-- `for dep in …: val = subs(val, dep, look(dep))`; `none` = KeyError of the lookup -/
def substDeps (look : Obj → Option Obj) : List Obj → Obj → Option Obj
  | [], val => some val
  | dep :: ds, val =>
    match look dep with
    | some r => substDeps look ds (subs dep r val)
    | none => none

/-- `keysubs[dep] if dep in keysubs else dsk[dep]` -/
def replaceOf (g ks : LGraph) (dep : Obj) : Option Obj :=
  match ks.lookup dep with
  | some r => some r
  | none => g.lookup dep

/-- `for key in replaceorder:` — builds `keysubs` -/
def keysubsLoop (iter : List Obj → List Obj) (g : LGraph) (K S : List Obj) : List Obj → LGraph → Option LGraph
  | [], ks => some ks
  | key :: rest, ks =>
    match g.lookup key with
    | none => none
    | some t =>
      match substDeps (replaceOf g ks) (interS iter S K t) t with
      | none => none
      | some v => keysubsLoop iter g K S rest (dictSet ks key v)

/-- `for key, val in dsk.items(): if key not in dsk2: …; dsk2[key] = val` -/
def restLoop (iter : List Obj → List Obj) (K S : List Obj) (ks : LGraph) : LGraph → LGraph → Option LGraph
  | [], acc => some acc
  | (key, t) :: rest, acc =>
    if (acc.lookup key).isSome then restLoop iter K S ks rest acc
    else
      match substDeps (fun d => ks.lookup d) (interS iter S K t) t with
      | none => none
      | some v => restLoop iter K S ks rest (dictSet acc key v)

/-- the body of `inline` once `keys` (with the constants) and `replaceorder` are known -/
def inlineWith (iter : List Obj → List Obj) (order : List Obj) (g : LGraph) (S : List Obj) : Option LGraph :=
  let K := g.map Prod.fst
  match keysubsLoop iter g K S order [] with
  | none => none
  | some ks => restLoop iter K S ks g ks

/-! ### `replaceorder = toposort(...)` through the C07 model, keys interned by their position in the graph -/

/-- position of (the first occurrence of) a key in the graph's key list -/
def idxIn : List Obj → Obj → Option Nat
  | [], _ => none
  | x :: xs, k => if x == k then some 0 else (idxIn xs k).map (· + 1)

/-- the `dependencies` mapping as a graph over positions; entry `i` is the `i`-th item of the dict -/
def depGraphFrom (iter : List Obj → List Obj) (K : List Obj) : Nat → LGraph → Dask.GraphAlg.Graph
  | _, [] => []
  | i, (_, t) :: rest => (i, (iter (refSet K t)).filterMap (idxIn K)) :: depGraphFrom iter K (i + 1) rest

/-- positions → keys; `none` if a position is out of range (never: `replaceOrder_some`) -/
def keysAt (K : List Obj) : List Nat → Option (List Obj)
  | [] => some []
  | i :: is =>
    match K[i]?, keysAt K is with
    | some k, some ks => some (k :: ks)
    | _, _ => none

/-- `toposort({k: dsk[k] for k in keys if k in dsk}, dependencies=dependencies)`; `none` = it raises -/
def replaceOrder (iter : List Obj → List Obj) (g : LGraph) (S : List Obj) : Option (List Obj) :=
  let K := g.map Prod.fst
  let start := (iter (dedup (S.filter fun k => K.contains k))).filterMap (idxIn K)
  match Dask.GraphAlg.toposort (depGraphFrom iter K 0 g) start with
  | .ordered xs => keysAt K xs
  | _ => none

/-- the set `keys` after `keys.update(...)` -/
def inlineSet (g : LGraph) (keys : List Obj) (inlineConstants : Bool) : List Obj :=
  if inlineConstants then keys ++ constKeys g (g.map Prod.fst) else keys

/-- `inline(dsk, keys, inline_constants, dependencies)`; `none` = raises -/
def inline (iter : List Obj → List Obj) (g : LGraph) (keys : List Obj) (inlineConstants : Bool) : Option LGraph :=
  let S := inlineSet g keys inlineConstants
  match replaceOrder iter g S with
  | none => none
  | some order => inlineWith iter order g S

/-! ### `inline_functions` -/

mutual
/-- `functions_of(task)`: the heads of all nested tasks (through lists and tuples, not through dicts) -/
def functionsOf : Obj → List Obj
  | .tuple (h :: args) => if h.callable then h :: functionsOfList args else functionsOf h ++ functionsOfList args
  | .list xs => functionsOfList xs
  | _ => []
def functionsOfList : List Obj → List Obj
  | [] => []
  | x :: xs => functionsOf x ++ functionsOfList xs
end

/-- `dependents[key]` is non-empty -/
def hasDependent (g : LGraph) (K : List Obj) (k : Obj) : Bool := g.any fun kv => (legacyRefs K kv.2).contains k

/-- `inlinable(key, task)` for a legacy graph (no GraphNode values) -/
def inlinable (fast : Obj → Bool) (g : LGraph) (K output : List Obj) (k t : Obj) : Bool :=
  t.isTask && !output.contains k && hasDependent g K k && (functionsOf t).all fast

/-- `for k in keys: del dsk[k]`; `none` = KeyError -/
def delKeys : LGraph → List Obj → Option LGraph
  | h, [] => some h
  | h, k :: ks => if (h.lookup k).isSome then delKeys (h.filter fun kv => !(kv.1 == k)) ks else none

/-- the keys `inline_functions` inlines and deletes -/
def inlinableKeys (fast : Obj → Bool) (g : LGraph) (output : List Obj) : List Obj :=
  (g.filter fun kv => inlinable fast g (g.map Prod.fst) output kv.1 kv.2).map Prod.fst

/-- `inline_functions(dsk, output, fast_functions, inline_constants, dependencies)`; `anyFast` = `bool(fast_functions)`,
    `fast f` = `f in fast_functions` -/
def inlineFunctions (iter : List Obj → List Obj) (fast : Obj → Bool) (anyFast : Bool) (g : LGraph) (output : List Obj)
    (inlineConstants : Bool) : Option LGraph :=
  if !anyFast then some g
  else
    let keys := inlinableKeys fast g output
    if keys.isEmpty then some g
    else
      match inline iter g keys inlineConstants with
      | none => none
      | some h => delKeys h keys

end Dask.TaskTerm
