/-
K9 (joins): `dask_expr/_merge.py` — partition-wise joins after co-locating the keys.

Python                                                   Lean
------                                                   ----
a frame                                                  `List (Nat × Nat)` rows `(key, row id)`; NA keys are interned
                                                          as a key value (pandas matches NaN with NaN in `merge`)
`lhs.merge(rhs, how=…)` on one pair of partitions        `inner`, `left`, `leftsemi`, `rightOnly`, `outer`, `right`
hash join: both sides shuffled on the key to `n`         `part`, `hashJoin`
   partitions, `BlockwiseMerge` per partition
`BroadcastJoin` (how = inner): every partition of the    `broadcastInner`
   big side × every partition of the small side
`BroadcastJoin` (how ≠ inner): small side hash           `broadcastSplit`
   partitioned, big partitions `_split_partition` by the
   same hash, piece j × small partition j
`concat(axis=0)`                                         `List.flatten`
Output rows are `(key, left id?, right id?)`. Import-free.
-/
namespace Dask.Join

abbrev Row := Nat × Nat
abbrev Out := Nat × Option Nat × Option Nat

/-- right rows matching a left row -/
def matching (l : Row) (R : List Row) : List Row := R.filter fun r => r.1 == l.1

/-- a left-driven join: every left row is expanded by `g` applied to its matches (order: left-major) -/
def joinWith (g : Row → List Row → List Out) (L R : List Row) : List Out :=
  L.flatMap fun l => g l (matching l R)

def gInner (l : Row) (ms : List Row) : List Out := ms.map fun r => (l.1, some l.2, some r.2)
def gLeft (l : Row) (ms : List Row) : List Out :=
  if ms.isEmpty then [(l.1, some l.2, none)] else gInner l ms
/-- `leftsemi`: the left row once if it has any match (`rhs.drop_duplicates()` then inner) -/
def gSemi (l : Row) (ms : List Row) : List Out := if ms.isEmpty then [] else [(l.1, some l.2, none)]

def inner := joinWith gInner
def left := joinWith gLeft
def leftsemi := joinWith gSemi

/-- right rows without a partner -/
def rightOnly (L R : List Row) : List Out :=
  (R.filter fun r => !(L.any fun l => l.1 == r.1)).map fun r => (r.1, none, some r.2)

def outer (L R : List Row) : List Out := left L R ++ rightOnly L R
def right (L R : List Row) : List Out := inner L R ++ rightOnly L R

/-- rows whose key hashes to partition `p` of `n` -/
def part (h : Nat → Nat) (n p : Nat) (xs : List Row) : List Row := xs.filter fun x => h x.1 % n == p

/-- shuffle both sides on the key, join partition by partition, concatenate -/
def hashJoin (join : List Row → List Row → List Out) (h : Nat → Nat) (n : Nat) (L R : List Row) : List Out :=
  (List.range n).flatMap fun p => join (part h n p L) (part h n p R)

/-- broadcast inner join: each partition of one side against each partition of the other -/
def broadcastInner (Ls Rs : List (List Row)) : List Out :=
  Ls.flatMap fun l => Rs.flatMap fun r => inner l r

/-- broadcast join for how ≠ inner: the small side is hash partitioned into `m` partitions, each big
    partition is split by the same hash and piece `j` meets small partition `j` -/
def broadcastSplit (join : List Row → List Row → List Out) (h : Nat → Nat) (m : Nat)
    (Ls : List (List Row)) (R : List Row) : List Out :=
  Ls.flatMap fun l => hashJoin join h m l R

/-- the pre-fix behaviour of `leftsemi` with the LEFT side broadcast: every right partition filters
    the whole left frame (kept as the refutation witness of defect #21) -/
def semiLeftBroadcast (L : List Row) (Rs : List (List Row)) : List Out :=
  Rs.flatMap fun r => leftsemi L r

end Dask.Join
