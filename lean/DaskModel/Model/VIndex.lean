import DaskModel.Model.Slice1D
/-
C20: point-wise selection — `dask/array/core.py::_vindex_array` along the indexed axes.

Python                                                                   Lean
------                                                                   ----
bounds2 = cumsum(chunks, initial_zero); block_idxs = searchsorted(b, ind, side="right") - 1
inblock_idxs = ind - bounds[block]                                        `locate` (per axis = `slice1dInt`: the same bisect)
max_chunk_point_dimensions = prod(max(c) for c in indexed chunks)         `maxPoints`
outblocks, outblock_idx = divmod(arange(npoints), max_chunk_point_dimensions)   `Placed.outblock`, `Placed.outidx`
keys = ravel_multi_index([outblocks, *block_idxs], …); argsort; runs of equal keys   `groups` (one group per key, keys in
                                                                          increasing ravel = lexicographic order)
per run: Task(_vindex_slice_and_transpose, block `input_blocks`, inblock[slicer]) + merge_indexer[outblock] = outblock_idx[slicer]
                                                                          a group: (outblock :: blocks, its points)
chunks of the point axis: (M,) * n_chunks + (remainder,)   /  (0,)        `pointChunks`
Within a run the order of the points is that of `np.argsort` on equal keys (unspecified); in-block index and output
index travel together, so the order inside a group is irrelevant (the harness canonicalises it).
Import-free of Mathlib (linked into the native driver).
-/
namespace Dask.VIndex
open Dask.Slice1D

structure Placed where
  pos : Nat
  outblock : Nat
  outidx : Nat
  blocks : List Nat
  inblock : List Int
  deriving Repr, DecidableEq

/-- block number and in-block index of a point on every indexed axis -/
def locate : List (List Nat) → List Int → Option (List Nat × List Int)
  | [], [] => some ([], [])
  | c :: cs, v :: vs =>
    match slice1dInt c v, locate cs vs with
    | some (b, o), some (bs, os) => some (b :: bs, o :: os)
    | _, _ => none
  | _, _ => none

def placeAll (M : Nat) (chunks : List (List Nat)) : Nat → List (List Int) → Option (List Placed)
  | _, [] => some []
  | p, c :: rest =>
    match locate chunks c, placeAll M chunks (p + 1) rest with
    | some (bs, os), some r => some (⟨p, p / M, p % M, bs, os⟩ :: r)
    | _, _ => none

def key (q : Placed) : List Nat := q.outblock :: q.blocks

/-- lexicographic order = order of the codes `np.ravel_multi_index` gives (C order) -/
def keyLt : List Nat → List Nat → Bool
  | [], [] => false
  | [], _ :: _ => true
  | _ :: _, [] => false
  | a :: as, b :: bs => decide (a < b) || (decide (a = b) && keyLt as bs)

def insertPoint (q : Placed) : List (List Nat × List Placed) → List (List Nat × List Placed)
  | [] => [(key q, [q])]
  | (k, ps) :: rest =>
    if key q = k then (k, ps ++ [q]) :: rest
    else if keyLt (key q) k then (key q, [q]) :: (k, ps) :: rest
    else (k, ps) :: insertPoint q rest

def groups (placed : List Placed) : List (List Nat × List Placed) :=
  placed.foldl (fun gs q => insertPoint q gs) []

def maxPoints (chunks : List (List Nat)) : Nat := (chunks.map fun c => c.foldl max 0).foldl (· * ·) 1

def pointChunks (M npoints : Nat) : List Nat :=
  if npoints > 0 then List.replicate (npoints / M) M ++ (if npoints % M > 0 then [npoints % M] else [])
  else [0]

/-- the global coordinate addressed by in-block index `o` of block `b`, per axis -/
def globalOf : List (List Nat) → List Nat → List Int → List Int
  | c :: cs, b :: bs, o :: os => (((c.take b).sum : Nat) + o) :: globalOf cs bs os
  | _, _, _ => []

end Dask.VIndex
