/-
K6 (part 1): `dask.core._toposort` (toposort / getcycle / isdag) and `reverse_dict`, transliterated.

Python                                         Lean
------                                         ----
keys (hashable)                                `Nat` (the harness interns keys)
dependencies[k]  (iteration order as observed) `Graph = List (Key × List Key)`, `deps? g k` (`none` = KeyError)
nodes  (list used as stack, top = end)         `St.nodes`, top = head
completed, seen (sets)                         duplicate-free lists (`cur :: completed`, `seen.erase cur`)
ordered (list, append)                         `St.ordered`, most recent first (reversed at the end)
priorities (dict, `p[k] = -npopped`)           association list `dset`
reverse_dict({k: inplay ∩ deps[k]})[v]         `dependentsIn`
min(deps, key=priorities.__getitem__)          `argminPrio` (first minimal element)
while loops                                    fuel; `Out.fuel` = fuel exhausted (never, see Props/C07)
IndexError / ValueError inside the cycle walk  `Out.stuck`
Import-free (linked into the native driver).
-/
namespace Dask.GraphAlg

abbrev Key := Nat
abbrev Graph := List (Key × List Key)

/-- `dependencies[k]`; `none` = KeyError. -/
def deps? (g : Graph) (k : Key) : Option (List Key) := g.lookup k

inductive Out where
  | ordered (xs : List Key)
  | cycle (c : List Key)
  | keyError
  | stuck
  | fuel
  deriving Repr, DecidableEq

structure St where
  nodes : List Key
  completed : List Key
  seen : List Key
  ordered : List Key
  deriving Repr

/-! ### cycle reconstruction -/

/-- `p[k] = v` on an insertion-ordered dict. -/
def dset (p : List (Key × Int)) (k : Key) (v : Int) : List (Key × Int) :=
  match p with
  | [] => [(k, v)]
  | (k', v') :: rest => if k' = k then (k, v) :: rest else (k', v') :: dset rest k v

/-- `while nodes[-1] != nxt: priorities[nodes.pop()] = -npopped; npopped += 1`; `none` = IndexError.
    Returns the remaining stack, the priorities and `npopped`. -/
def popUntil (nxt : Key) : List Key → List (Key × Int) → Nat → Option (List Key × List (Key × Int) × Nat)
  | [], _, _ => none
  | top :: rest, prio, np =>
    if top = nxt then some (top :: rest, prio, np)
    else popUntil nxt rest (dset prio top (-(np : Int))) (np + 1)

/-- `reverse_dict({k: inplay ∩ dependencies[k] for k in inplay})[v]`: the in-play keys that depend on `v`. -/
def dependentsIn (g : Graph) (inplay : List Key) (v : Key) : List Key :=
  inplay.filter (fun k => match deps? g k with
    | some ds => ds.contains v
    | none => false)

def prioOf (prio : List (Key × Int)) (k : Key) : Int := (prio.lookup k).getD 0

/-- `min(xs, key=priorities.__getitem__)` (first minimal element); `none` = ValueError on empty. -/
def argminPrio (prio : List (Key × Int)) : List Key → Option Key
  | [] => none
  | x :: xs =>
    match argminPrio prio xs with
    | none => some x
    | some y => if prioOf prio x ≤ prioOf prio y then some x else some y

/-- the greedy walk; `acc` is Python's `cycle` reversed (head = `cycle[-1]`), `target = cycle[0]`. -/
def walk (g : Graph) (inplay : List Key) (prio : List (Key × Int)) (target : Key) :
    Nat → List Key → Key → Out
  | 0, _, _ => .fuel
  | fuel + 1, acc, prev =>
    if prev = target then .cycle acc
    else
      match acc with
      | [] => .stuck
      | last :: _ =>
        match argminPrio prio (dependentsIn g inplay last) with
        | none => .stuck
        | some p => walk g inplay prio target fuel (p :: acc) p

/-- the `if nxt in seen:` block. `nodes` is the stack with `cur` on top. -/
def extractCycle (g : Graph) (nodes : List Key) (nxt : Key) : Out :=
  match nodes with
  | [] => .stuck
  | prev :: _ =>
    match popUntil nxt nodes [] 0 with
    | none => .stuck
    | some (_, prio0, np) =>
      let prio := dset prio0 nxt (-(np : Int))
      let inplay := prio.map Prod.fst
      if inplay.all (fun k => (deps? g k).isSome) then
        walk g inplay prio nxt (inplay.length + 1) [prev, nxt] prev
      else .keyError

/-! ### the traversal -/

inductive StepRes where
  | cont (s : St)
  | done (o : Out)

/-- one iteration of `while nodes:` (for a non-empty stack). -/
def step (g : Graph) (s : St) : StepRes :=
  match s.nodes with
  | [] => .cont s
  | cur :: rest =>
    if s.completed.contains cur then .cont { s with nodes := rest }
    else
      let seen' := if s.seen.contains cur then s.seen else cur :: s.seen
      match deps? g cur with
      | none => .done .keyError
      | some ds =>
        let cand := ds.filter (fun d => !s.completed.contains d)
        match cand.find? (fun d => seen'.contains d) with
        | some nxt => .done (extractCycle g s.nodes nxt)
        | none =>
          if cand.isEmpty then
            .cont { nodes := rest, completed := cur :: s.completed, seen := seen'.erase cur,
                    ordered := cur :: s.ordered }
          else .cont { s with nodes := cand.reverse ++ s.nodes, seen := seen' }

/-- `while nodes:` -/
def inner (g : Graph) : Nat → St → Except Out St
  | 0, _ => .error .fuel
  | fuel + 1, s =>
    if s.nodes.isEmpty then .ok s
    else match step g s with
      | .cont s' => inner g fuel s'
      | .done o => .error o

/-- `for key in keys:` -/
def outer (g : Graph) (fuel : Nat) : List Key → St → Except Out St
  | [], s => .ok s
  | key :: ks, s =>
    if s.completed.contains key then outer g fuel ks s
    else match inner g fuel { s with nodes := [key] } with
      | .ok s' => outer g fuel ks s'
      | .error o => .error o

def edgeCount (g : Graph) : Nat := (g.map (fun e => e.2.length)).sum

/-- fuel used by the driver: every iteration either pops or expands a not-yet-seen node. -/
def defaultFuel (g : Graph) (keys : List Key) : Nat := 2 * (edgeCount g + g.length + keys.length) + 4

/-- `_toposort(dsk, keys, returncycle=False, dependencies=g)` -/
def toposortWith (g : Graph) (keys : List Key) (fuel : Nat) : Out :=
  match outer g fuel keys { nodes := [], completed := [], seen := [], ordered := [] } with
  | .ok s => .ordered s.ordered.reverse
  | .error o => o

def toposort (g : Graph) (keys : List Key) : Out := toposortWith g keys (defaultFuel g keys)

/-- `_toposort(dsk, keys, returncycle=True)`: `some []` when no cycle, `none` when Python raises. -/
def getcycle (g : Graph) (keys : List Key) : Option (List Key) :=
  match toposort g keys with
  | .ordered _ => some []
  | .cycle c => some c
  | _ => none

/-- `isdag(d, keys) = not getcycle(d, keys)` -/
def isdag (g : Graph) (keys : List Key) : Option Bool :=
  (getcycle g keys).map (fun c => c.isEmpty)

/-! ### reverse_dict -/

/-- `result[k]` touch: make sure `k` has an entry -/
def touch (r : List (Key × List Key)) (k : Key) : List (Key × List Key) :=
  if (r.lookup k).isSome then r else r ++ [(k, [])]

/-- `result[val].add(k)` (sets as duplicate-free lists in insertion order) -/
def addTo (r : List (Key × List Key)) (val k : Key) : List (Key × List Key) :=
  match r with
  | [] => [(val, [k])]
  | (v, ks) :: rest => if v = val then (v, if ks.contains k then ks else ks ++ [k]) :: rest
                       else (v, ks) :: addTo rest val k

/-- `reverse_dict(d)`: keys in first-touch order, value sets in insertion order. -/
def reverseDict (d : Graph) : List (Key × List Key) :=
  d.foldl (fun r (kv : Key × List Key) => kv.2.foldl (fun r val => addTo r val kv.1) (touch r kv.1)) []

end Dask.GraphAlg
