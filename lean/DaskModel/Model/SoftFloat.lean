/-
A tiny exact model of IEEE-754 binary64 arithmetic (C34: float `arange`).

A finite double is a dyadic rational `m * 2^e` (`m e : Int`, not normalised).  Every operation computes the exact
result with integers and rounds it once to nearest-even at 53 significant bits (exponent of the last place never below
`-1074`: gradual underflow).  No `Float` is used anywhere; the harness diffs every operation bit for bit against
CPython's floats on random and boundary operands (section `softfloat` of harness/props/c34.py).

Not modelled: overflow to ±inf (the exponent range is unbounded above; the harness only diffs operands whose real result
is finite), NaN, the sign of zero.  Division by zero is `none` (Python raises ZeroDivisionError).

Python / NumPy                                   Lean
--------------                                   ----
x + y, x - y, x * y (float)                      `add`, `sub`, `mul`
x / y                                            `div`  (`none` = ZeroDivisionError)
float(n) for an int n (mixed arithmetic)         `ofInt`
np.ceil(x) as an int                             `ceil`
abs(x), x <= y, x == y                           `abs`, `le`, `eqv`
np.isclose(x, y, rtol=1e-5, atol=0)              `isclose`  (`rtol` = the double nearest 1e-5)
Import-free (linked into the native driver).
-/
namespace Dask.SoftFloat

/-- the finite double `m * 2^e` -/
structure F64 where
  m : Int
  e : Int
  deriving Repr, DecidableEq, Inhabited

/-- number of bits of `n` (`0` for `0`) -/
def bitLen (n : Nat) : Nat := if n = 0 then 0 else n.log2 + 1

/-- drop the `s` low bits of `a` rounding to nearest, ties to even -/
def shiftRNE (a s : Nat) : Nat :=
  let q := a / 2 ^ s
  let r := a % 2 ^ s
  let half := 2 ^ (s - 1)
  if s = 0 then a
  else if r > half ∨ (r = half ∧ q % 2 = 1) then q + 1 else q

/-- the number of low bits the exact value `a * 2^e` (`a ≥ 0`) has beyond binary64's precision -/
def excessBits (a : Nat) (e : Int) : Int := max ((bitLen a : Int) - 53) (-1074 - e)

/-- round the exact dyadic `m * 2^e` to binary64 (nearest, ties to even) -/
def roundDy (m e : Int) : F64 :=
  let sh := excessBits m.natAbs e
  if sh ≤ 0 then ⟨m, e⟩
  else ⟨m.sign * (shiftRNE m.natAbs sh.toNat : Int), e + sh⟩

/-- exact sum as a dyadic over the smaller exponent -/
def alignAdd (x y : F64) : Int × Int :=
  let e := min x.e y.e
  (x.m * 2 ^ (x.e - e).toNat + y.m * 2 ^ (y.e - e).toNat, e)

def add (x y : F64) : F64 := roundDy (alignAdd x y).1 (alignAdd x y).2
def neg (x : F64) : F64 := ⟨-x.m, x.e⟩
def sub (x y : F64) : F64 := add x (neg y)
def mul (x y : F64) : F64 := roundDy (x.m * y.m) (x.e + y.e)
def abs (x : F64) : F64 := ⟨(x.m.natAbs : Int), x.e⟩
def ofInt (n : Int) : F64 := roundDy n 0

/-- the quotient truncated to at least 55 bits with a sticky last bit (round to odd), and its exponent -/
def divOdd (x y : F64) : Int × Int :=
  let a := x.m.natAbs
  let b := y.m.natAbs
  let s := (bitLen b + 55) - bitLen a
  let q := (a * 2 ^ s) / b
  let r := (a * 2 ^ s) % b
  (x.m.sign * y.m.sign * ((2 * q + (if r = 0 then 0 else 1) : Nat) : Int), x.e - y.e - (s : Int) - 1)

/-- `x / y`; `none` = ZeroDivisionError -/
def div (x y : F64) : Option F64 :=
  if y.m = 0 then none else some (roundDy (divOdd x y).1 (divOdd x y).2)

/-- `ceil(a / b)` for integers, `b > 0` -/
def ceilDivPos (a : Int) (b : Nat) : Int := -(Int.fdiv (-a) (b : Int))

/-- `int(np.ceil(x))` -/
def ceil (x : F64) : Int :=
  if 0 ≤ x.e then x.m * 2 ^ x.e.toNat else ceilDivPos x.m (2 ^ (-x.e).toNat)

/-- `x <= y` -/
def le (x y : F64) : Bool :=
  let e := min x.e y.e
  decide (x.m * 2 ^ (x.e - e).toNat ≤ y.m * 2 ^ (y.e - e).toNat)

/-- `x == y` (as values) -/
def eqv (x y : F64) : Bool := le x y && le y x

/-- the double nearest to `1e-5` (`(1e-5).as_integer_ratio()`; the harness checks it against CPython) -/
def rtolDefault : F64 := ⟨0x14f8b588e368f1, -69⟩

/-- `np.isclose(x, y, rtol=1e-5, atol=0)` for finite operands: `abs(x - y) <= atol + rtol * abs(y)` or `x == y` -/
def isclose (x y : F64) : Bool :=
  le (abs (sub x y)) (add ⟨0, 0⟩ (mul rtolDefault (abs y))) || eqv x y

/-- a canonical form for printing / comparing: odd significand (or `0 * 2^0`) -/
def normalize (x : F64) : F64 :=
  if x.m = 0 then ⟨0, 0⟩
  else
    let rec go (fuel : Nat) (m e : Int) : F64 :=
      match fuel with
      | 0 => ⟨m, e⟩
      | fuel + 1 => if m % 2 = 0 then go fuel (m / 2) (e + 1) else ⟨m, e⟩
    go (bitLen x.m.natAbs) x.m x.e

end Dask.SoftFloat
