import DaskModel.DriverLib
import DaskModel.Model.CsvOpts
/-! Driver handlers of the C47 options model (kept out of `Drivers/dfpart.lean` so that several people can extend the
    group's driver without editing the same file). Import-free of Mathlib. -/
namespace Dask.CsvOpts
open Dask

/-- `absent | infer | none | <int>` -/
def hdr? : SExp → Option (Option Hdr)
  | .sym "absent" => some Option.none
  | .sym "infer" => some (some .infer)
  | .sym "none" => some (some .none)
  | e => e.toNat?.map fun h => some (.row h)

def ofHdr : Option Hdr → SExp
  | Option.none => .sym "absent"
  | some .infer => .sym "infer"
  | some .none => .sym "none"
  | some (.row h) => SExp.ofNat h

/-- `(header names skiprows)` -/
def kw? : SExp → Option Kw
  | .list [h, n, s] => do pure { header := ← hdr? h, names := ← n.toBool?, skiprows := ← s.toNat? }
  | _ => Option.none

def ofKw (k : Kw) : SExp := .list [ofHdr k.header, SExp.ofBool k.names, SExp.ofNat k.skiprows]

def ofCols : Option (List Nat) → SExp
  | Option.none => .sym "none"
  | some c => SExp.ofNats c

def ofFrame (f : Frame) : SExp := .list [ofCols f.cols, SExp.ofNatss f.rows]

def okOr' (r : Option SExp) : SExp := match r with | some e => .list [.sym "ok", e] | Option.none => .list [.sym "raised"]

def optNat'? : SExp → Option (Option Nat)
  | .sym "none" => some Option.none
  | e => e.toNat?.map some

/-- `(pd-frame kw (bytes…))` ↦ `(ok (cols|none (row…)))` | `(raised)`: pandas.read_csv on one text, line level -/
def hPdFrame : Handler := handler fun
  | [k, t] => do pure (okOr' ((pdFrame (← kw? k) (← t.toNats?)).map ofFrame))
  | _ => Option.none

/-- `(csv-block-kw kw isFirst)` ↦ `(kw' write_header)`: the keywords and the header switch `_read_csv` uses for a block -/
def hBlockKw : Handler := handler fun
  | [k, f] => do
    let u ← kw? k
    let first ← f.toBool?
    pure (.list [ofKw (if first then firstKw u else restKw u), SExp.ofBool (writeHeader u first)])
  | _ => Option.none

/-- `(csv-header-bytes kw (sample bytes…))` ↦ `(ok (bytes…) explicit-header)` | `(raised)`: what `read_pandas` hands on -/
def hHeaderBytes : Handler := handler fun
  | [k, t] => do
    let u ← kw? k
    pure (okOr' ((headerBytes u (← t.toNats?)).map fun h => .list [SExp.ofNats h, ofHdr (some (effHeader u))]))
  | _ => Option.none

/-- `(csv-header-probe kw S (first file bytes…) bs|none)` ↦ `(ok (header bytes…) explicit-header)` | `(raised sample)` |
    `(raised IndexError)` | `(raised head)`: `read_pandas` up to the call of `text_blocks_to_pandas`, in the order of the code -/
def hHeaderProbe : Handler := handler fun
  | [k, sz, t, b] => do
    let u ← kw? k
    let ss := sampleSize u (← optNat'? b) (← sz.toNat?)
    let smp := TextBlocks.sampleOf ss Csv.NL (← t.toNats?)
    pure (if sampleTooSmall u ss smp then .list [.sym "raised", .sym "sample"]
      else match headerBytes u smp with
        | Option.none => .list [.sym "raised", .sym "IndexError"]
        | some h => match pdFrame u smp with
          | Option.none => .list [.sym "raised", .sym "head"]
          | some _ => .list [.sym "ok", SExp.ofNats h, ofHdr (some (effHeader u))])
  | _ => Option.none

/-- `(csv-header-row (lines…) firstrow header)` ↦ the row `_header_row` returns -/
def hHeaderRow : Handler := handler fun
  | [ls, f, h] => do pure (SExp.ofNat (headerRow (← ls.toNatss?) (← f.toNat?) (← h.toNat?)))
  | _ => Option.none

/-- `(csv-read-files kw sample ((bytes…)…) bs|none)` ↦ `(ok ((cols rows)…))` | `(raised)`: the frame of every partition -/
def hReadFiles : Handler := handler fun
  | [k, smp, fs, b] => do
    pure (okOr' ((readFiles (← kw? k) (← smp.toNat?) (← fs.toNatss?) (← optNat'? b)).map fun frames =>
      .list (frames.map ofFrame)))
  | _ => Option.none

/-- `(csv-file-ok kw (bytes…) bs|none)` ↦ `true|false`: the hypothesis `FirstCovers` of the theorems, evaluated -/
def hFileOK : Handler := handler fun
  | [k, t, b] => do pure (SExp.ofBool (fileOKB (← kw? k) (← t.toNats?) (← optNat'? b)))
  | _ => Option.none

def optBool? : SExp → Option (Option Bool)
  | .sym "none" => some Option.none
  | e => e.toBool?.map some

/-- `(csv-write (single hfpo|none header) (cols…) (((row…)…)…))` ↦ `(ok ((bytes…)…))` | `(raised)` -/
def hWriteFiles : Handler := handler fun
  | [.list [sf, hf, hd], cols, parts] => do
    let w : WOpts := { singleFile := ← sf.toBool?, headerFirstOnly := ← optBool? hf, header := ← hd.toBool? }
    let ps ← (← parts.toList?).mapM SExp.toNatss?
    pure (okOr' ((writeFiles w (← cols.toNats?) ps).map SExp.ofNatss))
  | _ => Option.none

def handlers : List (String × Handler) :=
  [("pd-frame", hPdFrame), ("csv-block-kw", hBlockKw), ("csv-header-bytes", hHeaderBytes), ("csv-header-probe", hHeaderProbe), ("csv-header-row", hHeaderRow),
   ("csv-read-files", hReadFiles), ("csv-write", hWriteFiles), ("csv-file-ok", hFileOK)]

end Dask.CsvOpts
