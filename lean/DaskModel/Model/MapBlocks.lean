import DaskModel.Model.Blockwise
import DaskModel.Model.Elemwise
/-
K13 (part): `dask.array.core.map_blocks` — index strings, `drop_axis`/`new_axis`/`chunks=` metadata, `block_id`,
`block_info` — and the loop-dimension alignment of `dask.array.gufunc.apply_gufunc`.

Python                                                   Lean
------                                                   ----
`tuple(range(a.ndim))[::-1]`                             `Elemwise.revRange`
`drop_axis = [i % ndim_out for i in drop_axis]` + filter `dropAxes`
`for ax in sorted(new_axis): out_ind.insert(ax, n)`      `insertNew`
`cached_cumsum(c, initial_zero=True)`                    `cumsum0`
`starts[i][j]` with the `drop_axis` special case         `argStarts`
`location.get(ind, 0) if num_chunks[i][j] > 1 else 0`    `chunkLoc`
`(starts[ij][j], starts[ij][j + 1])`                     `arrayLoc`
`block_info[None]`                                       `outInfo`
`__loopdim{d}__` for `d in range(max - n, max)`          `loopDims`
IndexError / KeyError                                    `none`
Uses only the import-free models `Blockwise`/`Elemwise`.
-/
namespace Dask.MapBlocks
open Dask.Blockwise (Sym dget)
open Dask.Elemwise (revRange)

/-- `cached_cumsum(c, initial_zero=True)` -/
def cumFrom (s : Nat) : List Nat → List Nat
  | [] => [s]
  | x :: t => s :: cumFrom (s + x) t

def cumsum0 (c : List Nat) : List Nat := cumFrom 0 c

/-- Python `list.insert(i, x)` for `0 ≤ i` -/
def insertAt {α : Type} (l : List α) (i : Nat) (x : α) : List α := l.take i ++ x :: l.drop i

structure Plan where
  /-- output index string -/
  outInd : List Sym
  /-- `new_axes`: symbol ↦ chunk spec of the new axis (`chunks[ax]`, or `[1]` when no `chunks=`) -/
  newAxes : List (Sym × List Nat)
  deriving Repr

/-- normalised `drop_axis` (`i % ndim_out`; the range check has been done) -/
def normDrop (ndimOut : Nat) (drop : List Int) : Option (List Nat) :=
  if drop.any (fun i => i < -(ndimOut : Int) || i ≥ (ndimOut : Int)) then none
  else some (drop.map fun i => (i % (ndimOut : Int)).toNat)

/-- the `new_axis` loop: `n = len(out_ind) + len(drop_axis); out_ind.insert(ax, n); new_axes[n] = chunks[ax] | 1` -/
def insertNew (ndrop : Nat) (chunks : Option (List (List Nat))) : List Nat → List Sym × List (Sym × List Nat) →
    Option (List Sym × List (Sym × List Nat))
  | [], st => some st
  | ax :: rest, (out, na) =>
    let n := out.length + ndrop
    match chunks with
    | none => insertNew ndrop chunks rest (insertAt out ax n, na ++ [(n, [1])])
    | some cs => match cs[ax]? with
      | none => none
      | some c => insertNew ndrop chunks rest (insertAt out ax n, na ++ [(n, c)])

def sortNat (l : List Nat) : List Nat := l.foldl (fun acc x => (acc.filter (· ≤ x)) ++ [x] ++ acc.filter (· > x)) []

/-- the index bookkeeping of `map_blocks` for arrays of dimensions `ndims`, `drop_axis`, `new_axis`, `chunks=` -/
def plan (ndims : List Nat) (drop : List Int) (newAxis : List Nat) (chunks : Option (List (List Nat))) : Option Plan := do
  let nd := ndims.foldl max 0
  let out0 := if ndims.isEmpty then [] else revRange nd
  let d ← if drop.isEmpty then some [] else normDrop out0.length drop
  let out1 := (out0.zipIdx.filter fun p => !d.contains p.2).map (·.1)
  -- `if new_axis is None and chunks is not None and len(out_ind) < len(chunks): new_axis = range(len(chunks) - len(out_ind))`
  let newAxis := match chunks with
    | some cs => if newAxis.isEmpty && out1.length < cs.length then List.range (cs.length - out1.length) else newAxis
    | none => newAxis
  let (out2, na) ← insertNew d.length chunks (sortNat newAxis) (out1, [])
  -- `if max(new_axis) > max(out_ind): raise ValueError` ; `if len(chunks) != len(out_ind): raise ValueError`
  if !newAxis.isEmpty && newAxis.foldl max 0 > out2.foldl max 0 then none
  else match chunks with
    | some cs => if cs.length != out2.length then none else some ⟨out2, na⟩
    | none => some ⟨out2, na⟩

/-! ### block_info -/

/-- one array argument as `block_info` sees it -/
structure AArg where
  ind : List Sym
  chunks : List (List Nat)
  deriving Repr

/-- `starts[i]`: cumulative sums, except that with `drop_axis` an axis whose symbol is not an output index is treated as a
    single chunk `[0, shape[j]]` -/
def argStarts (dropping : Bool) (outInd : List Sym) (a : AArg) : List (List Nat) :=
  (a.ind.zip a.chunks).map fun p =>
    if dropping && !outInd.contains p.1 then [0, p.2.sum] else cumsum0 p.2

/-- `arr_k`: `location.get(ind, 0) if num_chunks[i][j] > 1 else 0` -/
def chunkLoc (outInd : List Sym) (blockId : List Nat) (starts : List (List Nat)) (a : AArg) : List Nat :=
  (a.ind.zip starts).map fun p =>
    if p.2.length - 1 > 1 then ((outInd.zip blockId).lookup p.1).getD 0 else 0

/-- `[(starts[ij][j], starts[ij][j + 1]) for ij, j in enumerate(arr_k)]` -/
def arrayLoc (starts : List (List Nat)) (loc : List Nat) : Option (List (Nat × Nat)) :=
  Dask.Blockwise.traverse (fun (p : List Nat × Nat) => do
    let a ← p.1[p.2]?
    let b ← p.1[p.2 + 1]?
    pure (a, b)) (starts.zip loc)

structure Info where
  shape : List Nat
  numChunks : List Nat
  arrayLocation : List (Nat × Nat)
  chunkLocation : List Nat
  deriving Repr

/-- `block_info[i]` for array argument `a` and output block `blockId` -/
def argInfo (dropping : Bool) (outInd : List Sym) (blockId : List Nat) (a : AArg) : Option Info := do
  let st := argStarts dropping outInd a
  let loc := chunkLoc outInd blockId st a
  let al ← arrayLoc st loc
  pure { shape := a.chunks.map List.sum, numChunks := st.map (fun s => s.length - 1), arrayLocation := al, chunkLocation := loc }

/-- `block_info[None]` (`chunk-shape` is returned separately) -/
def outInfo (outChunks : List (List Nat)) (blockId : List Nat) : Option (Info × List Nat) := do
  let st := outChunks.map cumsum0
  let al ← arrayLoc st blockId
  let cs ← Dask.Blockwise.traverse (fun (p : List Nat × Nat) => p.1[p.2]?) (outChunks.zip blockId)
  pure ({ shape := outChunks.map List.sum, numChunks := outChunks.map List.length, arrayLocation := al,
          chunkLocation := blockId }, cs)

/-! ### `blockwise(align_arrays=False)`: which input's chunks an output index gets -/

def lookupC (m : List (Sym × List Nat)) (s : Sym) : Option (List Nat) :=
  match m with
  | [] => none
  | (k, v) :: r => if k = s then some v else lookupC r s

def setC (m : List (Sym × List Nat)) (s : Sym) (v : List Nat) : List (Sym × List Nat) :=
  match m with
  | [] => [(s, v)]
  | (k, w) :: r => if k = s then (s, v) :: r else (k, w) :: setC r s v

/-- one `(c, i)` of `for c, i in zip(arg.chunks, ind)`:
    `if i not in chunkss or len(c) > len(chunkss[i]) or chunkss[i] == (1,): chunkss[i] = c` (0254c84) -/
def alignStep (m : List (Sym × List Nat)) (p : Sym × List Nat) : List (Sym × List Nat) :=
  match lookupC m p.1 with
  | none => setC m p.1 p.2
  | some cur => if p.2.length > cur.length || cur == [1] then setC m p.1 p.2 else m

/-- `chunkss` of `blockwise(..., align_arrays=False)` for the indexed array arguments -/
def alignFalseChunks (args : List AArg) : List (Sym × List Nat) :=
  (args.flatMap fun a => a.ind.zip a.chunks).foldl alignStep []

/-! ### apply_gufunc: loop dimensions -/

/-- `tuple(f"__loopdim{d}__" for d in range(max_loopdims - n, max_loopdims))` (the symbol is the number `d`) -/
def loopDims (maxLoop n : Nat) : List Nat := (List.range n).map (· + (maxLoop - n))

end Dask.MapBlocks
