import DaskModel.DriverLib
import DaskModel.Model.NormalForm
import DaskModel.Model.KeyName
import DaskModel.Model.CtorNames
import DaskModel.Generated.FusedKeyRenamer
/-!
Driver handlers of the C13 extension (appended to the table of `Drivers/token.lean`): `keysplit`, `fusedkey2`, `ctor`,
`partsize`.  `decVal` is the value decoder of the token driver (same grammar).
-/
namespace Dask.CtorNamesIO
open Dask Dask.NF

partial def decVal : SExp → Option Val
  | .list [.sym "int", .int i] => some (.int i)
  | .list [.sym "bool", b] => do pure (.bool (← b.toBool?))
  | .list [.sym "float", .str r] => some (.float r)
  | .list [.sym "str", .str s] => some (.str s)
  | .list [.sym "bytes", b] => do pure (.bytes (← b.toNats?))
  | .list [.sym "none"] => some .none
  | .list [.sym "atom", .str r] => some (.atom r)
  | .list [.sym "pickled", .str kind, v] => do pure (.pickled kind (← decVal v))
  | .list (.sym "list" :: xs) => do pure (.list (← xs.mapM decVal))
  | .list (.sym "tuple" :: xs) => do pure (.tuple (← xs.mapM decVal))
  | .list (.sym "set" :: xs) => do pure (.set (← xs.mapM decVal))
  | .list (.sym "dict" :: kvs) => do
    let ps ← kvs.mapM (fun e => match e with
      | .list [k, v] => do pure ((← decVal k), (← decVal v))
      | _ => none)
    pure (.dict ps)
  | .list [.sym "arr0", v, .str dt] => do pure (.arr0 (← decVal v) dt)
  | .list [.sym "ndarray", .str dt, shape, strides, .int off, buf] => do
    pure (.ndarray dt (← shape.toNats?) (← strides.toInts?) off (← buf.toNats?))
  | .list [.sym "objarr", shape, .list elems] => do
    pure (.objarr (← shape.toNats?) (← elems.mapM SExp.toNats?))
  | _ => none

/-- `(keysplit "s")` ↦ `key_split(s)` (Model/KeySplit.lean, the C18 model) -/
def hKeySplit : Handler := handler fun args =>
  match args with
  | [.str s] => some (.str (KeySplit.keySplit s))
  | _ => none

/-- `(s "name")` / `(t "name" i…)` -/
def decKey : SExp → Option KeyName.Key
  | .list [.sym "s", .str n] => some (.str n.toList)
  | .list (.sym "t" :: .str n :: idx) => do pure (.tup n.toList (← idx.mapM SExp.toInt?))
  | _ => none

/-- `(fusedkey2 maxlen (key…))` ↦ `(kept full|none (idx…)|none)` | `(raised)`: `default_fused_keys_renamer(keys)` with
    `key_split` computed by the model (cf. `fusedparts`, where the harness supplies the prefixes) -/
def hFusedKey2 : Handler := handler fun args =>
  match args with
  | [maxlen, .list keys] => do
    let maxlen ← maxlen.toNat?
    let keys ← keys.mapM decKey
    let thr := FusedKey.threshold maxlen Generated.FusedKeyRenamer.slack
    let keep := FusedKey.keepLen maxlen Generated.FusedKeyRenamer.slack Generated.FusedKeyRenamer.room
    pure (match KeyName.renamerParts thr keep keys with
      | none => .list [.sym "raised"]
      | some (kept, full, idx) =>
        .list [.str (String.ofList kept),
               (match full with | some c => .str (String.ofList c) | none => .sym "none"),
               (match idx with | some i => SExp.ofInts i | none => .sym "none")])
  | _ => none

def decOptNat (e : SExp) : Option (Option Nat) := do pure ((← e.toOptInt?).map Int.toNat)

def decOptStr : SExp → Option (Option String)
  | .sym "none" => some none
  | .str s => some (some s)
  | _ => none

def decOptBool : SExp → Option (Option Bool)
  | .sym "none" => some none
  | e => do pure (some (← e.toBool?))

def decKwargs (kws : List SExp) : Option (List (String × Val)) :=
  kws.mapM (fun e => match e with
    | .list [.str k, v] => do pure (k, (← decVal v))
    | _ => none)

def decPairs (ps : List SExp) : Option (List (Val × Val)) :=
  ps.mapM (fun e => match e with
    | .list [a, i] => do pure ((← decVal a), (← decVal i))
    | _ => none)

/-- the constructor call described by `(kind param…)`; the outer `none` = malformed request, the inner = the constructor raises -/
def decCall : List SExp → Option (Option CtorNames.Call)
  | [.sym "fromarray", x, chunks, lock, asarray, haf, fancy, getitem, inline] => do
    pure (some (CtorNames.fromArray (← decVal x) (← chunks.toNatss?) (← decVal lock) (← decOptBool asarray) (← haf.toBool?)
      (← fancy.toBool?) (← decVal getitem) (← inline.toBool?)))
  | [.sym "fromsequence", .list seq, np, ps] => do
    pure (CtorNames.fromSequence (← seq.mapM decVal) (← decOptNat np) (← decOptNat ps))
  | [.sym "bagfromdelayed", .list keys] => do
    pure (some (CtorNames.bagFromDelayed (← keys.mapM SExp.toStr?)))
  | [.sym "arrayfromdelayed", .str key, shape, dtype, metaV] => do
    pure (some (CtorNames.arrayFromDelayed key (← shape.toNats?) (← decVal dtype) (← decVal metaV)))
  | [.sym "delayedleaf", name, .str cls, obj, nout] => do
    pure (some (CtorNames.delayedLeaf (← decOptStr name) cls (← decVal obj) (← decOptNat nout)))
  | [.sym "delayedcall", .str fn, .str fk, .list as, .list kws] => do
    pure (some (CtorNames.delayedCall fn fk (← as.mapM decVal) (← decKwargs kws)))
  | [.sym "elemwise", .str opname, op, dtype, .list as, wher, out] => do
    pure (some (CtorNames.elemwise opname (← decVal op) (← decVal dtype) (← as.mapM decVal) (← decVal wher) (← decVal out)))
  | [.sym "blockwise", token, .str fnm, func, outInd, .list pairs, adjust, newAxes, align, concat, metaV, dtype, .list kws] => do
    let na ← (match newAxes with
      | .sym "none" => some none
      | .list kvs => do pure (some (← decPairs kvs))
      | _ => none)
    pure (some (CtorNames.blockwise (← decOptStr token) fnm (← decVal func) (← decVal outInd) (← decPairs pairs) (← decVal adjust)
      na (← align.toBool?) (← decVal concat) (← decVal metaV) (← decVal dtype) (← decKwargs kws)))
  | _ => none

/-- `(ctor kind param…)` ↦ `("prefix" (argpre…) (("k" kwpre)…) pre)` | `(raised)`: the prefix, for every positional /
    keyword argument of the modelled `tokenize` call the string `tokenize(arg)` hashes, and the string the whole call hashes -/
def hCtor : Handler := handler fun args => do
  match ← decCall args with
  | none => pure (.list [.sym "raised"])
  | some c =>
    pure (.list [.str c.pre, .list (c.args.map fun a => .str (tokPre [a])),
      .list (c.kwargs.map fun (k, v) => .list [.str k, .str (tokPre [v])]), .str c.preimage])

/-- `(partsize len np|none ps|none)` ↦ `partition_size` of `from_sequence` | `none` -/
def hPartSize : Handler := handler fun args =>
  match args with
  | [len, np, ps] => do
    pure (SExp.ofOptNat (CtorNames.partitionSize (← len.toNat?) (← decOptNat np) (← decOptNat ps)))
  | _ => none

def handlers : List (String × Handler) :=
  [("keysplit", hKeySplit), ("fusedkey2", hFusedKey2), ("ctor", hCtor), ("partsize", hPartSize)]

end Dask.CtorNamesIO
