import DaskModel.Model.PyStr
import DaskModel.Generated.ByteTables
/-
K12 `Bytes`: `dask.utils.format_bytes / parse_bytes / parse_timedelta / natural_sort_key / key_split`.

Floating point is modelled EXACTLY with integers (no Lean `Float`):
  a non-negative binary64 value is `Dy m e` = `m · 2^e`;
  `rn53`       round an integer to 53 significant bits, ties to even (int → float, and the last step of every op)
  `ratToDy`    correctly rounded quotient `p / q` (Python `int / int`, and `float("ddd.dd")`)
  `mulR`       correctly rounded product
  `centsOf`    `round_half_even(x · 10^d)` of the exact binary value = what `f"{x:.{d}f}"` prints (CPython's dtoa is
               correctly rounded)
Overflow, subnormals, `inf`/`nan` are outside the model (the magnitudes here stay far away from them).
All tables (`formatPrefixes`, the 0.9 factor, the precision, `byteSizes`, `timedeltaSizes`) come from
`Generated/ByteTables.lean`, re-extracted from the source on every run.
-/
namespace Dask.Bytes
open Dask.PyStr
open Dask.Generated.ByteTables

/-! ### exact binary64 arithmetic on naturals -/

def bitLen (n : Nat) : Nat := if n = 0 then 0 else n.log2 + 1

/-- `round_half_even(num / den)` -/
def rheDiv (num den : Nat) : Nat :=
  let q := num / den
  let r := num % den
  if 2 * r > den ∨ (2 * r = den ∧ q % 2 = 1) then q + 1 else q

/-- nearest integer with at most 53 significant bits, ties to even -/
def rn53 (n : Nat) : Nat :=
  let b := bitLen n
  if b ≤ 53 then n else rheDiv n (2 ^ (b - 53)) * 2 ^ (b - 53)

/-- a non-negative dyadic rational `m · 2^e` -/
structure Dy where
  m : Nat
  e : Int
  deriving Repr, DecidableEq

/-- `float(n)` for a Python int -/
def natToDy (n : Nat) : Dy := ⟨rn53 n, 0⟩

/-- binary64 nearest to `p / q` (`q > 0`), ties to even -/
def ratToDy (p q : Nat) : Dy :=
  if p = 0 then ⟨0, 0⟩ else
  let e0 : Int := (bitLen p : Int) - (bitLen q : Int) - 53
  -- with this exponent the scaled quotient lies in [2^52, 2^54)
  let scaled (e : Int) : Nat × Nat := if e ≥ 0 then (p, q * 2 ^ e.toNat) else (p * 2 ^ (-e).toNat, q)
  let (n0, d0) := scaled e0
  let e := if n0 / d0 ≥ 2 ^ 53 then e0 + 1 else e0
  let (n1, d1) := scaled e
  ⟨rheDiv n1 d1, e⟩

/-- correctly rounded product -/
def mulR (a b : Dy) : Dy :=
  let p := a.m * b.m
  let b' := bitLen p
  if b' ≤ 53 then ⟨p, a.e + b.e⟩ else ⟨rheDiv p (2 ^ (b' - 53)), a.e + b.e + ((b' - 53 : Nat) : Int)⟩

/-- `int(x)` for `x ≥ 0` -/
def Dy.floor (x : Dy) : Nat := if x.e ≥ 0 then x.m * 2 ^ x.e.toNat else x.m / 2 ^ (-x.e).toNat

def Dy.isInt (x : Dy) : Bool := if x.e ≥ 0 then true else x.m % 2 ^ (-x.e).toNat == 0

/-- `x ≤ n` for a natural `n` (Python compares int and float exactly) -/
def Dy.leNat (x : Dy) (n : Nat) : Bool :=
  if x.e ≥ 0 then x.m * 2 ^ x.e.toNat ≤ n else x.m ≤ n * 2 ^ (-x.e).toNat

/-- `round_half_even(x · 10^d)`: the integer whose digits `f"{x:.{d}f}"` prints -/
def centsOf (d : Nat) (x : Dy) : Nat :=
  if x.e ≥ 0 then x.m * 2 ^ x.e.toNat * 10 ^ d else rheDiv (x.m * 10 ^ d) (2 ^ (-x.e).toNat)

/-! ### decimal rendering -/

def natDigitsAux : Nat → Nat → List Char → List Char
  | 0, _, acc => acc
  | fuel + 1, n, acc =>
    let acc' := Char.ofNat (48 + n % 10) :: acc
    if n < 10 then acc' else natDigitsAux fuel (n / 10) acc'

/-- `str(n)` -/
def natDigits (n : Nat) : List Char := natDigitsAux (n + 1) n []

/-- the last `d` decimal digits of `n`, zero padded -/
def padDigits : Nat → Nat → List Char
  | 0, _ => []
  | d + 1, n => padDigits d (n / 10) ++ [Char.ofNat (48 + n % 10)]

/-- `f"{x:.{d}f}"` given `c = round_half_even(x·10^d)` -/
def fixedDigits (d c : Nat) : List Char :=
  natDigits (c / 10 ^ d) ++ (if d = 0 then [] else '.' :: padDigits d (c % 10 ^ d))

/-! ### format_bytes -/

/-- the exact binary64 value of the extracted factor (`0.9`) -/
def factorDy : Dy := ⟨factorNum, -((factorDen.log2 : Nat) : Int)⟩

/-- `n >= k * 0.9` -/
def inBand (n k : Nat) : Bool := (mulR (natToDy k) factorDy).leNat n

/-- the band `format_bytes` chooses for `n`: first `(prefix, k)` of the table with `n >= k * 0.9` -/
def bandIn : List (String × Nat) → Nat → Option (String × Nat)
  | [], _ => none
  | (pre, k) :: rest, n => if inBand n k = true then some (pre, k) else bandIn rest n

def bandOf (n : Nat) : Option (String × Nat) := bandIn formatPrefixes n

/-- `n / k` (Python true division of ints, correctly rounded). For a power of two `k = 2^e` the quotient is
    `rn53(n) · 2^-e` exactly (scaling by a power of two is exact) — that is the branch every extracted `k` takes;
    other `k` go through the general correctly rounded quotient. -/
def divR (n k : Nat) : Dy := if k = 2 ^ k.log2 then ⟨rn53 n, -(k.log2 : Int)⟩ else ratToDy n k

/-- digits printed in a band: `round_half_even((n / k) · 10^d)` of the correctly rounded quotient -/
def cents (n k : Nat) : Nat := centsOf formatDecimals (divR n k)

def formatBytesL (n : Int) : List Char :=
  match n with
  | .negSucc m => '-' :: natDigits (m + 1) ++ formatPlainSuffix.toList
  | .ofNat n =>
    match bandOf n with
    | some (pre, k) => fixedDigits formatDecimals (cents n k) ++ ' ' :: pre.toList ++ formatUnit.toList
    | none => natDigits n ++ formatPlainSuffix.toList

/-- `format_bytes(n)` -/
def formatBytes (n : Int) : String := String.ofList (formatBytesL n)

/-! ### float(prefix) for the literals `[sign] digits [. digits] [e [sign] digits]` -/

def isDigit (c : Char) : Bool := '0' ≤ c && c ≤ '9'
def isAlpha (c : Char) : Bool := ('a' ≤ c && c ≤ 'z') || ('A' ≤ c && c ≤ 'Z')

def digitsVal (cs : List Char) : Nat := cs.foldl (fun acc c => acc * 10 + (c.toNat - 48)) 0

structure Lit where
  neg : Bool
  num : Nat     -- value = num / den
  den : Nat
  deriving Repr

/-- optional sign -/
def stripSign : List Char → Bool × List Char
  | '-' :: r => (true, r)
  | '+' :: r => (false, r)
  | cs => (false, cs)

/-- optional fraction: `(fraction digits, rest)` -/
def splitFrac : List Char → List Char × List Char
  | '.' :: r => (r.takeWhile isDigit, r.dropWhile isDigit)
  | r1 => ([], r1)

/-- parse a Python float literal of the supported shape; `none` = `ValueError` -/
def parseLit (cs : List Char) : Option Lit :=
  let (neg, cs) := stripSign cs
  let ip := cs.takeWhile isDigit
  let r1 := cs.dropWhile isDigit
  let (fp, r2) := splitFrac r1
  if ip.isEmpty && fp.isEmpty then none else
  let mant := digitsVal (ip ++ fp)
  let scale := fp.length
  match r2 with
  | [] => some ⟨neg, mant, 10 ^ scale⟩
  | c :: r =>
    if c = 'e' || c = 'E' then
      let (eneg, ds) := match r with
        | '-' :: t => (true, t)
        | '+' :: t => (false, t)
        | _ => (false, r)
      if ds.isEmpty || !ds.all isDigit then none else
      let ex := digitsVal ds
      if eneg then some ⟨neg, mant, 10 ^ (scale + ex)⟩
      else if ex ≥ scale then some ⟨neg, mant * 10 ^ (ex - scale), 1⟩
      else some ⟨neg, mant, 10 ^ (scale - ex)⟩
    else none

/-- `float(literal)` (magnitude) -/
def Lit.toDy (l : Lit) : Dy := ratToDy l.num l.den

/-- split `s` (spaces removed, maybe `1` prepended) into `(prefix, suffix)`: suffix = trailing run of letters -/
def splitUnit (cs : List Char) : List Char × List Char :=
  let suf := (cs.reverse.takeWhile isAlpha).reverse
  (cs.take (cs.length - suf.length), suf)

def lookup {α : Type} (tbl : List (String × α)) (k : String) : Option α :=
  match tbl with
  | [] => none
  | (k', v) :: r => if k' = k then some v else lookup r k

inductive ParseBytes where
  | ok (v : Int)
  | badNumber       -- ValueError: Could not interpret '…' as a number
  | badUnit         -- ValueError: Could not interpret '…' as a byte unit
  deriving Repr, DecidableEq

/-- `parse_bytes(s)` for a `str` argument -/
def parseBytes (s : String) : ParseBytes :=
  let cs := s.toList.filter (· ≠ ' ')
  let cs := if cs.any isDigit then cs else '1' :: cs
  let (pre, suf) := splitUnit cs
  match parseLit pre with
  | none => .badNumber
  | some l =>
    match lookup byteSizes (String.ofList (lowerL suf)) with
    | none => .badUnit
    | some mult =>
      let r := (mulR l.toDy (natToDy mult)).floor
      .ok (if l.neg then -(r : Int) else r)

inductive ParseTd where
  | int (v : Int)
  | float (neg : Bool) (m : Nat) (e : Int)    -- value ± m·2^e, not an integer
  | indexError      -- empty string: `s[0]`
  | valueError      -- float(prefix) failed
  | keyError        -- unknown unit
  deriving Repr, DecidableEq

/-- `parse_timedelta(s, default)` for a `str` argument and a `str` default -/
def parseTimedelta (s : String) (dflt : String) : ParseTd :=
  let cs := s.toList.filter (· ≠ ' ')
  match cs with
  | [] => .indexError
  | c0 :: _ =>
    -- `if not (s[0].isdigit() or s[0] == "."): s = "1" + s`  (the `'.'` test is the `fix:` commit 1d96b59)
    let cs := if isDigit c0 || c0 = '.' then cs else '1' :: cs
    let (pre, suf) := splitUnit cs
    let suf := if suf.isEmpty then dflt.toList else suf
    match parseLit pre with
    | none => .valueError
    | some l =>
      match lookup timedeltaSizes (String.ofList (lowerL suf)) with
      | none => .keyError
      | some (num, den) =>
        let x := mulR l.toDy (ratToDy num den)
        if x.isInt then .int (if l.neg then -(x.floor : Int) else x.floor)
        else .float l.neg x.m x.e

/-! ### natural_sort_key -/

/-- `re.split(r"(\d+)", s)`: text, digits, text, …, text (always odd length, starts and ends with text).
    The first argument is fuel (`length + 1` suffices). -/
def splitDigitsFuel : Nat → List Char → List (List Char)
  | 0, _ => [[]]
  | fuel + 1, cs =>
    let txt := cs.takeWhile (fun c => !isDigit c)
    match cs.dropWhile (fun c => !isDigit c) with
    | [] => [txt]
    | rest => txt :: rest.takeWhile isDigit :: splitDigitsFuel fuel (rest.dropWhile isDigit)

def splitDigits (cs : List Char) : List (List Char) := splitDigitsFuel (cs.length + 1) cs

inductive Part where
  | text (s : List Char)
  | num (n : Nat)
  deriving Repr, DecidableEq

/-- `natural_sort_key(s)` -/
def naturalSortKey (s : String) : List Part :=
  (splitDigits s.toList).map fun p =>
    if !p.isEmpty && p.all isDigit then Part.num (digitsVal p) else Part.text p

end Dask.Bytes
