/-
K13 (part): `dask.blockwise._fuse_annotations`, driven by a rule table.

The table (`key ↦ combiner`) is NOT written here: `harness/tables_hlg.py` extracts it from the AST of
`_fuse_annotations` into `Generated/FuseRules.lean` on every run; the tightening theorem of
`Props/C10.lean` is stated over that generated table.

Python                                            Lean
------                                            ----
annotation dict                                   `Ann` = association list `String ↦ Val` (first binding wins on lookup)
`toolz.merge(*args)`                              `mergeAll` (later dicts override, insertion order kept)
`max(xs)`                                         `Rule.max`
`toolz.merge_with(max, *dicts)`                   `Rule.mergeWithMax`
`list(set.intersection(*[set(w) for w in ws]))`   `Rule.setIntersection` (a set is a duplicate-free list; order unspecified)
`all(xs)`                                         `Rule.all`
a combiner applied to a value of the wrong type   `none` (Python raises TypeError)
Import-free.
-/
namespace Dask.Annot

inductive Rule where
  | max | mergeWithMax | setIntersection | all
  deriving Repr, DecidableEq

inductive Val where
  | int (i : Int)
  | res (m : List (String × Int))
  | set (l : List Nat)
  | bool (b : Bool)
  | other (n : Nat)
  deriving Repr, DecidableEq

abbrev Ann := List (String × Val)

def lookup {α : Type} (m : List (String × α)) (k : String) : Option α :=
  match m with
  | [] => none
  | (k', v) :: r => if k' = k then some v else lookup r k

/-- `d[k] = v` keeping the insertion position of an existing key -/
def setKey {α : Type} (m : List (String × α)) (k : String) (v : α) : List (String × α) :=
  match m with
  | [] => [(k, v)]
  | (k', v') :: r => if k' = k then (k, v) :: r else (k', v') :: setKey r k v

/-- `toolz.merge(*args)` -/
def mergeAll (args : List Ann) : Ann :=
  args.foldl (fun acc a => a.foldl (fun acc kv => setKey acc kv.1 kv.2) acc) []

/-- `[a[key] for a in args if key in a]` -/
def collect (key : String) (args : List Ann) : List Val := args.filterMap (fun a => lookup a key)

def ints : List Val → Option (List Int)
  | [] => some []
  | .int i :: r => (ints r).map (i :: ·)
  | _ :: _ => none

def ress : List Val → Option (List (List (String × Int)))
  | [] => some []
  | .res m :: r => (ress r).map (m :: ·)
  | _ :: _ => none

def sets : List Val → Option (List (List Nat))
  | [] => some []
  | .set m :: r => (sets r).map (m :: ·)
  | _ :: _ => none

def bools : List Val → Option (List Bool)
  | [] => some []
  | .bool m :: r => (bools r).map (m :: ·)
  | _ :: _ => none

/-- Python `max` of a non-empty list -/
def maxList (x : Int) (xs : List Int) : Int := xs.foldl (fun a b => if a < b then b else a) x

/-- `toolz.merge_with(max, *dicts)`: every key of any dict ↦ max of its values -/
def mergeWithMax (ds : List (List (String × Int))) : List (String × Int) :=
  ds.foldl (fun acc d => d.foldl (fun acc kv =>
    match lookup acc kv.1 with
    | none => setKey acc kv.1 kv.2
    | some v => setKey acc kv.1 (if v < kv.2 then kv.2 else v)) acc) []

/-- `set.intersection(*sets)` of a non-empty list of sets -/
def interAll (s : List Nat) (ss : List (List Nat)) : List Nat :=
  s.filter fun x => ss.all fun t => t.contains x

/-- apply one combiner to the collected (non-empty) values -/
def combine : Rule → List Val → Option Val
  | .max, vs => match ints vs with
    | some (x :: xs) => some (.int (maxList x xs))
    | _ => none
  | .mergeWithMax, vs => (ress vs).map fun ds => .res (mergeWithMax ds)
  | .setIntersection, vs => match sets vs with
    | some (s :: ss) => some (.set (interAll s ss))
    | _ => none
  | .all, vs => (bools vs).map fun bs => .bool (bs.all id)

/-- one `if xs: annotations[key] = comb(xs)` statement -/
def applyRule (args : List Ann) (acc : Option Ann) (r : String × Rule) : Option Ann :=
  match acc with
  | none => none
  | some a =>
    match collect r.1 args with
    | [] => some a
    | v :: vs => (combine r.2 (v :: vs)).map fun c => setKey a r.1 c

/-- `_fuse_annotations(*args)` for a rule table -/
def fuse (rules : List (String × Rule)) (args : List Ann) : Option Ann :=
  rules.foldl (applyRule args) (some (mergeAll args))

end Dask.Annot
