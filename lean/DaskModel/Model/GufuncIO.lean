import DaskModel.DriverLib
import DaskModel.Model.Gufunc
/-! Driver handlers for `Model/Gufunc.lean` (C35 extension); appended to the table of `Drivers/hlg.lean`. -/
namespace Dask.GufuncIO
open Dask Dask.Gufunc

def ofName (n : List Char) : SExp := SExp.ofNats (n.map Char.toNat)
def ofArgs (a : List (List (List Char))) : SExp := .list (a.map fun names => .list (names.map ofName))

def toChars? (e : SExp) : Option (List Char) := do pure ((← e.toNats?).map Char.ofNat)

/-- `(gusig (codepoint…))` ↦ `(ok (ins…) (outs…) single)` | `(raised)` : `_parse_gufunc_signature` -/
def hSig : Handler := handler fun a => match a with
  | [cs] => do
    let cs ← toChars? cs
    pure (match parseSig cs with
      | some s => .list [.sym "ok", ofArgs s.ins, ofArgs s.outs, SExp.ofBool s.single]
      | none => .list [.sym "raised"])
  | _ => none

/-- `(gusigv ((codepoint…)…))` ↦ `(0|1 …)` : validity only, batched -/
def hSigV : Handler := handler fun a => match a with
  | [l] => do
    let ss ← (← l.toList?).mapM toChars?
    pure (.list (ss.map fun cs => SExp.ofNat (if (parseSig cs).isSome then 1 else 0)))
  | _ => none

def toStrs? (e : SExp) : Option (List String) := do (← e.toList?).mapM SExp.toStr?
def toStrss? (e : SExp) : Option (List (List String)) := do (← e.toList?).mapM toStrs?

def toGArg? : SExp → Option GArg
  | .list [sh, ch] => do pure { shape := ← sh.toNats?, chunks := ← ch.toNatss? }
  | _ => none

def toSizes? (e : SExp) : Option (List (String × Nat)) := do
  (← e.toList?).mapM fun p => match p with
    | .list [n, v] => do pure (← n.toStr?, ← v.toNat?)
    | _ => none

def ofDim : Dim String → SExp
  | .loop d => .list [.sym "L", SExp.ofNat d]
  | .core n => .list [.sym "C", .str n]

def ofErr : GErr String → SExp
  | .malformed => .list [.sym "raised", .sym "malformed"]
  | .nargs => .list [.sym "raised", .sym "nargs"]
  | .ndim => .list [.sym "raised", .sym "ndim"]
  | .lengths d => .list [.sym "raised", .sym "lengths", ofDim d]
  | .coreMulti d => .list [.sym "raised", .sym "coreMulti", ofDim d]
  | .chunksize d => .list [.sym "raised", .sym "chunksize", ofDim d]
  | .missingSize n => .list [.sym "raised", .sym "missingSize", .str n]

/-- `(guplan (ins…) (outs…) ((shape chunks)…) ((name size)…) allow)` ↦
    `(ok mx (outInd…) ((inDims…)…) ((name size)…) ((outCore…)…))` | `(raised tag [dim])` -/
def hPlan : Handler := handler fun a => match a with
  | [ins, outs, args, os, allow] => do
    let ins ← toStrss? ins
    let outs ← toStrss? outs
    let args ← (← args.toList?).mapM toGArg?
    let os ← toSizes? os
    let allow ← allow.toBool?
    pure (match plan ⟨ins, outs⟩ args os allow with
      | .error e => ofErr e
      | .ok P => .list [.sym "ok", SExp.ofNat P.mx, .list (P.outInd.map ofDim), .list (P.inDims.map fun d => .list (d.map ofDim)),
                        .list (P.coreShapes.map fun p => .list [.str p.1, SExp.ofNat p.2]), SExp.ofNatss P.outCore])
  | _ => none

/-- `(guleaf single i ncore (keys…) (loopchunks…) (coreshape…))` ↦ `(((leafkey) (tmpkey) getitem|none)…) (outchunks…)` -/
def hLeaf : Handler := handler fun a => match a with
  | [single, i, nc, keys, lc, cshape] => do
    let single ← single.toBool?
    let i ← i.toNat?
    let nc ← nc.toNat?
    let keys ← keys.toNatss?
    let lc ← lc.toNatss?
    let cshape ← cshape.toNats?
    pure (.list [.list ((leafLayer single i nc keys).map fun t => .list [SExp.ofNats t.1, SExp.ofNats t.2.1, SExp.ofOptNat t.2.2]),
                 SExp.ofNatss (outChunks lc cshape)])
  | _ => none

def toDim? : SExp → Option (Dim String)
  | .list [.sym "L", d] => do pure (.loop (← d.toNat?))
  | .list [.sym "C", n] => do pure (.core (← n.toStr?))
  | _ => none

def ofCoord : Blockwise.Coord → SExp
  | .one n => SExp.ofNat n
  | .many l => SExp.ofNats l

/-- the K13 view of the `blockwise` call: `(dims…)`/`(numblocks…)` per argument -/
def toBw? (mx : Nat) (names : List String) (args : SExp) : Option (List Blockwise.Arg) := do
  let l ← args.toList?
  (l.zipIdx).mapM fun p => match p.1 with
    | .list [dims, nb] => do
      let dims ← (← dims.toList?).mapM toDim?
      pure (bwArg mx names p.2 dims (← nb.toNats?))
    | _ => none

/-- `(gucoords mx (names…) (((dims…) (nb…))…) (o…))` ↦ `(ok ((coord…)…))` | `(raised)`: K13's `arg_coords` (real `_make_dims`
    and the first-seen enumeration of the dummy indices) for the index strings of the `blockwise` call -/
def hCoords : Handler := handler fun a => match a with
  | [mx, names, args, o] => do
    let mx ← mx.toNat?
    let names ← toStrs? names
    let bws ← toBw? mx names args
    let o ← o.toNats?
    let out := List.range mx
    pure (match Blockwise.makeDims bws [] with
      | none => .list [.sym "raised"]
      | some dims =>
        match Blockwise.traverse (Blockwise.argCoords out (Blockwise.dummyIndices out bws) dims true o) bws with
        | none => .list [.sym "raised"]
        | some cs => .list [.sym "ok", .list (cs.map fun c => .list (c.map ofCoord))])
  | _ => none

/-- `(guat mx (names…) (oc…) (((dims…) (lchunks…) (cnb…))…) (l…))` ↦ `(ok ((idx…)…) ((idx…)…))` | `(none)`:
    `gufuncAt` and `vectorizeAt` with `σ` = the loop multi-index of the argument, `f` = identity: which core slice of every
    argument the assembled result at loop index `l` was computed from, and which NumPy's broadcasting selects -/
def hAt : Handler := handler fun a => match a with
  | [mx, names, oc, args, l] => do
    let mx ← mx.toNat?
    let names ← toStrs? names
    let oc ← oc.toNatss?
    let l ← l.toNats?
    let raw ← (← args.toList?).mapM fun e => match e with
      | .list [dims, lch, cnb] => do
        let dims ← (← dims.toList?).mapM toDim?
        pure (dims, ← lch.toNatss?, ← cnb.toNats?)
      | _ => none
    let las : List (LArg (List Nat) × Blockwise.Arg) := raw.zipIdx.map fun p =>
      ({ lchunks := p.1.2.1, cnb := p.1.2.2, val := id }, bwArg mx names p.2 p.1.1 (p.1.2.1.map List.length ++ p.1.2.2))
    let bws := las.map (·.2)
    let out := List.range mx
    pure (match Blockwise.makeDims bws [] with
      | none => .list [.sym "none"]
      | some dims =>
        match gufuncAt (fun vs => vs) mx out (Blockwise.dummyIndices out bws) dims oc las l with
        | none => .list [.sym "none"]
        | some r => .list [.sym "ok", SExp.ofNatss r, SExp.ofNatss (vectorizeAt (fun vs => vs) mx (las.map (·.1)) l)])
  | _ => none

def handlers : List (String × Handler) :=
  [("gusig", hSig), ("gusigv", hSigV), ("guplan", hPlan), ("guleaf", hLeaf), ("gucoords", hCoords), ("guat", hAt)]

end Dask.GufuncIO
