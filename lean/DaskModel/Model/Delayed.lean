import DaskModel.Model.GraphMerge
/-
`dask.delayed` programs (dask/delayed.py): the expression a user writes, its eager value, and the task graph
`delayed` assembles for it.

Python                                                        Lean
------                                                        ----
delayed(obj)            (DelayedLeaf: DataNode under a key)   `E.leaf nm v`
delayed(f, pure=…)(*args, **kwargs), d.method(…), d + x, d[i], d.attr   (`call_function`: ONE task `Task(name, func, *args2)`
                        whose arguments are the unpacked args) `E.call nm f args`
an argument: a plain value                                    `Arg.lit v`
             a Delayed (replaced by TaskRef(key))              `Arg.sub e`
             list / tuple / dict containing Delayed values (`unpack_collections` rebuilds them around the refs)
                                                               `Arg.list / tuple / dict`
key of the Delayed (`funcname-token` if pure, uuid4 if not, `dask_key_name` if given)   the field `nm`
HighLevelGraph.from_collections(name, {name: task}, dependencies=collections)           `graphOf`: the graphs of the
                        Delayed arguments merged, extended by the new task

A task is kept as its dependency keys and a function of an environment (`Task.__call__` looks the TaskRefs up).
Import-free apart from the GraphMerge model.
-/
namespace Dask.Delayed
open Dask.GraphMerge

mutual
inductive E where
  | leaf (nm : Nat) (v : Nat)
  | call (nm : Nat) (f : Nat) (args : List Arg)
inductive Arg where
  | lit (v : Nat)
  | sub (e : E)
  | list (xs : List Arg)
  | tuple (xs : List Arg)
  | dict (kvs : List (Arg × Arg))
end

def E.nm : E → Nat
  | .leaf nm _ => nm
  | .call nm _ _ => nm

/-- the value algebra (functions, plain values and containers are opaque) -/
structure Sem (V : Type) where
  lit : Nat → V
  app : Nat → List V → V
  mkList : List V → V
  mkTuple : List V → V
  mkDict : List (V × V) → V

section
variable {V : Type} (S : Sem V)

mutual
/-- the same program run eagerly -/
def evalE : E → V
  | .leaf _ v => S.lit v
  | .call _ f args => S.app f (evalArgs args)
def evalArg : Arg → V
  | .lit v => S.lit v
  | .sub e => evalE e
  | .list xs => S.mkList (evalArgs xs)
  | .tuple xs => S.mkTuple (evalArgs xs)
  | .dict kvs => S.mkDict (evalPairs kvs)
def evalArgs : List Arg → List V
  | [] => []
  | a :: as => evalArg a :: evalArgs as
def evalPairs : List (Arg × Arg) → List (V × V)
  | [] => []
  | (k, v) :: r => (evalArg k, evalArg v) :: evalPairs r
end

mutual
/-- an argument evaluated inside a task: Delayed values are looked up in the environment of dependency values -/
def argEnv (env : Nat → V) : Arg → V
  | .lit v => S.lit v
  | .sub e => env e.nm
  | .list xs => S.mkList (argsEnv env xs)
  | .tuple xs => S.mkTuple (argsEnv env xs)
  | .dict kvs => S.mkDict (pairsEnv env kvs)
def argsEnv (env : Nat → V) : List Arg → List V
  | [] => []
  | a :: as => argEnv env a :: argsEnv env as
def pairsEnv (env : Nat → V) : List (Arg × Arg) → List (V × V)
  | [] => []
  | (k, v) :: r => (argEnv env k, argEnv env v) :: pairsEnv env r
end
end

mutual
/-- the Delayed values directly inside the arguments (the `collections` of `unpack_collections`) -/
def directSubs : Arg → List E
  | .lit _ => []
  | .sub e => [e]
  | .list xs => directSubsL xs
  | .tuple xs => directSubsL xs
  | .dict kvs => directSubsP kvs
def directSubsL : List Arg → List E
  | [] => []
  | a :: as => directSubs a ++ directSubsL as
def directSubsP : List (Arg × Arg) → List E
  | [] => []
  | (k, v) :: r => directSubs k ++ directSubs v ++ directSubsP r
end

/-- environment handed to a task: the values of its dependency keys (first occurrence of a key wins) -/
def envOf {V : Type} [Inhabited V] : List Nat → List V → Nat → V
  | k :: ks, v :: vs, q => if q = k then v else envOf ks vs q
  | _, _, _ => default

def single {V : Type} (k : Nat) (t : ATask Nat V) : Graph Nat V := fun q => if q = k then some t else none

/-- add one task to a graph (`{name: task}` on top of the graphs of the dependencies) -/
def extend {V : Type} (g : Graph Nat V) (k : Nat) (t : ATask Nat V) : Graph Nat V :=
  fun q => if q = k then some t else g q

section
variable {V : Type} [Inhabited V] (S : Sem V)

/-- the task `Task(name, func, *args2)` built by `call_function` -/
def taskOf (f : Nat) (args : List Arg) : ATask Nat V :=
  let deps := (directSubsL args).map E.nm
  ⟨deps, fun vs => S.app f (argsEnv S (envOf deps vs) args)⟩

mutual
/-- the graph of a Delayed value -/
def graphOf : E → Graph Nat V
  | .leaf nm v => single nm ⟨[], fun _ => S.lit v⟩
  | .call nm f args => extend (mergeAll (graphsA args)) nm (taskOf S f args)
def graphsArg : Arg → List (Graph Nat V)
  | .lit _ => []
  | .sub e => [graphOf e]
  | .list xs => graphsA xs
  | .tuple xs => graphsA xs
  | .dict kvs => graphsP kvs
def graphsA : List Arg → List (Graph Nat V)
  | [] => []
  | a :: as => graphsArg a ++ graphsA as
def graphsP : List (Arg × Arg) → List (Graph Nat V)
  | [] => []
  | (k, v) :: r => graphsArg k ++ graphsArg v ++ graphsP r
end
end

mutual
/-- all Delayed values of the program, the value itself first -/
def subexprs : E → List E
  | .leaf nm v => [.leaf nm v]
  | .call nm f args => .call nm f args :: subexprsL args
def subexprsA : Arg → List E
  | .lit _ => []
  | .sub e => subexprs e
  | .list xs => subexprsL xs
  | .tuple xs => subexprsL xs
  | .dict kvs => subexprsP kvs
def subexprsL : List Arg → List E
  | [] => []
  | a :: as => subexprsA a ++ subexprsL as
def subexprsP : List (Arg × Arg) → List E
  | [] => []
  | (k, v) :: r => subexprsA k ++ subexprsA v ++ subexprsP r
end

end Dask.Delayed
