/- Line-protocol handlers for the extension round of C43 (`Model/RelExpr2.lean`). Import-free of Mathlib. -/
import DaskModel.DriverLib
import DaskModel.Model.RelExpr2
open Dask

namespace Dask.RelExpr2IO
open Dask.RelExpr2
open Dask.RelExpr (Cell BinOp Src)

def toCell? : SExp → Option Cell
  | .sym "none" => some none
  | .int i => some (some i)
  | _ => none
def ofCell : Cell → SExp
  | none => .sym "none"
  | some i => .int i

def toStrs? (e : SExp) : Option (List String) := do
  (← e.toList?).mapM (fun x => match x with | .str s => some s | _ => none)
def ofStrs (l : List String) : SExp := .list (l.map .str)

def toBinOp? : String → Option BinOp
  | "add" => some .add | "sub" => some .sub | "mul" => some .mul | "lt" => some .lt | "le" => some .le
  | "gt" => some .gt | "ge" => some .ge | "eq" => some .eq | "ne" => some .ne | "and" => some .and | "or" => some .or
  | _ => none
def ofBinOp : BinOp → String
  | .add => "add" | .sub => "sub" | .mul => "mul" | .lt => "lt" | .le => "le"
  | .gt => "gt" | .ge => "ge" | .eq => "eq" | .ne => "ne" | .and => "and" | .or => "or"

partial def toE2? : SExp → Option E2
  | .list [.sym "src", .int j] => some (.src j.toNat)
  | .list [.sym "proj", cols, f] => do pure (.proj (← toStrs? cols) (← toE2? f))
  | .list [.sym "col", f, .str n] => do pure (.col (← toE2? f) n)
  | .list [.sym "filter", f, p] => do pure (.filter (← toE2? f) (← toE2? p))
  | .list [.sym "assign", f, .str n, v] => do pure (.assign (← toE2? f) n (← toE2? v))
  | .list [.sym "lit", .int k] => some (.lit k)
  | .list [.sym "bin", .sym op, a, b] => do pure (.bin (← toBinOp? op) (← toE2? a) (← toE2? b))
  | .list [.sym "not", a] => do pure (.not (← toE2? a))
  | .list [.sym "merge", .sym how, on, l, r] => do
    let h ← (match how with | "inner" => some How.inner | "left" => some How.left | _ => none)
    pure (.merge h (← toStrs? on) (← toE2? l) (← toE2? r))
  | .list [.sym "concat", a, b] => do pure (.concat (← toE2? a) (← toE2? b))
  | .list [.sym "index", f] => do pure (.index (← toE2? f))
  | .list [.sym "len", f] => do pure (.len (← toE2? f))
  | _ => none

def ofE2 : E2 → SExp
  | .src j => .list [.sym "src", .int j]
  | .proj cs f => .list [.sym "proj", ofStrs cs, ofE2 f]
  | .col f n => .list [.sym "col", ofE2 f, .str n]
  | .filter f p => .list [.sym "filter", ofE2 f, ofE2 p]
  | .assign f n v => .list [.sym "assign", ofE2 f, .str n, ofE2 v]
  | .lit k => .list [.sym "lit", .int k]
  | .bin op a b => .list [.sym "bin", .sym (ofBinOp op), ofE2 a, ofE2 b]
  | .not a => .list [.sym "not", ofE2 a]
  | .merge h on l r => .list [.sym "merge", .sym (match h with | .inner => "inner" | .left => "left"), ofStrs on, ofE2 l, ofE2 r]
  | .concat a b => .list [.sym "concat", ofE2 a, ofE2 b]
  | .index f => .list [.sym "index", ofE2 f]
  | .len f => .list [.sym "len", ofE2 f]

def toSrc? : SExp → Option Src
  | .list [cols, rows] => do
    let rows ← (← rows.toList?).mapM (fun r => do (← r.toList?).mapM toCell?)
    pure { cols := (← toStrs? cols), rows := rows }
  | _ => none

def ofVal2 : Option Val2 → SExp
  | none => .list [.sym "illformed"]
  | some (.frame cols rows) => .list [.sym "frame", ofStrs cols, .list (rows.map (fun ir => .list (ir.2.map ofCell)))]
  | some (.series rows) => .list [.sym "series", .list (rows.map (fun ir => ofCell ir.2))]
  | some (.scalar c) => .list [.sym "scalar", ofCell c]

/-- `(opteval2 ((cols rows)…) e)` ↦ the denotation (rows without their identities) -/
def hOptEval2 : Handler := handler fun args =>
  match args with
  | [srcs, e] => do
    let ss ← (← srcs.toList?).mapM toSrc?
    pure (ofVal2 (den2 ss (← toE2? e)))
  | _ => none

def toStrss? (e : SExp) : Option (List (List String)) := do (← e.toList?).mapM toStrs?

/-- `(optcheck2 <old|noleaf> ((cols…)…) (len…) fuel (e0 e1 …))` ↦ one verdict per consecutive pair: `ok` | `rejected` -/
def hOptCheck2 : Handler := handler fun args =>
  match args with
  | [.sym mode, sc, sl, fuel, es] => do
    let sc ← toStrss? sc
    let sl ← sl.toNats?
    let fuel ← fuel.toNat?
    let es ← (← es.toList?).mapM toE2?
    let leaf : E2 → E2 → Bool := if mode == "old" then oldOK sc else fun _ _ => false
    let rec go : List E2 → List SExp
      | a :: b :: rest => .sym (if check2 leaf sc sl fuel a b then "ok" else "rejected") :: go (b :: rest)
      | _ => []
    pure (.list (go es))
  | _ => none

/-- `(schema2 ((cols…)…) e)` ↦ `(cols…)` | `none` -/
def hSchema2 : Handler := handler fun args =>
  match args with
  | [sc, e] => do
    match schema2 (← toStrss? sc) (← toE2? e) with
    | some c => pure (ofStrs c)
    | none => pure (.sym "none")
  | _ => none

/-- `(mergeproj on cl cr cs)` ↦ `(project_left project_right)` of `Merge._simplify_up` -/
def hMergeProj : Handler := handler fun args =>
  match args with
  | [on, cl, cr, cs] => do
    let r := projectSides (← toStrs? on) (← toStrs? cl) (← toStrs? cr) (← toStrs? cs)
    pure (.list [ofStrs r.1, ofStrs r.2])
  | _ => none

/-- `(mergeok on cs cl cr pl pr)` ↦ do the side conditions of the two merge schemas hold for these projections? -/
def hMergeOK : Handler := handler fun args =>
  match args with
  | [on, cs, cl, cr, pl, pr] => do
    let on ← toStrs? on; let cs ← toStrs? cs; let cl ← toStrs? cl; let cr ← toStrs? cr
    let pl ← toStrs? pl; let pr ← toStrs? pr
    pure (.list [SExp.ofBool (mergeLOK on cs cl cr pl), SExp.ofBool (mergeROK on cs pl cr pr)])
  | _ => none

/-- `(concatcols cf cs)` ↦ `columns_frame` entry of `Concat._simplify_up` -/
def hConcatCols : Handler := handler fun args =>
  match args with
  | [cf, cs] => do pure (ofStrs (concatCols (← toStrs? cf) (← toStrs? cs)))
  | _ => none

/-- `(lendown e)` ↦ the result of `Len._simplify_down` | `none` -/
def hLenDown : Handler := handler fun args =>
  match args with
  | [e] => do
    match lenDown (← toE2? e) with
    | some e' => pure (ofE2 e')
    | none => pure (.sym "none")
  | _ => none

def handlers : List (String × Handler) := [
  ("opteval2", hOptEval2), ("optcheck2", hOptCheck2), ("schema2", hSchema2), ("mergeproj", hMergeProj),
  ("mergeok", hMergeOK), ("concatcols", hConcatCols), ("lendown", hLenDown)]

end Dask.RelExpr2IO
