import DaskModel.Model.Config
/-
K12 `ConfigAlias`: `dask.config.update / merge / update_defaults / refresh` with the IDENTITY of every `dict` object made
observable.  `Model/Config.lean` is value-semantic (a configuration is a tree of values); Python dictionaries are
objects, and a nested merge that stored a sub-dictionary of `new` inside `old` *by reference* would be invisible in one
call and visible only later (a `set` on the merged configuration silently rewriting the registered defaults, `merge(a, b)`
followed by an update of the result changing `a`).  Here every mapping node carries the identity of its Python object:

Python                                               Lean
------                                               ----
a `dict` object                                      `HCfg.node id entries`   (`id` = which object it is)
`old[k] = {}`   (a NEW dict object)                  a node with the next unused identity (`nx`, then `nx + 1`)
`update(old[k], v, …)` on the EXISTING `old[k]`      the node keeps its identity
`old[k] = v` for a non-mapping `v`                   `HCfg.leaf` (opaque, immutable for this purpose)
`merge(*dicts)`: `result = {}` + `update(result, d)` `hmerge` (the result object is fresh)
`update_defaults(new, config, defaults)`             `hstep … (.updateDefaults new cfg)` (`defaults.append(new)`: the list
                                                     holds the SAME object `new`, by design; `config` must not share with it)
`refresh(config, defaults, paths=[], env={})`        `hstep … (.refresh cfg)` (`config.clear()` keeps the object `config`)
histories of such calls over named dict objects      `hrun` (identities) and `vrun` (values, `Model/Config.lean`)
in-place mutation seen through every reference       `sync`: after an operation, every node of every other variable whose
                                                     identity occurs in the result shows the result's entries

`hupdate` is `Config.updateGo` plus identities (`hupdate_erase` in `Lemmas/ConfigAlias.lean`); the identities of `new` and
`defaults` are available to it and it never uses them — that is the property (`hupdate_ids`), and the tie checks the
real object graph (`id()` of every dict before and after the call) against it.  `hupdateShare` is the tempting shortcut
(`old[k] = v` when `k` is absent and `v` is a mapping); `Props/C17b.lean` shows what goes wrong with it.
No Mathlib (linked into the native driver).
-/
namespace Dask.ConfigAlias
open Dask.Config

inductive HCfg where
  | leaf : Int → HCfg
  | node : Nat → List (String × HCfg) → HCfg
  deriving Repr, Inhabited

abbrev HDict := List (String × HCfg)

mutual
/-- forget the identities -/
def HCfg.erase : HCfg → Cfg
  | .leaf c => .leaf c
  | .node _ es => .node (eraseL es)
def eraseL : HDict → Dict
  | [] => []
  | kv :: r => (kv.1, kv.2.erase) :: eraseL r
end

mutual
/-- identities of all dict objects of a value, preorder -/
def HCfg.ids : HCfg → List Nat
  | .leaf _ => []
  | .node i es => i :: idsL es
def idsL : HDict → List Nat
  | [] => []
  | kv :: r => kv.2.ids ++ idsL r
end

/-- the existing `old[k]` if it is a dict (same object), else a fresh `{}`: (identity, entries, next unused identity) -/
def childOf (old : HDict) (k : String) (nx : Nat) : Nat × HDict × Nat :=
  match dget old k with
  | some (.node i s) => (i, s, nx)
  | _ => (nx, [], nx + 1)

mutual
/-- the recursive call `update(old[k], v, …)` for a mapping-valued item `v` (`cur` = entries of `old[k]`) -/
def hupdateNode (p : Priority) : HCfg → HDict → Option Cfg → Nat → Option (HDict × Nat)
  | .node _ sub, cur, sd, nx => hupdate p sub cur sd nx
  | .leaf _, cur, _, nx => some (cur, nx)
/-- `update(old, new, priority, defaults)` on identified objects — argument order `new old` (recursion is on `new`).
    `nx` = first unused identity. Result: the entries of the (same) object `old` afterwards, next unused identity.
    `none` = raised. -/
def hupdate (p : Priority) : HDict → HDict → Option Cfg → Nat → Option (HDict × Nat)
  | [], old, _, nx => some (old, nx)
  | kv :: rest, old, defaults, nx =>
    let k := canonicalName kv.1 old
    match kv.2 with
    | .node _ _ =>
      -- `if k not in old or old[k] is None or not isinstance(old[k], dict): old[k] = {}`, then recurse into `old[k]`
      let c := childOf old k nx
      match subDefaults defaults k with
      | none => none
      | some sd =>
        match hupdateNode p kv.2 c.2.1 sd c.2.2 with
        | some (cur', nx') => hupdate p rest (dset old k (.node c.1 cur')) defaults nx'
        | none => none
    | .leaf x =>
      match leafWins HCfg.erase p old k defaults with
      | none => none
      | some true => hupdate p rest (dset old k (.leaf x)) defaults nx
      | some false => hupdate p rest old defaults nx
end

/-- the type of `hupdate` / `hupdateShare`: `p new old defaults nx` -/
abbrev Upd := Priority → HDict → HDict → Option Cfg → Nat → Option (HDict × Nat)

/-- `for d in ds: update(acc, d, priority=p)` -/
def foldUpd (upd : Upd) (p : Priority) : List HDict → HDict → Nat → Option (HDict × Nat)
  | [], acc, nx => some (acc, nx)
  | d :: ds, acc, nx =>
    match upd p d acc none nx with
    | some r => foldUpd upd p ds r.1 r.2
    | none => none

/-- `merge(*dicts)`: `result = {}` is the fresh object `nx`, then `update(result, d)` for each -/
def hmergeWith (upd : Upd) (ds : List HDict) (nx : Nat) : Option (HCfg × Nat) :=
  (foldUpd upd .new ds [] (nx + 1)).map fun r => (.node nx r.1, r.2)

def hmerge (ds : List HDict) (nx : Nat) : Option (HCfg × Nat) := hmergeWith hupdate ds nx

/-! ### the shortcut that shares (NOT the code): `old[k] = v` for a mapping `v` when `k` is absent -/

mutual
def hupdateShareNode (p : Priority) : HCfg → HDict → Option Cfg → Nat → Option (HDict × Nat)
  | .node _ sub, cur, sd, nx => hupdateShare p sub cur sd nx
  | .leaf _, cur, _, nx => some (cur, nx)
def hupdateShare (p : Priority) : HDict → HDict → Option Cfg → Nat → Option (HDict × Nat)
  | [], old, _, nx => some (old, nx)
  | kv :: rest, old, defaults, nx =>
    let k := canonicalName kv.1 old
    match kv.2 with
    | .node _ _ =>
      if !(dhas old k) then hupdateShare p rest (dset old k kv.2) defaults nx     -- the same object, by reference
      else
        let c := childOf old k nx
        match subDefaults defaults k with
        | none => none
        | some sd =>
          match hupdateShareNode p kv.2 c.2.1 sd c.2.2 with
          | some (cur', nx') => hupdateShare p rest (dset old k (.node c.1 cur')) defaults nx'
          | none => none
    | .leaf x =>
      match leafWins HCfg.erase p old k defaults with
      | none => none
      | some true => hupdateShare p rest (dset old k (.leaf x)) defaults nx
      | some false => hupdateShare p rest old defaults nx
end

/-! ### `set({key: c}, config=d)` for a scalar value, on identified objects -/

/-- `set._assign(keys, c, d)` (record dropped): missing intermediate mappings are NEW dict objects -/
def hassign : List String → Int → HDict → Nat → Option (HDict × Nat)
  | [], _, _, _ => none
  | [k], c, d, nx => some (dset d (canonicalName k d) (.leaf c), nx)
  | k :: k2 :: ks, c, d, nx =>
    let key := canonicalName k d
    match dget d key with
    | none =>
      match hassign (k2 :: ks) c [] (nx + 1) with
      | some (sub, nx') => some (dset d key (.node nx sub), nx')
      | none => none
    | some (.node i sub) =>
      match hassign (k2 :: ks) c sub nx with
      | some (sub', nx') => some (dset d key (.node i sub'), nx')
      | none => none
    | some (.leaf _) => none

/-! ### in-place mutation as seen through other references -/

mutual
/-- entries of the object `i` inside `c`, if it occurs (first occurrence) -/
def HCfg.find (i : Nat) : HCfg → Option HDict
  | .leaf _ => none
  | .node j es => if j = i then some es else findL i es
def findL (i : Nat) : HDict → Option HDict
  | [] => none
  | kv :: r =>
    match kv.2.find i with
    | some es => some es
    | none => findL i r
end

mutual
/-- what a reference `w` shows after the objects of `res` (the final state of the operation's target) were mutated in
    place: a node of `w` whose identity occurs in `res` IS that object, so it shows the entries it has there.
    (Objects detached from the target during the call are not tracked.) -/
def HCfg.sync (res : HCfg) : HCfg → HCfg
  | .leaf c => .leaf c
  | .node i es => .node i ((res.find i).getD (syncL res es))
def syncL (res : HCfg) : HDict → HDict
  | [] => []
  | kv :: r => (kv.1, HCfg.sync res kv.2) :: syncL res r
end

/-! ### histories over a store of named dict objects -/

/-- `vars[i]` = a named top-level dict object; `defaults` = the registered defaults list (it holds the objects
    themselves, so it is a list of names); `nx` = first unused identity -/
structure HStore where
  vars : List HCfg
  defaults : List Nat
  nx : Nat
  deriving Repr

inductive HOp where
  | merge (srcs : List Nat)                                   -- `vars.append(merge(*[vars[i] for i in srcs]))`
  | update (p : Priority) (dst src : Nat) (dflt : Option Nat) -- `update(vars[dst], vars[src], p, vars[dflt])`
  | setLeaf (dst : Nat) (keys : List String) (c : Int)        -- `set({key: c}, config=vars[dst])`, never exited
  | updateDefaults (new cfg : Nat)                            -- `update_defaults(vars[new], vars[cfg], defaults)`
  | refresh (cfg : Nat)                                       -- `refresh(vars[cfg], defaults, paths=[], env={})`
  deriving Repr

def entriesOf : HCfg → HDict
  | .node _ es => es
  | .leaf _ => []

def idOf : HCfg → Nat
  | .node i _ => i
  | .leaf _ => 0

def getVars (vars : List HCfg) (is : List Nat) : Option (List HCfg) := is.mapM fun i => vars[i]?

/-- the `defaults=` argument of `update`: read by value; outer `none` = name out of range -/
def dfltOf (vars : List HCfg) : Option Nat → Option (Option Cfg)
  | none => some none
  | some j => (vars[j]?).map fun c => some c.erase

/-- target variable := `r`; every other variable shows the in-place mutations of `r`'s objects -/
def commit (s : HStore) (dst : Nat) (r : HCfg) (nx : Nat) : HStore :=
  { s with vars := (s.vars.map (HCfg.sync r)).set dst r, nx := nx }

/-- one operation on the store, parametrised by the update function (`hupdate` = the code, `hupdateShare` = the
    shortcut); `none` = the real call raised (or a name is out of range).
    Precondition for faithfulness (not needed by the theorems): the target of `refresh` / `update_defaults` is not itself
    one of the registered defaults (that would be a self-update through the list). -/
def hstep (upd : Upd) (s : HStore) : HOp → Option HStore
  | .merge srcs => do
    let ds ← getVars s.vars srcs
    let r ← hmergeWith upd (ds.map entriesOf) s.nx
    pure { s with vars := s.vars.map (HCfg.sync r.1) ++ [r.1], nx := r.2 }
  | .update p dst src dflt => do
    let o ← s.vars[dst]?
    let n ← s.vars[src]?
    let dd ← dfltOf s.vars dflt
    let r ← upd p (entriesOf n) (entriesOf o) dd s.nx
    pure (commit s dst (.node (idOf o) r.1) r.2)
  | .setLeaf dst keys c => do
    let o ← s.vars[dst]?
    let r ← hassign keys c (entriesOf o) s.nx
    pure (commit s dst (.node (idOf o) r.1) r.2)
  | .updateDefaults new cfg => do
    let o ← s.vars[cfg]?
    let n ← s.vars[new]?
    let ds ← getVars s.vars s.defaults
    -- `current_defaults = merge(*defaults)`: fresh objects that are only read
    let cur ← Config.merge (ds.map fun d => eraseL (entriesOf d))
    let r ← upd .newDefaults (entriesOf n) (entriesOf o) (some (.node cur)) s.nx
    pure { commit s cfg (.node (idOf o) r.1) r.2 with defaults := s.defaults ++ [new] }
  | .refresh cfg => do
    let o ← s.vars[cfg]?
    let ds ← getVars s.vars s.defaults
    -- `config.clear()`, then `for d in defaults: update(config, d, priority="old")`; `collect(paths=[], env={})` is `{}`
    let r ← foldUpd upd .old (ds.map entriesOf) [] s.nx
    pure (commit s cfg (.node (idOf o) r.1) r.2)

def hrun (upd : Upd) : HStore → List HOp → Option HStore
  | s, [] => some s
  | s, op :: ops => (hstep upd s op).bind fun s' => hrun upd s' ops

/-! ### the same histories on values (what `Model/Config.lean` and its theorems talk about) -/

structure VStore where
  vars : List Dict
  defaults : List Nat
  deriving Repr

def getVals (vars : List Dict) (is : List Nat) : Option (List Dict) := is.mapM fun i => vars[i]?

def vdfltOf (vars : List Dict) : Option Nat → Option (Option Cfg)
  | none => some none
  | some j => (vars[j]?).map fun c => some (Cfg.node c)

/-- `for d in ds: update(acc, d, priority=p)` on values -/
def vfoldUpd (p : Priority) : List Dict → Dict → Option Dict
  | [], acc => some acc
  | d :: ds, acc =>
    match Config.update p acc d none with
    | some r => vfoldUpd p ds r
    | none => none

def vstep (s : VStore) : HOp → Option VStore
  | .merge srcs => do
    let ds ← getVals s.vars srcs
    let r ← Config.merge ds
    pure { s with vars := s.vars ++ [r] }
  | .update p dst src dflt => do
    let o ← s.vars[dst]?
    let n ← s.vars[src]?
    let dd ← vdfltOf s.vars dflt
    let r ← Config.update p o n dd
    pure { s with vars := s.vars.set dst r }
  | .setLeaf dst keys c => do
    let o ← s.vars[dst]?
    let r ← Config.assign keys (.leaf c) o [] false
    pure { s with vars := s.vars.set dst r.1 }
  | .updateDefaults new cfg => do
    let o ← s.vars[cfg]?
    let n ← s.vars[new]?
    let ds ← getVals s.vars s.defaults
    let cur ← Config.merge ds
    let r ← Config.update .newDefaults o n (some (.node cur))
    pure { vars := s.vars.set cfg r, defaults := s.defaults ++ [new] }
  | .refresh cfg => do
    let _ ← s.vars[cfg]?
    let ds ← getVals s.vars s.defaults
    let r ← vfoldUpd .old ds []
    pure { s with vars := s.vars.set cfg r }

def vrun : VStore → List HOp → Option VStore
  | s, [] => some s
  | s, op :: ops => (vstep s op).bind fun s' => vrun s' ops

end Dask.ConfigAlias
