import DaskModel.Model.OverlapTime
/-
K2 (dataframe part, extension round): a TIME-BASED `after` (a `Timedelta`) of `MapOverlap`, alone or together with a
time-based `before` — what `rolling('Ws', center=True)` (`RollingReduction._lower`: `before = after = Timedelta(W)`) and
`map_overlap(before=Timedelta, after=Timedelta)` lower to. Transliterated from `CreateOverlappingPartitions._layer`
(the `name_append` branch), `_head_timedelta_nonempty`, `_combined_parts` (`dask/dataframe/dask_expr/_expr.py`),
`_head_timedelta` and `overlap_chunk` (`dask/dataframe/rolling.py`) as they are after the repair of this round.

Python                                                        Lean
------                                                        ----
`current.index.max()` (`NaT` for an empty partition)           `tmax cur` (`none` = NaT: every comparison is False)
`_head_timedelta(current, next_, after)`                       `headTime A cur next` (rows of `next_` EARLIER than max + after)
`_head_timedelta_nonempty` (append task of a non-last          `headTimeNonempty`  (`none` = NotImplementedError: an empty
   neighbour)                                                     neighbour that is followed by other partitions)
append task `i`: partitions `i-1`, `i` ONLY, `2 * after`        `nextOfTime A cur rest` (entry of `nexts`; `rest` = later partitions)
`prevs[i]` (`before` falsy: `None`; timedelta: fast/slow path) `prevOfTime B divs i before cur` (`B = none`: falsy `before`)
`_combined_parts`: `_head_timedelta(cur, next, after)` again   `checkNext A cur next` (`none` = NotImplementedError: every row of
   and the "validate later" test                                  the non-empty `2*after` head is inside `after`)
`_combined_parts(prev, cur, next, before, after)`              `combinedTime2 B A prev cur next`
`overlap_chunk` (`before = prev_part_length`,                  `chunkTime2 func c`
   `after = next_part_length`, `out.iloc[before:-after]`)
the lowered `MapOverlap(before, after=Timedelta)`              `mapOverlapTime2 func B A divs parts`
a row function of the earlier rows later than `t - b` and of   `twin2 b a g` / `twinFn2 b a g` (`b = none`: no look-back)
   the later rows earlier than `t + a`

The flags `ce` (the append task refuses an empty non-last neighbour) and `ch` (the validation of `_combined_parts`) are
`true` in the code; the variants with one of them `false` are the refutation witnesses of `Props/C46xCenter.lean`
(`ce = false` is the code BEFORE the repair). `after` is a non-zero timedelta here (a falsy `after` is `mapOverlapTime`).
Import-free of Mathlib (linked into the native driver).
-/
namespace Dask.OverlapTime2
open Dask.OverlapTime

/-- `current.index.max()`: `none` = NaT (empty partition) -/
def tmax (p : List (TRow α)) : Option Int := (p.map (·.1)).max?

/-- `_head_timedelta(current, next_, after)`: `next_[next_.index < current.index.max() + after]` -/
def headTime (A : Int) (cur next : List (TRow α)) : List (TRow α) :=
  match tmax cur with
  | none => []
  | some m => next.filter (fun r => decide (r.1 < m + A))

/-- `_head_timedelta_nonempty(current, next_, after)`: `none` = NotImplementedError -/
def headTimeNonempty (ce : Bool) (A : Int) (cur next : List (TRow α)) : Option (List (TRow α)) :=
  if ce && next.isEmpty && !cur.isEmpty then none else some (headTime A cur next)

/-- entry of `nexts` for the partition `cur`, `rest` = the partitions after it: `None` for the last partition, else the
    append task over the IMMEDIATE neighbour with `2 * after`. Outer `none` = the append task raised. -/
def nextOfTime (ce : Bool) (A : Int) (cur : List (TRow α)) : List (List (TRow α)) → Option (Option (List (TRow α)))
  | [] => some none
  | [n] => some (some (headTime (2 * A) cur n))
  | n :: _ :: _ => (headTimeNonempty ce (2 * A) cur n).map some

/-- entry of `prevs` for partition `i` (`before` = partitions `0 … i-1`): `None` when `before` is falsy (`B = none`) or for
    partition 0, else prepend task `i-1` (fast or slow path). Outer `none` = malformed divisions. -/
def prevOfTime (B : Option Int) (divs : List Int) (i : Nat) (before : List (List (TRow α))) (cur : List (TRow α)) :
    Option (Option (List (TRow α))) :=
  match B with
  | none => some none
  | some W =>
    if i = 0 then some none
    else (selectPrev W divs (slowPath W divs) i before).map (fun sel => some (tailTime W cur sel))

/-- the `next_part` branch of `_combined_parts` for a timedelta `after`: filter once more with the real `after`;
    `len(next_part_input) == len(next_part) and len(next_part_input) > 0` raises (`none`) -/
def checkNext (ch : Bool) (A : Int) (cur : List (TRow α)) : Option (List (TRow α)) → Option (Option (List (TRow α)))
  | none => some none
  | some ni =>
    let n' := headTime A cur ni
    if ch && ni.length == n'.length && ni.length > 0 then none else some (some n')

/-- the `prev_part` branch of `_combined_parts`: `_tail_timedelta(current_part, [prev_part], before)` for a timedelta
    `before` (`B = some W`); for a falsy `before` (`B = none`) every `prev_part` of the graph is `None` -/
def prevPart (B : Option Int) (cur : List (TRow α)) (prev : Option (List (TRow α))) : Option (List (TRow α)) :=
  match B, prev with
  | some W, some p => some (tailTime W cur [p])
  | _, _ => none

/-- `_combined_parts(prev_part, current_part, next_part, before, after)` with a timedelta `after`; `before` a timedelta
    or falsy. `none` = NotImplementedError. -/
def combinedTime2 (ch : Bool) (B : Option Int) (A : Int) (prev : Option (List (TRow α))) (cur : List (TRow α))
    (next : Option (List (TRow α))) : Option (List (TRow α) × Option Nat × Option Nat) :=
  match checkNext ch A cur next with
  | none => none
  | some next' =>
    some ((prevPart B cur prev).getD [] ++ cur ++ next'.getD [], Overlap.lenOrNone (prevPart B cur prev), Overlap.lenOrNone next')

/-- one output partition: `overlap_chunk(func, before=prev_part_length, after=next_part_length, combined)` -/
def chunkTime2 (func : List (TRow α) → List β) (c : List (TRow α) × Option Nat × Option Nat) : List β :=
  Overlap.overlapChunk func (c.2.1.getD 0) (c.2.2.getD 0) c

/-- tasks of the lowered expression for partitions `i, i+1, …`; `none` = some task raised (or malformed divisions) -/
def goTime2 (ce ch : Bool) (func : List (TRow α) → List β) (B : Option Int) (A : Int) (divs : List Int) :
    Nat → List (List (TRow α)) → List (List (TRow α)) → Option (List (List β))
  | _, _, [] => some []
  | i, before, cur :: rest =>
    match prevOfTime B divs i before cur, nextOfTime ce A cur rest with
    | some pv, some nx =>
      match combinedTime2 ch B A pv cur nx, goTime2 ce ch func B A divs (i + 1) (before ++ [cur]) rest with
      | some c, some r => some (chunkTime2 func c :: r)
      | _, _ => none
    | _, _ => none

/-- the lowered `MapOverlap(before = B, after = Timedelta(A))` as the code is (`ce = ch = true`) -/
def mapOverlapTime2 (func : List (TRow α) → List β) (B : Option Int) (A : Int) (divs : List Int)
    (parts : List (List (TRow α))) : Option (List (List β)) :=
  goTime2 true true func B A divs 0 [] parts

/-! ## which partitionings the code accepts -/

/-- partition `cur` with the neighbour `n` (`more` = further partitions follow `n`) passes both checks: `cur` is empty, or
    `n` is the empty last partition, or `n` is non-empty and either has no row earlier than `max + 2A` or has a row in
    `[max + A, max + 2A)` -/
def afterStepOK (A : Int) (cur n : List (TRow α)) (more : Bool) : Bool :=
  match tmax cur with
  | none => true
  | some m =>
    if n.isEmpty then !more
    else n.all (fun r => decide (m + 2 * A ≤ r.1)) || n.any (fun r => decide (m + A ≤ r.1) && decide (r.1 < m + 2 * A))

def afterOK (A : Int) : List (List (TRow α)) → Bool
  | cur :: n :: rest => afterStepOK A cur n (!rest.isEmpty) && afterOK A (n :: rest)
  | _ => true

/-! ## two-sided time-local row functions -/

/-- the look-back context: nothing (`b = none`) or the earlier rows later than `t - b` -/
def bctx (b : Option Int) (t : Int) (pre : List (TRow α)) : List (TRow α) :=
  match b with
  | none => []
  | some W => tctx W t pre

/-- the look-ahead context: the later rows earlier than `t + a` -/
def actx (a : Int) (t : Int) (post : List (TRow α)) : List (TRow α) := post.filter (fun r => decide (r.1 < t + a))

/-- outputs for the rows `xs` preceded by `pre` and followed by `post` -/
def twin2 (b : Option Int) (a : Int) (g : List (TRow α) → TRow α → List (TRow α) → β) :
    List (TRow α) → List (TRow α) → List (TRow α) → List β
  | _, [], _ => []
  | pre, x :: rest, post => g (bctx b x.1 pre) x (actx a x.1 (rest ++ post)) :: twin2 b a g (pre ++ [x]) rest post

/-- the function on a whole block (what pandas computes on the unpartitioned frame) -/
def twinFn2 (b : Option Int) (a : Int) (g : List (TRow α) → TRow α → List (TRow α) → β) (xs : List (TRow α)) : List β :=
  twin2 b a g [] xs []

/-- `rolling('Ws', center=True, min_periods=m).sum()` on the rows of the window (with integer time stamps the window
    `(t - W/2, t + W/2]` is `b = ⌈W/2⌉`, `a = ⌊W/2⌋ + 1`) -/
def gCRollSum (m : Nat) (pre : List (TRow (Option Int))) (x : TRow (Option Int)) (post : List (TRow (Option Int))) : Option Int :=
  let vals := Overlap.validVals ((pre ++ [x] ++ post).map (·.2))
  if vals.length < m then none else some (vals.foldl (· + ·) 0)

/-- `rolling('Ws', center=True, min_periods=m).count()` -/
def gCRollCount (m : Nat) (pre : List (TRow (Option Int))) (x : TRow (Option Int)) (post : List (TRow (Option Int))) : Option Int :=
  let vals := Overlap.validVals ((pre ++ [x] ++ post).map (·.2))
  if (pre.length + 1 + post.length) < m then none else some vals.length

end Dask.OverlapTime2
