/-
K1/K9 (keyed): groupby aggregation of `dask_expr/_groupby.py` / `_reductions.py` as
"per-partition partial aggregate, then key-wise monoid merge" (`GroupByChunk` → `TreeReduce` with
`split_every`, or `ShuffleReduce`: shuffle the partials on the key, aggregate per output partition).

Python                                               Lean
------                                               ----
a partition                                          `List (Nat × V)` (group key, value cell; NA = `inj` gives `none`)
`chunk(df)` = `df.groupby(by).agg(f)`                `chunk` : key ↦ optional state (absent group = `none`)
`_concat(partials).groupby(level).agg(g)`            `combine` (left-to-right key-wise merge of the partials)
`toolz.partition_all(split_every, …)` tree           `partitionAll`, `treeReduce`
`ShuffleReduce` (tasks): partials of a key arrive    `shuffleReduce` (partition `h k % n`, order of the partials kept)
   in source order
`DiskShuffle`: partials of a key arrive in any order `combine` over a permutation of the partials
`shuffle_group` + concat of the pieces (tasks)        `shufflePiece`, `shuffleOut` (list level: rows keep their order)
a partial as the frame that is shipped               `partialRows` (one row `(key, state)` per group)
`NUnique` (`_nunique_df_chunk` = drop_duplicates,    `nuChunk`, `nuCombine`, `nuAggregate`, `nunique` (`treeReduce2`:
   `_nunique_df_combine` = unique().explode(),          combine at the inner levels, aggregate at the root)
   `nunique_df_aggregate` = nunique())
`IdxMin`/`IdxMax` = (`idxmin`/`idxmax`, `first`)      `idxCurrent` (as it is); `opArgmin`/`opArgmax` (what it should be)
`GroupByCumulative._lower` + `…Finalizer._layer`     `cumRaw`, `cumLast`, `cumFilled` (`_cum_agg_filled`), `cumAligned`
                                                        (`_cum_agg_aligned`), `cumLoop`/`cumDask`
`TreeReduce._layer` batches                          `treeLevels`
Import-free.
-/
namespace Dask.Groupby

/-- merge of optional states: an absent group / all-NA column is the unit -/
def omerge {M : Type} (op : M → M → M) : Option M → Option M → Option M
  | none, y => y
  | x, none => x
  | some a, some b => some (op a b)

/-- left-to-right fold of the states of one group (`none` for an empty group) -/
def fold1 {M : Type} (op : M → M → M) (xs : List (Option M)) : Option M :=
  xs.foldl (omerge op) none

/-- per-partition partial aggregate: the state of group `k` in this partition -/
def chunk {V M : Type} (op : M → M → M) (inj : V → Option M) (rows : List (Nat × V)) (k : Nat) : Option M :=
  fold1 op ((rows.filter fun r => r.1 == k).map fun r => inj r.2)

/-- key-wise merge of two partial results -/
def merge {M : Type} (op : M → M → M) (f g : Nat → Option M) : Nat → Option M :=
  fun k => omerge op (f k) (g k)

/-- `_concat(partials)` then group-wise aggregate: merge the partials left to right -/
def combine {M : Type} (op : M → M → M) (ps : List (Nat → Option M)) : Nat → Option M :=
  ps.foldl (merge op) (fun _ => none)

/-- `toolz.partition_all(k, xs)` -/
def partitionAll {α : Type} (k : Nat) : Nat → List α → List (List α)
  | 0, _ => []
  | fuel + 1, xs => if xs.isEmpty then [] else xs.take k :: partitionAll k fuel (xs.drop k)

/-- `TreeReduce`: while more than `k` partials remain, combine groups of `k`; then the final aggregate -/
def treeReduce {M : Type} (op : M → M → M) (k : Nat) : Nat → List (Nat → Option M) → Nat → Option M
  | 0, ps => combine op ps
  | fuel + 1, ps =>
    if ps.length ≤ k then combine op ps
    else treeReduce op k fuel ((partitionAll k ps.length ps).map (combine op))

/-- `ShuffleReduce` with an order-preserving shuffle: output partition `p` holds the groups with
    `h k % n = p`, each aggregated over its partials in source order -/
def shuffleReduce {M : Type} (op : M → M → M) (h : Nat → Nat) (n : Nat) (ps : List (Nat → Option M))
    (p : Nat) : Nat → Option M :=
  fun k => if h k % n = p then combine op ps k else none

/-! ### the aggregations as monoids (executable, used by the driver) -/

/-- `first` / `last`: left- / right-biased -/
def opFirst (a _ : Int) : Int := a
def opLast (_ b : Int) : Int := b
def opMin (a b : Int) : Int := if a ≤ b then a else b
def opMax (a b : Int) : Int := if a ≤ b then b else a
/-- (Σx, n) for mean; (n, Σx, Σx²) for var/std -/
def opPair (a b : Int × Int) : Int × Int := (a.1 + b.1, a.2 + b.2)
def opTriple (a b : Int × Int × Int) : Int × Int × Int := (a.1 + b.1, a.2.1 + b.2.1, a.2.2 + b.2.2)


/-! ### `TreeReduce._layer`: shape -/

/-- tree reduction with separate `combine` (inner levels) and `aggregate` (root), as `TreeReduce._layer` wires it -/
def treeReduce2 {S R : Type} (comb : List S → S) (agg : List S → R) (k : Nat) : Nat → List S → R
  | 0, ps => agg ps
  | fuel + 1, ps =>
    if ps.length ≤ k then agg ps
    else treeReduce2 comb agg k fuel ((partitionAll k ps.length ps).map comb)

/-- the batch sizes of every inner level of `TreeReduce._layer` for `n` input keys and `split_every = k` -/
def treeLevels (k : Nat) : Nat → Nat → List (List Nat)
  | 0, _ => []
  | fuel + 1, n =>
    if n ≤ k then []
    else
      let batches := (partitionAll k n (List.range n)).map List.length
      batches :: treeLevels k fuel batches.length

/-! ### `ShuffleReduce` / apply after the shuffle, list level -/

/-- the piece of one partition that `shuffle_group` sends to output partition `p` (rows keep their order) -/
def shufflePiece {V : Type} (h : Nat → Nat) (n p : Nat) (rows : List (Nat × V)) : List (Nat × V) :=
  rows.filter fun r => h r.1 % n == p

/-- output partition `p` of an order-preserving shuffle: the pieces of all input partitions, in source order -/
def shuffleOut {V : Type} (h : Nat → Nat) (n p : Nat) (parts : List (List (Nat × V))) : List (Nat × V) :=
  (parts.map (shufflePiece h n p)).flatten

/-- first occurrences, in order -/
def dedup {α : Type} [DecidableEq α] : List α → List α
  | [] => []
  | x :: xs => x :: (dedup xs).filter (fun y => decide (y ≠ x))

/-- the partial aggregate of one partition as the rows `(key, state)` of the frame dask ships around: one row per group
    that has a state, in first-appearance order of the keys -/
def partialRows {V M : Type} (op : M → M → M) (inj : V → Option M) (rows : List (Nat × V)) : List (Nat × M) :=
  (dedup (rows.map fun r => r.1)).filterMap fun k => (chunk op inj rows k).map fun m => (k, m)

/-! ### nunique -/

/-- cells of group `k` in row order -/
def groupCells (rows : List (Nat × Option Int)) (k : Nat) : List (Option Int) :=
  (rows.filter fun r => r.1 == k).map fun r => r.2

/-- `_nunique_df_chunk`: `drop_duplicates(subset=by + [name])` — the distinct cells of every group (NA is a cell) -/
def nuChunk (rows : List (Nat × Option Int)) : Nat → List (Option Int) := fun k => dedup (groupCells rows k)

/-- `_nunique_df_combine`: concat, then `unique().explode()` per group -/
def nuCombine (ps : List (Nat → List (Option Int))) : Nat → List (Option Int) :=
  fun k => dedup ((ps.map fun p => p k).flatten)

/-- `nunique_df_aggregate`: concat, then `nunique()` per group (NA not counted) -/
def nuAggregate (ps : List (Nat → List (Option Int))) : Nat → Nat :=
  fun k => ((nuCombine ps k).filter Option.isSome).length

def nunique (se fuel : Nat) (parts : List (List (Nat × Option Int))) : Nat → Nat :=
  treeReduce2 nuCombine nuAggregate se fuel (parts.map nuChunk)

/-- specification: the number of distinct non-NA values of the group in the whole frame -/
def nuniqueSpec (rows : List (Nat × Option Int)) (k : Nat) : Nat :=
  ((dedup (groupCells rows k)).filter Option.isSome).length

/-! ### idxmin / idxmax -/

/-- `(value, label)`: the smaller value wins, ties keep the earlier row (pandas: first occurrence) -/
def opArgmin (a b : Int × Int) : Int × Int := if b.1 < a.1 then b else a
def opArgmax (a b : Int × Int) : Int × Int := if a.1 < b.1 then b else a

/-- a row cell `(value or NA, index label)` as a state -/
def idxInj (r : Option Int × Int) : Option (Int × Int) := r.1.map fun v => (v, r.2)

/-- `first` on states -/
def opFirstP (a _ : Int × Int) : Int × Int := a

/-- `IdxMin`/`IdxMax` **as they are**: chunk = `idxmin`/`idxmax` of every partition, combine = aggregate = `first` -/
def idxCurrent (op : Int × Int → Int × Int → Int × Int) (k fuel : Nat)
    (parts : List (List (Nat × (Option Int × Int)))) : Nat → Option (Int × Int) :=
  treeReduce opFirstP k fuel (parts.map (chunk op idxInj))

/-! ### cumulative operations (cumsum / cumprod / cumcount) -/

/-- running value of every group -/
abbrev St := Nat → Option Int

def stEmpty : St := fun _ => none

def stSet (st : St) (k : Nat) (v : Int) : St := fun j => if j = k then some v else st j

/-- next running value of a group -/
def cumStep (op : Int → Int → Int) (cur : Option Int) (v : Int) : Int :=
  match cur with
  | none => v
  | some a => op a v

/-- `groupby.cumsum` of the rows started from the running values `st` (an NA cell gives NA and is skipped) -/
def cumGo (op : Int → Int → Int) : St → List (Nat × Option Int) → List (Option Int)
  | _, [] => []
  | st, (_, none) :: rs => none :: cumGo op st rs
  | st, (k, some v) :: rs => some (cumStep op (st k) v) :: cumGo op (stSet st k (cumStep op (st k) v)) rs

/-- the running values after the rows -/
def cumSt (op : Int → Int → Int) : St → List (Nat × Option Int) → St
  | st, [] => st
  | st, (_, none) :: rs => cumSt op st rs
  | st, (k, some v) :: rs => cumSt op (stSet st k (cumStep op (st k) v)) rs

/-- chunk: the cumulative operation inside one partition -/
def cumRaw (op : Int → Int → Int) (rows : List (Nat × Option Int)) : List (Option Int) := cumGo op stEmpty rows

/-- `cum_last` (`M.last` of the cumulative column per group): the last non-NA cumulative value of every group -/
def cumLast (op : Int → Int → Int) (rows : List (Nat × Option Int)) : St := cumSt op stEmpty rows

/-- `M.last` of the cumulative column, literally: the last non-NA cumulative cell among the rows of group `k`
    (`cumLast` is this, `Lemmas/GroupbyScan.cumLast_is_last`) -/
def cumLastLit (op : Int → Int → Int) (st : St) (rows : List (Nat × Option Int)) (k : Nat) : Option Int :=
  ((rows.zip (cumGo op st rows)).filterMap fun rc => if rc.1.1 == k then rc.2 else none).getLast?

/-- `_cum_agg_filled(a, b, op, initial)`: union of the groups, absent / NA = initial -/
def cumFilled (op : Int → Int → Int) (e : Int) (a b : St) : St := fun k =>
  match a k, b k with
  | none, none => none
  | x, y => some (op (x.getD e) (y.getD e))

/-- `_cum_agg_aligned(part, carried, …)`: `op (cum_raw cell) (carried value of the row's group, initial when absent/NA)` -/
def cumAligned (op : Int → Int → Int) (e : Int) (rows : List (Nat × Option Int)) (carried : St) : List (Option Int) :=
  List.zipWith (fun r c => c.map fun x => op x ((carried r.1).getD e)) rows (cumRaw op rows)

/-- `GroupByCumulativeFinalizer._layer`: partition 0 is `cum_raw`; partition 1 is aligned with `cum_last[0]`;
    partition i+1 with `_cum_agg_filled(carried_i, cum_last[i])` -/
def cumLoop (op : Int → Int → Int) (e : Int) : Option St → List (List (Nat × Option Int)) → List (List (Option Int))
  | _, [] => []
  | none, p :: ps => cumRaw op p :: cumLoop op e (some (cumLast op p)) ps
  | some c, p :: ps => cumAligned op e p c :: cumLoop op e (some (cumFilled op e c (cumLast op p))) ps

def cumDask (op : Int → Int → Int) (e : Int) (parts : List (List (Nat × Option Int))) : List (List (Option Int)) :=
  cumLoop op e none parts

/-- `_cumcount_aggregate(a, b) = a + b + 1` (initial −1): `cumcount` is the scan of this operation over a 0 per row -/
def opCount (a b : Int) : Int := a + b + 1

end Dask.Groupby
