/-
K1/K9 (keyed): groupby aggregation of `dask_expr/_groupby.py` / `_reductions.py` as
"per-partition partial aggregate, then key-wise monoid merge" (`GroupByChunk` → `TreeReduce` with
`split_every`, or `ShuffleReduce`: shuffle the partials on the key, aggregate per output partition).

Python                                               Lean
------                                               ----
a partition                                          `List (Nat × V)` (group key, value cell; NA = `inj` gives `none`)
`chunk(df)` = `df.groupby(by).agg(f)`                `chunk` : key ↦ optional state (absent group = `none`)
`_concat(partials).groupby(level).agg(g)`            `combine` (left-to-right key-wise merge of the partials)
`toolz.partition_all(split_every, …)` tree           `partitionAll`, `treeReduce`
`ShuffleReduce` (tasks): partials of a key arrive    `shuffleReduce` (partition `h k % n`, order of the partials kept)
   in source order
`DiskShuffle`: partials of a key arrive in any order `combine` over a permutation of the partials
Import-free.
-/
namespace Dask.Groupby

/-- merge of optional states: an absent group / all-NA column is the unit -/
def omerge {M : Type} (op : M → M → M) : Option M → Option M → Option M
  | none, y => y
  | x, none => x
  | some a, some b => some (op a b)

/-- left-to-right fold of the states of one group (`none` for an empty group) -/
def fold1 {M : Type} (op : M → M → M) (xs : List (Option M)) : Option M :=
  xs.foldl (omerge op) none

/-- per-partition partial aggregate: the state of group `k` in this partition -/
def chunk {V M : Type} (op : M → M → M) (inj : V → Option M) (rows : List (Nat × V)) (k : Nat) : Option M :=
  fold1 op ((rows.filter fun r => r.1 == k).map fun r => inj r.2)

/-- key-wise merge of two partial results -/
def merge {M : Type} (op : M → M → M) (f g : Nat → Option M) : Nat → Option M :=
  fun k => omerge op (f k) (g k)

/-- `_concat(partials)` then group-wise aggregate: merge the partials left to right -/
def combine {M : Type} (op : M → M → M) (ps : List (Nat → Option M)) : Nat → Option M :=
  ps.foldl (merge op) (fun _ => none)

/-- `toolz.partition_all(k, xs)` -/
def partitionAll {α : Type} (k : Nat) : Nat → List α → List (List α)
  | 0, _ => []
  | fuel + 1, xs => if xs.isEmpty then [] else xs.take k :: partitionAll k fuel (xs.drop k)

/-- `TreeReduce`: while more than `k` partials remain, combine groups of `k`; then the final aggregate -/
def treeReduce {M : Type} (op : M → M → M) (k : Nat) : Nat → List (Nat → Option M) → Nat → Option M
  | 0, ps => combine op ps
  | fuel + 1, ps =>
    if ps.length ≤ k then combine op ps
    else treeReduce op k fuel ((partitionAll k ps.length ps).map (combine op))

/-- `ShuffleReduce` with an order-preserving shuffle: output partition `p` holds the groups with
    `h k % n = p`, each aggregated over its partials in source order -/
def shuffleReduce {M : Type} (op : M → M → M) (h : Nat → Nat) (n : Nat) (ps : List (Nat → Option M))
    (p : Nat) : Nat → Option M :=
  fun k => if h k % n = p then combine op ps k else none

/-! ### the aggregations as monoids (executable, used by the driver) -/

/-- `first` / `last`: left- / right-biased -/
def opFirst (a _ : Int) : Int := a
def opLast (_ b : Int) : Int := b
def opMin (a b : Int) : Int := if a ≤ b then a else b
def opMax (a b : Int) : Int := if a ≤ b then b else a
/-- (Σx, n) for mean; (n, Σx, Σx²) for var/std -/
def opPair (a b : Int × Int) : Int × Int := (a.1 + b.1, a.2 + b.2)
def opTriple (a b : Int × Int × Int) : Int × Int × Int := (a.1 + b.1, a.2.1 + b.2.1, a.2.2 + b.2.2)

end Dask.Groupby
