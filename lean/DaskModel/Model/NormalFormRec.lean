import DaskModel.Model.NormalForm
/-
Recursive containers: `_normalize_seq_func` / `normalize_dict` register the container they are working on in `_SEEN`
(`_SEEN[id(x)] = len(_SEEN), x`, removed again afterwards) and answer `("__seen", index)` when they meet a registered
object again.  `len(_SEEN)` is the depth of the traversal, counting every frame that registers: the argument tuple of
`tokenize(*args)` (index 0), each list / tuple, each dict, the sorted item list of a dict and each `(key, value)` item.

Python                                           Lean
------                                           ----
a value without references to an enclosing container          `RVal.val v`
the `up`-th enclosing list / dict met again (0 = innermost)   `RVal.backref up`
list / tuple / dict that may contain such references          `RVal.list / tuple / dict`  (dict keys are hashable: plain)
-/
namespace Dask.NF

inductive RVal where
  | val (v : Val)
  | backref (up : Nat)
  | list (xs : List RVal)
  | tuple (xs : List RVal)
  | dict (kvs : List (Val × RVal))
  deriving Repr, Inhabited

/-- what is on the traversal stack: is it a dict (answers `("__seen", i)`) or a sequence (answers
    `(type name, ("__seen", i))`), and under which index it was registered -/
structure Frame where
  tag : Option String      -- `some "list"` / `some "tuple"` for sequences, `none` for a dict
  idx : Nat
  deriving Repr

def seenRef (f : Frame) : Val :=
  match f.tag with
  | some t => .tuple [.str t, .tuple [.str "__seen", .int (Int.ofNat f.idx)]]
  | none => .tuple [.str "__seen", .int (Int.ofNat f.idx)]

mutual
/-- `normalize_token` with the `_SEEN` bookkeeping; `d` = `len(_SEEN)` on entry, `stack` = the enclosing containers -/
def rnorm (stack : List Frame) (d : Nat) : RVal → Val
  | .val v => norm v
  | .backref up =>
    match stack[up]? with
    | some f => seenRef f
    | none => .atom "<dangling reference>"
  | .list xs => .tuple [.str "list", .tuple (rnormL (⟨some "list", d⟩ :: stack) (d + 1) xs)]
  | .tuple xs => .tuple [.str "tuple", .tuple (rnormL (⟨some "tuple", d⟩ :: stack) (d + 1) xs)]
  | .dict kvs =>
    -- the dict registers at d, the sorted item list at d + 1, every item tuple at d + 2, its members see d + 3;
    -- the item tuples are fresh objects: they can never be met again, only the dict itself is on the user's stack
    .tuple [.str "dict", .tuple ((ssort (rnormP (⟨none, d⟩ :: stack) (d + 3) kvs)).map Prod.snd)]
def rnormL (stack : List Frame) (d : Nat) : List RVal → List Val
  | [] => []
  | x :: xs => rnorm stack d x :: rnormL stack d xs
def rnormP (stack : List Frame) (d : Nat) : List (Val × RVal) → List (SortKey × Val)
  | [] => []
  | (k, v) :: r => (sortKey k, .tuple [.str "tuple", .tuple [norm k, rnorm stack d v]]) :: rnormP stack d r
end

/-- the string handed to md5 by `tokenize(*args)` for possibly recursive arguments -/
def tokPreRec (args : List RVal) : String := pyRepr (.tuple (rnormL [] 1 args))

mutual
/-- forget that a value might have contained references (defined on reference-free values) -/
def toVal : RVal → Option Val
  | .val v => some v
  | .backref _ => none
  | .list xs => (toValL xs).map .list
  | .tuple xs => (toValL xs).map .tuple
  | .dict kvs => (toValP kvs).map .dict
def toValL : List RVal → Option (List Val)
  | [] => some []
  | x :: xs => match toVal x, toValL xs with
    | some v, some vs => some (v :: vs)
    | _, _ => none
def toValP : List (Val × RVal) → Option (List (Val × Val))
  | [] => some []
  | (k, x) :: r => match toVal x, toValP r with
    | some v, some vs => some ((k, v) :: vs)
    | _, _ => none
end

end Dask.NF
