/-
K4 `Chunks`: chunk tuples, cumulative sums, `normalize_chunks` (int / tuple / dict / -1 / None /
byte-string specs; `auto_chunks` abstracted to its result), `blockdims_from_blockshape`, and the
rechunk planner's 1-d kernels `_breakpoints`, `_intersect_1d`, `old_to_new`, `divide_to_width`,
`merge_to_number` (homogeneous fast path), `estimate_graph_size`.

Python (dask/array/core.py, dask/array/rechunk.py)      Lean
------------------------------------------------       ----
tuple of ints (may be negative for malformed specs)     `List Int` / `List Nat` once known non-negative
`d // bd`, `d % bd` (floor semantics)                   `Int.fdiv`, `Int.fmod`
ZeroDivisionError / ValueError                          `Except Err`
`sorted(cumold + cumnew, key=itemgetter(1))`            `merge` (stable merge of two sorted lists, old first on ties)
slice(a, b)                                             `(a, b)`
Import-free (linked into the native driver).
-/
namespace Dask.Chunks

/-! ## chunk tuples -/

def sum (cs : List Nat) : Nat := cs.foldr (· + ·) 0

/-- `accumulate(add, (a,) + cs)` : running sums starting with `a` (length `cs.length + 1`). -/
def cumsumFrom (a : Nat) : List Nat → List Nat
  | [] => [a]
  | c :: cs => a :: cumsumFrom (a + c) cs

/-- cumulative sums with an initial zero. -/
def cumsum0 (cs : List Nat) : List Nat := cumsumFrom 0 cs

/-- one dimension of a normalised chunking: non-empty, adds up to `d`, all positive or exactly `(0,)`. -/
def ValidDim (cs : List Nat) (d : Nat) : Prop :=
  sum cs = d ∧ ((cs ≠ [] ∧ ∀ c ∈ cs, 0 < c) ∨ cs = [0])

instance (cs : List Nat) (d : Nat) : Decidable (ValidDim cs d) := by
  unfold ValidDim; exact inferInstance

/-- the block that contains global position `p` and the offset inside it (`none` past the end). -/
def blockOf : List Nat → Nat → Option (Nat × Nat)
  | [], _ => none
  | c :: cs, p => if p < c then some (0, p) else (blockOf cs (p - c)).map (fun (b, o) => (b + 1, o))

/-- start offset of block `b` -/
def blockStart (cs : List Nat) (b : Nat) : Nat := sum (cs.take b)

/-- cut a list into consecutive blocks of the given lengths. -/
def splitBy {α} : List Nat → List α → List (List α)
  | [], _ => []
  | c :: cs, xs => xs.take c :: splitBy cs (xs.drop c)

/-! ## `blockdims_from_blockshape` (one dimension) and `normalize_chunks` -/

inductive Err where
  | value      -- ValueError
  | zeroDiv    -- ZeroDivisionError
  | auto       -- `auto_chunks` raised (whatever it raised; reported by the harness)
  | unsupported -- input form outside the modelled fragment
  deriving Repr, DecidableEq

/-- `((bd,) * (d // bd) + ((d % bd,) if d % bd else ()) if d else (0,))` with Python's floor
    division; `bd = 0` with `d ≠ 0` raises ZeroDivisionError. Negative `bd` is *not* rejected here:
    the repeat count is negative (empty) and the remainder is negative; `normalize_chunks` rejects the
    negative entry afterwards. -/
def blockdims1 (d : Nat) (bd : Int) : Except Err (List Int) :=
  if d = 0 then .ok [0]
  else if bd = 0 then .error .zeroDiv
  else
    let q := Int.fdiv (d : Int) bd
    let r := Int.fmod (d : Int) bd
    .ok (List.replicate q.toNat bd ++ (if r ≠ 0 then [r] else []))

/-- one entry of the chunks tuple -/
inductive Spec where
  | int (c : Int)          -- a Python int
  | flt (c : Int)          -- an integer-valued float (`round_to` returns `c // s * s` as a float): not an `int` for `allints`
  | none                   -- `None`
  | auto                   -- `"auto"`
  | bytes (n : Nat)        -- a byte string such as `"1kiB"`, already parsed by `parse_bytes`
  | tup (cs : List Int)    -- an explicit tuple / list of ints
  deriving Repr, DecidableEq

/-- the forms of the `chunks` argument -/
inductive Top where
  | scalar (s : Spec)              -- a Number or a str: broadcast to every dimension
  | dict (kv : List (Nat × Spec))  -- `{axis: spec}`, missing axes ↦ `None`
  | seq (cs : List Spec)           -- tuple / list
  deriving Repr

def Spec.isAuto : Spec → Bool | .auto => true | _ => false
def Spec.isInt : Spec → Bool | .int _ => true | _ => false
def Spec.isNumOrStr : Spec → Bool | .int _ => true | .flt _ => true | .auto => true | .bytes _ => true | _ => false

/-- `-1`/`None` ↦ the full dimension -/
def fillFull : List Spec → List Nat → List Spec
  | c :: cs, s :: ss =>
    (match c with
     | .int (-1) => .int s
     | .none => .int s
     | c => c) :: fillFull cs ss
  | _, _ => []

/-- the byte-string loop: all byte strings and `limit=` must agree; returns the effective limit -/
def resolveLimit : List Spec → Option Nat → Except Err (Option Nat)
  | [], lim => .ok lim
  | .bytes n :: cs, lim =>
    match lim with
    | Option.none => resolveLimit cs (some n)
    | some l => if n ≠ l then .error .value else resolveLimit cs (some l)
  | _ :: cs, lim => resolveLimit cs lim

def bytesToAuto : Spec → Spec | .bytes _ => .auto | c => c

/-- one entry of `_convert_int_chunk_to_tuple`: ints go through `blockdims_from_blockshape`, tuples stay -/
def convertOne (s : Nat) : Spec → Except Err (List Int)
  | .int bd => blockdims1 s bd
  | .flt bd => blockdims1 s bd
  | .tup t => .ok t
  | _ => .error .unsupported

/-- `_convert_int_chunk_to_tuple` (zip of shape and chunks) -/
def convertInts : List Nat → List Spec → Except Err (List (List Int))
  | s :: ss, c :: cs =>
    match convertOne s c with
    | .error e => .error e
    | .ok d =>
      match convertInts ss cs with
      | .error e => .error e
      | .ok rest => .ok (d :: rest)
  | _, _ => .ok []

def isum (cs : List Int) : Int := cs.foldr (· + ·) 0

def sumsMatch : List (List Int) → List Nat → Bool
  | c :: cs, s :: ss => isum c == (s : Int) && sumsMatch cs ss
  | _, _ => true

/-- `if -1 in chunks or None in chunks: chunks = tuple(… for c, s in zip(chunks, shape))`;
    when neither occurs the tuple is left alone (also when the lengths differ, `shape = ()`). -/
def fillFull' (chunks : List Spec) (shape : List Nat) : List Spec :=
  if chunks.any (fun c => c == .int (-1) || c == .none) then fillFull chunks shape else chunks

/-- Number/str ↦ replicate ; dict ↦ `chunks.get(i, None)` ; tuple/list as is -/
def expandTop (top : Top) (nd : Nat) : List Spec :=
  match top with
  | .scalar s => List.replicate nd s
  | .dict kv => (List.range nd).map (fun i => (kv.lookup i).getD .none)
  | .seq cs => cs

/-- `if not chunks and shape and all(s == 0 for s in shape): chunks = ((0,),) * len(shape)` -/
def zeroFill (chunks : List Spec) (shape : List Nat) : List Spec :=
  if chunks.isEmpty && !shape.isEmpty && shape.all (· == 0)
  then List.replicate shape.length (Spec.tup [0]) else chunks

/-- 1-d: a flat tuple of more than one number is the chunk tuple of the single axis
    (a flat tuple mixing ints and strings is outside the modelled fragment) -/
def regroup1d (nd : Nat) (chunks : List Spec) : Except Err (List Spec) :=
  if nd == 1 && chunks.length > 1 && chunks.all Spec.isNumOrStr then
    (if chunks.all Spec.isInt then
      .ok [Spec.tup (chunks.filterMap (fun c => match c with | .int i => some i | _ => Option.none))]
     else .error .unsupported)
  else .ok chunks

/-- a negative size: a negative int (other than the `-1` already replaced) or a tuple with a negative entry -/
def Spec.isNeg : Spec → Bool
  | .int c => decide (c < 0)
  | .flt c => decide (c < 0)
  | .tup t => t.any (· < 0)
  | _ => false

/-- first half of `normalize_chunks`: the per-dimension entries just before `auto_chunks` is
    consulted (byte strings already turned into `"auto"`). -/
def preNormalize (top : Top) (shape : List Nat) (limit : Option Nat) : Except Err (List Spec) :=
  match regroup1d shape.length (zeroFill (expandTop top shape.length) shape) with
  | .error e => .error e
  | .ok chunks =>
    -- `if shape and len(chunks) != len(shape): raise ValueError`
    if !shape.isEmpty && chunks.length ≠ shape.length then .error .value
    -- `for c in chunks: if c < 0 (or a tuple with a negative entry): raise ValueError` — before auto_chunks
    else if (fillFull' chunks shape).any Spec.isNeg then .error .value
    else
      match resolveLimit (fillFull' chunks shape) limit with
      | .error e => .error e
      | .ok _ => .ok ((fillFull' chunks shape).map bytesToAuto)

/-- second half of `normalize_chunks`: ints ↦ block tuples, then the three validations
    (`Empty tuples are not allowed`, `Chunks do not add up to shape`; negative sizes were rejected in the first half). -/
def finalize (shape : List Nat) (chunks : List Spec) : Except Err (List (List Int)) :=
  match (if chunks.isEmpty then .ok [] else convertInts shape chunks) with
  | .error e => .error e
  | .ok out =>
    -- `for c in chunks: if not c: raise ValueError("Empty tuples are not allowed in chunks…")`
    if out.any List.isEmpty then .error .value
    -- `if not allints and shape is not None: … raise ValueError("Chunks do not add up to shape")`
    else if !chunks.all Spec.isInt && !sumsMatch out shape then .error .value
    else .ok out

/-- `normalize_chunks(chunks, shape, limit=…, dtype=…, previous_chunks=…)` for a known integer
    `shape`.  `autoRes` is what `auto_chunks` returned for this call (`none` = it raised); it is
    consulted only when some entry is `"auto"`/a byte string. -/
def normalize (top : Top) (shape : List Nat) (limit : Option Nat) (autoRes : Option (List Spec)) :
    Except Err (List (List Int)) :=
  match preNormalize top shape limit with
  | .error e => .error e
  | .ok chunks =>
    if chunks.any Spec.isAuto then
      (match autoRes with
       | some r => finalize shape r
       | Option.none => .error .auto)
    else finalize shape chunks

/-! ## rechunk: `_breakpoints`, `_intersect_1d`, `old_to_new` -/

inductive Lab where | o | n
  deriving Repr, DecidableEq

/-- `sorted(cumold + cumnew, key=itemgetter(1))` for two sorted lists: stable, so on equal
    breakpoints every `'o'` pair precedes every `'n'` pair. -/
def merge : List Nat → List Nat → List (Lab × Nat)
  | [], cn => cn.map (fun b => (Lab.n, b))
  | a :: co, [] => (Lab.o, a) :: merge co []
  | a :: co, b :: cn =>
    if a ≤ b then (Lab.o, a) :: merge co (b :: cn) else (Lab.n, b) :: merge (a :: co) cn

/-- `(old_idx, slice(start, stop))` -/
structure Piece where
  idx : Nat
  start : Nat
  stop : Nat
  deriving Repr, DecidableEq

structure St where
  lastEnd : Nat := 0
  oldIdx : Nat := 0
  lastOEnd : Nat := 0
  ret : List (List Piece) := []
  retNext : List Piece := []
  deriving Repr

/-- one iteration of the `for idx in range(1, len(breaks))` body of `_intersect_1d` -/
def step (lastOldIdx lastOBr : Nat) (st : St) (prev cur : Lab × Nat) : St :=
  let (label, br) := cur
  let (lastLabel, lastBr) := prev
  -- if last_label == 'n': start = last_end; flush ret_next   else: start = 0
  let start := if lastLabel = .n then st.lastEnd else 0
  let ret := if lastLabel = .n ∧ st.retNext ≠ [] then st.ret ++ [st.retNext] else st.ret
  let retNext := if lastLabel = .n then [] else st.retNext
  let stop := br - lastBr + start
  if br = lastBr then
    if label = .o then
      -- zero-size old chunk: old_idx += 1; last_o_end = end; continue
      { lastEnd := stop, oldIdx := st.oldIdx + 1, lastOEnd := stop, ret := ret, retNext := retNext }
    else if lastLabel = .n then
      if br = lastOBr then
        -- zero-size new chunk at the very end: taken from the end of the last old chunk
        { lastEnd := stop, oldIdx := st.oldIdx, lastOEnd := st.lastOEnd, ret := ret,
          retNext := retNext ++ [⟨lastOldIdx, st.lastOEnd, st.lastOEnd⟩] }
      else
        { lastEnd := stop, oldIdx := st.oldIdx, lastOEnd := st.lastOEnd, ret := ret,
          retNext := retNext ++ [⟨st.oldIdx, start, stop⟩] }
    else
      { lastEnd := stop, oldIdx := st.oldIdx, lastOEnd := st.lastOEnd, ret := ret, retNext := retNext }
  else
    let retNext := retNext ++ [⟨st.oldIdx, start, stop⟩]
    if label = .o then
      { lastEnd := stop, oldIdx := st.oldIdx + 1, lastOEnd := stop, ret := ret, retNext := retNext }
    else
      { lastEnd := stop, oldIdx := st.oldIdx, lastOEnd := st.lastOEnd, ret := ret, retNext := retNext }

def loop (lastOldIdx lastOBr : Nat) : Lab × Nat → List (Lab × Nat) → St → St
  | _, [], st => st
  | prev, cur :: rest, st => loop lastOldIdx lastOBr cur rest (step lastOldIdx lastOBr st prev cur)

/-- `if ret_next: ret.append(ret_next)` -/
def finish (st : St) : List (List Piece) :=
  if st.retNext ≠ [] then st.ret ++ [st.retNext] else st.ret

/-- `_intersect_1d(_breakpoints(cumdims_label(old,'o'), cumdims_label(new,'n')))`.
    `none` for an empty `old` tuple (never produced by `normalize_chunks`; the code would use index −1). -/
def intersect1d (old new : List Nat) : Option (List (List Piece)) :=
  if old = [] then none
  else
    let lastOldIdx := old.length - 1
    let lastOBr := sum old
    match merge (cumsum0 old) (cumsum0 new) with
    | [] => some []
    | b :: bs => some (finish (loop lastOldIdx lastOBr b bs {}))

/-- `old_to_new` for known (nan-free) chunks: one `_intersect_1d` per axis. -/
def oldToNew (old new : List (List Nat)) : Option (List (List (List Piece))) :=
  (List.zip old new).mapM (fun (o, n) => intersect1d o n)

/-- apply a 1-d plan to the blocks of the old chunking: new block `j` = concatenation of slices. -/
def applyPlan {α} (blocks : List (List α)) (plan : List (List Piece)) : List (List α) :=
  plan.map (fun g => g.flatMap (fun p => ((blocks.getD p.idx []).drop p.start).take (p.stop - p.start)))

/-- rechunk along one axis, as `_compute_rechunk` does it: slice the old blocks and concatenate. -/
def rechunk1d {α} (old new : List Nat) (xs : List α) : Option (List (List α)) :=
  (intersect1d old new).map (applyPlan (splitBy old xs))

/-- a multi-stage plan as `rechunk` executes it: `for c in steps: x = _compute_rechunk(x, c)` along one axis -/
def runPlan {α} : List Nat → List (List α) → List (List Nat) → Option (List (List α))
  | _, blocks, [] => some blocks
  | cur, blocks, nxt :: rest =>
    match intersect1d cur nxt with
    | none => none
    | some pl => runPlan nxt (applyPlan blocks pl) rest

/-! ## planner arithmetic -/

def ceilDiv (a b : Nat) : Nat := (a + b - 1) / b

/-- inner loop of `divide_to_width` for one chunk: `for i in range(nb): n = c // (nb - i); c -= n` -/
def divideOne : Nat → Nat → List Nat
  | 0, _ => []
  | k + 1, c => (c / (k + 1)) :: divideOne k (c - c / (k + 1))

/-- `divide_to_width(desired_chunks, max_width)`; `none` when `max_width = 0` (division by zero). -/
def divideToWidth (cs : List Nat) (w : Nat) : Option (List Nat) :=
  if w = 0 then none else some (cs.flatMap (fun c => divideOne (ceilDiv c w) c))

/-- the homogeneous fast path of `merge_to_number` (all chunks equal to `w`, `n` of them). -/
def mergeHomogeneous (w n maxNumber : Nat) : Option (List Nat) :=
  if maxNumber = 0 ∨ w = 0 then none
  else
    let total := n * w
    let desired := total / maxNumber
    let width := w * (desired / w)
    let adjust := (total - maxNumber * width) / w
    some (List.replicate adjust (width + w) ++ List.replicate (maxNumber - adjust) width)

/-- `merge_to_number` when no merge is needed or the target is homogeneous; `none` = heap path (not modelled). -/
def mergeToNumber (cs : List Nat) (maxNumber : Nat) : Option (List Nat) :=
  if cs.length ≤ maxNumber then some cs
  else match cs with
    | [] => some []
    | w :: rest => if rest.all (· == w) then mergeHomogeneous w cs.length maxNumber else none

/-- `estimate_graph_size` -/
def estimateGraphSize : List (List Nat) → List (List Nat) → Nat
  | oc :: os, nc :: ns =>
    (if oc ≠ nc then oc.length + nc.length - 1 else oc.length) * estimateGraphSize os ns
  | _, _ => 1

/-- `_number_of_blocks`, `_largest_block_size` -/
def numberOfBlocks (chunks : List (List Nat)) : Nat := chunks.foldr (fun c acc => c.length * acc) 1
def largestBlockSize (chunks : List (List Nat)) : Nat := chunks.foldr (fun c acc => c.foldr max 0 * acc) 1

end Dask.Chunks
