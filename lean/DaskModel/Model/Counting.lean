import DaskModel.Model.Chunks
/-
Counting / set / search routines (C27, dask/array/routines.py) as merges of per-chunk results.

Python                                                         Lean
------                                                         ----
_searchsorted_block: res[res == 0] = -1                        `ssBlock`
out + a_offsets where out >= 0; out.max(axis=0); -1 -> 0       `ssCombine`, `searchsorted`
np.bincount per chunk, `_bincount_agg` (zero-padded sum)        `bincount`, `bincountAgg`
_block_hist per chunk, sum over chunks                          `histBlock`, `histMerge`
_unique_internal twice (per chunk, then on the concatenation)  `uniqueInternal`, `uniqueChunked`
argwhere / flatnonzero: indices + compress                      `nonzeroChunked`
coarsen block by block (chunks aligned to the factor)           `coarsenChunked`
Values are `Nat` (order-preservingly interned by the harness); the per-chunk NumPy kernels
(`np.searchsorted`, `np.bincount`, `np.histogram`, `np.unique`) are specified by their
mathematical meaning (counting) — validated against NumPy by the API-level check.
Import-free (linked into the native driver).
-/
namespace Dask.Counting
open Dask.Chunks

/-! ### searchsorted -/

/-- `side='left'` counts elements `< y`, `side='right'` counts elements `≤ y` -/
def sidePred (right : Bool) (y : Nat) (x : Nat) : Bool := if right then decide (x ≤ y) else decide (x < y)

/-- one block of `a`: `np.searchsorted(block, y, side)`, `0 ↦ -1`, otherwise shifted by the block's offset -/
def ssBlock (p : Nat → Bool) (off : Nat) (blk : List Nat) : Int :=
  let r := blk.countP p
  if r = 0 then -1 else ((r + off : Nat) : Int)

/-- `out.max(axis=0)` over the blocks of `a` (every entry is `≥ -1`) -/
def ssCombine (p : Nat → Bool) : Nat → List (List Nat) → Int
  | _, [] => -1
  | off, b :: bs => max (ssBlock p off b) (ssCombine p (off + b.length) bs)

/-- `da.searchsorted(a, y, side)` for one needle: `out[out == -1] = 0` -/
def searchsorted (right : Bool) (blocks : List (List Nat)) (y : Nat) : Nat :=
  let r := ssCombine (sidePred right y) 0 blocks
  if r = -1 then 0 else r.toNat

/-! ### bincount / histogram -/

def maxList (xs : List Nat) : Nat := xs.foldr max 0

/-- `np.bincount(xs, minlength=m)` -/
def bincount (xs : List Nat) (minlength : Nat) : List Nat :=
  let n := max minlength (if xs.isEmpty then 0 else maxList xs + 1)
  (List.range n).map (fun v => xs.count v)

/-- `_bincount_agg`: zero-padded pointwise sum of the per-chunk counts -/
def bincountAgg (bs : List (List Nat)) : List Nat :=
  let n := maxList (bs.map List.length)
  (List.range n).map (fun i => sum (bs.map (fun b => b.getD i 0)))

/-- bin `i` of `np.histogram(xs, bins=edges)`: `[e_i, e_{i+1})`, the last bin closed on the right -/
def inBin (edges : List Nat) (i : Nat) (x : Nat) : Bool :=
  let lo := edges.getD i 0
  let hi := edges.getD (i + 1) 0
  decide (lo ≤ x) && (if i + 2 = edges.length then decide (x ≤ hi) else decide (x < hi))

def histBlock (edges : List Nat) (xs : List Nat) : List Nat :=
  (List.range (edges.length - 1)).map (fun i => xs.countP (inBin edges i))

/-- sum over chunks of the per-chunk histograms -/
def histMerge (edges : List Nat) (blocks : List (List Nat)) : List Nat :=
  (List.range (edges.length - 1)).map (fun i => sum (blocks.map (fun b => (histBlock edges b).getD i 0)))

/-! ### unique -/

/-- insert into a strictly increasing list, keeping it strictly increasing -/
def insertU (v : Nat) : List Nat → List Nat
  | [] => [v]
  | x :: xs => if v < x then v :: x :: xs else if v = x then x :: xs else x :: insertU v xs

/-- `np.unique(ar)`: sorted distinct values -/
def uniq (xs : List Nat) : List Nat := xs.foldr insertU []

structure URow where
  value : Nat
  index : Nat
  count : Nat
  deriving Repr, DecidableEq

def minList : List Nat → Nat
  | [] => 0
  | x :: xs => xs.foldl min x

/-- `counts[ar == v].sum()` -/
def cntOf (rows : List URow) (v : Nat) : Nat := sum ((rows.filter (fun r => r.value == v)).map (·.count))

/-- `indices[ar == v].min()` -/
def idxOf (rows : List URow) (v : Nat) : Nat := minList ((rows.filter (fun r => r.value == v)).map (·.index))

/-- `_unique_internal(ar, indices, counts)`: per distinct value the smallest index and the summed count -/
def uniqueInternal (rows : List URow) : List URow :=
  (uniq (rows.map (·.value))).map (fun v => ⟨v, idxOf rows v, cntOf rows v⟩)

/-- the rows of one chunk: values with their *global* positions (`arange` chunked like `ar`) and counts `1` -/
def rowsOf : Nat → List Nat → List URow
  | _, [] => []
  | off, x :: xs => ⟨x, off, 1⟩ :: rowsOf (off + 1) xs

def chunkRows : Nat → List (List Nat) → List (List URow)
  | _, [] => []
  | off, b :: bs => uniqueInternal (rowsOf off b) :: chunkRows (off + b.length) bs

/-- `da.unique(ar, return_index=True, return_counts=True)`: per chunk, then once more on the concatenation -/
def uniqueChunked (blocks : List (List Nat)) : List URow :=
  uniqueInternal (chunkRows 0 blocks).flatten

/-- NumPy's answer on the whole array -/
def uniqueSpec (xs : List Nat) : List URow := uniqueInternal (rowsOf 0 xs)

/-- `return_inverse`: `((ar[:, None] == values[None, :]) * arange(len(values))).sum(axis=1)` for one element `v` -/
def inverseOf (u : List Nat) (v : Nat) : Nat :=
  sum ((List.range u.length).map (fun j => if u.getD j 0 = v then j else 0))

/-- the weight falling into bin `v` -/
def wsum (xs : List Nat) (ws : List Int) (v : Nat) : Int :=
  isum ((xs.zip ws).filterMap (fun p => if p.1 = v then some p.2 else none))


/-- weighted `np.bincount(xs, weights=ws, minlength=m)` -/
def bincountW (xs : List Nat) (ws : List Int) (minlength : Nat) : List Int :=
  let n := max minlength (if xs.isEmpty then 0 else maxList xs + 1)
  (List.range n).map (fun v => isum ((xs.zip ws).filterMap (fun p => if p.1 = v then some p.2 else none)))

/-- `_bincount_agg` on weighted partial results -/
def bincountAggW (bs : List (List Int)) : List Int :=
  let n := maxList (bs.map List.length)
  (List.range n).map (fun i => isum (bs.map (fun b => b.getD i 0)))


/-! ### nonzero / count_nonzero / isin -/

/-- per chunk: local positions of the non-zeros plus the chunk's offset -/
def nonzeroChunked : Nat → List (List Nat) → List Nat
  | _, [] => []
  | off, b :: bs =>
    ((List.range b.length).filter (fun i => b.getD i 0 != 0)).map (· + off) ++ nonzeroChunked (off + b.length) bs

def nonzeroSpec (xs : List Nat) : List Nat := (List.range xs.length).filter (fun i => xs.getD i 0 != 0)

def countNonzeroChunked (blocks : List (List Nat)) : Nat := sum (blocks.map (fun b => b.countP (· != 0)))

/-- `isin`: any over the blocks of `test_elements` -/
def isinChunked (x : Nat) (testBlocks : List (List Nat)) : Bool := testBlocks.any (fun b => b.contains x)

/-! ### coarsen -/

/-- the first `k` windows of `d` consecutive elements -/
def windows {α} (d : Nat) : Nat → List α → List (List α)
  | 0, _ => []
  | k + 1, xs => xs.take d :: windows d k (xs.drop d)

/-- `chunk.coarsen(reduction, block, {0: d}, trim_excess)`: `len // d` full windows (a trailing partial window is trimmed) -/
def coarsenBlock {α β} (f : List α → β) (d : Nat) (xs : List α) : List β := (windows d (xs.length / d) xs).map f

def coarsenChunked {α β} (f : List α → β) (d : Nat) (blocks : List (List α)) : List β :=
  (blocks.map (coarsenBlock f d)).flatten

end Dask.Counting
