import DaskModel.Model.Sched
/-
K5 (part) diagnostics: `dask/diagnostics/profile.py::Profiler` and `dask/cache.py::Cache` as folds over the
callback events of the scheduler model.

Profiler                                            Lean
--------                                            ----
`self._results[key] = (key, dsk[key], start)`       `pend.set key (3, start, 0)`      (first component = tuple length)
`self._results[key] += (end, id)`                   length + 2; the end time kept is the first one (field 4 of the tuple)
`_finish`: entries of length 5 → `self.results`     `results ++ closed entries`; `_results.clear()`
`default_timer()`                                   the time stamp attached to every event (any non-decreasing clock)

Cache (after the repair of defect #33)
`_start`: `dsk[key] = DataNode(key, cached value)`   `patchGraph` / `patchParams`
`_posttask`: `cache.put(key, value, …)`              `storeAfter` (the cachey store may evict: see Props/C52)

CacheProfiler (`profile.py`)
`self._cache[key] = (metric, t)`                      `live.set key t`
`for k in state["released"] & self._cache.keys()`     the live entries whose key is in the `released` set of the event's state
`_finish`: everything still live is closed          `results ++ live`, `live := []`
-/
namespace Dask.Diag
open Dask.Sched

/-! ## Profiler -/
structure Prof where
  pend : Map (Nat × Nat × Nat) := []          -- key ↦ (tuple length, start, end)
  results : List (Key × Nat × Nat) := []      -- (key, start_time, end_time)

def profStep (p : Prof) (e : Ev) (t : Nat) : Except Err Prof :=
  match e with
  | .pretask k => .ok { p with pend := p.pend.set k (3, t, 0) }
  | .posttask k =>
    match p.pend.get? k with
    | none => .error (.keyError .result)
    | some (len, st, en) => .ok { p with pend := p.pend.set k (len + 2, st, if len = 3 then t else en) }
  | .finish _ =>
    .ok { pend := [], results := p.results ++ (p.pend.filter (fun x => x.2.1 == 5)).map (fun x => (x.1, x.2.2.1, x.2.2.2)) }
  | _ => .ok p

/-- the profiler callbacks over a callback log; `clock i` = what `default_timer()` returns at the i-th event -/
def profRun {α : Type} (clock : Nat → Nat) : Nat → Prof → List (Ev × State α) → Except Err Prof
  | _, p, [] => .ok p
  | i, p, e :: rest =>
    match profStep p e.1 (clock i) with
    | .ok p' => profRun clock (i + 1) p' rest
    | .error err => .error err

/-! ## Cache -/
/-- `Cache._start`: every key of the graph that is in the store becomes a `DataNode` -/
def patchGraph {α : Type} (g : Graph) (store : Map α) : Graph :=
  g.map (fun p => if store.has p.1 then (p.1, Node.data) else p)

def patchParams {α : Type} (P : Params α) (store : Map α) : Params α :=
  { P with dataVal := fun k => match store.get? k with | some v => v | none => P.dataVal k }

/-- `Cache._posttask` over the log of one call: the value is the one the scheduler just put in `state["cache"]` -/
def storeAfter {α : Type} (store : Map α) (log : List (Ev × State α)) : Map α :=
  log.foldl (fun st e => match e.1 with
    | .posttask k => match e.2.cache.get? k with
      | some v => st.set k v
      | none => st
    | _ => st) store

/-! ## CacheProfiler (`dask/diagnostics/profile.py`) -/
structure CProf where
  live : Map Nat := []                       -- `self._cache`: key ↦ cache_time (the metric is not modelled)
  results : List (Key × Nat × Nat) := []     -- (key, cache_time, free_time)

/-- `_posttask` / `_finish` of `CacheProfiler` on one callback event; `rel` = `state["released"]` as the callback sees it,
`t` = `default_timer()` -/
def cprofStep (p : CProf) (e : Ev) (rel : List Key) (t : Nat) : CProf :=
  match e with
  | .posttask k =>
    let live := p.live.set k t
    { live := live.filter (fun x => !(rel.contains x.1)),
      results := p.results ++ (live.filter (fun x => rel.contains x.1)).map (fun x => (x.1, x.2, t)) }
  | .finish _ => { live := [], results := p.results ++ p.live.map (fun x => (x.1, x.2, t)) }
  | _ => p

def cprofRun {α : Type} (clock : Nat → Nat) : Nat → CProf → List (Ev × State α) → CProf
  | _, p, [] => p
  | i, p, e :: rest => cprofRun clock (i + 1) (cprofStep p e.1 e.2.released (clock i)) rest


end Dask.Diag
