import DaskModel.Model.ArrayReduce
import DaskModel.Model.BlockScan
/-
Masked arrays (`dask/array/ma.py` + the masked branches of `dask/array/reductions.py`).

numpy.ma / dask                                  Lean
---------------                                  ----
an element of a masked array                     `M = Option Int` (`none` = masked; the payload under the mask is
                                                  unspecified in numpy.ma and never compared)
elementwise op (mask = OR of the masks)          `maZip f`
np.ma.sum/prod/min/max of a block (skip masked,  `mfold op` — the monoid `liftOp op` on `Option` with `none` as unit
  all masked ⇒ `masked`), same on the concatenated
  partial results in combine/aggregate           `redMa op` (plugged into K1's tree)
np.ma.count (chunk) + chunk.sum                  `redMaCount`
mean: numel (unmasked count) and sum             `redMaMean` ((total, n) with masked total)
filled / getmaskarray / masked_where             `filled`, `getmask`, `maskedWhere`
np.ma.cumsum (masked read as the identity, mask  `maScanBlocks` = K2 `seqScan` on the filled data, mask re-applied
  re-applied) + `_cumsum_merge`                    (`_cumsum_merge` adds the *data* and keeps the mask of the block)
Import-free of Mathlib.
-/
namespace Dask.Masked
open Dask.ArrayReduce

abbrev M := Option Int

def liftOp (op : Int → Int → Int) : M → M → M
  | none, b => b
  | a, none => a
  | some a, some b => some (op a b)

/-- reduction of a list of masked values: masked ones are skipped; all masked (or empty) ⇒ masked -/
def mfold (op : Int → Int → Int) (xs : List M) : M := xs.foldr (liftOp op) none

def redMa (op : Int → Int → Int) : Red M M M := ⟨fun b => some (mfold op b), mfold op, mfold op⟩

def countUnmasked (xs : List M) : Int := isum (xs.map fun x => if x.isSome then 1 else 0)

def redMaCount : Red M Int Int := ⟨fun b => some (countUnmasked b), isum, isum⟩

/-- `da.mean` on a masked array: partial = (masked total, number of unmasked elements) -/
def redMaMean : Red M (M × Int) (M × Int) :=
  ⟨fun b => some (mfold (· + ·) b, countUnmasked b),
   fun ps => (mfold (· + ·) (ps.map (·.1)), isum (ps.map (·.2))),
   fun ps => (mfold (· + ·) (ps.map (·.1)), isum (ps.map (·.2)))⟩

/-- elementwise binary op: masked if either operand is masked -/
def maZip (f : Int → Int → Int) : M → M → M
  | some a, some b => some (f a b)
  | _, _ => none

/-- blockwise elementwise op on two arrays with the same chunks -/
def blockZip (f : Int → Int → Int) (xs ys : List (List M)) : List (List M) :=
  List.zipWith (List.zipWith (maZip f)) xs ys

def filled (v : Int) (xs : List M) : List Int := xs.map (·.getD v)
def getmask (xs : List M) : List Bool := xs.map (·.isNone)
/-- `np.ma.masked_where(cond, a)`: mask where the condition holds (existing masks are kept) -/
def maskedWhere (cond : List Bool) (a : List M) : List M :=
  List.zipWith (fun c x => if c then none else x) cond a

/-- re-apply a mask to plain data -/
def remask (mask : List Bool) (data : List Int) : List M :=
  List.zipWith (fun m d => if m then none else some d) mask data

/-! ### masking by a predicate on the value: `masked_inside/outside/equal/greater/…/invalid`

`np.ma.masked_<pred>(x, …)` is `masked_where(<pred>(filled(x)), x)`: an unmasked element becomes masked iff the predicate
holds; masked elements stay masked whatever lies under the mask.  dask applies the NumPy function to every block. -/

def maskedBy (p : Int → Bool) (a : List M) : List M :=
  a.map fun x => match x with
    | some v => if p v then none else some v
    | none => none

/-- `np.ma.masked_inside(x, v1, v2)`: the interval `[v1, v2]`; **NumPy swaps the bounds when `v2 < v1`** -/
def insideP (v1 v2 : Int) (x : Int) : Bool := decide (min v1 v2 ≤ x) && decide (x ≤ max v1 v2)

/-- the same test without the normalisation of the bounds (what `(x >= v1) & (x <= v2)` computes) -/
def insideRaw (v1 v2 : Int) (x : Int) : Bool := decide (v1 ≤ x) && decide (x ≤ v2)

def maskedInside (v1 v2 : Int) : List M → List M := maskedBy (insideP v1 v2)
def maskedOutside (v1 v2 : Int) : List M → List M := maskedBy fun x => !insideP v1 v2 x

/-- `da.ma.masked_array(data, mask)`: element `i` is masked iff `mask[i]` -/
def maskedArray (data : List Int) (mask : List Bool) : List M := remask mask data

/-- `da.cumsum`/`da.cumprod` (sequential) on a masked array, block by block -/
def maScanBlocks (op : Int → Int → Int) (ident : Int) (blocks : List (List M)) : List (List M) :=
  List.zipWith remask (blocks.map getmask) (BlockScan.seqScan op ident (blocks.map (filled ident)))

/-- `np.ma.cumsum` of the whole array -/
def maScan (op : Int → Int → Int) (ident : Int) (xs : List M) : List M :=
  remask (getmask xs) (BlockScan.scanIncl op (filled ident xs))

end Dask.Masked
