import DaskModel.Model.Slice1D
import DaskModel.Model.SetItem
/-
C29: where `da.store` writes. Transliteration of
  dask/array/core.py::slices_from_chunks            `slicesFromChunks`
  dask/array/optimization.py::normalize_slice       `optNormalize`   (None -> 0 / 1; negative -> NotImplementedError)
  dask/array/optimization.py::fuse_slice            `fuseSlice` (slice ∘ slice), `fuseInt` (slice ∘ int)
  dask/array/core.py::load_store_chunk              `storeIndex` (the index written: region, block slice, or their fusion)
  dask/array/core.py::to_npy_stack / from_npy_stack `npyChunks` (the chunks recorded in `info`)
Import-free (linked into the native driver).
-/
namespace Dask.Store
open Dask.Slice1D Dask.SetItem

/-- product in `itertools.product` order -/
def product {α : Type} : List (List α) → List (List α)
  | [] => [[]]
  | xs :: rest => xs.flatMap fun x => (product rest).map fun t => x :: t

/-- `slices_from_chunks(chunks)`: per block the `(start, stop)` of `slice(start, stop)` on every axis -/
def slicesFromChunks (chunks : List (List Nat)) : List (List (Int × Int)) :=
  product (chunks.map locations)

/-- `stop is not None and stop < 0` -/
def negOpt : Option Int → Bool
  | some v => decide (v < 0)
  | none => false

/-- `optimization.normalize_slice`: `none` = NotImplementedError (a negative field) -/
def optNormalize (s : PSlice) : Option (Int × Option Int × Int) :=
  if s.start.getD 0 < 0 ∨ s.step.getD 1 < 0 ∨ negOpt s.stop = true then none
  else some (s.start.getD 0, s.stop, s.step.getD 1)

/-- `fuse_slice(a, b)` for two slices: the slice `c` with `x[a][b] == x[c]`; `none` = NotImplementedError -/
def fuseSlice (a b : PSlice) : Option PSlice :=
  match optNormalize a, optNormalize b with
  | some (astart, astop, astep), some (bstart, bstop, bstep) =>
    let start := astart + astep * bstart
    let stop : Option Int := bstop.map fun v => astart + astep * v
    let stop : Option Int := match astop with
      | some av => (match stop with | some v => some (min av v) | none => some av)
      | none => stop
    let step := astep * bstep
    some ⟨some start, stop, if step = 1 then none else some step⟩
  | _, _ => none

/-- `fuse_slice(a, b)` for a slice and an integer -/
def fuseInt (a : PSlice) (b : Int) : Option Int :=
  match optNormalize a with
  | some (astart, _, astep) => if b < 0 then none else some (astart + b * astep)
  | none => none

/-- the index `load_store_chunk` writes to along one axis: `region` fused with the block's slice
    (`if region: index = fuse_slice(region, index) if index else region`) -/
def storeIndex (region : Option PSlice) (blk : Int × Int) : Option PSlice :=
  let index : PSlice := ⟨some blk.1, some blk.2, none⟩
  match region with
  | none => some index
  | some r => fuseSlice r index

/-- target positions written by each block along one axis, block by block -/
def storePlan (targetLen : Nat) (region : Option PSlice) (lengths : List Nat) : Option (List (List Int)) :=
  (locations lengths).mapM fun blk =>
    match storeIndex region blk with
    | some idx => pySliceIdx targetLen idx
    | none => none

/-- `chunks` written to the `info` file of `to_npy_stack` -/
def npyChunksFrom (axis : Nat) : Nat → List (List Nat) → List (List Nat)
  | _, [] => []
  | i, c :: cs => (if i = axis then c else [c.sum]) :: npyChunksFrom axis (i + 1) cs

def npyChunks (axis : Nat) (chunks : List (List Nat)) : List (List Nat) := npyChunksFrom axis 0 chunks

end Dask.Store
