import DaskModel.Model.Creation
import DaskModel.Model.SoftFloat
/-
`da.arange` with Python-float arguments, over the exact binary64 model of Model/SoftFloat.lean.

Python (dask/array/creation.py, dask/array/chunk.py)                       Lean
---------------------------------------------------                       ----
start != 0 and not np.isclose(start + step - start, step, atol=0)          `arangeShiftF`
    r = arange(0, stop - start, step, ...); return r + start               `arangePlanF` (`shifted = true`), `arangeValuesF`
num = int(max(np.ceil(quot), 0)); if quot == 0 and stop != start and not signbit(quot): num = 1   `arangeNumF`
pair = np.asarray([start, start + step]); first, second = pair             `arangePlanF.first/second`
res = first + idx.astype(comp) * (second - first); res[1] = second         `arangeElem f64Arith` (Model/Creation.lean)
linspace: range_ = np.subtract(stop, start, dtype=dt); step = float(range_)/div   `linspacePlanF`
linspace_block: y*step (or y/div*range when step == 0) + start; y[-1] = stop       `linspaceValuesF` (`linspaceElemG f64Arith`)
Import-free (linked into the native driver).
-/
namespace Dask.Creation
open Dask.SoftFloat

/-- binary64 arithmetic; `idx.astype(float64)` is the correctly rounded conversion -/
def f64Arith : Arith F64 := ⟨SoftFloat.add, SoftFloat.sub, SoftFloat.mul, fun i => ofInt (i : Int)⟩

/-- `quot = (stop - start) / step; num = int(max(np.ceil(quot), 0))` in binary64, and NumPy's rule for a quotient that
    underflowed to zero although `stop != start` (`fix: da.arange has one element when … underflows`): one element if it
    is `+0.0` (the model has no signed zero: the sign is that of the exact quotient); `none` = ZeroDivisionError -/
def arangeNumF (start stop step : F64) : Option Nat :=
  let delta := sub stop start
  (SoftFloat.div delta step).map (fun q =>
    if q.m = 0 ∧ delta.m ≠ 0 then (if delta.m.sign * step.m.sign < 0 then 0 else 1) else (ceil q).toNat)

/-- the guard `start != 0 and not np.isclose(start + step - start, step, atol=0)` -/
def arangeShiftF (start step : F64) : Bool :=
  decide (start.m ≠ 0) && !(isclose (sub (add start step) start) step)

/-- what `da.arange(start, stop, step)` decides before building the graph -/
structure ArangeF where
  /-- the result is `arange(0, stop - start, step) + start` -/
  shifted : Bool
  num : Nat
  first : F64
  second : F64
  deriving Repr

def fzero : F64 := ⟨0, 0⟩

def arangePlanF (start stop step : F64) : Option ArangeF :=
  if arangeShiftF start step then
    (arangeNumF fzero (sub stop start) step).map (fun n => ⟨true, n, fzero, add fzero step⟩)
  else
    (arangeNumF start stop step).map (fun n => ⟨false, n, start, add start step⟩)

/-- the computed blocks (the shifted path adds `start` to every element) -/
def arangeValuesF (start : F64) (p : ArangeF) (cs : List Nat) : List (List F64) :=
  let blocks := arangeValuesG f64Arith p.first p.second cs
  if p.shifted then blocks.map (fun b => b.map (fun v => add v start)) else blocks

/-- the whole array as one block: NumPy's own fill loop `first + i*(second - first)` (`i ≥ 2`) -/
def arangeSpecF (start : F64) (p : ArangeF) : List F64 :=
  let whole := arangeBlockG f64Arith p.first p.second 0 p.num
  if p.shifted then whole.map (fun v => add v start) else whole

/-! ### `da.linspace` with float (or float-converted) endpoints in binary64 -/

/-- total division for the block formula (the divisor `float(div)`, `div ≠ 0`, is never zero: `fdivTotal_ofInt`) -/
def fdivTotal (x y : F64) : F64 := (SoftFloat.div x y).getD fzero

/-- `range_ = np.subtract(stop, start, dtype=float64)`, `div = (num-1 if endpoint else num) or 1`,
    `step = float(range_) / div` -/
structure LinspaceF where
  range : F64
  divv : F64
  step : F64
  deriving Repr

def linspacePlanF (start stop : F64) (num : Nat) (endpoint : Bool) : LinspaceF :=
  let range := sub stop start
  let d := linspaceDiv num endpoint
  let divv := ofInt d
  ⟨range, divv, fdivTotal range divv⟩

/-- the computed blocks of `da.linspace(start, stop, num, endpoint, chunks=cs)` (float64 result) -/
def linspaceValuesF (start stop : F64) (num : Nat) (endpoint : Bool) (cs : List Nat) : List (List F64) :=
  let p := linspacePlanF start stop num endpoint
  linspaceValuesG f64Arith fdivTotal start stop p.step p.range p.divv (decide (p.step.m = 0)) num endpoint cs

/-! ### the block plan *before* the repair (kept to state what was wrong: `Props/C34.lean`, `old_arange_*`) -/

/-- the length `np.arange(blockstart, blockstop, step)` had, after `chunk.arange`'s trim by at most one element,
    with `blockstart = start + ec*step`, `blockstop = start + (ec+bs)*step` computed in binary64 -/
def oldBlockLen (start step : F64) (ec bs : Nat) : Option Nat :=
  let blockstart := add start (mul (ofInt (ec : Int)) step)
  let blockstop := add start (mul (ofInt ((ec + bs : Nat) : Int)) step)
  (arangeNumF blockstart blockstop step).map (fun n => if n > bs then n - 1 else n)

def oldBlockLens (start step : F64) : Nat → List Nat → List (Option Nat)
  | _, [] => []
  | ec, bs :: rest => oldBlockLen start step ec bs :: oldBlockLens start step (ec + bs) rest

end Dask.Creation
