import DaskModel.Model.Diagnostics
/-
K5 (part) a whole *session* of computations under one `dask.cache.Cache` callback
(`with cache: get(dsk1, …); get(dsk2, …); …`, or `cache.register()`): the store of the Cache object is threaded through
the calls by the model itself.

Python                                                        Lean
------                                                        ----
the cachey store between two calls (it may drop anything)     `evictStore store ks` (the keys dropped: arbitrary list)
`Cache._start(dsk)` + `get_async` + `Cache._posttask` …        `cacheCall` = `patchGraph/patchParams`, `getAsync`, `storeAfter`
several calls, one Cache object                               `session` (store after call i = store before call i+1)

Every call may have its own graph, task functions, request, priorities, worker count, batch size and completion order.
Import-free (linked into the native driver).
-/
namespace Dask.Diag
open Dask.Sched

/-- one `get` call made while the Cache callback is active -/
structure Call (α : Type) where
  cfg : Cfg
  P : Params α
  choices : List Nat          -- the order in which outstanding batches complete (adversary)
  evict : List Key := []      -- what the cachey store dropped since the previous call

/-- the store after cachey dropped the keys `ks` -/
def evictStore {α : Type} (store : Map α) (ks : List Key) : Map α := store.filter (fun p => !ks.contains p.1)

/-- one call under the Cache: `_start` patches the graph with the store, the scheduler runs, `_posttask` stores every
result.  Returns the run and the store the Cache object holds afterwards. -/
def cacheCall {α : Type} (store : Map α) (c : Call α) : Run α × Map α :=
  let s := evictStore store c.evict
  let r := getAsync { c.cfg with g := patchGraph c.cfg.g s } (patchParams c.P s) c.choices
  (r, storeAfter s r.log)

/-- the calls of a session, each with the store it leaves behind -/
def session {α : Type} : Map α → List (Call α) → List (Run α × Map α)
  | _, [] => []
  | store, c :: cs => cacheCall store c :: session (cacheCall store c).2 cs

/-- keys the scheduler fired in a run (`pretask` events) -/
def firedKeys {α : Type} (r : Run α) : List Key :=
  r.log.filterMap (fun p => match p.1 with | .pretask k => some k | _ => none)

end Dask.Diag
