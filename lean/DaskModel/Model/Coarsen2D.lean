import DaskModel.Model.CoarsenAlign
/-
`da.coarsen` along BOTH axes of a 2-d array (C27, dask/array/routines.py + dask/array/chunk.py).

Python                                                              Lean
------                                                              ----
chunk.coarsen(reduction, x, {0: d0, 1: d1}, trim_excess):
  trim both axes, reshape (H//d0, d0, W//d1, d1), reduce axes (1, 3)   `coarsen2`: windows of `d0` rows (`coarsenBlock`),
                                                                     inside them windows of `d1` columns (`colCoarsen`);
                                                                     `red` sees the `d0` row segments of `d1` elements
da.coarsen: every axis is rechunked to its aligned chunks, every
  block of the grid is coarsened on its own, the results tile        `coarsen2Chunked` (`hcat` of the blocks of a block
                                                                     row, block rows one under the other)
the guard, the alignment per axis and the reshape error               `daCoarsen2With`
The array is a list of rows; the model does not need the rows to have equal lengths.  It is polymorphic in the element
type, so a further axis is the same statement with rows of rows.
Import-free (linked into the native driver).
-/
namespace Dask.Counting
open Dask.Chunks

/-- the windows of `d1` columns inside one window of rows: output `t` reduces the row segments `[t*d1, (t+1)*d1)` -/
def colCoarsen {α β} (red : List (List α) → β) (d1 w : Nat) (rows : List (List α)) : List β :=
  (List.range (w / d1)).map (fun t => red (rows.map (fun r => (r.drop (t * d1)).take d1)))

/-- `chunk.coarsen(red, M, {0: d0, 1: d1}, trim_excess=True)` for an array of width `w` given by its rows -/
def coarsen2 {α β} (red : List (List α) → β) (d0 d1 w : Nat) (M : List (List α)) : List (List β) :=
  coarsenBlock (colCoarsen red d1 w) d0 M

/-- `(start, length)` of every chunk -/
def chunkSpans : Nat → List Nat → List (Nat × Nat)
  | _, [] => []
  | off, c :: cs => (off, c) :: chunkSpans (off + c) cs

/-- the columns `[s, s+c)` of every row -/
def colSlice {α} (s c : Nat) (R : List (List α)) : List (List α) := R.map (fun r => (r.drop s).take c)

/-- blocks side by side (all with the same number of rows) -/
def hcat {β} : List (List (List β)) → List (List β)
  | [] => []
  | [b] => b
  | b :: bs => List.zipWith (· ++ ·) b (hcat bs)

/-- every block of the `a0 × a1` grid coarsened on its own, the results tiled -/
def coarsen2Chunked {α β} (red : List (List α) → β) (d0 d1 : Nat) (a0 a1 : List Nat) (M : List (List α)) : List (List β) :=
  ((splitBy a0 M).map (fun R => hcat ((chunkSpans 0 a1).map (fun sc => coarsen2 red d0 d1 sc.2 (colSlice sc.1 sc.2 R))))).flatten

/-- `da.coarsen(red, x, {0: d0, 1: d1}, trim_excess)` for a 2-d `x` with row chunks `cs0`, column chunks `cs1` and the
    argsort tie-breakings `o0`, `o1` of the two alignments: `none` = an exception (guard, or reshape of a ragged block) -/
def daCoarsen2With {α β} (o0 o1 : List Nat) (red : List (List α) → β) (trim : Bool) (d0 d1 : Nat) (cs0 cs1 : List Nat)
    (M : List (List α)) : Option (List (List β)) :=
  if d0 = 0 ∨ d1 = 0 then none else
  if !trim && (sum cs0 % d0 != 0 || sum cs1 % d1 != 0) then none else
  match alignedCoarsenChunksWith o0 cs0 d0, alignedCoarsenChunksWith o1 cs1 d1 with
  | some a0, some a1 =>
    if !trim && (a0.any (· % d0 != 0) || a1.any (· % d1 != 0)) then none   -- a ragged block: reshape raises
    else some (coarsen2Chunked red d0 d1 a0 a1 M)
  | _, _ => none

end Dask.Counting
