import DaskModel.Model.Structural
/-
`dask/array/reshape.py::reshape_rechunk` in full (C24; as of `fix: reshape_rechunk indexed the shapes with a negative axis`):
the two-pointer walk over the input / output axes from the right with its five branches, `_smooth_chunks`, `_cal_max_chunk_size`, `_calc_lower_dimension_chunks` (n axes), on top
of `expand_tuple` / `contract_tuple` (Model/Structural.lean); and the block-level semantics of `reshape`'s graph
(`blocksFlat`: the C-order data of every block, blocks in `itertools.product` order).

Python                                                              Lean
------                                                              ----
inshape[ii] if ii >= 0 else 1                                       `dimAt` (state: `ni = ii + 1`, `no = oi + 1`)
while ileft >= 0 and reduce(mul, inshape[ileft:ii+1]) < dout        `findLeft`
_cal_max_chunk_size                                                 `calMax`
_calc_lower_dimension_chunks                                        `lowerAll`
[ceil_elem] * factor; new[i] -= 1 for i < ceil_elem*factor - elem   `splitEven`
_smooth_chunks (recursion = another round)                          `smoothGroup`
the `din < dout` / `din > dout` branches                            `mergeBranch` / `splitBranch`
the while loop                                                      `rrStep`, `rrLoop`, `reshapeRechunk`
Task(out_key, M.reshape, in_key, shape) for zip(out_keys, in_keys)  `blocksFlat` on both sides (Props: they are equal)

`mapper_in` / `one_dimensions` (used by `reshape_blockwise` only) are not modelled. Instead the model records which
input axes and output axes each iteration consumed (`groups`), which is what the proofs are organised around.
Import-free (linked into the native driver).
-/
namespace Dask.Reshape
open Dask.Chunks Dask.Structural

inductive RErr where
  | notImpl   -- NotImplementedError (uneven split/merge: documented)
  | index     -- IndexError (an axis index ran off a tuple)
  | other     -- any other exception (TypeError of `reduce` on an empty slice, AssertionError, ZeroDivisionError, ValueError of max(()))
  deriving Repr, DecidableEq

def prod (l : List Nat) : Nat := l.foldr (· * ·) 1

/-- `l[a : b]` for `0 ≤ a` -/
def slice {α} (l : List α) (a b : Nat) : List α := (l.drop a).take (b - a)

/-- `max(t)`; `none` = ValueError for an empty tuple -/
def maxOf? : List Nat → Option Nat
  | [] => none
  | x :: xs => some (xs.foldl max x)

/-- `_cal_max_chunk_size` over all the axes of `g` -/
def calMax : List (List Nat) → Option Nat
  | [] => some 1
  | c :: g => do
    let m ← maxOf? c
    let r ← calMax g
    pure (m * r)

/-- `_calc_lower_dimension_chunks`: the products over `itertools.product(*g)`, first axis slowest -/
def lowerAll : List (List Nat) → List Nat
  | [] => [1]
  | c :: g => c.flatMap (fun x => (lowerAll g).map (fun y => x * y))

/-- `new = [ceil(elem / factor)] * factor; for i in range(ceil_elem * factor - elem): new[i] -= 1` -/
def splitEven (elem factor : Nat) : List Nat :=
  let ce := ceilDiv elem factor
  (List.range factor).map (fun i => if i < ce * factor - elem then ce - 1 else ce)

def allOnes (c : List Nat) : Bool := c.all (fun x => x == 1)

/-- `while all(x == 1 for x in result_inchunks[ileft]): ileft += 1` inside the group; `none` = ran past the group -/
def firstNonOnes : List (List Nat) → Option Nat
  | [] => none
  | c :: g => if allOnes c then (firstNonOnes g).map (· + 1) else some 0

/-- the multi-chunk branch of `_smooth_chunks`: split every element that is too large -/
def smoothMulti (otherMax maxIn : Nat) (cur : List Nat) : List Nat :=
  cur.flatMap (fun e => if e * otherMax ≤ maxIn then [e] else splitEven e (ceilDiv (e * otherMax) maxIn))

/-- `_smooth_chunks` on the axes `ileft..ii` of the group (`fuel` = rounds left; one round per recursive call) -/
def smoothGroup (maxIn : Nat) : Nat → List (List Nat) → Except RErr (List (List Nat))
  | 0, _ => .error .other
  | fuel + 1, g =>
    match calMax g with
    | none => .error .other
    | some maxRes =>
      if maxIn = maxRes then .ok g
      else match firstNonOnes g with
        | none => .error .index
        | some k =>
          let cur := g.getD k []
          if maxIn = 0 then .error .other
          else if cur.length = 1 then
            let elem := cur.getD 0 0
            let factor := min (ceilDiv maxRes maxIn) elem
            if factor = 0 then .error .other
            else
              let new := splitEven elem factor
              let g' := g.set k new
              if allOnes new ∧ k + 1 < g.length then smoothGroup maxIn fuel g' else .ok g'
          else
            match maxOf? cur with
            | none => .error .other
            | some mc =>
              if mc = 0 then .error .other
              else .ok (g.set k (smoothMulti (maxRes / mc) maxIn cur))

/-- the `while ileft >= 0 and reduce(mul, shape[ileft : i + 1]) < target: ileft -= 1` search, started at `ileft = k - 1`;
    `none` = it ended with `ileft = -1` -/
def findLeft (shape : List Nat) (i target : Nat) : Nat → Option Nat
  | 0 => none
  | k + 1 => if prod (slice shape k (i + 1)) < target then findLeft shape i target k else some k

structure RRState where
  /-- `ii + 1`: the number of input axes still to be visited -/
  ni : Nat
  /-- `oi + 1` -/
  no : Nat
  ri : List (Option (List Nat))
  ro : List (Option (List Nat))
  /-- `(number of input axes, number of output axes)` consumed by each iteration, leftmost first -/
  groups : List (Nat × Nat)
  deriving Repr

/-- `l[start + j] = vals[j]` -/
def setRange (l : List (Option (List Nat))) : Nat → List (List Nat) → List (Option (List Nat))
  | _, [] => l
  | start, v :: vs => setRange (l.set start (some v)) (start + 1) vs

/-- the `din < dout` branch (`i = ii`, `o = oi`) -/
def mergeBranch (inshape : List Nat) (inchunks : List (List Nat)) (st : RRState) (i o dout : Nat) : Except RErr RRState :=
  match findLeft inshape i dout i with
  | none => if i + 1 = inshape.length then .error .notImpl else .error .other
  | some ileft =>
    if prod (slice inshape ileft (i + 1)) ≠ dout then .error .notImpl
    else
      let special := (List.range i).all (fun a => (inchunks.getD a []).length == inshape.getD a 0)
      if special then
        let ri := setRange st.ri 0 (inchunks.take (i + 1))
        let reps := prod ((slice inchunks ileft i).map List.length)
        let ro := st.ro.set o (some ((List.replicate reps (inchunks.getD i [])).flatten))
        .ok { ni := ileft, no := o, ri := ri, ro := ro, groups := (i + 1 - ileft, 1) :: st.groups }
      else
        let fulls := (slice inshape (ileft + 1) (i + 1)).map (fun d => [d])
        let red := prod ((slice inchunks (ileft + 1) (i + 1)).map List.length)
        let g0 := expandTuple (inchunks.getD ileft []) red :: fulls
        match calMax (slice inchunks ileft (i + 1)) with
        | none => .error .other
        | some maxIn =>
          match smoothGroup maxIn (g0.length + 1) g0 with
          | .error e => .error e
          | .ok g =>
            .ok { ni := ileft, no := o, ri := setRange st.ri ileft g,
                  ro := st.ro.set o (some (lowerAll g)), groups := (i + 1 - ileft, 1) :: st.groups }

/-- the `din > dout` branch -/
def splitBranch (outshape : List Nat) (inchunks : List (List Nat)) (st : RRState) (i o din : Nat) : Except RErr RRState :=
  match findLeft outshape o din o with
  | none => if o + 1 = outshape.length then .error .notImpl else .error .other
  | some oleft =>
    if prod (slice outshape oleft (o + 1)) ≠ din then .error .notImpl
    else
      let cs := prod (slice outshape (oleft + 1) (o + 1))
      match contractTuple (inchunks.getD i []) cs with
      | none => .error .other
      | some contracted =>
        let fulls := (slice outshape (oleft + 1) (o + 1)).map (fun d => [d])
        let g0 := contracted.map (· / cs) :: fulls
        match maxOf? (inchunks.getD i []) with
        | none => .error .other
        | some maxIn =>
          match smoothGroup maxIn (g0.length + 1) g0 with
          | .error e => .error e
          | .ok g =>
            .ok { ni := i, no := oleft, ri := st.ri.set i (some (lowerAll g)),
                  ro := setRange st.ro oleft g, groups := (1, o + 1 - oleft) :: st.groups }

/-- `shape[ii] if ii >= 0 else 1` with `n = ii + 1` -/
def dimAt (shape : List Nat) (n : Nat) : Nat := if n = 0 then 1 else shape.getD (n - 1) 0

/-- one iteration of `while ii >= 0 or oi >= 0` (after `fix: reshape_rechunk … negative axis`: a side that has run out of
    axes counts as length one) -/
def rrStep (inshape outshape : List Nat) (inchunks : List (List Nat)) (st : RRState) : Except RErr RRState :=
  let i := st.ni - 1
  let o := st.no - 1
  let din := dimAt inshape st.ni
  let dout := dimAt outshape st.no
  if st.ni ≠ 0 ∧ st.no ≠ 0 ∧ din = dout then
    match inchunks[i]? with
    | none => .error .index
    | some c => .ok { ni := i, no := o, ri := st.ri.set i (some c), ro := st.ro.set o (some c), groups := (1, 1) :: st.groups }
  else if din = 1 ∧ st.ni ≠ 0 then
    .ok { st with ni := i, ri := st.ri.set i (some [1]), groups := (1, 0) :: st.groups }
  else if dout = 1 ∧ st.no ≠ 0 then
    .ok { st with no := o, ro := st.ro.set o (some [1]), groups := (0, 1) :: st.groups }
  else if st.ni = 0 ∨ st.no = 0 then .error .other     -- `reduce(mul, shape[-2:0])` of an empty slice: TypeError
  else if din < dout then mergeBranch inshape inchunks st i o dout
  else splitBranch outshape inchunks st i o din

def rrLoop (inshape outshape : List Nat) (inchunks : List (List Nat)) : Nat → RRState → Except RErr RRState
  | 0, st => if st.ni = 0 ∧ st.no = 0 then .ok st else .error .other
  | fuel + 1, st =>
    if st.ni = 0 ∧ st.no = 0 then .ok st
    else match rrStep inshape outshape inchunks st with
      | .error e => .error e
      | .ok st' => rrLoop inshape outshape inchunks fuel st'

/-- `ii = len(inshape) - 1; oi = len(outshape) - 1; result_inchunks = [None …]; result_outchunks = [None …]` -/
def initState (inshape outshape : List Nat) : RRState :=
  { ni := inshape.length, no := outshape.length, ri := List.replicate inshape.length none,
    ro := List.replicate outshape.length none, groups := [] }

/-- `reshape_rechunk(inshape, outshape, inchunks)` ↦ `(result_inchunks, result_outchunks, groups)`;
    an entry `none` = the axis was never assigned (`None` stays in the returned tuple) -/
def reshapeRechunk (inshape outshape : List Nat) (inchunks : List (List Nat)) :
    Except RErr (List (Option (List Nat)) × List (Option (List Nat)) × List (Nat × Nat)) :=
  match rrLoop inshape outshape inchunks (inshape.length + outshape.length + 1) (initState inshape outshape) with
  | .error e => .error e
  | .ok st => .ok (st.ri, st.ro, st.groups)

/-! ### what `reshape`'s graph computes: block-by-block `M.reshape` in product order -/

/-- cut `flat` into `n` rows of length `len` -/
def rowsOf {α} (len : Nat) : Nat → List α → List (List α)
  | 0, _ => []
  | n + 1, flat => flat.take len :: rowsOf len n (flat.drop len)

/-- number of blocks -/
def nBlocks (dims : List (List Nat)) : Nat := prod (dims.map List.length)

/-- number of elements -/
def size (dims : List (List Nat)) : Nat := prod (dims.map sum)

/-- `k`-th entries of the lists, concatenated: for rows cut into the same `K` inner blocks, the data of inner block `k`
    of all the rows together -/
def zipConcat {α} (K : Nat) (ls : List (List (List α))) : List (List α) :=
  (List.range K).map (fun k => (ls.map (fun l => l.getD k [])).flatten)

/-- the C-order data of every block of an array with C-order data `flat` and chunks `dims`, whose elements are runs of
    `m` consecutive entries of `flat`; blocks in `itertools.product` order (first axis slowest) -/
def blocksFlat {α} (m : Nat) : List (List Nat) → List α → List (List α)
  | [], flat => [flat]
  | c :: rest, flat =>
    let rows := rowsOf (size rest * m) (sum c) flat
    (splitBy c rows).flatMap (fun rc => zipConcat (nBlocks rest) (rc.map (blocksFlat m rest)))

/-- a group of adjacent axes whose blocks are runs of the C-order data, in order: all-ones axes, then one arbitrary
    axis, then single-chunk axes. (`_smooth_chunks`: "all dimensions before the dimension we adjust have all-1 chunks") -/
def contig : List (List Nat) → Bool
  | [] => true
  | c :: g => if allOnes c then contig g else g.all (fun d => d.length == 1)

/-- the check the proofs are organised around: cutting both chunk lists into the recorded groups, every group is
    contiguous on both sides and has the same block sizes on both sides -/
def groupsOK : List (List Nat) → List (List Nat) → List (Nat × Nat) → Bool
  | [], [], [] => true
  | ri, ro, (a, b) :: gs =>
    a ≤ ri.length && b ≤ ro.length &&
    contig (ri.take a) && contig (ro.take b) && lowerAll (ri.take a) == lowerAll (ro.take b) &&
    groupsOK (ri.drop a) (ro.drop b) gs
  | _, _, [] => false

end Dask.Reshape
