import DaskModel.Model.NormalForm
/-
The pandas normalisers of dask/tokenize.py (`register_pandas`) for the EXTENDED universe: MultiIndex, Categorical (also as
the values of a series / an index), nullable (masked) arrays, datetime-tz / period / timedelta arrays, interval arrays and
the pandas scalars.  Extends Model/NormalFormPandas.lean (which it does not change; the NumPy-backed classes are repeated
here so that the new value universe is closed: the categories of a Categorical, the sides of an IntervalArray and the
levels of a MultiIndex are indexes again).

Python (dask/tokenize.py, register_pandas)                                     Lean
------                                                                         ----
values of a series / an index / a frame column  (`s._values`, `ind.array`)     `XVals`
  np.ndarray                       normalize_array                             `.np v`
  ExtensionArray (fallback)        [normalize_token(np.asarray(arr)), normalize_token(arr.dtype)]
     NumpyExtensionArray, StringArray; dtype -> dtype.name                     `.ea v dtypeName`
  PeriodArray / DatetimeArray / TimedeltaArray
                                   [normalize_token(arr.asi8), normalize_token(arr.dtype)]
     dtype: DatetimeTZDtype / PeriodDtype -> dtype.name ('datetime64[us, UTC]', 'period[M]'),
            np.dtype -> dtype.str ('<M8[us]', '<m8[ns]')                       `.ea asi8 dtypeToken`  (same shape of token)
  IntegerArray / FloatingArray / BooleanArray (nullable, `_data` + `_mask`)
                                   [normalize_token(arr.to_numpy(dtype=npdtype, na_value=0)), normalize_token(arr.isna()),
                                    normalize_token(arr.dtype)]                `.masked npdtype cells zero dtypeName`
     cells = zip(mask, stored data); `zero` = the interned element 0 of the NumPy dtype; what is stored underneath a
     missing value is replaced by it before hashing (`fillC`)
  IntervalArray                    [normalize_token(arr.left), normalize_token(arr.right), normalize_token(arr.closed)]
                                                                               `.interval left right closed`
  Categorical                      [normalize_token(cat.codes), normalize_token(cat.dtype)],
     CategoricalDtype: [normalize_token(dtype.categories), normalize_token(dtype.ordered)]
                                                                               `.cat codes categories ordered`
indexes                                                                        `XIndex`
  RangeIndex   (type(x), x.start, x.stop, x.step, x.dtype, x.name)             `.range cls start stop step dtype name`
  Index and subclasses (DatetimeIndex, PeriodIndex, TimedeltaIndex, IntervalIndex, CategoricalIndex)
               (type(ind), ind.name, normalize_token(ind.array))               `.plain cls name values`
  MultiIndex   [ind.name] + [normalize_token(x) for x in ind.levels] + [normalize_token(x) for x in ind.codes]
               (the names of the index are the names of its levels)            `.multi name levels codes`
objects                                                                        `XObj`
  an index / an extension array or Categorical by itself                       `.index i` / `.vals v`
  Series    [s.name, s.dtype, normalize_token(s._values), normalize_token(s.index)]   (name, dtype RAW: printed by repr)
                                                                               `.series name dtypeRepr values index`
  DataFrame [column values …, columns, index] each normalised                  `.frame cols columns index`
  Timestamp / Timedelta / NaT: subclasses of datetime.datetime / datetime.timedelta, `_IDENTITY_DISPATCH` -> the object
            itself, printed by `repr` in `str(token)`;  pd.NA: normalize_na -> pd.NA, printed `<NA>`
                                                                               `.scalar repr`   (class = `sclsOf repr`)
Interval / Period SCALARS and object arrays that hold pd.NA go through the pickle fallback (not modelled here).
-/
namespace Dask.NF

mutual
/-- the values of an index / a series / a frame column -/
inductive XVals where
  | np (v : Val)
  | ea (v : Val) (dtypeName : String)
  | masked (npdtype : String) (cells : List (Bool × Nat)) (z0 : Nat) (dtypeName : String)
  | interval (left right : XIndex) (closed : String)
  | cat (codes : Val) (categories : XIndex) (ordered : Bool)
inductive XIndex where
  | range (cls : String) (start stop step : Int) (dtype : String) (name : Val)
  | plain (cls : String) (name : Val) (values : XVals)
  | multi (name : Val) (levels : List XIndex) (codes : List Val)
end

inductive XObj where
  | index (i : XIndex)
  | vals (v : XVals)
  | series (name : Val) (dtype : String) (values : XVals) (index : XIndex)
  | frame (cols : List XVals) (columns : XIndex) (index : XIndex)
  | scalar (repr : String)

/-- `arr.to_numpy(dtype=npdtype, na_value=0)`: the stored element where the mask is clear, zero where it is set -/
def fillC (z0 : Nat) : List (Bool × Nat) → List Nat
  | [] => []
  | (m, d) :: r => (if m then z0 else d) :: fillC z0 r

/-- the bytes of `arr.isna()` (a bool array: one byte 0 / 1 per element) -/
def bitsC : List (Bool × Nat) → List Nat
  | [] => []
  | (m, _) :: r => (if m then 1 else 0) :: bitsC r

/-- the token of a 1-d C-contiguous array: `(hash_buffer_hex(bytes), dtype, (n,))` -/
def arrTok1 (h : Val) (dt : String) (n : Nat) : Val := .tuple [h, .atom dt, .tuple [.int (Int.ofNat n)]]

mutual
/-- `normalize_token(values)` -/
def xnormVals : XVals → Val
  | .np v => norm v
  | .ea v dn => .list [norm v, .str dn]
  | .masked dt cells z0 dn =>
    .list [arrTok1 (.hash 0 (fillC z0 cells)) dt cells.length, arrTok1 (.hash 3 (bitsC cells)) "dtype('bool')" cells.length, .str dn]
  | .interval l r closed => .list [xnormIdx l, xnormIdx r, .str closed]
  | .cat codes cats ordered => .list [norm codes, .list [xnormIdx cats, .bool ordered]]
/-- `normalize_token(index)` -/
def xnormIdx : XIndex → Val
  | .range cls start stop step dt name => .tuple [.atom cls, .int start, .int stop, .int step, .atom dt, name]
  | .plain cls name values => .tuple [.atom cls, name, xnormVals values]
  | .multi name levels codes => .list (name :: (xnormIdxL levels ++ normL codes))
def xnormIdxL : List XIndex → List Val
  | [] => []
  | i :: is => xnormIdx i :: xnormIdxL is
end

def xnormValsL : List XVals → List Val
  | [] => []
  | v :: vs => xnormVals v :: xnormValsL vs

/-- `normalize_token(obj)` -/
def xnorm : XObj → Val
  | .index i => xnormIdx i
  | .vals v => xnormVals v
  | .series name dt values idx => .list [name, .atom dt, xnormVals values, xnormIdx idx]
  | .frame cols columns idx => .list (xnormValsL cols ++ [xnormIdx columns, xnormIdx idx])
  | .scalar r => .atom r

/-- the string handed to md5 by `tokenize(obj)` -/
def xtokPre (o : XObj) : String := pyRepr (.tuple [xnorm o])

/-- the classes of pandas scalars that reach the token as themselves -/
inductive SCls where
  | timestamp | timedelta | nat | na | other
  deriving DecidableEq, Repr

/-- the class of a scalar as far as its `repr` tells -/
def sclsOf (r : String) : SCls :=
  if r = "NaT" then .nat
  else if r = "<NA>" then .na
  else if "Timestamp(".isPrefixOf r then .timestamp
  else if "Timedelta(".isPrefixOf r then .timedelta
  else .other

def SCls.name : SCls → String
  | .timestamp => "Timestamp" | .timedelta => "Timedelta" | .nat => "NaTType" | .na => "NAType" | .other => "other"

end Dask.NF
