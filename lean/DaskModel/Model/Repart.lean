import DaskModel.Model.TextBlocks
/-
K10/K4 (part): `dask/dataframe/dask_expr/_repartition.py`, transliterated.

Python                                           Lean
------                                           ----
partitions of a frame                            `List (List α)` (rows in order); `den = flatten`
`_clean_new_division_boundaries`                 `cleanBoundaries`
`RepartitionToFewer._layer`                      `toFewerLayer` (lists of input partition numbers) + `evalLayer`
`int(i * (old / new))` (IEEE double)             `F64.*` exact fixed-point model (unit 2^-1074) of the two roundings, `toFewerRaw`
`RepartitionToMore._nsplits`, `_layer`           `nsplits`, `toMore`
`split_evenly` (`np.linspace(0,len,k+1).astype(int)`)  `splitPositions` (same double model), `cut`
`Repartition._lower` (decision only)             `lowerKind`
`RepartitionDivisions._layer`                    `divisionsLayer` (two walks), `Slice`, `evalDivisions`
`methods.boundary_slice` on one partition        `boundarySlice` (a filter on the index key)
No Mathlib (imports only Model/TextBlocks for `round53`).
-/
namespace Dask.Repart

/-! ### exact IEEE-754 double arithmetic for the two float expressions in this file
A non-negative double is an integer multiple of `2^-1074` (the subnormal spacing), so it is represented by the natural
number `v * 2^1074`. Rounding a rational to the nearest double (ties to even) is then `TextBlocks.round53`: to an
integer below `2^53` units (the subnormal / lowest normal range), to 53 significant bits above. Overflow is not
modelled (partition counts are far below `2^1024`). The lemmas about `round53` (monotone, exact on representable
values, error at most one unit in the last place) live in `Lemmas/Round53.lean` (group bag) and `Lemmas/RepartFloat.lean`. -/
namespace F64
open Dask.TextBlocks (round53)

/-- the scale -/
def U : Nat := 2 ^ 1074

/-- `float(a) / float(b)` for non-negative integers below 2^53, `b > 0` -/
def div (a b : Nat) : Nat := round53 (a * U) b

/-- `i * x` for an integer `i < 2^53` and a double `x` -/
def mulNat (i : Nat) (x : Nat) : Nat := round53 (i * x) 1

/-- `int(x)` for a non-negative double -/
def trunc (x : Nat) : Nat := x / U

end F64

/-! ### boundaries -/

/-- `_clean_new_division_boundaries(bs, n)`; `none` = IndexError on an empty list -/
def cleanBoundaries (bs : List Nat) (n : Nat) : Option (List Nat) :=
  match bs with
  | [] => none
  | b0 :: _ =>
    let bs1 := if b0 > 0 then 0 :: bs else bs
    match bs1.getLast? with
    | none => none
    | some l => some (if l < n then bs1.dropLast ++ [n] else bs1)

/-- `[int(i * (old / new)) for i in range(new + 1)]`; `none` = ZeroDivisionError -/
def toFewerRaw (new old : Nat) : Option (List Nat) :=
  if new = 0 then none else
  let ratio := F64.div old new
  some ((List.range (new + 1)).map fun i => F64.trunc (F64.mulNat i ratio))

/-- `RepartitionToFewer._compute_partition_boundaries` -/
def toFewerBoundaries (new old : Nat) : Option (List Nat) :=
  (toFewerRaw new old).bind (cleanBoundaries · old)

/-- `zip(bs, bs[1:])` -/
def pairs : List Nat → List (Nat × Nat)
  | a :: b :: rest => (a, b) :: pairs (b :: rest)
  | _ => []

/-- the `_layer` of ToFewer / RepartitionSize: output partition `i` concatenates the input partitions
    `range(start, end)` -/
def toFewerLayer (bs : List Nat) : List (List Nat) :=
  (pairs bs).map fun (s, e) => List.range' s (e - s)

/-- evaluate a "concat these input partitions" layer; `none` = a key is missing from the graph -/
def evalLayer {α : Type} (parts : List (List α)) (layer : List (List Nat)) : Option (List (List α)) :=
  layer.mapM fun js => (js.mapM fun j => parts[j]?).map List.flatten

/-- `RepartitionToFewer` given the (float-computed) raw boundaries -/
def toFewer {α : Type} (parts : List (List α)) (raw : List Nat) : Option (List (List α)) :=
  (cleanBoundaries raw parts.length).bind fun bs => evalLayer parts (toFewerLayer bs)

/-! ### ToMore -/

/-- `RepartitionToMore._nsplits`; `none` = ZeroDivisionError / IndexError for an empty frame list -/
def nsplits (new old : Nat) : Option (List Nat) :=
  if old = 0 then none else
  some (List.replicate (old - 1) (new / old) ++ [new / old + new % old])

/-- `np.linspace(0, len, k + 1).astype(int)`: `step = len / k`, `i * step`, last element set to `len` -/
def splitPositions (len k : Nat) : Option (List Nat) :=
  if k = 0 then none else
  let step := F64.div len k
  some ((List.range k).map (fun i => F64.trunc (F64.mulNat i step)) ++ [len])

/-- `df.iloc[a:b]` -/
def pySlice {α : Type} (xs : List α) (a b : Nat) : List α := (xs.drop a).take (b - a)

/-- `{i: df.iloc[d[i]:d[i+1]]}` -/
def cut {α : Type} (xs : List α) (pos : List Nat) : List (List α) :=
  (pairs pos).map fun (a, b) => pySlice xs a b

/-- one input partition of `RepartitionToMore._layer`: kept as is for `k == 1`, else `split_evenly` -/
def splitOne {α : Type} (posOf : Nat → Nat → Option (List Nat)) (p : List α) (k : Nat) : Option (List (List α)) :=
  if k = 1 then some [p] else (posOf p.length k).map (cut p)

/-- `RepartitionToMore._layer`, with the split positions of each partition supplied by `posOf len k` -/
def toMoreWith {α : Type} (posOf : Nat → Nat → Option (List Nat)) : List (List α) → List Nat → Option (List (List α))
  | [], [] => some []
  | p :: ps, k :: ks => do
    let here ← splitOne posOf p k
    let rest ← toMoreWith posOf ps ks
    pure (here ++ rest)
  | _, _ => none

def toMore {α : Type} (parts : List (List α)) (new : Nat) : Option (List (List α)) :=
  (nsplits new parts.length).bind (toMoreWith splitPositions parts)

/-! ### RepartitionSize -/

/-- `RepartitionSize._nsplits = 1 + mem_usage // size`; `none` = division by zero -/
def sizeNsplits (usages : List Nat) (size : Nat) : Option (List Nat) :=
  if size = 0 then none else some (usages.map fun u => 1 + u / size)

/-- `dask.utils.iter_chunks(sizes, max)` as the LENGTHS of the yielded chunks: greedy consecutive groups whose
    sum stays `≤ max`; `cnt`/`sum` = length and total of the chunk being filled; `none` = AssertionError
    (a size exceeds `max`) -/
def iterChunksGo (max : Nat) : List Nat → Nat → Nat → Option (List Nat)
  | [], cnt, _ => some (if cnt = 0 then [] else [cnt])
  | s :: rest, cnt, sum =>
    if s > max then none
    else if sum + s ≤ max then iterChunksGo max rest (cnt + 1) (sum + s)
    else if cnt = 0 then none      -- `assert chunk` (unreachable: `sum = 0` then)
    else (iterChunksGo max rest 1 s).map (cnt :: ·)

def iterChunks (sizes : List Nat) (max : Nat) : Option (List Nat) := iterChunksGo max sizes 0 0

/-- `np.cumsum` -/
def cumsumFrom : Nat → List Nat → List Nat
  | _, [] => []
  | acc, x :: xs => (acc + x) :: cumsumFrom (acc + x) xs

/-- `RepartitionSize._partition_boundaries` from the chunk lengths (`_clean_new_division_boundaries` against the
    number of partitions of the FRAME, also when partitions were split first) -/
def sizeBoundaries (lens : List Nat) (nparts : Nat) : Option (List Nat) := cleanBoundaries (cumsumFrom 0 lens) nparts

/-- the pieces `RepartitionSize._layer` concatenates: the partitions themselves, or (when some split count
    exceeds 1) the partitions cut `k`-fold by `split_evenly` -/
def sizePieces {α : Type} (posOf : Nat → Nat → Option (List Nat)) (parts : List (List α)) (ks : List Nat) :
    Option (List (List α)) :=
  if ks.all (· == 1) then some parts else toMoreWith posOf parts ks

/-- `RepartitionSize._layer`: split the partitions `ks`-fold where needed (`split_evenly`), then concatenate
    the consecutive runs given by the boundaries -/
def repartitionSizeWith {α : Type} (posOf : Nat → Nat → Option (List Nat)) (parts : List (List α)) (ks lens : List Nat) :
    Option (List (List α)) :=
  (sizePieces posOf parts ks).bind fun pieces =>
    (sizeBoundaries lens parts.length).bind fun bs => evalLayer pieces (toFewerLayer bs)

/-! ### `Repartition._lower` for `npartitions=` (after the fix of defect #22) -/

inductive Kind where
  | fewer | same | more
  | divisions (d : List Nat)
  deriving Repr, DecidableEq

/-- adjacent-duplicate-free version of `unique` (the interpolated divisions are non-decreasing) -/
def uniq : List Nat → List Nat
  | [] => []
  | [x] => [x]
  | x :: y :: rest => if x = y then uniq (y :: rest) else x :: uniq (y :: rest)

/-- which expression `repartition(npartitions=new)` lowers to. `interp` = the interpolated division
    vector (`np.interp` output after the dtype cast and the first/last overwrite), supplied by the
    caller when the frame has known numeric divisions (`none` otherwise). -/
def lowerKind (new old : Nat) (interp : Option (List Nat)) : Kind :=
  if new < old then .fewer
  else if new = old then .same
  else match interp with
    | none => .more
    | some ds =>
      let d := uniq ds.dropLast ++ ds.getLast?.toList
      if d.length = new + 1 then .divisions d else .more

/-! ### RepartitionDivisions -/

/-- one `(methods.boundary_slice, (name, src), lo, hi, right_boundary)` task -/
structure Slice where
  src : Nat
  lo : Nat
  hi : Nat
  rb : Bool
  deriving Repr, DecidableEq

/-- `boundary_slice(df, lo, hi, right_boundary=rb)` on the index keys of one partition -/
def boundarySlice {α : Type} (key : α → Nat) (rows : List α) (lo hi : Nat) (rb : Bool) : List α :=
  rows.filter fun r => lo ≤ key r && (key r < hi || (rb && key r == hi))

def isSingleLastDiv (x : List Nat) : Bool :=
  match x.reverse with
  | l :: l' :: _ => l == l'
  | _ => false

structure W1 where
  i : Nat
  j : Nat
  low : Nat
  c : List Nat      -- most recent first
  d : List Slice    -- most recent first
  deriving Repr

/-- first `while i < len(a) and j < len(b)` loop; `none` = IndexError (cannot happen inside the guard) -/
def walk1 (a b : List Nat) : Nat → W1 → Option W1
  | 0, s => if s.i < a.length ∧ s.j < b.length then none else some s
  | fuel + 1, s =>
    if s.i < a.length ∧ s.j < b.length then do
      let ai ← a[s.i]?
      let bj ← b[s.j]?
      if ai < bj then
        walk1 a b fuel { s with d := ⟨s.i - 1, s.low, ai, false⟩ :: s.d, low := ai, i := s.i + 1, c := ai :: s.c }
      else if ai > bj then
        walk1 a b fuel { s with d := ⟨s.i - 1, s.low, bj, false⟩ :: s.d, low := bj, j := s.j + 1, c := bj :: s.c }
      else
        let adv : Bool := a.length == s.i + 1 || (match a[s.i + 1]? with | some n => decide (ai < n) | none => false)
        walk1 a b fuel { s with d := ⟨s.i - 1, s.low, bj, false⟩ :: s.d, low := bj,
                                j := if adv then s.j + 1 else s.j, i := s.i + 1, c := bj :: s.c }
    else some s

/-- the `for _j in range(j, len(b))` tail -/
def tailRight (a : List Nat) : List Nat → Nat → List Nat → List Slice → List Nat × List Slice
  | [], _, c, d => (c, d)
  | bj :: rest, low, c, d => tailRight a rest bj (bj :: c) (⟨a.length - 2, low, bj, false⟩ :: d)

/-- inner `while c[i] < b[j]` loop: collect indices; `none` = IndexError on `c[i]` -/
def collectLt (c : List Nat) (bj : Nat) : Nat → Nat → List Nat → Option (Nat × List Nat)
  | 0, _, _ => none
  | fuel + 1, i, tmp => do
    let ci ← c[i]?
    if ci < bj then collectLt c bj fuel (i + 1) (i :: tmp) else pure (i, tmp)

/-- inner `while last_elem and c[i] == b[-1] and (…) and i < k` loop -/
def collectLast (c : List Nat) (lastElem : Bool) (bLast : Nat) (cond : Bool) (k : Nat) :
    Nat → Nat → List Nat → Option (Nat × List Nat)
  | 0, _, _ => none
  | fuel + 1, i, tmp =>
    if !lastElem then some (i, tmp) else do
      let ci ← c[i]?
      if ci == bLast && cond && decide (i < k) then collectLast c lastElem bLast cond k fuel (i + 1) (i :: tmp)
      else pure (i, tmp)

/-- second `while j < len(b)` loop: for each new partition the list of `out1` pieces
    (`[]` = the dummy empty slice) -/
def walk2 (b c : List Nat) (lastElem : Bool) (bLast : Nat) (lastDistinct : Bool) (k : Nat) :
    List Nat → Nat → Nat → Option (List (List Nat))
  | [], _, _ => some []
  | bj :: rest, j, i => do
    let (i1, tmp1) ← collectLt c bj (c.length + 1) i []
    let cond := lastDistinct || (j == b.length - 1)
    let (i2, tmp2) ← collectLast c lastElem bLast cond k (c.length + 1) i1 tmp1
    let more ← walk2 b c lastElem bLast lastDistinct k rest (j + 1) i2
    pure (tmp2.reverse :: more)

structure DLayer where
  slices : List Slice              -- `out1` tasks in key order
  out : List (List Nat)            -- per new partition: the `out1` keys concatenated (`[]` = dummy)
  c : List Nat                     -- the temporary division vector (for inspection)
  deriving Repr

/-- the ValueError guards at the top of `_layer`; returns `(b[0], a[-1], b[-1], b[-2])` (`b[0]` is where the
    temporary divisions start; equal to `a[0]` unless `force` allowed the new divisions to start lower) -/
def dlGuards (a b : List Nat) (force : Bool) : Option (Nat × Nat × Nat × Nat) :=
  if a.length < 2 then none       -- precondition: `a` is the division tuple of a frame (≥ 1 partition)
  else if b.length < 2 then none  -- "New division must be longer than 2 elements"
  else do
    let a0 ← a.head?
    let b0 ← b.head?
    let aL ← a.getLast?
    let bL ← b.getLast?
    let bL2 ← b[b.length - 2]?
    if (if force then decide (a0 < b0 ∨ aL > bL) else decide (a0 ≠ b0 ∨ aL ≠ bL)) then none   -- ValueError guards
    else some (b0, aL, bL, bL2)

/-- the part after the first walk: the remaining new divisions, or the single-last-division piece -/
def dlRight (a b : List Nat) (aL bL bL2 : Nat) (s : W1) : Option (List Nat × List Slice) :=
  if aL < bL ∨ bL = bL2 then
    some (tailRight a (b.drop s.j) s.low s.c s.d)
  else if isSingleLastDiv a && decide (s.i < a.length) then
    (a[s.i]?).map fun ai => (aL :: s.c, ⟨s.i - 1, ai, ai, false⟩ :: s.d)
  else some (aL :: s.c, s.d)

/-- `d[(out1, k - 1)] = d[(out1, k - 1)][:-1] + (True,)` (KeyError when `k = 0`) -/
def dlMarkLast : List Slice → Option (List Slice)
  | [] => none
  | x :: xs => some ({ x with rb := true } :: xs)

/-- `RepartitionDivisions._layer` for old divisions `a`, new divisions `b`.
    `none` = the Python code raises (ValueError guards, IndexError/KeyError inside the walks). -/
def divisionsLayer (a b : List Nat) (force : Bool) : Option DLayer := do
  let (c0, aL, bL, bL2) ← dlGuards a b force
  let s ← walk1 a b (a.length + b.length) { i := 1, j := 1, low := c0, c := [c0], d := [] }
  let (c, d) ← dlRight a b aL bL bL2 s
  let d ← dlMarkLast d
  let out ← walk2 b c.reverse (isSingleLastDiv c.reverse) bL (bL != bL2) d.length (b.drop 1) 1 0
  pure { slices := d.reverse, out := out, c := c.reverse }

/-- run a divisions layer on concrete partitions (rows carry their index key) -/
def evalDivisions {α : Type} (key : α → Nat) (parts : List (List α)) (L : DLayer) : Option (List (List α)) := do
  let pieces ← L.slices.mapM fun s => (parts[s.src]?).map fun p => boundarySlice key p s.lo s.hi s.rb
  L.out.mapM fun ks => (ks.mapM fun k => pieces[k]?).map List.flatten

/-- `repartition(divisions=b, force=force)` on a frame with known divisions `a` -/
def repartitionDivisions {α : Type} (key : α → Nat) (parts : List (List α)) (a b : List Nat) (force : Bool) :
    Option (List (List α)) :=
  (divisionsLayer a b force).bind (evalDivisions key parts)

/-! ### a checkable certificate for a `RepartitionDivisions` layer
`layerOK a b L` is a decidable property of the layer alone (no partitions involved). `Lemmas/RepartDivs.lean`
proves that every layer that passes it keeps rows and order and yields partitions truthful for `b`, for EVERY
frame truthful for `a`; the harness evaluates it on every layer the real `_layer()` builds. -/

/-- the slices of one old partition with key range `[A, B)` (`[A, B]` when `closed`): a chain `hi = next lo`
    of half-open slices that starts at or below `A` and ends at or beyond `B`; a slice may run backwards
    (`lo > hi`, it selects nothing) only when it starts at or below `A` -/
def chainOK (A B : Nat) (closed : Bool) : List Slice → Bool
  | [] => false
  | [s] => (decide (s.lo ≤ s.hi) || decide (s.lo ≤ A)) &&
      (if closed then decide (B < s.hi) || (decide (B = s.hi) && s.rb) else decide (B ≤ s.hi))
  | s :: t :: rest => (decide (s.lo ≤ s.hi) || decide (s.lo ≤ A)) && !s.rb && decide (s.hi = t.lo) &&
      chainOK A B closed (t :: rest)

def blockOK (A B : Nat) (closed : Bool) (blk : List Slice) : Bool :=
  match blk with
  | [] => false
  | s :: _ => decide (s.lo ≤ A) && chainOK A B closed blk

/-- the slices are the blocks of old partitions `m, m+1, …` in order -/
def blocksOK : List (Nat × Nat) → Nat → List Slice → Bool
  | [], _, sl => sl.isEmpty
  | (A, B) :: rest, m, sl =>
    blockOK A B rest.isEmpty (sl.takeWhile (·.src == m)) && blocksOK rest (m + 1) (sl.dropWhile (·.src == m))

/-- piece `s` (a slice of old partition `[A, B)`, closed when `mlast`) only holds keys of the new partition
    `[lo', hi')` (closed when `jlast`) -/
def pieceFits (A B : Nat) (mlast : Bool) (lo' hi' : Nat) (jlast : Bool) (s : Slice) : Bool :=
  (decide (lo' ≤ s.lo) || decide (lo' ≤ A)) &&
  ((decide (s.hi ≤ hi') && (!s.rb || jlast || decide (s.hi < hi'))) ||
   (decide (B ≤ hi') && (!mlast || jlast || decide (B < hi'))))

def groupFits (a : List Nat) (slices : List Slice) (lo' hi' : Nat) (jlast : Bool) (ks : List Nat) : Bool :=
  ks.all fun k =>
    match slices[k]? with
    | some s =>
      (match a[s.src]?, a[s.src + 1]? with
       | some A, some B => pieceFits A B (s.src + 2 == a.length) lo' hi' jlast s
       | _, _ => false)
    | none => false

def groupsFit (a : List Nat) (slices : List Slice) : List (Nat × Nat) → List (List Nat) → Bool
  | [], [] => true
  | (lo', hi') :: rest, ks :: more => groupFits a slices lo' hi' rest.isEmpty ks && groupsFit a slices rest more
  | _, _ => false

/-- the certificate: every piece is used exactly once and in order; the slices tile the old partitions;
    every piece fits the new partition it is assigned to -/
def layerOK (a b : List Nat) (L : DLayer) : Bool :=
  (L.out.flatten == List.range L.slices.length) && blocksOK (pairs a) 0 L.slices &&
  groupsFit a L.slices (pairs b) L.out

end Dask.Repart
