import DaskModel.Model.Join
/-
K9 (index joins, interleaved concat): the alignment step of `dask_expr/_merge.py::Merge._lower` (fully indexed merge) and
`dask_expr/_concat.py::Concat._lower` / `_divisions` with `interleave_partitions=True`.

Python                                                        Lean
------                                                        ----
`list(unique(merge_sorted(left.divisions, right.divisions)))` `unionDivs` (`mergeSorted`, `uniq`; a single value `d` becomes `(d, d)`)
`Repartition(side, new_divisions=divisions, force=True)`      the aligned partitions `Ls'`, `Rs'` — rows kept in order and truthful
                                                              for the union divisions (`Repart.layer_sound`, group lead's files)
`BlockwiseMerge(left, right)` on the aligned partitions       `alignedJoin` (partition `p` of one side with partition `p` of the other)
the interval of the common divisions that holds a key         `classOf` (number of interior divisions `≤ key`)
`concat(dfs, interleave_partitions=True)` with known          `interleave` (partition `p` = the `p`-th aligned partition of every
   divisions: `align_partitions` + per-interval concat         frame, in frame order)
Rows are `(key, id)` as in `Model/Join.lean`. Import-free.
-/
namespace Dask.Align
open Dask.Join

def mergeSorted : List Nat → List Nat → List Nat
  | [], ys => ys
  | xs, [] => xs
  | x :: xs, y :: ys => if x ≤ y then x :: mergeSorted xs (y :: ys) else y :: mergeSorted (x :: xs) ys
termination_by xs ys => xs.length + ys.length

/-- `toolz.unique` on a sorted sequence: drop repeats -/
def uniq : List Nat → List Nat
  | [] => []
  | [x] => [x]
  | x :: y :: rest => if x = y then uniq (y :: rest) else x :: uniq (y :: rest)

def unionDivs (a b : List Nat) : List Nat :=
  match uniq (mergeSorted a b) with
  | [d] => [d, d]
  | ds => ds

/-- the interval of `d` a key belongs to: the number of interior divisions `≤ key` -/
def classOf (d : List Nat) (k : Nat) : Nat := (((d.drop 1).dropLast).filter fun x => x ≤ k).length

/-- blockwise join of two frames with the SAME divisions -/
def alignedJoin (join : List Row → List Row → List Out) (Ls Rs : List (List Row)) : List (List Out) :=
  List.zipWith join Ls Rs

/-- `concat(frames, interleave_partitions=True)`: partition `p` stacks the `p`-th aligned partition of every frame -/
def interleave (n : Nat) (frames : List (List (List Row))) : List (List Row) :=
  frames.foldr (fun parts acc => List.zipWith (· ++ ·) parts acc) (List.replicate n [])

/-- `unique(merge_sorted(*[df.divisions for df in dfs]))` for any number of frames -/
def unionDivsAll (ds : List (List Nat)) : List Nat :=
  match uniq (ds.foldl mergeSorted []) with
  | [d] => [d, d]
  | r => r

end Dask.Align
