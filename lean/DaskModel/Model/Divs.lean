/-
K10 (part): division rules of the expression classes behind C41.

Python                                             Lean
------                                             ----
"known divisions describe the partitions"          `truthfulB` (executable), `Truthful` in Lemmas/Truthful
`indexing._partition_of_index_value`               `partitionOf` (`bisect_right - 1`, clamped)
`LocSlice.start/stop/istart/istop/_divisions`      `locSlice`
`LocSlice._layer` on the partitions                `locSliceParts`
`Partitions._divisions` / `_task`                  `partitionsDivs`, `partitionsParts`
`RepartitionToFewer._divisions`                    `toFewerDivs`
Import-free.
-/
namespace Dask.Divs

def sortedB : List Nat → Bool
  | a :: b :: rest => a ≤ b && sortedB (b :: rest)
  | _ => true

/-- executable form of the C41 predicate on index keys -/
def truthfulB (divs : List Nat) (parts : List (List Nat)) : Bool :=
  parts.length + 1 == divs.length && sortedB divs &&
  (List.range parts.length).all fun i =>
    match parts[i]?, divs[i]?, divs[i + 1]? with
    | some p, some lo, some hi => p.all fun k => lo ≤ k && (k < hi || (i + 1 == parts.length && k ≤ hi))
    | _, _, _ => false

/-- `bisect.bisect_right` on a sorted list: number of leading elements `≤ x` -/
def bisectRight (xs : List Nat) (x : Nat) : Nat := (xs.takeWhile (· ≤ x)).length

/-- `_partition_of_index_value(divisions, val)` -/
def partitionOf (divs : List Nat) (v : Nat) : Nat := min (divs.length - 2) (bisectRight divs v - 1)

structure LocPlan where
  start : Nat
  stop : Nat
  divisions : List Nat
  deriving Repr, DecidableEq

/-- `LocSlice.start/stop/istart/istop/_divisions` once the first and last division are known -/
def locSliceCore (divs : List Nat) (d0 dl : Nat) (a b : Option Nat) : Option LocPlan :=
  let start := match a with | some x => partitionOf divs x | none => 0
  let stop := match b with | some x => partitionOf divs x | none => divs.length - 2
  let istart := match a, b with
    | some x, _ => x
    | none, none => d0
    | none, some y => min d0 y
  let istop := match b, a with
    | some y, _ => y
    | none, none => dl
    | none, some x => max dl x
  if stop = start then some ⟨start, stop, [istart, istop]⟩ else
  let dstart := match a with
    | none => some d0
    | some _ => (divs[start]?).map (max istart)
  let dstop := match b with
    | none => some dl
    | some _ => (divs[stop + 1]?).map (min istop)
  -- `frame.divisions[start + 1 : stop + 1]` (empty when start > stop)
  match dstart, dstop with
  | some ds, some de => some ⟨start, stop, ds :: ((divs.drop (start + 1)).take (stop + 1 - (start + 1)) ++ [de])⟩
  | _, _ => none

/-- `LocSlice` on a frame with known divisions `divs` (≥ 2 entries) for `.loc[a:b]` (`none` = open end).
    `none` result = the Python code raises. -/
def locSlice (divs : List Nat) (a b : Option Nat) : Option LocPlan :=
  if divs.length < 2 then none else
  match divs.head?, divs.getLast? with
  | some d0, some dl => locSliceCore divs d0 dl a b
  | _, _ => none

/-- rows of one partition selected by `df.loc[a:b]` (both ends inclusive, `none` = open) -/
def locRows {α : Type} (key : α → Nat) (rows : List α) (a b : Option Nat) : List α :=
  rows.filter fun r => (match a with | some x => decide (x ≤ key r) | none => true) &&
                       (match b with | some y => decide (key r ≤ y) | none => true)

/-- `LocSlice._layer` evaluated on the partitions (for `start ≤ stop`) -/
def locSliceParts {α : Type} (key : α → Nat) (parts : List (List α)) (pl : LocPlan) (a b : Option Nat) :
    Option (List (List α)) := do
  if pl.stop = pl.start then
    let p ← parts[pl.start]?
    pure [locRows key p a b]
  else if pl.stop < pl.start then none
  else
    let first ← parts[pl.start]?
    let last ← parts[pl.stop]?
    let mid := (parts.drop (pl.start + 1)).take (pl.stop - pl.start - 1)
    pure (locRows key first a none :: (mid ++ [locRows key last none b]))

/-- `Partitions._divisions`; `none` = IndexError -/
def partitionsDivs (divs : List Nat) (sel : List Nat) : Option (List Nat) := do
  let lastSel ← sel.getLast?
  let ds ← sel.mapM fun p => divs[p]?
  let dl ← divs[lastSel + 1]?
  pure (ds ++ [dl])

def partitionsParts {α : Type} (parts : List (List α)) (sel : List Nat) : Option (List (List α)) :=
  sel.mapM fun p => parts[p]?

/-- `RepartitionToFewer._divisions` -/
def toFewerDivs (divs : List Nat) (bs : List Nat) : Option (List Nat) := bs.mapM fun i => divs[i]?

end Dask.Divs
