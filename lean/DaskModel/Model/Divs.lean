import DaskModel.Model.SDL
/-
K10 (part): division rules of the expression classes behind C41.

Python                                             Lean
------                                             ----
"known divisions describe the partitions"          `truthfulB` (executable), `Truthful` in Lemmas/Truthful
`indexing._partition_of_index_value`               `partitionOf` (`bisect_right - 1`, clamped)
`LocSlice.start/stop/istart/istop/_divisions`      `locSlice`
`LocSlice._layer` on the partitions                `locSliceParts`
`Partitions._divisions` / `_task`                  `partitionsDivs`, `partitionsParts`
`RepartitionToFewer._divisions`                    `toFewerDivs`
No Mathlib (imports Model/SDL for `bisectLeft`).
-/
namespace Dask.Divs

def sortedB : List Nat → Bool
  | a :: b :: rest => a ≤ b && sortedB (b :: rest)
  | _ => true

/-- executable form of the C41 predicate on index keys -/
def truthfulB (divs : List Nat) (parts : List (List Nat)) : Bool :=
  parts.length + 1 == divs.length && sortedB divs &&
  (List.range parts.length).all fun i =>
    match parts[i]?, divs[i]?, divs[i + 1]? with
    | some p, some lo, some hi => p.all fun k => lo ≤ k && (k < hi || (i + 1 == parts.length && k ≤ hi))
    | _, _, _ => false

/-- `bisect.bisect_right` on a sorted list: number of leading elements `≤ x` -/
def bisectRight (xs : List Nat) (x : Nat) : Nat := (xs.takeWhile (· ≤ x)).length

/-- `_partition_of_index_value(divisions, val)` -/
def partitionOf (divs : List Nat) (v : Nat) : Nat := min (divs.length - 2) (bisectRight divs v - 1)

structure LocPlan where
  start : Nat
  stop : Nat
  divisions : List Nat
  deriving Repr, DecidableEq

/-- `LocSlice.start`: partition of the left bound (`0` for an open start) -/
def locStart (divs : List Nat) : Option Nat → Nat
  | some x => partitionOf divs x
  | none => 0

/-- `LocSlice.stop`: partition of the right bound (the last partition for an open end) -/
def locStop (divs : List Nat) : Option Nat → Nat
  | some y => partitionOf divs y
  | none => divs.length - 2

/-- `LocSlice.istart` -/
def locIStart (d0 : Nat) : (a b : Option Nat) → Nat
  | some x, _ => x
  | none, none => d0
  | none, some y => min d0 y

/-- `LocSlice.istop` -/
def locIStop (dl : Nat) : (a b : Option Nat) → Nat
  | _, some y => y
  | none, none => dl
  | some x, none => max dl x

/-- first reported division when several partitions are touched -/
def locDStart (divs : List Nat) (d0 : Nat) (a b : Option Nat) : Option Nat :=
  match a with
  | none => some d0
  | some _ => (divs[locStart divs a]?).map (max (locIStart d0 a b))

/-- last reported division when several partitions are touched -/
def locDStop (divs : List Nat) (dl : Nat) (a b : Option Nat) : Option Nat :=
  match b with
  | none => some dl
  | some _ => (divs[locStop divs b + 1]?).map (min (locIStop dl a b))

/-- `LocSlice.start/stop/istart/istop/_divisions` once the first and last division are known -/
def locSliceCore (divs : List Nat) (d0 dl : Nat) (a b : Option Nat) : Option LocPlan :=
  let start := locStart divs a
  let stop := locStop divs b
  if stop = start then some ⟨start, stop, [locIStart d0 a b, locIStop dl a b]⟩ else
  -- `frame.divisions[start + 1 : stop + 1]` (empty when start > stop)
  match locDStart divs d0 a b, locDStop divs dl a b with
  | some ds, some de => some ⟨start, stop, ds :: ((divs.drop (start + 1)).take (stop + 1 - (start + 1)) ++ [de])⟩
  | _, _ => none

/-- `LocSlice` on a frame with known divisions `divs` (≥ 2 entries) for `.loc[a:b]` (`none` = open end).
    `none` result = the Python code raises. -/
def locSlice (divs : List Nat) (a b : Option Nat) : Option LocPlan :=
  if divs.length < 2 then none else
  match divs.head?, divs.getLast? with
  | some d0, some dl => locSliceCore divs d0 dl a b
  | _, _ => none

/-- rows of one partition selected by `df.loc[a:b]` (both ends inclusive, `none` = open) -/
def locRows {α : Type} (key : α → Nat) (rows : List α) (a b : Option Nat) : List α :=
  rows.filter fun r => (match a with | some x => decide (x ≤ key r) | none => true) &&
                       (match b with | some y => decide (key r ≤ y) | none => true)

/-- `LocSlice._layer` evaluated on the partitions (for `start ≤ stop`) -/
def locSliceParts {α : Type} (key : α → Nat) (parts : List (List α)) (pl : LocPlan) (a b : Option Nat) :
    Option (List (List α)) := do
  if pl.stop = pl.start then
    let p ← parts[pl.start]?
    pure [locRows key p a b]
  else if pl.stop < pl.start then none
  else
    let first ← parts[pl.start]?
    let last ← parts[pl.stop]?
    let mid := (parts.drop (pl.start + 1)).take (pl.stop - pl.start - 1)
    pure (locRows key first a none :: (mid ++ [locRows key last none b]))

/-- `Partitions._divisions`; `none` = IndexError -/
def partitionsDivs (divs : List Nat) (sel : List Nat) : Option (List Nat) := do
  let lastSel ← sel.getLast?
  let ds ← sel.mapM fun p => divs[p]?
  let dl ← divs[lastSel + 1]?
  pure (ds ++ [dl])

def partitionsParts {α : Type} (parts : List (List α)) (sel : List Nat) : Option (List (List α)) :=
  sel.mapM fun p => parts[p]?

/-- `FromPandasDivisions._divisions_and_locations` (`dd.repartition(pandas_frame, divisions)`) on the sorted index
    `keys`: the first position at or after each division value (`searchsorted(side="left")`; `get_indexer(bfill)` with
    `-1` read as "the end", after the fix 4f4a63b), the last location replaced by `len` -/
def pandasDivLocs (keys : List Nat) (b : List Nat) : List Nat :=
  (b.dropLast.map (Dask.SDL.bisectLeft keys)) ++ [keys.length]

/-- `Concat._divisions` for frames whose division ranges follow one another (`_monotonic_divisions`):
    drop the last division of every frame but the last -/
def concatMonoDivs (d1 d2 : List Nat) : List Nat := d1.dropLast ++ d2

/-- `Concat._monotonic_divisions` for two frames with known divisions -/
def concatMonotonic (d1 d2 : List Nat) : Bool :=
  match d1.getLast?, d2.head? with
  | some l, some f => decide (l < f)
  | _, _ => false

/-- `RepartitionToFewer._divisions` -/
def toFewerDivs (divs : List Nat) (bs : List Nat) : Option (List Nat) := bs.mapM fun i => divs[i]?

end Dask.Divs
