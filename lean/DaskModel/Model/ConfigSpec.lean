import DaskModel.Model.Config
/-
Specification-side functions for `update(old, new, priority="new-defaults", defaults=…)` (`dask/config.py`):
what the documented rule — "only if a value in `old` matches the current default, it will be updated with `new`" —
demands of the result at ONE nested path, written without reference to the loop of `update`
(`Model/Config.lean: updateGo`).  `Props/C17x.lean` proves that the loop meets it at any depth; the driver evaluates
it next to the real function (`cfg-nd-expect`).  No Mathlib.
-/
namespace Dask.Config

/-- `m.get(k)` for something that may or may not be a mapping (`None`, a scalar: no entries) -/
def dsub : Option Cfg → String → Option Cfg
  | some (.node dd), k => dget dd k
  | _, _ => none

/-- the value reached from `c` along the LITERAL path `p` (`none`: the walk leaves the tree) -/
def rawAtO : Option Cfg → List String → Option Cfg
  | c, [] => c
  | c, k :: ks => rawAtO (dsub c k) ks

/-- the path that `update` (and `get`) really walk in `old` for the key path `p` of `new`: each segment is replaced by
    `canonical_name(segment, mapping of old at that level)`; below a missing / non-mapping entry the walk continues in
    the `{}` that `update` puts there -/
def canonPath : List String → Dict → List String
  | [], _ => []
  | k :: ks, old => canonicalName k old :: canonPath ks (curOf old (canonicalName k old))

/-- what must be readable at `path` after `update(old, new, "new-defaults", defaults)` when `new` holds the scalar `c`
    there:  * nothing at that position of `old` (new key, or the walk crosses a scalar that a mapping of `new` replaces)
              → `c` is added;
            * `old` holds `ov` and `defaults` holds an equal value at the same (canonical) position → `c` replaces it;
            * otherwise (`defaults` silent there, or the user changed the value) → `ov` is kept. -/
def ndExpect (c : Int) (path : List String) (old : Dict) (dflt : Option Cfg) : Cfg :=
  match rawAtO (some (.node old)) (canonPath path old) with
  | none => .leaf c
  | some ov =>
    match rawAtO dflt (canonPath path old) with
    | some dv => if cfgBeq dv ov then .leaf c else ov
    | none => ov

/-- executable form of `Dask.C17.Indep` / `CleanD` (the hypothesis of the nested precedence theorems), so that the
    harness applies the theorem-level oracle exactly where the theorem's hypothesis holds (`cleanDB_sound`) -/
def indepB (a b : String) : Bool :=
  a != b && a != altName b && altName a != b && altName a != altName b

mutual
def cleanCB : Cfg → Bool
  | .leaf _ => true
  | .node d => cleanDB d
def cleanDB : Dict → Bool
  | [] => true
  | kv :: r => r.all (fun kv' => indepB kv.1 kv'.1) && cleanCB kv.2 && cleanDB r
end

end Dask.Config
