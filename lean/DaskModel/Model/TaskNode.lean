import DaskModel.Model.NormalForm
/-
K7 (identity part) `TaskNode`: task-spec nodes of dask/_task_spec.py, what they feed to `tokenize`,
their `==` / `hash`, and their evaluation `node(values)`.

Python (dask/_task_spec.py)                         Lean
---------------------------                         ----
a literal argument (not GraphNode / TaskRef)        `Node.lit v`
TaskRef(key)                                        `Node.ref key`
Alias(key, target)                                  `Node.alias key target`
DataNode(key, value)   (key is not part of ==)      `Node.data v`
Task(key, func, *args, **kwargs) (key not in ==)    `Node.task f args kwargs`  (func interned to a Nat)
List(*args) / Tuple(*args) / Set(*args)             `Node.cont kind args`
Dict(k1, v1, k2, v2, …)                             `Node.dict [(k1, v1), (k2, v2), …]`

Alias.__dask_tokenize__      (type name, key, target)
DataNode.__dask_tokenize__   (type name, tokenize(value))
Task._get_token              tokenize((type name, func, args, kwargs))
NestedContainer._element_tokens / Dict._element_tokens / __dask_tokenize__
                             (type name, klass, [tokenize(a) …])   sorted for Set,
                             (type name, klass, sorted(tokenize((k, v)) …)) for Dict
GraphNode.__eq__             same class and tokenize(self) == tokenize(other);  Alias.__eq__: key and target
Task.__hash__ / NestedContainer.__hash__            hash of the token

`nodeNF n` is `normalize_token(n)` as a Python value (`Val`), `tokenOf n = tokenize(n)`.
Import-free apart from the NormalForm model.
-/
namespace Dask.TaskNode
open Dask.NF

inductive Kind where
  | list | tuple | set
  deriving DecidableEq, Repr, Inhabited

def Kind.name : Kind → String
  | .list => "List" | .tuple => "Tuple" | .set => "Set"

/-- `repr(self.klass)` -/
def Kind.klass : Kind → String
  | .list => "<class 'list'>" | .tuple => "<class 'tuple'>" | .set => "<class 'set'>"

inductive Node where
  | lit (v : Val)
  | ref (key : Val)
  | alias (key target : Val)
  | data (v : Val)
  | task (f : Nat) (args : List Node) (kwargs : List (String × Node))
  | cont (k : Kind) (args : List Node)
  | dict (items : List (Node × Node))
  deriving Repr, Inhabited

/-- the normal form of one `(k, v)` item: `normalize_token((k, v)) = ("tuple", (N k, N v))` -/
def pairNF (k v : Val) : Val := .tuple [.str "tuple", .tuple [k, v]]

mutual
/-- `normalize_token(n)` -/
def nodeNF : Node → Val
  | .lit v => norm v
  | .ref key => .pickled "TaskRef" key
  | .alias k t => .tuple [.str "Alias", k, t]
  | .data v => .tuple [.str "DataNode", .digest (norm v)]
  | .task f args kws =>
    .digest (.tuple [.str "tuple", .tuple [.str "Task", .pickled "func" (.int f),
      .tuple [.str "tuple", .tuple (nodeNFL args)],
      .tuple [.str "dict", .tuple ((ssort (kwNF kws)).map Prod.snd)]]])
  | .cont k args =>
    .tuple [.str k.name, .atom k.klass,
      match k with
      | .set => .sortedTokens (tokensL args)
      | _ => .list (tokensL args)]
  | .dict items => .tuple [.str "Dict", .atom "<class 'dict'>", .sortedTokens (pairTokens items)]
def nodeNFL : List Node → List Val
  | [] => []
  | a :: as => nodeNF a :: nodeNFL as
/-- `[tokenize(a) for a in args]` -/
def tokensL : List Node → List Val
  | [] => []
  | a :: as => .digest (nodeNF a) :: tokensL as
/-- kwargs items with their sort key (keys are `str`) -/
def kwNF : List (String × Node) → List (SortKey × Val)
  | [] => []
  | (k, v) :: r => ((k, "str"), pairNF (.str k) (nodeNF v)) :: kwNF r
/-- `[tokenize((k, v)) for k, v in batched(args, 2)]` -/
def pairTokens : List (Node × Node) → List Val
  | [] => []
  | (k, v) :: r => .digest (pairNF (nodeNF k) (nodeNF v)) :: pairTokens r
end

/-- `tokenize(n)` -/
def tokenOf (n : Node) : Val := .digest (nodeNF n)

/-- the md5 pre-image of `tokenize(n)` (with digest placeholders) -/
def tokenPre (n : Node) : String := pyRepr (.tuple [nodeNF n])

/-- class of a graph node as compared by `type(value) is type(self)` -/
def className : Node → String
  | .lit _ => "<literal>" | .ref _ => "TaskRef" | .alias _ _ => "Alias" | .data _ => "DataNode"
  | .task _ _ _ => "Task" | .cont k _ => k.name | .dict _ => "Dict"

/-! ## evaluation `node(values)` over an abstract value algebra -/

structure Sem (V : Type) where
  lit : Val → V
  app : Nat → List V → List (String × V) → V
  mkList : List V → V
  mkTuple : List V → V
  mkSet : List V → V
  mkDict : List (V × V) → V

/-- keyword arguments reach the function as a dict; the model hands them over sorted by name
    (functions do not observe the order of keyword arguments) -/
def sortKw {V : Type} (kws : List (String × V)) : List (String × V) :=
  (ssort (kws.map (fun p => ((p.1, "str"), p)))).map Prod.snd

mutual
def eval {V : Type} (S : Sem V) (env : Val → V) : Node → V
  | .lit v => S.lit v
  | .ref k => env k
  | .alias _ t => env t
  | .data v => S.lit v
  | .task f args kws => S.app f (evalL S env args) (sortKw (evalKw S env kws))
  | .cont k args =>
    match k with
    | .list => S.mkList (evalL S env args)
    | .tuple => S.mkTuple (evalL S env args)
    | .set => S.mkSet (evalL S env args)
  | .dict items => S.mkDict (evalP S env items)
def evalL {V : Type} (S : Sem V) (env : Val → V) : List Node → List V
  | [] => []
  | a :: as => eval S env a :: evalL S env as
def evalKw {V : Type} (S : Sem V) (env : Val → V) : List (String × Node) → List (String × V)
  | [] => []
  | (k, v) :: r => (k, eval S env v) :: evalKw S env r
def evalP {V : Type} (S : Sem V) (env : Val → V) : List (Node × Node) → List (V × V)
  | [] => []
  | (k, v) :: r => (eval S env k, eval S env v) :: evalP S env r
end

/-! ## user values: literals never contain the token-only constructors -/

mutual
def isUser : Val → Bool
  | .digest _ => false
  | .sortedTokens _ => false
  | .pickled _ _ => false
  | .list xs => isUserL xs
  | .tuple xs => isUserL xs
  | .set xs => isUserL xs
  | .dict kvs => isUserP kvs
  | .arr0 item _ =>
    match item with   -- `x.item()` of a 0-d array is a Python scalar
    | .int _ | .bool _ | .float _ | .str _ | .bytes _ | .none => true
    | _ => false
  | _ => true
def isUserL : List Val → Bool
  | [] => true
  | x :: xs => isUser x && isUserL xs
def isUserP : List (Val × Val) → Bool
  | [] => true
  | (k, v) :: r => isUser k && isUser v && isUserP r
end

mutual
/-- every literal inside the node is a user value -/
def litsUser : Node → Bool
  | .lit v => isUser v
  | .ref _ => true
  | .alias _ _ => true
  | .data v => isUser v
  | .task _ args kws => litsUserL args && litsUserKw kws
  | .cont _ args => litsUserL args
  | .dict items => litsUserP items
def litsUserL : List Node → Bool
  | [] => true
  | a :: as => litsUser a && litsUserL as
def litsUserKw : List (String × Node) → Bool
  | [] => true
  | (_, v) :: r => litsUser v && litsUserKw r
def litsUserP : List (Node × Node) → Bool
  | [] => true
  | (k, v) :: r => litsUser k && litsUser v && litsUserP r
end

end Dask.TaskNode
