/-
C20 (extension round): indexing one axis with a 1-d dask array of integers —
`dask/array/slicing.py::slice_with_int_dask_array_on_axis` and its two chunk functions
`dask/array/chunk.py::slice_with_int_dask_array` / `slice_with_int_dask_array_aggregate`.

Python                                                                  Lean
------                                                                  ----
offset = np.roll(np.cumsum(x.chunks[axis]), 1); offset[0] = 0           `offsets lengths`
blockwise(chunk.slice_with_int_dask_array, p_axes, x, idx, offset)      one `chunkFn` call per (block of x, chunk of idx)
chunk.slice_with_int_dask_array(x, idx, offset, x_size, axis):
    idx = np.where(idx < 0, idx + x_size, idx)                          `norm x_size`
    idx = idx - offset                                                  `· - off`
    idx = idx[(idx >= 0) & (idx < x.shape[axis])]                       `filter`
    x[..., idx, ...]                                                    `chunkFn` = the in-block positions read, in order
blockwise(..._aggregate, y_axes, idx, p, concatenate=True)              `chunkOutputs` = the outputs of all blocks of x for one
                                                                        chunk of idx, concatenated along the axis (as GLOBAL positions:
                                                                        block (off, len) holds the global elements off … off+len-1)
chunk.slice_with_int_dask_array_aggregate(idx, chunk_outputs, x_chunks, axis):
    idx = np.where(idx < 0, idx + sum(x_chunks), idx)                   `norm`
    if ((idx < 0) | (idx >= x_size)).any(): raise IndexError            `outOfBounds` (bounds check added by this round's `fix:`)
    idx_final = np.zeros_like(idx)
    for x_chunk in x_chunks:                                            `aggLoop` (state: x_chunk_offset, chunk_output_offset, idx_final)
        idx_filter = (idx >= x_chunk_offset) & (idx < x_chunk_offset + x_chunk)     `inBlock`
        idx_cum = np.cumsum(idx_filter)                                 running `cum` of `stepGo`
        idx_final += np.where(idx_filter, idx_cum - 1 + chunk_output_offset, 0)     `stepGo` (element by element)
        x_chunk_offset += x_chunk
        if idx_cum.size > 0: chunk_output_offset += idx_cum[-1]         `lastCum`
    chunk_outputs[..., idx_final, ...]                                  `takeAll` (`pyGet`: NumPy integer indexing, negative wraps,
                                                                        out of range raises)
output chunks along the axis = idx.chunks (blockwise: the index label of idx)     `plan` returns one list per chunk of idx
Import-free (linked into the native driver).
-/
namespace Dask.IntDaskIndex

/-- `np.where(idx < 0, idx + x_size, idx)` -/
def norm (n : Nat) (v : Int) : Int := if v < 0 then v + n else v

/-- `np.roll(np.cumsum(chunks), 1)` with `offset[0] = 0`: the first global position of every block -/
def offsetsFrom : Nat → List Nat → List Nat
  | _, [] => []
  | acc, c :: cs => acc :: offsetsFrom (acc + c) cs

def offsets (lengths : List Nat) : List Nat := offsetsFrom 0 lengths

/-- the (offset, length) pairs blockwise hands to the chunk function, block after block -/
def blocksFrom (acc : Nat) (lengths : List Nat) : List (Nat × Nat) := (offsetsFrom acc lengths).zip lengths

/-- chunk function `slice_with_int_dask_array` on the block at offset `off` of length `len`: the in-block
    positions it reads, in order (`x_size` is passed separately by the caller) -/
def chunkFn (xsize off len : Nat) (idx : List Int) : List Int :=
  ((idx.map (norm xsize)).map (fun (v : Int) => v - (off : Int))).filter (fun v => decide (0 ≤ v ∧ v < (len : Int)))

/-- the same reads as global positions: in-block position `q` of the block at offset `off` is element `off + q` -/
def chunkGlobal (xsize off len : Nat) (idx : List Int) : List Int :=
  (chunkFn xsize off len idx).map (fun (q : Int) => q + (off : Int))

/-- `chunk_outputs` of the aggregation for one chunk of idx: all blocks of x, concatenated along the axis -/
def chunkOutputs (lengths : List Nat) (idx : List Int) : List Int :=
  (blocksFrom 0 lengths).flatMap (fun b => chunkGlobal lengths.sum b.1 b.2 idx)

/-- `(idx >= x_chunk_offset) & (idx < x_chunk_offset + x_chunk)` -/
def inBlock (xoff c : Nat) (v : Int) : Bool := decide ((xoff : Int) ≤ v ∧ v < (xoff : Int) + c)

/-- one pass `idx_final += np.where(idx_filter, np.cumsum(idx_filter) - 1 + chunk_output_offset, 0)`, element by
    element with the running cumulative sum `cum`; `idx_final` has the length of `idx` (`zeros_like`) -/
def stepGo (xoff c : Nat) (coff : Int) : Int → List Int → List Int → List Int
  | cum, v :: vs, f :: fs =>
    let cum' := cum + (if inBlock xoff c v then 1 else 0)
    (f + (if inBlock xoff c v then cum' - 1 + coff else 0)) :: stepGo xoff c coff cum' vs fs
  | _, _, _ => []

/-- `idx_cum[-1]` (the running sum after the last element; the start value for an empty idx, where the code skips
    the update) -/
def lastCum (xoff c : Nat) : Int → List Int → Int
  | cum, [] => cum
  | cum, v :: vs => lastCum xoff c (cum + (if inBlock xoff c v then 1 else 0)) vs

/-- the loop over `x_chunks`; state (`x_chunk_offset`, `chunk_output_offset`, `idx_final`) -/
def aggLoop (nidx : List Int) : List Nat → Nat → Int → List Int → List Int
  | [], _, _, fin => fin
  | c :: cs, xoff, coff, fin =>
    aggLoop nidx cs (xoff + c) (coff + lastCum xoff c 0 nidx) (stepGo xoff c coff 0 nidx fin)

/-- NumPy integer indexing of one axis: negative wraps once, out of range = IndexError (`none`) -/
def pyGet {α : Type} (l : List α) (i : Int) : Option α :=
  if 0 ≤ i then l[i.toNat]?
  else if -(l.length : Int) ≤ i then l[((l.length : Int) + i).toNat]?
  else none

/-- `chunk_outputs[idx_final]` -/
def takeAll {α : Type} (outs : List α) : List Int → Option (List α)
  | [] => some []
  | i :: is =>
    match pyGet outs i, takeAll outs is with
    | some a, some r => some (a :: r)
    | _, _ => none

/-- `((idx < 0) | (idx >= x_size)).any()` on the normalised indices -/
def outOfBounds (n : Nat) (nidx : List Int) : Bool := nidx.any (fun v => decide (v < 0) || decide (v ≥ (n : Int)))

/-- `slice_with_int_dask_array_aggregate(idx, chunk_outputs, x_chunks, axis)`; `none` = IndexError -/
def aggregate {α : Type} (lengths : List Nat) (idx : List Int) (outs : List α) : Option (List α) :=
  let nidx := idx.map (norm lengths.sum)
  if outOfBounds lengths.sum nidx then none
  else takeAll outs (aggLoop nidx lengths 0 0 (nidx.map fun _ => 0))

/-- the whole plan along the axis: for every chunk of idx (they are the output chunks) the global positions of x
    its elements are read from; `none` = the computation raises -/
def plan (lengths : List Nat) : List (List Int) → Option (List (List Int))
  | [] => some []
  | c :: cs =>
    match aggregate lengths c (chunkOutputs lengths c), plan lengths cs with
    | some a, some r => some (a :: r)
    | _, _ => none

end Dask.IntDaskIndex
