import DaskModel.DriverLib
import DaskModel.Model.ChunkPercentile
/-
Line-protocol handlers of the C32 extension round (NumPy's per-chunk percentile and the whole 1-d pipeline); appended to
the table of `Drivers/reduce.lean`.  Rationals are `(num den)` or ints.
-/
namespace Dask.ChunkPercentileIO
open Dask Dask.Percentile Dask.ChunkPercentile

def toRat? : SExp → Option Rat
  | .list [.int n, .int d] => if d > 0 then some (mkRat n d.toNat) else none
  | .int n => some (n : Rat)
  | _ => none
def toRats? (e : SExp) : Option (List Rat) := do (← e.toList?).mapM toRat?
def toRatss? (e : SExp) : Option (List (List Rat)) := do (← e.toList?).mapM toRats?
def ofRat (r : Rat) : SExp := .list [.int r.num, .int r.den]
def toMethod? : SExp → Option Method
  | .sym "linear" => some .linear | .sym "lower" => some .lower | .sym "higher" => some .higher
  | .sym "midpoint" => some .midpoint | .sym "nearest" => some .nearest | _ => none

/-- `(chunkpct method (q…) (data…))` ↦ `(n (value…))` = `_percentile(chunk, q, method)`; `(0 none)` for an empty chunk,
    `(raised)` for a percentile outside [0, 100] -/
def hChunkPct : Handler := handler fun args =>
  match args with
  | [m, q, a] => do
    let m ← toMethod? m
    let q ← toRats? q
    let a ← toRats? a
    if a.isEmpty then pure (.list [.int 0, .sym "none"])
    else if q.all inRange then
      pure (.list [.int a.length, .list ((chunkInput m q a).v.map ofRat)])
    else pure (.list [.sym "raised"])
  | _ => none

/-- `(pct1d method (q…) ((chunk data…)…) order)` ↦ `(ok (value…))` | `(raised)` | `(bad-order)`;
    `order` = `stable` or the argsort permutation of the concatenated per-chunk results of the non-empty chunks -/
def hPct1d : Handler := handler fun args =>
  match args with
  | [m, q, chunks, order] => do
    let order : Option (List Nat) ← match order with
      | .sym "stable" => some none
      | e => (e.toNats?).map some
    let m ← toMethod? m
    let q ← toRats? q
    let chunks ← toRatss? chunks
    match percentile1d order m q chunks with
    | some (some r) => pure (.list [.sym "ok", .list (r.map ofRat)])
    | some none => pure (.list [.sym "raised"])
    | none => pure (.list [.sym "bad-order"])
  | _ => none

def handlers : List (String × Handler) := [("chunkpct", hChunkPct), ("pct1d", hPct1d)]

end Dask.ChunkPercentileIO
