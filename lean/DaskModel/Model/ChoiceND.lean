/-!
# `choice` with an n-d `size`: the replace/chunks guard of `_choice_validate_params` (C28 extension)

Real code (dask/array/random.py)                            Model
`size` None → (), scalar → (size,)                         the harness passes the number of chunks per axis of
`chunks = normalize_chunks(chunks, size, ...)`               `normalize_chunks`' result: `nchunks`
`not replace and any(len(c) > 1 for c in chunks)`           `guardND` (`none` = NotImplementedError)
  (before the repair: `len(chunks[0]) > 1`)                 `guardOld` (first axis only; 0-d: IndexError)
`sizes = list(product(*chunks))` — one block per entry      `nblocks` = number of blocks = number of NumPy calls
Import-free.
-/
namespace Dask.ChoiceND

/-- number of blocks of an output with `ns[i]` chunks on axis `i` (`len(list(product(*chunks)))`) -/
def nblocks : List Nat → Nat
  | [] => 1
  | n :: r => n * nblocks r

/-- the guard of the repaired `_choice_validate_params`: `none` = NotImplementedError -/
def guardND (replace : Bool) (ns : List Nat) : Option (List Nat) :=
  if !replace && ns.any (fun n => decide (1 < n)) then none else some ns

inductive Old where
  | ok (ns : List Nat)
  | notImpl
  | indexError
  deriving Repr, DecidableEq

/-- the guard before the repair: `not replace and len(chunks[0]) > 1` -/
def guardOld (replace : Bool) (ns : List Nat) : Old :=
  if replace then .ok ns else
  match ns with
  | [] => .indexError
  | n :: _ => if 1 < n then .notImpl else .ok ns

end Dask.ChoiceND
