import DaskModel.Model.NormIndex
import DaskModel.Model.Store
/-
C20 (extension round): `dask/array/core.py::BlockView.__getitem__` — `x.blocks[index]` / `x.partitions[index]`.

Python                                                                         Lean
------                                                                         ----
if not isinstance(index, tuple): index = (index,)                              the caller passes the tuple
if sum(isinstance(ind, (np.ndarray, list)) for ind in index) > 1: ValueError   `tooManyLists`
if any(ind is None for ind in index): ValueError                               `index.any isNewaxis`
index = normalize_index(index, self._array.numblocks)                          `NormIndex.normalizeIndex numblocks index`
index = tuple(slice(k, k + 1) if isinstance(k, Number) else k for k in index)  `axisSel` (`.int k` ↦ the slice k:k+1)
new_keys = self._array._key_array[index]                                       `axisSel` per axis: NumPy indexing of one axis of the key
                                                                               grid by a slice (`pySliceIdx`) or the one integer list
chunks = tuple(tuple(np.array(c)[i].tolist()) for c, i in zip(chunks, index))  `selChunks`
Array(hlg, name, chunks, …): "Empty tuples are not allowed in chunks"          `none` when an axis selects no block
keys = product(*(range(len(c)) for c in chunks))                               `product (sels.map fun s => List.range s.length)`
graph = {(name,) + key: tuple(new_keys[key].tolist()) for key in keys}         `graph`: key ↦ `pick sels key` (element `key` of the
                                                                               outer-indexed key grid: coordinate a is `sels[a][key[a]]`)
Import-free of Mathlib (linked into the native driver).
-/
namespace Dask.BlockView
open Dask.Slice1D Dask.NormIndex Dask.Store

def isListLike : Entry → Bool
  | .lst _ => true
  | .mask _ => true
  | _ => false

/-- `sum(isinstance(ind, (np.ndarray, list)) for ind in index) > 1` -/
def tooManyLists (index : List Entry) : Bool := decide ((index.filter isListLike).length > 1)

/-- block numbers selected along one axis with `nb` blocks by one normalised entry, in selection order;
    `none` = NumPy raises (not reached after `normalize_index`: `axisSel_isSome`) -/
def axisSel (nb : Nat) : Entry → Option (List Int)
  | .int k => pySliceIdx nb ⟨some k, some (k + 1), none⟩
  | .sl s => pySliceIdx nb s
  | .lst l => if l.any (checkIntOOB nb) then none else some (l.map (posifyInt nb))
  | _ => none

def selAll : List Nat → List Entry → Option (List (List Int))
  | nb :: nbs, e :: es =>
    match axisSel nb e, selAll nbs es with
    | some s, some r => some (s :: r)
    | _, _ => none
  | [], [] => some []
  | _, _ => none

/-- `np.array(c)[i].tolist()` for the selection `sel` of axis chunks `c` -/
def selChunk (c : List Nat) : List Int → Option (List Nat)
  | [] => some []
  | v :: vs =>
    match (if 0 ≤ v then c[v.toNat]? else none), selChunk c vs with
    | some a, some r => some (a :: r)
    | _, _ => none

def selChunks : List (List Nat) → List (List Int) → Option (List (List Nat))
  | c :: cs, s :: ss =>
    match selChunk c s, selChunks cs ss with
    | some a, some r => some (a :: r)
    | _, _ => none
  | [], [] => some []
  | _, _ => none

def consOpt {α : Type} : Option α → Option (List α) → Option (List α)
  | some a, some r => some (a :: r)
  | _, _ => none

/-- `new_keys[key]`: the old block coordinates stored at `key` of the outer-indexed key grid -/
def pick : List (List Int) → List Nat → Option (List Int)
  | [], [] => some []
  | s :: ss, k :: ks => consOpt s[k]? (pick ss ks)
  | _, _ => none

structure Result where
  chunks : List (List Nat)
  /-- the graph in dict order: new block coordinates ↦ old block coordinates (`none` = the lookup would raise) -/
  graph : List (List Nat × Option (List Int))
  deriving Repr, DecidableEq

/-- `BlockView.__getitem__` on an array with chunks `chunks`; `none` = ValueError / IndexError -/
def blockView (chunks : List (List Nat)) (index : List Entry) : Option Result :=
  if tooManyLists index then none
  else if index.any isNewaxis then none
  else
    match normalizeIndex (chunks.map List.length) index with
    | none => none
    | some idx =>
      match selAll (chunks.map List.length) idx with
      | none => none
      | some sels =>
        match selChunks chunks sels with
        | none => none
        | some newChunks =>
          if newChunks.any List.isEmpty then none
          else
            some ⟨newChunks, (product (newChunks.map fun c => List.range c.length)).map fun key => (key, pick sels key)⟩

end Dask.BlockView
