import DaskModel.Model.BagReduce
import DaskModel.Model.TextBlocks
/-
`dask.bag.core`: the operations of C48 that are not plain per-partition maps.

Python                                              Lean
------                                              ----
Bag                                                 `List (List α)` (partitions); `den = flatten`
`itertools.accumulate(seq, binop[, initial=])`      `pyAccumulate`
`accumulate_part` / `Bag.accumulate`                `accumulatePart` / `accumulateB` (carry `Option α`; `none` = `no_default`:
                                                    nothing accumulated yet — the code after the repair)
`Bag.take(k, npartitions)` + `safe_take`            `takeB` (`none` = ValueError: more partitions requested than exist)
`repartition_npartitions` (fewer)                   `boundariesFewer` (`i * n // m`, the code after the repair),
`_repartition_from_boundaries`                      `fixBoundaries`, `fromBoundaries`
`repartition_npartitions` (more), `_split_partitions`, `split(seq, n)`   `nsplitsMore`, `splitWith` (theorems for ANY monotone cuts),
                                                    `splitCut`/`splitCuts`/`splitB`/`cutsOfBag` (the binary64 cut points `int(len/n * i)` exactly,
                                                    via `TextBlocks.round53` at scale 2^1074), `splitPartitions`
`repartition_size` (`_split_partitions` + `_repartition_from_boundaries(accumulate(chunk lengths))`)   `repartitionSizeB` (memory usages enter only
                                                    through `nsplits` and the chunk lengths of `iter_chunks`: inputs)
`from_sequence`                                     `fromSequenceSize`, `fromSequenceB`
`Bag.mean`, `Bag.var` (`var_chunk`, `var_aggregate`)   `meanB`, `varB` (exact integer moments; the final float formula is validated)
`Bag.product`, `concat`, `bag_zip`                  `productB`, `concatB`, `zipB`
`Bag.fold`, `_reduce`, `_reduce_or_initial`         `foldB`
`reduceby` per partition + merge                    `foldbyB` (association lists, first-occurrence key order); without `combine_initial`
                                                    (`merge_with(reduce(combine))`): `mergeWith`, `foldbyNoCIB`; without any initial: `reduceByNoInit`, `foldbyNoInitB`
`topk`, `frequencies`, `distinct`                   `topkB`, `frequenciesB`, `distinctB`
Import-free (linked into the native driver).
-/
namespace Dask.BagOps
open Dask.BagReduce Dask.TextBlocks

abbrev Bag (α : Type) := List (List α)
def den (b : Bag α) : List α := b.flatten

/-! ### per-partition maps -/
def mapB (f : α → β) (b : Bag α) : Bag β := b.map (List.map f)
def filterB (p : α → Bool) (b : Bag α) : Bag α := b.map (List.filter p)
def removeB (p : α → Bool) (b : Bag α) : Bag α := b.map (List.filter fun x => !p x)
def flattenB (b : Bag (List α)) : Bag α := b.map List.flatten
def mapPartitionsB (g : List α → List β) (b : Bag α) : Bag β := b.map g

/-- `Bag.join(other, on_self, on_other)`: per partition `toolz.join(on_other, other, on_self, part)` —
    for every element `x` of the partition, in order, the pairs `(y, x)` for the matching `y` of `other`
    in `other`'s order -/
def joinB (onSelf : α → Nat) (onOther : β → Nat) (other : List β) (b : Bag α) : Bag (β × α) :=
  b.map fun p => p.flatMap fun x => (other.filter fun y => onOther y == onSelf x).map fun y => (y, x)

/-- `starmap(f)` and `pluck(key)` are `map` with `f(*x)` / `x[key]` -/
def starmapB (f : α → β → γ) (b : Bag (α × β)) : Bag γ := mapB (fun xy => f xy.1 xy.2) b
def pluckB (get : α → β) (b : Bag α) : Bag β := mapB get b

/-! ### accumulate -/

def scanl (f : β → α → β) (a : β) : List α → List β
  | [] => [a]
  | x :: xs => a :: scanl f (f a x) xs

/-- `list(itertools.accumulate(seq, binop))` / `…(seq, binop, initial=a)` -/
def pyAccumulate (binop : α → α → α) (init : Option α) (seq : List α) : List α :=
  match init with
  | some a => scanl binop a seq
  | none => match seq with
    | [] => []
    | x :: xs => scanl binop x xs

/-- `accumulate_part(binop, seq, initial, is_first)` ↦ `(elements of the new partition, value carried on)` -/
def accumulatePart (binop : α → α → α) (carry : Option α) (isFirst : Bool) (seq : List α) : List α × Option α :=
  match carry with
  | none => let res := pyAccumulate binop none seq; (res, res.getLast?)
  | some a =>
    let res := scanl binop a seq
    (if isFirst then res else res.drop 1, res.getLast?)

def accumulateGo (binop : α → α → α) : Option α → Bool → List (List α) → List (List α)
  | _, _, [] => []
  | carry, isFirst, p :: ps =>
    let r := accumulatePart binop carry isFirst p
    r.1 :: accumulateGo binop r.2 false ps

/-- `Bag.accumulate(binop, initial)` -/
def accumulateB (binop : α → α → α) (init : Option α) (b : Bag α) : Bag α := accumulateGo binop init true b

/-! ### take -/

/-- `Bag.take(k, npartitions=n, compute=True)`; `n = none` is `npartitions=-1` -/
def takeB (k : Nat) (n : Option Nat) (b : Bag α) : Option (List α) :=
  let n' := n.getD b.length
  if b.length < n' then none
  else if 1 < n' then some (((b.take n').map (List.take k)).flatten.take k)
  else some ((b.headD []).take k)

/-! ### repartition -/

/-- `[i * n // m for i in range(m + 1)]` -/
def boundariesFewer (n m : Nat) : List Nat := (List.range (m + 1)).map fun i => i * n / m

/-- the two repairs `_repartition_from_boundaries` applies to its argument -/
def fixBoundaries (n : Nat) (bs : List Nat) : List Nat :=
  let bs1 := if 0 < bs.headD 0 then 0 :: bs else bs
  if bs1.getLastD 0 < n then bs1 ++ [n] else bs1

/-- new partition `i` = concatenation of the old partitions `bs[i] … bs[i+1]-1` -/
def fromBoundaries (b : Bag α) : List Nat → Bag α
  | lo :: hi :: rest => ((b.drop lo).take (hi - lo)).flatten :: fromBoundaries b (hi :: rest)
  | _ => []

/-- `nsplits = [div] * n; nsplits[-1] += mod` -/
def nsplitsMore (n m : Nat) : List Nat :=
  (List.replicate (n - 1) (m / n)) ++ [m / n + m % n]

/-- `split(seq, n)` with the cut points `c 0 … c (n-1)` (`c i = int(len(seq) / n * i)` in the code) -/
def splitWith (cuts : List Nat) (seq : List α) : List (List α) :=
  match cuts with
  | [] => []
  | [c] => [seq.drop c]
  | c :: c' :: rest => (seq.drop c).take (c' - c) :: splitWith (c' :: rest) seq

/-- `_split_partitions(bag, nsplits)`: partition `i` is kept when `nsplits[i] = 1`, else cut at `cuts i` -/
def splitPartitions (cuts : Nat → List Nat) (nsplits : List Nat) (b : Bag α) : Bag α :=
  ((b.zip nsplits).zipIdx.map fun pni => if pni.1.2 = 1 then [pni.1.1] else splitWith (cuts pni.2) pni.1.1).flatten

/-- `repartition_npartitions(bag, m)`; `cuts i` = cut points used for old partition `i` -/
def repartitionB (cuts : Nat → List Nat) (m : Nat) (b : Bag α) : Bag α :=
  if m = b.length then b
  else if m < b.length then fromBoundaries b (fixBoundaries b.length (boundariesFewer b.length m))
  else splitPartitions cuts (nsplitsMore b.length m) b

/-! ### product, concat, zip -/

def productB (a : Bag α) (b : Bag β) : Bag (α × β) :=
  a.flatMap fun p => b.map fun q => p.flatMap fun x => q.map fun y => (x, y)

def concatB (bs : List (Bag α)) : Bag α := bs.flatten

/-- `bag_zip`: `none` = the assertion on equal partition counts fails -/
def zipB (a : Bag α) (b : Bag β) : Option (Bag (α × β)) :=
  if a.length = b.length then some (List.zipWith List.zip a b) else none

/-! ### fold, foldby, topk, frequencies, distinct — as instances of `Bag.reduction` -/

/-- `functools.reduce(binop, seq)`; `none` = TypeError (empty sequence, no initial value) -/
def pyReduce (binop : α → α → α) : List α → Option α
  | [] => none
  | x :: xs => some (xs.foldl binop x)

/-- `Bag.fold(binop, combine, initial=init)`: per partition `reduce(binop, part, init)`, aggregate
    `_reduce_or_initial(combine, init, results)` (the code after the repair); outer `none` = no value -/
def foldB (binop : β → α → β) (combine : β → β → β) (init : β) (se : Nat) (b : Bag α) : Option β :=
  reduction (fun p => p.foldl binop init)
    (fun rs => match rs with | [] => init | r :: rest => rest.foldl combine r) se b

/-- aggregate of partial results that may be errors: an error propagates, else `reduce(combine, results)` -/
def optReduce (combine : α → α → α) (rs : List (Option α)) : Option α :=
  match rs.mapM id with
  | none => none
  | some vs => pyReduce combine vs

/-- `Bag.fold(binop, combine)` without initial: inner `none` = TypeError of `reduce` on an empty sequence -/
def foldNoInitB (binop combine : α → α → α) (se : Nat) (b : Bag α) : Option (Option α) :=
  reduction (fun p => pyReduce binop p) (optReduce combine) se b

/-- insert into an association list keeping first-occurrence order (Python dict update) -/
def alUpdate (k : Nat) (f : Option β → β) : List (Nat × β) → List (Nat × β)
  | [] => [(k, f none)]
  | (k', v) :: rest => if k' = k then (k', f (some v)) :: rest else (k', v) :: alUpdate k f rest

/-- `toolz.reduceby(key, binop, seq, init)` as `dict.items()` -/
def reduceBy (key : α → Nat) (binop : β → α → β) (init : β) (seq : List α) : List (Nat × β) :=
  seq.foldl (fun d x => alUpdate (key x) (fun o => binop (o.getD init) x) d) []

/-- merging the dicts of one group: `reduceby(0, combine2, concat(map(dictitems, dicts)), combine_initial)` -/
def mergeDicts (combine : β → β → β) (cinit : β) (ds : List (List (Nat × β))) : List (Nat × β) :=
  ds.flatten.foldl (fun d kv => alUpdate kv.1 (fun o => combine (o.getD cinit) kv.2) d) []

/-- `Bag.foldby(key, binop, initial, combine, combine_initial)` (no `empty_safe_*`: every partition
    contributes a possibly empty dict) -/
def foldbyB (key : α → Nat) (binop : β → α → β) (init : β) (combine : β → β → β) (cinit : β) (se : Nat)
    (b : Bag α) : Option (List (Nat × β)) :=
  plainTree (mergeDicts combine cinit) se (b.map fun p => reduceBy key binop init p)

/-- the update of a seeded fold: a key seen for the first time takes `seed x`, later `op old x` -/
def seedUpd {γ : Type} (op : β → γ → β) (seed : γ → β) (x : γ) (o : Option β) : β :=
  match o with
  | none => seed x
  | some a => op a x

/-- `merge_with(partial(reduce, combine), dicts)` as `dict.items()`: keys in order of first occurrence, the
    values of a key combined left to right, the first one seeding (`Bag.foldby` without `combine_initial`) -/
def mergeWith (combine : β → β → β) (ds : List (List (Nat × β))) : List (Nat × β) :=
  ds.flatten.foldl (fun d kv => alUpdate kv.1 (seedUpd (fun a (kv : Nat × β) => combine a kv.2) (·.2) kv) d) []

/-- `Bag.foldby(key, binop, initial, combine)` — no `combine_initial` -/
def foldbyNoCIB (key : α → Nat) (binop : β → α → β) (init : β) (combine : β → β → β) (se : Nat)
    (b : Bag α) : Option (List (Nat × β)) :=
  plainTree (mergeWith combine) se (b.map fun p => reduceBy key binop init p)

/-- `toolz.reduceby(key, binop, seq)` without initial value: the first element of a key seeds its total -/
def reduceByNoInit (key : α → Nat) (binop : α → α → α) (seq : List α) : List (Nat × α) :=
  seq.foldl (fun d x => alUpdate (key x) (seedUpd binop id x) d) []

/-- `Bag.foldby(key, binop)` / `Bag.foldby(key, binop, combine=combine)` — neither initial value -/
def foldbyNoInitB (key : α → Nat) (binop combine : α → α → α) (se : Nat) (b : Bag α) : Option (List (Nat × α)) :=
  plainTree (mergeWith combine) se (b.map fun p => reduceByNoInit key binop p)

/-- insertion into a list sorted descending -/
def insertDescNat (x : Int) : List Int → List Int
  | [] => [x]
  | y :: ys => if y < x then x :: y :: ys else y :: insertDescNat x ys

def sortDescInt (xs : List Int) : List Int := xs.foldr insertDescNat []

/-- `toolz.topk(k, seq)`: the `k` largest, descending -/
def topk (k : Nat) (xs : List Int) : List Int := (sortDescInt xs).take k

/-- `Bag.topk(k, split_every)` -/
def topkB (k se : Nat) (b : Bag Int) : Option (List Int) := reduction (topk k) (fun rs => topk k rs.flatten) se b

/-- `Bag.sum/count/max/min/any/all` -/
def sumB (se : Nat) (b : Bag Int) : Option Int := reduction (fun p => p.foldl (· + ·) 0) (fun rs => rs.foldl (· + ·) 0) se b
def countB (se : Nat) (b : Bag α) : Option Nat := reduction (fun p => p.length) (fun rs => rs.foldl (· + ·) 0) se b
/-- inner `none` = ValueError (`max()` of an empty sequence) -/
def maxB (se : Nat) (b : Bag Int) : Option (Option Int) :=
  reduction (fun p => pyReduce max p) (optReduce max) se b

def minB (se : Nat) (b : Bag Int) : Option (Option Int) :=
  reduction (fun p => pyReduce min p) (optReduce min) se b

/-- `Bag.any()` / `Bag.all()`: `reduction(any, any)` / `reduction(all, all)` -/
def anyB (se : Nat) (b : Bag Bool) : Option Bool := reduction (fun p => p.any id) (fun rs => rs.any id) se b
def allB (se : Nat) (b : Bag Bool) : Option Bool := reduction (fun p => p.all id) (fun rs => rs.all id) se b

/-- `frequencies` as `dict.items()` (first-occurrence order) -/
def frequencies (xs : List Nat) : List (Nat × Nat) := reduceBy id (fun c _ => c + 1) 0 xs
def mergeFrequencies (ds : List (List (Nat × Nat))) : List (Nat × Nat) :=
  match ds with
  | [] => []
  | [d] => d
  | d :: rest => rest.flatten.foldl (fun acc kv => alUpdate kv.1 (fun o => o.getD 0 + kv.2) acc) d
def frequenciesB (se : Nat) (b : Bag Nat) : Option (List (Nat × Nat)) := reduction frequencies mergeFrequencies se b

/-- `Bag.distinct()`: `toolz.unique` per partition, then over the concatenation -/
def distinctB (b : Bag Nat) : Option (List Nat) := reduction List.eraseDups (fun rs => rs.flatten.eraseDups) 8 b

/-! ### `split(seq, n)`: the float cut points `int(len(seq) / n * i)` exactly -/

/-- scale for the doubles of `split`: every double that occurs (`len/n ≥ 2^-100`, products with `i`) is a
    multiple of `2^-1074`; in these units all of them are `≥ 2^53`, so `round53` rounds to 53 significant bits -/
def T : Nat := 2 ^ 1074

/-- `int(len / n * i)` (CPython: `len / n` correctly rounded int/int division, `* i` a correctly rounded float
    product, `int` truncation) -/
def splitCut (len n i : Nat) : Nat := round53 (round53 (len * T) n * i) 1 / T

/-- the cut points `[int(part * i) for i in range(n)]` of `split(seq, n)` -/
def splitCuts (len n : Nat) : List Nat := (List.range n).map (splitCut len n)

/-- `split(seq, n)` -/
def splitB (n : Nat) (seq : List α) : List (List α) := splitWith (splitCuts seq.length n) seq

/-- the cut points `repartition_npartitions` uses for old partition `i` when going to `m` partitions -/
def cutsOfBag (b : Bag α) (m : Nat) (i : Nat) : List Nat :=
  splitCuts (b.getD i []).length ((nsplitsMore b.length m).getD i 1)

/-! ### `repartition(partition_size=…)`: `_split_partitions` with any `nsplits`, then `_repartition_from_boundaries`
    with the running sums of any chunk lengths (`iter_chunks` of the memory usages — an input) -/

def runningSums : Nat → List Nat → List Nat
  | _, [] => []
  | acc, c :: cs => (acc + c) :: runningSums (acc + c) cs

def repartitionSizeB (nsplits chunks : List Nat) (b : Bag α) : Bag α :=
  let b' := splitPartitions (fun i => splitCuts (b.getD i []).length (nsplits.getD i 1)) nsplits b
  fromBoundaries b' (fixBoundaries b'.length (runningSums 0 chunks))

/-! ### `from_sequence` -/

/-- `math.ceil(math.sqrt(n) / math.sqrt(100))`: the least `c` with `(10 c)² ≥ n` -/
def ceilSqrtDiv10 (n : Nat) : Nat := if n = 0 then 0 else Nat.sqrt (n - 1) / 10 + 1

/-- the partition size `from_sequence(seq, partition_size, npartitions)` uses (`n = len(seq)`); `none` = the call
    does not return a bag (`npartitions=0` without a size: TypeError) -/
def fromSequenceSize (n : Nat) (partitionSize npartitions : Option Nat) : Option Nat :=
  match partitionSize, npartitions with
  | some (ps + 1), _ => some (ps + 1)
  | some 0, some (np + 1) => some (if n ≤ 100 then (n + np) / (np + 1) else max 1 (n / (np + 1)))
  | none, some (np + 1) => some (if n ≤ 100 then (n + np) / (np + 1) else max 1 (n / (np + 1)))
  | none, none => some (if n ≤ 100 then 1 else max 1 (ceilSqrtDiv10 n))
  | _, _ => none

/-- `from_sequence`: `partition_all(size, seq)`, one empty partition for an empty sequence; `none`: no bag
    (no usable size, or `partition_all(0, non-empty)`) -/
def fromSequenceB (seq : List α) (partitionSize npartitions : Option Nat) : Option (Bag α) :=
  match fromSequenceSize seq.length partitionSize npartitions with
  | none => none
  | some size =>
    if seq.isEmpty then some [[]]
    else if size = 0 then none
    else some (partitionAll size seq)

/-! ### `mean`, `var`, `std`: the exact integer moments that reach the final float formula -/

def sumInt (l : List Int) : Int := l.foldl (· + ·) 0
def sumNat (l : List Nat) : Nat := l.foldl (· + ·) 0

/-- `Bag.mean()`: `reduction(mean_chunk, mean_aggregate, split_every=False)`; the value is
    `1.0 * total / count`. Inner `none` = the call raises (no element: ZeroDivisionError / ValueError). -/
def meanB (b : Bag Int) : Option (Option (Int × Nat)) :=
  (reduction (fun p => (sumInt p, p.length)) (fun rs => (sumInt (rs.map (·.1)), sumNat (rs.map (·.2)))) b.length b).map
    fun tc => if tc.2 = 0 then none else some tc

/-- `Bag.var(ddof)`: `(x2, x, n)` = sums of `var_chunk`'s `(squares, total, n)`; the value is
    `(x2/n - (x/n)**2) * n / (n - ddof)`. Inner `none` = raises (`n = 0` or `n = ddof`). -/
def varB (ddof : Nat) (b : Bag Int) : Option (Option (Int × Int × Nat)) :=
  (reduction (fun p => (sumInt (p.map fun x => x * x), sumInt p, p.length))
      (fun rs => (sumInt (rs.map (·.1)), sumInt (rs.map (·.2.1)), sumNat (rs.map (·.2.2)))) b.length b).map
    fun t => if t.2.2 = 0 ∨ t.2.2 = ddof then none else some t

end Dask.BagOps
