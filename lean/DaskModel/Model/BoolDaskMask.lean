import DaskModel.Model.Chunks
import DaskModel.Model.Elemwise
/-
C20 extension (last round): `slice_with_bool_dask_array(x, (mask,))` for a 1-d array and a 1-d dask boolean mask
(dask/array/slicing.py; the `len(index) == 1 and index[0].ndim == x.ndim` branch).  The real code
  * raises IndexError when the mask's length differs from the axis length,
  * `elemwise(getitem, x, mask)`: `unify_chunks` brings both to the common refinement `U` of their chunkings
    (`common_blockdim`, modelled in Model/Elemwise.lean), then one task `getitem(x_block, mask_block)` per block,
  * renames the blocks `(name, i)` in order; the lazy chunks are `(nan,) * len(U)`.
Mathlib-free.
-/
namespace Dask.BoolDaskMask
open Dask.Chunks Dask.Elemwise

/-- `operator.getitem(x_block, mask_block)` of NumPy for a 1-d block and a boolean block of the same length -/
def pick {α : Type} (xb : List α) (mb : List Bool) : List α :=
  (xb.zip mb).filterMap fun p => if p.2 then some p.1 else none

/-- the output blocks over an already unified chunking `U` -/
def maskPlan {α : Type} (U : List Nat) (x : List α) (m : List Bool) : List (List α) :=
  List.zipWith pick (splitBy U x) (splitBy U m)

/-- the whole helper: `none` = IndexError (length mismatch); otherwise the unified chunking and the output blocks.
    `common_blockdim` receives the SET of the two chunk tuples. -/
def maskBlocks {α : Type} (cs ms : List Nat) (x : List α) (m : List Bool) : Option (List Nat × List (List α)) :=
  if ms.sum ≠ cs.sum then none
  else match commonBlockdim [cs, ms].eraseDups with
    | none => none
    | some U => some (U, maskPlan U x m)

end Dask.BoolDaskMask
