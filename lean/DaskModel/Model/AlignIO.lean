import DaskModel.DriverLib
import DaskModel.Model.Align
/-! Driver handlers of the C39 alignment model (kept out of `Drivers/dfpart.lean`). Import-free of Mathlib. -/
namespace Dask.Align
open Dask Dask.Join

def rows? (e : SExp) : Option (List Row) := do
  (← e.toList?).mapM fun r => match r with
    | .list [k, v] => do pure (← k.toNat?, ← v.toNat?)
    | _ => none

def parts? (e : SExp) : Option (List (List Row)) := do (← e.toList?).mapM rows?

def ofOut' (o : Out) : SExp := .list [SExp.ofNat o.1, SExp.ofOptNat o.2.1, SExp.ofOptNat o.2.2]

def joinOf'? (how : String) : Option (List Row → List Row → List Out) :=
  match how with
  | "inner" => some inner | "left" => some left | "leftsemi" => some leftsemi
  | "outer" => some outer | "right" => some right | _ => none

/-- `(union-divs ((d…)…))` ↦ the common divisions of a fully indexed merge / an interleaved concat -/
def hUnionDivs : Handler := handler fun
  | [ds] => do
    let ds ← ds.toNatss?
    pure (SExp.ofNats (match ds with
      | [a, b] => unionDivs a b
      | _ => unionDivsAll ds))
  | _ => none

/-- `(class-of (d…) (keys…))` ↦ the interval index of every key -/
def hClassOf : Handler := handler fun
  | [d, ks] => do
    let d ← d.toNats?
    pure (SExp.ofNats ((← ks.toNats?).map (classOf d)))
  | _ => none

/-- `(aligned-join how (left partitions…) (right partitions…))` ↦ output rows `(key left? right?)` per partition -/
def hAlignedJoin : Handler := handler fun
  | [.sym how, l, r] => do
    pure (.list ((alignedJoin (← joinOf'? how) (← parts? l) (← parts? r)).map fun p => .list (p.map ofOut')))
  | _ => none

/-- `(interleave n (frames…))` ↦ row ids per output partition -/
def hInterleave : Handler := handler fun
  | [n, fs] => do
    let frames ← (← fs.toList?).mapM parts?
    pure (SExp.ofNatss ((interleave (← n.toNat?) frames).map (·.map (·.2))))
  | _ => none

def handlers : List (String × Handler) :=
  [("union-divs", hUnionDivs), ("class-of", hClassOf), ("aligned-join", hAlignedJoin), ("interleave", hInterleave)]

end Dask.Align
