import DaskModel.Model.Groupby
/-!
C38 extension: group keys that may be NaN (`groupby(..., dropna=…)`) for `nunique` and the cumulative family, the carry
tables of `GroupByCumulativeFinalizer._layer`, and idxmin/idxmax as a lexicographic (value, first position) extremum.
Everything is built on `Model/Groupby.lean` (keyed partial aggregates + key-wise merge). Import-free.

Python                                                       Lean
------                                                       ----
a group key, NaN possible                                    `Key = Option Nat` (`none` = NaN), `encK` (NaN ↦ 0, k ↦ k+1)
`df.groupby(by, dropna=d)`: which group a row is in          `gid d` (`none` = the row is in no group)
`NUnique.chunk` = `_nunique_df_chunk` (drop_duplicates +     `nuChunkD` (NaN-key rows are KEPT: no groupby, no dropna here)
   set_index)
`nunique_df_combine(…, dropna=d)`                            `nuCombineD d` (groupby(level, dropna=d): the NaN group leaves)
`nunique_df_aggregate(…, dropna=d)`                          `nuAggregateD d` (`none` = the group is not in the result)
`GroupByCumulative._lower`: `cum_raw` chunk with `**dropna`  `cumRawD op dRaw`
   `cum_last` = `_apply_chunk(M.last, **dropna)` on the      `cumLastD op dRaw dLast` (last non-NA `cum_raw` cell of every
      cum_raw column + `_by_*` key columns                      group `groupby(dropna=dLast)` sees) — two flags because the
                                                                two `**dropna` are two sites of the source
`_cum_agg_aligned(part, carried, by, …)`: reindex by the     `cumAlignedD` (look-up by the raw key, NaN included)
   raw key column
`GroupByCumulativeFinalizer._layer`                          `cumLoopD` / `cumDaskD`; tasks `(cum-last…, i)` = `cumCarryD`
idxmin/idxmax REPAIRED: partial `(value, position)`,         `opLex`, `numberFrom`, `idxRepaired`, `idxLabel`
   merge = lexicographic minimum (max: values negated)
-/
namespace Dask.GroupbyX
open Dask.Groupby

/-- a group key; `none` = NaN -/
abbrev Key := Option Nat

def encK : Key → Nat
  | none => 0
  | some k => k + 1

/-- the rows as `Model/Groupby` keys them (NaN = group 0) -/
def enc {V : Type} (rows : List (Key × V)) : List (Nat × V) := rows.map fun r => (encK r.1, r.2)

/-- the frame `groupby(..., dropna=d)` aggregates: with `d` the rows of the NaN key leave -/
def dropRows {V : Type} (d : Bool) (rows : List (Key × V)) : List (Key × V) :=
  if d then rows.filter fun r => r.1.isSome else rows

/-! ### nunique with NaN keys -/

/-- group 0 (NaN) under `dropna=True` -/
def dropped (d : Bool) (k : Nat) : Bool := d && k == 0

/-- `NUnique.chunk`: `drop_duplicates(subset=by + [name]).set_index(by)` — no groupby, NaN-key rows stay -/
def nuChunkD (rows : List (Key × Option Int)) : Nat → List (Option Int) := nuChunk (enc rows)

/-- `nunique_df_combine(dfs, levels, dropna=d)` -/
def nuCombineD (d : Bool) (ps : List (Nat → List (Option Int))) : Nat → List (Option Int) :=
  fun k => if dropped d k then [] else nuCombine ps k

/-- `nunique_df_aggregate(dfs, levels, name, dropna=d)`; `none` = the group is not in the result -/
def nuAggregateD (d : Bool) (ps : List (Nat → List (Option Int))) : Nat → Option Nat :=
  fun k => if dropped d k || (nuCombine ps k).isEmpty then none else some (nuAggregate ps k)

def nuniqueD (d : Bool) (se fuel : Nat) (parts : List (List (Key × Option Int))) : Nat → Option Nat :=
  treeReduce2 (nuCombineD d) (nuAggregateD d) se fuel (parts.map nuChunkD)

/-- specification: pandas `groupby(c, dropna=d).a.nunique()` on the whole frame -/
def nuniqueSpecD (d : Bool) (rows : List (Key × Option Int)) : Nat → Option Nat :=
  fun k => if (groupCells (enc (dropRows d rows)) k).isEmpty then none
    else some (nuniqueSpec (enc (dropRows d rows)) k)

/-! ### cumulative operations with NaN keys -/

/-- the group `groupby(..., dropna=d)` puts a row in (`none`: no group) -/
def gid (d : Bool) : Key → Option Nat
  | none => if d then none else some 0
  | some k => some (k + 1)

/-- the rows as `Groupby.cumGo` scans them: a row without a group behaves like an NA cell (NA out, no running value) -/
def prep (d : Bool) (rows : List (Key × Option Int)) : List (Nat × Option Int) :=
  rows.map fun r => match gid d r.1 with
    | none => (0, none)
    | some g => (g, r.2)

/-- `cum_raw`: `_apply_chunk(df, *by, chunk=M.cumsum, dropna=dRaw)` -/
def cumRawD (op : Int → Int → Int) (dRaw : Bool) (rows : List (Key × Option Int)) : List (Option Int) :=
  cumRaw op (prep dRaw rows)

/-- `cum_last`: `groupby(_by_*, dropna=dLast).last()` of the `cum_raw` column: the last non-NA cumulative cell of every group -/
def cumLastD (op : Int → Int → Int) (dRaw dLast : Bool) (rows : List (Key × Option Int)) : St := fun k =>
  (((rows.map fun r => gid dLast r.1).zip (cumRawD op dRaw rows)).filterMap
    fun gc => if gc.1 == some k then gc.2 else none).getLast?

/-- `_cum_agg_aligned(part, carried, by, columns, op, initial)`: `carried.reindex(<raw key column>, fill_value=initial)` -/
def cumAlignedD (op : Int → Int → Int) (e : Int) (dRaw : Bool) (rows : List (Key × Option Int)) (carried : St) :
    List (Option Int) :=
  List.zipWith (fun r c => c.map fun x => op x ((carried (encK r.1)).getD e)) rows (cumRawD op dRaw rows)

/-- `GroupByCumulativeFinalizer._layer` (see `Groupby.cumLoop`) -/
def cumLoopD (op : Int → Int → Int) (e : Int) (dRaw dLast : Bool) :
    Option St → List (List (Key × Option Int)) → List (List (Option Int))
  | _, [] => []
  | none, p :: ps => cumRawD op dRaw p :: cumLoopD op e dRaw dLast (some (cumLastD op dRaw dLast p)) ps
  | some c, p :: ps =>
    cumAlignedD op e dRaw p c :: cumLoopD op e dRaw dLast (some (cumFilled op e c (cumLastD op dRaw dLast p))) ps

def cumDaskD (op : Int → Int → Int) (e : Int) (dRaw dLast : Bool) (parts : List (List (Key × Option Int))) :
    List (List (Option Int)) :=
  cumLoopD op e dRaw dLast none parts

/-- the carry tables: task `(cum-last…, i)` for `i = 1 … npartitions − 1` is what partition `i` is aligned with -/
def cumCarryLoopD (op : Int → Int → Int) (e : Int) (dRaw dLast : Bool) :
    Option St → List (List (Key × Option Int)) → List St
  | _, [] => []
  | none, p :: ps => cumCarryLoopD op e dRaw dLast (some (cumLastD op dRaw dLast p)) ps
  | some c, p :: ps => c :: cumCarryLoopD op e dRaw dLast (some (cumFilled op e c (cumLastD op dRaw dLast p))) ps

def cumCarryD (op : Int → Int → Int) (e : Int) (dRaw dLast : Bool) (parts : List (List (Key × Option Int))) : List St :=
  cumCarryLoopD op e dRaw dLast none parts

/-- the same walk on `Model/Groupby` rows (used by the lemmas) -/
def carryLoop (op : Int → Int → Int) (e : Int) : Option St → List (List (Nat × Option Int)) → List St
  | _, [] => []
  | none, p :: ps => carryLoop op e (some (cumLast op p)) ps
  | some c, p :: ps => c :: carryLoop op e (some (cumFilled op e c (cumLast op p))) ps

/-! ### idxmin / idxmax repaired: lexicographic (value, position) minimum -/

/-- the partial of a group: `(value, position of the row in the frame)`; the smaller value wins, on equal values the
    smaller position (pandas: first occurrence). A total order: associative AND commutative. -/
def opLex (a b : Int × Nat) : Int × Nat := if b.1 < a.1 ∨ (b.1 = a.1 ∧ b.2 < a.2) then b else a

/-- a numbered row cell `(value or NA, position)` as a state; `sign = -1` turns the minimum into the maximum -/
def lexInj (sign : Int) (r : Option Int × Nat) : Option (Int × Nat) := r.1.map fun v => (sign * v, r.2)

/-- number the rows of the partitions by their position in the whole frame, from `n` -/
def numberFrom (n : Nat) : List (List (Nat × (Option Int × Int))) → List (List (Nat × (Option Int × Nat)))
  | [] => []
  | p :: ps => (p.zipIdx n).map (fun ri => (ri.1.1, (ri.1.2.1, ri.2))) :: numberFrom (n + p.length) ps

/-- the whole frame, numbered -/
def numbered (rows : List (Nat × (Option Int × Int))) : List (Nat × (Option Int × Nat)) :=
  rows.zipIdx.map fun ri => (ri.1.1, (ri.1.2.1, ri.2))

/-- chunk = (extreme value, its first position) of every group of the partition; tree of lexicographic merges -/
def idxRepaired (sign : Int) (k fuel : Nat) (parts : List (List (Nat × (Option Int × Int)))) : Nat → Option (Int × Nat) :=
  treeReduce opLex k fuel ((numberFrom 0 parts).map (chunk opLex (lexInj sign)))

/-- the index label of the row at a position -/
def idxLabel (rows : List (Nat × (Option Int × Int))) (s : Option (Int × Nat)) : Option Int :=
  s.bind fun vp => rows[vp.2]?.map fun r => r.2.2

end Dask.GroupbyX
