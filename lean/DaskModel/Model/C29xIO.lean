import DaskModel.DriverLib
import DaskModel.Model.NpyStack
/-
Line-protocol handlers of the C29 extension round (file plumbing of to_npy_stack / from_npy_stack); appended to the
table of `Drivers/slicing.lean`.
-/
namespace Dask.C29xIO
open Dask Dask.NpyStack

/-- `(npytasks axis ((c…)…))` ↦ `((i (key…)) …)`: the `np.save` tasks of `to_npy_stack` -/
def hNpyTasks : Handler := handler fun args =>
  match args with
  | [ax, cs] => do
    pure (.list ((toNpyTasks (← ax.toNat?) (← cs.toNatss?)).map fun t => .list [SExp.ofNat t.1, SExp.ofNats t.2]))
  | _ => none

/-- `(npyfrom axis ((c…)…))` (the content of `info`) ↦ `(raised)` | `(ok ((key…) i) …)`: the graph of `from_npy_stack` -/
def hNpyFrom : Handler := handler fun args =>
  match args with
  | [ax, cs] => do
    match fromNpyGraph ⟨← cs.toNatss?, ← ax.toNat?⟩ with
    | none => pure (.list [.sym "raised"])
    | some g => pure (.list (.sym "ok" :: g.map fun kv => .list [SExp.ofNats kv.1, SExp.ofNat kv.2]))
  | _ => none

/-- `(npyround axis ((c…)…) (stale…) (order…))` ↦ `(raised)` | `(ok ((key…) (loaded key…)|none|stale) …)` -/
def hNpyRound : Handler := handler fun args =>
  match args with
  | [ax, cs, stale, order] => do
    match roundTrip (← ax.toNat?) (← cs.toNatss?) (← stale.toNats?) (← order.toNats?) with
    | none => pure (.list [.sym "raised"])
    | some r => pure (.list (.sym "ok" :: r.map fun kv => .list [SExp.ofNats kv.1,
        match kv.2 with
        | none => .sym "none"
        | some [] => .sym "stale"
        | some k => SExp.ofNats k]))
  | _ => none

def handlers : List (String × Handler) :=
  [("npytasks", hNpyTasks), ("npyfrom", hNpyFrom), ("npyround", hNpyRound)]

end Dask.C29xIO
