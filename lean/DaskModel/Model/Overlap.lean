/-
K2 (dataframe part): `MapOverlap` / `CreateOverlappingPartitions` / `_combined_parts`
(`dask/dataframe/dask_expr/_expr.py`) and `overlap_chunk` (`dask/dataframe/rolling.py`) for INTEGER
`before` / `after`, transliterated; plus the row functions that dask pushes through it
(shift, diff, ffill/bfill(limit), rolling sum/count with min_periods and center).

Python                                            Lean
------                                            ----
partition (rows in order)                         `List α`
`M.tail(part, before)` (before > 0)               `lastN before part`
`M.head(part, after)`                             `part.take after`
`prevs[i]` / `nexts[i]` of `_layer`                `prevOf` / `nextOf`
`_combined_parts` (raises NotImplementedError)    `combinedParts` (`none` = raised)
`overlap_chunk` (`expansion`, `iloc[before:-after]`) `overlapChunk`
the lowered `MapOverlap`                          `mapOverlap`
a row function that looks ≤ b rows back and       `win b a g pre xs post`
   ≤ a rows ahead                                     (outputs for `xs` in the context `pre … post`)
Time-based (`timedelta`) windows are NOT modelled (validated at API level only).
Import-free (linked into the native driver).
-/
namespace Dask.Overlap

/-- `lst[-n:]` for `n > 0`, and `[]` for `n = 0` (pandas `tail(n)`). -/
def lastN (n : Nat) (l : List α) : List α := l.drop (l.length - n)

/-- entry `i` of the `prevs` list built by `CreateOverlappingPartitions._layer`:
    `None` when `before` is falsy or for partition 0, else `M.tail(parts[i-1], before)`.
    (`prevPart` = partition `i-1` if there is one) -/
def prevOf (before : Nat) (prevPart : Option (List α)) : Option (List α) :=
  if before = 0 then none else prevPart.map (lastN before)

/-- entry `i` of the `nexts` list: `None` when `after` is falsy or for the last partition, else
    `M.head(parts[i+1], after)`. (`rest` = the partitions after `i`) -/
def nextOf (after : Nat) (rest : List (List α)) : Option (List α) :=
  if after = 0 then none
  else match rest with
    | [] => none
    | n :: _ => some (n.take after)

/-- `len(part) if part is not None and len(part) > 0 else None` -/
def lenOrNone (o : Option (List α)) : Option Nat :=
  match o with
  | some l => if l.length > 0 then some l.length else none
  | none => none

/-- the size test of `_combined_parts` for one neighbour: `part.shape[0] != n` raises -/
def sizeOK (o : Option (List α)) (n : Nat) : Bool :=
  match o with
  | some p => p.length == n
  | none => true

/-- `_combined_parts(prev_part, current_part, next_part, before, after)` for integral before/after:
    `(combined, prev_part_length, next_part_length)`; `none` = NotImplementedError. -/
def combinedParts (before after : Nat) (prev : Option (List α)) (cur : List α) (next : Option (List α)) :
    Option (List α × Option Nat × Option Nat) :=
  if !sizeOK prev before || !sizeOK next after then none
  else some (prev.getD [] ++ cur ++ next.getD [], lenOrNone prev, lenOrNone next)

/-- `overlap_chunk(func, before, after, combined_output)` -/
def overlapChunk (func : List α → List β) (before after : Nat) (c : List α × Option Nat × Option Nat) : List β :=
  let (combined, prevLen, nextLen) := c
  let out := func combined
  -- `if prev_part_length is None: before = None`
  let before : Nat := match prevLen with | none => 0 | some _ => before
  let expansion : Nat := if combined.length != 0 then out.length / combined.length else 0
  let before := if before != 0 && expansion != 0 then before * expansion else before
  match nextLen with
  | none => out.drop before                      -- `out.iloc[before:]`
  | some _ =>
    let after := if after != 0 && expansion != 0 then after * expansion else after
    (out.take (out.length - after)).drop before  -- `out.iloc[before:-after]`, after > 0

/-- tasks `(name, i)` of the lowered `MapOverlap`, in order; `pp` = the previous partition. -/
def goOverlap (func : List α → List β) (before after : Nat) :
    Option (List α) → List (List α) → Option (List (List β))
  | _, [] => some []
  | pp, cur :: rest =>
    match combinedParts before after (prevOf before pp) cur (nextOf after rest),
          goOverlap func before after (some cur) rest with
    | some c, some r => some (overlapChunk func before after c :: r)
    | _, _ => none

/-- the lowered `MapOverlap`: per partition result, `none` when any partition raises. -/
def mapOverlap (func : List α → List β) (before after : Nat) (parts : List (List α)) : Option (List (List β)) :=
  goOverlap func before after none parts

/-- the partitioning is large enough for the overlap: every partition but the last has ≥ `before`
    rows (if `before > 0`), every partition but the first has ≥ `after` rows (if `after > 0`). -/
def sideOK (before after : Nat) : List (List α) → Bool
  | [] => true
  | [_] => true
  | p :: q :: rest =>
    (before == 0 || before ≤ p.length) && (after == 0 || after ≤ q.length) && sideOK before after (q :: rest)

/-! ## Windowed ("(b,a)-local") row functions -/

/-- outputs for the rows `xs`, when `pre` precedes them and `post` follows them; every output may
    look at the `b` preceding rows, the row itself and the `a` following rows. -/
def win (b a : Nat) (g : List α → α → List α → β) : List α → List α → List α → List β
  | _, [], _ => []
  | pre, x :: rest, post => g (lastN b pre) x ((rest ++ post).take a) :: win b a g (pre ++ [x]) rest post

/-- the function on a whole block (this is what pandas computes on the unpartitioned frame, and
    what dask calls on each extended partition) -/
def winFn (b a : Nat) (g : List α → α → List α → β) (xs : List α) : List β := win b a g [] xs []

/-! ### instances (cells are `Option Int`, `none` = NaN) -/
abbrev Cell := Option Int

/-- `shift(p)`, p > 0: value `p` rows back -/
def gShiftBack (p : Nat) (pre : List Cell) (_ : Cell) (_ : List Cell) : Cell :=
  if pre.length < p then none else (pre[pre.length - p]?).getD none

/-- `shift(-p)`, p > 0: value `p` rows ahead -/
def gShiftFwd (p : Nat) (_ : List Cell) (_ : Cell) (post : List Cell) : Cell :=
  (post[p - 1]?).getD none

def cellSub : Cell → Cell → Cell
  | some a, some b => some (a - b)
  | _, _ => none

/-- `diff(p)` -/
def gDiffBack (p : Nat) (pre : List Cell) (x : Cell) (post : List Cell) : Cell := cellSub x (gShiftBack p pre x post)
def gDiffFwd (p : Nat) (pre : List Cell) (x : Cell) (post : List Cell) : Cell := cellSub x (gShiftFwd p pre x post)

/-- nearest valid value among the first `limit` cells of `l` -/
def firstValidWithin : Nat → List Cell → Cell
  | 0, _ => none
  | _, [] => none
  | n + 1, c :: rest => match c with | some v => some v | none => firstValidWithin n rest

/-- `ffill(limit=L)` -/
def gFfill (limit : Nat) (pre : List Cell) (x : Cell) (_ : List Cell) : Cell :=
  match x with
  | some v => some v
  | none => firstValidWithin limit pre.reverse

/-- `bfill(limit=L)` -/
def gBfill (limit : Nat) (_ : List Cell) (x : Cell) (post : List Cell) : Cell :=
  match x with
  | some v => some v
  | none => firstValidWithin limit post

def validVals (l : List Cell) : List Int := l.filterMap id

/-- `rolling(w, min_periods=m).sum()` on the window `pre ++ [x] ++ post` (already cut to size) -/
def gRollSum (m : Nat) (pre : List Cell) (x : Cell) (post : List Cell) : Cell :=
  -- pandas: a window that is cut off at the edges of the WHOLE frame is simply shorter
  let vals := validVals (pre ++ [x] ++ post)
  if vals.length < m then none else some (vals.foldl (· + ·) 0)

/-- `rolling(w, min_periods=m).count()`: for `count` pandas applies `min_periods` to the number of
    ROWS in the (edge-truncated) window, NaN rows included -/
def gRollCount (m : Nat) (pre : List Cell) (x : Cell) (post : List Cell) : Cell :=
  let window := pre ++ [x] ++ post
  if window.length < m then none else some (validVals window).length

/-- `rolling(w, min_periods=m).max()` -/
def gRollMax (m : Nat) (pre : List Cell) (x : Cell) (post : List Cell) : Cell :=
  let vals := validVals (pre ++ [x] ++ post)
  if vals.length < m then none
  else match vals with
    | [] => none
    | v :: vs => some (vs.foldl (fun a b => if a < b then b else a) v)

end Dask.Overlap

namespace Dask.Overlap

/-! ## how dask chooses `before` / `after` (`Shift`, `Diff`, `FFill`, `BFill`, `RollingReduction._lower`) -/

/-- `Shift.before/after`, `Diff.before/after`: `max(0, periods)`, `0 if periods > 0 else -periods` -/
def shiftBeforeAfter (periods : Int) : Nat × Nat :=
  ((max 0 periods).toNat, if periods > 0 then 0 else (-periods).toNat)

/-- `FFill.before/after` (`limit = none` ⇒ 1) and `BFill` (swapped) -/
def ffillBeforeAfter (limit : Option Nat) : Nat × Nat := (limit.getD 1, 0)
def bfillBeforeAfter (limit : Option Nat) : Nat × Nat := (0, limit.getD 1)

/-- `RollingReduction._lower` for an integer window: `center` ⇒ `(w // 2, w - w // 2 - 1)`, else `(w - 1, 0)` -/
def rollingBeforeAfter (window : Nat) (center : Bool) : Nat × Nat :=
  if center then (window / 2, window - window / 2 - 1) else (window - 1, 0)

/-- `RollingReduction._is_blockwise_op` (axis 0): window ≤ 1 or a single partition -/
def rollingIsBlockwise (window : Nat) (npartitions : Nat) : Bool := window ≤ 1 || npartitions == 1

end Dask.Overlap

namespace Dask.Overlap

/-! ## `ffill()` / `bfill()` without limit: `FillnaCheck` + `FFill(before=1)` / `BFill(after=1)` -/

/-- pandas `Series.ffill()` on one block, with a carried last valid value -/
def ffillAll : Cell → List Cell → List Cell
  | _, [] => []
  | carry, c :: rest =>
    match c with
    | some v => some v :: ffillAll (some v) rest
    | none => carry :: ffillAll carry rest

/-- pandas `Series.bfill()` on one block -/
def bfillAll (xs : List Cell) : List Cell := (ffillAll none xs.reverse).reverse

/-- `methods.fillna_check(df, method, check)` for one column: `none` = ValueError("All NaN partition …") -/
def fillnaCheck (fill : List Cell → List Cell) (check : Bool) (p : List Cell) : Option (List Cell) :=
  let out := fill p
  if check && out.all Option.isNone then none else some out

/-- `FillnaCheck` over all partitions: partition `skip` is not checked -/
def fillnaCheckAll (fill : List Cell → List Cell) (skip : Nat) : Nat → List (List Cell) → Option (List (List Cell))
  | _, [] => some []
  | i, p :: ps =>
    match fillnaCheck fill (i != skip) p, fillnaCheckAll fill skip (i + 1) ps with
    | some o, some os => some (o :: os)
    | _, _ => none

/-- `Series.ffill()` (limit=None) as dask lowers it -/
def daskFfillUnlimited (parts : List (List Cell)) : Option (List (List Cell)) :=
  match fillnaCheckAll (ffillAll none) 0 0 parts with
  | none => none
  | some ps => mapOverlap (ffillAll none) 1 0 ps

/-- `Series.bfill()` (limit=None) as dask lowers it -/
def daskBfillUnlimited (parts : List (List Cell)) : Option (List (List Cell)) :=
  match fillnaCheckAll bfillAll (parts.length - 1) 0 parts with
  | none => none
  | some ps => mapOverlap bfillAll 0 1 ps

end Dask.Overlap
