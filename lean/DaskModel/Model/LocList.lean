import DaskModel.Model.Divs
/-
C41 extension: `.loc[[labels]]` (`LocList`) and `.loc[scalar]` (`LocElement`) of
dask/dataframe/dask_expr/_indexing.py, on frames with known divisions.

Python                                                        Lean
------                                                        ----
`indexing._partitions_of_index_values` (the loop)             `addLabel`, `routeLoop`
`sorted(_partitions_of_index_values(...).items())`            `routeItems` (closed form; `= routeLoop`: `routeLoop_eq_routeItems`)
`LocList._layer_information` divisions                        `locListDivs`
`methods.loc(partition, [labels], cindexer)` = `df.loc[[..]]` `pandasLocList`
`LocList._layer_information` tasks evaluated                  `locListParts`
`LocList._lower` (selection handed to `Partitions`)           `locListLowerSel`, `locListLowered`
`LocIndexer._loc_element` + `LocElement._divisions/_layer`    `locElement`, `locElementParts`
`LocElement._lower`                                           `locElementLowerSel`
No Mathlib.  Index labels are non-negative ints compared through `<`, `≤`, `==` only.
-/
namespace Dask.LocList
open Dask.Divs

/-- `results[div].append(val)` with the dict kept as an association list ordered by partition number
    (the code only ever looks at `sorted(parts.items())` / `sorted(parts.keys())`; the keys of a dict are unique, so
    that sort never compares the label lists) -/
def addLabel (p v : Nat) : List (Nat × List Nat) → List (Nat × List Nat)
  | [] => [(p, [v])]
  | (q, ls) :: rest =>
    if p < q then (p, [v]) :: (q, ls) :: rest
    else if p = q then (q, ls ++ [v]) :: rest
    else (q, ls) :: addLabel p v rest

/-- the loop of `_partitions_of_index_values`: `for val in values: results[partition_of(val)].append(val)` -/
def routeLoop (divs : List Nat) (labels : List Nat) : List (Nat × List Nat) :=
  labels.foldl (fun acc v => addLabel (partitionOf divs v) v acc) []

/-- `sorted(_partitions_of_index_values(divisions, values).items())` in closed form: for every partition number in
    increasing order the labels routed to it in their order of appearance (duplicates kept); partitions without a
    label do not occur -/
def routeItems (divs : List Nat) (labels : List Nat) : List (Nat × List Nat) :=
  ((List.range (divs.length - 1)).map fun p => (p, labels.filter fun v => partitionOf divs v == p)).filter
    fun e => !e.2.isEmpty

/-- the routing table label ↦ partition read off the items -/
def routeTable (items : List (Nat × List Nat)) : List (Nat × Nat) :=
  items.flatMap fun e => e.2.map fun v => (v, e.1)

/-- every entry answered, or `none` -/
def allSome {β : Type} : List (Option β) → Option (List β)
  | [] => some []
  | none :: _ => none
  | some a :: rest => (allSome rest).map (a :: ·)

/-- `LocList._layer_information`, the divisions: `sorted(indexer)[0]` of every item, then `sorted(last indexer)[-1]`.
    `none` = the `len(iindexer) == 0` branch (`[None, None]`: unknown divisions, nothing to describe) -/
def locListDivs (items : List (Nat × List Nat)) : Option (List Nat) :=
  match items.getLast? with
  | none => none
  | some last =>
    match allSome (items.map fun e => e.2.min?), last.2.max? with
    | some mins, some mx => some (mins ++ [mx])
    | _, _ => none

/-- `df.loc[[labels]]` on one pandas partition: KeyError (`none`) when a label is not in the index; otherwise for
    every label in the order given (duplicates repeat) all the rows with that index value, in positional order -/
def pandasLocList {α : Type} (key : α → Nat) (rows : List α) (labels : List Nat) : Option (List α) :=
  if labels.all (fun l => rows.any fun r => key r == l) then
    some (labels.flatMap fun l => rows.filter fun r => key r == l)
  else none

/-- the tasks of `LocList._layer_information` evaluated: output partition `i` = `methods.loc` of input partition
    `items[i].1` with the labels `items[i].2`; `none` = a task raises -/
def locListParts {α : Type} (key : α → Nat) (parts : List (List α)) (items : List (Nat × List Nat)) :
    Option (List (List α)) :=
  allSome (items.map fun e => (parts[e.1]?).bind fun rows => pandasLocList key rows e.2)

/-- `LocList._lower`: the partitions handed to `Partitions(frame, parts)`; `none` = no lowering
    (all partitions are used) -/
def locListLowerSel (npartitions : Nat) (items : List (Nat × List Nat)) : Option (List Nat) :=
  let sel := items.map (·.1)
  let sel := if sel.isEmpty then [0] else sel
  if npartitions = sel.length then none else some sel

/-- the lowered expression `LocList(Partitions(frame, sel), labels)`: its frame's divisions
    (`Partitions._divisions`) and the items routed by THOSE divisions; `none` = not lowered / `Partitions` raises -/
def locListLowered (divs : List Nat) (labels : List Nat) : Option (List Nat × List Nat × List (Nat × List Nat)) := do
  let sel ← locListLowerSel (divs.length - 1) (routeItems divs labels)
  let d' ← partitionsDivs divs sel
  pure (sel, d', routeItems d' labels)

/-- `LocIndexer._loc_element` (KeyError outside `[divisions[0], divisions[-1]]`) and `LocElement`: the partition
    chosen by `_partition_of_index_value` and the divisions `(x, x)` -/
def locElement (divs : List Nat) (x : Nat) : Option (Nat × List Nat) :=
  match divs.head?, divs.getLast? with
  | some d0, some dl => if x < d0 ∨ dl < x then none else some (partitionOf divs x, [x, x])
  | _, _ => none

/-- `LocElement._layer` evaluated: `methods.loc(partition, slice(x, x), cindexer)` -/
def locElementParts {α : Type} (key : α → Nat) (parts : List (List α)) (part x : Nat) : Option (List (List α)) :=
  (parts[part]?).map fun rows => [locRows key rows (some x) (some x)]

/-- `LocElement._lower`: `Partitions(frame, [part])` unless the frame has a single partition -/
def locElementLowerSel (divs : List Nat) (x : Nat) : Option (List Nat) :=
  if divs.length - 1 = 1 then none else some [partitionOf divs x]

end Dask.LocList
