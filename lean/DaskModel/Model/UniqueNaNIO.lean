import DaskModel.DriverLib
import DaskModel.Model.UniqueNaN
/-
Line-protocol handlers of the C27 extension (unique on float data with NaN); appended to the table of
`Drivers/chunks.lean`.  A float is an int `>= 0` (interned number) or `-1` (NaN).
-/
namespace Dask.UniqueNaNIO
open Dask Dask.Counting Dask.UniqueNaN

def toFV (i : Int) : FV := if i < 0 then none else some i.toNat
def ofFV : FV → Int
  | none => -1
  | some n => (n : Int)

def encRowsF (rs : List FRow) : SExp :=
  .list (rs.map (fun r => SExp.ofInts [ofFV r.value, (r.index : Int), (r.count : Int)]))

/-- `(unique_nan_internal ((v i c)…))` ↦ rows of `_unique_internal` -/
def hInternal : Handler := handler fun args =>
  match args with
  | [rows] => do
    let rows ← rows.toIntss?
    let rows ← rows.mapM (fun r => match r with | [v, i, c] => some (FRow.mk (toFV v) i.toNat c.toNat) | _ => none)
    pure (encRowsF (uniqueInternalF rows))
  | _ => none

/-- `(unique_nan ((block…)…))` ↦ `(chunked whole numpy)`: per chunk + merge, `_unique_internal` on the whole array,
    NumPy's terms (`np.unique` values with first index and multiplicity) -/
def hUnique : Handler := handler fun args =>
  match args with
  | [bs] => do
    let bs ← bs.toIntss?
    let bs := bs.map (·.map toFV)
    let xs := bs.flatten
    pure (.list [encRowsF (uniqueChunkedF bs), encRowsF (uniqueSpecF xs),
                 encRowsF ((npUnique xs).map (fun v => ⟨v, xs.idxOf v, xs.count v⟩))])
  | _ => none

/-- `(unique_nan_inverse (xs…))` ↦ the inverse mapping computed with the `matches` formula -/
def hInverse : Handler := handler fun args =>
  match args with
  | [xs] => do
    let xs := (← xs.toInts?).map toFV
    pure (SExp.ofNats (xs.map (inverseOfF (npUnique xs))))
  | _ => none

def handlers : List (String × Handler) :=
  [("unique_nan_internal", hInternal), ("unique_nan", hUnique), ("unique_nan_inverse", hInverse)]

end Dask.UniqueNaNIO
