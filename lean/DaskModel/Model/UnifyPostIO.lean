import DaskModel.DriverLib
import DaskModel.Model.UnifyPost
/-! Driver handler for `Model/UnifyPost.lean` (C25 extension); appended to the table of `Drivers/hlg.lean`. -/
namespace Dask.UnifyPostIO
open Dask Dask.Elemwise Dask.Meta Dask.UnifyPost

def toUArg? : SExp → Option UArg
  | .list [ind, chunks] => do pure { ind := ← ind.toNats?, chunks := ← chunks.toNatss? }
  | _ => none

/-- `(unifypost (((ind…) ((chunks…)…))…))` ↦ `(argOK bcastOK (syms…) post per-symbol)` where `post` is `none`
    (`unify_chunks` raises) | `true` | `false`, and per-symbol is `((s (common…) ((new…)…))…)` : the hypotheses and the
    conclusion of `unify_post`, evaluated on the model's own `unifyChunks` -/
def hUnifyPost : Handler := handler fun a => match a with
  | [args] => do
    let args ← (← args.toList?).mapM toUArg?
    let post := match postOK args with
      | none => SExp.sym "none"
      | some b => SExp.ofBool b
    let per := match unifyChunks args with
      | none => []
      | some r => (syms args).map fun s =>
          SExp.list [SExp.ofNat s, SExp.ofNats ((lookupSym r.1 s).getD []), SExp.ofNatss (newsOf args r.2 s)]
    pure (.list [SExp.ofBool (args.all argOK), SExp.ofBool (bcastOK args), SExp.ofNats (syms args), post, .list per])
  | _ => none

def handlers : List (String × Handler) := [("unifypost", hUnifyPost)]

end Dask.UnifyPostIO
