import DaskModel.Model.CountingSelect
/-
`ravel_multi_index` / `unravel_index` (C and F order, modes raise / wrap / clip) and `argwhere` / `nonzero` /
`flatnonzero` as functions of them (C27, dask/array/routines.py).

Python                                                              Lean
------                                                              ----
index_stack.map_blocks(np.ravel_multi_index, drop_axis=0, dims=…,
                       mode=…, order=…)                              `ravelMulti` per column, `daRavelMulti`
indices.map_blocks(_unravel_index_kernel, new_axis=0, shape=…,
                   order=…)                                          `unravel`, `daUnravel`
argwhere(a): nz = isnonzero(a).flatten(); ind = indices(a.shape) with
  every coordinate raveled and stacked; compress(nz, ind, axis=0)    `allIndices`, `argwhere`
flatnonzero(a) = argwhere(a.ravel())[:, 0]                            `flatnonzero`
nonzero(a) = the columns of argwhere(a)                               `nonzeroCol`
Import-free (linked into the native driver).
-/
namespace Dask.Counting
open Dask.Chunks

def prod (ds : List Nat) : Nat := ds.foldr (· * ·) 1

/-! ### unravel_index -/

/-- C order: the first coordinate varies slowest -/
def unravelC : List Nat → Nat → List Nat
  | [], _ => []
  | _ :: ds, i => (i / prod ds) :: unravelC ds (i % prod ds)

inductive Order where | C | F
  deriving DecidableEq, Repr

/-- `np.unravel_index(i, shape, order)`; `none` = ValueError (index out of bounds for the shape) -/
def unravel (order : Order) (shape : List Nat) (i : Nat) : Option (List Nat) :=
  if prod shape ≤ i then none else
  match order with
  | .C => some (unravelC shape i)
  | .F => some (unravelC shape.reverse i).reverse

/-! ### ravel_multi_index -/

/-- C order Horner scheme over `(dim, coordinate)` pairs -/
def ravelC : List Nat → List Nat → Nat
  | _ :: ds, i :: is => i * prod ds + ravelC ds is
  | _, _ => 0

inductive Mode where | raise | wrap | clip
  deriving DecidableEq, Repr

/-- one coordinate under `mode`; `none` = ValueError ("invalid entry in coordinates array") -/
def fixCoord (mode : Mode) (d : Nat) (i : Int) : Option Nat :=
  if d = 0 then none else
  match mode with
  | .raise => if 0 ≤ i ∧ i < (d : Int) then some i.toNat else none
  | .wrap => some (i % (d : Int)).toNat
  | .clip => some (if i < 0 then 0 else if (d : Int) ≤ i then d - 1 else i.toNat)

def fixCoords (mode : Mode) : List Nat → List Int → Option (List Nat)
  | [], [] => some []
  | d :: ds, i :: is => match fixCoord mode d i, fixCoords mode ds is with
    | some x, some xs => some (x :: xs)
    | _, _ => none
  | _, _ => none

/-- `np.ravel_multi_index(idx, dims, mode, order)` for one multi-index -/
def ravelMulti (order : Order) (mode : Mode) (dims : List Nat) (idx : List Int) : Option Nat :=
  match fixCoords mode dims idx with
  | none => none
  | some c => match order with
    | .C => some (ravelC dims c)
    | .F => some (ravelC dims.reverse c.reverse)

/-- block by block (`map_blocks`): every block is a list of flat indices / of multi-indices -/
def daUnravel (order : Order) (shape : List Nat) (blocks : List (List Nat)) : Option (List (List (List Nat))) :=
  optMapM (optMapM (unravel order shape)) blocks

def daRavelMulti (order : Order) (mode : Mode) (dims : List Nat) (blocks : List (List (List Int))) : Option (List (List Nat)) :=
  optMapM (optMapM (ravelMulti order mode dims)) blocks

/-! ### argwhere / flatnonzero / nonzero -/

/-- `indices(shape)` with every coordinate array raveled (C order) and stacked along axis 1: row `k` is the
    multi-index of flat position `k` -/
def allIndices (shape : List Nat) : List (List Nat) := (List.range (prod shape)).map (unravelC shape)

/-- `da.argwhere(a)` on the C-order flattening `xs` of `a` -/
def argwhere (shape : List Nat) (xs : List Nat) : List (List Nat) := selectBy (xs.map (· != 0)) (allIndices shape)

/-- `da.flatnonzero(a) = argwhere(a.ravel())[:, 0]` -/
def flatnonzero (xs : List Nat) : List Nat := (argwhere [xs.length] xs).map (fun r => r.getD 0 0)

/-- `da.nonzero(a)[k]`: column `k` of `argwhere(a)` -/
def nonzeroCol (shape : List Nat) (xs : List Nat) (k : Nat) : List Nat := (argwhere shape xs).map (fun r => r.getD k 0)

end Dask.Counting
