import DaskModel.DriverLib
import DaskModel.Model.UniqueNaNIO
import DaskModel.Model.UniqueNd
/-
Line-protocol handler of the C27 extension "return_inverse on n-d input"; appended to the table of `Drivers/chunks.lean`.
-/
namespace Dask.UniqueNdIO
open Dask Dask.UniqueNaN Dask.UniqueNaNIO Dask.UniqueNd

/-- `(unique_nd_inverse r w ((block…)…))` ↦ `((values…) ((inverse row…)…))` -/
def hInverseNd : Handler := handler fun args =>
  match args with
  | [r, w, bs] => do
    let bs := (← bs.toIntss?).map (·.map toFV)
    let (u, inv) := uniqueNdInverse (← r.toNat?) (← w.toNat?) bs
    pure (.list [SExp.ofInts (u.map ofFV), SExp.ofNatss inv])
  | _ => none

def handlers : List (String × Handler) := [("unique_nd_inverse", hInverseNd)]

end Dask.UniqueNdIO
