/-
K1 for bags: `dask.bag.core.Bag.reduction` (the `while k > split_every` tree), `empty_safe_apply`,
`empty_safe_aggregate`, `toolz.partition_all`.

Python                                         Lean
------                                         ----
partition `(self.name, i)`                     `List α`; a bag = `List (List α)`, `den = flatten`
`no_result` sentinel                           `Option.none`
`partition_all(split_every, range(k))`         `partitionAll` (fuel = length; take/drop)
`while k > split_every` loop                   `loopIx` with fuel (`none` = fuel exhausted: cannot happen behind the guard)
key names `(fmt+str(depth), i)`, `(fmt, 0)`    the indices `(depth, i)` passed to the aggregate (so that a
                                               randomised aggregate can use different draws per task)
ValueError("split_every must be an integer >= 2") for `split_every < 2` and `split_every < npartitions`
(repair ec8607a; before: endless loop / UnboundLocalError)   `none`
Import-free (linked into the native driver).
-/
namespace Dask.BagReduce

/-- `toolz.partition_all(n, xs)`: consecutive chunks of `n`, the last one possibly shorter -/
def partitionAllF (n : Nat) : Nat → List α → List (List α)
  | 0, _ => []
  | fuel + 1, xs => if xs.isEmpty then [] else xs.take n :: partitionAllF n fuel (xs.drop n)

def partitionAll (n : Nat) (xs : List α) : List (List α) := partitionAllF n xs.length xs

/-- `empty_safe_aggregate(aggregate, parts, is_last=False)` for one group: `no_result` inputs are
    skipped; a group without any result is `no_result` itself -/
def aggGroup (agg : List β → β) (g : List (Option β)) : Option β :=
  let ps := g.filterMap id
  if ps.isEmpty then none else some (agg ps)

/-- one pass of the `while` body: `dsk[(c, i)] = (empty_safe_aggregate, aggregate, [(b, j) for j in inds], False)` -/
def levelIx (agg : Nat → List β → β) (se : Nat) (xs : List (Option β)) : List (Option β) :=
  (partitionAll se xs).zipIdx.map fun gi => aggGroup (agg gi.2) gi.1

/-- `while k > split_every:` … returns `(depth, results of the last level)` -/
def loopIx (agg : Nat → Nat → List β → β) (se : Nat) : Nat → Nat → List (Option β) → Option (Nat × List (Option β))
  | 0, _, _ => none
  | fuel + 1, depth, xs =>
    if se < xs.length then loopIx agg se fuel (depth + 1) (levelIx (agg depth) se xs) else some (depth, xs)

/-- `empty_safe_apply(perpartition, part, is_last)` per partition -/
def perPartitionIx (perpart : Nat → List α → β) (parts : List (List α)) : List (Option β) :=
  let isLast := parts.length == 1
  parts.zipIdx.map fun pi => if !isLast && pi.1.isEmpty then none else some (perpart pi.2 pi.1)

/-- `Bag.reduction(perpartition, aggregate, split_every)` with task indices; `none` = ValueError
    (`split_every < 2` and `split_every < npartitions`) -/
def reductionIx (perpart : Nat → List α → β) (agg : Nat → Nat → List β → β) (se : Nat)
    (parts : List (List α)) : Option β :=
  if se < 2 ∧ se < parts.length then none
  else (loopIx agg se (parts.length + 1) 0 (perPartitionIx perpart parts)).map
    fun dy => agg dy.1 0 (dy.2.filterMap id)

/-- `Bag.reduction` for deterministic functions -/
def reduction (perpart : List α → β) (agg : List β → β) (se : Nat) (parts : List (List α)) : Option β :=
  reductionIx (fun _ => perpart) (fun _ _ => agg) se parts

/-- the same `while k > split_every` tree without `empty_safe_*` (as `Bag.foldby` builds it: every
    partition contributes, `merge` is applied to every group and once more at the end) -/
def plainLoop (agg : List β → β) (se : Nat) : Nat → List β → Option (List β)
  | 0, _ => none
  | fuel + 1, xs => if se < xs.length then plainLoop agg se fuel ((partitionAll se xs).map agg) else some xs

def plainTree (agg : List β → β) (se : Nat) (xs : List β) : Option β :=
  if se < 2 ∧ se < xs.length then none else (plainLoop agg se (xs.length + 1) xs).map agg

/-- the shape of the tree only: number of tasks per level (used to diff the graph dask builds) -/
def levelSizes (se : Nat) : Nat → Nat → List Nat
  | 0, _ => []
  | fuel + 1, k => if se < k then ((k + se - 1) / se) :: levelSizes se fuel ((k + se - 1) / se) else []

end Dask.BagReduce
