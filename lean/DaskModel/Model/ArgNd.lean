import DaskModel.Model.ArrayReduce
/-
Arg-reductions with `axis=None` on an n-d array (`dask/array/reductions.py`: `arg_reduction` with `ravel = True`,
`arg_chunk`, `arg_combine`, `arg_agg`).

Python (arg_reduction)                                              Lean
----------------------                                              ----
keys    = product(*map(range, x.numblocks))                         the C order of `gridBlocks` (= the order of `mkGrid`)
offsets = product(*(accumulate(add, bd[:-1], 0) for bd in chunks))  `axisBlocks` = per axis `(offset, size)`, `gridBlocks` their product
offset_info = zip(offsets, repeat(x.shape))                         `argPartNd … total …` with `total = shapeOf chunks`
arg_chunk(x_block, axis, (offset, total_shape)):                    `argChunk lt bshape offset total block` (Model/ArrayReduce.lean):
   ind = unravel_index(argmin(x_block), x_block.shape)                 `unravel bshape i`
   total_ind = offset + ind; arg = ravel_multi_index(total_ind, total)  `ravel total (zipWith (+) offset …)`
   a block that is empty has no candidate                               `argChunk … [] = none`, partial `[]`
_tree_reduce(tmp, agg, axis, combine=…)                             `gridReduce (argCombL lt) (argAggL lt)` over `mkGrid`
The array is a function `f` from global multi-indices to values; block `B` holds `(blockIdx B).map f` in its own C order,
NumPy's raveled array is `flatData`.  Import-free (linked into the driver).
-/
namespace Dask.ArrayReduce

/-- blocks of one axis as `(offset, size)`: `zip(accumulate(add, bd[:-1], 0), bd)` -/
def axisBlocksFrom : Nat → List Nat → List (Nat × Nat)
  | _, [] => []
  | o, c :: cs => (o, c) :: axisBlocksFrom (o + c) cs

def axisBlocks (c : List Nat) : List (Nat × Nat) := axisBlocksFrom 0 c

/-- all blocks, in the C order of the block grid; a block = per axis `(offset, size)` -/
def gridBlocks (chunks : List (List Nat)) : List (List (Nat × Nat)) := cartesian (chunks.map axisBlocks)

/-- the global multi-indices of the elements of a block, in the C order of the block -/
def blockIdx (B : List (Nat × Nat)) : List (List Nat) := cartesian (B.map fun p => List.range' p.1 p.2)

def asum (c : List Nat) : Nat := c.foldr (· + ·) 0

/-- `x.shape` -/
def shapeOf (chunks : List (List Nat)) : List Nat := chunks.map asum

/-- what `arg_chunk` returns for block `B` (at most one `(value, global flat index)` candidate) -/
def argPartNd (lt : Int → Int → Bool) (total : List Nat) (f : List Nat → Int) (B : List (Nat × Nat)) :
    List (Int × Nat) :=
  (argChunk lt (B.map (·.2)) (B.map (·.1)) total ((blockIdx B).map f)).toList

def argPartsNd (lt : Int → Int → Bool) (chunks : List (List Nat)) (f : List Nat → Int) : List (List (Int × Nat)) :=
  (gridBlocks chunks).map (argPartNd lt (shapeOf chunks) f)

/-- NumPy's `x.ravel()` -/
def flatData (chunks : List (List Nat)) (f : List Nat → Int) : List Int :=
  (cartesian ((shapeOf chunks).map List.range)).map f

/-- `da.argmin(x)` / `da.argmax(x)` (`axis=None`) on an n-d array: all axes reduced, group sizes `ks`, `depth` rounds -/
def argTreeNd (lt : Int → Int → Bool) (chunks : List (List Nat)) (ks : List Nat) (keepdims : Bool) (depth : Nat)
    (f : List Nat → Int) : Option (Grid (Option (Int × Nat))) :=
  gridReduce (argCombL lt) (argAggL lt) (chunks.map List.length) (ks.map some) keepdims depth
    (mkGrid (chunks.map List.length) (argPartsNd lt chunks f))

end Dask.ArrayReduce
