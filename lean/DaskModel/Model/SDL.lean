/-
K10 (part): `dask.dataframe.io.io.sorted_division_locations`, transliterated.

Python                                   Lean
------                                   ----
seq (sorted list of comparable values)   `List Nat` (the harness interns values order-preservingly)
bisect.bisect_left on a sorted list      `bisectLeft` = number of leading elements `< x`
sorted(set(seq))                         `dedupSorted`
list[int] indexing (IndexError, wrap)    `pyGet?` (negative indices wrap, out of range = none)
while-loop                               `loop` with fuel; `none` = Python raised / fuel exhausted
Import-free (linked into the native driver).
-/
namespace Dask.SDL

/-- Python `lst[i]` for an `int` index: negative wraps once, otherwise IndexError (`none`). -/
def pyGet? (xs : List Nat) (i : Int) : Option Nat :=
  if 0 ≤ i then xs[i.toNat]?
  else if 0 ≤ i + xs.length then xs[(i + xs.length).toNat]? else none

/-- `bisect.bisect_left xs x` on a sorted list: the number of leading elements `< x`. -/
def bisectLeft (xs : List Nat) (x : Nat) : Nat := (xs.takeWhile (· < x)).length

/-- `sorted(set(seq))` for an already sorted `seq`: drop adjacent repeats. -/
def dedupSorted : List Nat → List Nat
  | [] => []
  | [x] => [x]
  | x :: y :: rest => if x = y then dedupSorted (y :: rest) else x :: dedupSorted (y :: rest)

structure St where
  i : Nat
  ind : Option Int
  drift : Int
  divsRemain : Int
  divisions : List Nat   -- most recent first
  locations : List Nat   -- most recent first
  deriving Repr

structure Params where
  seq : List Nat
  uniq : List Nat
  offsets : List Nat
  dup : Bool
  enforce : Bool
  subtract : Bool
  chunk : Nat
  residual : Nat

def Params.chunksizes (p : Params) (ind : Int) : Int :=
  (p.chunk : Int) + (if ind < (p.residual : Int) then 1 else 0)

/-- the `if duplicates:` part of the loop body for a resolved `ind` -/
def candidateDup (p : Params) (s : St) (div0 : Nat) (ind0 : Int) : Option (Nat × Nat × Option Int × Nat) :=
  let offsRemain : Int := (p.offsets.length : Int) - ind0
  if p.enforce && s.divsRemain > offsRemain then do
    -- avoid "over-stepping" too many unique values
    let ind1 := ind0 - (s.divsRemain - offsRemain)
    let i1 ← pyGet? p.offsets ind1
    let div1 ← p.seq[i1]?
    pure (i1, div1, some ind1, i1)
  else do
    let pos ← pyGet? p.offsets ind0
    pure (s.i, div0, some ind0, pos)

/-- top of the loop body: the candidate `(i, div, ind, pos)`; `pos` is the position of the first
    occurrence of `div` (which is `i` when `seq` has no duplicates). `none` = the Python code raised -/
def candidate (p : Params) (s : St) (div0 : Nat) : Option (Nat × Nat × Option Int × Nat) :=
  if p.dup then
    candidateDup p s div0 (match s.ind with
      | some k => k
      | none => (bisectLeft p.uniq div0 : Nat))
  else some (s.i, div0, s.ind, s.i)

/-- `int(offsets[ind]) if ind < len(offsets) else len(seq)` -/
def nextI (p : Params) (k : Int) : Option Nat :=
  if k < (p.offsets.length : Int) then pyGet? p.offsets k else some p.seq.length

/-- bottom of the loop body: either skip to the next candidate or append `(div, pos)` -/
def advance (p : Params) (s : St) (lastDiv lastLoc i div : Nat) (ind : Option Int) (pos : Nat) : Option St :=
  if div ≤ lastDiv then
    if p.dup then do
      let k ← ind
      let k' := k + 1
      let i' ← nextI p k'
      pure { s with i := i', ind := some k' }
    else
      pure { s with i := i + 1, ind := ind }
  else
    let nd : Int := s.divisions.length
    let drift := if p.subtract then s.drift + (((pos : Int) - (lastLoc : Int)) - p.chunksizes (nd - 1)) else s.drift
    let divsRemain := if p.enforce then s.divsRemain - 1 else s.divsRemain
    let stepLen : Int := max 1 (p.chunksizes nd - drift)
    pure { i := pos + stepLen.toNat, ind := none, drift := drift, divsRemain := divsRemain,
           divisions := div :: s.divisions, locations := pos :: s.locations }

/-- one iteration of the `while i < len(seq)` body; `none` = the Python code raised -/
def step (p : Params) (s : St) : Option St := do
  let div0 ← p.seq[s.i]?
  let lastDiv ← s.divisions.head?
  let lastLoc ← s.locations.head?
  let (i, div, ind, pos) ← candidate p s div0
  advance p s lastDiv lastLoc i div ind pos

def loop (p : Params) : Nat → St → Option St
  | 0, _ => none
  | fuel + 1, s => if s.i < p.seq.length then (step p s).bind (loop p fuel) else some s

inductive Mode where
  | npartitions (n : Nat)
  | chunksize (c : Nat)

def mkParams (seq : List Nat) (m : Mode) : Params :=
  let uniq := dedupSorted seq
  let dup := decide (uniq.length < seq.length)
  let offsets := if dup then uniq.map (bisectLeft seq) else []
  match m with
  | .npartitions n =>
    { seq, uniq, offsets, dup, enforce := dup && decide (n ≤ offsets.length), subtract := true,
      chunk := seq.length / n, residual := seq.length % n }
  | .chunksize c =>
    { seq, uniq, offsets, dup, enforce := false, subtract := false, chunk := c, residual := 0 }

/-- `chunksize = len(seq) // npartitions` raises ZeroDivisionError for `npartitions = 0`
    (`npartitions=0` is falsy, so Python actually takes the `chunksize=None` path and raises TypeError) -/
def guardMode : Mode → Option Unit
  | .npartitions 0 => none
  | _ => some ()

/-- initial state of the loop -/
def initSt (p : Params) (m : Mode) (first : Nat) : St :=
  let n : Int := match m with | .npartitions n => n | .chunksize _ => 0
  { i := (p.chunksizes 0).toNat, ind := none, drift := 0,
    divsRemain := if p.enforce then n - 1 else 0,
    divisions := [first], locations := [0] }

/-- did this iteration take the `enforce_exact` step-back (`ind -= divs_remain - offs_remain; i = offsets[ind]`)?
    (measurement only: lets the harness report how often the generator reaches that branch) -/
def isBack (p : Params) (s : St) : Bool :=
  match p.seq[s.i]? with
  | some d0 => (match candidate p s d0 with
    | some (i, _, _, _) => i != s.i
    | none => false)
  | none => false

/-- `(iterations, step-backs)` of the loop -/
def loopStats (p : Params) : Nat → St → Nat × Nat → Option (Nat × Nat)
  | 0, _, _ => none
  | fuel + 1, s, c =>
    if s.i < p.seq.length then
      match step p s with
      | some s' => loopStats p fuel s' (c.1 + 1, c.2 + (if isBack p s then 1 else 0))
      | none => none
    else some c

/-- fuel handed to the loop by `sdl` -/
def sdlFuel (seq : List Nat) : Nat := 2 * seq.length + 4

/-- `sorted_division_locations(seq, npartitions=n)` / `(seq, chunksize=c)`;
    `none` when the Python code raises (empty `seq`, `npartitions = 0`) . Returns `(divisions, locations)`. -/
def sdl (seq : List Nat) (m : Mode) : Option (List Nat × List Nat) := do
  let first ← seq.head?
  let last ← seq.getLast?
  guardMode m
  let p := mkParams seq m
  let s ← loop p (sdlFuel seq) (initSt p m first)
  pure ((last :: s.divisions).reverse, (seq.length :: s.locations).reverse)

/-- `(iterations, step-backs, appended boundaries)` of a run (measurement for the harness) -/
def sdlStats (seq : List Nat) (m : Mode) : Option (Nat × Nat) := do
  let first ← seq.head?
  guardMode m
  let p := mkParams seq m
  loopStats p (sdlFuel seq) (initSt p m first) (0, 0)

end Dask.SDL
