import DaskModel.Model.Sched
/-
K12 (part) `Callbacks`: `dask/callbacks.py` after the repair of defect #1, transliterated.

Python                                             Lean
------                                             ----
a callback (the 5-tuple `cb._callback`)            `Cb = Nat` (the harness interns the tuples)
`Callback.active` (a class-level set)              `St.active : List Cb` (membership semantics, `sadd`)
`add_callbacks(*cbs)` object                       its `_added` list; those created by the history itself: `St.cms` (index = handle)
`Callback._cms` (per object stack of its managers) `St.objCms : Map (List (List Cb))` keyed by object id, head = top
two `Callback` objects built from the same functions  two object ids with the same `Cb` (equal tuples)
`cb.unregister()` of an inactive callback          `Err.keyError`
`cb.__exit__()` without a matching `__enter__`     `Err.indexError` (AttributeError/IndexError in Python)
a scheduler call with `callbacks=None`             `Op.get`: uses (a copy of) `active`, restores it (`local_callbacks`)

`step`/`run` is the flat machine driven by arbitrary (also ill-bracketed) histories; `exec` runs a
well-bracketed program (`with` statements nest) on the same primitives.
Import-free of Mathlib (linked into the native driver).
-/
namespace Dask.Callbacks
open Dask.Sched (Map sadd srem Err)

abbrev Cb := Nat

structure St where
  active : List Cb := []
  cms : List (List Cb) := []
  objCms : Map (List (List Cb)) := []

/-- `dict.fromkeys(cbs)`: first occurrences, in order -/
def dedupAux : List Cb → List Cb → List Cb
  | acc, [] => acc.reverse
  | acc, x :: xs => if x ∈ acc then dedupAux acc xs else dedupAux (x :: acc) xs

/-- `add_callbacks.__init__`: `_added = [c for c in dict.fromkeys(cbs) if c not in Callback.active]` -/
def newOnes (cbs : List Cb) (active : List Cb) : List Cb := (dedupAux [] cbs).filter (fun c => !(active.contains c))

/-- `Callback.active.update(cbs)` -/
def activate (cbs : List Cb) (active : List Cb) : List Cb := cbs.foldl (fun a c => sadd c a) active

/-- `for c in added: Callback.active.discard(c)` -/
def discardAll (added : List Cb) (active : List Cb) : List Cb := added.foldl (fun a c => srem c a) active

def stackOf (s : St) (c : Cb) : List (List Cb) := (s.objCms.get? c).getD []

inductive Op where
  | enterObj (o : Nat) (c : Cb)  -- `obj.__enter__()` for the object `o` whose tuple is `c`
  | exitObj (o : Nat)            -- `obj.__exit__(None, None, None)`
  | enterCm (cbs : List Cb)      -- `h = add_callbacks(*cbs); h.__enter__()`   (handle = number of managers created before)
  | exitCm (h : Nat)             -- `h.__exit__(None, None, None)`
  | register (c : Cb)
  | unregister (c : Cb)
  | get                          -- a scheduler call with `callbacks=None`
  | getWith (cbs : List Cb)      -- a scheduler call with `callbacks=[…]`
  deriving Repr

/-- `add_callbacks(*cbs)` -/
def cmInit (cbs : List Cb) (s : St) : St × List Cb :=
  let added := newOnes cbs s.active
  ({ s with active := activate cbs s.active }, added)

/-- one operation; the second component is the set of callbacks a scheduler call used (`none` for the others) -/
def step (op : Op) (s : St) : Except Err (St × Option (List Cb)) :=
  match op with
  | .enterObj o c =>
    let (s1, added) := cmInit [c] s
    .ok ({ s1 with objCms := s1.objCms.set o (added :: stackOf s o) }, none)
  | .exitObj o =>
    match stackOf s o with
    | [] => .error .indexError
    | added :: rest => .ok ({ s with objCms := s.objCms.set o rest, active := discardAll added s.active }, none)
  | .enterCm cbs =>
    let (s1, added) := cmInit cbs s
    .ok ({ s1 with cms := s1.cms ++ [added] }, none)
  | .exitCm h =>
    match s.cms[h]? with
    | none => .error .badChoice
    | some added => .ok ({ s with active := discardAll added s.active }, none)
  | .register c => .ok ({ s with active := sadd c s.active }, none)
  | .unregister c => if c ∈ s.active then .ok ({ s with active := srem c s.active }, none) else .error (.keyError .result)
  | .get => .ok (s, some s.active)
  | .getWith cbs => .ok (s, some cbs)

/-- a history; stops at the first operation that raises (the harness does the same) -/
def run : List Op → St → List (Except Err (St × Option (List Cb)))
  | [], _ => []
  | op :: ops, s =>
    match step op s with
    | .ok (s', u) => .ok (s', u) :: run ops s'
    | .error e => [.error e]

/-! well-bracketed programs -/
inductive Prog where
  | skip
  | seq (p q : Prog)
  | withCm (cbs : List Cb) (body : Prog)     -- `with add_callbacks(*cbs): body`
  | withObj (c : Cb) (body : Prog)           -- `with cb: body`
  | register (c : Cb)
  | unregister (c : Cb)
  | get

/-- result: final state and, for every scheduler call in program order, the callbacks it used -/
def exec : Prog → St → Except Err (St × List (List Cb))
  | .skip, s => .ok (s, [])
  | .seq p q, s =>
    match exec p s with
    | .error e => .error e
    | .ok (s1, l1) =>
      match exec q s1 with
      | .error e => .error e
      | .ok (s2, l2) => .ok (s2, l1 ++ l2)
  | .withCm cbs body, s =>
    let (s1, added) := cmInit cbs s
    match exec body s1 with
    | .error e => .error e
    | .ok (s2, l) => .ok ({ s2 with active := discardAll added s2.active }, l)
  | .withObj c body, s =>
    match step (.enterObj c c) s with
    | .error e => .error e
    | .ok (s1, _) =>
      match exec body s1 with
      | .error e => .error e
      | .ok (s2, l) =>
        match step (.exitObj c) s2 with
        | .error e => .error e
        | .ok (s3, _) => .ok (s3, l)
  | .register c, s => .ok ({ s with active := sadd c s.active }, [])
  | .unregister c, s => if c ∈ s.active then .ok ({ s with active := srem c s.active }, []) else .error (.keyError .result)
  | .get, s => .ok (s, [s.active])

def Prog.unregisters : Prog → Cb → Prop
  | .skip, _ => False
  | .seq p q, x => p.unregisters x ∨ q.unregisters x
  | .withCm _ b, x => b.unregisters x
  | .withObj _ b, x => b.unregisters x
  | .register _, _ => False
  | .unregister c, x => c = x
  | .get, _ => False

def Prog.registers : Prog → Cb → Prop
  | .skip, _ => False
  | .seq p q, x => p.registers x ∨ q.registers x
  | .withCm _ b, x => b.registers x
  | .withObj _ b, x => b.registers x
  | .register c, x => c = x
  | .unregister _, _ => False
  | .get, _ => False

end Dask.Callbacks
