import DaskModel.Model.Sched
/-
K12 (part) `Callbacks`: `dask/callbacks.py` after the repairs of defect #1 (commit 64c9a31) and of the
re-used `add_callbacks` object (second repair: activation and the `_added` bookkeeping happen in `__enter__`,
one entry per entry), transliterated.

Python                                             Lean
------                                             ----
a callback (the 5-tuple `cb._callback`)            `Cb = Nat` (the harness interns the tuples)
`Callback.active` (a class-level set)              `St.active : List Cb` (membership semantics, `sadd`)
an `add_callbacks(*cbs)` object bound to a name    `Mgr` = (`callbacks`, `_added` stack, head = top), `St.cms : Map Mgr` keyed by handle
`Callback._cms` (per object stack of its managers) `St.objCms : Map (List (List Cb))` keyed by object id: the `_added` entry of each manager, head = top
two `Callback` objects built from the same functions  two object ids with the same `Cb` (equal tuples)
`cb.unregister()` of an inactive callback          `Err.keyError`
`__exit__()` without a matching `__enter__`        `Err.indexError` (`pop from empty list` / AttributeError in Python)
a scheduler call with `callbacks=None`             `Op.get`: uses (a copy of) `active`, restores it (`local_callbacks`)

`step`/`run` is the flat machine driven by arbitrary (also ill-bracketed) histories: building a manager,
entering it (later, again, in another order than built) and leaving it are separate operations; `exec` runs a
well-bracketed program (`with` statements nest) on the same primitives.
Import-free of Mathlib (linked into the native driver).
-/
namespace Dask.Callbacks
open Dask.Sched (Map sadd srem Err)

abbrev Cb := Nat

/-- an `add_callbacks` object -/
structure Mgr where
  cbs : List Cb                 -- `self.callbacks`
  stack : List (List Cb) := []  -- `self._added`: one entry per `__enter__`, head = most recent

structure St where
  active : List Cb := []
  cms : Map Mgr := []
  objCms : Map (List (List Cb)) := []

/-- `dict.fromkeys(cbs)`: first occurrences, in order -/
def dedupAux : List Cb → List Cb → List Cb
  | acc, [] => acc.reverse
  | acc, x :: xs => if x ∈ acc then dedupAux acc xs else dedupAux (x :: acc) xs

/-- `[c for c in dict.fromkeys(cbs) if c not in Callback.active]` -/
def newOnes (cbs : List Cb) (active : List Cb) : List Cb := (dedupAux [] cbs).filter (fun c => !(active.contains c))

/-- `Callback.active.update(cbs)` -/
def activate (cbs : List Cb) (active : List Cb) : List Cb := cbs.foldl (fun a c => sadd c a) active

/-- `for c in added: Callback.active.discard(c)` -/
def discardAll (added : List Cb) (active : List Cb) : List Cb := added.foldl (fun a c => srem c a) active

def stackOf (s : St) (c : Cb) : List (List Cb) := (s.objCms.get? c).getD []

inductive Op where
  | enterObj (o : Nat) (c : Cb)  -- `obj.__enter__()` for the object `o` whose tuple is `c`
  | exitObj (o : Nat)            -- `obj.__exit__(None, None, None)`
  | buildCm (h : Nat) (cbs : List Cb)  -- `h = add_callbacks(*cbs)` (a fresh name `h`)
  | enterCm (h : Nat)            -- `h.__enter__()`
  | exitCm (h : Nat)             -- `h.__exit__(None, None, None)`
  | register (c : Cb)
  | unregister (c : Cb)
  | get                          -- a scheduler call with `callbacks=None`
  | getWith (cbs : List Cb)      -- a scheduler call with `callbacks=[…]`
  deriving Repr

/-- `add_callbacks.__enter__` for a manager with callbacks `cbs`: new `active` and the `_added` entry -/
def cmEnter (cbs : List Cb) (s : St) : St × List Cb :=
  let added := newOnes cbs s.active
  ({ s with active := activate cbs s.active }, added)

/-- one operation; the second component is the set of callbacks a scheduler call used (`none` for the others) -/
def step (op : Op) (s : St) : Except Err (St × Option (List Cb)) :=
  match op with
  | .enterObj o c =>
    let (s1, added) := cmEnter [c] s
    .ok ({ s1 with objCms := s1.objCms.set o (added :: stackOf s o) }, none)
  | .exitObj o =>
    match stackOf s o with
    | [] => .error .indexError
    | added :: rest => .ok ({ s with objCms := s.objCms.set o rest, active := discardAll added s.active }, none)
  | .buildCm h cbs =>
    match s.cms.get? h with
    | some _ => .error .badChoice
    | none => .ok ({ s with cms := s.cms.set h { cbs := cbs } }, none)
  | .enterCm h =>
    match s.cms.get? h with
    | none => .error .badChoice
    | some m =>
      let (s1, added) := cmEnter m.cbs s
      .ok ({ s1 with cms := s1.cms.set h { m with stack := added :: m.stack } }, none)
  | .exitCm h =>
    match s.cms.get? h with
    | none => .error .badChoice
    | some m =>
      match m.stack with
      | [] => .error .indexError
      | added :: rest =>
        .ok ({ s with cms := s.cms.set h { m with stack := rest }, active := discardAll added s.active }, none)
  | .register c => .ok ({ s with active := sadd c s.active }, none)
  | .unregister c => if c ∈ s.active then .ok ({ s with active := srem c s.active }, none) else .error (.keyError .result)
  | .get => .ok (s, some s.active)
  | .getWith cbs => .ok (s, some cbs)

/-- a history; stops at the first operation that raises (the harness does the same) -/
def run : List Op → St → List (Except Err (St × Option (List Cb)))
  | [], _ => []
  | op :: ops, s =>
    match step op s with
    | .ok (s', u) => .ok (s', u) :: run ops s'
    | .error e => [.error e]

/-! well-bracketed programs -/
inductive Prog where
  | skip
  | seq (p q : Prog)
  | withCm (cbs : List Cb) (body : Prog)     -- `with add_callbacks(*cbs): body`
  | withObj (c : Cb) (body : Prog)           -- `with cb: body`
  | build (h : Nat) (cbs : List Cb)          -- `h = add_callbacks(*cbs)`
  | withH (h : Nat) (body : Prog)            -- `with h: body`  (a manager built earlier; may be open already)
  | register (c : Cb)
  | unregister (c : Cb)
  | get

/-- result: final state and, for every scheduler call in program order, the callbacks it used -/
def exec : Prog → St → Except Err (St × List (List Cb))
  | .skip, s => .ok (s, [])
  | .seq p q, s =>
    match exec p s with
    | .error e => .error e
    | .ok (s1, l1) =>
      match exec q s1 with
      | .error e => .error e
      | .ok (s2, l2) => .ok (s2, l1 ++ l2)
  | .withCm cbs body, s =>
    let (s1, added) := cmEnter cbs s
    match exec body s1 with
    | .error e => .error e
    | .ok (s2, l) => .ok ({ s2 with active := discardAll added s2.active }, l)
  | .withObj c body, s =>
    match step (.enterObj c c) s with
    | .error e => .error e
    | .ok (s1, _) =>
      match exec body s1 with
      | .error e => .error e
      | .ok (s2, l) =>
        match step (.exitObj c) s2 with
        | .error e => .error e
        | .ok (s3, _) => .ok (s3, l)
  | .build h cbs, s =>
    match step (.buildCm h cbs) s with
    | .error e => .error e
    | .ok (s1, _) => .ok (s1, [])
  | .withH h body, s =>
    match step (.enterCm h) s with
    | .error e => .error e
    | .ok (s1, _) =>
      match exec body s1 with
      | .error e => .error e
      | .ok (s2, l) =>
        match step (.exitCm h) s2 with
        | .error e => .error e
        | .ok (s3, _) => .ok (s3, l)
  | .register c, s => .ok ({ s with active := sadd c s.active }, [])
  | .unregister c, s => if c ∈ s.active then .ok ({ s with active := srem c s.active }, []) else .error (.keyError .result)
  | .get, s => .ok (s, [s.active])

def Prog.unregisters : Prog → Cb → Prop
  | .skip, _ => False
  | .seq p q, x => p.unregisters x ∨ q.unregisters x
  | .withCm _ b, x => b.unregisters x
  | .withObj _ b, x => b.unregisters x
  | .build _ _, _ => False
  | .withH _ b, x => b.unregisters x
  | .register _, _ => False
  | .unregister c, x => c = x
  | .get, _ => False

def Prog.registers : Prog → Cb → Prop
  | .skip, _ => False
  | .seq p q, x => p.registers x ∨ q.registers x
  | .withCm _ b, x => b.registers x
  | .withObj _ b, x => b.registers x
  | .build _ _, _ => False
  | .withH _ b, x => b.registers x
  | .register c, x => c = x
  | .unregister _, _ => False
  | .get, _ => False

end Dask.Callbacks
