import DaskModel.DriverLib
import DaskModel.Model.SortValues
/-! Driver handlers of the C40 sort / set_index / presorted / drop_duplicates models (kept out of
    `Drivers/dfpart.lean` so that several people can extend the group's driver without editing the same file).
    Import-free of Mathlib. -/
namespace Dask.SortValuesIO
open Dask Dask.Shuffle Dask.SortValues

def optNat? : SExp → Option (Option Nat)
  | .sym "none" => some none
  | e => e.toNat?.map some

/-- partitions given as lists of optional keys ↦ rows `(key, global position)` -/
def numberKeyed (parts : List (List (Option Nat))) : List (List (Option Nat × Nat)) :=
  (parts.foldl (fun (acc : List (List (Option Nat × Nat)) × Nat) p =>
    (acc.1 ++ [(List.range p.length).map fun t => (p.getD t none, acc.2 + t)], acc.2 + p.length)) ([], 0)).1

def numberNat (parts : List (List Nat)) : List (List (Nat × Nat)) :=
  (parts.foldl (fun (acc : List (List (Nat × Nat)) × Nat) p =>
    (acc.1 ++ [(List.range p.length).map fun t => (p.getD t 0, acc.2 + t)], acc.2 + p.length)) ([], 0)).1

def keyedParts? (e : SExp) : Option (List (List (Option Nat))) := do
  (← e.toList?).mapM fun p => do (← p.toList?).mapM optNat?

/-- `(sort-values ((key|none …) …) (divisions…) asc naLast k stages)` ↦ per output partition `((key|none id) …)`;
    `k = 0` selects `SimpleShuffle`; an empty division list selects the presorted shortcut (every partition sorted
    where it is) -/
def hSortValues : Handler := handler fun args =>
  match args with
  | [ps, d, asc, nal, k, st] => do
    let parts := numberKeyed (← keyedParts? ps)
    let d ← d.toNats?; let asc ← asc.toBool?; let nal ← nal.toBool?; let k ← k.toNat?; let st ← st.toNat?
    let out := if d.isEmpty then sortValuesPresorted (sortPart (·.1) asc nal) parts
      else if k = 0 then sortValuesSimple (·.1) d asc nal parts else sortValuesTasks (·.1) d asc nal k st parts
    pure (.list (out.map fun p => .list (p.map fun r => .list [SExp.ofOptNat r.1, SExp.ofNat r.2])))
  | _ => none

/-- `(calc-presorted asc ((key|none …) …))` ↦ `(presorted (mins…) (maxes…))` -/
def hCalcPresorted : Handler := handler fun args =>
  match args with
  | [asc, ps] => do
    let (b, mins, maxes) := calcPresorted (← asc.toBool?) (← keyedParts? ps)
    pure (.list [SExp.ofBool b, .list (mins.map SExp.ofOptNat), .list (maxes.map SExp.ofOptNat)])
  | _ => none

/-- `(dedup first (keys…))` ↦ positions kept by `drop_duplicates(keep=first|last)` of ONE frame -/
def hDedup : Handler := handler fun args =>
  match args with
  | [f, ks] => do
    let rows := (numberNat [← ks.toNats?]).flatten
    pure (SExp.ofNats ((dedup (← f.toBool?) (·.1) rows).map (·.2)))
  | _ => none

/-- `(dedup-tree first ((keys…)…))` ↦ global positions kept (TreeReduce path) -/
def hDedupTree : Handler := handler fun args =>
  match args with
  | [f, ps] => do
    pure (SExp.ofNats ((dedupTree (← f.toBool?) (·.1) (numberNat (← ps.toNatss?))).map (·.2)))
  | _ => none

/-- `(dedup-shuffle first ((keys…)…) ((key class)…) n k stages)` ↦ positions per output partition; the hash classes
    of the keys are given as a table (pandas' `hash_object` is not modelled); `k = 0` selects `SimpleShuffle` -/
def hDedupShuffle : Handler := handler fun args =>
  match args with
  | [f, ps, tbl, n, k, st] => do
    let tbl ← (← tbl.toList?).mapM fun e => match e with
      | .list [a, b] => do pure (← a.toNat?, ← b.toNat?)
      | _ => none
    let hash := fun key => ((tbl.find? fun ab => ab.1 == key).map (·.2)).getD 0
    let n ← n.toNat?; let k ← k.toNat?; let st ← st.toNat?; let first ← f.toBool?
    let parts := numberNat (← ps.toNatss?)
    let out := if k = 0 then dedupShuffleWith simpleShuffle first (·.1) hash n parts
      else dedupShuffleWith (fun ps m => taskShuffle ps m k st) first (·.1) hash n parts
    pure (SExp.ofNatss (out.map (·.map (·.2))))
  | _ => none

/-- `(disk-shuffle (arrival…) ((targets…)…) n)` ↦ global row positions per output partition -/
def hDiskShuffle : Handler := handler fun args =>
  match args with
  | [arr, ps, n] => do
    pure (SExp.ofNatss ((diskShuffle (← arr.toNats?) (numberNat (← ps.toNatss?)) (← n.toNat?)).map (·.map (·.2))))
  | _ => none

def handlers : List (String × Handler) :=
  [("sort-values", hSortValues), ("calc-presorted", hCalcPresorted), ("dedup", hDedup), ("dedup-tree", hDedupTree),
   ("dedup-shuffle", hDedupShuffle), ("disk-shuffle", hDiskShuffle)]

end Dask.SortValuesIO
