import DaskModel.DriverLib
import DaskModel.Model.MergeAsof
/-! Driver handlers of the C39 merge_asof model (kept out of `Drivers/dfpart.lean` so that several people can extend the
    group's driver without editing the same file). Import-free of Mathlib. -/
namespace Dask.MergeAsof
open Dask

def optNat? : SExp → Option (Option Nat)
  | .sym "none" => some none
  | e => e.toNat?.map some

def ofPiece (p : Piece) : SExp := .list [SExp.ofNat p.part, SExp.ofOptNat p.lower, SExp.ofOptNat p.upper]

def piece? : SExp → Option Piece
  | .list [a, b, c] => do pure { part := ← a.toNat?, lower := ← optNat? b, upper := ← optNat? c }
  | _ => none

def plan? (e : SExp) : Option (List (List Piece)) := do
  (← e.toList?).mapM fun J => do (← J.toList?).mapM piece?

def rows? (e : SExp) : Option (List Row) := do
  (← e.toList?).mapM fun r => match r with
    | .list [k, v] => do pure (← k.toNat?, ← v.toNat?)
    | _ => none

def parts? (e : SExp) : Option (List (List Row)) := do (← e.toList?).mapM rows?

def opts? : SExp → Option Opts
  | .list [.sym d, ex, t] => do
    let dir ← match d with
      | "backward" => some Dir.backward | "forward" => some Dir.forward | "nearest" => some Dir.nearest | _ => none
    pure { dir := dir, exact := ← ex.toBool?, tol := ← optNat? t }
  | _ => none

def ofMatch (x : Row × Option Row) : SExp := .list [SExp.ofNat x.1.2, SExp.ofOptNat (x.2.map (·.2))]

/-- `(pair-partitions (L…) (R…))` ↦ `(ok (((part lower upper)…)…))` | `(raised)` -/
def hPairPartitions : Handler := handler fun
  | [l, r] => do
    pure (match pairPartitions (← l.toNats?) (← r.toNats?) with
      | some plan => .list [.sym "ok", .list (plan.map fun J => .list (J.map ofPiece))]
      | none => .list [.sym "raised"])
  | _ => none

/-- `(pair-plan-ok (L…) (R…) plan)` ↦ `true|false`: the certificate `planOK` on a plan given explicitly -/
def hPlanOK : Handler := handler fun
  | [l, r, p] => do pure (SExp.ofBool (planOK (← l.toNats?) (← r.toNats?) (← plan? p)))
  | _ => none

/-- `(asof-spec (dir exact tol|none) (left rows…) (right rows…))` ↦ `((left id, right id|none)…)`: pandas.merge_asof -/
def hAsofSpec : Handler := handler fun
  | [o, l, r] => do
    let o ← opts? o
    let R ← rows? r
    pure (.list ((← rows? l).map fun x => ofMatch (x, asof o x.1 R)))
  | _ => none

/-- `(asof-plan opts plan (left partitions…) (right partitions…))` ↦ per output partition `((left id, right id|none)…)` -/
def hAsofPlan : Handler := handler fun
  | [o, p, l, r] => do
    pure (.list ((planOut (← opts? o) (← plan? p) (← parts? l) (← parts? r)).map fun part => .list (part.map ofMatch)))
  | _ => none

/-- `(asof-pads (right partitions…))` ↦ `((tail ids…) (head ids…))` per partition: the padding rows -/
def hAsofPads : Handler := handler fun
  | [r] => do
    let Rp ← parts? r
    pure (.list [.list ((List.range Rp.length).map fun j => SExp.ofNats ((tailOf Rp j).map (·.2))),
                 .list ((List.range Rp.length).map fun j => SExp.ofNats ((headOf Rp j).map (·.2)))])
  | _ => none

def handlers : List (String × Handler) :=
  [("pair-partitions", hPairPartitions), ("pair-plan-ok", hPlanOK), ("asof-spec", hAsofSpec), ("asof-plan", hAsofPlan),
   ("asof-pads", hAsofPads)]

end Dask.MergeAsof
