import DaskModel.DriverLib
import DaskModel.Model.ArrayExprNd
/-
Line-protocol handlers of the C30 extension round (n-d expression model); appended to the table of `Drivers/reduce.lean`.
-/
namespace Dask.ArrayExprNdIO
open Dask Dask.ArrayExpr Dask.ArrayExprNd Dask.Slice1D

def toUnOp? : String → Option UnOp
  | "neg" => some .neg | "abs" => some .abs | "square" => some .square | _ => none

def toBinOp? : String → Option BinOp
  | "add" => some .add | "sub" => some .sub | "mul" => some .mul | "max" => some .max | _ => none

def toAxIx? : SExp → Option AxIx
  | .list [.sym "int", i] => do pure (.int (← i.toNat?))
  | .list [.sym "sl", a, b, c] => do pure (.sl ⟨← a.toOptInt?, ← b.toOptInt?, ← c.toOptInt?⟩)
  | _ => none

mutual
partial def toNE? : SExp → Option NE
  | .list [.sym "leaf", s, d, c] => do pure (.leaf (← s.toNats?) (← d.toInts?) (← c.toNatss?))
  | .list [.sym "un", .sym op, a] => do pure (.un (← toUnOp? op) (← toNE? a))
  | .list [.sym "bin", .sym op, a, b] => do pure (.bin (← toBinOp? op) (← toNE? a) (← toNE? b))
  | .list [.sym "bins", .sym op, a, .int sc] => do pure (.binS (← toBinOp? op) (← toNE? a) sc)
  | .list [.sym "slice", .list ix, a] => do pure (.slice (← ix.mapM toAxIx?) (← toNE? a))
  | .list [.sym "rechunk", c, a] => do pure (.rechunk (← c.toNatss?) (← toNE? a))
  | .list [.sym "transpose", ax, a] => do pure (.transpose (← ax.toNats?) (← toNE? a))
  | .list [.sym "concat", ax, .list kids] => do pure (.concat (← ax.toNat?) (← toNEs? kids))
  | .list [.sym "opq", t, c, .list kids] => do pure (.opq (← t.toNat?) (← c.toNatss?) (← toNEs? kids))
  | .list [.sym "finalize", a] => do pure (.finalize (← toNE? a))
  | _ => none
partial def toNEs? : List SExp → Option NEs
  | [] => some .nil
  | k :: ks => do pure (.cons (← toNE? k) (← toNEs? ks))
end

mutual
/-- chunks of every node, preorder -/
def nodeChunks : NE → List Chunks
  | e@(.leaf _ _ _) => [chunks e]
  | e@(.un _ a) => chunks e :: nodeChunks a
  | e@(.bin _ a b) => chunks e :: (nodeChunks a ++ nodeChunks b)
  | e@(.binS _ a _) => chunks e :: nodeChunks a
  | e@(.slice _ a) => chunks e :: nodeChunks a
  | e@(.rechunk _ a) => chunks e :: nodeChunks a
  | e@(.transpose _ a) => chunks e :: nodeChunks a
  | e@(.concat _ as) => chunks e :: nodeChunksL as
  | e@(.opq _ _ as) => chunks e :: nodeChunksL as
  | e@(.finalize a) => chunks e :: nodeChunks a
def nodeChunksL : NEs → List Chunks
  | .nil => []
  | .cons a as => nodeChunks a ++ nodeChunksL as
end

def ofChunksL (cs : List Chunks) : SExp := .list (cs.map SExp.ofNatss)

/-- opaque nodes have no value in the driver -/
def noF : Nat → List Arr → Option Arr := fun _ _ => none

/-- `(ndeval ast)` ↦ `(ok (shape…) (values in C order…) (chunks of every node, preorder))` | `(invalid (chunks…))` -/
def hNdEval : Handler := handler fun args =>
  match args with
  | [e] => do
    let e ← toNE? e
    match den noF e with
    | some x => pure (.list [.sym "ok", SExp.ofNats x.shape, SExp.ofInts x.toVal.2, ofChunksL (nodeChunks e)])
    | none => pure (.list [.sym "invalid", ofChunksL (nodeChunks e)])
  | _ => none

/-- `(ndchunks ast)` ↦ chunks of every node, preorder (also for trees with opaque nodes) -/
def hNdChunks : Handler := handler fun args =>
  match args with
  | [e] => do pure (ofChunksL (nodeChunks (← toNE? e)))
  | _ => none

/-- `(ndstep before after)` ↦ did one optimizer pass legally turn `before` into `after`? -/
def hNdStep : Handler := handler fun args =>
  match args with
  | [a, b] => do pure (SExp.ofBool (parStepNd (← toNE? a) (← toNE? b)))
  | _ => none

/-- `(ndunify ((chunks of a…)) ((chunks of b…)))` ↦ `(unified targetA targetB)` — `unify_chunks_expr` on two array operands -/
def hNdUnify : Handler := handler fun args =>
  match args with
  | [a, b] => do
    let ca ← a.toNatss?
    let cb ← b.toNatss?
    pure (.list [SExp.ofNatss (unify ca cb), SExp.ofNatss (alignTarget ca cb ca), SExp.ofNatss (alignTarget ca cb cb)])
  | _ => none

def handlers : List (String × Handler) :=
  [("ndeval", hNdEval), ("ndchunks", hNdChunks), ("ndstep", hNdStep), ("ndunify", hNdUnify)]

end Dask.ArrayExprNdIO
