/-
`da.pad(x, pad_width, mode="edge")` (C24 extension): `dask/array/creation.py::pad_edge`, one axis after the other

    for d in range(array.ndim):
        if pad_width[d][0] == 0 and pad_width[d][1] == 0: continue
        pad_shapes, pad_chunks = get_pad_shapes_chunks(result, pad_width, (d,), mode)   # mode != "constant": ONE chunk (w,)
        pad_arrays = [result[:1 along d].rechunk({d: -1}), result[-1: along d].rechunk({d: -1})]
        pad_arrays = [broadcast_to(a, s, c) for a, s, c in zip(pad_arrays, pad_shapes, pad_chunks)]
        result = concatenate([pad_arrays[0], result, pad_arrays[1]], axis=d)         # drops arrays of size 0

Python                                                      Lean
------                                                      ----
broadcast_to(edge element, (w,), ((w,),)) + "drop empty"    `piece`
one pass of the loop on the blocks along the axis           `padEdgeBlocks` (`none` = ValueError: an empty edge cannot be broadcast)
np.pad(x, (l, r), mode="edge")                              `npPadEdge` (`out[i] = x[clip(i - l, 0, n - 1)]`; `none` = NumPy's ValueError)
the loop over two axes (axis 0: the rows are the elements)  `padEdge2` / `npPadEdge2`
Import-free (linked into the native driver).
-/
namespace Dask.PadEdge

/-- the pad on one side: the edge element broadcast to ONE block of `w` elements; `concatenate` drops it when `w = 0` -/
def piece {α} (w : Nat) (a : α) : List (List α) := if w = 0 then [] else [List.replicate w a]

/-- one pass of `pad_edge`'s loop (mode="edge") on the blocks along the axis (zero-length blocks allowed) -/
def padEdgeBlocks {α} (blocks : List (List α)) (l r : Nat) : Option (List (List α)) :=
  if l = 0 ∧ r = 0 then some blocks
  else match blocks.flatten.head?, blocks.flatten.getLast? with
    | some a, some z => some (piece l a ++ blocks ++ piece r z)
    | _, _ => none

/-- NumPy's source index of output position `i`: `clip(i - l, 0, n - 1)` -/
def edgeIndex (n l i : Nat) : Nat := min (i - l) (n - 1)

theorem edgeIndex_lt (n l i : Nat) (h : 0 < n) : edgeIndex n l i < n := by
  unfold edgeIndex; omega

/-- `np.pad(xs, (l, r), mode="edge")` -/
def npPadEdge {α} (xs : List α) (l r : Nat) : Option (List α) :=
  match xs with
  | [] => if l = 0 ∧ r = 0 then some [] else none
  | x :: t =>
    some ((List.range (l + (t.length + 1) + r)).map fun i =>
      (x :: t)[edgeIndex (t.length + 1) l i]'(by simpa using edgeIndex_lt (t.length + 1) l i (by omega)))

/-- `pad_edge` on a 2-d array given by its rows: axis 0 (the elements are the rows), then axis 1 (every row) -/
def padEdge2 {α} (rowBlocks : List (List (List α))) (l0 r0 : Nat)
    (cut1 : List α → List (List α)) (l1 r1 : Nat) : Option (List (List α)) := do
  let a ← padEdgeBlocks rowBlocks l0 r0
  a.flatten.mapM fun row => (padEdgeBlocks (cut1 row) l1 r1).map List.flatten

/-- `np.pad(rows, ((l0, r0), (l1, r1)), mode="edge")` -/
def npPadEdge2 {α} (rows : List (List α)) (l0 r0 l1 r1 : Nat) : Option (List (List α)) := do
  let a ← npPadEdge rows l0 r0
  a.mapM fun row => npPadEdge row l1 r1

end Dask.PadEdge
