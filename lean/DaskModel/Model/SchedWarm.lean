import DaskModel.Model.Sched
/-!
Extension of K5 `Sched` for a caller-supplied `cache=` (`get_async(..., cache=cache0)`; model `startStateC`/`getAsyncC`
of `Model/Sched.lean`).

`start_state_from_dask` treats a key that is already in the cache as an available result (`if key in cache: continue`,
`_wait = task.dependencies - set(cache)`): nothing is run for it, nobody waits for it and its own dependencies are not
traversed.  That is exactly how it treats a `DataNode`, so the run with the cache `cache0` on the graph `g` is a run on the
*warm graph* `warmGraph g cache0` (every cached key is a data node) with the data values `warmParams P cache0` (a cached key
holds the cached value).  The theorems of `Props/C01xCache.lean` make this precise; the executable functions below are what
the correspondence check evaluates:

* `warmGraph`, `warmParams` - the graph/values the scheduler effectively works on;
* `cacheSoundB`            - "every cached key holds the value the graph denotes for it" (hypothesis `CacheSound`);
* `reachSet`, `expectedExec` - the tasks the theorems say are executed: the tasks of `g` that are not cached and are
  reachable from the request along dependencies WITHOUT passing through a cached key.
Import-free of Mathlib (linked into the native driver).
-/
namespace Dask.Sched

/-- the graph as the scheduler sees it when `cache0` is supplied: a cached key is an available value (a data node) -/
def warmGraph {α : Type} (g : Graph) (cache0 : Map α) : Graph := cache0.map (fun p => (p.1, Node.data)) ++ g

/-- the data values of the warm graph: a cached key holds the cached value -/
def warmParams {α : Type} (P : Params α) (cache0 : Map α) : Params α :=
  { P with dataVal := fun k => (cache0.get? k).getD (P.dataVal k) }

/-- `cfg` on the warm graph -/
def warmCfg {α : Type} (cfg : Cfg) (cache0 : Map α) : Cfg := { cfg with g := warmGraph cfg.g cache0 }

/-- every cached key holds the value the graph denotes for it (recursive evaluation with `fuel`) -/
def cacheSoundB {α : Type} [DecidableEq α] (g : Graph) (P : Params α) (fuel : Nat) (cache0 : Map α) : Bool :=
  cache0.all (fun p => decide (p.2 = denote g P fuel p.1))

/-- one round of "add the dependencies of everything found so far" -/
def reachStep (g : Graph) (found : List Key) : List Key :=
  found.foldl (fun acc k => (nodeDeps g k).foldl (fun a d => sadd d a) acc) found

def reachIter (g : Graph) : Nat → List Key → List Key
  | 0, found => found
  | n + 1, found => reachIter g n (reachStep g found)

/-- the keys reachable from `results` along dependencies of `g` (`g.length + 1` rounds: a shortest path visits every key of
the graph at most once and ends in at most one key outside it) -/
def reachSet (g : Graph) (results : List Key) : List Key :=
  reachIter g (g.length + 1) (results.foldl (fun a d => sadd d a) [])

/-- the tasks a run with the cache `cache0` executes according to the theorems: tasks of `g`, not cached, reachable from the
request in the warm graph -/
def expectedExec {α : Type} (g : Graph) (cache0 : Map α) (results : List Key) : List Key :=
  (reachSet (warmGraph g cache0) results).filter (fun k =>
    match g.get? k with
    | some (.task _) => !cache0.has k
    | _ => false)

end Dask.Sched
