import DaskModel.Model.Join
/-
K9 (which plan a merge is lowered to): `dask_expr/_merge.py::Merge._lower` with `broadcast_side`, `is_broadcast_join`
(after fix 5e52220), `_is_single_partition_broadcast`, `merge_indexed_left/right`.

Python                                                        Lean
------                                                        ----
`how`                                                         `How`
`broadcast_side`: "left" if left.npartitions < right's        `bcastLeft`
`_is_single_partition_broadcast`                              `isSingle`
`is_broadcast_join` (broadcast=None | True | False; the       `isBroadcast` (`n_low < log2(n_high) * 0.5` ⇔ `4 ^ n_low < n_high`,
   float `broadcast_bias` is not modelled)                    exact for doubles in the range used)
`Merge._lower`                                                `lower` ↦ `Plan`
Import-free.
-/
namespace Dask.MergePlan

inductive How where
  | inner | left | right | outer | leftsemi
deriving DecidableEq, Repr

/-- what `Merge._lower` returns -/
inductive Plan where
  /-- `BlockwiseMerge(left, right)`: one side has a single partition, every partition of the other side meets it -/
  | single
  /-- fully indexed merge: both sides repartitioned to the union divisions, then `BlockwiseMerge` -/
  | aligned
  /-- `BroadcastJoin`; `leftSide`: the left side is the broadcast one; `split`: how ≠ inner, the broadcast side is
      hash-partitioned and the other side split by the same hash; `repart`: the other side is repartitioned to `npartitions=` -/
  | broadcast (leftSide split : Bool) (repart : Option Nat)
  /-- hash join: `RearrangeByColumn` of each side that is not yet partitioned on the key, then `BlockwiseMerge` -/
  | hash (shuffleLeft shuffleRight : Bool) (n : Nat)
deriving DecidableEq, Repr

structure In where
  nl : Nat
  nr : Nat
  how : How
  broadcast : Option Bool      -- None | True | False
  idxL : Bool                  -- merge_indexed_left: joined on the index and known divisions
  idxR : Bool
  leftIndex : Bool
  rightIndex : Bool
  npartitions : Option Nat     -- the `npartitions=` keyword
  lPart : Bool                 -- left already hash-partitioned on the join key
  rPart : Bool
deriving DecidableEq, Repr

def bcastLeft (x : In) : Bool := decide (x.nl < x.nr)

def isSingle (x : In) : Bool :=
  max x.nl x.nr == 1 || (x.nl == 1 && (x.how == .right || x.how == .inner)) ||
    (x.nr == 1 && (x.how == .left || x.how == .inner || x.how == .leftsemi))

def isBroadcast (x : In) : Bool :=
  (x.how == .inner || x.how == .left || x.how == .right || x.how == .leftsemi) &&
  !(if bcastLeft x then x.how == .left else x.how == .right) &&
  !(x.how == .leftsemi && bcastLeft x) &&
  x.broadcast != some false &&
  !(x.how != .inner && (if bcastLeft x then x.rightIndex else x.leftIndex)) &&
  (x.broadcast == some true || decide (4 ^ (min x.nl x.nr) < max x.nl x.nr))

def lower (x : In) : Plan :=
  if isSingle x then .single
  else if x.idxL && x.idxR then .aligned
  else if isBroadcast x then .broadcast (bcastLeft x) (x.how != .inner) x.npartitions
  else
    let n := x.npartitions.getD (max x.nl x.nr)
    .hash (!(x.lPart && x.nl == n)) (!(x.rPart && x.nr == n)) n

end Dask.MergePlan
