/-!
`_ExprSequence.__dask_annotations__` (dask/_expr.py): the annotations of the collections computed together,

    annotations_by_type = {}
    for op in self.operands:
        for k, v in op.__dask_annotations__().items():
            annotations_by_type.setdefault(k, {}).update(v)

A dict is the list of its items in insertion order (`dset` is `d[k] = v`: an existing key keeps its position).
`τ` annotation type, `κ` task key, `ν` annotation value.
-/
namespace Dask.SeqAnnot
variable {κ ν τ : Type} [DecidableEq κ] [DecidableEq τ]

/-- `d.get(k)` -/
def lookup : List (κ × ν) → κ → Option ν
  | [], _ => none
  | (a, b) :: r, k => if a = k then some b else lookup r k

/-- `d[k] = v` -/
def dset : List (κ × ν) → κ → ν → List (κ × ν)
  | [], k, v => [(k, v)]
  | (a, b) :: r, k, v => if a = k then (a, v) :: r else (a, b) :: dset r k v

/-- `d.update(v)` -/
def dupdate (d v : List (κ × ν)) : List (κ × ν) := v.foldl (fun acc e => dset acc e.1 e.2) d

abbrev Ann (τ κ ν : Type) := List (τ × List (κ × ν))

/-- `annotations_by_type.setdefault(k, {}).update(v)` -/
def step (acc : Ann τ κ ν) (e : τ × List (κ × ν)) : Ann τ κ ν :=
  dset acc e.1 (dupdate ((lookup acc e.1).getD []) e.2)

/-- the inner loop: one operand -/
def mergeOne (acc op : Ann τ κ ν) : Ann τ κ ν := op.foldl step acc

/-- `_ExprSequence(*ops).__dask_annotations__()` -/
def merge (ops : List (Ann τ κ ν)) : Ann τ κ ν := ops.foldl mergeOne []

/-- `a.get(t, {}).get(k)` -/
def get2 (a : Ann τ κ ν) (t : τ) (k : κ) : Option ν :=
  match lookup a t with
  | some d => lookup d k
  | none => none

end Dask.SeqAnnot
