/-
K13/K4 (part): the shape and chunk logic behind `dask.array.core.elemwise`:
`broadcast_shapes`, `common_blockdim`, `unify_chunks`, and the block-level plan of an elementwise operation.

Python                                              Lean
------                                              ----
shape tuple (known sizes)                           `List Nat`
`zip_longest(*map(reversed, shapes), fillvalue=-1)` `column` (sizes as `Int`, `-1` = missing)
`np.max(sizes)`                                     `maxInt`
`ValueError` / `IndexError`                         `none`
`common_blockdim`'s `while i < total` loop          `walk` with fuel (`walkFuel` = number of chunks + 1 always suffices:
                                                    every iteration pops at least one chunk)
set of chunk tuples (`non_trivial_dims`)            duplicate-free list; the algorithm is symmetric in it
`unify_chunks` (known chunk sizes)                  `unifyChunks`
NumPy broadcasting inside one block                 `localIdx`
Import-free.
-/
namespace Dask.Elemwise

/-! ### broadcast_shapes -/

/-- one column of `zip_longest(*map(reversed, shapes), fillvalue=-1)` -/
def column (shapes : List (List Nat)) (i : Nat) : List Int :=
  shapes.map fun s => ((s.reverse[i]?).map Int.ofNat).getD (-1)

def maxInt : List Int → Int
  | [] => -1
  | x :: r => let m := maxInt r; if r.isEmpty then x else if m < x then x else m

/-- `dim = 0 if 0 in sizes else max(sizes)`; `ValueError` if some size is not in `[-1, 0, 1, dim]` -/
def bdim (sizes : List Int) : Option Int :=
  let dim := if sizes.contains 0 then 0 else maxInt sizes
  if sizes.any (fun i => i != -1 && i != 0 && i != 1 && i != dim) then none else some dim

def maxLen (shapes : List (List Nat)) : Nat := shapes.foldl (fun m s => max m s.length) 0

def optAll {α : Type} : List (Option α) → Option (List α)
  | [] => some []
  | none :: _ => none
  | some a :: r => (optAll r).map (a :: ·)

/-- `broadcast_shapes(*shapes)` -/
def broadcastShapes (shapes : List (List Nat)) : Option (List Nat) :=
  match shapes with
  | [s] => some s
  | _ => (optAll ((List.range (maxLen shapes)).map fun i => bdim (column shapes i))).map
            fun l => (l.map Int.toNat).reverse

/-- NumPy's rule for one column: sizes other than 1 must agree -/
def npdim (sizes : List Int) : Option Int :=
  match (sizes.filter (· != -1)).filter (· != 1) with
  | [] => some 1
  | d :: r => if r.all (· == d) then some d else none

def npBroadcast (shapes : List (List Nat)) : Option (List Nat) :=
  (optAll ((List.range (maxLen shapes)).map fun i => npdim (column shapes i))).map fun l => (l.map Int.toNat).reverse

/-! ### common_blockdim -/

def minNat : List Nat → Nat
  | [] => 0
  | [x] => x
  | x :: r => min x (minNat r)

def heads : List (List Nat) → Option (List Nat)
  | [] => some []
  | [] :: _ => none
  | (h :: _) :: r => (heads r).map (h :: ·)

/-- `c[-1] -= m; if c[-1] == 0: c.pop()` (lists are kept in forward order) -/
def consume (m : Nat) : List Nat → List Nat
  | [] => []
  | h :: t => if h - m = 0 then t else (h - m) :: t

/-- the `while i < total` loop -/
def walk (total : Nat) : Nat → Nat → List (List Nat) → Option (List Nat)
  | 0, _, _ => none
  | fuel + 1, i, rs =>
    if i < total then
      match heads rs with
      | none => none
      | some hs =>
        let m := minNat hs
        (walk total fuel (i + m) (rs.map (consume m))).map (m :: ·)
    else some []

def walkFuel (rs : List (List Nat)) : Nat := (rs.map List.length).sum + 1

/-- `max(blockdims, key=first)` over single-chunk tuples: first maximal element -/
def maxByFirst : List (List Nat) → List Nat
  | [] => []
  | [x] => x
  | x :: r => let m := maxByFirst r; if x.headD 0 < m.headD 0 then m else x

/-- `common_blockdim(blockdims)`; `blockdims` is a set of chunk tuples (duplicate-free list) -/
def commonBlockdim (blockdims : List (List Nat)) : Option (List Nat) :=
  if blockdims.all List.isEmpty then some []
  else
    let nt := (blockdims.filter (fun d => d.length > 1)).eraseDups
    match nt with
    | [d] => some d
    | [] => some (maxByFirst blockdims)
    | d :: _ =>
      if nt.any (fun e => e.sum != d.sum) then none
      -- since a3ff003: several chunkings of a zero-length dimension have the single empty chunk in common
      else if d.sum = 0 then some [0]
      else walk d.sum (walkFuel nt) 0 nt

/-! ### unify_chunks (chunk sizes known) -/

abbrev Sym := Nat

/-- one array argument: index string and chunks (shape = sums) -/
structure UArg where
  ind : List Sym
  chunks : List (List Nat)
  deriving Repr

def pairs (args : List UArg) : List (Sym × List Nat) := args.flatMap fun a => a.ind.zip a.chunks

/-- `g2[k]`: the distinct chunk tuples of symbol `k`, without the sentinel `(1,)` if there are several -/
def candidates (ps : List (Sym × List Nat)) (s : Sym) : List (List Nat) :=
  let vs := ((ps.filter (fun p => p.1 == s)).map (·.2)).eraseDups
  if vs.length > 1 then vs.filter (fun c => c != [1]) else vs

def lookupSym {α : Type} (m : List (Sym × α)) (s : Sym) : Option α :=
  match m with
  | [] => none
  | (k, v) :: r => if k = s then some v else lookupSym r s

def optAllPairs {α : Type} : List (Sym × Option α) → Option (List (Sym × α))
  | [] => some []
  | (_, none) :: _ => none
  | (s, some a) :: r => (optAllPairs r).map ((s, a) :: ·)

/-- `lengths[j]`: the set of lengths index `j` takes among the inputs -/
def lengthsOf (ps : List (Sym × List Nat)) (s : Sym) : List Nat :=
  ((ps.filter (fun p => p.1 == s)).map (·.2.sum)).eraseDups

/-- `blockdim_dict` (since 021b477): a length-one dimension that is broadcast (another input has a different length for
    the index) counts as `(1,)` whatever its chunks are, e.g. `(0, 1, 0)` -/
def effPairs (args : List UArg) : List (Sym × List Nat) :=
  let ps := pairs args
  ps.map fun p => if p.2.sum == 1 && lengthsOf ps p.1 != [1] then (p.1, [1]) else p

/-- `chunkss = broadcast_dimensions(nameinds, blockdim_dict, consolidate=common_blockdim)` -/
def unifySyms (args : List UArg) : Option (List (Sym × List Nat)) :=
  let ps := effPairs args
  optAllPairs (((ps.map (·.1)).eraseDups).map fun s => (s, commonBlockdim (candidates ps s)))

/-- the chunks every argument is rechunked to: `chunkss[j] if a.shape[n] > 1 else a.shape[n]` -/
def newChunks (chunkss : List (Sym × List Nat)) (a : UArg) : Option (List (List Nat)) :=
  if a.chunks.any List.isEmpty then some a.chunks
  -- (`Array.rechunk` used to return an all-empty array unchanged; since d1cec06 it honours the explicit all-zero chunk
  --  tuples that unify_chunks requests, so empty arrays follow the general rule)
  else optAll ((a.ind.zip a.chunks).map fun p =>
    -- `chunkss[j] if a.shape[n] > 1 or sum(chunkss[j]) == a.shape[n] else a.shape[n]`: a length-one dimension stays a
    -- single chunk only when it really is broadcast (the unified dimension is longer)
    (lookupSym chunkss p.1).bind fun c =>
      if p.2.sum > 1 || c.sum == p.2.sum then
        -- `a.rechunk(chunks)` validates the new chunks against the shape (ValueError otherwise)
        (if c.sum = p.2.sum then some c else none)
      else some [p.2.sum])

def unifyChunks (args : List UArg) : Option (List (Sym × List Nat) × List (List (List Nat))) := do
  let cs ← unifySyms args
  let news ← optAll (args.map (newChunks cs))
  pure (cs, news)

/-! ### the block-level plan of an elementwise operation along one axis -/

/-- block and offset of global position `i` in a dimension chunked as `c` (`none` if `i` is out of range) -/
def locate : List Nat → Nat → Option (Nat × Nat)
  | [], _ => none
  | h :: t, i => if i < h then some (0, i) else (locate t (i - h)).map fun p => (p.1 + 1, p.2)

/-- global position of offset `l` in block `b` -/
def globalOf (c : List Nat) (b l : Nat) : Nat := (c.take b).sum + l

/-- block coordinate blockwise hands to an argument with `nb` blocks along the axis (K13 `coordmap_spec`) -/
def argBlock (nb b : Nat) : Nat := if nb = 1 then 0 else b

/-- NumPy broadcasting inside a block: an argument block of length 1 is read at offset 0 -/
def localIdx (argBlockLen l : Nat) : Nat := if argBlockLen = 1 then 0 else l

/-- the global position of the argument element used for output position `i` along one axis, where the output is
    chunked as `cOut` and the argument as `cArg` -/
def argPos (cOut cArg : List Nat) (i : Nat) : Option Nat := do
  let (b, l) ← locate cOut i
  let ab := argBlock cArg.length b
  let len ← cArg[ab]?
  pure (globalOf cArg ab (localIdx len l))

/-- index strings of `elemwise`: `tuple(range(ndim))[::-1]` -/
def revRange (n : Nat) : List Nat := (List.range n).reverse

end Dask.Elemwise
