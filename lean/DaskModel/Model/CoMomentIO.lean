/- Line-protocol handlers for the extension round of C37 (`Model/CoMoment.lean`). Import-free of Mathlib. -/
import DaskModel.DriverLib
import DaskModel.Model.CoMoment
open Dask

namespace Dask.CoMomentIO
open Dask.CoMoment Dask.TreeReduce

def toCell? : SExp → Option Cell
  | .sym "none" => some none
  | .int i => some (some i)
  | _ => none
def toCells? (e : SExp) : Option (List Cell) := do (← e.toList?).mapM toCell?
def toCellss? (e : SExp) : Option (List (List Cell)) := do (← e.toList?).mapM toCells?
def toCellsss? (e : SExp) : Option (List (List (List Cell))) := do (← e.toList?).mapM toCellss?
def ofCell : Cell → SExp
  | none => .sym "none"
  | some i => .int i

def toRat? : SExp → Option Rat
  | .list [.int n, .int d] => if d > 0 then some (mkRat n d.toNat) else none
  | .int n => some (n : Rat)
  | _ => none
def ofRat (r : Rat) : SExp := .list [.int r.num, .int r.den]
def toORat? : SExp → Option (Option Rat)
  | .sym "none" => some none
  | e => (toRat? e).map some
def ofORat : Option Rat → SExp
  | none => .sym "none"
  | some r => ofRat r

def toSE? : SExp → Option SE
  | .sym "none" => some .default
  | .sym "false" => some .off
  | .int k => some (.n k)
  | _ => none

def ofCP (p : CP) : SExp := .list [.int p.n, ofRat p.sx, ofRat p.sy, ofORat p.c, ofRat p.mx, ofRat p.my]
def toCP? : SExp → Option CP
  | .list [n, sx, sy, c, mx, my] => do pure ⟨← n.toNat?, ← toRat? sx, ← toRat? sy, ← toORat? c, ← toRat? mx, ← toRat? my⟩
  | _ => none
def ofMat (f : α → SExp) (m : List (List α)) : SExp := .list (m.map fun r => .list (r.map f))
def toCPMat? (e : SExp) : Option (List (List CP)) := do (← e.toList?).mapM fun r => do (← r.toList?).mapM toCP?

/-- entry (i, j) of every matrix of the list -/
def entries (ms : List (List (List CP))) (i j : Nat) : List CP :=
  ms.filterMap fun m => (m.getD i [])[j]?

def matZip (f : List CP → α) (ms : List (List (List CP))) : List (List α) :=
  let c := (ms.headD []).length
  (List.range c).map fun i => (List.range c).map fun j => f (entries ms i j)

def ofCorr : Option (Rat × Rat) → SExp
  | none => .sym "none"
  | some cd => .list [ofRat cd.1, ofRat cd.2]

/-- function level:
    `(covfn chunk (cols…))` ↦ matrix of partials `(n sx sy c mx my)`;
    `(covfn combine (matrix…))` ↦ matrix of partials;
    `(covfn agg <minp> (matrix…))` ↦ matrix of `(cov corr)` with cov = `none` | `(num den)`, corr = `none` | `((num den) (num den))` -/
def hCovFn : Handler := handler fun args =>
  match args with
  | [.sym "chunk", cols] => do pure (ofMat ofCP (matOf pairChunk (← toCellss? cols)))
  | [.sym "combine", ms] => do pure (ofMat ofCP (matZip pairCombine (← (← ms.toList?).mapM toCPMat?)))
  | [.sym "agg", minp, ms] => do
    let minp ← minp.toNat?
    let ms ← (← ms.toList?).mapM toCPMat?
    pure (ofMat (fun (r : Option Rat × Option (Rat × Rat)) => .list [ofORat r.1, ofCorr r.2])
      (matZip (fun bs => (covAgg minp bs, corrAgg minp bs)) ms))
  | _ => none

def withSE (se : SExp) (k : Option Nat → Option SExp) : Option SExp := do
  match splitEvery (← toSE? se) with
  | none => pure (.list [.sym "raised"])
  | some se => k se

/-- `(cov <se> <minp> <ncols> (parts…))` (a part = its list of columns) ↦ `(ok matrix)`, entries `none` | `(num den)` -/
def hCov : Handler := handler fun args =>
  match args with
  | [se, minp, nc, parts] => do
    let minp ← minp.toNat?
    let nc ← nc.toNat?
    let parts ← toCellsss? parts
    withSE se fun se =>
      let m := matOfParts (daskCov se minp) nc parts
      if m.any (·.any Option.isNone) then some (.list [.sym "fuel"])
      else some (.list [.sym "ok", ofMat (fun (r : Option (Option Rat)) => ofORat (r.getD none)) m])
  | _ => none

/-- `(corr <se> <minp> <ncols> (parts…))` ↦ `(ok matrix)`, entries `none` | `((num den) (num den))` = (C, m_x·m_y) -/
def hCorr : Handler := handler fun args =>
  match args with
  | [se, minp, nc, parts] => do
    let minp ← minp.toNat?
    let nc ← nc.toNat?
    let parts ← toCellsss? parts
    withSE se fun se =>
      let m := matOfParts (daskCorr se minp) nc parts
      if m.any (·.any Option.isNone) then some (.list [.sym "fuel"])
      else some (.list [.sym "ok", ofMat (fun (r : Option (Option (Rat × Rat))) => ofCorr (r.getD none)) m])
  | _ => none

/-- `(covspec <minp> (cols…))` ↦ matrix of `(cov corr)`: pandas on the whole frame -/
def hCovSpec : Handler := handler fun args =>
  match args with
  | [minp, cols] => do
    let minp ← minp.toNat?
    pure (ofMat (fun (r : Option Rat × Option (Rat × Rat)) => .list [ofORat r.1, ofCorr r.2])
      (matOf (fun p => (covK minp p, corrK minp p)) (← toCellss? cols)))
  | _ => none

def ofP (p : Dask.Moment.P) : SExp := .list [.int p.n, ofRat p.total, ofRat p.m2]
def toP? : SExp → Option Dask.Moment.P
  | .list [n, t, m] => do pure ⟨← n.toNat?, ← toRat? t, ← toRat? m⟩
  | _ => none

/-- `(varfn chunk (cells…))` ↦ `(n total M)`; `(varfn combine ((n total M)…))`; `(varfn agg <ddof> ((n total M)…))` ↦ `none` | `(num den)` -/
def hVarFn : Handler := handler fun args =>
  match args with
  | [.sym "chunk", xs] => do pure (ofP (dfVarChunk (← toCells? xs)))
  | [.sym "combine", ps] => do pure (ofP (Dask.Moment.momCombine (← (← ps.toList?).mapM toP?)))
  | [.sym "agg", ddof, ps] => do pure (ofORat (Dask.Moment.momAgg (← ddof.toNat?) (← (← ps.toList?).mapM toP?)))
  | _ => none

def wrapO (f : α → SExp) : Option α → SExp
  | some r => .list [.sym "ok", f r]
  | none => .list [.sym "fuel"]

/-- `(stat var|semsq <se> <ddof> (parts…))` ↦ `(ok none|(num den))`; `(stat nunique <se> <dropna> (parts…))` ↦ `(ok n)`;
    `(stat describe <se> (parts…))` ↦ `(ok (count (sum n) var min max))` -/
def hStat : Handler := handler fun args =>
  match args with
  | [.sym "var", se, ddof, parts] => do
    let ddof ← ddof.toNat?
    let parts ← toCellss? parts
    withSE se fun se => some (wrapO ofORat (daskVar se ddof parts))
  | [.sym "semsq", se, ddof, parts] => do
    let ddof ← ddof.toNat?
    let parts ← toCellss? parts
    withSE se fun se => some (wrapO ofORat (daskSemSq se ddof parts))
  | [.sym "nunique", se, dropna, parts] => do
    let dropna ← dropna.toBool?
    let parts ← toCellss? parts
    withSE se fun se => some (wrapO (fun (n : Nat) => SExp.int n) (daskNunique se dropna parts))
  | [.sym "describe", se, parts] => do
    let parts ← toCellss? parts
    withSE se fun se => some (wrapO
      (fun (d : Desc) => .list [.int d.count, .list [ofCell d.mean.1, .int d.mean.2], ofORat d.var, ofCell d.min, ofCell d.max])
      (daskDescribe se parts))
  | _ => none

/-- `(statspec var|semsq <ddof> (cells…))`, `(statspec nunique <dropna> (cells…))`, `(statspec dedup (cells…))`,
    `(statspec describe (cells…))`: pandas on the whole column -/
def hStatSpec : Handler := handler fun args =>
  match args with
  | [.sym "var", ddof, xs] => do pure (ofORat (varK (← ddof.toNat?) (← toCells? xs)))
  | [.sym "semsq", ddof, xs] => do pure (ofORat (semSqK (← ddof.toNat?) (← toCells? xs)))
  | [.sym "nunique", dropna, xs] => do pure (.int (nuniqueK (← dropna.toBool?) (← toCells? xs)))
  | [.sym "dedup", xs] => do pure (.list ((dedup (← toCells? xs)).map ofCell))
  | [.sym "describe", xs] => do
    let d := describeK (← toCells? xs)
    pure (.list [.int d.count, .list [ofCell d.mean.1, .int d.mean.2], ofORat d.var, ofCell d.min, ofCell d.max])
  | _ => none

def handlers : List (String × Handler) := [
  ("covfn", hCovFn), ("cov", hCov), ("corr", hCorr), ("covspec", hCovSpec),
  ("varfn", hVarFn), ("stat", hStat), ("statspec", hStatSpec)]

end Dask.CoMomentIO
