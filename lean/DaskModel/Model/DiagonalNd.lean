import DaskModel.Model.Creation
/-
`diagonal(a, offset, axis1, axis2)` of an n-d array (dask/array/creation.py) on top of the 2-d walk `diagonalPlan`
(Model/Creation.lean), `diag(v, k)` for 1-d `v` and any `k`, and the 2-d → 1-d fast path of `diag`.

Python                                                             Lean
------                                                             ----
_axis_fmt(axis, name, ndim)  (negative axes; AxisError below -ndim)  `axisFmt`
if axis1 > axis2: axis1, axis2 = axis2, axis1; k = -offset          `normAxes`
pop_axes(chunks, axis1, axis2)                                      `popAxes`
free_idx[:axis1] + (I,) + free_idx[axis1:axis2-1] + (J,) + free_idx[axis2-1:]   `insertIJ`
product(*(range(a.numblocks[i]) for i in free_axes))                `blockProduct`
for every segment, for free_idx in free_indices: Task(...)          `diagonalNdTasks`
out_chunks = pop_axes(a.chunks, axis1, axis2) + (kdiag_chunks,)     `diagonalNdChunks`
np.diagonal(block, k, axis1, axis2)[fl…, tl] = block[… max(0,-k)+tl … max(0,k)+tl …]   `diagonalNdRead` (assumption on NumPy)
diag(v, k), v 1-d: pad(diag(v), [[0,k],[k,0]]) / [[-k,0],[0,-k]]    `diagKDen`
diag(v), v 2-d, k = 0, square chunks: np.diag(block (i, i))          `diag2dFastRead`
Import-free (linked into the native driver).
-/
namespace Dask.Creation
open Dask.Chunks

/-- `_axis_fmt`: `none` = AxisError (only `axis < -ndim` is rejected there; `axis ≥ ndim` fails later with IndexError,
    modelled as `none` by `normAxes`) -/
def axisFmt (axis : Int) (ndim : Nat) : Option Nat :=
  if axis < 0 then (if (ndim : Int) + axis < 0 then none else some ((ndim : Int) + axis).toNat) else some axis.toNat

/-- normalised `(axis1, axis2, k)` with `axis1 < axis2`; `none` = the call raises (ValueError / AxisError / IndexError) -/
def normAxes (ndim : Nat) (offset axis1 axis2 : Int) : Option (Nat × Nat × Int) :=
  match axisFmt axis1 ndim, axisFmt axis2 ndim with
  | some a1, some a2 =>
    if ndim < 2 ∨ a1 = a2 ∨ ndim ≤ a1 ∨ ndim ≤ a2 then none
    else if a1 > a2 then some (a2, a1, -offset) else some (a1, a2, offset)
  | _, _ => none

/-- `pop_axes`: `chunks.pop(axis2); chunks.pop(axis1)` -/
def popAxes {α} (xs : List α) (a1 a2 : Nat) : List α := (xs.eraseIdx a2).eraseIdx a1

/-- `free_idx[:axis1] + (I,) + free_idx[axis1:axis2-1] + (J,) + free_idx[axis2-1:]` -/
def insertIJ {α} (free : List α) (a1 a2 : Nat) (x y : α) : List α :=
  free.take a1 ++ x :: ((free.drop a1).take (a2 - 1 - a1) ++ y :: free.drop (a2 - 1))

/-- `itertools.product(range(n0), range(n1), …)` in its order (last index fastest) -/
def blockProduct : List Nat → List (List Nat)
  | [] => [[]]
  | n :: ns => (List.range n).flatMap (fun i => (blockProduct ns).map (fun rest => i :: rest))

/-- one task of the graph: output block index, input block index, local offset `k` -/
structure DTask where
  out : List Nat
  inp : List Nat
  k : Int
  deriving Repr, DecidableEq

/-- the graph of `diagonal` for normalised axes: for every segment `i` and every block of the free axes -/
def diagonalNdTasks (chunks : List (List Nat)) (a1 a2 : Nat) (segs : List DSeg) : List DTask :=
  let free := blockProduct ((popAxes chunks a1 a2).map List.length)
  (segs.zipIdx).flatMap (fun (s, i) => free.map (fun f => ⟨f ++ [i], insertIJ f a1 a2 s.I s.J, s.k⟩))

/-- `out_chunks`; an empty diagonal gives the single chunk `(0,)` -/
def diagonalNdChunks (chunks : List (List Nat)) (a1 a2 : Nat) (segs : List DSeg) : List (List Nat) :=
  popAxes chunks a1 a2 ++ [if segs = [] then [0] else segs.map (fun s => s.len.toNat)]

/-- the whole plan of `diagonal(a, offset, axis1, axis2)`: `(axis1, axis2, out_chunks, tasks)`; `none` = raises.
    (For an empty diagonal the graph holds `np.empty` blocks instead: `tasks = []`.) -/
def diagonalNdPlan (chunks : List (List Nat)) (offset axis1 axis2 : Int) :
    Option (Nat × Nat × List (List Nat) × List DTask) := do
  let (a1, a2, k) ← normAxes chunks.length offset axis1 axis2
  let rch ← chunks[a1]?
  let cch ← chunks[a2]?
  let segs ← diagonalPlan rch cch k
  pure (a1, a2, diagonalNdChunks chunks a1 a2 segs, diagonalNdTasks chunks a1 a2 segs)

/-- per-axis `(block, offset)` of a position in the free axes -/
def locateAll : List (List Nat) → List Nat → Option (List (Nat × Nat))
  | [], [] => some []
  | cs :: css, p :: ps => do
    let l ← blockOf cs p
    let rest ← locateAll css ps
    pure (l :: rest)
  | _, _ => none

/-- global position `blockStart + offset` along every axis -/
def globalPos : List (List Nat) → List Nat → List Nat → List Nat
  | cs :: css, b :: bs, o :: os => (blockStart cs b + o) :: globalPos css bs os
  | _, _, _ => []

/-- the global input position the assembled output reads at free position `q`, diagonal index `t`: through the output
    block `(fb…, i)`, its task's input block `insertIJ fb a1 a2 I J`, and `np.diagonal` of that block -/
def diagonalNdRead (chunks : List (List Nat)) (a1 a2 : Nat) (k : Int) (q : List Nat) (t : Nat) : Option (List Nat) := do
  let rch ← chunks[a1]?
  let cch ← chunks[a2]?
  let segs ← diagonalPlan rch cch k
  let (i, tl) ← blockOf (segs.map (fun s => s.len.toNat)) t
  let s ← segs[i]?
  let locs ← locateAll (popAxes chunks a1 a2) q
  let blk := insertIJ (locs.map (·.1)) a1 a2 s.I s.J
  let loc := insertIJ (locs.map (·.2)) a1 a2 ((max 0 (-s.k)).toNat + tl) ((max 0 s.k).toNat + tl)
  pure (globalPos chunks blk loc)

/-! ### `diag(v, k)` for 1-d `v`: `pad(diag(v), …)` around the `k = 0` block matrix `diagDen` -/

/-- element `(r, c)` of `diag(v, k)` (`(n+|k|) × (n+|k|)`): inside the embedded `diag(v)` (rows `[-k⁻, …)`, columns
    `[k⁺, …)`) the `k = 0` plan, outside the constant pad -/
def diagKDen {α} [Inhabited α] (zero : α) (cs : List Nat) (xs : List α) (k : Int) (r c : Nat) : Option α :=
  let n := sum cs
  let m := n + k.natAbs
  let r0 := (max 0 (-k)).toNat     -- rows padded before
  let c0 := (max 0 k).toNat        -- columns padded before
  if r < m ∧ c < m then
    if r0 ≤ r ∧ r < r0 + n ∧ c0 ≤ c ∧ c < c0 + n then diagDen zero cs xs (r - r0) (c - c0) else some zero
  else none

/-- `np.diag(v, k)[r, c]` -/
def npDiagK {α} [Inhabited α] (zero : α) (xs : List α) (k : Int) (r c : Nat) : α :=
  if (c : Int) - (r : Int) = k then xs.getD (min r c) zero else zero

/-! ### `diag(v)` for 2-d `v`, `k = 0`, equal row/column chunks: block `i` of the result is `np.diag(block (i, i))` -/

/-- the input position read for output position `p` -/
def diag2dFastRead (cs : List Nat) (p : Nat) : Option (Nat × Nat) := do
  let (i, o) ← blockOf cs p
  pure (blockStart cs i + o, blockStart cs i + o)

end Dask.Creation
