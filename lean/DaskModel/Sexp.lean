/-
S-expressions for the line protocol between the Python harness and the Lean driver.
  atoms: integers (`-12`), symbols (`foo`, `none`), quoted strings (`"a\"b"`)
  lists: `( ... )`
Import-free so the driver links as a native executable.
-/
namespace Dask

inductive SExp where
  | int  : Int → SExp
  | sym  : String → SExp
  | str  : String → SExp
  | list : List SExp → SExp
  deriving Repr, BEq, Inhabited

namespace SExp

private def escape (s : String) : String :=
  s.foldl (fun acc c =>
    if c == '"' then acc ++ "\\\"" else
    if c == '\\' then acc ++ "\\\\" else
    if c == '\n' then acc ++ "\\n" else
    if c == '\r' then acc ++ "\\r" else
    if c == '\t' then acc ++ "\\t" else acc.push c) ""

partial def render : SExp → String
  | .int i => toString i
  | .sym s => s
  | .str s => "\"" ++ escape s ++ "\""
  | .list xs => "(" ++ " ".intercalate (xs.map render) ++ ")"

instance : ToString SExp := ⟨render⟩

/-- tokeniser + recursive-descent parser over a char list -/
private def isDelim (c : Char) : Bool := c == '(' || c == ')' || c == ' ' || c == '\n' || c == '\t' || c == '\r' || c == '"'

private partial def readStr (cs : List Char) (acc : String) : Option (String × List Char) :=
  match cs with
  | [] => none
  | '"' :: rest => some (acc, rest)
  | '\\' :: 'n' :: rest => readStr rest (acc.push '\n')
  | '\\' :: 'r' :: rest => readStr rest (acc.push '\r')
  | '\\' :: 't' :: rest => readStr rest (acc.push '\t')
  | '\\' :: c :: rest => readStr rest (acc.push c)
  | c :: rest => readStr rest (acc.push c)

private def atomOf (s : String) : SExp :=
  match s.toInt? with
  | some i => .int i
  | none => .sym s

mutual
private partial def parseOne (cs : List Char) : Option (SExp × List Char) :=
  match cs with
  | [] => none
  | c :: rest =>
    if c == ' ' || c == '\n' || c == '\t' || c == '\r' then parseOne rest
    else if c == '(' then parseMany rest []
    else if c == ')' then none
    else if c == '"' then
      match readStr rest "" with
      | some (s, r) => some (.str s, r)
      | none => none
    else
      let tok := cs.takeWhile (fun c => !isDelim c)
      let r := cs.dropWhile (fun c => !isDelim c)
      some (atomOf (String.ofList tok), r)
private partial def parseMany (cs : List Char) (acc : List SExp) : Option (SExp × List Char) :=
  match cs with
  | [] => none
  | c :: rest =>
    if c == ' ' || c == '\n' || c == '\t' || c == '\r' then parseMany rest acc
    else if c == ')' then some (.list acc.reverse, rest)
    else match parseOne cs with
      | some (e, r) => parseMany r (e :: acc)
      | none => none
end

def parse (s : String) : Option SExp :=
  match parseOne s.toList with
  | some (e, _) => some e
  | none => none

/-! decoding helpers -/
def toInt? : SExp → Option Int | .int i => some i | _ => none
def toNat? : SExp → Option Nat | .int i => if i ≥ 0 then some i.toNat else none | _ => none
def toStr? : SExp → Option String | .str s => some s | .sym s => some s | _ => none
def toList? : SExp → Option (List SExp) | .list xs => some xs | _ => none
def toInts? (e : SExp) : Option (List Int) := do (← e.toList?).mapM toInt?
def toNats? (e : SExp) : Option (List Nat) := do (← e.toList?).mapM toNat?
def toNatss? (e : SExp) : Option (List (List Nat)) := do (← e.toList?).mapM toNats?
def toIntss? (e : SExp) : Option (List (List Int)) := do (← e.toList?).mapM toInts?
/-- `none` symbol ↦ none, else int -/
def toOptInt? : SExp → Option (Option Int)
  | .sym "none" => some none
  | .int i => some (some i)
  | _ => none
def toBool? : SExp → Option Bool
  | .sym "true" => some true | .sym "false" => some false
  | .int 1 => some true | .int 0 => some false | _ => none

def ofNat (n : Nat) : SExp := .int n
def ofInts (xs : List Int) : SExp := .list (xs.map .int)
def ofNats (xs : List Nat) : SExp := .list (xs.map (fun n => .int (Int.ofNat n)))
def ofNatss (xs : List (List Nat)) : SExp := .list (xs.map ofNats)
def ofBool (b : Bool) : SExp := .sym (if b then "true" else "false")
def ofOptInt : Option Int → SExp | none => .sym "none" | some i => .int i
def ofOptNat : Option Nat → SExp | none => .sym "none" | some i => .int i
def err (msg : String) : SExp := .list [.sym "error", .sym msg]

end SExp
end Dask
