import DaskModel.Model.StructuralOps
import DaskModel.Lemmas.StructuralLemmas
/-! Lemmas for the block-level plans of Model/StructuralOps.lean (C24). -/
namespace Dask.Structural
open Dask.Chunks

/-- converse of `blockOf_spec` -/
theorem blockOf_of_spec : ∀ (cs : List Nat) (b c o : Nat), cs[b]? = some c → o < c →
    blockOf cs (blockStart cs b + o) = some (b, o)
  | [], b, c, o, h, _ => by simp at h
  | c0 :: cs, 0, c, o, h, ho => by
    simp only [List.getElem?_cons_zero, Option.some.injEq] at h; subst h
    simp [blockOf, blockStart_zero, ho]
  | c0 :: cs, b + 1, c, o, h, ho => by
    simp only [List.getElem?_cons_succ] at h
    rw [blockStart_succ]
    have : ¬ (c0 + blockStart cs b + o < c0) := by omega
    simp only [blockOf, this, if_false]
    have e : c0 + blockStart cs b + o - c0 = blockStart cs b + o := by omega
    rw [e, blockOf_of_spec cs b c o h ho]; rfl

theorem sum_reverse (l : List Nat) : sum l.reverse = sum l := by
  induction l with
  | nil => rfl
  | cons x l ih => rw [List.reverse_cons, sum_append, ih, sum_cons]; simp [sum]; omega

theorem sum_take_add_drop (l : List Nat) (j : Nat) : sum (l.take j) + sum (l.drop j) = sum l := by
  rw [← sum_append, List.take_append_drop]

theorem blockStart_reverse (cs : List Nat) (j : Nat) (hj : j ≤ cs.length) :
    blockStart cs.reverse j = sum cs - blockStart cs (cs.length - j) := by
  unfold blockStart
  rw [List.take_reverse, sum_reverse]
  have := sum_take_add_drop cs (cs.length - j)
  omega

theorem blockOf_reverse {cs : List Nat} {p b o : Nat} (h : blockOf cs p = some (b, o)) :
    ∃ c, cs[b]? = some c ∧ o < c ∧ blockOf cs.reverse (sum cs - 1 - p) = some (cs.length - 1 - b, c - 1 - o) := by
  obtain ⟨c, hc, ho, hs⟩ := blockOf_spec h
  refine ⟨c, hc, ho, ?_⟩
  have hb : b < cs.length := by
    rcases Nat.lt_or_ge b cs.length with h1 | h1
    · exact h1
    · rw [List.getElem?_eq_none h1] at hc; cases hc
  have hrev : cs.reverse[cs.length - 1 - b]? = some c := by
    rw [List.getElem?_reverse (by omega)]
    have : cs.length - 1 - (cs.length - 1 - b) = b := by omega
    rw [this]; exact hc
  have hst := blockStart_reverse cs (cs.length - 1 - b) (by omega)
  have e1 : cs.length - (cs.length - 1 - b) = b + 1 := by omega
  rw [e1, blockStart_succ_of_get hc] at hst
  have hle := blockStart_le_sum cs (b + 1)
  rw [blockStart_succ_of_get hc] at hle
  have := blockOf_of_spec cs.reverse (cs.length - 1 - b) c (c - 1 - o) hrev (by omega)
  rw [hst] at this
  have e2 : sum cs - (blockStart cs b + c) + (c - 1 - o) = sum cs - 1 - p := by omega
  rw [e2] at this
  exact this

theorem blockOf_lt_sum {cs : List Nat} {p b o : Nat} (h : blockOf cs p = some (b, o)) : p < sum cs := by
  obtain ⟨c, hc, ho, hs⟩ := blockOf_spec h
  have hle := blockStart_le_sum cs (b + 1)
  rw [blockStart_succ_of_get hc] at hle
  omega

/-! reads -/
theorem Vec.read_ofFn {α} (cs : List Nat) (A : Nat → α) (p : Nat) (hp : p < sum cs) :
    (Vec.ofFn cs A).read p = some (A p) := by
  obtain ⟨b, o, hb⟩ := blockOf_some hp
  obtain ⟨c, _, _, hs⟩ := blockOf_spec hb
  simp [Vec.read, Vec.ofFn, hb, hs]

theorem Grid.read_ofFn {α} (rc cc : List Nat) (A : Nat → Nat → α) (p q : Nat) (hp : p < sum rc) (hq : q < sum cc) :
    (Grid.ofFn rc cc A).read p q = some (A p q) := by
  obtain ⟨i, r, hi⟩ := blockOf_some hp
  obtain ⟨j, s, hj⟩ := blockOf_some hq
  obtain ⟨_, _, _, h1⟩ := blockOf_spec hi
  obtain ⟨_, _, _, h2⟩ := blockOf_spec hj
  simp [Grid.read, Grid.ofFn, hi, hj, h1, h2]

theorem Grid.transpose_read {α} (g : Grid α) (p q : Nat) : g.transpose.read q p = g.read p q := by
  unfold Grid.read Grid.transpose
  cases blockOf g.rc p <;> cases blockOf g.cc q <;> rfl

theorem Grid.flip1_read {α} (g : Grid α) (p q : Nat) (hq : q < sum g.cc) :
    g.flip1.read p q = g.read p (sum g.cc - 1 - q) := by
  have hq' : sum g.cc - 1 - q < sum g.cc := by omega
  obtain ⟨b, o, hb⟩ := blockOf_some hq'
  obtain ⟨c, hc, ho, hrev⟩ := blockOf_reverse hb
  have e : sum g.cc - 1 - (sum g.cc - 1 - q) = q := by omega
  rw [e] at hrev
  have hbl : b < g.cc.length := by
    rcases Nat.lt_or_ge b g.cc.length with h1 | h1
    · exact h1
    · rw [List.getElem?_eq_none h1] at hc; cases hc
  unfold Grid.read Grid.flip1
  simp only [hrev, hb]
  cases blockOf g.rc p with
  | none => rfl
  | some ir =>
    obtain ⟨i, r⟩ := ir
    have e1 : g.cc.length - 1 - (g.cc.length - 1 - b) = b := by omega
    simp only [e1, List.getD_eq_getElem?_getD, hc, Option.getD_some]
    have e2 : c - 1 - (c - 1 - o) = o := by omega
    rw [e2]

theorem Grid.flip0_read {α} (g : Grid α) (p q : Nat) (hp : p < sum g.rc) :
    g.flip0.read p q = g.read (sum g.rc - 1 - p) q := by
  have hp' : sum g.rc - 1 - p < sum g.rc := by omega
  obtain ⟨b, o, hb⟩ := blockOf_some hp'
  obtain ⟨c, hc, ho, hrev⟩ := blockOf_reverse hb
  have e : sum g.rc - 1 - (sum g.rc - 1 - p) = p := by omega
  rw [e] at hrev
  have hbl : b < g.rc.length := by
    rcases Nat.lt_or_ge b g.rc.length with h1 | h1
    · exact h1
    · rw [List.getElem?_eq_none h1] at hc; cases hc
  unfold Grid.read Grid.flip0
  simp only [hrev, hb]
  cases blockOf g.cc q with
  | none => rfl
  | some js =>
    obtain ⟨j, s⟩ := js
    have e1 : g.rc.length - 1 - (g.rc.length - 1 - b) = b := by omega
    simp only [e1, List.getD_eq_getElem?_getD, hc, Option.getD_some]
    have e2 : c - 1 - (c - 1 - o) = o := by omega
    rw [e2]


theorem Grid.flip1_cc_sum {α} (g : Grid α) : sum g.flip1.cc = sum g.cc := sum_reverse g.cc
theorem Grid.flip0_rc_sum {α} (g : Grid α) : sum g.flip0.rc = sum g.rc := sum_reverse g.rc

theorem Grid.tril_read {α} (z : α) (k : Int) (g : Grid α) (p q : Nat) :
    (g.tril z k).read p q = (g.read p q).map (fun v => if (q : Int) ≤ (p : Int) + k then v else z) := by
  unfold Grid.read Grid.tril
  cases hi : blockOf g.rc p with
  | none => rfl
  | some ir =>
    obtain ⟨i, r⟩ := ir
    cases hj : blockOf g.cc q with
    | none => rfl
    | some js =>
      obtain ⟨j, s⟩ := js
      obtain ⟨_, _, _, h1⟩ := blockOf_spec hi
      obtain ⟨_, _, _, h2⟩ := blockOf_spec hj
      simp only [triMask, h1, h2, Option.map_some]
      congr 1
      by_cases hc : (q : Int) ≤ (p : Int) + k
      · have : -k + (q : Int) ≤ (p : Int) := by omega
        simp [hc, this]
      · have : ¬ (-k + (q : Int) ≤ (p : Int)) := by omega
        simp [hc, this]

theorem Grid.triu_read {α} (z : α) (k : Int) (g : Grid α) (p q : Nat) :
    (g.triu z k).read p q = (g.read p q).map (fun v => if (p : Int) + k ≤ (q : Int) then v else z) := by
  unfold Grid.read Grid.triu
  cases hi : blockOf g.rc p with
  | none => rfl
  | some ir =>
    obtain ⟨i, r⟩ := ir
    cases hj : blockOf g.cc q with
    | none => rfl
    | some js =>
      obtain ⟨j, s⟩ := js
      obtain ⟨_, _, _, h1⟩ := blockOf_spec hi
      obtain ⟨_, _, _, h2⟩ := blockOf_spec hj
      simp only [triMask, h1, h2, Option.map_some]
      congr 1
      by_cases hc : (p : Int) + k ≤ (q : Int)
      · have : ¬ (-(k - 1) + (q : Int) ≤ (p : Int)) := by omega
        simp [hc, this]
      · have : -(k - 1) + (q : Int) ≤ (p : Int) := by omega
        simp [hc, this]

theorem blockOf_replicate_one : ∀ (n k : Nat), k < n → blockOf (List.replicate n 1) k = some (k, 0)
  | 0, k, h => by omega
  | n + 1, 0, _ => by simp [List.replicate_succ, blockOf]
  | n + 1, k + 1, h => by
    simp only [List.replicate_succ, blockOf]
    have : ¬ (k + 1 < 1) := by omega
    simp only [this, if_false, Nat.add_sub_cancel]
    rw [blockOf_replicate_one n k (by omega)]; rfl

theorem stackRows_read {α} (n : Nat) (cs : List Nat) (arr : Nat → Nat → Nat → α) (k q : Nat) (hk : k < n) :
    (stackRows n cs arr).read k q = (Vec.mk cs (arr k)).read q := by
  unfold Grid.read Vec.read stackRows
  simp only [blockOf_replicate_one n k hk]
  cases blockOf cs q <;> rfl

theorem stackCols_read {α} (n : Nat) (cs : List Nat) (arr : Nat → Nat → Nat → α) (p k : Nat) (hk : k < n) :
    (stackCols n cs arr).read p k = (Vec.mk cs (arr k)).read p := by
  unfold Grid.read Vec.read stackCols
  simp only [blockOf_replicate_one n k hk]
  cases blockOf cs p <;> rfl

theorem broadcastRows_read {α} (rows : List Nat) (v : Vec α) (p q : Nat) (hp : p < sum rows) :
    (broadcastRows rows v).read p q = v.read q := by
  obtain ⟨i, r, hi⟩ := blockOf_some hp
  unfold Grid.read Vec.read broadcastRows
  simp only [hi]
  cases blockOf v.cs q <;> rfl

theorem broadcastLen1_read {α} (new : List Nat) (v : Vec α) (p : Nat) (hv : v.cs = [1]) (hp : p < sum new) :
    (broadcastLen1 new v).read p = v.read 0 := by
  obtain ⟨i, r, hi⟩ := blockOf_some hp
  unfold Vec.read broadcastLen1
  simp [hi, hv, blockOf]

/-! one-axis plans on lists -/
theorem flipBlocks_flatten {α} (blocks : List (List α)) : (flipBlocks blocks).flatten = blocks.flatten.reverse := by
  unfold flipBlocks
  rw [List.reverse_flatten, List.map_reverse]

theorem flipBlocks_lengths {α} (blocks : List (List α)) :
    (flipBlocks blocks).map List.length = (blocks.map List.length).reverse := by
  unfold flipBlocks
  rw [List.map_map, ← List.map_reverse]
  apply List.map_congr_left
  intro b _; simp

theorem tileBlocks_flatten {α} (r : Nat) (blocks : List (List α)) :
    (tileBlocks r blocks).flatten = (List.replicate r blocks.flatten).flatten := by
  unfold tileBlocks
  induction r with
  | zero => rfl
  | succ r ih => simp only [List.replicate_succ, List.flatten_cons, List.flatten_append, ih]

theorem tile_getD {α} (d : α) (xs : List α) : ∀ (r p : Nat), p < r * xs.length →
    ((List.replicate r xs).flatten).getD p d = xs.getD (p % xs.length) d
  | 0, p, h => by omega
  | r + 1, p, h => by
    simp only [List.replicate_succ, List.flatten_cons]
    rw [List.getD_eq_getElem?_getD, List.getD_eq_getElem?_getD]
    by_cases hp : p < xs.length
    · rw [List.getElem?_append_left hp, Nat.mod_eq_of_lt hp]
    · rw [List.getElem?_append_right (by omega)]
      have hpos : 0 < xs.length := by
        rcases Nat.eq_zero_or_pos xs.length with h0 | h0
        · rw [h0] at h; omega
        · exact h0
      have ih := tile_getD d xs r (p - xs.length) (by rw [Nat.succ_mul] at h; omega)
      rw [List.getD_eq_getElem?_getD, List.getD_eq_getElem?_getD] at ih
      rw [ih]
      have : p % xs.length = (p - xs.length) % xs.length := by
        conv => lhs; rw [show p = (p - xs.length) + xs.length by omega]
        exact Nat.add_mod_right _ _
      rw [this]

theorem elemwiseBlocks_flatten {α β γ} (f : α → β → γ) : ∀ (u : List Nat) (a : List α) (b : List β),
    a.length = sum u → b.length = sum u →
    (elemwiseBlocks f (splitBy u a) (splitBy u b)).flatten = List.zipWith f a b
  | [], a, b, ha, hb => by
    have h1 : a = [] := by simpa [sum] using ha
    subst h1; simp [elemwiseBlocks, splitBy]
  | c :: u, a, b, ha, hb => by
    rw [sum_cons] at ha hb
    simp only [elemwiseBlocks, splitBy, List.zipWith_cons_cons, List.flatten_cons]
    have ih := elemwiseBlocks_flatten f u (a.drop c) (b.drop c) (by simp; omega) (by simp; omega)
    unfold elemwiseBlocks at ih
    rw [ih]
    conv => rhs; rw [← List.take_append_drop c a, ← List.take_append_drop c b]
    rw [List.zipWith_append (by simp; omega)]

theorem diff1_length (xs : List Int) : (diff1 xs).length = xs.length - 1 := by
  unfold diff1; simp

theorem diff1_getD (xs : List Int) (p : Nat) (hp : p + 1 < xs.length) :
    (diff1 xs).getD p 0 = xs.getD (p + 1) 0 - xs.getD p 0 := by
  unfold diff1
  rw [List.getD_eq_getElem?_getD, List.getElem?_zipWith]
  have h1 : (xs.drop 1)[p]? = some (xs.getD (p + 1) 0) := by
    rw [List.getElem?_drop, Nat.add_comm 1 p, List.getD_eq_getElem?_getD, List.getElem?_eq_getElem hp]; rfl
  have h2 : xs.dropLast[p]? = some (xs.getD p 0) := by
    rw [List.getElem?_dropLast]
    have : p < xs.length - 1 := by omega
    simp only [this, if_true]
    rw [List.getD_eq_getElem?_getD, List.getElem?_eq_getElem (by omega)]; rfl
  rw [h1, h2]; rfl

end Dask.Structural
