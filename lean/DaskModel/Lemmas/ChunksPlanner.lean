import DaskModel.Model.Chunks
/-! Helper lemmas for C23 (planner arithmetic): `sum`, `divideOne`, `ceilDiv`, `mergeHomogeneous`. -/
namespace Dask.Chunks

theorem sum_cons (c : Nat) (cs : List Nat) : sum (c :: cs) = c + sum cs := rfl
theorem sum_append (a b : List Nat) : sum (a ++ b) = sum a + sum b := by
  induction a with
  | nil => simp [sum]
  | cons x xs ih => simp only [List.cons_append, sum_cons, ih]; omega
theorem sum_replicate (n c : Nat) : sum (List.replicate n c) = n * c := by
  induction n with
  | zero => simp [sum]
  | succ n ih => simp only [List.replicate_succ, sum_cons, ih, Nat.succ_mul]; omega

theorem divideOne_sum : ∀ (k c : Nat), 0 < k → sum (divideOne k c) = c
  | 1, c, _ => by simp [divideOne, sum]
  | k + 2, c, _ => by
    rw [divideOne, sum_cons, divideOne_sum (k + 1) _ (by omega)]
    have := Nat.div_le_self c (k + 1 + 1)
    omega

theorem divideOne_length : ∀ (k c : Nat), (divideOne k c).length = k
  | 0, _ => rfl
  | k + 1, c => by simp [divideOne, divideOne_length k]

theorem divideOne_le : ∀ (k c w : Nat), c ≤ k * w → ∀ x ∈ divideOne k c, x ≤ w
  | 0, _, _, _, x, hx => by simp [divideOne] at hx
  | k + 1, c, w, h, x, hx => by
    simp only [divideOne, List.mem_cons] at hx
    have hq : c / (k + 1) ≤ w := by
      apply Nat.div_le_of_le_mul; simpa [Nat.mul_comm] using h
    rcases hx with hx | hx
    · omega
    · refine divideOne_le k _ w ?_ x hx
      -- c - c/(k+1) ≤ k*w
      have hdm := Nat.div_add_mod c (k + 1)
      have hr := Nat.mod_lt c (show 0 < k + 1 by omega)
      generalize c / (k + 1) = q at *
      generalize c % (k + 1) = r at *
      rcases Nat.lt_or_ge q w with hlt | hge
      · -- q ≤ w - 1 : q*k + r ≤ (w-1)*k + k
        have h1 : (k + 1) * q = k * q + q := by rw [Nat.add_mul]; omega
        have h2 : k * q ≤ k * (w - 1) := Nat.mul_le_mul_left k (by omega)
        have h3 : k * (w - 1) + k = k * w := by
          cases w with
          | zero => omega
          | succ w => simp [Nat.mul_succ]
        omega
      · have hqw : q = w := by omega
        subst hqw
        have h1 : (k + 1) * q = k * q + q := by rw [Nat.add_mul]; omega
        have h2 : (k + 1) * q = k * q + q := h1
        rw [Nat.add_mul] at h
        omega

theorem divideOne_pos : ∀ (k c : Nat), k ≤ c → ∀ x ∈ divideOne k c, 0 < x
  | 0, _, _, x, hx => by simp [divideOne] at hx
  | k + 1, c, h, x, hx => by
    simp only [divideOne, List.mem_cons] at hx
    have hq : 0 < c / (k + 1) := Nat.div_pos h (by omega)
    rcases hx with hx | hx
    · omega
    · refine divideOne_pos k _ ?_ x hx
      have hdm := Nat.div_add_mod c (k + 1)
      have hr := Nat.mod_lt c (show 0 < k + 1 by omega)
      generalize c / (k + 1) = q at *
      generalize c % (k + 1) = r at *
      have h1 : (k + 1) * q = k * q + q := by rw [Nat.add_mul]; omega
      have h2 : k ≤ k * q := Nat.le_mul_of_pos_right k hq
      omega

theorem ceilDiv_mul_ge (c w : Nat) (hw : 0 < w) : c ≤ ceilDiv c w * w := by
  unfold ceilDiv
  have := Nat.div_add_mod (c + w - 1) w
  have := Nat.mod_lt (c + w - 1) hw
  rw [Nat.mul_comm]
  omega

theorem ceilDiv_le_self (c w : Nat) (hw : 0 < w) : ceilDiv c w ≤ c := by
  unfold ceilDiv
  rcases Nat.eq_zero_or_pos c with h | h
  · subst h; simp; omega
  · apply Nat.div_le_of_le_mul
    cases w with
    | zero => omega
    | succ w =>
      cases c with
      | zero => omega
      | succ c => simp only [Nat.succ_mul, Nat.mul_succ]; omega

theorem ceilDiv_pos (c w : Nat) (hc : 0 < c) (hw : 0 < w) : 0 < ceilDiv c w := by
  unfold ceilDiv
  apply Nat.div_pos <;> omega

theorem mergeHomogeneous_spec {w n M : Nat} {r : List Nat} (h : mergeHomogeneous w n M = some r) :
    r.length = M ∧ sum r = n * w ∧ (M ≤ n → ∀ x ∈ r, 0 < x) := by
  unfold mergeHomogeneous at h
  split at h
  · cases h
  · rename_i hc
    have hM : 0 < M := by omega
    have hw : 0 < w := by omega
    injection h with h
    have hk : n * w / M / w = n / M := by
      rw [Nat.div_div_eq_div_mul, Nat.mul_div_mul_right _ _ hw]
    simp only [hk] at h
    have hdm := Nat.div_add_mod n M
    have hr := Nat.mod_lt n hM
    generalize hq : n / M = q at *
    generalize n % M = rr at *
    have hadj : (n * w - M * (w * q)) / w = rr := by
      have : n * w - M * (w * q) = rr * w := by
        rw [← hdm, Nat.add_mul]
        have : M * q * w = M * (w * q) := by rw [Nat.mul_assoc, Nat.mul_comm q w]
        omega
      rw [this, Nat.mul_div_cancel _ hw]
    rw [hadj] at h
    subst h
    refine ⟨by simp; omega, ?_, ?_⟩
    · rw [sum_append, sum_replicate, sum_replicate, ← hdm]
      have e1 : rr * (w * q + w) = rr * (w * q) + rr * w := Nat.mul_add ..
      have e2 : (M - rr) * (w * q) + rr * (w * q) = M * (w * q) := by
        rw [← Nat.add_mul]; congr 1; omega
      have e3 : (M * q + rr) * w = M * q * w + rr * w := Nat.add_mul ..
      have e4 : M * q * w = M * (w * q) := by rw [Nat.mul_assoc, Nat.mul_comm q w]
      omega
    · intro hMn x hx
      have hq1 : 0 < q := by
        rw [← hq]; exact Nat.div_pos hMn hM
      have : 0 < w * q := Nat.mul_pos hw hq1
      rcases List.mem_append.1 hx with hx | hx <;> rw [List.mem_replicate] at hx <;> omega

end Dask.Chunks
