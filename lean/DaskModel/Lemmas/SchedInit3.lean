import DaskModel.Lemmas.SchedInit2
/-! The task branch of one iteration of `while stack:`; the whole loop; `startState_ok`. -/
namespace Dask.Sched
variable {α : Type}

def waitOf (s : InitSt α) (deps : List Key) : List Key := deps.filter (fun d => !s.cache.has d)

/-- the state in which the task branch starts its loop over `task.dependencies` -/
def taskSt (s : InitSt α) (key : Key) (stack deps : List Key) : InitSt α :=
  { stack := stack, seen := key :: s.seen, readySet := if waitOf s deps = [] then sadd key s.readySet else s.readySet, dependencies := touch s.dependencies key, dependents := touch s.dependents key, waiting := if waitOf s deps = [] then s.waiting else s.waiting.set key (waitOf s deps), waitingData := touch s.waitingData key, cache := s.cache }

theorem initVisit_task (g : Graph) (P : Params α) (s : InitSt α) (key : Key) (stack deps : List Key)
    (hg : g.get? key = some (.task deps)) (hnc : s.cache.has key = false) :
    initVisit g P key { s with stack := stack } = .ok (taskDepsLoop key deps (taskSt s key stack deps)) := by
  unfold initVisit
  simp only [hg, hnc, Bool.false_eq_true, if_false]
  unfold taskSt waitOf
  by_cases hw : List.filter (fun d => !s.cache.has d) deps = []
  · simp only [hw, if_true]
  · simp only [hw, if_false]

theorem IInv.visit_task {g : Graph} {results : List Key} {P : Params α} {s : InitSt α}
    (h : IInv g results P s) (hG : GraphOK g results) {key : Key} {stack deps : List Key}
    (hst : s.stack = key :: stack) (hns : key ∉ s.seen) (hg : g.get? key = some (.task deps)) :
    ∃ s', initVisit g P key { s with stack := stack } = .ok s' ∧ IInv g results P s' ∧
      measure g s' < measure g s := by
  rw [initVisit_task g P s key stack deps hg (h.not_cached_of_not_seen hns)]
  refine ⟨_, rfl, ?_, ?_⟩
  all_goals
    have hkt : isTask g key := ⟨deps, hg⟩
    have hknd : ¬ isData g key := not_data_of_task hkt
    have hnd : nodeDeps g key = deps := nodeDeps_task hg
    have hN : deps.Nodup := hG.depsNodup key deps hg
    obtain ⟨e1, e2, e3, e4, e5, hD, hT, hWD⟩ := taskDepsLoop_spec key deps (taskSt s key stack deps) hN
  · -- the invariant
    have hknone : s.dependencies.get? key = none := by
      cases hc : s.dependencies.get? key with
      | none => rfl
      | some ds => exact absurd ((h.depsDom key).mp ⟨ds, hc⟩) hns
    have hdeps' : ∀ j, (taskDepsLoop key deps (taskSt s key stack deps)).dependencies.get? j =
        if key = j then some deps else s.dependencies.get? j := by
      intro j
      rw [hD j]
      show (if key = j ∧ deps ≠ [] then some (deps.foldl (fun a d => sadd d a) (((touch s.dependencies key).get? key).getD [])) else (touch s.dependencies key).get? j) = _
      rw [getD_touch, hknone]
      simp only [Option.getD_none]
      rw [foldl_sadd_nodup deps [] (by simpa using hN), get?_touch, hknone]
      by_cases hkj : key = j
      · by_cases hde : deps = []
        · simp [hkj, hde]
        · simp [hkj, hde]
      · simp [hkj]
    have hdts' : ∀ d, (taskDepsLoop key deps (taskSt s key stack deps)).dependents.get? d =
        if d ∈ deps then some (sadd key ((s.dependents.get? d).getD [])) else (touch s.dependents key).get? d := by
      intro d
      rw [hT d]
      show (if d ∈ deps then some (sadd key (((touch s.dependents key).get? d).getD [])) else (touch s.dependents key).get? d) = _
      rw [getD_touch]
    have hseen' : ∀ k, k ∈ (taskDepsLoop key deps (taskSt s key stack deps)).seen ↔ k = key ∨ k ∈ s.seen := by
      intro k; rw [e2]; exact List.mem_cons
    have hstack' : ∀ k, k ∈ (taskDepsLoop key deps (taskSt s key stack deps)).stack ↔ k ∈ deps ∨ k ∈ stack := by
      intro k; rw [e1]; simp [taskSt]
    have hCD' : ∀ d, CD g (taskDepsLoop key deps (taskSt s key stack deps)) d ↔ CD g s d := by
      intro d
      unfold CD
      rw [hseen']
      constructor
      · rintro ⟨h1 | h1, h2⟩
        · exact absurd (h1 ▸ h2) hknd
        · exact ⟨h1, h2⟩
      · rintro ⟨h1, h2⟩; exact ⟨Or.inr h1, h2⟩
    have hhas : ∀ d, s.cache.has d = true ↔ CD g s d := by
      intro d
      rw [Map.has_iff]
      constructor
      · rintro ⟨v, hv⟩
        obtain ⟨a, b, _⟩ := (h.cacheVal d v).mp hv
        exact ⟨a, b⟩
      · rintro ⟨a, b⟩
        exact ⟨P.dataVal d, (h.cacheVal d _).mpr ⟨a, b, rfl⟩⟩
    have hwait : ∀ d, d ∈ waitOf s deps ↔ (d ∈ deps ∧ ¬ CD g s d) := by
      intro d
      unfold waitOf
      rw [List.mem_filter, ← hhas d]
      simp
    have hwnil : waitOf s deps = [] ↔ ∀ d ∈ deps, CD g s d := by
      constructor
      · intro he d hd
        apply Classical.byContradiction
        intro hc
        have := (hwait d).mpr ⟨hd, hc⟩
        rw [he] at this
        cases this
      · intro hall
        apply List.eq_nil_iff_forall_not_mem.mpr
        intro d hd
        obtain ⟨a, b⟩ := (hwait d).mp hd
        exact b (hall d a)
    have hready' : ∀ k, k ∈ (taskDepsLoop key deps (taskSt s key stack deps)).readySet ↔
        (k ∈ s.readySet ∨ (k = key ∧ waitOf s deps = [])) := by
      intro k
      rw [e3]
      show k ∈ (if waitOf s deps = [] then sadd key s.readySet else s.readySet) ↔ _
      by_cases hw : waitOf s deps = []
      · simp only [hw, if_true, mem_sadd, and_true]; exact Or.comm
      · simp only [hw, if_false, and_false, or_false]
    have hwaiting' : ∀ k, (taskDepsLoop key deps (taskSt s key stack deps)).waiting.get? k =
        if key = k ∧ waitOf s deps ≠ [] then some (waitOf s deps) else s.waiting.get? k := by
      intro k
      rw [e4]
      show (if waitOf s deps = [] then s.waiting else s.waiting.set key (waitOf s deps)).get? k = _
      by_cases hw : waitOf s deps = []
      · simp [hw]
      · simp only [hw, if_false, Map.get?_set, ne_eq, not_false_eq_true, and_true]
    have hkwnone : s.waiting.get? key = none := by
      cases hc : s.waiting.get? key with
      | none => rfl
      | some w => exact absurd (h.waitIff key w hc).1 hns
    refine ⟨?_, ?_, ?_, ?_, ?_, ?_, ?_, ?_, ?_, ?_, ?_, ?_, ?_, ?_, ?_, ?_, ?_, ?_⟩
    · intro k hk
      rcases (hstack' k).mp hk with h1 | h1
      · exact hG.closed key deps k hg h1
      · exact h.stackGraph k (by rw [hst]; exact List.mem_cons_of_mem _ h1)
    · intro k hk
      rcases (hseen' k).mp hk with rfl | h1
      · exact ⟨_, hg⟩
      · exact h.seenGraph k h1
    · intro r hr
      rw [hseen', hstack']
      rcases h.resCover r hr with h1 | h1
      · exact Or.inl (Or.inr h1)
      · rw [hst] at h1
        rcases List.mem_cons.mp h1 with h2 | h2
        · exact Or.inl (Or.inl h2)
        · exact Or.inr (Or.inr h2)
    · intro k hk d hd
      rw [hseen', hstack']
      rcases (hseen' k).mp hk with rfl | h1
      · rw [hnd] at hd; exact Or.inr (Or.inl hd)
      · rcases h.depCover k h1 d hd with h2 | h2
        · exact Or.inl (Or.inr h2)
        · rw [hst] at h2
          rcases List.mem_cons.mp h2 with h3 | h3
          · exact Or.inl (Or.inl h3)
          · exact Or.inr (Or.inr h3)
    · intro k hk
      rw [hseen', hstack'] at hk
      have hlift : (k ∈ s.seen ∨ k ∈ s.stack) → k ∈ results ∨ ∃ j ∈ (taskDepsLoop key deps (taskSt s key stack deps)).seen, k ∈ nodeDeps g j := by
        intro hold
        rcases h.needed k hold with h1 | ⟨j, hj, hkj⟩
        · exact Or.inl h1
        · exact Or.inr ⟨j, (hseen' j).mpr (Or.inr hj), hkj⟩
      rcases hk with (rfl | h1) | (h1 | h1)
      · exact hlift (Or.inr (by rw [hst]; simp))
      · exact hlift (Or.inl h1)
      · exact Or.inr ⟨key, (hseen' key).mpr (Or.inl rfl), by rw [hnd]; exact h1⟩
      · exact hlift (Or.inr (by rw [hst]; exact List.mem_cons_of_mem _ h1))
    · intro k
      rw [hdeps' k, hseen']
      constructor
      · rintro ⟨ds, hds⟩
        split at hds
        · rename_i hc; exact Or.inl hc.symm
        · exact Or.inr ((h.depsDom k).mp ⟨ds, hds⟩)
      · rintro (rfl | h1)
        · exact ⟨deps, by simp⟩
        · obtain ⟨ds, hds⟩ := (h.depsDom k).mpr h1
          by_cases hkk : key = k
          · exact ⟨deps, by simp [hkk]⟩
          · exact ⟨ds, by simp [hkk, hds]⟩
    · intro k ds hds
      rw [hdeps' k] at hds
      split at hds
      · rename_i hc
        simp only [Option.some.injEq] at hds
        rw [← hds, ← hc, hnd]
      · exact h.depsVal k ds hds
    · -- dtsVal
      intro d j
      rw [hdts' d, hseen']
      by_cases hdd : d ∈ deps
      · simp only [hdd, if_true, Option.getD_some, mem_sadd]
        rw [h.dtsVal d j]
        constructor
        · rintro (rfl | ⟨h1, h2⟩)
          · exact ⟨Or.inl rfl, by rw [hnd]; exact hdd⟩
          · exact ⟨Or.inr h1, h2⟩
        · rintro ⟨rfl | h1, h2⟩
          · exact Or.inl rfl
          · exact Or.inr ⟨h1, h2⟩
      · simp only [hdd, if_false]
        rw [getD_touch, h.dtsVal d j]
        constructor
        · rintro ⟨h1, h2⟩; exact ⟨Or.inr h1, h2⟩
        · rintro ⟨rfl | h1, h2⟩
          · rw [hnd] at h2; exact absurd h2 hdd
          · exact ⟨h1, h2⟩
    · intro d l hl
      rw [hdts' d] at hl
      split at hl
      · simp only [Option.some.injEq] at hl
        subst hl
        apply nodup_sadd
        cases hd : s.dependents.get? d with
        | none => simp
        | some l0 => simpa using h.dtsNodup d l0 hd
      · rw [get?_touch] at hl
        split at hl
        · simp only [Option.some.injEq] at hl; subst hl; simp
        · exact h.dtsNodup d l hl
    · intro k hk
      rw [hdts' k]
      by_cases hkd : k ∈ deps
      · exact ⟨sadd key ((s.dependents.get? k).getD []), by simp [hkd]⟩
      · simp only [hkd, if_false, get?_touch]
        rcases (hseen' k).mp hk with rfl | h1
        · by_cases hc : s.dependents.get? k = none
          · exact ⟨[], by simp [hc]⟩
          · obtain ⟨l, hl⟩ := Option.ne_none_iff_exists'.mp hc
            exact ⟨l, by simp [hl]⟩
        · obtain ⟨l, hl⟩ := h.dtsDom k h1
          exact ⟨l, by
            split
            · rename_i hc; rw [← hc.1] at hl; rw [hc.2] at hl; cases hl
            · exact hl⟩
    · apply hWD
      show touch s.waitingData key = touch s.dependents key
      rw [h.wdEq]
    · intro k v
      rw [e5]
      show s.cache.get? k = some v ↔ _
      rw [h.cacheVal k v, hseen']
      constructor
      · rintro ⟨h1, h2, h3⟩; exact ⟨Or.inr h1, h2, h3⟩
      · rintro ⟨h1 | h1, h2, h3⟩
        · exact absurd (h1 ▸ h2) hknd
        · exact ⟨h1, h2, h3⟩
    · rw [e3]
      show (if waitOf s deps = [] then sadd key s.readySet else s.readySet).Nodup
      split
      · exact nodup_sadd h.readyNodup
      · exact h.readyNodup
    · -- readyIff
      intro k
      rw [hready' k, hseen']
      constructor
      · rintro (h1 | ⟨rfl, hw⟩)
        · obtain ⟨a, b, c⟩ := (h.readyIff k).mp h1
          exact ⟨Or.inr a, b, fun d hd => (hCD' d).mpr (c d hd)⟩
        · refine ⟨Or.inl rfl, hkt, ?_⟩
          intro d hd
          rw [hnd] at hd
          exact (hCD' d).mpr ((hwnil.mp hw) d hd)
      · rintro ⟨hks, hkt', hall⟩
        rcases hks with rfl | h1
        · right
          refine ⟨rfl, hwnil.mpr ?_⟩
          intro d hd
          exact (hCD' d).mp (hall d (by rw [hnd]; exact hd))
        · left
          exact (h.readyIff k).mpr ⟨h1, hkt', fun d hd => (hCD' d).mp (hall d hd)⟩
    · -- waitIff
      intro k w hw
      rw [hwaiting' k] at hw
      rw [hseen']
      split at hw
      · rename_i hc
        simp only [Option.some.injEq] at hw
        subst hw
        obtain ⟨rfl, hne⟩ := hc
        refine ⟨Or.inl rfl, hkt, hne, ?_⟩
        intro d
        rw [hwait d, hnd, hCD']
      · obtain ⟨a, b, c, e⟩ := h.waitIff k w hw
        refine ⟨Or.inr a, b, c, ?_⟩
        intro d
        rw [e d, hCD']
    · -- waitCover
      intro k hk hkt' ⟨d, hd, hcd⟩
      have hcd0 : ¬ CD g s d := fun hc => hcd ((hCD' d).mpr hc)
      rw [hwaiting' k]
      rcases (hseen' k).mp hk with rfl | h1
      · have hne : waitOf s deps ≠ [] := by
          intro he
          exact hcd0 ((hwnil.mp he) d (by rw [← hnd]; exact hd))
        exact ⟨waitOf s deps, by simp [hne]⟩
      · obtain ⟨w0, hw0⟩ := h.waitCover k h1 hkt' ⟨d, hd, hcd0⟩
        have hkk : key ≠ k := by
          rintro rfl
          rw [hkwnone] at hw0
          cases hw0
        exact ⟨w0, by simp [hkk, hw0]⟩
    · -- dtsLive
      intro d l hl
      rw [hdts' d] at hl
      rw [hseen']
      split at hl
      · simp only [Option.some.injEq] at hl
        subst hl
        exact Or.inr (sadd_ne_nil _ _)
      · rw [get?_touch] at hl
        split at hl
        · rename_i hc; exact Or.inl (Or.inl hc.1.symm)
        · rcases h.dtsLive d l hl with h1 | h1
          · exact Or.inl (Or.inr h1)
          · exact Or.inr h1
    · -- reach
      intro k hk
      rw [hseen', hstack'] at hk
      have hkey : Reach g results key := h.reach key (Or.inr (by rw [hst]; simp))
      rcases hk with (rfl | h1) | (h1 | h1)
      · exact hkey
      · exact h.reach k (Or.inl h1)
      · exact Reach.step hkey (by rw [hnd]; exact h1)
      · exact h.reach k (Or.inr (by rw [hst]; exact List.mem_cons_of_mem _ h1))
  · -- the measure
    unfold measure
    rw [e1, e2, hst]
    have := remSum_visit_task g s.seen key deps hns hg
    simp only [taskSt, List.length_append, List.length_reverse, List.length_cons]
    omega

/-! ### the whole loop -/

theorem IInv.drop_seen {g : Graph} {results : List Key} {P : Params α} {s : InitSt α}
    (h : IInv g results P s) {key : Key} {stack : List Key} (hst : s.stack = key :: stack) (hks : key ∈ s.seen) :
    IInv g results P { s with stack := stack } := by
  refine ⟨?_, h.seenGraph, ?_, ?_, ?_, h.depsDom, h.depsVal, h.dtsVal, h.dtsNodup, h.dtsDom, h.wdEq, h.cacheVal,
    h.readyNodup, h.readyIff, h.waitIff, h.waitCover, h.dtsLive, ?_⟩
  · intro k hk; exact h.stackGraph k (by rw [hst]; exact List.mem_cons_of_mem _ hk)
  · intro r hr
    rcases h.resCover r hr with h1 | h1
    · exact Or.inl h1
    · rw [hst] at h1
      rcases List.mem_cons.mp h1 with rfl | h2
      · exact Or.inl hks
      · exact Or.inr h2
  · intro k hk d hd
    rcases h.depCover k hk d hd with h1 | h1
    · exact Or.inl h1
    · rw [hst] at h1
      rcases List.mem_cons.mp h1 with rfl | h2
      · exact Or.inl hks
      · exact Or.inr h2
  · intro k hk
    apply h.needed k
    rcases hk with h1 | h1
    · exact Or.inl h1
    · exact Or.inr (by rw [hst]; exact List.mem_cons_of_mem _ h1)
  · intro k hk
    apply h.reach k
    rcases hk with h1 | h1
    · exact Or.inl h1
    · exact Or.inr (by rw [hst]; exact List.mem_cons_of_mem _ h1)

theorem initLoop_spec {g : Graph} {results : List Key} {P : Params α} (hG : GraphOK g results) :
    ∀ (fuel : Nat) (s : InitSt α), IInv g results P s → measure g s < fuel →
    ∃ s', initLoop g P fuel s = .ok s' ∧ IInv g results P s' ∧ s'.stack = [] := by
  intro fuel
  induction fuel with
  | zero => intro s _ hm; omega
  | succ fuel ih =>
    intro s h hm
    unfold initLoop
    cases hst : s.stack with
    | nil => exact ⟨s, rfl, h, hst⟩
    | cons key stack =>
      simp only []
      by_cases hks : key ∈ s.seen
      · simp only [hks, if_true]
        apply ih _ (h.drop_seen hst hks)
        unfold measure at hm ⊢
        rw [hst] at hm
        simp only [List.length_cons] at hm
        show stack.length + remSum g s.seen < fuel
        omega
      · simp only [hks, if_false]
        obtain ⟨nd, hnd⟩ := h.stackGraph key (by rw [hst]; simp)
        cases nd with
        | data =>
          obtain ⟨s', hv, hI, hlt⟩ := h.visit_data hst hks hnd
          rw [hv]
          exact ih s' hI (by omega)
        | task deps =>
          obtain ⟨s', hv, hI, hlt⟩ := h.visit_task hG hst hks hnd
          rw [hv]
          exact ih s' hI (by omega)

theorem remSum_nil (g : Graph) :
    remSum g [] = (g.map (fun p => match p.2 with | .data => 0 | .task deps => deps.length)).sum := by
  unfold remSum
  have : g.filter (fun p => !(([] : List Key).contains p.1)) = g := by
    apply List.filter_eq_self.mpr
    intro a _
    simp
  rw [this]
  rfl

theorem IInv.init {g : Graph} {results : List Key} {P : Params α} (hG : GraphOK g results) :
    IInv g results P ({ stack := results } : InitSt α) := by
  refine ⟨hG.resultsIn, ?_, fun r hr => Or.inr hr, ?_, ?_, ?_, ?_, ?_, ?_, ?_, rfl, ?_, by simp, ?_, ?_, ?_, ?_, ?_⟩
  · intro k hk; cases hk
  · intro k hk; cases hk
  · intro k hk
    rcases hk with h1 | h1
    · cases h1
    · exact Or.inl h1
  · intro k
    constructor
    · rintro ⟨ds, hds⟩; simp at hds
    · intro hk; cases hk
  · intro k ds hds; simp at hds
  · intro d j
    constructor
    · intro hj; simp at hj
    · rintro ⟨hj, _⟩; cases hj
  · intro d l hl; simp at hl
  · intro k hk; cases hk
  · intro k v
    constructor
    · intro hv; simp at hv
    · rintro ⟨hk, _⟩; cases hk
  · intro k
    constructor
    · intro hk; cases hk
    · rintro ⟨hk, _⟩; cases hk
  · intro k w hw; simp at hw
  · intro k hk; cases hk
  · intro d l hl; simp at hl
  · intro k hk
    rcases hk with h1 | h1
    · cases h1
    · exact Reach.base h1

end Dask.Sched
