import DaskModel.Lemmas.StorePlan
import DaskModel.Lemmas.SetItemPlan
import DaskModel.Lemmas.SliceInt
/-! C29, N-d: a target position is written by block `b` iff on every axis its coordinate lies in the piece of the
    region that block `b_k` writes (NumPy: `target[s_1, …, s_n] = block` writes the per-axis product). Every position
    of `target[region][:source.shape]` is written by exactly one block. -/
namespace Dask.Store
open Dask.Slice1D Dask.SetItem

/-- the piece `P[l0:l1]` of the region's positions that the block `(l0, l1)` writes along one axis
    (`store_region_den`) -/
def pieceOf {α : Type} (P : List α) (loc : Int × Int) : List α := (P.drop loc.1.toNat).take (loc.2 - loc.1).toNat

theorem locationsFrom_get : ∀ (ls : List Nat) (acc : Nat) (k : Nat) (loc : Int × Int),
    (locationsFrom (acc : Int) ls)[k]? = some loc →
    ∃ l, ls[k]? = some l ∧ loc.1 = ((acc + (ls.take k).sum : Nat) : Int) ∧ loc.2 = ((acc + (ls.take k).sum + l : Nat) : Int) := by
  intro ls
  induction ls with
  | nil => intro acc k loc h; simp [locationsFrom] at h
  | cons l ls ih =>
    intro acc k loc h
    cases k with
    | zero =>
      simp only [locationsFrom, List.getElem?_cons_zero, Option.some.injEq] at h
      subst h
      exact ⟨l, rfl, by simp, by simp⟩
    | succ k =>
      simp only [locationsFrom, List.getElem?_cons_succ] at h
      have e : ((acc : Int) + (l : Int)) = ((acc + l : Nat) : Int) := by simp
      rw [e] at h
      obtain ⟨l', h1, h2, h3⟩ := ih (acc + l) k loc h
      refine ⟨l', by simpa using h1, ?_, ?_⟩
      · rw [h2]; simp only [List.take_succ_cons, List.sum_cons]; omega
      · rw [h3]; simp only [List.take_succ_cons, List.sum_cons]; omega

theorem mem_piece_iff {α : Type} (P : List α) (a n : Nat) (x : α) :
    x ∈ (P.drop a).take n ↔ ∃ i, a ≤ i ∧ i < a + n ∧ P[i]? = some x := by
  rw [List.mem_iff_getElem?]
  constructor
  · rintro ⟨j, hj⟩
    rw [List.getElem?_take] at hj
    by_cases hjn : j < n
    · rw [if_pos hjn, List.getElem?_drop] at hj
      exact ⟨a + j, by omega, by omega, hj⟩
    · rw [if_neg hjn] at hj; cases hj
  · rintro ⟨i, h1, h2, h3⟩
    refine ⟨i - a, ?_⟩
    rw [List.getElem?_take, if_pos (by omega), List.getElem?_drop]
    have : a + (i - a) = i := by omega
    rw [this]; exact h3

theorem nodup_index_unique {α : Type} : ∀ (P : List α), P.Nodup → ∀ (i j : Nat) (x : α),
    P[i]? = some x → P[j]? = some x → i = j := by
  intro P
  induction P with
  | nil => intro _ i j x h; simp at h
  | cons p ps ih =>
    intro hnd i j x hi hj
    rw [List.nodup_cons] at hnd
    cases i with
    | zero =>
      cases j with
      | zero => rfl
      | succ j =>
        simp only [List.getElem?_cons_zero, Option.some.injEq] at hi
        simp only [List.getElem?_cons_succ] at hj
        subst hi
        exact absurd (List.mem_of_getElem? hj) hnd.1
    | succ i =>
      cases j with
      | zero =>
        simp only [List.getElem?_cons_zero, Option.some.injEq] at hj
        simp only [List.getElem?_cons_succ] at hi
        subst hj
        exact absurd (List.mem_of_getElem? hi) hnd.1
      | succ j =>
        simp only [List.getElem?_cons_succ] at hi hj
        rw [ih hnd.2 i j x hi hj]

/-- one axis, cover: the positions `P[: sum(lengths)]` are exactly those lying in the piece of some block -/
theorem axis_piece_cover {α : Type} (P : List α) (lengths : List Nat) (x : α) :
    x ∈ P.take lengths.sum ↔ ∃ (k : Nat) (loc : Int × Int), (locations lengths)[k]? = some loc ∧ x ∈ pieceOf P loc := by
  have h := pieces_concat P lengths 0
  simp only [List.drop_zero] at h
  rw [← h]
  simp only [List.mem_flatMap, locations, pieceOf]
  constructor
  · rintro ⟨loc, hloc, hx⟩
    obtain ⟨k, hk⟩ := List.mem_iff_getElem?.mp hloc
    exact ⟨k, loc, by simpa using hk, hx⟩
  · rintro ⟨k, loc, hk, hx⟩
    exact ⟨loc, List.mem_of_getElem? (by simpa using hk), hx⟩

/-- one axis, uniqueness: with distinct region positions, two blocks whose pieces share a position are the same -/
theorem axis_piece_unique {α : Type} (P : List α) (hnd : P.Nodup) (lengths : List Nat) (k k' : Nat)
    (loc loc' : Int × Int) (x : α)
    (hk : (locations lengths)[k]? = some loc) (hk' : (locations lengths)[k']? = some loc')
    (hx : x ∈ pieceOf P loc) (hx' : x ∈ pieceOf P loc') : k = k' := by
  unfold locations at hk hk'
  obtain ⟨l, hl, h1, h2⟩ := locationsFrom_get lengths 0 k loc (by simpa using hk)
  obtain ⟨l', hl', h1', h2'⟩ := locationsFrom_get lengths 0 k' loc' (by simpa using hk')
  unfold pieceOf at hx hx'
  rw [mem_piece_iff] at hx hx'
  obtain ⟨i, hi1, hi2, hi3⟩ := hx
  obtain ⟨j, hj1, hj2, hj3⟩ := hx'
  have hij := nodup_index_unique P hnd i j x hi3 hj3
  subst hij
  have hs := sum_take_succ lengths k l hl
  have hs' := sum_take_succ lengths k' l' hl'
  rcases Nat.lt_trichotomy k k' with hlt | heq | hgt
  · have := sum_take_mono lengths (k + 1) k' (by omega)
    omega
  · exact heq
  · have := sum_take_mono lengths (k' + 1) k (by omega)
    omega

/-- `BlockWrites Ps chunks b t`: the block with coordinates `b` writes the N-d target position `t` -/
def BlockWrites {α : Type} : List (List α) → List (List Nat) → List Nat → List α → Prop
  | P :: Ps, c :: cs, k :: ks, x :: xs =>
    (∃ loc : Int × Int, (locations c)[k]? = some loc ∧ x ∈ pieceOf P loc) ∧ BlockWrites Ps cs ks xs
  | [], [], [], [] => True
  | _, _, _, _ => False

/-- `InRegion Ps chunks t`: on every axis `t_k` is one of the first `len(source_k)` positions the region selects -/
def InRegion {α : Type} : List (List α) → List (List Nat) → List α → Prop
  | P :: Ps, c :: cs, x :: xs => x ∈ P.take c.sum ∧ InRegion Ps cs xs
  | [], [], [] => True
  | _, _, _ => False

theorem blockWrites_cover {α : Type} : ∀ (Ps : List (List α)) (cs : List (List Nat)) (t : List α),
    InRegion Ps cs t ↔ ∃ b, BlockWrites Ps cs b t := by
  intro Ps
  induction Ps with
  | nil =>
    intro cs t
    cases cs with
    | nil =>
      cases t with
      | nil => exact ⟨fun _ => ⟨[], trivial⟩, fun _ => trivial⟩
      | cons x xs =>
        constructor
        · intro h; exact absurd h (by simp [InRegion])
        · rintro ⟨b, hb⟩; cases b <;> simp [BlockWrites] at hb
    | cons c cs =>
      constructor
      · intro h; exact absurd h (by simp [InRegion])
      · rintro ⟨b, hb⟩; cases b <;> cases t <;> simp [BlockWrites] at hb
  | cons P Ps ih =>
    intro cs t
    cases cs with
    | nil =>
      constructor
      · intro h; exact absurd h (by simp [InRegion])
      · rintro ⟨b, hb⟩; cases b <;> cases t <;> simp [BlockWrites] at hb
    | cons c cs =>
      cases t with
      | nil =>
        constructor
        · intro h; exact absurd h (by simp [InRegion])
        · rintro ⟨b, hb⟩; cases b <;> simp [BlockWrites] at hb
      | cons x xs =>
        simp only [InRegion]
        rw [axis_piece_cover, ih cs xs]
        constructor
        · rintro ⟨⟨k, loc, hk, hx⟩, b, hb⟩
          exact ⟨k :: b, ⟨loc, hk, hx⟩, hb⟩
        · rintro ⟨b, hb⟩
          cases b with
          | nil => simp [BlockWrites] at hb
          | cons k ks =>
            simp only [BlockWrites] at hb
            obtain ⟨⟨loc, hk, hx⟩, hrest⟩ := hb
            exact ⟨⟨k, loc, hk, hx⟩, ks, hrest⟩

theorem blockWrites_unique {α : Type} : ∀ (Ps : List (List α)), (∀ P ∈ Ps, P.Nodup) →
    ∀ (cs : List (List Nat)) (b b' : List Nat) (t : List α),
    BlockWrites Ps cs b t → BlockWrites Ps cs b' t → b = b' := by
  intro Ps
  induction Ps with
  | nil =>
    intro _ cs b b' t h h'
    cases cs <;> cases b <;> cases b' <;> cases t <;> simp_all [BlockWrites]
  | cons P Ps ih =>
    intro hnd cs b b' t h h'
    cases cs with
    | nil => cases b <;> cases t <;> simp [BlockWrites] at h
    | cons c cs =>
      cases t with
      | nil => cases b <;> simp [BlockWrites] at h
      | cons x xs =>
        cases b with
        | nil => simp [BlockWrites] at h
        | cons k ks =>
          cases b' with
          | nil => simp [BlockWrites] at h'
          | cons k' ks' =>
            simp only [BlockWrites] at h h'
            obtain ⟨⟨loc, hk, hx⟩, hrest⟩ := h
            obtain ⟨⟨loc', hk', hx'⟩, hrest'⟩ := h'
            have e1 := axis_piece_unique P (hnd P (by simp)) c k k' loc loc' x hk hk' hx hx'
            have e2 := ih (fun Q hQ => hnd Q (by simp [hQ])) cs ks ks' xs hrest hrest'
            rw [e1, e2]

/-- the per-axis data of an N-d store: target length and a normalisable positive-step region per axis, and the
    target positions `P` each region selects -/
def RegionAxes : List (Nat × PSlice) → List (List Int) → Prop
  | (N, a) :: rest, P :: Ps =>
    (∃ a0 astop st, optNormalize a = some (a0, astop, st) ∧ 0 < st ∧ pySliceIdx N a = some P) ∧ RegionAxes rest Ps
  | [], [] => True
  | _, _ => False

theorem regionAxes_nodup : ∀ (axes : List (Nat × PSlice)) (Ps : List (List Int)), RegionAxes axes Ps →
    ∀ P ∈ Ps, P.Nodup := by
  intro axes
  induction axes with
  | nil => intro Ps h P hP; cases Ps <;> simp_all [RegionAxes]
  | cons ax rest ih =>
    intro Ps h P hP
    cases Ps with
    | nil => simp [RegionAxes] at h
    | cons Q Qs =>
      obtain ⟨N, a⟩ := ax
      simp only [RegionAxes] at h
      obtain ⟨⟨a0, astop, st, hn, hst, hQ⟩, hrest⟩ := h
      rcases List.mem_cons.mp hP with rfl | hP'
      · have hQ' := pySliceIdx_region N hn hst
        rw [hQ] at hQ'
        injection hQ' with hQ'
        subst hQ'
        exact (rangeUp_pairwise_lt _ _ hst _).imp (fun h => Int.ne_of_lt h)
      · exact ih Qs hrest P hP'

end Dask.Store
