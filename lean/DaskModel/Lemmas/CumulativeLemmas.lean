import DaskModel.Model.Cumulative
/-! Helper lemmas for C46 (cumulative part): block-scan algebra of `cumSkip` / `cumNo`. -/
namespace Dask.Cumulative

/-- what the theorems need of the binary operation -/
structure AC (f : Int → Int → Int) : Prop where
  assoc : ∀ a b c, f (f a b) c = f a (f b c)
  comm : ∀ a b, f a b = f b a

theorem cellOp_comm {f} (h : AC f) (x y : Cell) : cellOp f x y = cellOp f y x := by
  cases x <;> cases y <;> simp [cellOp, h.comm]

theorem cellOp_assoc {f} (h : AC f) (x y z : Cell) :
    cellOp f (cellOp f x y) z = cellOp f x (cellOp f y z) := by
  cases x <;> cases y <;> cases z <;> simp [cellOp, h.assoc]

/-! ### skipna = True -/

theorem cumSkip_append (f) (acc : Option Int) (p q : List Cell) :
    cumSkip f acc (p ++ q) = cumSkip f acc p ++ cumSkip f (stateSkip f acc p) q := by
  induction p generalizing acc with
  | nil => simp [cumSkip, stateSkip]
  | cons c xs ih =>
    cases c with
    | none => simp [cumSkip, stateSkip, ih]
    | some v => cases acc <;> simp [cumSkip, stateSkip, ih]

theorem stateSkip_append (f) (acc : Option Int) (p q : List Cell) :
    stateSkip f acc (p ++ q) = stateSkip f (stateSkip f acc p) q := by
  induction p generalizing acc with
  | nil => simp [stateSkip]
  | cons c xs ih =>
    cases c with
    | none => simp [stateSkip, ih]
    | some v => cases acc <;> simp [stateSkip, ih]

theorem cumSkip_length (f) (acc : Option Int) (p : List Cell) : (cumSkip f acc p).length = p.length := by
  induction p generalizing acc with
  | nil => simp [cumSkip]
  | cons c xs ih =>
    cases c with
    | none => simp [cumSkip, ih]
    | some v => cases acc <;> simp [cumSkip, ih]

/-- a scan started from `a` is the scan started from nothing, shifted by `a` -/
theorem cumSkip_some {f} (h : AC f) (a : Int) (p : List Cell) :
    cumSkip f (some a) p = (cumSkip f none p).map (fun e => cellOp f e (some a)) := by
  induction p generalizing a with
  | nil => simp [cumSkip]
  | cons c xs ih =>
    cases c with
    | none => simp [cumSkip, ih a, cellOp]
    | some v =>
      simp only [cumSkip, List.map_cons, cellOp]
      rw [ih (f a v), ih v, List.map_map]
      congr 1
      · rw [h.comm]
      · apply List.map_congr_left
        intro e _
        cases e with
        | none => simp [cellOp]
        | some w => simp [cellOp, h.assoc, h.comm a v]

theorem stateSkip_some {f} (h : AC f) (a : Int) (p : List Cell) :
    stateSkip f (some a) p =
      match stateSkip f none p with
      | none => some a
      | some s => some (f s a) := by
  induction p generalizing a with
  | nil => simp [stateSkip]
  | cons c xs ih =>
    cases c with
    | none => simp [stateSkip, ih a]
    | some v =>
      simp only [stateSkip]
      rw [ih (f a v), ih v]
      cases stateSkip f none xs with
      | none => simp [h.comm]
      | some s => simp [h.assoc, h.comm a v]

theorem stateSkip_isSome_of_lastValid (f) (acc : Option Int) (p : List Cell) (v : Int)
    (hv : lastValid p = some v) : (stateSkip f acc p).isSome := by
  induction p generalizing acc with
  | nil => simp [lastValid] at hv
  | cons c xs ih =>
    simp only [lastValid] at hv
    cases hx : lastValid xs with
    | some w =>
      rw [hx] at hv
      simp only [Option.some.injEq] at hv
      subst hv
      cases c with
      | none => simpa [stateSkip] using ih acc hx
      | some u => cases acc <;> simpa [stateSkip] using ih _ hx
    | none =>
      rw [hx] at hv
      subst hv
      -- the head is the last valid value, the tail has none: the state after the tail stays `some`
      have hstay : ∀ (xs : List Cell) (a : Int), lastValid xs = none → stateSkip f (some a) xs = some a := by
        intro xs
        induction xs with
        | nil => intro a _; simp [stateSkip]
        | cons d ys ihy =>
          intro a hd
          simp only [lastValid] at hd
          cases hy : lastValid ys with
          | some w => rw [hy] at hd; simp at hd
          | none =>
            rw [hy] at hd
            subst hd
            simpa [stateSkip] using ihy a hy
      cases acc <;> simp [stateSkip, hstay _ _ hx]

theorem stateSkip_none_of_lastValid (f) (p : List Cell) (hv : lastValid p = none) :
    stateSkip f none p = none := by
  induction p with
  | nil => simp [stateSkip]
  | cons c xs ih =>
    simp only [lastValid] at hv
    cases hx : lastValid xs with
    | some w => rw [hx] at hv; simp at hv
    | none =>
      rw [hx] at hv
      subst hv
      simpa [stateSkip] using ih hx

theorem lastValid_cumSkip (f) (acc : Option Int) (p : List Cell) :
    lastValid (cumSkip f acc p) =
      match lastValid p with
      | none => none
      | some _ => stateSkip f acc p := by
  induction p generalizing acc with
  | nil => simp [cumSkip, lastValid]
  | cons c xs ih =>
    cases hx : lastValid xs with
    | some w =>
      have key : ∀ acc', lastValid (cumSkip f acc' xs) = stateSkip f acc' xs := by
        intro acc'; rw [ih acc', hx]
      have hs : ∀ acc', ∃ s, stateSkip f acc' xs = some s := by
        intro acc'
        have := stateSkip_isSome_of_lastValid f acc' xs w hx
        exact Option.isSome_iff_exists.mp this
      cases c with
      | none =>
        obtain ⟨s, hs'⟩ := hs acc
        simp [cumSkip, lastValid, hx, stateSkip, key, hs']
      | some v =>
        cases acc with
        | none =>
          obtain ⟨s, hs'⟩ := hs (some v)
          simp [cumSkip, lastValid, hx, stateSkip, key, hs']
        | some a =>
          obtain ⟨s, hs'⟩ := hs (some (f a v))
          simp [cumSkip, lastValid, hx, stateSkip, key, hs']
    | none =>
      have key : ∀ acc', lastValid (cumSkip f acc' xs) = none := by
        intro acc'; rw [ih acc', hx]
      have hstay : ∀ (ys : List Cell) (a : Int), lastValid ys = none → stateSkip f (some a) ys = some a := by
        intro ys
        induction ys with
        | nil => intro a _; simp [stateSkip]
        | cons d zs ihz =>
          intro a hd
          simp only [lastValid] at hd
          cases hz : lastValid zs with
          | some w => rw [hz] at hd; simp at hd
          | none =>
            rw [hz] at hd
            subst hd
            simpa [stateSkip] using ihz a hz
      cases c with
      | none => simp [cumSkip, lastValid, hx, key]
      | some v =>
        cases acc with
        | none => simp [cumSkip, lastValid, hx, key, stateSkip, hstay _ _ hx]
        | some a => simp [cumSkip, lastValid, hx, key, stateSkip, hstay _ _ hx]

theorem all_isNone_iff_lastValid (p : List Cell) : p.all Option.isNone = true ↔ lastValid p = none := by
  induction p with
  | nil => simp [lastValid]
  | cons c xs ih =>
    simp only [List.all_cons, Bool.and_eq_true, lastValid]
    cases hx : lastValid xs with
    | some w =>
      have : ¬ (xs.all Option.isNone = true) := by rw [ih, hx]; simp
      simp [this]
    | none =>
      have : xs.all Option.isNone = true := by rw [ih, hx]
      cases c <;> simp [this]

/-- `TakeLast` on a skipna chunk is exactly the running accumulator (as `None`/scalar) -/
theorem takeLast_true_cumSkip (f) (p : List Cell) :
    takeLast true (cumSkip f none p) = (stateSkip f none p).map some := by
  unfold takeLast
  by_cases he : (cumSkip f none p).isEmpty
  · have : p = [] := by
      have hl := cumSkip_length f none p
      cases p with
      | nil => rfl
      | cons c xs =>
        rw [List.isEmpty_iff] at he
        rw [he] at hl
        simp at hl
    subst this
    simp [cumSkip, stateSkip]
  · simp only [he, Bool.false_eq_true, if_false, if_true]
    by_cases ha : (cumSkip f none p).all Option.isNone = true
    · simp only [ha, if_true]
      have h1 := (all_isNone_iff_lastValid _).mp ha
      rw [lastValid_cumSkip] at h1
      cases hp : lastValid p with
      | none => simp [stateSkip_none_of_lastValid f p hp]
      | some w => rw [hp] at h1; simp at h1; simp [h1]
    · simp only [ha, Bool.false_eq_true, if_false]
      have h1 : lastValid (cumSkip f none p) ≠ none := fun h => ha ((all_isNone_iff_lastValid _).mpr h)
      rw [lastValid_cumSkip] at h1 ⊢
      cases hp : lastValid p with
      | none => rw [hp] at h1; simp at h1
      | some w =>
        rw [hp] at h1
        simp only at h1 ⊢
        cases hs : stateSkip f none p with
        | none => rw [hs] at h1; simp at h1
        | some s => simp

/-! ### skipna = False -/

theorem cumNo_append (f) (st : Option Cell) (p q : List Cell) :
    cumNo f st (p ++ q) = cumNo f st p ++ cumNo f (stateNo f st p) q := by
  induction p generalizing st with
  | nil => simp [cumNo, stateNo]
  | cons c xs ih => simp [cumNo, stateNo, ih]

theorem cumNo_length (f) (st : Option Cell) (p : List Cell) : (cumNo f st p).length = p.length := by
  induction p generalizing st with
  | nil => simp [cumNo]
  | cons c xs ih => simp [cumNo, ih]

theorem cumNo_some {f} (h : AC f) (c : Cell) (p : List Cell) :
    cumNo f (some c) p = (cumNo f none p).map (fun e => cellOp f e c) := by
  induction p generalizing c with
  | nil => simp [cumNo]
  | cons x xs ih =>
    simp only [cumNo, stepNo, List.map_cons]
    rw [ih (cellOp f c x), ih x, List.map_map]
    congr 1
    · exact cellOp_comm h c x
    · apply List.map_congr_left
      intro e _
      simp only [Function.comp]
      rw [cellOp_assoc h, cellOp_comm h x c]

theorem stateNo_some {f} (h : AC f) (c : Cell) (p : List Cell) :
    stateNo f (some c) p =
      match stateNo f none p with
      | none => some c
      | some s => some (cellOp f s c) := by
  induction p generalizing c with
  | nil => simp [stateNo]
  | cons x xs ih =>
    simp only [stateNo, stepNo]
    rw [ih (cellOp f c x), ih x]
    cases stateNo f none xs with
    | none => simp [cellOp_comm h]
    | some s => simp [cellOp_assoc h, cellOp_comm h x c]

theorem getLast?_cumNo (f) (st : Option Cell) (p : List Cell) (hp : p ≠ []) :
    (cumNo f st p).getLast? = stateNo f st p := by
  induction p generalizing st with
  | nil => exact absurd rfl hp
  | cons c xs ih =>
    cases xs with
    | nil => simp [cumNo, stateNo]
    | cons d ys =>
      have := ih (some (stepNo f st c)) (by simp)
      simp only [cumNo, stateNo] at this ⊢
      rw [List.getLast?_cons_cons]
      exact this

theorem takeLast_false_cumNo (f) (p : List Cell) :
    takeLast false (cumNo f none p) = stateNo f none p := by
  unfold takeLast
  cases p with
  | nil => simp [cumNo, stateNo]
  | cons c xs =>
    have hne : (cumNo f none (c :: xs)).isEmpty = false := by simp [cumNo]
    simp only [hne, Bool.false_eq_true, if_false]
    exact getLast?_cumNo f none (c :: xs) (by simp)

theorem stateNo_none_eq_none (f) (p : List Cell) (h : stateNo f none p = none) : p = [] := by
  cases p with
  | nil => rfl
  | cons c xs =>
    exfalso
    have : ∀ (ys : List Cell) (s : Cell), stateNo f (some s) ys ≠ none := by
      intro ys
      induction ys with
      | nil => intro s; simp [stateNo]
      | cons d zs ihz => intro s; simpa [stateNo] using ihz _
    exact this xs _ (by simpa [stateNo] using h)

end Dask.Cumulative
