import DaskModel.Props.C12
import DaskModel.Model.CtorNames
/-!
Helper lemmas for `Props/C13xNames.lean` (part b): the value `_tokenize(*args, **kwargs)` hashes determines `args` and
`kwargs` up to observational equality (on top of C12's `norm_injective`), and list lemmas to take the flat argument
tuples of the constructors apart again.
-/
namespace Dask.CtorNames
open Dask.NF

/-- the item a keyword argument contributes to the token: `("tuple", (key, normalize_token(value)))` -/
def kwItem (p : String × Val) : Val := .tuple [.str "tuple", .tuple [.str p.1, norm p.2]]

/-- keyword arguments agree key by key up to observational equality, in whatever order they were written -/
def KwRel (kw kw' : List (String × Val)) : Prop :=
  ∃ kw'', All₂ (fun p q : String × Val => p.1 = q.1 ∧ ObsEq p.2 q.2) kw kw'' ∧ kw''.Perm kw'

def kwKeyed (kw : List (String × Val)) : List (SortKey × Val) := kw.map (fun p => (((p.1, "") : SortKey), kwItem p))

theorem tokNFKw_eq (args : List Val) (kw : List (String × Val)) :
    tokNFKw args kw = if kw.isEmpty then .tuple (normL args)
      else .tuple [.tuple (normL args), .tuple ((ssort (kwKeyed kw)).map Prod.snd)] := rfl

/-- no value normalises to a non-empty tuple of keyword items -/
theorem norm_ne_kwItems (v : Val) (p : String × Val) (rest : List Val)
    (hrest : ∀ r ∈ rest, ∃ q, r = kwItem q) (h : norm v = .tuple (kwItem p :: rest)) : False := by
  cases v <;> simp [norm, kwItem] at h
  · rename_i item dt
    obtain ⟨_, rfl⟩ := h
    obtain ⟨q, hq⟩ := hrest (.atom dt) (by simp)
    simp [kwItem] at hq
  · split at h <;> simp at h

theorem ssort_kwKeyed_items (kw : List (String × Val)) :
    ∀ r ∈ (ssort (kwKeyed kw)).map Prod.snd, ∃ q, r = kwItem q := by
  intro r hr
  have hp : ((ssort (kwKeyed kw)).map Prod.snd).Perm ((kwKeyed kw).map Prod.snd) := (ssort_perm _).map _
  have := hp.subset hr
  simp only [kwKeyed, List.map_map, List.mem_map, Function.comp] at this
  obtain ⟨q, _, rfl⟩ := this
  exact ⟨q, rfl⟩

theorem tokNFKw_mixed (args args' : List Val) (p : String × Val) (r : List (String × Val))
    (h : tokNFKw args [] = tokNFKw args' (p :: r)) : False := by
  rw [tokNFKw_eq, tokNFKw_eq] at h
  simp only [List.isEmpty_nil, List.isEmpty_cons, if_true, Bool.false_eq_true, if_false, Val.tuple.injEq] at h
  have hperm : ((ssort (kwKeyed (p :: r))).map Prod.snd).Perm ((kwKeyed (p :: r)).map Prod.snd) := (ssort_perm _).map _
  cases hs : (ssort (kwKeyed (p :: r))).map Prod.snd with
  | nil =>
    rw [hs] at hperm
    have := hperm.length_eq
    simp [kwKeyed] at this
  | cons i rest =>
    have hall := ssort_kwKeyed_items (p :: r)
    rw [hs] at hall h
    obtain ⟨q, rfl⟩ := hall i (by simp)
    match args, h with
    | [x, y], h =>
      simp only [normL, List.cons.injEq, and_true] at h
      exact norm_ne_kwItems y q rest (fun r hr => hall r (by simp [hr])) h.2
    | [], h => simp [normL] at h
    | [_], h => simp [normL] at h
    | _ :: _ :: _ :: _, h => simp [normL] at h

/-- **the value that is hashed determines the argument tuple and the keyword arguments** up to observational equality -/
theorem tokNFKw_injective (args args' : List Val) (kw kw' : List (String × Val))
    (h : tokNFKw args kw = tokNFKw args' kw') : ObsEqL args args' ∧ KwRel kw kw' := by
  cases kw with
  | nil =>
    cases kw' with
    | nil =>
      simp only [tokNFKw, List.isEmpty_nil, if_true, Val.tuple.injEq] at h
      exact ⟨C12.normL_injective _ _ h, [], .nil, .refl _⟩
    | cons p r => exact (tokNFKw_mixed _ _ _ _ h).elim
  | cons p r =>
    cases kw' with
    | nil => exact (tokNFKw_mixed _ _ _ _ h.symm).elim
    | cons p' r' =>
      rw [tokNFKw_eq, tokNFKw_eq] at h
      simp only [List.isEmpty_cons, Bool.false_eq_true, if_false, Val.tuple.injEq, List.cons.injEq, and_true] at h
      obtain ⟨hargs, hitems⟩ := h
      refine ⟨C12.normL_injective _ _ hargs, ?_⟩
      have hperm := C12.perm_of_ssort_eq hitems
      have hperm' : ((p :: r).map kwItem).Perm ((p' :: r').map kwItem) := by
        simpa [kwKeyed, List.map_map, Function.comp_def] using hperm
      exact perm_map_rel kwItem (fun a b : String × Val => a.1 = b.1 ∧ ObsEq a.2 b.2) (p :: r) (p' :: r') hperm'
        (by
          intro a _ b hab
          simp only [kwItem, Val.tuple.injEq, List.cons.injEq, Val.str.injEq, and_true, true_and] at hab
          exact ⟨hab.1, C12.norm_injective _ _ hab.2⟩)

/-- observably equal arguments and keyword arguments (written in the same order) are hashed alike -/
theorem tokNFKw_deterministic (args args' : List Val) (kw kw' : List (String × Val)) (h : ObsEqL args args')
    (ha : WFL args) (hb : WFL args')
    (hk : All₂ (fun p q : String × Val => p.1 = q.1 ∧ ObsEq p.2 q.2 ∧ WF p.2 ∧ WF q.2) kw kw') :
    tokNFKw args kw = tokNFKw args' kw' := by
  have hitems : kwKeyed kw = kwKeyed kw' := by
    induction hk with
    | nil => rfl
    | @cons p q _ _ hpq _ ih =>
      obtain ⟨k, v⟩ := p
      obtain ⟨k', v'⟩ := q
      obtain ⟨rfl, hv, hw, hw'⟩ := hpq
      simp only [kwKeyed, List.map_cons, kwItem, List.cons.injEq] at ih ⊢
      exact ⟨by rw [norm_deterministic v v' hv hw hw'], ih⟩
  have hemp : kw.isEmpty = kw'.isEmpty := by cases hk <;> rfl
  rw [tokNFKw_eq, tokNFKw_eq, hitems, hemp, normL_deterministic args args' h ha hb]

/-! ## taking flat argument tuples apart -/

theorem ObsEqL.length_eq {xs ys : List Val} (h : ObsEqL xs ys) : xs.length = ys.length := by
  induction xs generalizing ys with
  | nil => cases h; rfl
  | cons x xs ih => cases h with | cons _ h2 => simp [ih h2]

theorem ObsEqL.append_split : ∀ (a a' b b' : List Val), a.length = a'.length → ObsEqL (a ++ b) (a' ++ b') →
    ObsEqL a a' ∧ ObsEqL b b'
  | [], [], _, _, _, h => ⟨.nil, h⟩
  | [], _ :: _, _, _, hl, _ => by simp at hl
  | _ :: _, [], _, _, hl, _ => by simp at hl
  | x :: a, y :: a', b, b', hl, h => by
    simp only [List.cons_append] at h
    cases h with
    | cons h1 h2 =>
      have := ObsEqL.append_split a a' b b' (by simpa using hl) h2
      exact ⟨.cons h1 this.1, this.2⟩

/-- split at equally long tails -/
theorem ObsEqL.append_split_right (a a' b b' : List Val) (hl : b.length = b'.length) (h : ObsEqL (a ++ b) (a' ++ b')) :
    ObsEqL a a' ∧ ObsEqL b b' := by
  apply ObsEqL.append_split a a' b b' _ h
  have := h.length_eq
  simp only [List.length_append] at this
  omega

/-- the flat list `[arg0, ind0, arg1, ind1, …]` determines the pairs -/
theorem flatPairs_obsEq : ∀ (ps qs : List (Val × Val)), ObsEqL (flatPairs ps) (flatPairs qs) →
    All₂ (fun p q : Val × Val => ObsEq p.1 q.1 ∧ ObsEq p.2 q.2) ps qs
  | [], [], _ => .nil
  | [], (_, _) :: _, h => by simp only [flatPairs] at h; cases h
  | (_, _) :: _, [], h => by simp only [flatPairs] at h; cases h
  | (a, i) :: ps, (b, j) :: qs, h => by
    simp only [flatPairs] at h
    cases h with
    | cons h1 h2 =>
      cases h2 with
      | cons h3 h4 => exact .cons ⟨h1, h3⟩ (flatPairs_obsEq ps qs h4)

/-! ## the structured parts of the argument tuples are read back exactly -/

theorem natVals_inj : ∀ (l l' : List Nat),
    ObsEqL (l.map fun n => Val.int (Int.ofNat n)) (l'.map fun n => Val.int (Int.ofNat n)) → l = l'
  | [], [], _ => rfl
  | [], _ :: _, h => by simp only [List.map] at h; cases h
  | _ :: _, [], h => by simp only [List.map] at h; cases h
  | a :: l, b :: l', h => by
    simp only [List.map] at h
    cases h with
    | cons h1 h2 =>
      cases h1
      rw [natVals_inj l l' h2]

theorem shapeVal_inj (s s' : List Nat) (h : ObsEq (shapeVal s) (shapeVal s')) : s = s' := by
  unfold shapeVal at h
  cases h with | tuple hl => exact natVals_inj s s' hl

theorem chunksVal_inj_aux : ∀ (c c' : List (List Nat)),
    ObsEqL (c.map fun d => Val.tuple (d.map fun n => Val.int (Int.ofNat n)))
      (c'.map fun d => Val.tuple (d.map fun n => Val.int (Int.ofNat n))) → c = c'
  | [], [], _ => rfl
  | [], _ :: _, h => by simp only [List.map] at h; cases h
  | _ :: _, [], h => by simp only [List.map] at h; cases h
  | a :: l, b :: l', h => by
    simp only [List.map] at h
    cases h with
    | cons h1 h2 =>
      cases h1 with
      | tuple hl => rw [natVals_inj a b hl, chunksVal_inj_aux l l' h2]

theorem chunksVal_inj (c c' : List (List Nat)) (h : ObsEq (chunksVal c) (chunksVal c')) : c = c' := by
  unfold chunksVal at h
  cases h with | tuple hl => exact chunksVal_inj_aux c c' hl

theorem strVals_inj : ∀ (l l' : List String), ObsEqL (l.map Val.str) (l'.map Val.str) → l = l'
  | [], [], _ => rfl
  | [], _ :: _, h => by simp only [List.map] at h; cases h
  | _ :: _, [], h => by simp only [List.map] at h; cases h
  | a :: l, b :: l', h => by
    simp only [List.map] at h
    cases h with
    | cons h1 h2 =>
      cases h1
      rw [strVals_inj l l' h2]

theorem optNat_inj (a b : Option Nat) (h : ObsEq (optNat a) (optNat b)) : a = b := by
  cases a with
  | none =>
    cases b with
    | none => rfl
    | some _ => simp only [optNat] at h; cases h
  | some x =>
    cases b with
    | none => simp only [optNat] at h; cases h
    | some y =>
      simp only [optNat] at h
      generalize hx : Int.ofNat x = i at h
      generalize hy : Int.ofNat y = j at h
      cases h
      have : (x : Int) = (y : Int) := hx.trans hy.symm
      exact congrArg some (Int.ofNat.inj this)

theorem bool_inj (a b : Bool) (h : ObsEq (.bool a) (.bool b)) : a = b := by cases h; rfl
theorem str_inj (a b : String) (h : ObsEq (.str a) (.str b)) : a = b := by cases h; rfl
theorem int_inj (a b : Int) (h : ObsEq (.int a) (.int b)) : a = b := by cases h; rfl

end Dask.CtorNames
