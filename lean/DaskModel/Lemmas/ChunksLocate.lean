import DaskModel.Lemmas.ChunksPlanStages
import DaskModel.Lemmas.ChunksBlocks
/-! C23: element-level reading of a rechunk plan; n-d rechunk = one 1-d lookup per axis. -/
namespace Dask.Chunks

theorem blockStart_append_length (pre : List Nat) (c : Nat) (post : List Nat) :
    blockStart (pre ++ c :: post) pre.length = sum pre := by
  unfold blockStart
  rw [List.take_left']
  rfl

theorem locateIn_chain {old : List Nat} : ∀ (g : List Piece) (a b q : Nat), Chain old g a b → q < b - a →
    ∃ i r c, locateIn g q = some (i, r) ∧ old[i]? = some c ∧ r < c ∧ blockStart old i + r = a + q
  | [], a, b, q, h, hq => by
    simp [Chain] at h; omega
  | pc :: ps, a, b, q, h, hq => by
    obtain ⟨mid, hp, hc⟩ := h
    have hle := hc.le
    obtain ⟨pre, c, post, e1, e2, e3, e4, e5, e6⟩ := hp
    rw [locateIn]
    by_cases hlt : q < pc.stop - pc.start
    · rw [if_pos hlt]
      refine ⟨pc.idx, pc.start + q, c, rfl, ?_, by omega, ?_⟩
      · rw [e1, e2]; simp
      · rw [e1, e2, blockStart_append_length]; omega
    · rw [if_neg hlt]
      obtain ⟨i, r, c', h1, h2, h3, h4⟩ := locateIn_chain ps mid b (q - (pc.stop - pc.start)) hc (by omega)
      exact ⟨i, r, c', h1, h2, h3, by omega⟩

theorem planLocate_good {old : List Nat} : ∀ (new : List Nat) (plan : List (List Piece)) (a j q m : Nat),
    Good old a new plan → new[j]? = some m → q < m →
    ∃ i r c, planLocate plan j q = some (i, r) ∧ old[i]? = some c ∧ r < c ∧ blockStart old i + r = a + blockStart new j + q
  | [], _, _, j, _, _, _, hj, _ => by simp at hj
  | m' :: ms, [], _, _, _, _, h, _, _ => by simp [Good] at h
  | m' :: ms, g :: gs, a, 0, q, m, h, hj, hq => by
    simp at hj; subst hj
    obtain ⟨i, r, c, h1, h2, h3, h4⟩ := locateIn_chain g a (a + m') q h.1 (by omega)
    refine ⟨i, r, c, ?_, h2, h3, ?_⟩
    · simpa [planLocate] using h1
    · rw [blockStart_zero]; omega
  | m' :: ms, g :: gs, a, j + 1, q, m, h, hj, hq => by
    obtain ⟨i, r, c, h1, h2, h3, h4⟩ := planLocate_good ms gs (a + m') j q m h.2 (by simpa using hj) hq
    refine ⟨i, r, c, ?_, h2, h3, ?_⟩
    · simpa [planLocate] using h1
    · rw [blockStart_succ]; omega

/-- every axis has its own plan -/
def PlansFor : List (List Nat) → List (List Nat) → List (List (List Piece)) → Prop
  | [], [], [] => True
  | o :: os, n :: ns, p :: ps => intersect1d o n = some p ∧ PlansFor os ns ps
  | _, _, _ => False

/-- `(block, offset)` pairs that address an element: one per axis, offset inside the block -/
def InBlock : List (List Nat) → List (Nat × Nat) → Prop
  | [], [] => True
  | c :: cs, (b, o) :: rest => (∃ m, c[b]? = some m ∧ o < m) ∧ InBlock cs rest
  | _, _ => False

theorem oldToNew_plansFor : ∀ (shape : List Nat) (olds news : List (List Nat)), AllStage shape olds → AllStage shape news →
    ∃ plans, oldToNew olds news = some plans ∧ PlansFor olds news plans
  | [], [], [], _, _ => ⟨[], by simp [oldToNew], trivial⟩
  | [], _ :: _, _, h, _ => by simp [AllStage] at h
  | [], [], _ :: _, _, h => by simp [AllStage] at h
  | _ :: _, [], _, h, _ => by simp [AllStage] at h
  | _ :: _, _ :: _, [], _, h => by simp [AllStage] at h
  | n :: ns, o :: os, w :: ws, ho, hn => by
    obtain ⟨plans, h1, h2⟩ := oldToNew_plansFor ns os ws ho.2 hn.2
    obtain ⟨p, hp, _⟩ := intersect1d_good ho.1.2.1 hn.1.2.1 (by rw [ho.1.2.2, hn.1.2.2]) ho.1.1
    refine ⟨p :: plans, ?_, hp, h2⟩
    unfold oldToNew at h1 ⊢
    simp [List.zip_cons_cons, List.mapM_cons, hp, h1]

theorem ndLocate_spec : ∀ (shape : List Nat) (olds news : List (List Nat)) (plans : List (List (List Piece)))
    (jqs : List (Nat × Nat)), AllStage shape olds → AllStage shape news → PlansFor olds news plans → InBlock news jqs →
    ∃ irs, ndLocate plans jqs = some irs ∧ InBlock olds irs ∧ gidx olds irs = gidx news jqs
  | [], [], [], [], [], _, _, _, _ => ⟨[], rfl, trivial, rfl⟩
  | [], [], [], _ :: _, _, _, _, h, _ => by simp [PlansFor] at h
  | [], [], [], [], _ :: _, _, _, _, h => by simp [InBlock] at h
  | [], _ :: _, _, _, _, h, _, _, _ => by simp [AllStage] at h
  | [], [], _ :: _, _, _, _, h, _, _ => by simp [AllStage] at h
  | _ :: _, [], _, _, _, h, _, _, _ => by simp [AllStage] at h
  | _ :: _, _ :: _, [], _, _, _, h, _, _ => by simp [AllStage] at h
  | _ :: _, _ :: _, _ :: _, [], _, _, _, h, _ => by simp [PlansFor] at h
  | _ :: _, _ :: _, _ :: _, _ :: _, [], _, _, _, h => by simp [InBlock] at h
  | n :: ns, o :: os, w :: ws, p :: ps, (j, q) :: rest, ho, hn, hp, hb => by
    obtain ⟨irs, h1, h2, h3⟩ := ndLocate_spec ns os ws ps rest ho.2 hn.2 hp.2 hb.2
    obtain ⟨m, hm, hq⟩ := hb.1
    obtain ⟨p', hp', hg⟩ := intersect1d_good ho.1.2.1 hn.1.2.1 (by rw [ho.1.2.2, hn.1.2.2]) ho.1.1
    have : p' = p := by have := hp.1; rw [hp'] at this; exact Option.some.inj this
    subst this
    obtain ⟨i, r, c, l1, l2, l3, l4⟩ := planLocate_good w p' 0 j q m hg hm hq
    refine ⟨(i, r) :: irs, ?_, ⟨⟨c, l2, l3⟩, h2⟩, ?_⟩
    · simp [ndLocate, l1, h1]
    · simp only [gidx, h3]
      congr 1; omega

end Dask.Chunks
