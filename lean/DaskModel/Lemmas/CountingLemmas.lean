import DaskModel.Model.Counting
import DaskModel.Lemmas.ChunksPlanner
/-! Helper lemmas for C27 (counting / set / search routines). -/
namespace Dask.Counting
open Dask.Chunks

/-! searchsorted -/

/-- `p` is downward closed along `≤` (true of `· < y` and `· ≤ y`) -/
def DownClosed (p : Nat → Bool) : Prop := ∀ a b, a ≤ b → p b = true → p a = true

theorem sidePred_downClosed (right : Bool) (y : Nat) : DownClosed (sidePred right y) := by
  intro a b hab hb
  unfold sidePred at *
  cases right <;> simp at * <;> omega

theorem countP_eq_length_of_all {p : Nat → Bool} {l : List Nat} (h : ∀ x ∈ l, p x = true) : l.countP p = l.length := by
  induction l with
  | nil => rfl
  | cons a l ih =>
    rw [List.countP_cons_of_pos (h a (by simp)), ih (fun x hx => h x (by simp [hx]))]; simp

theorem countP_pos_mem {p : Nat → Bool} {l : List Nat} (h : 0 < l.countP p) : ∃ x ∈ l, p x = true := by
  rw [List.countP_pos_iff] at h; exact h

/-- the combination over blocks, as a closed form: `-1` when nothing is counted, else `off + count` -/
theorem ssCombine_eq (p : Nat → Bool) (hp : DownClosed p) : ∀ (bs : List (List Nat)) (off : Nat),
    (bs.flatten).Pairwise (· ≤ ·) →
    ssCombine p off bs = if (bs.flatten).countP p = 0 then -1 else ((off + (bs.flatten).countP p : Nat) : Int)
  | [], off, _ => by simp [ssCombine]
  | b :: bs, off, hs => by
    simp only [List.flatten_cons] at hs
    have hs' := (List.pairwise_append.1 hs)
    rw [ssCombine, ssCombine_eq p hp bs (off + b.length) hs'.2.1]
    simp only [List.flatten_cons, List.countP_append, ssBlock]
    by_cases hr : (bs.flatten).countP p = 0
    · simp only [hr, if_true, Nat.add_zero]
      by_cases hb : b.countP p = 0
      · simp [hb]
      · simp only [hb, if_false]
        have : ((b.countP p + off : Nat) : Int) = ((off + b.countP p : Nat) : Int) := by omega
        rw [this]; omega
    · simp only [hr, if_false]
      obtain ⟨x, hx, hpx⟩ := countP_pos_mem (Nat.pos_of_ne_zero hr)
      have hall : ∀ z ∈ b, p z = true := fun z hz => hp z x (hs'.2.2 z hz x hx) hpx
      have hlen := countP_eq_length_of_all hall
      have hne : ¬ (b.countP p + (bs.flatten).countP p = 0) := by omega
      simp only [hlen]
      split <;> omega

theorem maxList_cons (x : Nat) (xs : List Nat) : maxList (x :: xs) = max x (maxList xs) := rfl
theorem maxList_append (a b : List Nat) : maxList (a ++ b) = max (maxList a) (maxList b) := by
  induction a with
  | nil => simp [maxList]
  | cons x xs ih => simp only [List.cons_append, maxList_cons, ih]; omega

theorem le_maxList {x : Nat} {xs : List Nat} (h : x ∈ xs) : x ≤ maxList xs := by
  induction xs with
  | nil => simp at h
  | cons a l ih =>
    rw [maxList_cons]
    rcases List.mem_cons.1 h with h | h
    · omega
    · have := ih h; omega

/-- length contribution of the data to `np.bincount`: `max + 1`, or `0` for no data -/
def binLen (xs : List Nat) : Nat := if xs.isEmpty then 0 else maxList xs + 1

theorem binLen_append (a b : List Nat) : binLen (a ++ b) = max (binLen a) (binLen b) := by
  unfold binLen
  cases a with
  | nil => simp
  | cons x xs =>
    cases b with
    | nil => simp
    | cons y ys =>
      have := maxList_append (x :: xs) (y :: ys)
      simp only [List.cons_append] at this
      simp [this]

theorem count_eq_zero_of_binLen_le {xs : List Nat} {i : Nat} (h : binLen xs ≤ i) : xs.count i = 0 := by
  rw [List.count_eq_zero]
  intro hm
  have := le_maxList hm
  unfold binLen at h
  cases xs with
  | nil => simp at hm
  | cons a l => simp at h; omega

theorem bincount_eq (xs : List Nat) (m : Nat) :
    bincount xs m = (List.range (max m (binLen xs))).map (fun v => xs.count v) := rfl

theorem bincount_length (xs : List Nat) (m : Nat) : (bincount xs m).length = max m (binLen xs) := by
  simp [bincount_eq]

theorem bincount_getD (xs : List Nat) (m i : Nat) : (bincount xs m).getD i 0 = xs.count i := by
  rw [bincount_eq, List.getD_eq_getElem?_getD, List.getElem?_map]
  by_cases h : i < max m (binLen xs)
  · rw [List.getElem?_range h]; rfl
  · rw [List.getElem?_eq_none (by simpa using h)]
    simp only [Option.map_none, Option.getD_none]
    symm; apply count_eq_zero_of_binLen_le; omega

theorem sum_map_count_flatten (bs : List (List Nat)) (i : Nat) :
    sum (bs.map (fun b => b.count i)) = (bs.flatten).count i := by
  induction bs with
  | nil => rfl
  | cons b bs ih => simp only [List.map_cons, sum_cons, List.flatten_cons, List.count_append, ih]

theorem maxList_binLens (m : Nat) : ∀ (bs : List (List Nat)), bs ≠ [] →
    maxList (bs.map (fun b => max m (binLen b))) = max m (binLen bs.flatten)
  | [], h => absurd rfl h
  | [b], _ => by simp [maxList]
  | b :: b' :: bs, _ => by
    have ih := maxList_binLens m (b' :: bs) (by simp)
    rw [List.map_cons, maxList_cons, ih, List.flatten_cons (l := b), binLen_append]; omega

/-! histogram -/
theorem sum_map_countP_flatten (p : Nat → Bool) (bs : List (List Nat)) :
    sum (bs.map (fun b => b.countP p)) = (bs.flatten).countP p := by
  induction bs with
  | nil => rfl
  | cons b bs ih => simp only [List.map_cons, sum_cons, List.flatten_cons, List.countP_append, ih]

/-! nonzero -/
theorem nonzero_aux : ∀ (bs : List (List Nat)) (off : Nat),
    nonzeroChunked off bs = (nonzeroSpec bs.flatten).map (· + off)
  | [], off => by simp [nonzeroChunked, nonzeroSpec]
  | b :: bs, off => by
    rw [nonzeroChunked, nonzero_aux bs (off + b.length)]
    simp only [nonzeroSpec, List.flatten_cons, List.length_append, List.range_add, List.filter_append, List.map_append,
      List.filter_map, List.map_map]
    congr 1
    · congr 1
      apply List.filter_congr
      intro i hi
      have hi : i < b.length := by simpa using hi
      simp [List.getD_eq_getElem?_getD, List.getElem?_append_left hi]
    · have : (List.filter ((fun i => (b ++ bs.flatten).getD i 0 != 0) ∘ fun x => b.length + x) (List.range bs.flatten.length))
          = List.filter (fun i => bs.flatten.getD i 0 != 0) (List.range bs.flatten.length) := by
        apply List.filter_congr
        intro i _
        simp [List.getD_eq_getElem?_getD, List.getElem?_append_right]
      rw [this]
      apply List.map_congr_left
      intro i _
      simp only [Function.comp]; omega

theorem windows_append {α} (d : Nat) : ∀ (ka kb : Nat) (a b : List α), a.length = ka * d →
    windows d (ka + kb) (a ++ b) = windows d ka a ++ windows d kb b
  | 0, kb, a, b, h => by
    have : a = [] := List.eq_nil_of_length_eq_zero (by simpa using h)
    subst this; simp [windows]
  | ka + 1, kb, a, b, h => by
    have hd : d ≤ a.length := by rw [h, Nat.succ_mul]; omega
    rw [show ka + 1 + kb = (ka + kb) + 1 by omega]
    simp only [windows]
    rw [List.take_append_of_le_length hd, List.drop_append_of_le_length hd,
      windows_append d ka kb (a.drop d) b (by rw [List.length_drop, h, Nat.succ_mul]; omega)]
    rfl

/-! sorted distinct values -/
theorem mem_insertU (v x : Nat) : ∀ (l : List Nat), x ∈ insertU v l ↔ x = v ∨ x ∈ l
  | [] => by simp [insertU]
  | a :: l => by
    unfold insertU
    split
    · simp
    · split
      · rename_i h; subst h; simp
      · simp only [List.mem_cons, mem_insertU v x l]
        constructor <;> intro h <;> rcases h with h | h | h <;> simp [h]

theorem mem_uniq (x : Nat) : ∀ (l : List Nat), x ∈ uniq l ↔ x ∈ l
  | [] => by simp [uniq]
  | a :: l => by
    have ih := mem_uniq x l
    unfold uniq at *
    simp only [List.foldr_cons, mem_insertU, ih, List.mem_cons]

theorem sorted_insertU (v : Nat) : ∀ (l : List Nat), l.Pairwise (· < ·) → (insertU v l).Pairwise (· < ·)
  | [], _ => by simp [insertU]
  | a :: l, h => by
    unfold insertU
    have ⟨h1, h2⟩ := List.pairwise_cons.1 h
    split
    · rename_i hva
      exact List.pairwise_cons.2 ⟨fun y hy => by
        rcases List.mem_cons.1 hy with hy | hy
        · omega
        · have := h1 y hy; omega, h⟩
    · split
      · exact h
      · rename_i h3 h4
        refine List.pairwise_cons.2 ⟨fun y hy => ?_, sorted_insertU v l h2⟩
        rcases (mem_insertU v y l).1 hy with hy | hy
        · omega
        · exact h1 y hy

theorem sorted_uniq : ∀ (l : List Nat), (uniq l).Pairwise (· < ·)
  | [] => by simp [uniq]
  | a :: l => by
    have := sorted_uniq l
    unfold uniq at *
    exact sorted_insertU a _ this

/-- strictly increasing lists with the same members are equal -/
theorem sorted_ext : ∀ (l1 l2 : List Nat), l1.Pairwise (· < ·) → l2.Pairwise (· < ·) → (∀ x, x ∈ l1 ↔ x ∈ l2) → l1 = l2
  | [], [], _, _, _ => rfl
  | [], b :: l2, _, _, h => by have := (h b).2 (by simp); simp at this
  | a :: l1, [], _, _, h => by have := (h a).1 (by simp); simp at this
  | a :: l1, b :: l2, h1, h2, h => by
    have ⟨p1, q1⟩ := List.pairwise_cons.1 h1
    have ⟨p2, q2⟩ := List.pairwise_cons.1 h2
    have hab : a = b := by
      have ha := (h a).1 (by simp)
      have hb := (h b).2 (by simp)
      rcases List.mem_cons.1 ha with ha | ha
      · exact ha
      · rcases List.mem_cons.1 hb with hb | hb
        · exact hb.symm
        · have := p2 a ha; have := p1 b hb; omega
    subst hab
    congr 1
    apply sorted_ext l1 l2 q1 q2
    intro x
    constructor
    · intro hx
      have := (h x).1 (List.mem_cons_of_mem _ hx)
      rcases List.mem_cons.1 this with h3 | h3
      · have := p1 x hx; omega
      · exact h3
    · intro hx
      have := (h x).2 (List.mem_cons_of_mem _ hx)
      rcases List.mem_cons.1 this with h3 | h3
      · have := p2 x hx; omega
      · exact h3

theorem uniq_congr {l1 l2 : List Nat} (h : ∀ x, x ∈ l1 ↔ x ∈ l2) : uniq l1 = uniq l2 :=
  sorted_ext _ _ (sorted_uniq l1) (sorted_uniq l2) (fun x => by rw [mem_uniq, mem_uniq, h])

/-! minList -/
theorem foldl_min_eq : ∀ (ys : List Nat) (m : Nat), ys.foldl min m = if ys = [] then m else min m (minList ys)
  | [], m => by simp
  | y :: t, m => by
    simp only [List.foldl_cons, minList, reduceCtorEq, if_false]
    rw [foldl_min_eq t (min m y), foldl_min_eq t y]
    split <;> simp [minList] <;> omega

theorem minList_append (l1 l2 : List Nat) :
    minList (l1 ++ l2) = if l1 = [] then minList l2 else if l2 = [] then minList l1 else min (minList l1) (minList l2) := by
  cases l1 with
  | nil => simp
  | cons x xs =>
    simp only [List.cons_append, minList, List.foldl_append, reduceCtorEq, if_false]
    rw [foldl_min_eq l2]
    split <;> simp [minList]

/-! rows -/
def valsOf (r : List URow) : List Nat := r.map (·.value)
def selIdx (r : List URow) (v : Nat) : List Nat := (r.filter (fun x => x.value == v)).map (·.index)

theorem selIdx_nil_iff (r : List URow) (v : Nat) : selIdx r v = [] ↔ v ∉ valsOf r := by
  unfold selIdx valsOf
  rw [List.map_eq_nil_iff, List.filter_eq_nil_iff]
  simp only [List.mem_map, not_exists, not_and, beq_iff_eq]

theorem cntOf_append (a b : List URow) (v : Nat) : cntOf (a ++ b) v = cntOf a v + cntOf b v := by
  simp [cntOf, List.filter_append, sum_append]

theorem idxOf_append (a b : List URow) (v : Nat) :
    idxOf (a ++ b) v = if v ∉ valsOf a then idxOf b v else if v ∉ valsOf b then idxOf a v else min (idxOf a v) (idxOf b v) := by
  have : idxOf (a ++ b) v = minList (selIdx a v ++ selIdx b v) := by simp [idxOf, selIdx, List.filter_append]
  rw [this, minList_append]
  simp only [selIdx_nil_iff]
  rfl

theorem cntOf_absent {a : List URow} {v : Nat} (h : v ∉ valsOf a) : cntOf a v = 0 := by
  have := (selIdx_nil_iff a v).2 h
  unfold selIdx at this
  rw [List.map_eq_nil_iff] at this
  simp [cntOf, this, sum]

theorem idxOf_absent {a : List URow} {v : Nat} (h : v ∉ valsOf a) : idxOf a v = 0 := by
  have := (selIdx_nil_iff a v).2 h
  unfold selIdx at this
  simp [idxOf, this, minList]

/-- two row lists that `_unique_internal` cannot tell apart -/
def RowsEq (a a' : List URow) : Prop :=
  (∀ v, v ∈ valsOf a ↔ v ∈ valsOf a') ∧ (∀ v, cntOf a v = cntOf a' v) ∧ (∀ v, idxOf a v = idxOf a' v)

theorem RowsEq.refl (a : List URow) : RowsEq a a := ⟨fun _ => Iff.rfl, fun _ => rfl, fun _ => rfl⟩

theorem RowsEq.unique {a a' : List URow} (h : RowsEq a a') : uniqueInternal a = uniqueInternal a' := by
  unfold uniqueInternal
  have hv : uniq (a.map (·.value)) = uniq (a'.map (·.value)) := uniq_congr h.1
  rw [hv]
  apply List.map_congr_left
  intro v _
  rw [h.2.1 v, h.2.2 v]

theorem RowsEq.append {a a' b b' : List URow} (h1 : RowsEq a a') (h2 : RowsEq b b') : RowsEq (a ++ b) (a' ++ b') := by
  refine ⟨fun v => ?_, fun v => ?_, fun v => ?_⟩
  · simp only [valsOf, List.map_append, List.mem_append]
    have := h1.1 v; have := h2.1 v
    unfold valsOf at *; simp_all
  · rw [cntOf_append, cntOf_append, h1.2.1, h2.2.1]
  · rw [idxOf_append, idxOf_append, h1.2.2, h2.2.2]
    have e1 := h1.1 v; have e2 := h2.1 v
    simp only [e1, e2]

/-- in a strictly increasing list a value occurs at most once -/
theorem filter_eq_sorted : ∀ (l : List Nat) (v : Nat), l.Pairwise (· < ·) →
    l.filter (· == v) = if v ∈ l then [v] else []
  | [], v, _ => by simp
  | a :: l, v, h => by
    have ⟨p, q⟩ := List.pairwise_cons.1 h
    have ih := filter_eq_sorted l v q
    by_cases hav : a = v
    · subst hav
      have : a ∉ l := fun hm => by have := p a hm; omega
      simp [ih, this]
    · have hav' : ¬ (v = a) := fun e => hav e.symm
      simp [hav, hav', ih]

theorem uniqueInternal_filter (a : List URow) (v : Nat) :
    (uniqueInternal a).filter (fun r => r.value == v)
      = if v ∈ valsOf a then [⟨v, idxOf a v, cntOf a v⟩] else [] := by
  unfold uniqueInternal
  rw [List.filter_map]
  have : ((fun r : URow => r.value == v) ∘ fun w => (⟨w, idxOf a w, cntOf a w⟩ : URow)) = (· == v) := by
    funext w; rfl
  rw [this, filter_eq_sorted _ v (sorted_uniq _)]
  by_cases h : v ∈ valsOf a
  · have h' : v ∈ uniq (a.map (·.value)) := (mem_uniq v _).2 h
    rw [if_pos h, if_pos h']; rfl
  · have h' : v ∉ uniq (a.map (·.value)) := fun hm => h ((mem_uniq v _).1 hm)
    rw [if_neg h, if_neg h']; rfl

/-- `_unique_internal` keeps what it is sensitive to -/
theorem RowsEq.of_unique (a : List URow) : RowsEq (uniqueInternal a) a := by
  refine ⟨fun v => ?_, fun v => ?_, fun v => ?_⟩
  · have : valsOf (uniqueInternal a) = uniq (valsOf a) := by
      unfold valsOf uniqueInternal
      rw [List.map_map]
      have : ((fun r : URow => r.value) ∘ fun w => (⟨w, idxOf a w, cntOf a w⟩ : URow)) = id := by funext w; rfl
      rw [this, List.map_id]
    rw [this, mem_uniq]
  · show sum (((uniqueInternal a).filter (fun r => r.value == v)).map (·.count)) = cntOf a v
    rw [uniqueInternal_filter]
    by_cases h : v ∈ valsOf a
    · rw [if_pos h]; simp [sum]
    · rw [if_neg h, cntOf_absent h]; rfl
  · show minList (((uniqueInternal a).filter (fun r => r.value == v)).map (·.index)) = idxOf a v
    rw [uniqueInternal_filter]
    by_cases h : v ∈ valsOf a
    · rw [if_pos h]; simp [minList]
    · rw [if_neg h, idxOf_absent h]; rfl

theorem rowsOf_append : ∀ (a b : List Nat) (off : Nat), rowsOf off (a ++ b) = rowsOf off a ++ rowsOf (off + a.length) b
  | [], b, off => by simp [rowsOf]
  | x :: a, b, off => by
    simp only [List.cons_append, rowsOf, List.length_cons]
    rw [rowsOf_append a b (off + 1)]
    have : off + 1 + a.length = off + (a.length + 1) := by omega
    rw [this]

theorem chunkRows_eq : ∀ (bs : List (List Nat)) (off : Nat),
    ∃ rs : List (List URow), chunkRows off bs = rs.map uniqueInternal ∧ rs.flatten = rowsOf off bs.flatten
  | [], off => ⟨[], rfl, by simp [rowsOf]⟩
  | b :: bs, off => by
    obtain ⟨rs, h1, h2⟩ := chunkRows_eq bs (off + b.length)
    refine ⟨rowsOf off b :: rs, by simp [chunkRows, h1], ?_⟩
    simp only [List.flatten_cons, h2, rowsOf_append]


theorem inverseOf_aux (v : Nat) : ∀ (u : List Nat) (off : Nat), u.Pairwise (· < ·) →
    sum ((List.range u.length).map (fun j => if u.getD j 0 = v then off + j else 0))
      = if v ∈ u then off + u.idxOf v else 0
  | [], off, _ => by simp [sum]
  | a :: u, off, h => by
    have ⟨p, q⟩ := List.pairwise_cons.1 h
    rw [List.length_cons, List.range_succ_eq_map, List.map_cons, List.map_map, sum_cons]
    have ih := inverseOf_aux v u (off + 1) q
    have hcomp : ((fun j => if (a :: u).getD j 0 = v then off + j else 0) ∘ Nat.succ)
        = (fun j => if u.getD j 0 = v then off + 1 + j else 0) := by
      funext j; simp only [Function.comp, List.getD_cons_succ]; split <;> omega
    rw [hcomp, ih]
    by_cases hav : a = v
    · subst hav
      have hnot : a ∉ u := fun hm => by have := p a hm; omega
      simp [hnot]
    · have hva : ¬ v = a := fun e => hav e.symm
      simp only [List.getD_cons_zero, hav, if_false, Nat.zero_add, List.mem_cons, hva, false_or]
      split
      · rename_i hm
        have hbeq : (a == v) = false := by simpa using hav
        rw [List.idxOf_cons, hbeq]; simp only [cond_false]; omega
      · rfl

theorem isum_append' (a b : List Int) : isum (a ++ b) = isum a + isum b := by
  induction a with
  | nil => simp [isum]
  | cons x xs ih => simp only [List.cons_append, isum, List.foldr_cons] at ih ⊢; omega

theorem wsum_append (x1 x2 : List Nat) (w1 w2 : List Int) (h : x1.length = w1.length) (v : Nat) :
    wsum (x1 ++ x2) (w1 ++ w2) v = wsum x1 w1 v + wsum x2 w2 v := by
  unfold wsum
  rw [List.zip_append h, List.filterMap_append, isum_append']

theorem wsum_zero_of_binLen_le {xs : List Nat} {ws : List Int} {i : Nat} (h : binLen xs ≤ i) : wsum xs ws i = 0 := by
  unfold wsum
  have : (xs.zip ws).filterMap (fun p => if p.1 = i then some p.2 else none) = [] := by
    rw [List.filterMap_eq_nil_iff]
    intro p hp
    have hm : p.1 ∈ xs := (List.of_mem_zip hp).1
    have := le_maxList hm
    have hne : p.1 ≠ i := by
      unfold binLen at h
      cases xs with
      | nil => simp at hm
      | cons a l => simp at h; omega
    simp [hne]
  rw [this]; rfl

theorem bincountW_eq (xs : List Nat) (ws : List Int) (m : Nat) :
    bincountW xs ws m = (List.range (max m (binLen xs))).map (wsum xs ws) := rfl

theorem bincountW_getD (xs : List Nat) (ws : List Int) (m i : Nat) : (bincountW xs ws m).getD i 0 = wsum xs ws i := by
  rw [bincountW_eq, List.getD_eq_getElem?_getD, List.getElem?_map]
  by_cases h : i < max m (binLen xs)
  · rw [List.getElem?_range h]; rfl
  · rw [List.getElem?_eq_none (by simpa using h)]
    simp only [Option.map_none, Option.getD_none]
    symm; apply wsum_zero_of_binLen_le; omega

theorem isum_map_wsum : ∀ (bs : List (List Nat × List Int)), (∀ b ∈ bs, b.1.length = b.2.length) → ∀ (i : Nat),
    isum (bs.map (fun b => wsum b.1 b.2 i)) = wsum (bs.flatMap (·.1)) (bs.flatMap (·.2)) i
  | [], _, i => by simp [isum, wsum]
  | b :: bs, h, i => by
    simp only [List.map_cons, List.flatMap_cons]
    rw [wsum_append _ _ _ _ (h b (by simp)), ← isum_map_wsum bs (fun b hb => h b (by simp [hb])) i]
    rfl


end Dask.Counting
