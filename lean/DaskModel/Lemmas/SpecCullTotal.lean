import DaskModel.Lemmas.SpecCull
/-! The task-spec `cull` loop terminates within the fuel the model gives it. -/
namespace Dask.TaskTerm

/-- total weight (one unit plus one per dependency) of the entries whose key satisfies `p` -/
def weightBy (p : Obj → Bool) (g : NGraph) : Nat :=
  ((g.filter fun kn => p kn.1).map fun kn => kn.2.deps.length + 1).sum

theorem weightBy_cons (p : Obj → Bool) (e : Obj × Node) (g : NGraph) :
    weightBy p (e :: g) = (if p e.1 then e.2.deps.length + 1 else 0) + weightBy p g := by
  unfold weightBy
  rw [List.filter_cons]
  split <;> simp

theorem weightBy_le (p q : Obj → Bool) (h : ∀ x, q x = true → p x = true) : ∀ g : NGraph, weightBy q g ≤ weightBy p g
  | [] => by simp [weightBy]
  | e :: g => by
    rw [weightBy_cons, weightBy_cons]
    have ih := weightBy_le p q h g
    by_cases hq : q e.1 = true
    · simp only [hq, h e.1 hq, if_true]; omega
    · have hq' : q e.1 = false := by simpa using hq
      simp only [hq', Bool.false_eq_true, if_false]
      split <;> omega

theorem weightBy_visit (p q : Obj → Bool) (h : ∀ x, q x = true → p x = true) (k : Obj) (n : Node)
    (hp : p k = true) (hq : q k = false) : ∀ g : NGraph, g.lookup k = some n →
      weightBy q g + (n.deps.length + 1) ≤ weightBy p g
  | [], hl => by simp at hl
  | (x, m) :: rest, hl => by
    rw [weightBy_cons, weightBy_cons]
    by_cases hxk : (k == x) = true
    · have e : k = x := eq_of_beq hxk
      subst e
      simp only [List.lookup, beq_self_eq_true, Option.some.injEq] at hl
      subst hl
      have := weightBy_le p q h rest
      simp only [hp, hq, if_true, Bool.false_eq_true, if_false]
      omega
    · have hxk' : (k == x) = false := by simpa using hxk
      simp only [List.lookup, hxk'] at hl
      have ih := weightBy_visit p q h k n hp hq rest hl
      by_cases hqx : q x = true
      · simp only [hqx, h x hqx, if_true]; omega
      · have hqx' : q x = false := by simpa using hqx
        simp only [hqx', Bool.false_eq_true, if_false]
        split <;> omega

/-- what is still to be paid for by the entries not yet visited -/
def unseenWeight (g : NGraph) (seen : List Obj) : Nat := weightBy (fun x => !seen.contains x) g

/-- **the loop terminates**: whenever the fuel exceeds the pending work plus the weight of the unvisited entries -/
theorem cullSpecLoop_total (g : NGraph) : ∀ (fuel : Nat) (work seen : List Obj),
    work.length + unseenWeight g seen < fuel → ∃ V, cullSpecLoop g fuel work seen = some V
  | fuel, [], seen, _ => ⟨seen, by cases fuel <;> rfl⟩
  | 0, _ :: _, _, h => by omega
  | fuel + 1, k :: work, seen, h => by
    simp only [cullSpecLoop]
    simp only [List.length_cons] at h
    by_cases hs : seen.contains k = true
    · rw [if_pos hs]
      exact cullSpecLoop_total g fuel work seen (by omega)
    · rw [if_neg hs]
      have hs' : seen.contains k = false := by simpa using hs
      cases hl : g.lookup k with
      | none => exact cullSpecLoop_total g fuel work seen (by omega)
      | some n =>
        simp only
        apply cullSpecLoop_total g fuel (n.deps ++ work) (seen ++ [k])
        have := weightBy_visit (fun x => !seen.contains x) (fun x => !(seen ++ [k]).contains x)
          (fun x hx => by
            simp only [Bool.not_eq_true', List.contains_eq_mem, List.mem_append, List.mem_singleton,
              decide_eq_false_iff_not, not_or] at hx ⊢
            exact hx.1)
          k n (by simpa using hs) (by simp) g hl
        unfold unseenWeight at h ⊢
        simp only [List.length_append]
        omega

/-- `cull` on task-spec graphs always returns (the model's fuel suffices) -/
theorem cullSpec_total (g : NGraph) (keys : List Obj) : ∃ out, cullSpec g keys = some out := by
  unfold cullSpec
  split
  · exact ⟨g, rfl⟩
  · obtain ⟨V, hV⟩ := cullSpecLoop_total g (cullSpecFuel g keys) keys [] (by
      unfold unseenWeight weightBy cullSpecFuel
      have : (g.filter fun kn => !([] : List Obj).contains kn.1) = g := by
        apply List.filter_eq_self.mpr; intro a _; simp
      rw [this]
      omega)
    exact ⟨restrictTo g V, by rw [hV]; rfl⟩

end Dask.TaskTerm
