import DaskModel.Lemmas.ReshapeGroupsLemmas
/-! `_smooth_chunks` (`smoothGroup`): per-axis sums and contiguity are preserved (C24). -/
namespace Dask.Reshape
open Dask.Chunks Dask.Structural

theorem sum_map_range_if (a b : Nat) : ∀ (f d : Nat), d ≤ f →
    sum ((List.range f).map (fun i => if i < d then a else b)) = d * a + (f - d) * b
  | 0, d, h => by
    have : d = 0 := by omega
    subst this; simp [sum]
  | f + 1, d, h => by
    rw [List.range_succ, List.map_append, sum_append]
    simp only [List.map_cons, List.map_nil, sum_cons]
    by_cases hd : d ≤ f
    · rw [sum_map_range_if a b f d hd]
      have : ¬ (f < d) := by omega
      simp only [this, if_false]
      have e : f + 1 - d = (f - d) + 1 := by omega
      rw [e, Nat.succ_mul]; simp [sum]; omega
    · have hd' : d = f + 1 := by omega
      subst hd'
      have h1 : ∀ i ∈ List.range f, (if i < f + 1 then a else b) = (if i < f then a else b) := by
        intro i hi
        have : i < f := by simpa using hi
        simp [this]; omega
      rw [List.map_congr_left h1, sum_map_range_if a b f f (Nat.le_refl _)]
      simp [sum, Nat.succ_mul]

theorem ceilDiv_mul_lt (c w : Nat) (hw : 0 < w) : ceilDiv c w * w < c + w := by
  unfold ceilDiv
  have h1 := Nat.div_mul_le_self (c + w - 1) w
  omega

theorem splitEven_sum (e f : Nat) (hf : 0 < f) : sum (splitEven e f) = e := by
  unfold splitEven
  have h1 := ceilDiv_mul_ge e f hf
  have h2 := ceilDiv_mul_lt e f hf
  generalize ceilDiv e f = ce at *
  rw [sum_map_range_if (ce - 1) ce f (ce * f - e) (by omega)]
  generalize hd : ce * f - e = d at *
  have hdf : d ≤ f := by omega
  rcases Nat.eq_zero_or_pos ce with h0 | h0
  · subst h0; simp at h1 hd ⊢; omega
  · obtain ⟨c', rfl⟩ : ∃ c', ce = c' + 1 := ⟨ce - 1, by omega⟩
    have h3 : d * c' + (f - d) * c' = f * c' := by rw [← Nat.add_mul]; congr 1; omega
    have h4 : (c' + 1) * f = f * c' + f := by rw [Nat.mul_comm, Nat.mul_succ]
    simp only [Nat.add_sub_cancel, Nat.mul_succ]
    omega

theorem ceilDiv_pos' (c w : Nat) (hc : 0 < c) (hw : 0 < w) : 0 < ceilDiv c w := ceilDiv_pos c w hc hw

theorem smoothMulti_sum (other maxIn : Nat) (hm : 0 < maxIn) : ∀ (cur : List Nat),
    sum (smoothMulti other maxIn cur) = sum cur
  | [] => rfl
  | e :: cur => by
    have ih := smoothMulti_sum other maxIn hm cur
    unfold smoothMulti at ih ⊢
    rw [List.flatMap_cons, sum_append, ih, sum_cons]
    congr 1
    split
    · simp [sum]
    · rename_i h
      exact splitEven_sum e _ (ceilDiv_pos _ _ (by omega) hm)


theorem firstNonOnes_lt : ∀ (g : List (List Nat)) (k : Nat), firstNonOnes g = some k → k < g.length
  | [], k, h => by simp [firstNonOnes] at h
  | c :: g, k, h => by
    unfold firstNonOnes at h
    split at h
    · cases hf : firstNonOnes g with
      | none => rw [hf] at h; simp at h
      | some k' =>
        rw [hf] at h; simp at h; subst h
        have := firstNonOnes_lt g k' hf
        simp; omega
    · simp at h; subst h; simp

theorem map_sum_set (g : List (List Nat)) (k : Nat) (new : List Nat) (h : sum new = sum (g.getD k [])) (hk : k < g.length) :
    (g.set k new).map sum = g.map sum := by
  apply List.ext_getElem?
  intro j
  rw [List.getElem?_map, List.getElem?_map]
  by_cases hj : j = k
  · subst hj
    rw [List.getElem?_set_self hk, List.getD_eq_getElem?_getD, List.getElem?_eq_getElem hk] at *
    simp [h]
  · rw [List.getElem?_set_ne (by omega)]

theorem contig_set_firstNonOnes : ∀ (g : List (List Nat)) (k : Nat) (new : List Nat), contig g = true →
    firstNonOnes g = some k → contig (g.set k new) = true
  | [], k, _, _, h => by simp [firstNonOnes] at h
  | c :: g, k, new, hc, h => by
    unfold firstNonOnes at h
    split at h
    · rename_i h1
      cases hf : firstNonOnes g with
      | none => rw [hf] at h; simp at h
      | some k' =>
        rw [hf] at h; simp at h; subst h
        have hg : contig g = true := by
          unfold contig at hc; rw [if_pos h1] at hc; exact hc
        simp only [List.set_cons_succ]
        unfold contig
        rw [if_pos h1]
        exact contig_set_firstNonOnes g k' new hg hf
    · rename_i h1
      simp at h; subst h
      have hs : singles g = true := by
        unfold contig at hc; rw [if_neg h1] at hc; exact hc
      simp only [List.set_cons_zero]
      unfold contig
      split
      · exact contig_singles g hs
      · exact hs

theorem smoothGroup_spec (maxIn : Nat) : ∀ (fuel : Nat) (g g' : List (List Nat)), smoothGroup maxIn fuel g = .ok g' →
    g'.map sum = g.map sum ∧ (contig g = true → contig g' = true)
  | 0, g, g', h => by simp [smoothGroup] at h
  | fuel + 1, g, g', h => by
    unfold smoothGroup at h
    split at h
    · cases h
    · rename_i maxRes _
      split at h
      · injection h with h; subst h; exact ⟨rfl, id⟩
      · split at h
        · cases h
        · rename_i k hk
          have hkl := firstNonOnes_lt g k hk
          dsimp only at h
          split at h
          · cases h
          · rename_i hm0
            split at h
            · rename_i hlen
              split at h
              · cases h
              · rename_i hf0
                have hsum : sum (splitEven ((g.getD k []).getD 0 0) (min (ceilDiv maxRes maxIn) ((g.getD k []).getD 0 0)))
                    = sum (g.getD k []) := by
                  rw [splitEven_sum _ _ (by omega)]
                  match hcur : g.getD k [], hlen with
                  | [x], _ => simp [sum]
                split at h
                · obtain ⟨i1, i2⟩ := smoothGroup_spec maxIn fuel _ g' h
                  rw [map_sum_set g k _ hsum hkl] at i1
                  exact ⟨i1, fun hc => i2 (contig_set_firstNonOnes g k _ hc hk)⟩
                · injection h with h; subst h
                  exact ⟨map_sum_set g k _ hsum hkl, fun hc => contig_set_firstNonOnes g k _ hc hk⟩
            · split at h
              · cases h
              · split at h
                · cases h
                · injection h with h; subst h
                  exact ⟨map_sum_set g k _ (smoothMulti_sum _ maxIn (by omega) _) hkl,
                    fun hc => contig_set_firstNonOnes g k _ hc hk⟩

end Dask.Reshape
