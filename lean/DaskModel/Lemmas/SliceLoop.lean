import DaskModel.Lemmas.SliceRange
/-! Denotation of the two loops of `_slice_1d` and of the bisect shortcuts around them. -/
namespace Dask.Slice1D

/-! ### Python's `indices` on the in-block slices that `_slice_1d` emits -/

theorem pySliceIdx_ofInts_pos {len : Nat} {a b step : Int} (hs : 0 < step)
    (ha : 0 ≤ a) (ha' : a ≤ len) (hb : 0 ≤ b) (hb' : b ≤ len) :
    pySliceIdx len (PSlice.ofInts a b step) = some (rangeUp a b step) := by
  have hs0 : ¬ step = 0 := by omega
  have hs1 : ¬ step < 0 := by omega
  have ha0 : ¬ a < 0 := by omega
  have hb0 : ¬ b < 0 := by omega
  simp only [pySliceIdx, pyIndices, PSlice.ofInts, Option.getD, hs0, hs1, ha0, hb0, if_false, pyRange, hs, if_true]
  congr 2
  · omega
  · omega

/-- the in-block slice of the negative-step loop: start and stop are given relative to the block's end -/
theorem pySliceIdx_ofInts_neg {len : Nat} {a b step : Int} (hs : step < 0)
    (ha : -(len : Int) ≤ a) (ha' : a < 0) (hb : -(len : Int) - 1 ≤ b) (hb' : b < 0) :
    pySliceIdx len (PSlice.ofInts a b step) = some (rangeDown (a + len) (b + len) step) := by
  have hs0 : ¬ step = 0 := by omega
  have hs1 : ¬ 0 < step := by omega
  simp only [pySliceIdx, pyIndices, PSlice.ofInts, Option.getD, hs0, hs, ha', hb', if_false, if_true, pyRange, hs1]
  congr 2
  · omega
  · omega

theorem pySliceIdx_colon (len : Nat) : pySliceIdx len colon = some (rangeUp 0 len 1) := by
  simp [pySliceIdx, pyIndices, colon, Option.getD, pyRange]

theorem getElem?_append_length {α : Type} (pre : List α) (l : α) (ls : List α) :
    (pre ++ l :: ls)[pre.length]? = some l := by
  simp

theorem take_length_append {α : Type} (pre ls : List α) : (pre ++ ls).take pre.length = pre := by
  simp

/-! ### positive step -/

theorem posLoop_nil_of_stop_nonpos (step : Int) :
    ∀ (ls : List Nat) (i : Nat) (s e : Int), e ≤ 0 → posLoop step ls i s e = [] := by
  intro ls
  induction ls with
  | nil => intros; rfl
  | cons l ls ih =>
    intro i s e he
    have : ¬ (s < (l : Int) ∧ 0 < e) := by omega
    simp only [posLoop, this, if_false]
    exact ih _ _ _ (by omega)

/-- The positive-step loop over the blocks `ls` that follow the blocks `pre`, started with `s`, `e`
    relative to the first block of `ls`, reads exactly `range(c + s, c + e, step)` where `c = sum pre`. -/
theorem posLoop_den (step : Int) (hs : 0 < step) :
    ∀ (ls pre : List Nat) (s e : Int), 0 ≤ s → e ≤ ((ls.sum : Nat) : Int) →
      (posLoop step ls pre.length s e).flatMap (blockDen (pre ++ ls))
        = rangeUp (((pre.sum : Nat) : Int) + s) (((pre.sum : Nat) : Int) + e) step := by
  intro ls
  induction ls with
  | nil =>
    intro pre s e hs0 he
    simp only [posLoop, List.flatMap_nil]
    rw [rangeUp_nil]
    simp at he; omega
  | cons l ls ih =>
    intro pre s e hs0 he
    have hsum : (((l :: ls).sum : Nat) : Int) = (l : Int) + ((ls.sum : Nat) : Int) := by simp
    rw [hsum] at he
    have happ : pre ++ l :: ls = (pre ++ [l]) ++ ls := by simp
    have hpre : (((pre ++ [l]).sum : Nat) : Int) = ((pre.sum : Nat) : Int) + (l : Int) := by simp
    have hlen : (pre ++ [l]).length = pre.length + 1 := by simp
    by_cases he0 : e ≤ 0
    · rw [posLoop_nil_of_stop_nonpos step _ _ _ _ he0, rangeUp_nil (by omega)]; rfl
    · by_cases hlt : s < (l : Int)
      · have hc : s < (l : Int) ∧ 0 < e := ⟨hlt, by omega⟩
        simp only [posLoop, hc, and_self, if_true, List.flatMap_cons]
        -- head block
        have hhead : blockDen (pre ++ l :: ls) (pre.length, PSlice.ofInts s (min e ↑l) step)
            = rangeUp (((pre.sum : Nat) : Int) + s) (min (((pre.sum : Nat) : Int) + e) (((pre.sum : Nat) : Int) + l)) step := by
          simp only [blockDen, getElem?_append_length, take_length_append]
          rw [pySliceIdx_ofInts_pos hs hs0 (by omega) (by omega) (by omega)]
          simp only
          rw [rangeUp_shift _ _ _ hs]
          congr 1
          · omega
          · omega
        rw [hhead]
        -- remaining blocks
        have htail := ih (pre ++ [l]) ((s - l) % step) (e - l) (Int.emod_nonneg _ (by omega)) (by omega)
        rw [hlen, ← happ, hpre] at htail
        rw [htail]
        have hsplit := rangeUp_split (((pre.sum : Nat) : Int) + e) step (((pre.sum : Nat) : Int) + l) hs
          (((pre.sum : Nat) : Int) + s) (by omega)
        rw [hsplit]
        congr 2
        · have : ((pre.sum : Nat) : Int) + s - (((pre.sum : Nat) : Int) + l) = s - l := by omega
          rw [this]
        · omega
      · have hc : ¬ (s < (l : Int) ∧ 0 < e) := by omega
        simp only [posLoop, hc, if_false]
        have htail := ih (pre ++ [l]) (s - l) (e - l) (by omega) (by omega)
        rw [hlen, ← happ, hpre] at htail
        rw [htail]
        congr 1
        · omega
        · omega

/-- blocks lying entirely below the start are passed over: this is the `istart` shortcut -/
theorem posLoop_skip (step : Int) :
    ∀ (skip ls : List Nat) (i : Nat) (s e : Int), ((skip.sum : Nat) : Int) ≤ s →
      posLoop step (skip ++ ls) i s e
        = posLoop step ls (i + skip.length) (s - ((skip.sum : Nat) : Int)) (e - ((skip.sum : Nat) : Int)) := by
  intro skip
  induction skip with
  | nil => intro ls i s e _; simp
  | cons l skip ih =>
    intro ls i s e h
    have hsum : (((l :: skip).sum : Nat) : Int) = (l : Int) + ((skip.sum : Nat) : Int) := by simp
    rw [hsum] at h ⊢
    have hc : ¬ (s < (l : Int) ∧ 0 < e) := by omega
    simp only [List.cons_append, posLoop, hc, if_false]
    rw [ih ls (i + 1) (s - l) (e - l) (by omega)]
    congr 1
    · simp; omega
    · omega
    · omega

/-- blocks lying entirely at or above the stop contribute nothing: this is the `istop` shortcut -/
theorem posLoop_trunc (step : Int) :
    ∀ (ls rest : List Nat) (i : Nat) (s e : Int), e ≤ ((ls.sum : Nat) : Int) →
      posLoop step (ls ++ rest) i s e = posLoop step ls i s e := by
  intro ls
  induction ls with
  | nil =>
    intro rest i s e he
    simp at he
    simp only [List.nil_append, posLoop]
    exact posLoop_nil_of_stop_nonpos step _ _ _ _ he
  | cons l ls ih =>
    intro rest i s e he
    have hsum : (((l :: ls).sum : Nat) : Int) = (l : Int) + ((ls.sum : Nat) : Int) := by simp
    rw [hsum] at he
    simp only [List.cons_append, posLoop]
    by_cases hc : s < (l : Int) ∧ 0 < e
    · simp only [hc, and_self, if_true]
      rw [ih rest _ _ _ (by omega)]
    · simp only [hc, if_false]
      rw [ih rest _ _ _ (by omega)]

/-! ### cumulative sums and bisect -/

theorem cumFrom_length (acc : Int) (ls : List Nat) : (cumFrom acc ls).length = ls.length := by
  induction ls generalizing acc with
  | nil => rfl
  | cons l ls ih => simp [cumFrom, ih]

/-- the first `bisectRight` blocks end at or before `x` -/
theorem bisectRight_prefix_le (x : Int) :
    ∀ (ls : List Nat) (acc : Int),
      acc + (((ls.take (bisectRight (cumFrom acc ls) x)).sum : Nat) : Int) ≤ x ∨ bisectRight (cumFrom acc ls) x = 0 := by
  intro ls
  induction ls with
  | nil => intro acc; right; rfl
  | cons l ls ih =>
    intro acc
    by_cases h : acc + (l : Int) ≤ x
    · left
      have hb : bisectRight (cumFrom acc (l :: ls)) x = bisectRight (cumFrom (acc + l) ls) x + 1 := by
        simp [bisectRight, cumFrom, h]
      rw [hb]
      simp only [List.take_succ_cons, List.sum_cons, Int.natCast_add]
      rcases ih (acc + l) with h1 | h1
      · omega
      · rw [h1]; simp; omega
    · right
      simp [bisectRight, cumFrom, h]

theorem length_takeWhile_le' {α : Type} (p : α → Bool) (xs : List α) : (xs.takeWhile p).length ≤ xs.length := by
  induction xs with
  | nil => simp
  | cons x xs ih =>
    simp only [List.takeWhile_cons]
    split
    · simp only [List.length_cons]; omega
    · simp

theorem bisectRight_le_length (xs : List Int) (x : Int) : bisectRight xs x ≤ xs.length := by
  unfold bisectRight
  exact length_takeWhile_le' _ _

theorem bisectLeft_le_length (xs : List Int) (x : Int) : bisectLeft xs x ≤ xs.length := by
  unfold bisectLeft
  exact length_takeWhile_le' _ _

/-- the block with number `bisectLeft` (if there is one) ends at or after `x` -/
theorem bisectLeft_next_ge (x : Int) :
    ∀ (ls : List Nat) (acc : Int), bisectLeft (cumFrom acc ls) x < ls.length →
      x ≤ acc + (((ls.take (bisectLeft (cumFrom acc ls) x + 1)).sum : Nat) : Int) := by
  intro ls
  induction ls with
  | nil => intro acc h; simp at h
  | cons l ls ih =>
    intro acc hlt
    by_cases h : acc + (l : Int) < x
    · have hb : bisectLeft (cumFrom acc (l :: ls)) x = bisectLeft (cumFrom (acc + l) ls) x + 1 := by
        simp [bisectLeft, cumFrom, h]
      rw [hb] at hlt ⊢
      simp only [List.take_succ_cons, List.sum_cons, Int.natCast_add]
      have := ih (acc + l) (by simpa using hlt)
      omega
    · have hb : bisectLeft (cumFrom acc (l :: ls)) x = 0 := by
        simp [bisectLeft, cumFrom, h]
      rw [hb]
      simp; omega

/-- the block with number `bisectRight` (if there is one) ends beyond `x` -/
theorem bisectRight_next_gt (x : Int) :
    ∀ (ls : List Nat) (acc : Int), bisectRight (cumFrom acc ls) x < ls.length →
      x < acc + (((ls.take (bisectRight (cumFrom acc ls) x + 1)).sum : Nat) : Int) := by
  intro ls
  induction ls with
  | nil => intro acc h; simp at h
  | cons l ls ih =>
    intro acc hlt
    by_cases h : acc + (l : Int) ≤ x
    · have hb : bisectRight (cumFrom acc (l :: ls)) x = bisectRight (cumFrom (acc + l) ls) x + 1 := by
        simp [bisectRight, cumFrom, h]
      rw [hb] at hlt ⊢
      simp only [List.take_succ_cons, List.sum_cons, Int.natCast_add]
      have := ih (acc + l) (by simpa using hlt)
      omega
    · have hb : bisectRight (cumFrom acc (l :: ls)) x = 0 := by
        simp [bisectRight, cumFrom, h]
      rw [hb]
      simp; omega

/-- sums of prefixes are monotone, and a prefix splits at any earlier point -/
theorem sum_take_le_add (ls : List Nat) :
    ∀ (a b : Nat), (ls.take b).sum ≤ (ls.take a).sum + ((ls.drop a).take (b - a)).sum := by
  induction ls with
  | nil => intro a b; simp
  | cons l ls ih =>
    intro a b
    cases a with
    | zero => simp
    | succ a =>
      cases b with
      | zero => simp
      | succ b =>
        simp only [List.take_succ_cons, List.sum_cons, List.drop_succ_cons, Nat.add_sub_add_right]
        have := ih a b
        omega

theorem sum_take_mono (ls : List Nat) : ∀ (a b : Nat), a ≤ b → (ls.take a).sum ≤ (ls.take b).sum := by
  induction ls with
  | nil => intro a b _; simp
  | cons l ls ih =>
    intro a b h
    cases a with
    | zero => simp
    | succ a =>
      cases b with
      | zero => omega
      | succ b =>
        simp only [List.take_succ_cons, List.sum_cons]
        have := ih a b (by omega)
        omega

theorem sum_take_le_sum (ls : List Nat) (a : Nat) : (ls.take a).sum ≤ ls.sum := by
  have h := sum_take_mono ls a (max a ls.length) (Nat.le_max_left _ _)
  rw [List.take_of_length_le (Nat.le_max_right _ _)] at h
  exact h

/-! ### negative step -/

theorem pyMod_neg (a step : Int) (hs : step < 0) : pyMod a step = -((-a) % (-step)) := by
  have : ¬ 0 < step := by omega
  simp [pyMod, this, hs]

theorem negLoop_nil_of_le (step stop base : Int) (i0 : Nat) :
    ∀ (rev : List Nat) (r : Int), r ≤ stop → negLoop step stop base i0 rev r = [] := by
  intro rev
  induction rev with
  | nil => intros; rfl
  | cons l rev ih =>
    intro r h
    have : ¬ ((base + ((rev.sum : Nat) : Int) ≤ r ∧ r < base + ((rev.sum : Nat) : Int) + l) ∧ stop < r) := by omega
    simp only [negLoop, this, if_false]
    exact ih r h

/-- The negative-step loop over the blocks `rev` (highest first) that sit on top of the blocks `low`
    and below the blocks `post` reads exactly `range(rstart, stop, step)`, provided the running start
    lies below the top of `rev` and nothing below `low`'s top is selected. -/
theorem negLoop_den (step stop : Int) (hs : step < 0) :
    ∀ (rev low post : List Nat) (r : Int),
      r < ((low.sum : Nat) : Int) + ((rev.sum : Nat) : Int) → ((low.sum : Nat) : Int) - 1 ≤ stop →
      (negLoop step stop ((low.sum : Nat) : Int) low.length rev r).flatMap (blockDen (low ++ rev.reverse ++ post))
        = rangeDown r stop step := by
  intro rev
  induction rev with
  | nil =>
    intro low post r hr hstop
    simp only [negLoop, List.flatMap_nil]
    rw [rangeDown_nil]
    simp at hr; omega
  | cons l rev ih =>
    intro low post r hr hstop
    have hsum : (((l :: rev).sum : Nat) : Int) = (l : Int) + ((rev.sum : Nat) : Int) := by simp
    rw [hsum] at hr
    have happ : low ++ (l :: rev).reverse ++ post = (low ++ rev.reverse) ++ l :: post := by simp
    have happ2 : low ++ rev.reverse ++ (l :: post) = (low ++ rev.reverse) ++ l :: post := by simp
    have hplen : (low ++ rev.reverse).length = low.length + rev.length := by simp
    have hpsum : (((low ++ rev.reverse).sum : Nat) : Int) = ((low.sum : Nat) : Int) + ((rev.sum : Nat) : Int) := by
      simp [List.sum_reverse]
    by_cases hle : r ≤ stop
    · rw [negLoop_nil_of_le _ _ _ _ _ _ hle, rangeDown_nil hle]; rfl
    · by_cases hin : ((low.sum : Nat) : Int) + ((rev.sum : Nat) : Int) ≤ r
      · have hc : ((((low.sum : Nat) : Int) + ((rev.sum : Nat) : Int) ≤ r ∧
            r < ((low.sum : Nat) : Int) + ((rev.sum : Nat) : Int) + l) ∧ stop < r) := by omega
        simp only [negLoop, hc, and_self, if_true, List.flatMap_cons]
        have hhead : blockDen (low ++ (l :: rev).reverse ++ post)
            (low.length + rev.length,
              PSlice.ofInts (r - (((low.sum : Nat) : Int) + ((rev.sum : Nat) : Int) + l))
                (max (((low.sum : Nat) : Int) + ((rev.sum : Nat) : Int) - (((low.sum : Nat) : Int) + ((rev.sum : Nat) : Int) + l) - 1)
                  (stop - (((low.sum : Nat) : Int) + ((rev.sum : Nat) : Int) + l))) step)
            = rangeDown r (max stop (((low.sum : Nat) : Int) + ((rev.sum : Nat) : Int) - 1)) step := by
          rw [happ, ← hplen]
          simp only [blockDen, getElem?_append_length, take_length_append]
          rw [pySliceIdx_ofInts_neg hs (by omega) (by omega) (by omega) (by omega)]
          simp only
          rw [rangeDown_shift _ _ _ hs, hpsum]
          congr 1
          · omega
          · omega
        rw [hhead]
        have htail := ih low (l :: post)
          (((low.sum : Nat) : Int) + ((rev.sum : Nat) : Int) +
            pyMod (r - (((low.sum : Nat) : Int) + ((rev.sum : Nat) : Int) - 1)) step - 1)
          (by rw [pyMod_neg _ _ hs]
              have := Int.emod_nonneg (-(r - (((low.sum : Nat) : Int) + ((rev.sum : Nat) : Int) - 1))) (by omega : -step ≠ 0)
              omega) hstop
        rw [happ2, ← happ] at htail
        rw [htail]
        have hsplit := rangeDown_split stop step (((low.sum : Nat) : Int) + ((rev.sum : Nat) : Int)) hs r hin
        rw [hsplit]
        congr 2
        rw [pyMod_neg _ _ hs]
        have : -(r - (((low.sum : Nat) : Int) + ((rev.sum : Nat) : Int) - 1))
            = ((low.sum : Nat) : Int) + ((rev.sum : Nat) : Int) - 1 - r := by omega
        rw [this]; omega
      · have hc : ¬ ((((low.sum : Nat) : Int) + ((rev.sum : Nat) : Int) ≤ r ∧
            r < ((low.sum : Nat) : Int) + ((rev.sum : Nat) : Int) + l) ∧ stop < r) := by omega
        simp only [negLoop, hc, if_false]
        have htail := ih low (l :: post) r (by omega) hstop
        rw [happ2, ← happ] at htail
        exact htail

end Dask.Slice1D
