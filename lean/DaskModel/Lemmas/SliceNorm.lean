import DaskModel.Lemmas.SlicePlan
/-! `slice.indices` bounds and the specification of `normalize_slice`. -/
namespace Dask.Slice1D

theorem pyIndices_bounds {n : Nat} {s : PSlice} {a b st : Int} (h : pyIndices n s = some (a, b, st)) :
    st ≠ 0 ∧ st = s.step.getD 1 ∧
    (0 < st → 0 ≤ a ∧ a ≤ n ∧ 0 ≤ b ∧ b ≤ n) ∧ (st < 0 → -1 ≤ a ∧ a ≤ (n : Int) - 1 ∧ -1 ≤ b ∧ b ≤ (n : Int) - 1) := by
  unfold pyIndices at h
  by_cases h0 : s.step.getD 1 = 0
  · simp [h0] at h
  · simp only [h0, if_false, Option.some.injEq, Prod.mk.injEq] at h
    obtain ⟨ha, hb, hst⟩ := h
    subst hst
    refine ⟨h0, rfl, ?_, ?_⟩
    · intro hp
      have hn : ¬ s.step.getD 1 < 0 := by omega
      simp only [hn, if_false] at ha hb
      constructor
      · subst ha; cases s.start <;> simp only <;> (try split) <;> omega
      constructor
      · subst ha; cases s.start <;> simp only <;> (try split) <;> omega
      constructor
      · subst hb; cases s.stop <;> simp only <;> (try split) <;> omega
      · subst hb; cases s.stop <;> simp only <;> (try split) <;> omega
    · intro hp
      simp only [hp, if_true] at ha hb
      constructor
      · subst ha; cases s.start <;> simp only <;> (try split) <;> omega
      constructor
      · subst ha; cases s.start <;> simp only <;> (try split) <;> omega
      constructor
      · subst hb; cases s.stop <;> simp only <;> (try split) <;> omega
      · subst hb; cases s.stop <;> simp only <;> (try split) <;> omega

/-- normalisation keeps Python's selection and produces a normal form -/
theorem normalizeSlice_spec {n : Nat} {s ns : PSlice} (h : normalizeSlice s n = some ns) :
    Normal n ns ∧ pySliceIdx n ns = pySliceIdx n s := by
  unfold normalizeSlice at h
  cases hpi : pyIndices n s with
  | none => simp [hpi] at h
  | some t =>
    rcases t with ⟨a, b, st⟩
    obtain ⟨hst0, _, hpos, hneg⟩ := pyIndices_bounds hpi
    simp only [hpi] at h
    have hsel : pySliceIdx n s = some (pyRange a b st) := by simp [pySliceIdx, hpi]
    rw [hsel]
    by_cases hp : 0 < st
    · obtain ⟨ha0, ha1, hb0, hb1⟩ := hpos hp
      have hnn : ¬ st < 0 := by omega
      simp only [hp, if_true, Option.some.injEq] at h
      subst h
      by_cases c1 : a = 0 <;> by_cases c2 : b ≥ (n : Int) <;> by_cases c3 : st = 1 <;> by_cases c4 : b < a <;>
        simp only [c1, c2, c3, c4, if_true, if_false] <;>
        (constructor
         · constructor <;> simp [stepOf, hst0, hp, c3] <;> omega
         · simp [pySliceIdx, pyIndices, pyRange, hp, hnn, hst0, c3, c1, c2, c4]
           first
             | (congr 1 <;> (repeat' split) <;> omega)
             | (rw [rangeUp_nil (by (repeat' split) <;> omega), rangeUp_nil (by omega)]))
    · have hn : st < 0 := by omega
      obtain ⟨ha0, ha1, hb0, hb1⟩ := hneg hn
      simp only [hp, if_false] at h
      by_cases c1 : a ≥ (n : Int) - 1
      · simp only [c1, if_true, Option.some.injEq] at h
        subst h
        by_cases c2 : b < 0 <;> simp only [c2, if_true, if_false] <;>
          (constructor
           · constructor <;> simp [stepOf, hst0, hp] <;> omega
           · simp [pySliceIdx, pyIndices, pyRange, hp, hn, hst0, c2]
             congr 1 <;> (repeat' split) <;> omega)
      · by_cases c3 : a < 0
        · simp only [c1, c3, if_true, if_false, Option.some.injEq] at h
          subst h
          constructor
          · constructor <;> simp [stepOf, PSlice.ofInts]
          · rw [pySliceIdx_ofInts_pos (by omega) (by omega) (by omega) (by omega) (by omega)]
            simp only [pyRange, hp, if_false, hn, if_true]
            rw [rangeUp_nil (by omega), rangeDown_nil (by omega)]
        · simp only [c1, c3, if_false, Option.some.injEq] at h
          subst h
          by_cases c2 : b < 0 <;> simp only [c2, if_true, if_false] <;>
            (constructor
             · constructor <;> simp [stepOf, hst0, hp] <;> omega
             · simp [pySliceIdx, pyIndices, pyRange, hp, hn, hst0, c2, c3]
               congr 1 <;> (repeat' split) <;> omega)

/-- `normalize_slice` clamps `stop` to `start` for positive steps -/
theorem normalizeSlice_clamp {n : Nat} {s ns : PSlice} (h : normalizeSlice s n = some ns) (hp : 0 < stepOf ns) :
    (startStop n ns).1 ≤ (startStop n ns).2 := by
  unfold normalizeSlice at h
  cases hpi : pyIndices n s with
  | none => simp [hpi] at h
  | some t =>
    rcases t with ⟨a, b, st⟩
    obtain ⟨hst0, _, hpos, hneg⟩ := pyIndices_bounds hpi
    simp only [hpi] at h
    by_cases hps : 0 < st
    · obtain ⟨ha0, ha1, hb0, hb1⟩ := hpos hps
      simp only [hps, if_true, Option.some.injEq] at h
      subst h
      by_cases c1 : a = 0 <;> by_cases c2 : b ≥ (n : Int) <;> by_cases c3 : st = 1 <;> by_cases c4 : b < a <;>
        simp [startStop, stepOf, c1, c2, c3, c4, hst0, hps, Option.getD] <;> (repeat' split) <;> omega
    · have hn : st < 0 := by omega
      obtain ⟨ha0, ha1, hb0, hb1⟩ := hneg hn
      simp only [hps, if_false] at h
      by_cases c1 : a ≥ (n : Int) - 1
      · simp only [c1, if_true, Option.some.injEq] at h
        subst h
        simp [stepOf, hst0] at hp; omega
      · by_cases c3 : a < 0
        · simp only [c1, c3, if_true, if_false, Option.some.injEq] at h
          subst h
          simp [startStop, stepOf, PSlice.ofInts, Option.getD]
        · simp only [c1, c3, if_false, Option.some.injEq] at h
          subst h
          simp [stepOf, hst0] at hp; omega

end Dask.Slice1D
