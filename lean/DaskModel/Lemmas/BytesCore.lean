import DaskModel.Lemmas.BytesMul
import Mathlib.Tactic.Linarith
/-! C18: the error analysis of `parse_bytes(format_bytes(n))`, as pure arithmetic over the naturals. -/
namespace Dask.Bytes

/-- rounding to 53 bits moves an integer below `2^60` by at most 64 -/
theorem rn53_near (n : Nat) (h : n < 2 ^ 60) : n ≤ rn53 n + 64 ∧ rn53 n ≤ n + 64 := by
  by_cases hb : bitLen n ≤ 53
  · rw [rn53_small n hb]; omega
  · have hle : bitLen n ≤ 60 := bitLen_le_of_lt_pow n 60 h
    simp only [rn53, hb, if_false]
    generalize hs : bitLen n - 53 = s
    have hs7 : s ≤ 7 := by omega
    have hpos : 0 < (2 : Nat) ^ s := Nat.pos_of_ne_zero (by simp)
    have hpow : (2 : Nat) ^ s ≤ 2 ^ 7 := Nat.pow_le_pow_right (by omega) hs7
    have := rheDiv_near n (2 ^ s) hpos
    omega

/-- **the error analysis.** `R` = the double nearest to `n`, `c` = the printed cents (`round(100·R/K)`),
`m/X` = the double nearest to `c/100`, `B` = `int(m/X · K)`; `K = 2^e` the band, `X = 2^s` with `K ≤ 128·X`. -/
theorem roundtrip_core (n R c m B K X : Nat) (hX : 0 < X)
    (h1a : n ≤ R + 64) (h1b : R ≤ n + 64)
    (h2a : 2 * (c * K) ≤ 2 * (R * 100) + K) (h2b : 2 * (R * 100) ≤ 2 * (c * K) + K)
    (h3a : 2 * (m * 100) ≤ 2 * (c * X) + 100) (h3b : 2 * (c * X) ≤ 2 * (m * 100) + 100)
    (h4a : B * X ≤ m * K) (h4b : m * K < (B + 1) * X)
    (h5 : K ≤ 128 * X) :
    200 * B ≤ 200 * n + K + 25600 ∧ 200 * n ≤ 200 * B + K + 25800 := by
  have e3a : 2 * (m * 100) * K ≤ (2 * (c * X) + 100) * K := Nat.mul_le_mul_right K h3a
  have e3b : 2 * (c * X) * K ≤ (2 * (m * 100) + 100) * K := Nat.mul_le_mul_right K h3b
  have e2a : 2 * (c * K) * X ≤ (2 * (R * 100) + K) * X := Nat.mul_le_mul_right X h2a
  have e2b : 2 * (R * 100) * X ≤ (2 * (c * K) + K) * X := Nat.mul_le_mul_right X h2b
  have e5 : K * X ≤ 128 * X * X := Nat.mul_le_mul_right X h5
  constructor
  · have key : 200 * B * X ≤ (200 * R + K + 12800) * X := by nlinarith
    have := Nat.le_of_mul_le_mul_right key hX
    omega
  · have key : 200 * R * X < (200 * B + K + 13000) * X := by nlinarith
    have := Nat.lt_of_mul_lt_mul_right key
    omega

end Dask.Bytes
