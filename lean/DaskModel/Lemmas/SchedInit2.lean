import DaskModel.Lemmas.SchedInit
/-! One iteration of `while stack:` in `start_state_from_dask` keeps `IInv` and decreases the measure. -/
namespace Dask.Sched
variable {α : Type}

/-- the state in which the DataNode branch starts its loop over `dependents[key]` -/
def dataSt (P : Params α) (s : InitSt α) (key : Key) (stack : List Key) : InitSt α :=
  { stack := stack, seen := key :: s.seen, readySet := s.readySet, dependencies := touch s.dependencies key, dependents := touch s.dependents key, waiting := s.waiting, waitingData := touch s.waitingData key, cache := s.cache.set key (P.dataVal key) }

theorem initVisit_data (g : Graph) (P : Params α) (s : InitSt α) (key : Key) (stack : List Key)
    (hg : g.get? key = some .data) (hnc : s.cache.has key = false) :
    initVisit g P key { s with stack := stack } =
      dataNodeLoop key (((touch s.dependents key).get? key).getD []) (dataSt P s key stack) := by
  unfold initVisit
  simp only [hg, hnc, Bool.false_eq_true, if_false]
  rfl

/-- with the invariant (empty start cache) a key that has not been visited is not in the cache: the
`if key in cache: continue` branch is never taken -/
theorem IInv.not_cached_of_not_seen {g : Graph} {results : List Key} {P : Params α} {s : InitSt α}
    (h : IInv g results P s) {key : Key} (hns : key ∉ s.seen) : s.cache.has key = false := by
  cases hc : s.cache.has key with
  | false => rfl
  | true =>
    obtain ⟨v, hv⟩ := (Map.has_iff s.cache key).mp hc
    exact absurd ((h.cacheVal key v).mp hv).1 hns

theorem IInv.visit_data {g : Graph} {results : List Key} {P : Params α} {s : InitSt α}
    (h : IInv g results P s) {key : Key} {stack : List Key} (hst : s.stack = key :: stack)
    (hns : key ∉ s.seen) (hg : g.get? key = some .data) :
    ∃ s', initVisit g P key { s with stack := stack } = .ok s' ∧ IInv g results P s' ∧
      measure g s' < measure g s := by
  rw [initVisit_data g P s key stack hg (h.not_cached_of_not_seen hns)]
  have hkd : isData g key := hg
  have hknt : ¬ isTask g key := fun ht => not_data_of_task ht hkd
  have hnd : nodeDeps g key = [] := nodeDeps_data hg
  have hLmem : ∀ j, j ∈ ((touch s.dependents key).get? key).getD [] ↔ (j ∈ s.seen ∧ key ∈ nodeDeps g j) := by
    intro j; rw [getD_touch]; exact h.dtsVal key j
  have hLN : (((touch s.dependents key).get? key).getD []).Nodup := by
    rw [getD_touch]
    cases hd : s.dependents.get? key with
    | none => simp
    | some l => simpa using h.dtsNodup key l hd
  have hncd : ¬ CD g s key := fun hc => hns hc.1
  have hpre : ∀ j ∈ ((touch s.dependents key).get? key).getD [],
      ∃ w, (dataSt P s key stack).waiting.get? j = some w ∧ key ∈ w := by
    intro j hj
    obtain ⟨hjs, hkj⟩ := (hLmem j).mp hj
    obtain ⟨w, hw⟩ := h.waitCover j hjs (isTask_of_dep hkj) ⟨key, hkj, hncd⟩
    exact ⟨w, hw, ((h.waitIff j w hw).2.2.2 key).mpr ⟨hkj, hncd⟩⟩
  obtain ⟨s', hs', hW, hR, hRN, c1, c2, c3, c4, c5, c6⟩ :=
    dataNodeLoop_spec key _ (dataSt P s key stack) hLN h.readyNodup hpre
  have e1 : s'.stack = stack := c1
  have e2 : s'.seen = key :: s.seen := c2
  have e3 : s'.dependencies = touch s.dependencies key := c3
  have e4 : s'.dependents = touch s.dependents key := c4
  have e5 : s'.waitingData = touch s.waitingData key := c5
  have e6 : s'.cache = s.cache.set key (P.dataVal key) := c6
  have hW' : ∀ j, s'.waiting.get? j =
      if j ∈ s.seen ∧ key ∈ nodeDeps g j then waitingAfter key (s.waiting.get? j) else s.waiting.get? j := by
    intro j
    rw [hW j]
    by_cases hj : j ∈ ((touch s.dependents key).get? key).getD []
    · rw [if_pos hj, if_pos ((hLmem j).mp hj)]; rfl
    · rw [if_neg hj, if_neg (fun hc => hj ((hLmem j).mpr hc))]; rfl
  have hR' : ∀ j, j ∈ s'.readySet ↔ j ∈ s.readySet ∨
      ((j ∈ s.seen ∧ key ∈ nodeDeps g j) ∧ ∃ w, s.waiting.get? j = some w ∧ srem key w = []) := by
    intro j
    rw [hR j, hLmem j]
    rfl
  have hseen' : ∀ k, k ∈ s'.seen ↔ k = key ∨ k ∈ s.seen := by intro k; rw [e2]; exact List.mem_cons
  have hCD' : ∀ d, CD g s' d ↔ (CD g s d ∨ d = key) := by
    intro d
    unfold CD
    rw [hseen']
    constructor
    · rintro ⟨h1 | h1, h2⟩
      · exact Or.inr h1
      · exact Or.inl ⟨h1, h2⟩
    · rintro (⟨h1, h2⟩ | h1)
      · exact ⟨Or.inr h1, h2⟩
      · exact ⟨Or.inl h1, h1 ▸ hkd⟩
  refine ⟨s', hs', ?_, ?_⟩
  · refine ⟨?_, ?_, ?_, ?_, ?_, ?_, ?_, ?_, ?_, ?_, ?_, ?_, hRN, ?_, ?_, ?_, ?_, ?_⟩
    · intro k hk; rw [e1] at hk; exact h.stackGraph k (by rw [hst]; exact List.mem_cons_of_mem _ hk)
    · intro k hk
      rcases (hseen' k).mp hk with rfl | h1
      · exact ⟨_, hg⟩
      · exact h.seenGraph k h1
    · intro r hr
      rw [hseen', e1]
      rcases h.resCover r hr with h1 | h1
      · exact Or.inl (Or.inr h1)
      · rw [hst] at h1
        rcases List.mem_cons.mp h1 with h2 | h2
        · exact Or.inl (Or.inl h2)
        · exact Or.inr h2
    · intro k hk d hd
      rw [hseen', e1]
      rcases (hseen' k).mp hk with rfl | h1
      · rw [hnd] at hd; cases hd
      · rcases h.depCover k h1 d hd with h2 | h2
        · exact Or.inl (Or.inr h2)
        · rw [hst] at h2
          rcases List.mem_cons.mp h2 with h3 | h3
          · exact Or.inl (Or.inl h3)
          · exact Or.inr h3
    · intro k hk
      have hold : k ∈ s.seen ∨ k ∈ s.stack := by
        rw [hseen', e1] at hk
        rcases hk with (rfl | h1) | h1
        · exact Or.inr (by rw [hst]; simp)
        · exact Or.inl h1
        · exact Or.inr (by rw [hst]; exact List.mem_cons_of_mem _ h1)
      rcases h.needed k hold with h1 | ⟨j, hj, hkj⟩
      · exact Or.inl h1
      · exact Or.inr ⟨j, (hseen' j).mpr (Or.inr hj), hkj⟩
    · intro k
      rw [e3, hseen', get?_touch]
      constructor
      · rintro ⟨ds, hds⟩
        split at hds
        · rename_i hc; exact Or.inl hc.1.symm
        · exact Or.inr ((h.depsDom k).mp ⟨ds, hds⟩)
      · rintro (rfl | h1)
        · by_cases hc : s.dependencies.get? k = none
          · exact ⟨[], by simp [hc]⟩
          · obtain ⟨ds, hds⟩ := Option.ne_none_iff_exists'.mp hc
            exact ⟨ds, by simp [hds]⟩
        · obtain ⟨ds, hds⟩ := (h.depsDom k).mpr h1
          exact ⟨ds, by
            split
            · rename_i hc; rw [← hc.1] at hds; rw [hc.2] at hds; cases hds
            · exact hds⟩
    · intro k ds hds
      rw [e3, get?_touch] at hds
      split at hds
      · rename_i hc
        simp only [Option.some.injEq] at hds
        rw [← hds, ← hc.1, hnd]
      · exact h.depsVal k ds hds
    · intro d j
      rw [e4, getD_touch, h.dtsVal d j, hseen']
      constructor
      · rintro ⟨h1, h2⟩; exact ⟨Or.inr h1, h2⟩
      · rintro ⟨rfl | h1, h2⟩
        · rw [hnd] at h2; cases h2
        · exact ⟨h1, h2⟩
    · intro d l hl
      rw [e4, get?_touch] at hl
      split at hl
      · simp only [Option.some.injEq] at hl; subst hl; simp
      · exact h.dtsNodup d l hl
    · intro k hk
      rw [e4, get?_touch]
      rcases (hseen' k).mp hk with rfl | h1
      · by_cases hc : s.dependents.get? k = none
        · exact ⟨[], by simp [hc]⟩
        · obtain ⟨l, hl⟩ := Option.ne_none_iff_exists'.mp hc
          exact ⟨l, by simp [hl]⟩
      · obtain ⟨l, hl⟩ := h.dtsDom k h1
        exact ⟨l, by
          split
          · rename_i hc; rw [← hc.1] at hl; rw [hc.2] at hl; cases hl
          · exact hl⟩
    · rw [e5, e4, h.wdEq]
    · intro k v
      rw [e6, Map.get?_set, hseen']
      by_cases hkk : key = k
      · subst hkk
        simp only [if_true, Option.some.injEq]
        constructor
        · intro hv; exact ⟨Or.inl trivial, hkd, hv.symm⟩
        · rintro ⟨_, _, hv⟩; exact hv.symm
      · simp only [hkk, if_false]
        rw [h.cacheVal k v]
        constructor
        · rintro ⟨h1, h2, h3⟩; exact ⟨Or.inr h1, h2, h3⟩
        · rintro ⟨h1 | h1, h2, h3⟩
          · exact absurd h1.symm hkk
          · exact ⟨h1, h2, h3⟩
    · -- readyIff
      intro k
      rw [hR' k, hseen']
      constructor
      · rintro (h1 | ⟨⟨hks, hkk⟩, w, hw, he⟩)
        · obtain ⟨a, b, c⟩ := (h.readyIff k).mp h1
          exact ⟨Or.inr a, b, fun d hd => (hCD' d).mpr (Or.inl (c d hd))⟩
        · refine ⟨Or.inr hks, isTask_of_dep hkk, ?_⟩
          intro d hd
          rw [hCD']
          by_cases hcd : CD g s d
          · exact Or.inl hcd
          · right
            have : d ∈ w := ((h.waitIff k w hw).2.2.2 d).mpr ⟨hd, hcd⟩
            exact (srem_eq_nil_iff.mp he) d this
      · rintro ⟨hks, hkt, hall⟩
        have hks' : k ∈ s.seen := by
          rcases hks with rfl | h1
          · exact absurd hkt hknt
          · exact h1
        by_cases hold : ∀ d ∈ nodeDeps g k, CD g s d
        · exact Or.inl ((h.readyIff k).mpr ⟨hks', hkt, hold⟩)
        · right
          have hex : ∃ d ∈ nodeDeps g k, ¬ CD g s d := by
            apply Classical.byContradiction
            intro hno
            apply hold
            intro d hd
            apply Classical.byContradiction
            intro hcd
            exact hno ⟨d, hd, hcd⟩
          obtain ⟨d0, hd0, hcd0⟩ := hex
          have hd0k : d0 = key := by
            rcases (hCD' d0).mp (hall d0 hd0) with h1 | h1
            · exact absurd h1 hcd0
            · exact h1
          obtain ⟨w, hw⟩ := h.waitCover k hks' hkt ⟨d0, hd0, hcd0⟩
          refine ⟨⟨hks', hd0k ▸ hd0⟩, w, hw, ?_⟩
          rw [srem_eq_nil_iff]
          intro x hx
          obtain ⟨hxd, hxc⟩ := ((h.waitIff k w hw).2.2.2 x).mp hx
          rcases (hCD' x).mp (hall x hxd) with h1 | h1
          · exact absurd h1 hxc
          · exact h1
    · -- waitIff
      intro k w hw
      rw [hW' k] at hw
      rw [hseen']
      by_cases hkL : k ∈ s.seen ∧ key ∈ nodeDeps g k
      · rw [if_pos hkL] at hw
        cases hw0 : s.waiting.get? k with
        | none => rw [hw0] at hw; simp [waitingAfter] at hw
        | some w0 =>
          rw [hw0] at hw
          simp only [waitingAfter] at hw
          split at hw
          · cases hw
          · rename_i hne
            simp only [Option.some.injEq] at hw
            subst hw
            obtain ⟨a, b, _, c⟩ := h.waitIff k w0 hw0
            refine ⟨Or.inr a, b, hne, ?_⟩
            intro d
            rw [mem_srem, c d, hCD']
            constructor
            · rintro ⟨⟨h1, h2⟩, h3⟩
              exact ⟨h1, fun h4 => h4.elim h2 h3⟩
            · rintro ⟨h1, h2⟩
              exact ⟨⟨h1, fun h3 => h2 (Or.inl h3)⟩, fun h3 => h2 (Or.inr h3)⟩
      · rw [if_neg hkL] at hw
        obtain ⟨a, b, c, e⟩ := h.waitIff k w hw
        refine ⟨Or.inr a, b, c, ?_⟩
        intro d
        rw [e d, hCD']
        constructor
        · rintro ⟨h1, h2⟩
          refine ⟨h1, fun h4 => h4.elim h2 ?_⟩
          rintro rfl
          exact hkL ⟨a, h1⟩
        · rintro ⟨h1, h2⟩
          exact ⟨h1, fun h3 => h2 (Or.inl h3)⟩
    · -- waitCover
      intro k hk hkt ⟨d, hd, hcd⟩
      have hks : k ∈ s.seen := by
        rcases (hseen' k).mp hk with rfl | h1
        · exact absurd hkt hknt
        · exact h1
      have hcd0 : ¬ CD g s d := fun hc => hcd ((hCD' d).mpr (Or.inl hc))
      have hdk : d ≠ key := fun e => hcd ((hCD' d).mpr (Or.inr e))
      obtain ⟨w0, hw0⟩ := h.waitCover k hks hkt ⟨d, hd, hcd0⟩
      rw [hW' k]
      by_cases hkL : k ∈ s.seen ∧ key ∈ nodeDeps g k
      · rw [if_pos hkL, hw0]
        simp only [waitingAfter]
        have hdw : d ∈ w0 := ((h.waitIff k w0 hw0).2.2.2 d).mpr ⟨hd, hcd0⟩
        have hne : srem key w0 ≠ [] := by
          intro he
          exact hdk ((srem_eq_nil_iff.mp he) d hdw)
        exact ⟨srem key w0, by simp [hne]⟩
      · rw [if_neg hkL]
        exact ⟨w0, hw0⟩
    · -- dtsLive
      intro d l hl
      rw [e4, get?_touch] at hl
      rw [hseen']
      split at hl
      · rename_i hc; exact Or.inl (Or.inl hc.1.symm)
      · rcases h.dtsLive d l hl with h1 | h1
        · exact Or.inl (Or.inr h1)
        · exact Or.inr h1
    · -- reach
      intro k hk
      apply h.reach k
      rw [hseen', e1] at hk
      rcases hk with (rfl | h1) | h1
      · exact Or.inr (by rw [hst]; simp)
      · exact Or.inl h1
      · exact Or.inr (by rw [hst]; exact List.mem_cons_of_mem _ h1)
  · unfold measure
    rw [e1, e2, hst]
    have := remSum_cons_le g s.seen key
    simp only [List.length_cons]
    omega

end Dask.Sched
