import DaskModel.Lemmas.FuseLinear3
/-! `fuse_linear_task_spec`: the two walks, the loop body, and the theorem. -/
namespace Dask.TaskTerm

theorem FLInv.congr {g : NGraph} {req : List Obj} {st : FuseSt} {P P' : List Obj} (hi : FLInv g req st P)
    (h : ∀ k, k ∈ P ↔ k ∈ P') : FLInv g req st P' :=
  ⟨hi.resNodup, fun k hk => hi.pendSeen k ((h k).mpr hk),
   fun k hk => (hi.resKeys k hk).imp (fun ⟨a, b⟩ => ⟨a, fun hc => b ((h k).mpr hc)⟩) id,
   hi.plainOK, hi.fusedOK,
   fun k n hg hs hp => hi.cover k n hg hs (fun hc => hp ((h k).mp hc)),
   fun k hk => ⟨(hi.innerSeen k hk).1, fun hc => (hi.innerSeen k hk).2 ((h k).mpr hc)⟩,
   hi.disjoint,
   fun k hk hs hp hg => hi.reqKept k hk hs (fun hc => hp ((h k).mp hc)) hg⟩

/-- a newly seen key of the graph that is not part of a chain gets its own entry -/
theorem FLInv.standalone {g : NGraph} {req : List Obj} {st : FuseSt} {P : List Obj} (hi : FLInv g req st P)
    {x : Obj} {n : Node} (hx : x ∉ st.seen) (hg : g.lookup x = some n) :
    FLInv g req { seen := x :: st.seen, result := setKey st.result x (.plain n) } P := by
  have h1 := hi.see_pending hx
  have h2 := h1.add_plain (x := x) (n := n) (by simp) (by simp) hg
  refine h2.congr ?_
  intro k
  simp only [List.mem_filter, List.mem_cons, Bool.not_eq_true', beq_eq_false_iff_ne]
  constructor
  · rintro ⟨h | h, hne⟩
    · exact absurd h hne
    · exact h
  · intro h
    exact ⟨Or.inr h, fun e => hx (e ▸ hi.pendSeen k h)⟩

theorem singleton_of_length_one_mem {l : List Obj} {x : Obj} (hl : l.length = 1) (hx : x ∈ l) : l = [x] := by
  match l, hl with
  | [y], _ => simp at hx; rw [hx]

theorem walkDown_spec (g : NGraph) (req : List Obj) (key : Obj) (hnodup : (g.map Prod.fst).Nodup) :
    ∀ (fuel : Nat) (deps chain : List Obj) (st : FuseSt) (cur : Obj),
      FLInv g req st (chain ++ [key]) → ChainOK g req (chain ++ [key]) → (chain ++ [key]).Nodup →
      (chain ++ [key]).head? = some cur → deps = depSet g cur →
      FLInv g req (walkDown g req fuel deps chain st).2 ((walkDown g req fuel deps chain st).1 ++ [key]) ∧
      ChainOK g req ((walkDown g req fuel deps chain st).1 ++ [key]) ∧
      ((walkDown g req fuel deps chain st).1 ++ [key]).Nodup ∧
      (∀ x ∈ st.seen, x ∈ (walkDown g req fuel deps chain st).2.seen)
  | 0, deps, chain, st, cur, hi, hc, hn, _, _ => ⟨hi, hc, hn, fun _ h => h⟩
  | fuel + 1, deps, chain, st, cur, hi, hc, hn, hcur, hdeps => by
    unfold walkDown
    split
    · rename_i newKey
      by_cases hs : st.seen.contains newKey = true
      · rw [if_pos hs]; exact ⟨hi, hc, hn, fun _ h => h⟩
      · rw [if_neg hs]
        have hns : newKey ∉ st.seen := by simpa using hs
        cases hl : g.lookup newKey with
        | none =>
          simp only
          exact ⟨hi.see_external hns hl, hc, hn, fun x hx => List.mem_cons_of_mem _ hx⟩
        | some n =>
          simp only
          split
          · exact ⟨hi.standalone hns hl, hc, hn, fun x hx => List.mem_cons_of_mem _ hx⟩
          · rename_i hcond
            simp only [Bool.or_eq_true, bne_iff_ne, ne_eq, not_or, Decidable.not_not, Bool.not_eq_true] at hcond
            -- `cur` depends on `newKey`, and `newKey` has exactly one dependent
            have hcurP : cur ∈ chain ++ [key] := List.mem_of_mem_head? hcur
            have hcurg := hc.keys cur hcurP
            have hdep : cur ∈ dependentSet g newKey := by
              cases hlc : g.lookup cur with
              | none => rw [hlc] at hcurg; cases hcurg
              | some m =>
                have : newKey ∈ depSet g cur := by rw [← hdeps]; simp
                obtain ⟨m', hm', hd⟩ := mem_depSet.mp this
                rw [hlc] at hm'; cases hm'
                exact mem_dependentSet.mpr ⟨m, mem_of_lookup g cur m hlc, hd⟩
            have hds : dependentSet g newKey = [cur] := singleton_of_length_one_mem hcond.1 hdep
            have hnP : newKey ∉ chain ++ [key] := fun h => hns (hi.pendSeen _ h)
            have hne : chain ++ [key] ≠ [] := by simp
            have hhead : (chain ++ [key]).head hne = cur := by
              have := List.head?_eq_some_head hne
              rw [this] at hcur; exact Option.some.inj hcur
            have hc' : ChainOK g req (newKey :: chain ++ [key]) := by
              have := ChainOK.cons (b := newKey) hne (by simp [hl]) hcond.2 (by rw [hhead]; exact hds) hc
              simpa using this
            have ih := walkDown_spec g req key hnodup fuel (depSet g newKey) (newKey :: chain)
              { st with seen := newKey :: st.seen } newKey
              (by simpa using hi.see_pending hns) (by simpa using hc')
              (by simp only [List.cons_append]; exact List.nodup_cons.mpr ⟨hnP, hn⟩) (by simp) rfl
            exact ⟨ih.1, ih.2.1, ih.2.2.1, fun x hx => ih.2.2.2 x (List.mem_cons_of_mem _ hx)⟩
    · exact ⟨hi, hc, hn, fun _ h => h⟩

end Dask.TaskTerm

namespace Dask.TaskTerm

theorem walkUp_spec (g : NGraph) (req : List Obj) (below : List Obj) (key : Obj) :
    ∀ (fuel : Nat) (dk : List Obj) (top : Obj) (above : List Obj) (st : FuseSt),
      FLInv g req st (below ++ key :: above) → ChainOK g req (below ++ key :: above) →
      (below ++ key :: above).Nodup → (below ++ key :: above).getLast? = some top → dk = dependentSet g top →
      FLInv g req (walkUp g req fuel dk top above st).2.2 (below ++ key :: (walkUp g req fuel dk top above st).1) ∧
      ChainOK g req (below ++ key :: (walkUp g req fuel dk top above st).1) ∧
      (below ++ key :: (walkUp g req fuel dk top above st).1).Nodup ∧
      (below ++ key :: (walkUp g req fuel dk top above st).1).getLast? = some (walkUp g req fuel dk top above st).2.1 ∧
      (∀ x ∈ st.seen, x ∈ (walkUp g req fuel dk top above st).2.2.seen)
  | 0, dk, top, above, st, hi, hc, hn, ht, _ => ⟨hi, hc, hn, ht, fun _ h => h⟩
  | fuel + 1, dk, top, above, st, hi, hc, hn, ht, hdk => by
    unfold walkUp
    split
    · rename_i newKey
      by_cases hrt : req.contains top = true
      · rw [if_pos hrt]; exact ⟨hi, hc, hn, ht, fun _ h => h⟩
      · rw [if_neg hrt]
        by_cases hs : st.seen.contains newKey = true
        · rw [if_pos hs]; exact ⟨hi, hc, hn, ht, fun _ h => h⟩
        · rw [if_neg hs]
          have hns : newKey ∉ st.seen := by simpa using hs
          cases hl : g.lookup newKey with
          | none =>
            simp only
            exact ⟨hi.see_external hns hl, hc, hn, ht, fun x hx => List.mem_cons_of_mem _ hx⟩
          | some n =>
            simp only
            split
            · exact ⟨hi.standalone hns hl, hc, hn, ht, fun x hx => List.mem_cons_of_mem _ hx⟩
            · have hne : below ++ key :: above ≠ [] := by simp
              have hlast : (below ++ key :: above).getLast hne = top := by
                have := List.getLast?_eq_some_getLast hne
                rw [this] at ht; exact Option.some.inj ht
              have hnP : newKey ∉ below ++ key :: above := fun h => hns (hi.pendSeen _ h)
              have hc' : ChainOK g req ((below ++ key :: above) ++ [newKey]) :=
                ChainOK.snoc hne hc (by rw [hlast]; simpa using hrt) (by rw [hlast, ← hdk]) (by simp [hl])
              have hassoc : below ++ key :: (above ++ [newKey]) = (below ++ key :: above) ++ [newKey] := by simp
              have hi' : FLInv g req { st with seen := newKey :: st.seen } (below ++ key :: (above ++ [newKey])) := by
                refine (hi.see_pending hns).congr ?_
                intro k; rw [hassoc]
                simp only [List.mem_cons, List.mem_append, List.not_mem_nil, or_false]
                constructor
                · rintro (h | h | h | h)
                  · exact Or.inr h
                  · exact Or.inl (Or.inl h)
                  · exact Or.inl (Or.inr (Or.inl h))
                  · exact Or.inl (Or.inr (Or.inr h))
                · rintro ((h | h | h) | h)
                  · exact Or.inr (Or.inl h)
                  · exact Or.inr (Or.inr (Or.inl h))
                  · exact Or.inr (Or.inr (Or.inr h))
                  · exact Or.inl h
              have ih := walkUp_spec g req below key fuel (dependentSet g newKey) newKey (above ++ [newKey])
                { st with seen := newKey :: st.seen } hi' (by rw [hassoc]; exact hc')
                (by rw [hassoc]; exact List.nodup_append.mpr ⟨hn, by simp, fun a ha b hb e => by
                  simp only [List.mem_singleton] at hb; subst hb; subst e; exact hnP ha⟩)
                (by rw [hassoc]; exact List.getLast?_concat) rfl
              exact ⟨ih.1, ih.2.1, ih.2.2.1, ih.2.2.2.1, fun x hx => ih.2.2.2.2 x (List.mem_cons_of_mem _ hx)⟩
    · exact ⟨hi, hc, hn, ht, fun _ h => h⟩

end Dask.TaskTerm
