import DaskModel.Model.Chunks
/-! Helper lemmas for C23 (normalize_chunks half): `blockdims1`, `convertInts`, `finalize`. -/
namespace Dask.Chunks

theorem isum_nil : isum [] = 0 := rfl
theorem isum_cons (x : Int) (xs : List Int) : isum (x :: xs) = x + isum xs := rfl

theorem isum_append (a b : List Int) : isum (a ++ b) = isum a + isum b := by
  induction a with
  | nil => simp [isum_nil]
  | cons x xs ih => simp only [List.cons_append, isum_cons, ih]; omega

theorem isum_replicate (n : Nat) (c : Int) : isum (List.replicate n c) = n * c := by
  induction n with
  | zero => simp [isum_nil]
  | succ n ih =>
    simp only [List.replicate_succ, isum_cons, ih]
    rw [Int.natCast_succ, Int.add_mul]; omega

/-- a dimension of the result: non-empty, no negative entry, adds up to `s` -/
def DimOK (c : List Int) (s : Nat) : Prop := c ≠ [] ∧ (∀ x ∈ c, 0 ≤ x) ∧ isum c = (s : Int)

/-- a *normalised* dimension: `DimOK` and all positive, or exactly `[0]` -/
def DimValid (c : List Int) (s : Nat) : Prop := isum c = (s : Int) ∧ ((c ≠ [] ∧ ∀ x ∈ c, 0 < x) ∨ c = [0])

def AllDims (P : List Int → Nat → Prop) : List (List Int) → List Nat → Prop
  | [], [] => True
  | c :: cs, s :: ss => P c s ∧ AllDims P cs ss
  | _, _ => False

theorem AllDims.length {P} : ∀ {r : List (List Int)} {shape : List Nat}, AllDims P r shape → r.length = shape.length
  | [], [], _ => rfl
  | _ :: _, _ :: _, h => by simp [AllDims.length h.2]
  | [], _ :: _, h => by simp [AllDims] at h
  | _ :: _, [], h => by simp [AllDims] at h

theorem AllDims.get {P} : ∀ {r : List (List Int)} {shape : List Nat}, AllDims P r shape →
    ∀ i (h1 : i < r.length) (h2 : i < shape.length), P r[i] shape[i]
  | [], [], _, i, h1, _ => by simp at h1
  | _ :: _, _ :: _, h, 0, _, _ => h.1
  | _ :: _, _ :: _, h, i + 1, h1, h2 => by
    simpa using AllDims.get h.2 i (by simpa using h1) (by simpa using h2)
  | [], _ :: _, h, _, _, _ => by simp [AllDims] at h
  | _ :: _, [], h, _, _, _ => by simp [AllDims] at h

/-- `blockdims_from_blockshape` for a positive block size: positive chunks adding up to `d`
    (uniform with a smaller last chunk), or `(0,)` for an empty dimension. -/
theorem blockdims1_pos {d : Nat} {bd : Int} {r : List Int} (hbd : 0 < bd)
    (h : blockdims1 d bd = .ok r) : DimValid r d := by
  unfold blockdims1 at h
  by_cases hd : d = 0
  · simp [hd] at h; subst h; subst hd; exact ⟨by simp [isum_cons, isum_nil], Or.inr rfl⟩
  · have hbd0 : bd ≠ 0 := by omega
    simp only [hd, hbd0, if_false] at h
    injection h with h
    rw [Int.fdiv_eq_ediv_of_nonneg _ (Int.le_of_lt hbd), Int.fmod_eq_emod_of_nonneg _ (Int.le_of_lt hbd)] at h
    have hq : 0 ≤ (d : Int) / bd := Int.ediv_nonneg (Int.natCast_nonneg d) (Int.le_of_lt hbd)
    have hr0 : 0 ≤ (d : Int) % bd := Int.emod_nonneg _ hbd0
    have hsum : isum r = d := by
      rw [← h, isum_append, isum_replicate, Int.toNat_of_nonneg hq]
      have := Int.mul_ediv_add_emod (d : Int) bd
      by_cases hr : (d : Int) % bd = 0
      · simp only [hr, ne_eq, not_true_eq_false, if_false, isum_nil]
        rw [hr] at this; rw [Int.mul_comm]; omega
      · simp only [hr, ne_eq, not_false_eq_true, if_true, isum_cons, isum_nil]
        rw [Int.mul_comm]; omega
    refine ⟨hsum, Or.inl ⟨?_, ?_⟩⟩
    · intro hnil
      rw [hnil, isum_nil] at hsum
      omega
    · intro x hx
      rw [← h] at hx
      rcases List.mem_append.1 hx with hx | hx
      · rw [List.mem_replicate] at hx; omega
      · by_cases hr : (d : Int) % bd = 0
        · simp [hr] at hx
        · simp only [hr, ne_eq, not_false_eq_true, if_true, List.mem_singleton] at hx; omega

theorem fmod_neg_of_neg (a b : Int) (hb : b < 0) (h : a.fmod b ≠ 0) : a.fmod b < 0 := by
  rw [Int.fmod_eq_emod] at *
  have h1 := Int.emod_lt_of_neg a hb
  have h2 := Int.emod_nonneg a (show b ≠ 0 by omega)
  by_cases hc : 0 ≤ b ∨ b ∣ a
  · simp only [hc, if_true] at h ⊢
    rcases hc with hc | hc
    · omega
    · have := Int.emod_eq_zero_of_dvd hc
      omega
  · simp only [hc, if_false] at h ⊢
    omega

/-- with a negative block size the code builds an empty tuple or a single negative remainder:
    never a non-empty tuple of non-negative entries -/
theorem blockdims1_neg {d : Nat} {bd : Int} {r : List Int} (hbd : bd < 0)
    (h : blockdims1 d bd = .ok r) : d = 0 ∨ r = [] ∨ ∃ x ∈ r, x < 0 := by
  unfold blockdims1 at h
  by_cases hd : d = 0
  · exact Or.inl hd
  · right
    have hbd0 : bd ≠ 0 := by omega
    simp only [hd, hbd0, if_false] at h
    injection h with h
    have hq : Int.fdiv (d : Int) bd ≤ 0 := by
      rw [Int.fdiv_eq_ediv]
      have : (d : Int) / bd ≤ 0 := Int.ediv_nonpos_of_nonneg_of_nonpos (Int.natCast_nonneg d) (Int.le_of_lt hbd)
      split <;> omega
    have hq' : (Int.fdiv (d : Int) bd).toNat = 0 := by omega
    rw [hq'] at h
    simp only [List.replicate_zero, List.nil_append] at h
    by_cases hr : Int.fmod (d : Int) bd = 0
    · left; simp [hr] at h; exact h
    · right
      simp only [hr, ne_eq, not_false_eq_true, if_true] at h
      refine ⟨Int.fmod (d : Int) bd, by simp [← h], ?_⟩
      exact fmod_neg_of_neg _ _ hbd hr  -- fmod has the sign of the divisor

theorem convertOne_ok {s : Nat} {c : Spec} {d : List Int} (h : convertOne s c = .ok d) :
    (∃ bd, (c = .int bd ∨ c = .flt bd) ∧ blockdims1 s bd = .ok d) ∨ c = .tup d := by
  cases c <;> simp only [convertOne] at h
  · exact Or.inl ⟨_, Or.inl rfl, h⟩
  · exact Or.inl ⟨_, Or.inr rfl, h⟩
  · cases h
  · cases h
  · cases h
  · injection h with h; exact Or.inr (by rw [h])

theorem convertInts_cons_ok {s : Nat} {ss : List Nat} {c : Spec} {cs : List Spec} {r : List (List Int)}
    (h : convertInts (s :: ss) (c :: cs) = .ok r) :
    ∃ d rest, r = d :: rest ∧ convertInts ss cs = .ok rest ∧ convertOne s c = .ok d := by
  simp only [convertInts] at h
  cases h1 : convertOne s c with
  | error e => simp [h1] at h
  | ok d =>
    cases h2 : convertInts ss cs with
    | error e => simp [h1, h2] at h
    | ok rest =>
      simp only [h1, h2] at h
      injection h with h
      exact ⟨d, rest, h.symm, rfl, rfl⟩

/-- the heart of `normalize_sum_*`: whatever survives the three validations is a non-empty
    tuple of non-negative sizes adding up to the dimension -/
theorem convertInts_dims : ∀ {shape : List Nat} {chunks : List Spec} {r : List (List Int)},
    convertInts shape chunks = .ok r → chunks.length = shape.length →
    r.any (fun c => c.isEmpty || c.any (· < 0)) = false →
    (chunks.all Spec.isInt = true ∨ sumsMatch r shape = true) →
    AllDims DimOK r shape
  | [], [], r, h, _, _, _ => by simp [convertInts] at h; subst h; trivial
  | [], _ :: _, _, _, hl, _, _ => by simp at hl
  | _ :: _, [], _, _, hl, _, _ => by simp at hl
  | s :: ss, c :: cs, r, h, hl, hany, hsum => by
    obtain ⟨d, rest, rfl, hrest, hd⟩ := convertInts_cons_ok h
    simp only [List.any_cons, Bool.or_eq_false_iff] at hany
    obtain ⟨⟨hne, hneg⟩, hany'⟩ := hany
    have hsum' : (cs.all Spec.isInt = true ∨ sumsMatch rest ss = true) := by
      rcases hsum with hs | hs
      · left; simp only [List.all_cons, Bool.and_eq_true] at hs; exact hs.2
      · right; simp only [sumsMatch, Bool.and_eq_true] at hs; exact hs.2
    refine ⟨?_, convertInts_dims hrest (by simpa using hl) hany' hsum'⟩
    have hne' : d ≠ [] := by intro hh; simp [hh] at hne
    have hnn : ∀ x ∈ d, 0 ≤ x := by
      intro x hx
      have := List.any_eq_false.1 hneg x hx
      simp at this; exact this
    refine ⟨hne', hnn, ?_⟩
    rcases convertOne_ok hd with ⟨bd, _, hb⟩ | hc
    · -- produced by blockdims_from_blockshape
      rcases Int.lt_trichotomy bd 0 with hlt | heq | hgt
      · rcases blockdims1_neg hlt hb with h0 | hnil | ⟨x, hx, hxn⟩
        · subst h0; simp [blockdims1] at hb; subst hb; simp [isum_cons, isum_nil]
        · exact absurd hnil hne'
        · have := hnn x hx; omega
      · subst heq
        unfold blockdims1 at hb
        by_cases h0 : s = 0
        · subst h0; simp at hb; subst hb; simp [isum_cons, isum_nil]
        · simp [h0] at hb
      · exact (blockdims1_pos hgt hb).1
    · -- an explicit tuple: not an int, so the sum check applied
      subst hc
      rcases hsum with hs | hs
      · simp [Spec.isInt] at hs
      · simp only [sumsMatch, Bool.and_eq_true, beq_iff_eq] at hs; exact hs.1

/-- no negative size goes in ⇒ no negative size comes out of `_convert_int_chunk_to_tuple` -/
theorem convertInts_nonneg : ∀ {shape : List Nat} {chunks : List Spec} {r : List (List Int)},
    convertInts shape chunks = .ok r → (∀ c ∈ chunks, c.isNeg = false) → ∀ d ∈ r, d.any (· < 0) = false
  | [], _, r, h, _ => by simp [convertInts] at h; subst h; simp
  | _ :: _, [], r, h, _ => by simp [convertInts] at h; subst h; simp
  | s :: ss, c :: cs, r, h, hn => by
    obtain ⟨d, rest, rfl, hrest, hd⟩ := convertInts_cons_ok h
    intro d' hd'
    rcases List.mem_cons.1 hd' with rfl | hmem
    · have hc := hn c (by simp)
      rcases convertOne_ok hd with ⟨bd, hcb, hb⟩ | hct
      · have hbd : 0 ≤ bd := by
          rcases hcb with rfl | rfl <;> simpa [Spec.isNeg] using hc
        rcases Int.lt_or_eq_of_le hbd with hgt | heq
        · have := (blockdims1_pos hgt hb).2
          rw [List.any_eq_false]
          intro x hx
          rcases this with ⟨_, hp⟩ | hz
          · have := hp x hx; simp; omega
          · subst hz; simp at hx; subst hx; simp
        · subst heq
          unfold blockdims1 at hb
          by_cases h0 : s = 0
          · subst h0; simp at hb; subst hb; simp
          · simp [h0] at hb
      · subst hct; simpa [Spec.isNeg] using hc
    · exact convertInts_nonneg hrest (fun c hc => hn c (by simp [hc])) d' hmem

theorem fillFull_length : ∀ (cs : List Spec) (ss : List Nat), cs.length = ss.length → (fillFull cs ss).length = ss.length
  | [], [], _ => rfl
  | _ :: cs, _ :: ss, h => by simp [fillFull, fillFull_length cs ss (by simpa using h)]
  | [], _ :: _, h => by simp at h
  | _ :: _, [], h => by simp at h

theorem fillFull'_length (cs : List Spec) (ss : List Nat) (h : cs.length = ss.length) : (fillFull' cs ss).length = ss.length := by
  unfold fillFull'; split
  · exact fillFull_length cs ss h
  · exact h

/-- what `preNormalize` returns when it returns: the filled-in entries, none of them negative -/
theorem preNormalize_ok {top shape limit chunks} (h : preNormalize top shape limit = .ok chunks) :
    ∃ c1, regroup1d shape.length (zeroFill (expandTop top shape.length) shape) = .ok c1 ∧
      (shape.isEmpty = false → c1.length = shape.length) ∧
      (fillFull' c1 shape).any Spec.isNeg = false ∧ chunks = (fillFull' c1 shape).map bytesToAuto := by
  unfold preNormalize at h
  cases h1 : regroup1d shape.length (zeroFill (expandTop top shape.length) shape) with
  | error e => simp [h1] at h
  | ok c1 =>
    simp only [h1] at h
    refine ⟨c1, rfl, ?_⟩
    split at h
    · cases h
    · rename_i hlen
      split at h
      · cases h
      · rename_i hneg
        cases h2 : resolveLimit (fillFull' c1 shape) limit with
        | error e => simp [h2] at h
        | ok l =>
          simp only [h2] at h
          injection h with h
          refine ⟨fun hs => ?_, by simpa using hneg, h.symm⟩
          simp only [hs, Bool.not_false, Bool.true_and, ne_eq, decide_not, Bool.not_eq_eq_eq_not, Bool.not_true,
            decide_eq_false_iff_not, Decidable.not_not] at hlen
          exact hlen

theorem preNormalize_length {top shape limit chunks} (h : preNormalize top shape limit = .ok chunks)
    (hne : shape ≠ []) : chunks.length = shape.length := by
  obtain ⟨c1, _, hlen, _, rfl⟩ := preNormalize_ok h
  have hs : shape.isEmpty = false := by cases shape <;> simp_all
  rw [List.length_map, fillFull'_length _ _ (hlen hs)]

theorem isNeg_bytesToAuto (c : Spec) : (bytesToAuto c).isNeg = c.isNeg := by
  cases c <;> rfl

theorem preNormalize_nonneg {top shape limit chunks} (h : preNormalize top shape limit = .ok chunks) :
    ∀ c ∈ chunks, c.isNeg = false := by
  obtain ⟨c1, _, _, hneg, rfl⟩ := preNormalize_ok h
  intro c hc
  obtain ⟨c0, hc0, rfl⟩ := List.mem_map.1 hc
  rw [isNeg_bytesToAuto]
  exact List.any_eq_false.1 hneg c0 hc0 |> fun h => by simpa using h

theorem finalize_dims {shape chunks r} (h : finalize shape chunks = .ok r)
    (hl : chunks.length = shape.length) (hne : shape ≠ []) (hnn : ∀ c ∈ chunks, c.isNeg = false) :
    AllDims DimOK r shape := by
  unfold finalize at h
  have hce : chunks.isEmpty = false := by
    cases chunks with
    | nil => cases shape <;> simp_all
    | cons => rfl
  simp only [hce, Bool.false_eq_true, if_false] at h
  cases h1 : convertInts shape chunks with
  | error e => simp [h1] at h
  | ok out =>
    simp only [h1] at h
    by_cases hany : out.any List.isEmpty = true
    · simp [hany] at h
    · simp only [hany] at h
      by_cases hs : (!chunks.all Spec.isInt && !sumsMatch out shape) = true
      · simp [hs] at h
      · simp only [hs] at h
        injection h with h
        subst h
        have hneg := convertInts_nonneg h1 hnn
        have hany' : out.any (fun c => c.isEmpty || c.any (· < 0)) = false := by
          rw [List.any_eq_false]
          intro d hd
          have h1' : d.isEmpty = false := by
            cases hde : d.isEmpty with
            | false => rfl
            | true => exact absurd (List.any_eq_true.2 ⟨d, hd, hde⟩) hany
          simp [h1', hneg d hd]
        refine convertInts_dims h1 hl hany' ?_
        cases ha : chunks.all Spec.isInt <;> cases hm : sumsMatch out shape <;> simp_all

/-- explicit tuples are themselves normalised: all positive, or exactly `(0,)` -/
def TupGood (chunks : List Spec) : Prop := ∀ t, Spec.tup t ∈ chunks → (∀ x ∈ t, 0 < x) ∨ t = [0]

theorem convertInts_valid : ∀ {shape : List Nat} {chunks : List Spec} {r : List (List Int)},
    convertInts shape chunks = .ok r → AllDims DimOK r shape → TupGood chunks → AllDims DimValid r shape
  | [], [], r, h, _, _ => by simp [convertInts] at h; subst h; trivial
  | [], _ :: _, r, h, _, _ => by simp [convertInts] at h; subst h; trivial
  | _ :: _, [], r, h, hd, _ => by simp [convertInts] at h; subst h; simp [AllDims] at hd
  | s :: ss, c :: cs, r, h, hd, hg => by
    obtain ⟨d, rest, rfl, hrest, hone⟩ := convertInts_cons_ok h
    obtain ⟨⟨hne, hnn, hsum⟩, hd'⟩ := hd
    refine ⟨?_, convertInts_valid hrest hd' (fun t ht => hg t (List.mem_cons_of_mem _ ht))⟩
    rcases convertOne_ok hone with ⟨bd, _, hb⟩ | hc
    · rcases Int.lt_trichotomy bd 0 with hlt | heq | hgt
      · rcases blockdims1_neg hlt hb with h0 | hnil | ⟨x, hx, hxn⟩
        · subst h0; simp [blockdims1] at hb; subst hb; exact ⟨by simp [isum_cons, isum_nil], Or.inr rfl⟩
        · exact absurd hnil hne
        · have := hnn x hx; omega
      · subst heq
        unfold blockdims1 at hb
        by_cases h0 : s = 0
        · subst h0; simp at hb; subst hb; exact ⟨by simp [isum_cons, isum_nil], Or.inr rfl⟩
        · simp [h0] at hb
      · exact blockdims1_pos hgt hb
    · subst hc
      refine ⟨hsum, ?_⟩
      rcases hg d (List.mem_cons_self ..) with hp | hz
      · exact Or.inl ⟨hne, hp⟩
      · exact Or.inr hz

theorem finalize_valid {shape chunks r} (h : finalize shape chunks = .ok r)
    (hl : chunks.length = shape.length) (hne : shape ≠ []) (hnn : ∀ c ∈ chunks, c.isNeg = false)
    (hg : TupGood chunks) : AllDims DimValid r shape := by
  have hd := finalize_dims h hl hne hnn
  unfold finalize at h
  have hce : chunks.isEmpty = false := by
    cases chunks with
    | nil => cases shape <;> simp_all
    | cons => rfl
  simp only [hce, Bool.false_eq_true, if_false] at h
  cases h1 : convertInts shape chunks with
  | error e => simp [h1] at h
  | ok out =>
    simp only [h1] at h
    split at h
    · cases h
    · split at h
      · cases h
      · injection h with h; subst h
        exact convertInts_valid h1 hd hg

theorem mem_fillFull_tup : ∀ {cs : List Spec} {ss : List Nat} {t}, Spec.tup t ∈ fillFull cs ss → Spec.tup t ∈ cs
  | [], _, _, h => by simp [fillFull] at h
  | _ :: _, [], _, h => by simp [fillFull] at h
  | c :: cs, s :: ss, t, h => by
    simp only [fillFull, List.mem_cons] at h
    rcases h with h | h
    · have : c = Spec.tup t := by
        split at h
        · cases h
        · cases h
        · exact h.symm
      subst this; exact List.mem_cons_self ..
    · exact List.mem_cons_of_mem _ (mem_fillFull_tup h)

theorem TupGood.fillFull' {cs : List Spec} (ss : List Nat) (h : TupGood cs) : TupGood (fillFull' cs ss) := by
  unfold Chunks.fillFull'
  split
  · intro t ht; exact h t (mem_fillFull_tup ht)
  · exact h

theorem TupGood.map_bytesToAuto {cs : List Spec} (h : TupGood cs) : TupGood (cs.map bytesToAuto) := by
  intro t ht
  obtain ⟨c, hc, hct⟩ := List.mem_map.1 ht
  cases c <;> simp [bytesToAuto] at hct
  rename_i t'
  subst hct; exact h _ hc

theorem TupGood.zeroFill {cs : List Spec} (shape : List Nat) (h : TupGood cs) : TupGood (zeroFill cs shape) := by
  unfold Chunks.zeroFill
  split
  · intro t ht
    rw [List.mem_replicate] at ht
    right; injection ht.2
  · exact h

/-- the flat-tuple regrouping of a 1-d spec needs the flat ints to be positive -/
def FlatGood (chunks : List Spec) : Prop := ∀ i, Spec.int i ∈ chunks → 0 < i

theorem TupGood.regroup1d {cs r : List Spec} {nd : Nat} (h : TupGood cs) (hf : FlatGood cs)
    (hr : regroup1d nd cs = .ok r) : TupGood r := by
  unfold Chunks.regroup1d at hr
  split at hr
  · split at hr
    · injection hr with hr; subst hr
      intro t ht
      simp only [List.mem_singleton] at ht
      injection ht with ht; subst ht
      left
      intro x hx
      obtain ⟨c, hc, hcx⟩ := List.mem_filterMap.1 hx
      cases c <;> simp at hcx
      subst hcx; exact hf _ hc
    · cases hr
  · injection hr with hr; subst hr; exact h

theorem preNormalize_tupGood {top shape limit chunks} (h : preNormalize top shape limit = .ok chunks)
    (hg : TupGood (expandTop top shape.length)) (hf : FlatGood (expandTop top shape.length)) : TupGood chunks := by
  obtain ⟨c1, h1, _, _, rfl⟩ := preNormalize_ok h
  have hf' : FlatGood (zeroFill (expandTop top shape.length) shape) := by
    unfold zeroFill; split
    · intro i hi; rw [List.mem_replicate] at hi; cases hi.2
    · exact hf
  have g1 : TupGood c1 := (hg.zeroFill shape).regroup1d hf' h1
  exact (g1.fillFull' shape).map_bytesToAuto

end Dask.Chunks
