import DaskModel.Model.Elemwise
/-! Helper lemmas for `Model/Elemwise.lean`: the walking loop of `common_blockdim`. No Mathlib. -/
namespace Dask.Elemwise

/-- `fine` refines `coarse`: `coarse` arises from `fine` by merging runs of consecutive chunks -/
def refines : List Nat → List Nat → Bool
  | [], [] => true
  | [], _ :: _ => false
  | _ :: _, [] => false
  | m :: out, h :: t => if m = h then refines out t else if m < h then refines out ((h - m) :: t) else false

/-- number of chunks still to be consumed -/
def measure (rs : List (List Nat)) : Nat := (rs.map List.length).sum

theorem minNat_le (l : List Nat) : ∀ x ∈ l, minNat l ≤ x := by
  induction l with
  | nil => simp
  | cons a r ih =>
    intro x hx
    cases r with
    | nil => simp at hx; subst hx; simp [minNat]
    | cons b r' =>
      simp only [minNat]
      rcases List.mem_cons.mp hx with h | h
      · subst h; exact Nat.min_le_left _ _
      · exact Nat.le_trans (Nat.min_le_right _ _) (ih x h)

theorem minNat_mem (l : List Nat) (h : l ≠ []) : minNat l ∈ l := by
  induction l with
  | nil => exact absurd rfl h
  | cons a r ih =>
    cases r with
    | nil => simp [minNat]
    | cons b r' =>
      simp only [minNat]
      have := ih (by simp)
      by_cases hle : a ≤ minNat (b :: r')
      · rw [Nat.min_eq_left hle]; simp
      · rw [Nat.min_eq_right (by omega)]
        exact List.mem_cons_of_mem _ this

/-- all lists non-empty: the heads are read without IndexError -/
theorem heads_some (rs : List (List Nat)) (h : ∀ c ∈ rs, c ≠ []) : heads rs = some (rs.map (fun c => c.headD 0)) := by
  induction rs with
  | nil => rfl
  | cons c r ih =>
    cases c with
    | nil => exact absurd rfl (h [] (by simp))
    | cons x t =>
      simp only [heads, List.map_cons, List.headD_cons]
      rw [ih (fun c hc => h c (by simp [hc]))]
      rfl

theorem consume_length_le (m : Nat) (c : List Nat) : (consume m c).length ≤ c.length := by
  cases c with
  | nil => simp [consume]
  | cons h t =>
    simp only [consume]
    split <;> simp

theorem consume_length_lt (m : Nat) (h : Nat) (t : List Nat) (hm : h ≤ m) : (consume m (h :: t)).length < (h :: t).length := by
  simp only [consume]
  have : h - m = 0 := by omega
  simp [this]

theorem sum_map_le {α : Type} (l : List α) (f g : α → Nat) (h : ∀ x ∈ l, f x ≤ g x) : (l.map f).sum ≤ (l.map g).sum := by
  induction l with
  | nil => simp
  | cons a r ih =>
    simp only [List.map_cons, List.sum_cons]
    have h1 := h a (by simp)
    have h2 := ih (fun x hx => h x (by simp [hx]))
    omega

theorem sum_map_lt {α : Type} (l : List α) (f g : α → Nat) (h : ∀ x ∈ l, f x ≤ g x) (a : α) (ha : a ∈ l) (hlt : f a < g a) :
    (l.map f).sum < (l.map g).sum := by
  induction l with
  | nil => simp at ha
  | cons b r ih =>
    simp only [List.map_cons, List.sum_cons]
    have h1 := h b (by simp)
    have h2 := sum_map_le r f g (fun x hx => h x (by simp [hx]))
    rcases List.mem_cons.mp ha with hab | hab
    · subst hab; omega
    · have := ih (fun x hx => h x (by simp [hx])) hab
      omega

/-- one iteration pops at least one chunk -/
theorem measure_consume_lt (rs : List (List Nat)) (hne : rs ≠ []) (h : ∀ c ∈ rs, c ≠ []) :
    measure (rs.map (consume (minNat (rs.map (fun c => c.headD 0))))) < measure rs := by
  unfold measure
  rw [List.map_map]
  have hmem := minNat_mem (rs.map (fun c => c.headD 0)) (by simpa using hne)
  obtain ⟨c, hc, hcm⟩ := List.mem_map.mp hmem
  have : (rs.map List.length) = rs.map (fun c => c.length) := rfl
  rw [this]
  apply sum_map_lt rs _ _ (fun x _ => consume_length_le _ x) c hc
  cases c with
  | nil => exact absurd rfl (h [] hc)
  | cons x t =>
    simp only [List.headD_cons] at hcm
    exact consume_length_lt _ x t (by omega)

theorem consume_pos (m : Nat) (c : List Nat) (hp : ∀ x ∈ c, 0 < x) : ∀ x ∈ consume m c, 0 < x := by
  cases c with
  | nil => simp [consume]
  | cons h t =>
    simp only [consume]
    split
    · intro x hx; exact hp x (by simp [hx])
    · intro x hx
      rcases List.mem_cons.mp hx with hx | hx
      · subst hx; omega
      · exact hp x (by simp [hx])

theorem consume_sum (m : Nat) (h : Nat) (t : List Nat) (hm : m ≤ h) : (consume m (h :: t)).sum + m = (h :: t).sum := by
  simp only [consume]
  split
  · simp only [List.sum_cons]; omega
  · simp only [List.sum_cons]; omega

theorem refines_cons_consume (m : Nat) (out : List Nat) (h : Nat) (t : List Nat) (hm : m ≤ h)
    (hr : refines out (consume m (h :: t)) = true) : refines (m :: out) (h :: t) = true := by
  simp only [consume] at hr
  simp only [refines]
  by_cases heq : m = h
  · subst heq
    simp only [Nat.sub_self, if_true] at hr
    simp [hr]
  · have hlt : m < h := by omega
    have hne : ¬ (h - m = 0) := by omega
    simp only [hne, if_false] at hr
    simp [heq, hlt, hr]

theorem sum_zero_pos_nil (c : List Nat) (hp : ∀ x ∈ c, 0 < x) (hs : c.sum = 0) : c = [] := by
  cases c with
  | nil => rfl
  | cons a r =>
    have := hp a (by simp)
    simp only [List.sum_cons] at hs
    omega

/-- **the walking loop.** All lists positive with the same remaining total: the loop terminates within any fuel larger
    than the number of remaining chunks and its output refines every list and sums to the remaining total. -/
theorem walk_refines (total : Nat) : ∀ (fuel i : Nat) (rs : List (List Nat)),
    rs ≠ [] → (∀ c ∈ rs, (∀ x ∈ c, 0 < x) ∧ i + c.sum = total) → measure rs < fuel →
    ∃ out, walk total fuel i rs = some out ∧ out.sum + i = total ∧ ∀ c ∈ rs, refines out c = true := by
  intro fuel
  induction fuel with
  | zero => intro i rs _ _ hf; omega
  | succ n ih =>
    intro i rs hne hinv hf
    simp only [walk]
    by_cases hlt : i < total
    · simp only [hlt, if_true]
      have hnn : ∀ c ∈ rs, c ≠ [] := by
        intro c hc hnil
        have := (hinv c hc).2
        subst hnil
        simp at this
        omega
      rw [heads_some rs hnn]
      simp only
      have hmeas0 := measure_consume_lt rs hne hnn
      have hmle0 : ∀ c ∈ rs, minNat (rs.map (fun c => c.headD 0)) ≤ c.headD 0 :=
        fun c hc => minNat_le _ _ (List.mem_map.mpr ⟨c, hc, rfl⟩)
      generalize minNat (rs.map (fun c => c.headD 0)) = m at hmeas0 hmle0 ⊢
      have hmle : ∀ c ∈ rs, m ≤ c.headD 0 := hmle0
      have hinv' : ∀ c ∈ rs.map (consume m), (∀ x ∈ c, 0 < x) ∧ (i + m) + c.sum = total := by
        intro c' hc'
        obtain ⟨c, hc, rfl⟩ := List.mem_map.mp hc'
        refine ⟨consume_pos m c (hinv c hc).1, ?_⟩
        cases c with
        | nil => exact absurd rfl (hnn [] hc)
        | cons h t =>
          have h1 := consume_sum m h t (by simpa using hmle _ hc)
          have h2 := (hinv _ hc).2
          omega
      have hmeas : measure (rs.map (consume m)) < n := by omega
      obtain ⟨out, hw, hsum, href⟩ := ih (i + m) (rs.map (consume m)) (by simpa using hne) hinv' hmeas
      refine ⟨m :: out, ?_, ?_, ?_⟩
      · show Option.map (fun x => m :: x) (walk total n (i + m) (rs.map (consume m))) = some (m :: out)
        rw [hw]; rfl
      · simp only [List.sum_cons]; omega
      · intro c hc
        cases c with
        | nil => exact absurd rfl (hnn [] hc)
        | cons h t =>
          apply refines_cons_consume m out h t (by simpa using hmle _ hc)
          exact href _ (List.mem_map.mpr ⟨_, hc, rfl⟩)
    · simp only [hlt, if_false]
      refine ⟨[], rfl, ?_, ?_⟩
      · obtain ⟨c, hc⟩ := List.exists_mem_of_ne_nil rs hne
        have := (hinv c hc).2
        simp; omega
      · intro c hc
        have h2 := (hinv c hc).2
        have : c = [] := sum_zero_pos_nil c (hinv c hc).1 (by omega)
        subst this
        rfl

/-- a refinement has the same total length -/
theorem refines_sum (out c : List Nat) (h : refines out c = true) : out.sum = c.sum := by
  induction out generalizing c with
  | nil =>
    cases c with
    | nil => rfl
    | cons _ _ => simp [refines] at h
  | cons m o ih =>
    cases c with
    | nil => simp [refines] at h
    | cons x t =>
      simp only [refines] at h
      by_cases heq : m = x
      · subst heq
        simp only [if_true] at h
        simp [ih t h]
      · simp only [heq, if_false] at h
        by_cases hlt : m < x
        · simp only [hlt, if_true] at h
          have := ih _ h
          simp only [List.sum_cons] at this ⊢
          omega
        · simp [hlt] at h

/-! ### `broadcast_shapes`: dask's rule for one column is NumPy's -/

theorem maxInt_mem (l : List Int) (h : l ≠ []) : maxInt l ∈ l := by
  induction l with
  | nil => exact absurd rfl h
  | cons x r ih =>
    simp only [maxInt]
    by_cases hr : r.isEmpty = true
    · simp [hr]
    · have hr' : r ≠ [] := by
        intro e; subst e; simp at hr
      have := ih hr'
      simp only [hr, Bool.false_eq_true, if_false]
      by_cases hlt : maxInt r < x
      · simp [hlt]
      · simp only [hlt, if_false]
        exact List.mem_cons_of_mem _ this

theorem maxInt_ge (l : List Int) (x : Int) (hx : x ∈ l) : x ≤ maxInt l := by
  induction l with
  | nil => simp at hx
  | cons y r ih =>
    simp only [maxInt]
    by_cases hr : r.isEmpty = true
    · have : r = [] := by simpa using hr
      subst this
      simp at hx
      simp [hx]
    · simp only [hr, Bool.false_eq_true, if_false]
      rcases List.mem_cons.mp hx with hx | hx
      · subst hx
        by_cases hlt : maxInt r < x
        · simp [hlt]
        · simp only [hlt, if_false]; omega
      · have := ih hx
        by_cases hlt : maxInt r < y
        · simp only [hlt, if_true]; omega
        · simp only [hlt, if_false]; exact this

theorem all_beq_iff (d : Int) (r : List Int) : (r.all (· == d) = true) ↔ ∀ x ∈ r, x = d := by
  simp [List.all_eq_true]

/-- membership in the list of sizes that are neither missing (`-1`) nor `1` -/
theorem mem_nz (sizes : List Int) (x : Int) :
    x ∈ (sizes.filter (· != -1)).filter (· != 1) ↔ x ∈ sizes ∧ x ≠ -1 ∧ x ≠ 1 := by
  constructor
  · intro h
    have h1 := List.mem_filter.mp h
    have h2 := List.mem_filter.mp h1.1
    exact ⟨h2.1, by simpa using h2.2, by simpa using h1.2⟩
  · intro ⟨h1, h2, h3⟩
    exact List.mem_filter.mpr ⟨List.mem_filter.mpr ⟨h1, by simpa using h2⟩, by simpa using h3⟩

/-- **one column**: with every size ≥ -1 and at least one dimension present, dask's `dim`/check pair accepts exactly
    when NumPy's rule does and yields the same length -/
theorem bdim_eq_npdim (sizes : List Int) (hge : ∀ x ∈ sizes, -1 ≤ x) (hex : ∃ x ∈ sizes, x ≠ -1) :
    bdim sizes = npdim sizes := by
  obtain ⟨x0, hx0, hx0ne⟩ := hex
  have hne : sizes ≠ [] := by intro e; subst e; simp at hx0
  unfold bdim npdim
  by_cases h0 : (0 : Int) ∈ sizes
  · -- a zero-length dimension takes part
    have hc : sizes.contains 0 = true := by simpa using h0
    simp only [hc, if_true]
    have h0nz : (0 : Int) ∈ (sizes.filter (· != -1)).filter (· != 1) := (mem_nz sizes 0).mpr ⟨h0, by omega, by omega⟩
    by_cases hbad : ∃ i ∈ sizes, i ≠ -1 ∧ i ≠ 0 ∧ i ≠ 1
    · obtain ⟨i, hi, h1, h2, h3⟩ := hbad
      have hany : sizes.any (fun i => i != -1 && i != 0 && i != 1 && i != 0) = true := by
        apply List.any_eq_true.mpr
        exact ⟨i, hi, by simp [h1, h2, h3]⟩
      simp only [hany, if_true]
      have hinz : i ∈ (sizes.filter (· != -1)).filter (· != 1) := (mem_nz sizes i).mpr ⟨hi, h1, h3⟩
      cases hnz : (sizes.filter (· != -1)).filter (· != 1) with
      | nil => rw [hnz] at h0nz; simp at h0nz
      | cons d r =>
        rw [hnz] at h0nz hinz
        have : ¬ (r.all (· == d) = true) := by
          intro hall
          have hall' := (all_beq_iff d r).mp hall
          have e0 : (0 : Int) = d := by
            rcases List.mem_cons.mp h0nz with h | h
            · exact h
            · exact hall' 0 h
          have ei : i = d := by
            rcases List.mem_cons.mp hinz with h | h
            · exact h
            · exact hall' i h
          omega
        simp [this]
    · have hany : sizes.any (fun i => i != -1 && i != 0 && i != 1 && i != 0) = false := by
        cases ha : sizes.any (fun i => i != -1 && i != 0 && i != 1 && i != 0) with
        | false => rfl
        | true =>
          obtain ⟨i, hi, hc⟩ := List.any_eq_true.mp ha
          exfalso
          apply hbad
          refine ⟨i, hi, ?_⟩
          simp at hc
          omega
      simp only [hany, Bool.false_eq_true, if_false]
      cases hnz : (sizes.filter (· != -1)).filter (· != 1) with
      | nil => rw [hnz] at h0nz; simp at h0nz
      | cons d r =>
        have hallz : ∀ y ∈ d :: r, y = 0 := by
          intro y hy
          rw [← hnz] at hy
          obtain ⟨hy1, hy2, hy3⟩ := (mem_nz sizes y).mp hy
          by_cases hyz : y = 0
          · exact hyz
          · exact absurd ⟨y, hy1, hy2, hyz, hy3⟩ hbad
        have hd : d = 0 := hallz d (by simp)
        subst hd
        have : r.all (· == (0 : Int)) = true := (all_beq_iff 0 r).mpr (fun y hy => hallz y (by simp [hy]))
        simp [this]
  · -- no zero-length dimension: `dim` is the maximum
    have hc : sizes.contains 0 = false := by simpa using h0
    simp only [hc, Bool.false_eq_true, if_false]
    have hM := maxInt_mem sizes hne
    have hMge := maxInt_ge sizes
    have hpos : ∀ y ∈ sizes, y = -1 ∨ 1 ≤ y := by
      intro y hy
      have := hge y hy
      have : y ≠ 0 := fun e => h0 (e ▸ hy)
      omega
    have hM1 : 1 ≤ maxInt sizes := by
      have := hMge x0 hx0
      rcases hpos x0 hx0 with h | h
      · exact absurd h hx0ne
      · omega
    by_cases hbad : ∃ i ∈ sizes, i ≠ -1 ∧ i ≠ 1 ∧ i ≠ maxInt sizes
    · obtain ⟨i, hi, h1, h3, h4⟩ := hbad
      have hi2 : 2 ≤ i := by rcases hpos i hi with h | h <;> omega
      have hany : sizes.any (fun i => i != -1 && i != 0 && i != 1 && i != maxInt sizes) = true := by
        apply List.any_eq_true.mpr
        refine ⟨i, hi, ?_⟩
        have : i ≠ 0 := by omega
        simp [h1, h3, h4, this]
      simp only [hany, if_true]
      have hinz : i ∈ (sizes.filter (· != -1)).filter (· != 1) := (mem_nz sizes i).mpr ⟨hi, h1, h3⟩
      have hMnz : maxInt sizes ∈ (sizes.filter (· != -1)).filter (· != 1) := by
        have := hMge i hi
        exact (mem_nz sizes _).mpr ⟨hM, by omega, by omega⟩
      cases hnz : (sizes.filter (· != -1)).filter (· != 1) with
      | nil => rw [hnz] at hinz; simp at hinz
      | cons d r =>
        rw [hnz] at hinz hMnz
        have : ¬ (r.all (· == d) = true) := by
          intro hall
          have hall' := (all_beq_iff d r).mp hall
          have e1 : maxInt sizes = d := by
            rcases List.mem_cons.mp hMnz with h | h
            · exact h
            · exact hall' _ h
          have e2 : i = d := by
            rcases List.mem_cons.mp hinz with h | h
            · exact h
            · exact hall' i h
          omega
        simp [this]
    · have hany : sizes.any (fun i => i != -1 && i != 0 && i != 1 && i != maxInt sizes) = false := by
        cases ha : sizes.any (fun i => i != -1 && i != 0 && i != 1 && i != maxInt sizes) with
        | false => rfl
        | true =>
          obtain ⟨i, hi, hc⟩ := List.any_eq_true.mp ha
          exfalso
          apply hbad
          refine ⟨i, hi, ?_⟩
          simp at hc
          omega
      simp only [hany, Bool.false_eq_true, if_false]
      cases hnz : (sizes.filter (· != -1)).filter (· != 1) with
      | nil =>
        -- every present dimension is 1
        have : maxInt sizes = 1 := by
          have hnot : maxInt sizes ∉ (sizes.filter (· != -1)).filter (· != 1) := by rw [hnz]; simp
          by_cases h1 : maxInt sizes = 1
          · exact h1
          · exact absurd ((mem_nz sizes (maxInt sizes)).mpr ⟨hM, by omega, h1⟩) hnot
        simp [this]
      | cons d r =>
        have hallM : ∀ y ∈ d :: r, y = maxInt sizes := by
          intro y hy
          rw [← hnz] at hy
          obtain ⟨hy1, hy2, hy3⟩ := (mem_nz sizes y).mp hy
          by_cases hyM : y = maxInt sizes
          · exact hyM
          · exact absurd ⟨y, hy1, hy2, hy3, hyM⟩ hbad
        have hd : d = maxInt sizes := hallM d (by simp)
        have : r.all (· == d) = true := (all_beq_iff d r).mpr (fun y hy => by rw [hd]; exact hallM y (by simp [hy]))
        show some (maxInt sizes) = if (r.all fun x => x == d) = true then some d else none
        rw [if_pos this, hd]

end Dask.Elemwise
