/-
Lemmas for `Model/OptBW.lean` (the grouping loop of `_optimize_blockwise`): membership characterisations, the invariant
of the inner worklist loop (`InnerInv`: every fused layer is a Blockwise layer, not requested, and owned by the group),
its coverage counterpart (`InnerCov`: the dependencies of every member were dispatched), and the invariant of the outer
stack walk (`OuterInv`).  Used by `Props/C10xOptBW.lean`.
-/
import DaskModel.Model.OptBW
namespace Dask.OptBW
theorem mem_dependents {g : Graph} {d k : Nat} :
    k ∈ dependents g d ↔ ∃ L, g[k]? = some L ∧ d ∈ L.deps := by
  unfold dependents
  simp only [List.mem_filterMap]
  constructor
  · rintro ⟨⟨L, i⟩, hm, h⟩
    have := List.mem_zipIdx_iff_getElem?.mp hm
    simp only at h this
    split at h
    · rename_i hc
      simp only [Option.some.injEq] at h
      subst h
      exact ⟨L, this, by simpa using hc⟩
    · simp at h
  · rintro ⟨L, hL, hd⟩
    refine ⟨(L, k), List.mem_zipIdx_iff_getElem?.mpr hL, ?_⟩
    simp [hd]

theorem mem_addSet {l : List Nat} {x y : Nat} : y ∈ addSet l x ↔ y ∈ l ∨ y = x := by
  unfold addSet
  split
  · rename_i h
    have : x ∈ l := by simpa using h
    constructor
    · exact Or.inl
    · rintro (h | h)
      · exact h
      · subst h; exact this
  · simp

theorem passes_spec {g : Graph} {keep : List Nat} {cfg : Bool} {root : Nat} {R D : Layer} {dep : Nat}
    (h : passes g keep cfg root R dep = some D) :
    g[dep]? = some D ∧ D.bw = true ∧ (dep = root ∨ dep ∉ keep) ∧ D.conc = R.conc ∧ useCount R dep ≤ 1 ∧
      canFuseAnn cfg R D = true := by
  unfold passes at h
  split at h
  · simp at h
  · rename_i D' hD
    split at h; · simp at h
    split at h; · simp at h
    split at h; · simp at h
    split at h; · simp at h
    split at h; · simp at h
    simp only [Option.some.injEq] at h
    subst h
    rename_i h1 h2 h3 h4 h5
    refine ⟨hD, by simpa using h1, ?_, by simpa using h3, by omega, by simpa using h5⟩
    by_cases hr : dep = root
    · exact Or.inl hr
    · right
      simpa [hr] using h2
/-- the guard of `deps.add(d)` -/
def addable (g : Graph) (sup : Bool) (d : Nat) : Prop := sup = true ∧ (dependents g d).length ≤ 1

theorem dispatch_spec (g : Graph) (sup : Bool) (ds : List Nat) (w s : List Nat) :
    (∀ x, x ∈ (dispatch g sup ds (w, s)).1 ↔ x ∈ w ∨ (x ∈ ds ∧ addable g sup x)) ∧
    (∀ x, x ∈ (dispatch g sup ds (w, s)).2 ↔ x ∈ s ∨ (x ∈ ds ∧ ¬ addable g sup x)) := by
  induction ds generalizing w s with
  | nil => simp [dispatch]
  | cons d ds ih =>
    unfold dispatch
    by_cases hc : (sup && decide ((dependents g d).length ≤ 1)) = true
    · have ha : addable g sup d := by simpa [addable] using hc
      rw [if_pos hc]
      obtain ⟨i1, i2⟩ := ih (addSet w d) s
      constructor
      · intro x
        rw [i1 x, mem_addSet]
        constructor
        · rintro ((h | h) | h)
          · exact Or.inl h
          · subst h; exact Or.inr ⟨by simp, ha⟩
          · exact Or.inr ⟨by simp [h.1], h.2⟩
        · rintro (h | ⟨h, h'⟩)
          · exact Or.inl (Or.inl h)
          · rcases List.mem_cons.mp h with h | h
            · exact Or.inl (Or.inr h)
            · exact Or.inr ⟨h, h'⟩
      · intro x
        rw [i2 x]
        constructor
        · rintro (h | h)
          · exact Or.inl h
          · exact Or.inr ⟨by simp [h.1], h.2⟩
        · rintro (h | ⟨h, h'⟩)
          · exact Or.inl h
          · rcases List.mem_cons.mp h with h | h
            · subst h; exact absurd ha h'
            · exact Or.inr ⟨h, h'⟩
    · have ha : ¬ addable g sup d := by simpa [addable] using hc
      rw [if_neg hc]
      obtain ⟨i1, i2⟩ := ih w (d :: s)
      constructor
      · intro x
        rw [i1 x]
        constructor
        · rintro (h | h)
          · exact Or.inl h
          · exact Or.inr ⟨by simp [h.1], h.2⟩
        · rintro (h | ⟨h, h'⟩)
          · exact Or.inl h
          · rcases List.mem_cons.mp h with h | h
            · subst h; exact absurd h' ha
            · exact Or.inr ⟨h, h'⟩
      · intro x
        rw [i2 x]
        constructor
        · rintro (h | h)
          · rcases List.mem_cons.mp h with h | h
            · subst h; exact Or.inr ⟨by simp, ha⟩
            · exact Or.inl h
          · exact Or.inr ⟨by simp [h.1], h.2⟩
        · rintro (h | ⟨h, h'⟩)
          · exact Or.inl (by simp [h])
          · rcases List.mem_cons.mp h with h | h
            · subst h; exact Or.inl (by simp)
            · exact Or.inr ⟨h, h'⟩

theorem eq_of_length_le_one {l : List Nat} (h : l.length ≤ 1) {a b : Nat} (ha : a ∈ l) (hb : b ∈ l) : a = b := by
  match l, h with
  | [], _ => simp at ha
  | [c], _ => simp at ha hb; omega
  | _ :: _ :: _, h => simp at h

/-- every layer that lists `x` among its dependencies is in `mem` -/
def Owned (g : Graph) (mem : List Nat) (x : Nat) : Prop := ∀ q Q, g[q]? = some Q → x ∈ Q.deps → q ∈ mem

theorem Owned.mono {g : Graph} {m m' : List Nat} {x : Nat} (h : Owned g m x) (hs : ∀ y ∈ m, y ∈ m') : Owned g m' x :=
  fun q Q hq hx => hs _ (h q Q hq hx)

/-- a dependency with at most one dependent is owned by whoever lists it -/
theorem owned_of_single {g : Graph} {dep d : Nat} {D : Layer} {mem : List Nat} (hD : g[dep]? = some D) (hd : d ∈ D.deps)
    (h1 : (dependents g d).length ≤ 1) (hm : dep ∈ mem) : Owned g mem d := by
  intro q Q hq hx
  have h2 : q ∈ dependents g d := mem_dependents.mpr ⟨Q, hq, hx⟩
  have h3 : dep ∈ dependents g d := mem_dependents.mpr ⟨D, hD, hd⟩
  rw [eq_of_length_le_one h1 h2 h3]; exact hm

structure InnerInv (g : Graph) (keep : List Nat) (root : Nat) (st : Inner) : Prop where
  root_mem : root ∈ st.mem
  mem_ok : ∀ x ∈ st.mem, x ≠ root → (∃ X, g[x]? = some X ∧ X.bw = true) ∧ x ∉ keep ∧ Owned g st.mem x
  work_ok : ∀ x ∈ st.work, x ≠ root → Owned g st.mem x

theorem innerLoop_inv {g : Graph} {keep : List Nat} {cfg : Bool} {root : Nat} {R : Layer} (fuel : Nat) :
    ∀ (st r : Inner), innerLoop g keep cfg root R fuel st = some r → InnerInv g keep root st →
      InnerInv g keep root r ∧ r.work = [] := by
  induction fuel with
  | zero => intro st r h; simp [innerLoop] at h
  | succ fuel ih =>
    intro st r h inv
    unfold innerLoop at h
    split at h
    · rename_i hw
      simp only [Option.some.injEq] at h; subst h; exact ⟨inv, hw⟩
    · rename_i dep rest hw
      split at h
      · apply ih _ _ h
        exact ⟨inv.root_mem, inv.mem_ok, fun x hx hr => inv.work_ok x (by simp [hw, hx]) hr⟩
      · rename_i D hp
        obtain ⟨hD, hbw, hk, -, -, -⟩ := passes_spec hp
        apply ih _ _ h
        have hsub : ∀ y ∈ st.mem, y ∈ addSet st.mem dep := fun y hy => mem_addSet.mpr (Or.inl hy)
        have hdep : dep ∈ addSet st.mem dep := mem_addSet.mpr (Or.inr rfl)
        refine ⟨hsub _ inv.root_mem, ?_, ?_⟩
        · intro x hx hr
          rcases mem_addSet.mp hx with hx | hx
          · obtain ⟨a, b, c⟩ := inv.mem_ok x hx hr
            exact ⟨a, b, c.mono hsub⟩
          · subst hx
            refine ⟨⟨D, hD, hbw⟩, ?_, (inv.work_ok x (by simp [hw]) hr).mono hsub⟩
            rcases hk with hk | hk
            · exact absurd hk hr
            · exact hk
        · intro x hx hr
          rcases ((dispatch_spec g (ioSuperset D) D.deps rest st.stack).1 x).mp hx with hx | ⟨hx, ha⟩
          · exact (inv.work_ok x (by simp [hw, hx]) hr).mono hsub
          · exact owned_of_single hD hx ha.2 hdep
/-- what `fusion_group_sound` says of one group -/
structure GroupOK (g : Graph) (keep : List Nat) (G : Group) : Prop where
  root_mem : G.root ∈ G.mem
  root_layer : ∃ R, g[G.root]? = some R ∧ (G.fused = true → R.bw = true)
  unfused : G.fused = false → G.mem = [G.root]
  fused_ok : ∀ x ∈ G.mem, x ≠ G.root → (∃ X, g[x]? = some X ∧ X.bw = true) ∧ x ∉ keep ∧ Owned g G.mem x

theorem innerInv_init (g : Graph) (keep : List Nat) (root : Nat) (rest : List Nat) :
    InnerInv g keep root { work := [root], mem := [root], stack := rest } :=
  ⟨by simp, fun x hx hr => absurd (by simpa using hx) hr, fun x hx hr => absurd (by simpa using hx) hr⟩

theorem outerLoop_groups {g : Graph} {keep : List Nat} {cfg : Bool} {fi : Nat} (fuel : Nat) :
    ∀ (st r : St), outerLoop g keep cfg fi fuel st = some r → (∀ G ∈ st.out, GroupOK g keep G) →
      ∀ G ∈ r.out, GroupOK g keep G := by
  induction fuel with
  | zero => intro st r h; simp [outerLoop] at h
  | succ fuel ih =>
    intro st r h inv
    unfold outerLoop at h
    split at h
    · simp only [Option.some.injEq] at h; subst h; exact inv
    · rename_i layer rest hs
      split at h
      · exact ih _ _ h inv
      · split at h
        · exact ih _ _ h inv
        · rename_i R hR
          split at h
          · rename_i hbw
            split at h
            · simp at h
            · rename_i i hi
              obtain ⟨ii, _⟩ := innerLoop_inv fi _ _ hi (innerInv_init g keep layer rest)
              apply ih _ _ h
              intro G hG
              rcases List.mem_cons.mp hG with hG | hG
              · subst hG
                exact ⟨ii.root_mem, ⟨R, hR, fun _ => hbw⟩, fun hf => by simp at hf, ii.mem_ok⟩
              · exact inv G hG
          · apply ih _ _ h
            intro G hG
            rcases List.mem_cons.mp hG with hG | hG
            · subst hG
              exact ⟨by simp, ⟨R, hR, fun hf => by simp at hf⟩, fun _ => rfl,
                fun x hx hr => absurd (by simpa using hx) hr⟩
            · exact inv G hG
/-! ### coverage: every layer ends up in some group -/

/-- the root passes its own test (first iteration of `while deps`) -/
theorem passes_root {g : Graph} {keep : List Nat} {cfg : Bool} {root : Nat} {R : Layer}
    (hR : g[root]? = some R) (hbw : R.bw = true) (hself : useCount R root ≤ 1) :
    passes g keep cfg root R root = some R := by
  unfold passes
  rw [hR]
  have : ¬ (useCount R root > 1) := by omega
  simp [hbw, canFuseAnn, this]

/-- the dependencies of `y` have all been dispatched: each is a member, still on the worklist, or on the stack -/
def Dispatched (g : Graph) (st : Inner) (y : Nat) : Prop :=
  ∃ Y, g[y]? = some Y ∧ ∀ d ∈ Y.deps, d ∈ st.mem ∨ d ∈ st.work ∨ d ∈ st.stack

structure InnerCov (g : Graph) (root : Nat) (stack0 : List Nat) (st : Inner) : Prop where
  mem_cov : ∀ y ∈ st.mem, (y = root ∧ root ∈ st.work) ∨ Dispatched g st y
  stack_mono : ∀ x ∈ stack0, x ∈ st.stack

theorem innerLoop_cov {g : Graph} {keep : List Nat} {cfg : Bool} {root : Nat} {R : Layer} {stack0 : List Nat}
    (hroot : passes g keep cfg root R root = some R) (fuel : Nat) :
    ∀ (st r : Inner), innerLoop g keep cfg root R fuel st = some r → InnerCov g root stack0 st →
      InnerCov g root stack0 r := by
  induction fuel with
  | zero => intro st r h; simp [innerLoop] at h
  | succ fuel ih =>
    intro st r h inv
    unfold innerLoop at h
    split at h
    · simp only [Option.some.injEq] at h; subst h; exact inv
    · rename_i dep rest hw
      split at h
      · rename_i hp
        have hne : root ≠ dep := by
          intro he; subst he; rw [hroot] at hp; simp at hp
        apply ih _ _ h
        refine ⟨?_, fun x hx => by simp [inv.stack_mono x hx]⟩
        intro y hy
        rcases inv.mem_cov y hy with ⟨h1, h2⟩ | ⟨Y, hY, hd⟩
        · left
          refine ⟨h1, ?_⟩
          rw [hw] at h2
          rcases List.mem_cons.mp h2 with h2 | h2
          · exact absurd h2 hne
          · exact h2
        · right
          refine ⟨Y, hY, fun d hdm => ?_⟩
          rcases hd d hdm with h1 | h1 | h1
          · exact Or.inl h1
          · rw [hw] at h1
            rcases List.mem_cons.mp h1 with h1 | h1
            · exact Or.inr (Or.inr (by simp [h1]))
            · exact Or.inr (Or.inl h1)
          · exact Or.inr (Or.inr (by simp [h1]))
      · rename_i D hp
        obtain ⟨hD, -⟩ := passes_spec hp
        obtain ⟨s1, s2⟩ := dispatch_spec g (ioSuperset D) D.deps rest st.stack
        apply ih _ _ h
        refine ⟨?_, fun x hx => (s2 x).mpr (Or.inl (inv.stack_mono x hx))⟩
        intro y hy
        by_cases hyd : y = dep
        · right
          subst hyd
          refine ⟨D, hD, fun d hdm => ?_⟩
          by_cases ha : addable g (ioSuperset D) d
          · exact Or.inr (Or.inl ((s1 d).mpr (Or.inr ⟨hdm, ha⟩)))
          · exact Or.inr (Or.inr ((s2 d).mpr (Or.inr ⟨hdm, ha⟩)))
        · have hy' : y ∈ st.mem := by
            rcases mem_addSet.mp hy with h1 | h1
            · exact h1
            · exact absurd h1 hyd
          rcases inv.mem_cov y hy' with ⟨h1, h2⟩ | ⟨Y, hY, hd⟩
          · left
            refine ⟨h1, ?_⟩
            rw [hw] at h2
            rcases List.mem_cons.mp h2 with h2 | h2
            · exact absurd (h1.trans h2) hyd
            · exact (s1 root).mpr (Or.inl h2)
          · right
            refine ⟨Y, hY, fun d hdm => ?_⟩
            rcases hd d hdm with h1 | h1 | h1
            · exact Or.inl (mem_addSet.mpr (Or.inl h1))
            · rw [hw] at h1
              rcases List.mem_cons.mp h1 with h1 | h1
              · exact Or.inl (mem_addSet.mpr (Or.inr h1))
              · exact Or.inr (Or.inl ((s1 d).mpr (Or.inl h1)))
            · exact Or.inr (Or.inr ((s2 d).mpr (Or.inl h1)))

/-- `x` belongs to some group -/
def Covered (out : List Group) (x : Nat) : Prop := ∃ G ∈ out, x ∈ G.mem

theorem Covered.mono {out : List Group} {G : Group} {x : Nat} (h : Covered out x) : Covered (G :: out) x := by
  obtain ⟨G', h1, h2⟩ := h
  exact ⟨G', by simp [h1], h2⟩

/-- `∀ q, dependencies[q] ⊆ earlier layers ∪ non-layers`: the numbering is topological -/
def Topo (g : Graph) : Prop := ∀ q Q, g[q]? = some Q → ∀ d ∈ Q.deps, d < q ∨ g.length ≤ d

/-- no layer lists itself more than once -/
def SelfOK (g : Graph) : Prop := ∀ q Q, g[q]? = some Q → useCount Q q ≤ 1

structure OuterInv (g : Graph) (keep : List Nat) (st : St) : Prop where
  seen_roots : ∀ x, x ∈ st.seen ↔ ∃ G ∈ st.out, G.root = x
  groups : ∀ G ∈ st.out, GroupOK g keep G
  closed : ∀ G ∈ st.out, ∀ y ∈ G.mem, ∀ Y, g[y]? = some Y → ∀ d ∈ Y.deps, d < g.length →
    Covered st.out d ∨ d ∈ st.stack
  tops : ∀ r, r < g.length → dependents g r = [] → r ∈ st.seen ∨ r ∈ st.stack

theorem covered_of_seen {g : Graph} {keep : List Nat} {st : St} (inv : OuterInv g keep st) {x : Nat} (h : x ∈ st.seen) :
    Covered st.out x := by
  obtain ⟨G, hG, hr⟩ := (inv.seen_roots x).mp h
  exact ⟨G, hG, hr ▸ (inv.groups G hG).root_mem⟩

theorem outerLoop_inv {g : Graph} {keep : List Nat} {cfg : Bool} {fi : Nat} (hself : SelfOK g) (fuel : Nat) :
    ∀ (st r : St), outerLoop g keep cfg fi fuel st = some r → OuterInv g keep st →
      OuterInv g keep r ∧ r.stack = [] := by
  induction fuel with
  | zero => intro st r h; simp [outerLoop] at h
  | succ fuel ih =>
    intro st r h inv
    unfold outerLoop at h
    split at h
    · rename_i hs
      simp only [Option.some.injEq] at h; subst h; exact ⟨inv, hs⟩
    · rename_i layer rest hs
      split at h
      · rename_i hseen
        have hseen : layer ∈ st.seen := by simpa using hseen
        apply ih _ _ h
        refine ⟨inv.seen_roots, inv.groups, ?_, ?_⟩
        · intro G hG y hy Y hY d hd hlt
          rcases inv.closed G hG y hy Y hY d hd hlt with h1 | h1
          · exact Or.inl h1
          · rw [hs] at h1
            rcases List.mem_cons.mp h1 with h1 | h1
            · exact Or.inl (h1 ▸ covered_of_seen inv hseen)
            · exact Or.inr h1
        · intro r hr hd
          rcases inv.tops r hr hd with h1 | h1
          · exact Or.inl h1
          · rw [hs] at h1
            rcases List.mem_cons.mp h1 with h1 | h1
            · exact Or.inl (h1 ▸ hseen)
            · exact Or.inr h1
      · rename_i hseen
        split at h
        · rename_i hnone
          have hge : g.length ≤ layer := by
            rcases Nat.lt_or_ge layer g.length with hlt | hge
            · simp [List.getElem?_eq_getElem hlt] at hnone
            · exact hge
          apply ih _ _ h
          refine ⟨inv.seen_roots, inv.groups, ?_, ?_⟩
          · intro G hG y hy Y hY d hd hlt
            rcases inv.closed G hG y hy Y hY d hd hlt with h1 | h1
            · exact Or.inl h1
            · rw [hs] at h1
              rcases List.mem_cons.mp h1 with h1 | h1
              · omega
              · exact Or.inr h1
          · intro r hr hd
            rcases inv.tops r hr hd with h1 | h1
            · exact Or.inl h1
            · rw [hs] at h1
              rcases List.mem_cons.mp h1 with h1 | h1
              · omega
              · exact Or.inr h1
        · rename_i R hR
          split at h
          · rename_i hbw
            split at h
            · simp at h
            · rename_i i hi
              obtain ⟨ii, hwork⟩ := innerLoop_inv fi _ _ hi (innerInv_init g keep layer rest)
              have hroot := passes_root (keep := keep) (cfg := cfg) hR hbw (hself layer R hR)
              have ic := innerLoop_cov (stack0 := rest) hroot fi _ _ hi
                ⟨fun y hy => Or.inl ⟨by simpa using hy, by simp⟩, fun x hx => hx⟩
              have hG0 : GroupOK g keep ⟨layer, true, i.mem⟩ :=
                ⟨ii.root_mem, ⟨R, hR, fun _ => hbw⟩, fun hf => by simp at hf, ii.mem_ok⟩
              apply ih _ _ h
              refine ⟨?_, ?_, ?_, ?_⟩
              · intro x
                simp only [List.mem_cons, (inv.seen_roots x)]
                constructor
                · rintro (h1 | ⟨G, h1, h2⟩)
                  · exact ⟨_, Or.inl rfl, h1.symm⟩
                  · exact ⟨G, Or.inr h1, h2⟩
                · rintro ⟨G, h1 | h1, h2⟩
                  · subst h1; exact Or.inl h2.symm
                  · exact Or.inr ⟨G, h1, h2⟩
              · intro G hG
                rcases List.mem_cons.mp hG with hG | hG
                · subst hG; exact hG0
                · exact inv.groups G hG
              · intro G hG y hy Y hY d hd hlt
                rcases List.mem_cons.mp hG with hG | hG
                · subst hG
                  rcases ic.mem_cov y hy with ⟨-, h2⟩ | ⟨Y', hY', hd'⟩
                  · rw [hwork] at h2; simp at h2
                  · rw [hY] at hY'
                    simp only [Option.some.injEq] at hY'
                    subst hY'
                    rcases hd' d hd with h1 | h1 | h1
                    · exact Or.inl ⟨⟨layer, true, i.mem⟩, List.mem_cons.mpr (Or.inl rfl), h1⟩
                    · rw [hwork] at h1; simp at h1
                    · exact Or.inr h1
                · rcases inv.closed G hG y hy Y hY d hd hlt with h1 | h1
                  · exact Or.inl h1.mono
                  · rw [hs] at h1
                    rcases List.mem_cons.mp h1 with h1 | h1
                    · exact Or.inl ⟨⟨layer, true, i.mem⟩, List.mem_cons.mpr (Or.inl rfl), h1 ▸ ii.root_mem⟩
                    · exact Or.inr (ic.stack_mono d h1)
              · intro r hr hd
                rcases inv.tops r hr hd with h1 | h1
                · exact Or.inl (by simp [h1])
                · rw [hs] at h1
                  rcases List.mem_cons.mp h1 with h1 | h1
                  · exact Or.inl (by simp [h1])
                  · exact Or.inr (ic.stack_mono r h1)
          · rename_i hbw
            have hG0 : GroupOK g keep ⟨layer, false, [layer]⟩ :=
              ⟨by simp, ⟨R, hR, fun hf => by simp at hf⟩, fun _ => rfl, fun x hx hr => absurd (by simpa using hx) hr⟩
            apply ih _ _ h
            refine ⟨?_, ?_, ?_, ?_⟩
            · intro x
              simp only [List.mem_cons, (inv.seen_roots x)]
              constructor
              · rintro (h1 | ⟨G, h1, h2⟩)
                · exact ⟨_, Or.inl rfl, h1.symm⟩
                · exact ⟨G, Or.inr h1, h2⟩
              · rintro ⟨G, h1 | h1, h2⟩
                · subst h1; exact Or.inl h2.symm
                · exact Or.inr ⟨G, h1, h2⟩
            · intro G hG
              rcases List.mem_cons.mp hG with hG | hG
              · subst hG; exact hG0
              · exact inv.groups G hG
            · intro G hG y hy Y hY d hd hlt
              rcases List.mem_cons.mp hG with hG | hG
              · subst hG
                have : y = layer := by simpa using hy
                subst this
                rw [hR] at hY
                simp only [Option.some.injEq] at hY
                subst hY
                exact Or.inr (by simp [hd])
              · rcases inv.closed G hG y hy Y hY d hd hlt with h1 | h1
                · exact Or.inl h1.mono
                · rw [hs] at h1
                  rcases List.mem_cons.mp h1 with h1 | h1
                  · exact Or.inl ⟨⟨layer, false, [layer]⟩, List.mem_cons.mpr (Or.inl rfl), by simp [h1]⟩
                  · exact Or.inr (by simp [h1])
            · intro r hr hd
              rcases inv.tops r hr hd with h1 | h1
              · exact Or.inl (by simp [h1])
              · rw [hs] at h1
                rcases List.mem_cons.mp h1 with h1 | h1
                · exact Or.inl (by simp [h1])
                · exact Or.inr (by simp [h1])
end Dask.OptBW
