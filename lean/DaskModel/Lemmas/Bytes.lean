import DaskModel.Model.Bytes
/-! Helper lemmas for C18: monotonicity of the two roundings, lengths of the decimal renderings. -/
namespace Dask.Bytes

/-! ### round-half-even quotient -/

theorem rheDiv_ge (a d : Nat) : a / d ≤ rheDiv a d := by
  unfold rheDiv
  simp only
  split <;> omega

theorem rheDiv_le (a d : Nat) : rheDiv a d ≤ a / d + 1 := by
  unfold rheDiv
  simp only
  split <;> omega

/-- rounding to nearest (ties to even) is monotone -/
theorem rheDiv_mono (a b d : Nat) (hd : 0 < d) (h : a ≤ b) : rheDiv a d ≤ rheDiv b d := by
  have hq : a / d ≤ b / d := Nat.div_le_div_right h
  rcases Nat.lt_or_ge (a / d) (b / d) with hlt | hge
  · calc rheDiv a d ≤ a / d + 1 := rheDiv_le a d
      _ ≤ b / d := hlt
      _ ≤ rheDiv b d := rheDiv_ge b d
  · have heq : a / d = b / d := Nat.le_antisymm hq hge
    have hr : a % d ≤ b % d := by
      have ha := Nat.div_add_mod a d
      have hb := Nat.div_add_mod b d
      rw [heq] at ha
      omega
    unfold rheDiv
    simp only
    rw [heq]
    have hbd : b % d < d := Nat.mod_lt b hd
    split <;> split <;> omega

/-! ### 53-bit rounding -/

theorem bitLen_pos_bounds (n : Nat) (hn : n ≠ 0) : 2 ^ (bitLen n - 1) ≤ n ∧ n < 2 ^ bitLen n := by
  unfold bitLen
  simp only [hn, if_false, Nat.add_sub_cancel]
  exact ⟨Nat.log2_self_le hn, Nat.lt_log2_self⟩

theorem bitLen_mono (a b : Nat) (h : a ≤ b) : bitLen a ≤ bitLen b := by
  by_cases ha : a = 0
  · simp [bitLen, ha]
  · have hb : b ≠ 0 := by omega
    have h1 := (bitLen_pos_bounds a ha).1
    have h2 := (bitLen_pos_bounds b hb).2
    have hlt : 2 ^ (bitLen a - 1) < 2 ^ bitLen b := Nat.lt_of_le_of_lt (Nat.le_trans h1 h) h2
    have := (Nat.pow_lt_pow_iff_right (by omega : 1 < 2)).mp hlt
    have hpa : 0 < bitLen a := by simp [bitLen, ha]
    omega

theorem rn53_small (n : Nat) (h : bitLen n ≤ 53) : rn53 n = n := by simp [rn53, h]

theorem rn53_of_lt (n : Nat) (h : n < 2 ^ 53) : rn53 n = n := by
  apply rn53_small
  by_cases hn : n = 0
  · simp [bitLen, hn]
  · have h1 := (bitLen_pos_bounds n hn).1
    have hlt : 2 ^ (bitLen n - 1) < 2 ^ 53 := Nat.lt_of_le_of_lt h1 h
    have := (Nat.pow_lt_pow_iff_right (by omega : 1 < 2)).mp hlt
    omega

/-- for more than 53 bits: `2^(b-1) ≤ rn53 n ≤ 2^b` -/
theorem rn53_big_bounds (n : Nat) (h : 53 < bitLen n) :
    2 ^ (bitLen n - 1) ≤ rn53 n ∧ rn53 n ≤ 2 ^ bitLen n := by
  have hn : n ≠ 0 := by intro e; simp [bitLen, e] at h
  obtain ⟨hlo, hhi⟩ := bitLen_pos_bounds n hn
  have hnot : ¬ bitLen n ≤ 53 := by omega
  simp only [rn53, hnot, if_false]
  generalize hs : bitLen n - 53 = s
  have hb : bitLen n = 53 + s := by omega
  have hpos : 0 < 2 ^ s := Nat.pos_of_ne_zero (by simp)
  rw [hb] at hlo hhi ⊢
  have e1 : 2 ^ (53 + s - 1) = 2 ^ 52 * 2 ^ s := by
    rw [show 53 + s - 1 = 52 + s by omega, Nat.pow_add]
  have e2 : 2 ^ (53 + s) = 2 ^ 53 * 2 ^ s := Nat.pow_add 2 53 s
  constructor
  · rw [e1]
    apply Nat.mul_le_mul_right
    refine Nat.le_trans ?_ (rheDiv_ge n (2 ^ s))
    rw [Nat.le_div_iff_mul_le hpos, ← e1]
    exact hlo
  · rw [e2]
    apply Nat.mul_le_mul_right
    refine Nat.le_trans (rheDiv_le n (2 ^ s)) ?_
    have : n / 2 ^ s < 2 ^ 53 := by
      rw [Nat.div_lt_iff_lt_mul hpos, ← e2]
      exact hhi
    omega

/-- **rounding to 53 bits is monotone** -/
theorem rn53_mono (a b : Nat) (h : a ≤ b) : rn53 a ≤ rn53 b := by
  have hbl := bitLen_mono a b h
  by_cases hb : bitLen b ≤ 53
  · rw [rn53_small a (by omega), rn53_small b hb]; exact h
  · have hb' : 53 < bitLen b := by omega
    have hbb := rn53_big_bounds b hb'
    by_cases ha : bitLen a ≤ 53
    · rw [rn53_small a ha]
      by_cases ha0 : a = 0
      · simp [ha0]
      · have := (bitLen_pos_bounds a ha0).2
        have h2 : 2 ^ bitLen a ≤ 2 ^ (bitLen b - 1) := Nat.pow_le_pow_right (by omega) (by omega)
        omega
    · have ha' : 53 < bitLen a := by omega
      have hab := rn53_big_bounds a ha'
      rcases Nat.lt_or_ge (bitLen a) (bitLen b) with hlt | hge
      · have h2 : 2 ^ bitLen a ≤ 2 ^ (bitLen b - 1) := Nat.pow_le_pow_right (by omega) (by omega)
        omega
      · have heq : bitLen a = bitLen b := by omega
        simp only [rn53, ha, hb, if_false, heq]
        apply Nat.mul_le_mul_right
        exact rheDiv_mono a b _ (Nat.pos_of_ne_zero (by simp)) h

/-! ### decimal renderings -/

theorem natDigitsAux_length (fuel n : Nat) (acc : List Char) (k : Nat) (hk : 1 ≤ k) (hn : n < 10 ^ k) (hf : n < fuel) :
    (natDigitsAux fuel n acc).length ≤ acc.length + k := by
  induction fuel generalizing n acc k with
  | zero => omega
  | succ f ih =>
    simp only [natDigitsAux]
    split
    · simp; omega
    · rename_i h10
      have h10' : 10 ≤ n := by omega
      have hk2 : 2 ≤ k := by
        rcases Nat.lt_or_ge k 2 with h | h
        · have : k = 1 := by omega
          subst this
          omega
        · exact h
      have hdiv : n / 10 < 10 ^ (k - 1) := by
        rw [Nat.div_lt_iff_lt_mul (by omega)]
        have : 10 ^ k = 10 ^ (k - 1) * 10 := by
          rw [← Nat.pow_succ]; congr 1; omega
        omega
      have := ih (n / 10) (Char.ofNat (48 + n % 10) :: acc) (k - 1) (by omega) hdiv (by omega)
      simp only [List.length_cons] at this
      omega

/-- `str(n)` has at most `k` characters when `n < 10^k` -/
theorem natDigits_length (n k : Nat) (hk : 1 ≤ k) (hn : n < 10 ^ k) : (natDigits n).length ≤ k := by
  have := natDigitsAux_length (n + 1) n [] k hk hn (by omega)
  simpa [natDigits] using this

theorem padDigits_length (d n : Nat) : (padDigits d n).length = d := by
  induction d generalizing n with
  | zero => simp [padDigits]
  | succ d ih => simp [padDigits, ih]

/-- `f"{x:.2f}"` has at most `k + 3` characters when the rounded value is below `10^k` -/
theorem fixedDigits_length (c k : Nat) (hk : 1 ≤ k) (hc : c < 10 ^ k * 100) :
    (fixedDigits 2 c).length ≤ k + 3 := by
  unfold fixedDigits
  have h1 : c / 10 ^ 2 < 10 ^ k := by
    rw [Nat.div_lt_iff_lt_mul (by omega)]
    simpa using hc
  have := natDigits_length (c / 10 ^ 2) k hk h1
  simp [padDigits_length]
  omega

end Dask.Bytes
