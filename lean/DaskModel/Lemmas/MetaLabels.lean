import DaskModel.Model.MetaLabels
/-! Per-operation lemmas for `Props/C42xLabels.lean`: every labelled pandas operation of `Model/MetaLabels.lean`
(i) commutes with taking labels, (ii) erases to the corresponding branch of `den`, (iii) keeps the index labels. -/
namespace Dask.RelExpr

/-! ### labels commute, operation by operation -/

theorem projLV_labels (cs : List String) (v w : LVal) (h : projLV cs v = some w) : projLS cs v.labels = some w.labels := by
  cases v <;> simp only [projLV] at h <;> try (cases h; done)
  split at h
  · rename_i hc
    simp only [Option.some.injEq] at h; subst h
    simp [projLS, LVal.labels, hc]
  · cases h

theorem colLV_labels (n : String) (v w : LVal) (h : colLV n v = some w) : colLS n v.labels = some w.labels := by
  cases v <;> simp only [colLV] at h <;> try (cases h; done)
  split at h
  · rename_i hc
    simp only [Option.some.injEq] at h; subst h
    simp [colLS, LVal.labels, hc]
  · cases h

theorem filterLV_labels (a b w : LVal) (h : filterLV a b = some w) : filterLS a.labels b.labels = some w.labels := by
  cases a <;> cases b <;> simp only [filterLV] at h <;> try (cases h; done)
  all_goals
    split at h
    · simp only [Option.some.injEq] at h; subst h
      simp [filterLS, LVal.labels]
    · cases h

theorem assignLV_labels (n : String) (a b w : LVal) (h : assignLV n a b = some w) :
    assignLS n a.labels b.labels = some w.labels := by
  cases a <;> cases b <;> simp only [assignLV] at h <;> try (cases h; done)
  · rename_i cols rows ix vs nm ix'
    split at h
    · cases hci : colIdx cols n with
      | none => simp only [hci, Option.some.injEq] at h; subst h; simp [assignLS, LVal.labels, hci]
      | some j => simp only [hci, Option.some.injEq] at h; subst h; simp [assignLS, LVal.labels, hci]
    · cases h
  · rename_i cols rows ix c
    cases hci : colIdx cols n with
    | none => simp only [hci, Option.some.injEq] at h; subst h; simp [assignLS, LVal.labels, hci]
    | some j => simp only [hci, Option.some.injEq] at h; subst h; simp [assignLS, LVal.labels, hci]

theorem binLV_labels (op : BinOp) (a b w : LVal) (h : binLV op a b = some w) : binLS a.labels b.labels = some w.labels := by
  cases a <;> cases b <;> simp only [binLV] at h <;> try (cases h; done)
  · split at h
    · simp only [Option.some.injEq] at h; subst h
      simp [binLS, LVal.labels]
    · cases h
  all_goals
    simp only [Option.some.injEq] at h; subst h
    simp [binLS, LVal.labels]

theorem notLV_labels (a w : LVal) (h : notLV a = some w) : notLS a.labels = some w.labels := by
  cases a <;> simp only [notLV] at h <;> try (cases h; done)
  all_goals
    simp only [Option.some.injEq] at h; subst h
    simp [notLS, LVal.labels]

theorem bind2_some {α β γ} (f : α → β → Option γ) (x : Option α) (y : Option β) (w : γ) (h : bind2 f x y = some w) :
    ∃ a b, x = some a ∧ y = some b ∧ f a b = some w := by
  cases x <;> cases y <;> simp only [bind2] at h <;> try (cases h; done)
  exact ⟨_, _, rfl, rfl, h⟩

/-! ### the labelled operations keep the index labels of their frame / left operand -/

def LVal.ixOK (ix : IdxL) (v : LVal) : Prop := v.labels.ix? = none ∨ v.labels.ix? = some ix

theorem ixOK_scalar (ix : IdxL) (c : Cell) : (LVal.scalar c).ixOK ix := Or.inl rfl

end Dask.RelExpr
