import DaskModel.Model.Rename
/-! C16, `checkpoint`'s aggregation loop (review round): the fuel of `checkpointReduce` suffices, the explicit
    `checkpointReduce?` agrees with it, `split_every = 1` would diverge, and the shape of the tree. -/
namespace Dask.TaskTerm

/-! ### `checkpointReduce?`: fuel, agreement with `checkpointReduce`, shape of the tree -/

/-- whenever the explicit version returns a layer, the silent version returns the same one -/
theorem checkpointReduce?_eq (name : Obj) (mk : Nat → Obj) (se : Nat) :
    ∀ (fuel : Nat) (mapKeys : List Obj) (layer r : List (Obj × List Obj)),
      checkpointReduce? name mk se fuel mapKeys layer = some r → checkpointReduce name mk se fuel mapKeys layer = r
  | 0, mapKeys, layer, r, h => by
    simp only [checkpointReduce?] at h
    split at h
    · cases h
    · cases h; rfl
  | fuel + 1, mapKeys, layer, r, h => by
    simp only [checkpointReduce?] at h
    simp only [checkpointReduce]
    split at h
    · rename_i hc
      rw [if_pos hc]
      exact checkpointReduce?_eq name mk se fuel _ _ r h
    · rename_i hc
      rw [if_neg hc]
      cases h; rfl

/-- **the fuel suffices**: for `split_every ≥ 2` the pending list shrinks by `split_every - 1 ≥ 1` per round, so
    `len(map_keys)` rounds are enough (the driver gives `len + 1`) -/
theorem checkpointReduce?_isSome (name : Obj) (mk : Nat → Obj) (se : Nat) (hse : 2 ≤ se) :
    ∀ (fuel : Nat) (mapKeys : List Obj) (layer : List (Obj × List Obj)), mapKeys.length ≤ fuel + se →
      (checkpointReduce? name mk se fuel mapKeys layer).isSome
  | 0, mapKeys, layer, h => by
    simp only [checkpointReduce?]
    have : ¬ (se ≠ 0 ∧ mapKeys.length > se) := by omega
    rw [if_neg this]; rfl
  | fuel + 1, mapKeys, layer, h => by
    simp only [checkpointReduce?]
    split
    · rename_i hc
      apply checkpointReduce?_isSome name mk se hse fuel
      simp only [List.length_append, List.length_drop, List.length_cons, List.length_nil]
      omega
    · rfl

/-- `split_every=False`: the loop body never runs -/
theorem checkpointReduce?_flat (name : Obj) (mk : Nat → Obj) (fuel : Nat) (mapKeys : List Obj) (layer : List (Obj × List Obj)) :
    checkpointReduce? name mk 0 fuel mapKeys layer = some (layer ++ [(name, mapKeys)]) := by
  cases fuel <;> simp [checkpointReduce?]

/-- why `checkpoint` must reject `split_every = 1` (`ValueError`): the loop would never end — no fuel suffices -/
theorem checkpointReduce?_se1_diverges (name : Obj) (mk : Nat → Obj) :
    ∀ (fuel : Nat) (mapKeys : List Obj) (layer : List (Obj × List Obj)), 1 < mapKeys.length →
      checkpointReduce? name mk 1 fuel mapKeys layer = none
  | 0, mapKeys, layer, h => by
    simp only [checkpointReduce?]
    rw [if_pos ⟨by decide, h⟩]
  | fuel + 1, mapKeys, layer, h => by
    simp only [checkpointReduce?]
    rw [if_pos ⟨by decide, h⟩]
    apply checkpointReduce?_se1_diverges name mk fuel
    simp only [List.length_append, List.length_drop, List.length_cons, List.length_nil]
    omega

/-- more fuel does not change a result -/
theorem checkpointReduce?_mono (name : Obj) (mk : Nat → Obj) (se : Nat) :
    ∀ (fuel : Nat) (mapKeys : List Obj) (layer r : List (Obj × List Obj)),
      checkpointReduce? name mk se fuel mapKeys layer = some r → checkpointReduce? name mk se (fuel + 1) mapKeys layer = some r
  | 0, mapKeys, layer, r, h => by
    simp only [checkpointReduce?] at h ⊢
    split at h
    · cases h
    · rename_i hc; rw [if_neg hc]; exact h
  | fuel + 1, mapKeys, layer, r, h => by
    rw [checkpointReduce?] at h ⊢
    split at h
    · rename_i hc
      rw [if_pos hc]
      exact checkpointReduce?_mono name mk se fuel _ _ r h
    · rename_i hc; rw [if_neg hc]; exact h

theorem checkpointReduce?_mono_le (name : Obj) (mk : Nat → Obj) (se : Nat) {fuel fuel' : Nat} (hle : fuel ≤ fuel')
    (mapKeys : List Obj) (layer r : List (Obj × List Obj))
    (h : checkpointReduce? name mk se fuel mapKeys layer = some r) : checkpointReduce? name mk se fuel' mapKeys layer = some r := by
  induction hle with
  | refl => exact h
  | step _ ih => exact checkpointReduce?_mono name mk se _ _ _ r ih

/-- **shape of the tree**: the result is the given prefix, then nodes `mk i` (`i` = position) with exactly `split_every`
    inputs, then the final node `name` with at most `split_every` inputs (any number when `split_every` is off) -/
theorem checkpointReduce?_shape (name : Obj) (mk : Nat → Obj) (se : Nat) :
    ∀ (fuel : Nat) (mapKeys : List Obj) (layer r : List (Obj × List Obj)),
      checkpointReduce? name mk se fuel mapKeys layer = some r →
      ∃ mid last, r = layer ++ mid ++ [(name, last)] ∧ (∀ e ∈ mid, e.2.length = se) ∧ (se ≠ 0 → last.length ≤ se) ∧
        (∀ i (h : i < mid.length), (mid[i]).1 = mk (layer.length + i))
  | 0, mapKeys, layer, r, h => by
    simp only [checkpointReduce?] at h
    split at h
    · cases h
    · rename_i hc
      cases h
      exact ⟨[], mapKeys, by simp, by simp, fun h0 => by have := hc; omega, fun i h => by simp at h⟩
  | fuel + 1, mapKeys, layer, r, h => by
    simp only [checkpointReduce?] at h
    split at h
    · rename_i hc
      obtain ⟨mid, last, e, hm, hl, hk⟩ := checkpointReduce?_shape name mk se fuel _ _ r h
      refine ⟨(mk layer.length, mapKeys.take se) :: mid, last, by simp [e], ?_, hl, ?_⟩
      · intro x hx
        rcases List.mem_cons.mp hx with rfl | hx
        · simp only [List.length_take]; omega
        · exact hm x hx
      · intro i hi
        cases i with
        | zero => simp
        | succ j =>
          have := hk j (by simpa using hi)
          simp only [List.length_append, List.length_cons, List.length_nil] at this
          simp only [List.getElem_cons_succ, this]
          congr 1; omega
    · rename_i hc
      cases h
      exact ⟨[], mapKeys, by simp, by simp, fun h0 => by have := hc; omega, fun i h => by simp at h⟩

end Dask.TaskTerm
