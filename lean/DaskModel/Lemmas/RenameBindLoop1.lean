import DaskModel.Lemmas.RenameSets
/-! C16, `_bind_one` (review round), part 2: the layers that are regenerated (`Regen`) / copied verbatim (`Verb`), and
    the invariant of the first worklist loop (`while layers_to_clone:`), for every pop order. -/
namespace Dask.TaskTerm

/-! ### which layers `_bind_one` regenerates / copies -/

/-- reachable from the child's layers along dependencies without *entering* an omitted layer. The child's own layers are
    regenerated whether or not they are omitted (`layers_to_clone = set(child.__dask_layers__())`). -/
inductive Regen (G : LayerMap) (om child : List Obj) : Obj → Prop
  | base {l : Obj} : l ∈ child → Regen G om child l
  | step {l d : Obj} {ds : List Obj} {leaf : Bool} :
      Regen G om child l → G.lookup l = some (ds, leaf) → d ∈ ds → d ∉ om → Regen G om child d

/-- an omitted layer that a regenerated layer depends on -/
def VerbBase (G : LayerMap) (om child : List Obj) (d : Obj) : Prop :=
  ∃ l ds leaf, Regen G om child l ∧ G.lookup l = some (ds, leaf) ∧ d ∈ ds ∧ d ∈ om

/-- … or a transitive dependency of one -/
inductive Verb (G : LayerMap) (om child : List Obj) : Obj → Prop
  | base {d : Obj} : VerbBase G om child d → Verb G om child d
  | step {l d : Obj} {ds : List Obj} {leaf : Bool} :
      Verb G om child l → G.lookup l = some (ds, leaf) → d ∈ ds → Verb G om child d

/-- every dependency names a layer, and so does every layer of the child (what `HighLevelGraph.validate` checks) -/
structure GraphWF (G : LayerMap) (child : List Obj) : Prop where
  depsIn : ∀ l ds leaf, G.lookup l = some (ds, leaf) → ∀ d ∈ ds, (G.lookup d).isSome
  childIn : ∀ l ∈ child, (G.lookup l).isSome

theorem Regen.inG {G : LayerMap} {om child : List Obj} (W : GraphWF G child) {l : Obj} (h : Regen G om child l) :
    (G.lookup l).isSome := by
  induction h with
  | base hc => exact W.childIn _ hc
  | step _ hl hd _ _ => exact W.depsIn _ _ _ hl _ hd

theorem Verb.inG {G : LayerMap} {om child : List Obj} (W : GraphWF G child) {l : Obj} (h : Verb G om child l) :
    (G.lookup l).isSome := by
  induction h with
  | base hb => obtain ⟨l, ds, leaf, _, hl, hd, _⟩ := hb; exact W.depsIn _ _ _ hl _ hd
  | step _ hl hd _ => exact W.depsIn _ _ _ hl _ hd

/-! ### the first loop -/

section Loop1
variable (G : LayerMap) (om : List Obj) (ρ : Obj → Obj) (blk : Option Obj) (child : List Obj)

/-- invariant of `while layers_to_clone:` relative to the initial `new_layers/new_deps` `acc0` -/
structure Inv1 (acc0 : BindAcc) (work verb : List Obj) (acc : BindAcc) : Prop where
  keys : acc.layers.map Prod.fst = acc.deps.map Prod.fst
  ext : ∀ n, (acc0.layers.lookup n).isSome →
    acc.layers.lookup n = acc0.layers.lookup n ∧ acc.deps.lookup n = acc0.deps.lookup n
  orig : ∀ n o, acc.layers.lookup n = some o → acc0.layers.lookup n = some o ∨
    ∃ l ds leaf, o = .cloned l (blk.isSome && leaf) ∧ n = ρ l ∧ Regen G om child l ∧ G.lookup l = some (ds, leaf) ∧
      acc.deps.lookup n = some (newDepOf ρ om blk ds leaf)
  workR : ∀ l ∈ work, Regen G om child l
  verbB : ∀ d ∈ verb, VerbBase G om child d
  childC : ∀ l ∈ child, l ∈ work ∨ (acc.layers.lookup (ρ l)).isSome
  closed : ∀ l bnd ds leaf, acc.layers.lookup (ρ l) = some (.cloned l bnd) → G.lookup l = some (ds, leaf) →
    ∀ d ∈ ds, (d ∉ om → d ∈ work ∨ (acc.layers.lookup (ρ d)).isSome) ∧ (d ∈ om → d ∈ verb)

theorem Inv1.init (acc0 : BindAcc) (h0 : acc0.layers.map Prod.fst = acc0.deps.map Prod.fst)
    (hnc : ∀ n l bnd, acc0.layers.lookup n ≠ some (.cloned l bnd)) : Inv1 G om ρ blk child acc0 child [] acc0 where
  keys := h0
  ext := fun _ _ => ⟨rfl, rfl⟩
  orig := fun _ _ h => Or.inl h
  workR := fun _ h => Regen.base h
  verbB := fun _ h => by simp at h
  childC := fun _ h => Or.inl h
  closed := fun l bnd _ _ h => absurd h (hnc _ l bnd)

theorem isSome_setKey {α : Type} (g : List (Obj × α)) (k : Obj) (v : α) (x : Obj) (h : (g.lookup x).isSome) :
    ((setKey g k v).lookup x).isSome := by
  rw [lookup_setKey]; split <;> simp [h]

theorem Inv1.skip {acc0 : BindAcc} {work verb : List Obj} {acc : BindAcc} (I : Inv1 G om ρ blk child acc0 work verb acc)
    {sel : List Obj → Nat} {prev : Obj} {rest : List Obj} (hp : popAt sel work = some (prev, rest))
    (hin : (acc.layers.lookup (ρ prev)).isSome) : Inv1 G om ρ blk child acc0 rest verb acc := by
  obtain ⟨hpw, hrw, hwr, _⟩ := popAt_some hp
  refine { I with workR := fun l hl => I.workR l (hrw l hl), childC := ?_, closed := ?_ }
  · intro l hl
    rcases I.childC l hl with h | h
    · rcases hwr l h with rfl | h'
      · exact Or.inr hin
      · exact Or.inl h'
    · exact Or.inr h
  · intro l bnd ds leaf h1 h2 d hd
    obtain ⟨ha, hb⟩ := I.closed l bnd ds leaf h1 h2 d hd
    refine ⟨fun hdo => ?_, hb⟩
    rcases ha hdo with h | h
    · rcases hwr d h with rfl | h'
      · exact Or.inr hin
      · exact Or.inl h'
    · exact Or.inr h

theorem Inv1.process {acc0 : BindAcc} {work verb : List Obj} {acc : BindAcc} (I : Inv1 G om ρ blk child acc0 work verb acc)
    {sel : List Obj → Nat} {prev : Obj} {rest : List Obj} (hp : popAt sel work = some (prev, rest))
    (hnin : (acc.layers.lookup (ρ prev)).isSome = false) {ldeps : List Obj} {leaf : Bool}
    (hG : G.lookup prev = some (ldeps, leaf)) :
    Inv1 G om ρ blk child acc0 (unionL rest (ldeps.filter fun d => !om.contains d))
      (unionL verb (ldeps.filter fun d => om.contains d))
      ⟨setKey acc.layers (ρ prev) (.cloned prev (blk.isSome && leaf)),
       setKey acc.deps (ρ prev) (newDepOf ρ om blk ldeps leaf)⟩ := by
  obtain ⟨hpw, hrw, hwr, _⟩ := popAt_some hp
  have hnk : ρ prev ∉ acc.layers.map Prod.fst := by
    intro h; rw [← isSome_lookup_iff] at h; rw [h] at hnin; cases hnin
  have hne0 : ∀ n, (acc0.layers.lookup n).isSome → (n == ρ prev) = false := by
    intro n hn
    rw [Bool.eq_false_iff]; intro hc
    have : n = ρ prev := eq_of_beq hc
    subst this
    rw [(I.ext _ hn).1, hn] at hnin; cases hnin
  have hdone : ∀ x, (acc.layers.lookup x).isSome →
      ((setKey acc.layers (ρ prev) (LayerOrigin.cloned prev (blk.isSome && leaf))).lookup x).isSome :=
    fun x hx => isSome_setKey _ _ _ _ hx
  constructor
  · simp only [keys_setKey]
    rw [← I.keys]
  · intro n hn
    simp only [lookup_setKey, hne0 n hn, Bool.false_eq_true, if_false]
    exact I.ext n hn
  · intro n o ho
    simp only [lookup_setKey] at ho ⊢
    by_cases hn : (n == ρ prev) = true
    · simp only [hn, if_true] at ho ⊢
      right
      cases ho
      exact ⟨prev, ldeps, leaf, rfl, eq_of_beq hn, I.workR _ hpw, hG, rfl⟩
    · have hn' : (n == ρ prev) = false := by simpa using hn
      simp only [hn', Bool.false_eq_true, if_false] at ho ⊢
      exact I.orig n o ho
  · intro l hl
    rcases mem_unionL.mp hl with h | h
    · exact I.workR l (hrw l h)
    · simp only [List.mem_filter, Bool.not_eq_true', List.contains_eq_mem, decide_eq_false_iff_not] at h
      exact Regen.step (I.workR _ hpw) hG h.1 h.2
  · intro d hd
    rcases mem_unionL.mp hd with h | h
    · exact I.verbB d h
    · simp only [List.mem_filter, List.contains_eq_mem, decide_eq_true_eq] at h
      exact ⟨prev, ldeps, leaf, I.workR _ hpw, hG, h.1, h.2⟩
  · intro l hl
    rcases I.childC l hl with h | h
    · rcases hwr l h with rfl | h'
      · right; simp [lookup_setKey]
      · exact Or.inl (mem_unionL.mpr (Or.inl h'))
    · exact Or.inr (hdone _ h)
  · intro l bnd ds lf h1 h2 d hd
    simp only [lookup_setKey] at h1
    by_cases hl : (ρ l == ρ prev) = true
    · simp only [hl, if_true] at h1
      have hlp : l = prev := by cases h1; rfl
      subst hlp
      rw [hG] at h2
      cases h2
      constructor
      · intro hdo
        exact Or.inl (mem_unionL.mpr (Or.inr (by simp [hd, hdo])))
      · intro hdo
        exact mem_unionL.mpr (Or.inr (by simp [hd, hdo]))
    · have hl' : (ρ l == ρ prev) = false := by simpa using hl
      simp only [hl', Bool.false_eq_true, if_false] at h1
      obtain ⟨ha, hb⟩ := I.closed l bnd ds lf h1 h2 d hd
      constructor
      · intro hdo
        rcases ha hdo with h | h
        · rcases hwr d h with rfl | h'
          · right; simp [lookup_setKey]
          · exact Or.inl (mem_unionL.mpr (Or.inl h'))
        · exact Or.inr (hdone _ h)
      · intro hdo
        exact mem_unionL.mpr (Or.inl (hb hdo))

/-- the loop keeps the invariant; on exit the worklist is empty -/
theorem cloneLoop_inv (sel : List Obj → Nat) (acc0 : BindAcc) : ∀ (fuel : Nat) (work verb : List Obj) (acc : BindAcc),
    Inv1 G om ρ blk child acc0 work verb acc → ∀ verb' acc',
    cloneLoop G om ρ blk sel fuel work verb acc = .ok (verb', acc') → Inv1 G om ρ blk child acc0 [] verb' acc'
  | 0, work, verb, acc, I, verb', acc', h => by
    simp only [cloneLoop] at h
    cases hp : popAt sel work with
    | none =>
      simp only [hp] at h
      cases h
      rw [popAt_none.mp hp] at I; exact I
    | some x => simp [hp] at h
  | fuel + 1, work, verb, acc, I, verb', acc', h => by
    simp only [cloneLoop] at h
    cases hp : popAt sel work with
    | none =>
      simp only [hp] at h
      cases h
      rw [popAt_none.mp hp] at I; exact I
    | some x =>
      obtain ⟨prev, rest⟩ := x
      simp only [hp] at h
      by_cases hin : (acc.layers.lookup (ρ prev)).isSome = true
      · simp only [hin, if_true] at h
        exact cloneLoop_inv sel acc0 fuel rest verb acc (I.skip G om ρ blk child hp hin) verb' acc' h
      · have hnin : (acc.layers.lookup (ρ prev)).isSome = false := by
          cases hh : (acc.layers.lookup (ρ prev)).isSome with
          | true => exact absurd hh hin
          | false => rfl
        simp only [hnin, Bool.false_eq_true, if_false] at h
        cases hG : G.lookup prev with
        | none => simp [hG] at h
        | some e =>
          obtain ⟨ldeps, leaf⟩ := e
          simp only [hG] at h
          exact cloneLoop_inv sel acc0 fuel _ _ _ (I.process G om ρ blk child hp hnin hG) verb' acc' h
end Loop1

end Dask.TaskTerm
