import DaskModel.Lemmas.SchedWarm1
/-! `start_state_from_dask` with a caller-supplied cache: the `if key in cache: continue` branch, the task branch, the whole
loop (`initLoopC_spec`: fuel suffices, no "Missing dependency", the invariant holds at the end). -/
namespace Dask.Sched
variable {α : Type}

/-- the state after the `if key in cache: continue` branch -/
def cachedSt (s : InitSt α) (key : Key) (stack : List Key) : InitSt α :=
  { stack := stack, seen := key :: s.seen, readySet := s.readySet, dependencies := touch s.dependencies key, dependents := touch s.dependents key, waiting := s.waiting, waitingData := touch s.waitingData key, cache := s.cache }

theorem initVisit_cached (g : Graph) (P : Params α) (s : InitSt α) (key : Key) (stack : List Key)
    (hc : s.cache.has key = true) :
    initVisit g P key { s with stack := stack } = .ok (cachedSt s key stack) := by
  unfold initVisit
  simp only [hc, if_true]
  rfl

/-- the `if key in cache: continue` branch: the key is a data node of the warm graph whose value is already there -/
theorem IInvC.visit_cached {g : Graph} {results : List Key} {c0 : Map α} {P : Params α} {s : InitSt α}
    (h : IInvC (warmGraph g c0) results c0 P s) {key : Key} {stack : List Key} (hst : s.stack = key :: stack)
    (hns : key ∉ s.seen) (hc : s.cache.has key = true) :
    ∃ s', initVisit g P key { s with stack := stack } = .ok s' ∧ IInvC (warmGraph g c0) results c0 P s' ∧
      measure g s' < measure g s := by
  rw [initVisit_cached g P s key stack hc]
  have hc0 : c0.has key = true := h.c0_of_has_not_seen hns hc
  have hkd0 : isData (warmGraph g c0) key := warm_data_of_has hc0
  generalize hG : warmGraph g c0 = G at h hkd0
  have hkd : isData G key := hkd0
  have hg : G.get? key = some .data := hkd
  have hknt : ¬ isTask G key := fun ht => not_data_of_task ht hkd
  have hnd : nodeDeps G key = [] := nodeDeps_data hg
  have hseen' : ∀ k, k ∈ (cachedSt s key stack).seen ↔ k = key ∨ k ∈ s.seen := by intro k; exact List.mem_cons
  have hCD' : ∀ d, CDc G c0 (cachedSt s key stack) d ↔ CDc G c0 s d := by
    intro d
    unfold CDc CD
    rw [hseen']
    constructor
    · rintro (⟨h1 | h1, h2⟩ | h1)
      · exact Or.inr (h1 ▸ hc0)
      · exact Or.inl ⟨h1, h2⟩
      · exact Or.inr h1
    · rintro (⟨h1, h2⟩ | h1)
      · exact Or.inl ⟨Or.inr h1, h2⟩
      · exact Or.inr h1
  refine ⟨_, rfl, ?_, ?_⟩
  · refine ⟨?_, ?_, ?_, ?_, ?_, ?_, ?_, ?_, ?_, ?_, ?_, ?_, h.readyNodup, ?_, ?_, ?_, ?_, ?_⟩
    · intro k hk; exact h.stackGraph k (by rw [hst]; exact List.mem_cons_of_mem _ hk)
    · intro k hk
      rcases (hseen' k).mp hk with rfl | h1
      · exact ⟨_, hg⟩
      · exact h.seenGraph k h1
    · intro r hr
      rw [hseen']
      show _ ∨ r ∈ stack
      rcases h.resCover r hr with h1 | h1
      · exact Or.inl (Or.inr h1)
      · rw [hst] at h1
        rcases List.mem_cons.mp h1 with h2 | h2
        · exact Or.inl (Or.inl h2)
        · exact Or.inr h2
    · intro k hk d hd
      rw [hseen']
      show _ ∨ d ∈ stack
      rcases (hseen' k).mp hk with rfl | h1
      · rw [hnd] at hd; cases hd
      · rcases h.depCover k h1 d hd with h2 | h2
        · exact Or.inl (Or.inr h2)
        · rw [hst] at h2
          rcases List.mem_cons.mp h2 with h3 | h3
          · exact Or.inl (Or.inl h3)
          · exact Or.inr h3
    · intro k hk
      have hold : k ∈ s.seen ∨ k ∈ s.stack := by
        rw [hseen'] at hk
        rcases hk with (rfl | h1) | h1
        · exact Or.inr (by rw [hst]; simp)
        · exact Or.inl h1
        · exact Or.inr (by rw [hst]; exact List.mem_cons_of_mem _ h1)
      rcases h.needed k hold with h1 | ⟨j, hj, hkj⟩
      · exact Or.inl h1
      · exact Or.inr ⟨j, (hseen' j).mpr (Or.inr hj), hkj⟩
    · intro k
      show (∃ ds, (touch s.dependencies key).get? k = some ds) ↔ _
      rw [hseen', get?_touch]
      constructor
      · rintro ⟨ds, hds⟩
        split at hds
        · rename_i hc; exact Or.inl hc.1.symm
        · exact Or.inr ((h.depsDom k).mp ⟨ds, hds⟩)
      · rintro (rfl | h1)
        · by_cases hc : s.dependencies.get? k = none
          · exact ⟨[], by simp [hc]⟩
          · obtain ⟨ds, hds⟩ := Option.ne_none_iff_exists'.mp hc
            exact ⟨ds, by simp [hds]⟩
        · obtain ⟨ds, hds⟩ := (h.depsDom k).mpr h1
          exact ⟨ds, by
            split
            · rename_i hc; rw [← hc.1] at hds; rw [hc.2] at hds; cases hds
            · exact hds⟩
    · intro k ds hds
      have hds' : (touch s.dependencies key).get? k = some ds := hds
      rw [get?_touch] at hds'
      split at hds'
      · rename_i hc
        simp only [Option.some.injEq] at hds'
        rw [← hds', ← hc.1, hnd]
      · exact h.depsVal k ds hds'
    · intro d j
      show j ∈ ((touch s.dependents key).get? d).getD [] ↔ _
      rw [getD_touch, h.dtsVal d j, hseen']
      constructor
      · rintro ⟨h1, h2⟩; exact ⟨Or.inr h1, h2⟩
      · rintro ⟨rfl | h1, h2⟩
        · rw [hnd] at h2; cases h2
        · exact ⟨h1, h2⟩
    · intro d l hl
      have hl' : (touch s.dependents key).get? d = some l := hl
      rw [get?_touch] at hl'
      split at hl'
      · simp only [Option.some.injEq] at hl'; subst hl'; simp
      · exact h.dtsNodup d l hl'
    · intro k hk
      show ∃ l, (touch s.dependents key).get? k = some l
      rw [get?_touch]
      rcases (hseen' k).mp hk with rfl | h1
      · by_cases hc : s.dependents.get? k = none
        · exact ⟨[], by simp [hc]⟩
        · obtain ⟨l, hl⟩ := Option.ne_none_iff_exists'.mp hc
          exact ⟨l, by simp [hl]⟩
      · obtain ⟨l, hl⟩ := h.dtsDom k h1
        exact ⟨l, by
          split
          · rename_i hc; rw [← hc.1] at hl; rw [hc.2] at hl; cases hl
          · exact hl⟩
    · show touch s.waitingData key = touch s.dependents key
      rw [h.wdEq]
    · -- cacheVal
      intro k v
      show s.cache.get? k = some v ↔ _
      rw [h.cacheVal k v, hseen']
      constructor
      · rintro (h1 | ⟨h0, h1, h2, h3⟩)
        · exact Or.inl h1
        · exact Or.inr ⟨h0, Or.inr h1, h2, h3⟩
      · rintro (h1 | ⟨h0, h1 | h1, h2, h3⟩)
        · exact Or.inl h1
        · rw [h1, hc0] at h0; cases h0
        · exact Or.inr ⟨h0, h1, h2, h3⟩
    · -- readyIff
      intro k
      show k ∈ s.readySet ↔ _
      rw [h.readyIff k, hseen']
      constructor
      · rintro ⟨a, b, c⟩
        exact ⟨Or.inr a, b, fun d hd => (hCD' d).mpr (c d hd)⟩
      · rintro ⟨a | a, b, c⟩
        · exact absurd (a ▸ b) hknt
        · exact ⟨a, b, fun d hd => (hCD' d).mp (c d hd)⟩
    · -- waitIff
      intro k w hw
      obtain ⟨a, b, c, e⟩ := h.waitIff k w hw
      refine ⟨(hseen' k).mpr (Or.inr a), b, c, ?_⟩
      intro d
      rw [e d, hCD']
    · -- waitCover
      intro k hk hkt ⟨d, hd, hcd⟩
      have hks : k ∈ s.seen := by
        rcases (hseen' k).mp hk with rfl | h1
        · exact absurd hkt hknt
        · exact h1
      exact h.waitCover k hks hkt ⟨d, hd, fun hc => hcd ((hCD' d).mpr hc)⟩
    · -- dtsLive
      intro d l hl
      have hl' : (touch s.dependents key).get? d = some l := hl
      rw [get?_touch] at hl'
      rw [hseen']
      split at hl'
      · rename_i hc; exact Or.inl (Or.inl hc.1.symm)
      · rcases h.dtsLive d l hl' with h1 | h1
        · exact Or.inl (Or.inr h1)
        · exact Or.inr h1
    · -- reach
      intro k hk
      apply h.reach k
      rw [hseen'] at hk
      rcases hk with (rfl | h1) | h1
      · exact Or.inr (by rw [hst]; simp)
      · exact Or.inl h1
      · exact Or.inr (by rw [hst]; exact List.mem_cons_of_mem _ h1)
  · unfold measure
    rw [hst]
    show stack.length + remSum g (key :: s.seen) < _
    have := remSum_cons_le g s.seen key
    simp only [List.length_cons]
    omega

/-- the task branch -/
theorem IInvC.visit_task {g : Graph} {results : List Key} {c0 : Map α} {P : Params α} {s : InitSt α}
    (h : IInvC (warmGraph g c0) results c0 P s) (hG : GraphOK (warmGraph g c0) results) {key : Key} {stack deps : List Key}
    (hst : s.stack = key :: stack) (hns : key ∉ s.seen) (hnc : s.cache.has key = false)
    (hg : (warmGraph g c0).get? key = some (.task deps)) :
    ∃ s', initVisit g P key { s with stack := stack } = .ok s' ∧ IInvC (warmGraph g c0) results c0 P s' ∧
      measure g s' < measure g s := by
  have hc0 : c0.has key = false := h.not_c0_of_not_has hnc
  have hgg : g.get? key = some (.task deps) := by rw [← warm_get_of_not_has (g := g) hc0]; exact hg
  rw [initVisit_task g P s key stack deps hgg hnc]
  generalize hGG : warmGraph g c0 = G at h hg hG
  refine ⟨_, rfl, ?_, ?_⟩
  all_goals
    have hkt : isTask G key := ⟨deps, hg⟩
    have hknd : ¬ isData G key := not_data_of_task hkt
    have hnd : nodeDeps G key = deps := nodeDeps_task hg
    have hN : deps.Nodup := hG.depsNodup key deps hg
    obtain ⟨e1, e2, e3, e4, e5, hD, hT, hWD⟩ := taskDepsLoop_spec key deps (taskSt s key stack deps) hN
  · -- the invariant
    have hknone : s.dependencies.get? key = none := by
      cases hc : s.dependencies.get? key with
      | none => rfl
      | some ds => exact absurd ((h.depsDom key).mp ⟨ds, hc⟩) hns
    have hdeps' : ∀ j, (taskDepsLoop key deps (taskSt s key stack deps)).dependencies.get? j =
        if key = j then some deps else s.dependencies.get? j := by
      intro j
      rw [hD j]
      show (if key = j ∧ deps ≠ [] then some (deps.foldl (fun a d => sadd d a) (((touch s.dependencies key).get? key).getD [])) else (touch s.dependencies key).get? j) = _
      rw [getD_touch, hknone]
      simp only [Option.getD_none]
      rw [foldl_sadd_nodup deps [] (by simpa using hN), get?_touch, hknone]
      by_cases hkj : key = j
      · by_cases hde : deps = []
        · simp [hkj, hde]
        · simp [hkj, hde]
      · simp [hkj]
    have hdts' : ∀ d, (taskDepsLoop key deps (taskSt s key stack deps)).dependents.get? d =
        if d ∈ deps then some (sadd key ((s.dependents.get? d).getD [])) else (touch s.dependents key).get? d := by
      intro d
      rw [hT d]
      show (if d ∈ deps then some (sadd key (((touch s.dependents key).get? d).getD [])) else (touch s.dependents key).get? d) = _
      rw [getD_touch]
    have hseen' : ∀ k, k ∈ (taskDepsLoop key deps (taskSt s key stack deps)).seen ↔ k = key ∨ k ∈ s.seen := by
      intro k; rw [e2]; exact List.mem_cons
    have hstack' : ∀ k, k ∈ (taskDepsLoop key deps (taskSt s key stack deps)).stack ↔ k ∈ deps ∨ k ∈ stack := by
      intro k; rw [e1]; simp [taskSt]
    have hCD' : ∀ d, CDc G c0 (taskDepsLoop key deps (taskSt s key stack deps)) d ↔ CDc G c0 s d := by
      intro d
      unfold CDc CD
      rw [hseen']
      constructor
      · rintro (⟨h1 | h1, h2⟩ | h1)
        · exact absurd (h1 ▸ h2) hknd
        · exact Or.inl ⟨h1, h2⟩
        · exact Or.inr h1
      · rintro (⟨h1, h2⟩ | h1)
        · exact Or.inl ⟨Or.inr h1, h2⟩
        · exact Or.inr h1
    have hhas : ∀ d, s.cache.has d = true ↔ CDc G c0 s d := h.has_iff_CDc
    have hwait : ∀ d, d ∈ waitOf s deps ↔ (d ∈ deps ∧ ¬ CDc G c0 s d) := by
      intro d
      unfold waitOf
      rw [List.mem_filter, ← hhas d]
      simp
    have hwnil : waitOf s deps = [] ↔ ∀ d ∈ deps, CDc G c0 s d := by
      constructor
      · intro he d hd
        apply Classical.byContradiction
        intro hc
        have := (hwait d).mpr ⟨hd, hc⟩
        rw [he] at this
        cases this
      · intro hall
        apply List.eq_nil_iff_forall_not_mem.mpr
        intro d hd
        obtain ⟨a, b⟩ := (hwait d).mp hd
        exact b (hall d a)
    have hready' : ∀ k, k ∈ (taskDepsLoop key deps (taskSt s key stack deps)).readySet ↔
        (k ∈ s.readySet ∨ (k = key ∧ waitOf s deps = [])) := by
      intro k
      rw [e3]
      show k ∈ (if waitOf s deps = [] then sadd key s.readySet else s.readySet) ↔ _
      by_cases hw : waitOf s deps = []
      · simp only [hw, if_true, mem_sadd, and_true]; exact Or.comm
      · simp only [hw, if_false, and_false, or_false]
    have hwaiting' : ∀ k, (taskDepsLoop key deps (taskSt s key stack deps)).waiting.get? k =
        if key = k ∧ waitOf s deps ≠ [] then some (waitOf s deps) else s.waiting.get? k := by
      intro k
      rw [e4]
      show (if waitOf s deps = [] then s.waiting else s.waiting.set key (waitOf s deps)).get? k = _
      by_cases hw : waitOf s deps = []
      · simp [hw]
      · simp only [hw, if_false, Map.get?_set, ne_eq, not_false_eq_true, and_true]
    have hkwnone : s.waiting.get? key = none := by
      cases hc : s.waiting.get? key with
      | none => rfl
      | some w => exact absurd (h.waitIff key w hc).1 hns
    refine ⟨?_, ?_, ?_, ?_, ?_, ?_, ?_, ?_, ?_, ?_, ?_, ?_, ?_, ?_, ?_, ?_, ?_, ?_⟩
    · intro k hk
      rcases (hstack' k).mp hk with h1 | h1
      · exact hG.closed key deps k hg h1
      · exact h.stackGraph k (by rw [hst]; exact List.mem_cons_of_mem _ h1)
    · intro k hk
      rcases (hseen' k).mp hk with rfl | h1
      · exact ⟨_, hg⟩
      · exact h.seenGraph k h1
    · intro r hr
      rw [hseen', hstack']
      rcases h.resCover r hr with h1 | h1
      · exact Or.inl (Or.inr h1)
      · rw [hst] at h1
        rcases List.mem_cons.mp h1 with h2 | h2
        · exact Or.inl (Or.inl h2)
        · exact Or.inr (Or.inr h2)
    · intro k hk d hd
      rw [hseen', hstack']
      rcases (hseen' k).mp hk with rfl | h1
      · rw [hnd] at hd; exact Or.inr (Or.inl hd)
      · rcases h.depCover k h1 d hd with h2 | h2
        · exact Or.inl (Or.inr h2)
        · rw [hst] at h2
          rcases List.mem_cons.mp h2 with h3 | h3
          · exact Or.inl (Or.inl h3)
          · exact Or.inr (Or.inr h3)
    · intro k hk
      rw [hseen', hstack'] at hk
      have hlift : (k ∈ s.seen ∨ k ∈ s.stack) → k ∈ results ∨ ∃ j ∈ (taskDepsLoop key deps (taskSt s key stack deps)).seen, k ∈ nodeDeps G j := by
        intro hold
        rcases h.needed k hold with h1 | ⟨j, hj, hkj⟩
        · exact Or.inl h1
        · exact Or.inr ⟨j, (hseen' j).mpr (Or.inr hj), hkj⟩
      rcases hk with (rfl | h1) | (h1 | h1)
      · exact hlift (Or.inr (by rw [hst]; simp))
      · exact hlift (Or.inl h1)
      · exact Or.inr ⟨key, (hseen' key).mpr (Or.inl rfl), by rw [hnd]; exact h1⟩
      · exact hlift (Or.inr (by rw [hst]; exact List.mem_cons_of_mem _ h1))
    · intro k
      rw [hdeps' k, hseen']
      constructor
      · rintro ⟨ds, hds⟩
        split at hds
        · rename_i hc; exact Or.inl hc.symm
        · exact Or.inr ((h.depsDom k).mp ⟨ds, hds⟩)
      · rintro (rfl | h1)
        · exact ⟨deps, by simp⟩
        · obtain ⟨ds, hds⟩ := (h.depsDom k).mpr h1
          by_cases hkk : key = k
          · exact ⟨deps, by simp [hkk]⟩
          · exact ⟨ds, by simp [hkk, hds]⟩
    · intro k ds hds
      rw [hdeps' k] at hds
      split at hds
      · rename_i hc
        simp only [Option.some.injEq] at hds
        rw [← hds, ← hc, hnd]
      · exact h.depsVal k ds hds
    · -- dtsVal
      intro d j
      rw [hdts' d, hseen']
      by_cases hdd : d ∈ deps
      · simp only [hdd, if_true, Option.getD_some, mem_sadd]
        rw [h.dtsVal d j]
        constructor
        · rintro (rfl | ⟨h1, h2⟩)
          · exact ⟨Or.inl rfl, by rw [hnd]; exact hdd⟩
          · exact ⟨Or.inr h1, h2⟩
        · rintro ⟨rfl | h1, h2⟩
          · exact Or.inl rfl
          · exact Or.inr ⟨h1, h2⟩
      · simp only [hdd, if_false]
        rw [getD_touch, h.dtsVal d j]
        constructor
        · rintro ⟨h1, h2⟩; exact ⟨Or.inr h1, h2⟩
        · rintro ⟨rfl | h1, h2⟩
          · rw [hnd] at h2; exact absurd h2 hdd
          · exact ⟨h1, h2⟩
    · intro d l hl
      rw [hdts' d] at hl
      split at hl
      · simp only [Option.some.injEq] at hl
        subst hl
        apply nodup_sadd
        cases hd : s.dependents.get? d with
        | none => simp
        | some l0 => simpa using h.dtsNodup d l0 hd
      · rw [get?_touch] at hl
        split at hl
        · simp only [Option.some.injEq] at hl; subst hl; simp
        · exact h.dtsNodup d l hl
    · intro k hk
      rw [hdts' k]
      by_cases hkd : k ∈ deps
      · exact ⟨sadd key ((s.dependents.get? k).getD []), by simp [hkd]⟩
      · simp only [hkd, if_false, get?_touch]
        rcases (hseen' k).mp hk with rfl | h1
        · by_cases hc : s.dependents.get? k = none
          · exact ⟨[], by simp [hc]⟩
          · obtain ⟨l, hl⟩ := Option.ne_none_iff_exists'.mp hc
            exact ⟨l, by simp [hl]⟩
        · obtain ⟨l, hl⟩ := h.dtsDom k h1
          exact ⟨l, by
            split
            · rename_i hc; rw [← hc.1] at hl; rw [hc.2] at hl; cases hl
            · exact hl⟩
    · apply hWD
      show touch s.waitingData key = touch s.dependents key
      rw [h.wdEq]
    · -- cacheVal
      intro k v
      rw [e5]
      show s.cache.get? k = some v ↔ _
      rw [h.cacheVal k v, hseen']
      constructor
      · rintro (h1 | ⟨h0, h1, h2, h3⟩)
        · exact Or.inl h1
        · exact Or.inr ⟨h0, Or.inr h1, h2, h3⟩
      · rintro (h1 | ⟨h0, h1 | h1, h2, h3⟩)
        · exact Or.inl h1
        · exact absurd (h1 ▸ h2) hknd
        · exact Or.inr ⟨h0, h1, h2, h3⟩
    · rw [e3]
      show (if waitOf s deps = [] then sadd key s.readySet else s.readySet).Nodup
      split
      · exact nodup_sadd h.readyNodup
      · exact h.readyNodup
    · -- readyIff
      intro k
      rw [hready' k, hseen']
      constructor
      · rintro (h1 | ⟨rfl, hw⟩)
        · obtain ⟨a, b, c⟩ := (h.readyIff k).mp h1
          exact ⟨Or.inr a, b, fun d hd => (hCD' d).mpr (c d hd)⟩
        · refine ⟨Or.inl rfl, hkt, ?_⟩
          intro d hd
          rw [hnd] at hd
          exact (hCD' d).mpr ((hwnil.mp hw) d hd)
      · rintro ⟨hks, hkt', hall⟩
        rcases hks with rfl | h1
        · right
          refine ⟨rfl, hwnil.mpr ?_⟩
          intro d hd
          exact (hCD' d).mp (hall d (by rw [hnd]; exact hd))
        · left
          exact (h.readyIff k).mpr ⟨h1, hkt', fun d hd => (hCD' d).mp (hall d hd)⟩
    · -- waitIff
      intro k w hw
      rw [hwaiting' k] at hw
      rw [hseen']
      split at hw
      · rename_i hc
        simp only [Option.some.injEq] at hw
        subst hw
        obtain ⟨rfl, hne⟩ := hc
        refine ⟨Or.inl rfl, hkt, hne, ?_⟩
        intro d
        rw [hwait d, hnd, hCD']
      · obtain ⟨a, b, c, e⟩ := h.waitIff k w hw
        refine ⟨Or.inr a, b, c, ?_⟩
        intro d
        rw [e d, hCD']
    · -- waitCover
      intro k hk hkt' ⟨d, hd, hcd⟩
      have hcd0 : ¬ CDc G c0 s d := fun hc => hcd ((hCD' d).mpr hc)
      rw [hwaiting' k]
      rcases (hseen' k).mp hk with rfl | h1
      · have hne : waitOf s deps ≠ [] := by
          intro he
          exact hcd0 ((hwnil.mp he) d (by rw [← hnd]; exact hd))
        exact ⟨waitOf s deps, by simp [hne]⟩
      · obtain ⟨w0, hw0⟩ := h.waitCover k h1 hkt' ⟨d, hd, hcd0⟩
        have hkk : key ≠ k := by
          rintro rfl
          rw [hkwnone] at hw0
          cases hw0
        exact ⟨w0, by simp [hkk, hw0]⟩
    · -- dtsLive
      intro d l hl
      rw [hdts' d] at hl
      rw [hseen']
      split at hl
      · simp only [Option.some.injEq] at hl
        subst hl
        exact Or.inr (sadd_ne_nil _ _)
      · rw [get?_touch] at hl
        split at hl
        · rename_i hc; exact Or.inl (Or.inl hc.1.symm)
        · rcases h.dtsLive d l hl with h1 | h1
          · exact Or.inl (Or.inr h1)
          · exact Or.inr h1
    · -- reach
      intro k hk
      rw [hseen', hstack'] at hk
      have hkey : Reach G results key := h.reach key (Or.inr (by rw [hst]; simp))
      rcases hk with (rfl | h1) | (h1 | h1)
      · exact hkey
      · exact h.reach k (Or.inl h1)
      · exact Reach.step hkey (by rw [hnd]; exact h1)
      · exact h.reach k (Or.inr (by rw [hst]; exact List.mem_cons_of_mem _ h1))
  · -- the measure
    unfold measure
    rw [e1, e2, hst]
    have := remSum_visit_task g s.seen key deps hns hgg
    simp only [taskSt, List.length_append, List.length_reverse, List.length_cons]
    omega

/-! ### the whole loop -/

theorem IInvC.drop_seen {G : Graph} {results : List Key} {c0 : Map α} {P : Params α} {s : InitSt α}
    (h : IInvC G results c0 P s) {key : Key} {stack : List Key} (hst : s.stack = key :: stack) (hks : key ∈ s.seen) :
    IInvC G results c0 P { s with stack := stack } := by
  refine ⟨?_, h.seenGraph, ?_, ?_, ?_, h.depsDom, h.depsVal, h.dtsVal, h.dtsNodup, h.dtsDom, h.wdEq, h.cacheVal,
    h.readyNodup, h.readyIff, h.waitIff, h.waitCover, h.dtsLive, ?_⟩
  · intro k hk; exact h.stackGraph k (by rw [hst]; exact List.mem_cons_of_mem _ hk)
  · intro r hr
    rcases h.resCover r hr with h1 | h1
    · exact Or.inl h1
    · rw [hst] at h1
      rcases List.mem_cons.mp h1 with rfl | h2
      · exact Or.inl hks
      · exact Or.inr h2
  · intro k hk d hd
    rcases h.depCover k hk d hd with h1 | h1
    · exact Or.inl h1
    · rw [hst] at h1
      rcases List.mem_cons.mp h1 with rfl | h2
      · exact Or.inl hks
      · exact Or.inr h2
  · intro k hk
    apply h.needed k
    rcases hk with h1 | h1
    · exact Or.inl h1
    · exact Or.inr (by rw [hst]; exact List.mem_cons_of_mem _ h1)
  · intro k hk
    apply h.reach k
    rcases hk with h1 | h1
    · exact Or.inl h1
    · exact Or.inr (by rw [hst]; exact List.mem_cons_of_mem _ h1)

theorem initLoopC_spec {g : Graph} {results : List Key} {c0 : Map α} {P : Params α}
    (hG : GraphOK (warmGraph g c0) results) :
    ∀ (fuel : Nat) (s : InitSt α), IInvC (warmGraph g c0) results c0 P s → measure g s < fuel →
    ∃ s', initLoop g P fuel s = .ok s' ∧ IInvC (warmGraph g c0) results c0 P s' ∧ s'.stack = [] := by
  intro fuel
  induction fuel with
  | zero => intro s _ hm; omega
  | succ fuel ih =>
    intro s h hm
    unfold initLoop
    cases hst : s.stack with
    | nil => exact ⟨s, rfl, h, hst⟩
    | cons key stack =>
      simp only []
      by_cases hks : key ∈ s.seen
      · simp only [hks, if_true]
        apply ih _ (h.drop_seen hst hks)
        unfold measure at hm ⊢
        rw [hst] at hm
        simp only [List.length_cons] at hm
        show stack.length + remSum g s.seen < fuel
        omega
      · simp only [hks, if_false]
        cases hc : s.cache.has key with
        | true =>
          obtain ⟨s', hv, hI, hlt⟩ := h.visit_cached hst hks hc
          rw [hv]
          exact ih s' hI (by omega)
        | false =>
          obtain ⟨nd, hnd⟩ := h.stackGraph key (by rw [hst]; simp)
          cases nd with
          | data =>
            obtain ⟨s', hv, hI, hlt⟩ := h.visit_data hst hks hc hnd
            rw [hv]
            exact ih s' hI (by omega)
          | task deps =>
            obtain ⟨s', hv, hI, hlt⟩ := h.visit_task hG hst hks hc hnd
            rw [hv]
            exact ih s' hI (by omega)

theorem IInvC.init {G : Graph} {results : List Key} {c0 : Map α} {P : Params α} (hG : GraphOK G results) :
    IInvC G results c0 P ({ stack := results, cache := c0 } : InitSt α) := by
  refine ⟨hG.resultsIn, ?_, fun r hr => Or.inr hr, ?_, ?_, ?_, ?_, ?_, ?_, ?_, rfl, ?_, by simp, ?_, ?_, ?_, ?_, ?_⟩
  · intro k hk; cases hk
  · intro k hk; cases hk
  · intro k hk
    rcases hk with h1 | h1
    · cases h1
    · exact Or.inl h1
  · intro k
    constructor
    · rintro ⟨ds, hds⟩; simp at hds
    · intro hk; cases hk
  · intro k ds hds; simp at hds
  · intro d j
    constructor
    · intro hj; simp at hj
    · rintro ⟨hj, _⟩; cases hj
  · intro d l hl; simp at hl
  · intro k hk; cases hk
  · intro k v
    constructor
    · intro hv; exact Or.inl hv
    · rintro (hv | ⟨_, hk, _⟩)
      · exact hv
      · cases hk
  · intro k
    constructor
    · intro hk; cases hk
    · rintro ⟨hk, _⟩; cases hk
  · intro k w hw; simp at hw
  · intro k hk; cases hk
  · intro d l hl; simp at hl
  · intro k hk
    rcases hk with h1 | h1
    · cases h1
    · exact Reach.base h1

end Dask.Sched
