import DaskModel.Lemmas.RenameBindLoop2
/-! C16, `_bind_one` (review round), part 4: what the resulting `new_layers` / `new_deps` are, from the two loop
    invariants: well-formedness, exactly the `Regen` layers regenerated, exactly the `Verb` layers copied, the new
    dependency sets, name disjointness, totality with the fuel `bindFuel`. -/
namespace Dask.TaskTerm

/-! ### `_bind_one`: what the result is -/

theorem mem_newDepOf {ρ : Obj → Obj} {om : List Obj} {blk : Option Obj} {ds : List Obj} {leaf : Bool} {x : Obj} :
    x ∈ newDepOf ρ om blk ds leaf ↔
      (∃ d ∈ ds, d ∉ om ∧ x = ρ d) ∨ (x ∈ ds ∧ x ∈ om) ∨ (leaf = true ∧ blk = some x) := by
  unfold newDepOf
  simp only [List.mem_append, List.mem_map, List.mem_filter, Bool.not_eq_true', List.contains_eq_mem,
    decide_eq_false_iff_not, decide_eq_true_eq]
  constructor
  · rintro ((⟨d, ⟨hd, hdo⟩, rfl⟩ | h) | h)
    · exact Or.inl ⟨d, hd, hdo, rfl⟩
    · exact Or.inr (Or.inl h)
    · right; right
      cases blk with
      | none => simp at h
      | some b =>
        cases leaf with
        | false => simp at h
        | true => simp at h; subst h; exact ⟨rfl, rfl⟩
  · rintro (⟨d, hd, hdo, rfl⟩ | h | ⟨hl, hb⟩)
    · exact Or.inl (Or.inl ⟨d, ⟨hd, hdo⟩, rfl⟩)
    · exact Or.inl (Or.inr h)
    · right; subst hl; subst hb; simp

/-- what the theorems about `bindOne` assume: a valid child graph, `clone_key` injective and fresh on its layer
    names, and an initial state (the blocker's graph) that is itself a valid HighLevelGraph containing the blocker -/
structure BindHyp (G : LayerMap) (child : List Obj) (ρ : Obj → Obj) (blk : Option Obj) (acc0 : BindAcc) : Prop where
  wf : GraphWF G child
  inj : ∀ a b, (G.lookup a).isSome → (G.lookup b).isSome → ρ a = ρ b → a = b
  freshG : ∀ a, (G.lookup a).isSome → G.lookup (ρ a) = none
  fresh0 : ∀ a, (G.lookup a).isSome → acc0.layers.lookup (ρ a) = none
  keys0 : acc0.layers.map Prod.fst = acc0.deps.map Prod.fst
  only0 : ∀ n o, acc0.layers.lookup n = some o → o = .blocker
  closed0 : ∀ n ds, acc0.deps.lookup n = some ds → ∀ d ∈ ds, (acc0.layers.lookup d).isSome
  blkIn : ∀ b, blk = some b → (acc0.layers.lookup b).isSome

section Result
variable {G : LayerMap} {om child : List Obj} {ρ : Obj → Obj} {blk : Option Obj} {acc0 : BindAcc}

theorem isSome_deps_of_layers {acc : BindAcc} (hk : acc.layers.map Prod.fst = acc.deps.map Prod.fst) (n : Obj) :
    (acc.deps.lookup n).isSome ↔ (acc.layers.lookup n).isSome := by
  rw [isSome_lookup_iff, isSome_lookup_iff, hk]

/-- a layer whose regenerated name is present was regenerated itself (injectivity + freshness) -/
theorem done_is_cloned (H : BindHyp G child ρ blk acc0) {verb : List Obj} {acc1 : BindAcc}
    (I1 : Inv1 G om ρ blk child acc0 [] verb acc1) {l : Obj} (hl : (G.lookup l).isSome)
    (hd : (acc1.layers.lookup (ρ l)).isSome) : ∃ bnd, acc1.layers.lookup (ρ l) = some (.cloned l bnd) := by
  cases ho : acc1.layers.lookup (ρ l) with
  | none => rw [ho] at hd; cases hd
  | some o =>
    rcases I1.orig _ o ho with h | ⟨l', ds, leaf, rfl, e, hr, _, _⟩
    · rw [H.fresh0 l hl] at h; cases h
    · have : l = l' := H.inj l l' hl (hr.inG H.wf) e
      subst this
      exact ⟨_, rfl⟩

theorem regen_processed (H : BindHyp G child ρ blk acc0) {verb : List Obj} {acc1 : BindAcc}
    (I1 : Inv1 G om ρ blk child acc0 [] verb acc1) {l : Obj} (hr : Regen G om child l) :
    ∃ bnd, acc1.layers.lookup (ρ l) = some (.cloned l bnd) := by
  induction hr with
  | base hc =>
    rcases I1.childC _ hc with h | h
    · simp at h
    · exact done_is_cloned H I1 (H.wf.childIn _ hc) h
  | step hr hl hd hdo ih =>
    obtain ⟨bnd, hb⟩ := ih
    rcases (I1.closed _ bnd _ _ hb hl _ hd).1 hdo with h | h
    · simp at h
    · exact done_is_cloned H I1 ((Regen.step hr hl hd hdo).inG H.wf) h

theorem verbBase_in_verb (H : BindHyp G child ρ blk acc0) {verb : List Obj} {acc1 : BindAcc}
    (I1 : Inv1 G om ρ blk child acc0 [] verb acc1) {d : Obj} (hb : VerbBase G om child d) : d ∈ verb := by
  obtain ⟨l, ds, leaf, hr, hl, hd, hdo⟩ := hb
  obtain ⟨bnd, hc⟩ := regen_processed H I1 hr
  exact (I1.closed _ bnd _ _ hc hl _ hd).2 hdo

/-- the two invariants at the exit of `bindOne` -/
theorem bindOne_invs {B : List (Obj × List Obj)} (H : BindHyp G child ρ blk (bindInit blk B))
    {sel1 sel2 : List Obj → Nat} {fuel : Nat} {acc : BindAcc}
    (h : bindOne G child om ρ blk B sel1 sel2 fuel = .ok acc) :
    ∃ verb acc1, Inv1 G om ρ blk child (bindInit blk B) [] verb acc1 ∧ Inv2 G om child acc1 [] acc := by
  unfold bindOne at h
  cases h1 : cloneLoop G om ρ blk sel1 fuel child [] (bindInit blk B) with
  | keyError k => rw [h1] at h; cases h
  | fuel => rw [h1] at h; cases h
  | ok r =>
    obtain ⟨verb, acc1⟩ := r
    rw [h1] at h
    simp only [] at h
    have I1 := cloneLoop_inv G om ρ blk child sel1 (bindInit blk B) fuel child [] (bindInit blk B)
      (Inv1.init G om ρ blk child (bindInit blk B) H.keys0 (fun n l bnd hc => by cases H.only0 n _ hc)) verb acc1 h1
    have I2 := verbLoop_inv G om child sel2 acc1 fuel verb acc1
      (Inv2.init G om child acc1 verb I1.keys I1.verbB (fun d hd => verbBase_in_verb H I1 hd)) acc h
    exact ⟨verb, acc1, I1, I2⟩

variable (H : BindHyp G child ρ blk acc0) {verb : List Obj} {acc1 acc : BindAcc}
  (I1 : Inv1 G om ρ blk child acc0 [] verb acc1) (I2 : Inv2 G om child acc1 [] acc)
include H I1 I2

omit H in
/-- the blocker's layers and dependencies are kept as they are -/
theorem res_init (n : Obj) (hn : (acc0.layers.lookup n).isSome) :
    acc.layers.lookup n = acc0.layers.lookup n ∧ acc.deps.lookup n = acc0.deps.lookup n := by
  obtain ⟨a, b⟩ := I1.ext n hn
  obtain ⟨c, d⟩ := I2.ext n (by rw [a]; exact hn)
  exact ⟨c.trans a, d.trans b⟩

/-- (b) a layer is regenerated iff `Regen`; the flag is the `is_bound` of its `Layer.clone` -/
theorem res_regen_iff (n l : Obj) (bnd : Bool) :
    acc.layers.lookup n = some (.cloned l bnd) ↔
      n = ρ l ∧ Regen G om child l ∧ ∃ ds leaf, G.lookup l = some (ds, leaf) ∧ bnd = (blk.isSome && leaf) := by
  constructor
  · intro h
    rcases I2.orig n _ h with h1 | ⟨hc, _⟩
    · rcases I1.orig n _ h1 with h0 | ⟨l', ds, leaf, e, rfl, hr, hG, _⟩
      · cases H.only0 n _ h0
      · cases e
        exact ⟨rfl, hr, ds, leaf, hG, rfl⟩
    · cases hc
  · rintro ⟨rfl, hr, ds, leaf, hG, rfl⟩
    obtain ⟨bnd', hb⟩ := regen_processed H I1 hr
    rw [(I2.ext _ (by rw [hb]; rfl)).1, hb]
    rcases I1.orig _ _ hb with h0 | ⟨l', ds', leaf', e, _, _, hG', _⟩
    · cases H.only0 _ _ h0
    · cases e
      rw [hG] at hG'
      cases hG'
      rfl

/-- (c) the new dependencies of a regenerated layer -/
theorem res_regen_deps {l : Obj} {ds : List Obj} {leaf : Bool} (hr : Regen G om child l) (hG : G.lookup l = some (ds, leaf)) :
    acc.deps.lookup (ρ l) = some (newDepOf ρ om blk ds leaf) := by
  obtain ⟨bnd', hb⟩ := regen_processed H I1 hr
  rw [(I2.ext _ (by rw [hb]; rfl)).2]
  rcases I1.orig _ _ hb with h0 | ⟨l', ds', leaf', e, _, _, hG', hd⟩
  · cases H.only0 _ _ h0
  · cases e
    rw [hG] at hG'
    cases hG'
    exact hd

/-- (b) a layer copied verbatim is a `Verb` layer that the blocker's graph does not already contain; its dependencies
    are the original ones -/
theorem res_verbatim {n : Obj} (h : acc.layers.lookup n = some .verbatim) :
    Verb G om child n ∧ acc0.layers.lookup n = none ∧ ∃ ds leaf, G.lookup n = some (ds, leaf) ∧ acc.deps.lookup n = some ds := by
  rcases I2.orig n _ h with h1 | ⟨_, hv, h1n, hd⟩
  · rcases I1.orig n _ h1 with h0 | ⟨l', ds, leaf, e, _⟩
    · cases H.only0 n _ h0
    · cases e
  · refine ⟨hv, ?_, hd⟩
    cases h0 : acc0.layers.lookup n with
    | none => rfl
    | some o =>
      have := (I1.ext n (by rw [h0]; rfl)).1
      rw [h1n, h0] at this; cases this

/-- every `Verb` layer is present in the result (needs: where the blocker's graph and the child's graph share a layer,
    they agree on its dependencies) -/
theorem res_verb_present
    (cons0 : ∀ n ds0 ds leaf, acc0.deps.lookup n = some ds0 → G.lookup n = some (ds, leaf) → ∀ d ∈ ds, d ∈ ds0)
    {n : Obj} (hv : Verb G om child n) : (acc.layers.lookup n).isSome := by
  induction hv with
  | base hb =>
    rcases I2.base _ hb with h | h
    · simp at h
    · exact h
  | step hv hG hd ih =>
    rename_i l d ds leaf
    cases ho : acc.layers.lookup l with
    | none => rw [ho] at ih; cases ih
    | some o =>
      rcases I2.orig l o ho with h1 | ⟨_, _, h1n, _⟩
      · rcases I1.orig l o h1 with h0 | ⟨l', ds', leaf', _, e, hr, _, _⟩
        · have hs : (acc0.layers.lookup l).isSome := by rw [h0]; rfl
          have hs' := (isSome_deps_of_layers H.keys0 l).mpr hs
          cases hd0 : acc0.deps.lookup l with
          | none => rw [hd0] at hs'; cases hs'
          | some ds0 =>
            have hdin := H.closed0 l ds0 hd0 d (cons0 l ds0 ds leaf hd0 hG d hd)
            rw [(res_init I1 I2 d hdin).1]; exact hdin
        · have := H.freshG l' (hr.inG H.wf)
          rw [← e] at this
          have hl := hv.inG H.wf
          rw [this] at hl; cases hl
      · rcases I2.closed l ds leaf (by rw [ho]; rfl) h1n hG d hd with h | h
        · simp at h
        · exact h

theorem res_verbatim_iff
    (cons0 : ∀ n ds0 ds leaf, acc0.deps.lookup n = some ds0 → G.lookup n = some (ds, leaf) → ∀ d ∈ ds, d ∈ ds0) (n : Obj) :
    acc.layers.lookup n = some .verbatim ↔ Verb G om child n ∧ acc0.layers.lookup n = none := by
  constructor
  · intro h
    obtain ⟨a, b, _⟩ := res_verbatim H I1 I2 h
    exact ⟨a, b⟩
  · rintro ⟨hv, h0⟩
    have hp := res_verb_present H I1 I2 cons0 hv
    cases ho : acc.layers.lookup n with
    | none => rw [ho] at hp; cases hp
    | some o =>
      rcases I2.orig n o ho with h1 | ⟨e, _⟩
      · rcases I1.orig n o h1 with h0' | ⟨l', ds', leaf', _, e, hr, _, _⟩
        · rw [h0] at h0'; cases h0'
        · have := H.freshG l' (hr.inG H.wf)
          rw [← e] at this
          have hl := hv.inG H.wf
          rw [this] at hl; cases hl
      · rw [e]

/-- (a) the result is a well-formed HighLevelGraph: `new_layers` and `new_deps` have the same keys and every name in a
    dependency set is a layer -/
theorem res_wf : acc.layers.map Prod.fst = acc.deps.map Prod.fst ∧
    ∀ n nd, acc.deps.lookup n = some nd → ∀ x ∈ nd, (acc.layers.lookup x).isSome := by
  refine ⟨I2.keys, ?_⟩
  intro n nd hnd x hx
  have hs : (acc.layers.lookup n).isSome := (isSome_deps_of_layers I2.keys n).mp (by rw [hnd]; rfl)
  cases ho : acc.layers.lookup n with
  | none => rw [ho] at hs; cases hs
  | some o =>
    rcases I2.orig n o ho with h1 | ⟨_, _, h1n, ds, leaf, hG, hd⟩
    · have hd1 : acc1.deps.lookup n = some nd := by rw [← (I2.ext n (by rw [h1]; rfl)).2]; exact hnd
      rcases I1.orig n o h1 with h0 | ⟨l, ds, leaf, _, rfl, hr, hG, hd⟩
      · have hs0 : (acc0.layers.lookup n).isSome := by rw [h0]; rfl
        have hd0 : acc0.deps.lookup n = some nd := by rw [← (I1.ext n hs0).2]; exact hd1
        have hx0 := H.closed0 n nd hd0 x hx
        rw [(res_init I1 I2 x hx0).1]; exact hx0
      · rw [hd] at hd1
        cases hd1
        rcases mem_newDepOf.mp hx with ⟨d, hdd, hdo, rfl⟩ | ⟨hxd, hxo⟩ | ⟨_, hb⟩
        · obtain ⟨bnd, hb⟩ := regen_processed H I1 (Regen.step hr hG hdd hdo)
          rw [(I2.ext _ (by rw [hb]; rfl)).1, hb]; rfl
        · rcases I2.base x ⟨l, ds, leaf, hr, hG, hxd, hxo⟩ with h | h
          · simp at h
          · exact h
        · have hx0 := H.blkIn x hb
          rw [(res_init I1 I2 x hx0).1]; exact hx0
    · rw [hd] at hnd
      cases hnd
      rcases I2.closed n _ leaf (by rw [ho]; rfl) h1n hG x hx with h | h
      · simp at h
      · exact h

/-- (d) a layer of the result that carries an original name is one of the blocker's layers or an omitted (`Verb`) one:
    nothing that was regenerated keeps its name -/
theorem res_original_names {n : Obj} (hn : (acc.layers.lookup n).isSome) (hG : (G.lookup n).isSome) :
    (acc0.layers.lookup n).isSome ∨ Verb G om child n := by
  cases ho : acc.layers.lookup n with
  | none => rw [ho] at hn; cases hn
  | some o =>
    rcases I2.orig n o ho with h1 | ⟨_, hv, _⟩
    · rcases I1.orig n o h1 with h0 | ⟨l', ds', leaf', _, e, hr, _, _⟩
      · left; rw [h0]; rfl
      · have := H.freshG l' (hr.inG H.wf)
        rw [← e] at this
        rw [this] at hG; cases hG
    · exact Or.inr hv

end Result

/-- the generous fuel suffices and no `KeyError` is raised on a valid graph -/
theorem bindOne_ok {G : LayerMap} {child : List Obj} {ρ : Obj → Obj} {blk : Option Obj} {B : List (Obj × List Obj)}
    (om : List Obj) (H : BindHyp G child ρ blk (bindInit blk B)) (sel1 sel2 : List Obj → Nat) {fuel : Nat}
    (hf : bindFuel G child ≤ fuel) : ∃ acc, bindOne G child om ρ blk B sel1 sel2 fuel = .ok acc := by
  have htot := depMass_le G
  unfold bindFuel at hf
  obtain ⟨verb, acc1, h1, hlen⟩ := cloneLoop_ok G om ρ blk sel1 H.wf.depsIn fuel child [] (bindInit blk B) H.wf.childIn
    (by have := htot (fun l => ((bindInit blk B).layers.lookup (ρ l)).isNone); simp only [List.length_nil]; omega)
  have I1 := cloneLoop_inv G om ρ blk child sel1 (bindInit blk B) fuel child [] (bindInit blk B)
    (Inv1.init G om ρ blk child (bindInit blk B) H.keys0 (fun n l bnd hc => by cases H.only0 n _ hc)) verb acc1 h1
  obtain ⟨acc, h2⟩ := verbLoop_ok G sel2 H.wf.depsIn fuel verb acc1
    (fun l hl => by
      obtain ⟨l', ds, leaf, _, hG, hd, _⟩ := I1.verbB l hl
      exact H.wf.depsIn _ _ _ hG _ hd)
    (by
      have a := htot (fun l => ((bindInit blk B).layers.lookup (ρ l)).isNone)
      have b := htot (fun l => (acc1.layers.lookup l).isNone)
      simp only [List.length_nil] at hlen
      omega)
  exact ⟨acc, by simp only [bindOne, h1, h2]⟩

/-- the hypotheses on the initial state, from hypotheses on the blocker's graph `B` -/
theorem bindHyp_of {G : LayerMap} {child : List Obj} {ρ : Obj → Obj} {blk : Option Obj} {B : List (Obj × List Obj)}
    (wf : GraphWF G child)
    (inj : ∀ a b, (G.lookup a).isSome → (G.lookup b).isSome → ρ a = ρ b → a = b)
    (freshG : ∀ a, (G.lookup a).isSome → G.lookup (ρ a) = none)
    (freshB : ∀ a, (G.lookup a).isSome → B.lookup (ρ a) = none)
    (closedB : ∀ n ds, B.lookup n = some ds → ∀ d ∈ ds, (B.lookup d).isSome)
    (blkIn : ∀ b, blk = some b → (B.lookup b).isSome) : BindHyp G child ρ blk (bindInit blk B) := by
  cases blk with
  | none =>
    exact ⟨wf, inj, freshG, fun _ _ => rfl, rfl, fun n o h => by simp [bindInit] at h,
      fun n ds h => by simp [bindInit] at h, fun b h => by cases h⟩
  | some b =>
    refine ⟨wf, inj, freshG, ?_, ?_, ?_, ?_, ?_⟩
    · intro a ha
      simp only [bindInit, lookup_map_const, freshB a ha, Option.map_none]
    · simp [bindInit, List.map_map, Function.comp_def]
    · intro n o h
      simp only [bindInit, lookup_map_const] at h
      cases hb : B.lookup n with
      | none => simp [hb] at h
      | some ds => simp [hb] at h; exact h.symm
    · intro n ds h d hd
      simp only [bindInit] at h ⊢
      have := closedB n ds h d hd
      simp only [lookup_map_const]
      cases hb : B.lookup d with
      | none => rw [hb] at this; cases this
      | some _ => rfl
    · intro b' hb'
      have := blkIn b' hb'
      simp only [bindInit, lookup_map_const]
      cases hb : B.lookup b' with
      | none => rw [hb] at this; cases this
      | some _ => rfl

/-! ### keys stay unique (the lists are dicts) -/

theorem nodup_setKey {α : Type} (g : List (Obj × α)) (k : Obj) (v : α) (h : (g.map Prod.fst).Nodup) :
    ((setKey g k v).map Prod.fst).Nodup := by
  rw [keys_setKey]
  split
  · exact h
  · rename_i hk
    rw [List.nodup_append]
    refine ⟨h, by simp, ?_⟩
    intro a ha b hb
    simp only [List.mem_singleton] at hb
    subst hb
    intro e; subst e; exact hk ha

theorem cloneLoop_nodup (G : LayerMap) (om : List Obj) (ρ : Obj → Obj) (blk : Option Obj) (sel : List Obj → Nat) :
    ∀ (fuel : Nat) (work verb : List Obj) (acc : BindAcc), (acc.layers.map Prod.fst).Nodup → ∀ verb' acc',
    cloneLoop G om ρ blk sel fuel work verb acc = .ok (verb', acc') → (acc'.layers.map Prod.fst).Nodup
  | 0, work, verb, acc, hn, verb', acc', h => by
    simp only [cloneLoop] at h
    cases hp : popAt sel work with
    | none => simp only [hp] at h; cases h; exact hn
    | some x => simp [hp] at h
  | fuel + 1, work, verb, acc, hn, verb', acc', h => by
    simp only [cloneLoop] at h
    cases hp : popAt sel work with
    | none => simp only [hp] at h; cases h; exact hn
    | some x =>
      obtain ⟨prev, rest⟩ := x
      simp only [hp] at h
      split at h
      · exact cloneLoop_nodup G om ρ blk sel fuel _ _ _ hn verb' acc' h
      · cases hG : G.lookup prev with
        | none => simp [hG] at h
        | some e =>
          obtain ⟨ldeps, leaf⟩ := e
          simp only [hG] at h
          exact cloneLoop_nodup G om ρ blk sel fuel _ _ _ (nodup_setKey _ _ _ hn) verb' acc' h

theorem verbLoop_nodup (G : LayerMap) (sel : List Obj → Nat) :
    ∀ (fuel : Nat) (work : List Obj) (acc : BindAcc), (acc.layers.map Prod.fst).Nodup → ∀ acc',
    verbLoop G sel fuel work acc = .ok acc' → (acc'.layers.map Prod.fst).Nodup
  | 0, work, acc, hn, acc', h => by
    simp only [verbLoop] at h
    cases hp : popAt sel work with
    | none => simp only [hp] at h; cases h; exact hn
    | some x => simp [hp] at h
  | fuel + 1, work, acc, hn, acc', h => by
    simp only [verbLoop] at h
    cases hp : popAt sel work with
    | none => simp only [hp] at h; cases h; exact hn
    | some x =>
      obtain ⟨name, rest⟩ := x
      simp only [hp] at h
      split at h
      · exact verbLoop_nodup G sel fuel _ _ hn acc' h
      · cases hG : G.lookup name with
        | none => simp [hG] at h
        | some e =>
          obtain ⟨ldeps, leaf⟩ := e
          simp only [hG] at h
          exact verbLoop_nodup G sel fuel _ _ (nodup_setKey _ _ _ hn) acc' h

theorem bindOne_nodup {G : LayerMap} {om child : List Obj} {ρ : Obj → Obj} {blk : Option Obj} {B : List (Obj × List Obj)}
    (hB : (B.map Prod.fst).Nodup) {sel1 sel2 : List Obj → Nat} {fuel : Nat} {acc : BindAcc}
    (h : bindOne G child om ρ blk B sel1 sel2 fuel = .ok acc) : (acc.layers.map Prod.fst).Nodup := by
  simp only [bindOne] at h
  cases h1 : cloneLoop G om ρ blk sel1 fuel child [] (bindInit blk B) with
  | keyError k => rw [h1] at h; cases h
  | fuel => rw [h1] at h; cases h
  | ok r =>
    obtain ⟨verb, acc1⟩ := r
    rw [h1] at h
    have h0 : ((bindInit blk B).layers.map Prod.fst).Nodup := by
      cases blk with
      | none => simp [bindInit]
      | some b => simpa [bindInit, List.map_map, Function.comp_def] using hB
    exact verbLoop_nodup G sel2 fuel verb acc1 (cloneLoop_nodup G om ρ blk sel1 fuel child [] _ h0 verb acc1 h1) acc h

/-! ### the result does not depend on the order in which the sets are popped -/

theorem res_layers_determined {G : LayerMap} {om child : List Obj} {ρ : Obj → Obj} {blk : Option Obj} {acc0 : BindAcc}
    (H : BindHyp G child ρ blk acc0)
    (cons0 : ∀ n ds0 ds leaf, acc0.deps.lookup n = some ds0 → G.lookup n = some (ds, leaf) → ∀ d ∈ ds, d ∈ ds0)
    {verb verb' : List Obj} {acc1 acc acc1' acc' : BindAcc}
    (I1 : Inv1 G om ρ blk child acc0 [] verb acc1) (I2 : Inv2 G om child acc1 [] acc)
    (I1' : Inv1 G om ρ blk child acc0 [] verb' acc1') (I2' : Inv2 G om child acc1' [] acc') (n : Obj) (o : LayerOrigin)
    (h : acc.layers.lookup n = some o) : acc'.layers.lookup n = some o := by
  cases o with
  | blocker =>
    rcases I2.orig n _ h with h1 | ⟨e, _⟩
    · rcases I1.orig n _ h1 with h0 | ⟨l', ds', leaf', e, _⟩
      · rw [(res_init I1' I2' n (by rw [h0]; rfl)).1, h0]
      · cases e
    · cases e
  | cloned l bnd => exact (res_regen_iff H I1' I2' n l bnd).mpr ((res_regen_iff H I1 I2 n l bnd).mp h)
  | verbatim => exact (res_verbatim_iff H I1' I2' cons0 n).mpr ((res_verbatim_iff H I1 I2 cons0 n).mp h)

end Dask.TaskTerm
