import DaskModel.Model.Coarsen2D
import DaskModel.Lemmas.CoarsenLemmas
import DaskModel.Lemmas.HistogramLemmas
/-! Helper lemmas for C27: coarsening a 2-d array block by block (both axes chunked). -/
namespace Dask.Counting
open Dask.Chunks

theorem windows_map {α γ} (g : α → γ) (d : Nat) : ∀ (k : Nat) (xs : List α),
    windows d k (xs.map g) = (windows d k xs).map (fun w => w.map g)
  | 0, _ => rfl
  | k + 1, xs => by
    simp only [windows, List.map_cons, ← List.map_take, ← List.map_drop, windows_map g d k]

/-- coarsening the image of a list is coarsening the list with the reduction composed -/
theorem coarsenBlock_map {α γ β} (f : List γ → β) (g : α → γ) (d : Nat) (xs : List α) :
    coarsenBlock f d (xs.map g) = (windows d (xs.length / d) xs).map (fun w => f (w.map g)) := by
  unfold coarsenBlock
  rw [List.length_map, windows_map, List.map_map]; rfl

/-- a segment that ends inside the first `c` elements does not see the cut at `c` -/
theorem take_drop_take {α} (r : List α) (c a n : Nat) (h : a + n ≤ c) : ((r.take c).drop a).take n = (r.drop a).take n := by
  rw [List.drop_take, List.take_take, Nat.min_eq_left (by omega)]

/-- column windows: a leading group of `q` whole windows can be split off -/
theorem colCoarsen_split {α β} (red : List (List α) → β) (d1 : Nat) (hd : 0 < d1) (q w' : Nat) (rows : List (List α)) :
    colCoarsen red d1 (q * d1 + w') rows
      = colCoarsen red d1 (q * d1) (rows.map (fun r => r.take (q * d1))) ++ colCoarsen red d1 w' (rows.map (fun r => r.drop (q * d1))) := by
  unfold colCoarsen
  have e1 : (q * d1 + w') / d1 = q + w' / d1 := by
    rw [Nat.add_comm, Nat.add_mul_div_right _ _ hd, Nat.add_comm]
  have e2 : q * d1 / d1 = q := Nat.mul_div_cancel _ hd
  rw [e1, e2, List.range_add, List.map_append, List.map_map]
  congr 1
  · apply List.map_congr_left
    intro t ht
    have ht : t < q := by simpa using ht
    rw [List.map_map]
    congr 1
    apply List.map_congr_left
    intro r _
    simp only [Function.comp]
    rw [take_drop_take]
    have : (t + 1) * d1 ≤ q * d1 := Nat.mul_le_mul_right _ ht
    rw [Nat.succ_mul] at this; omega
  · apply List.map_congr_left
    intro t _
    simp only [Function.comp]
    rw [List.map_map]
    congr 1
    apply List.map_congr_left
    intro r _
    simp only [Function.comp, List.drop_drop]
    congr 2
    rw [Nat.add_mul]

/-- with width `c` only the first `c` elements of the rows matter -/
theorem colCoarsen_take {α β} (red : List (List α) → β) (d1 : Nat) (c : Nat) (rows : List (List α)) :
    colCoarsen red d1 c (rows.map (fun r => r.take c)) = colCoarsen red d1 c rows := by
  unfold colCoarsen
  apply List.map_congr_left
  intro t ht
  have ht : t < c / d1 := by simpa using ht
  rw [List.map_map]
  congr 1
  apply List.map_congr_left
  intro r _
  simp only [Function.comp]
  rw [take_drop_take]
  have h1 : (t + 1) * d1 ≤ (c / d1) * d1 := Nat.mul_le_mul_right _ ht
  have h2 : (c / d1) * d1 ≤ c := Nat.div_mul_le_self c d1
  rw [Nat.succ_mul] at h1; omega

theorem coarsen2_map {α β} (red : List (List α) → β) (d0 d1 w : Nat) (g : List α → List α) (R : List (List α)) :
    coarsen2 red d0 d1 w (R.map g) = (windows d0 (R.length / d0) R).map (fun W => colCoarsen red d1 w (W.map g)) := by
  unfold coarsen2
  exact coarsenBlock_map (colCoarsen red d1 w) g d0 R

theorem chunkSpans_cons (off c : Nat) (cs : List Nat) : chunkSpans off (c :: cs) = (off, c) :: chunkSpans (off + c) cs := rfl

/-- the blocks of one block row, coarsened and put side by side, are the coarsened block row -/
theorem hcat_spans {α β} (red : List (List α) → β) (d0 d1 : Nat) (hd : 0 < d1) (R : List (List α)) : ∀ (a1 : List Nat) (off : Nat),
    a1 ≠ [] → AlignedLens d1 a1 →
    hcat ((chunkSpans off a1).map (fun sc => coarsen2 red d0 d1 sc.2 (colSlice sc.1 sc.2 R)))
      = coarsen2 red d0 d1 (sum a1) (R.map (fun r => r.drop off))
  | [], _, h, _ => absurd rfl h
  | [c], off, _, _ => by
    simp only [chunkSpans, List.map_cons, List.map_nil, hcat, sum_cons]
    have e0 : sum ([] : List Nat) = 0 := rfl
    rw [e0, Nat.add_zero]
    unfold colSlice
    have : (fun r : List α => (r.drop off).take c) = (fun r => r.take c) ∘ (fun r => r.drop off) := rfl
    rw [this, ← List.map_map, coarsen2_map red d0 d1 c (fun r => r.take c), coarsen2_map red d0 d1 c (fun r => r.drop off) R,
      List.length_map, windows_map, List.map_map]
    apply List.map_congr_left
    intro W _
    simp only [Function.comp]
    rw [colCoarsen_take red d1]
  | c :: c' :: cs, off, _, ha => by
    obtain ⟨q, hq⟩ := ha.1
    have ih := hcat_spans red d0 d1 hd R (c' :: cs) (off + c) (by simp) ha.2
    rw [chunkSpans_cons, List.map_cons]
    have hne : (chunkSpans (off + c) (c' :: cs)).map (fun sc => coarsen2 red d0 d1 sc.2 (colSlice sc.1 sc.2 R)) ≠ [] := by
      simp [chunkSpans]
    have hh : ∀ (b : List (List β)) (bs : List (List (List β))), bs ≠ [] → hcat (b :: bs) = List.zipWith (· ++ ·) b (hcat bs) := by
      intro b bs h
      cases bs with
      | nil => exact absurd rfl h
      | cons x xs => rfl
    have es : sum (c :: c' :: cs) = c + sum (c' :: cs) := rfl
    rw [hh _ _ hne, ih, es]
    unfold colSlice
    have e1 : (fun r : List α => (r.drop off).take c) = (fun r => r.take c) ∘ (fun r => r.drop off) := rfl
    rw [e1, ← List.map_map, coarsen2_map red d0 d1 c (fun r => r.take c), coarsen2_map red d0 d1 (sum (c' :: cs)) (fun r => r.drop (off + c)) R,
      coarsen2_map red d0 d1 (c + sum (c' :: cs)) (fun r => r.drop off) R, List.length_map, windows_map, List.map_map,
      zipWith_map_same]
    apply List.map_congr_left
    intro W _
    simp only [Function.comp]
    have hc : c = q * d1 := by rw [hq, Nat.mul_comm]
    rw [hc, colCoarsen_split red d1 hd q (sum (c' :: cs)) (W.map (fun r => r.drop off)), List.map_map, List.map_map]
    congr 2
    apply List.map_congr_left
    intro r _
    simp only [Function.comp, List.drop_drop]

theorem map_drop_zero {α} (R : List (List α)) : R.map (fun r => r.drop 0) = R := by
  induction R with
  | nil => rfl
  | cons r R ih => simp

end Dask.Counting
