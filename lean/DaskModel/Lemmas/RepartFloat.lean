import DaskModel.Lemmas.Round53
import DaskModel.Lemmas.Repart
/-! C44: the two float expressions of `_repartition.py` (`int(i * (old / new))`, `np.linspace(0, len, k+1).astype(int)`)
    in the exact fixed-point model of IEEE doubles: monotone, start at 0, end within range — the hypotheses `BoundsOK`
    / `PosOK` of `tofewer_rows` / `tomore_rows` discharged. Uses the `round53` lemmas of `Lemmas/Round53.lean`. -/
namespace Dask.Repart
open Dask.TextBlocks

theorem round53_zero (q : Nat) : round53 0 q = 0 := by
  rw [round53_eq]
  have : shOf (0 / q) = 0 := by simp [shOf]
  rw [this]
  simp [rhe]

theorem round53_bounds (p q : Nat) (hq : 0 < q) (h : 2 * S ≤ p / q) :
    S * 2 ^ shOf (p / q) ≤ round53 p q ∧ round53 p q ≤ 2 * S * 2 ^ shOf (p / q) := by
  have hb := mant_bounds p q hq h
  rw [round53_eq]
  exact ⟨Nat.mul_le_mul_right _ hb.1, Nat.mul_le_mul_right _ hb.2⟩

/-- rounding to the nearest double is monotone (in the numerator, for a fixed denominator) -/
theorem round53_mono (p p' q : Nat) (hq : 0 < q) (h : p ≤ p') : round53 p q ≤ round53 p' q := by
  have hv : p / q ≤ p' / q := Nat.div_le_div_right h
  rcases Nat.lt_or_ge (p' / q) (2 * S) with hy | hy
  · rw [round53_eq, round53_eq, shOf_small (by omega), shOf_small hy]
    simp only [Nat.pow_zero, Nat.mul_one]
    exact rhe_mono p p' q hq h
  · rcases Nat.lt_or_ge (p / q) (2 * S) with hx | hx
    · have h1 : round53 p q ≤ p / q + 1 := by
        rw [round53_eq, shOf_small hx]
        simp only [Nat.pow_zero, Nat.mul_one]
        exact rhe_le p q
      have h2 := (round53_bounds p' q hq hy).1
      have h3 : S * 2 ^ 1 ≤ S * 2 ^ shOf (p' / q) :=
        Nat.mul_le_mul_left _ (Nat.pow_le_pow_right (by decide) (shOf_big hy).1)
      omega
    · have hs := shOf_mono hx hv
      rcases Nat.eq_or_lt_of_le hs with heq | hlt
      · rw [round53_eq, round53_eq, heq]
        exact Nat.mul_le_mul_right _ (rhe_mono p p' _ (Nat.mul_pos hq (Nat.two_pow_pos _)) h)
      · have h1 := (round53_bounds p q hq hx).2
        have h2 := (round53_bounds p' q hq hy).1
        have : 2 ^ (shOf (p / q) + 1) ≤ 2 ^ shOf (p' / q) := Nat.pow_le_pow_right (by decide) hlt
        have h3 : S * 2 ^ (shOf (p / q) + 1) ≤ S * 2 ^ shOf (p' / q) := Nat.mul_le_mul_left _ this
        rw [Nat.pow_succ] at h3
        have h4 : S * (2 ^ shOf (p / q) * 2) = 2 * S * 2 ^ shOf (p / q) := by
          simp only [Nat.mul_assoc, Nat.mul_comm, Nat.mul_left_comm]
        omega

/-- rounding adds at most one unit in the last place: `fl(p/q) ≤ p/q + 2^sh` with `2^52 * 2^sh ≤ p/q` (or `sh = 0`) -/
theorem round53_le (p q : Nat) (hq : 0 < q) :
    round53 p q ≤ p / q + 2 ^ shOf (p / q) := by
  rw [round53_eq]
  have h1 := rhe_le p (q * 2 ^ shOf (p / q))
  have hpos : 0 < 2 ^ shOf (p / q) := Nat.two_pow_pos _
  have h2 : p / (q * 2 ^ shOf (p / q)) = p / q / 2 ^ shOf (p / q) := (Nat.div_div_eq_div_mul _ _ _).symm
  rw [h2] at h1
  have h3 : p / q / 2 ^ shOf (p / q) * 2 ^ shOf (p / q) ≤ p / q := Nat.div_mul_le_self _ _
  have h4 := Nat.mul_le_mul_right (2 ^ shOf (p / q)) h1
  rw [Nat.add_mul, Nat.one_mul] at h4
  omega

/-- the unit in the last place is at most `value / 2^52` (and 1 in the integer range) -/
theorem ulp_le (v : Nat) : S * 2 ^ shOf v ≤ max v S := by
  rcases Nat.lt_or_ge v (2 * S) with h | h
  · rw [shOf_small h]; simp only [Nat.pow_zero, Nat.mul_one]; omega
  · have := (shOf_big h).2.1; omega

theorem U_pos : 0 < F64.U := Nat.two_pow_pos 1074
theorem S_le_U : S ≤ F64.U :=
  Nat.pow_le_pow_right (n := 2) (by decide) (show 52 ≤ 1074 by decide)

theorem trunc_mono {x y : Nat} (h : x ≤ y) : F64.trunc x ≤ F64.trunc y := Nat.div_le_div_right h

theorem mulNat_mono (x : Nat) {i i' : Nat} (h : i ≤ i') : F64.mulNat i x ≤ F64.mulNat i' x :=
  round53_mono _ _ 1 (by decide) (Nat.mul_le_mul_right x h)

theorem mulNat_zero (x : Nat) : F64.mulNat 0 x = 0 := by
  unfold F64.mulNat; rw [Nat.zero_mul]; exact round53_zero 1

/-- `[f 0, f 1, …, f n]` for a monotone `f` is non-decreasing -/
theorem range_map_mono (f : Nat → Nat) (hf : ∀ i j, i ≤ j → f i ≤ f j) (n : Nat) :
    ((List.range n).map f).Pairwise (· ≤ ·) := by
  rw [List.pairwise_map]
  exact (List.pairwise_lt_range).imp (fun h => hf _ _ (Nat.le_of_lt h))

/-- integers up to `2^53` are doubles -/
theorem U_eq : F64.U = 2 ^ 1074 := rfl

theorem round53_int (n : Nat) (hn : n ≤ 2 ^ 53) : round53 (n * F64.U) 1 = n * F64.U := by
  rw [U_eq]
  apply rnd_fix (n * 2 ^ 1074) 1074
  · exact Nat.dvd_mul_left _ _
  · rw [two53] at hn
    exact Nat.mul_le_mul_right _ hn

/-- **`int(i * (old / new))` never exceeds `old`** (`i ≤ new ≤ old`, fewer than `2^50` partitions): two roundings, each
    off by at most one unit in the last place -/
theorem toFewer_last_le (new old : Nat) (hn : 0 < new) (hno : new ≤ old) (hsmall : 3 * old < S) :
    F64.trunc (F64.mulNat new (F64.div old new)) ≤ old := by
  have hUpos := U_pos
  have hSpos := S_pos
  unfold F64.trunc F64.mulNat F64.div
  -- first rounding: r = fl(old / new)
  have hr := round53_le (old * F64.U) new hn
  have hulp := ulp_le (old * F64.U / new)
  have hvge : F64.U ≤ old * F64.U / new := by
    rw [Nat.le_div_iff_mul_le hn]
    calc F64.U * new = new * F64.U := Nat.mul_comm _ _
      _ ≤ old * F64.U := Nat.mul_le_mul_right _ hno
  have hSU := S_le_U
  have hmax : max (old * F64.U / new) S = old * F64.U / new := by omega
  rw [hmax] at hulp
  have hnv : new * (old * F64.U / new) ≤ old * F64.U := Nat.mul_div_le _ _
  generalize hv : old * F64.U / new = v at *
  generalize hP : 2 ^ shOf v = P at *
  generalize hR : round53 (old * F64.U) new = r at *
  -- y = new * r ≤ A + E1 with S * E1 ≤ A
  have hy : new * r ≤ old * F64.U + new * P := by
    calc new * r ≤ new * (v + P) := Nat.mul_le_mul_left _ hr
      _ = new * v + new * P := Nat.mul_add _ _ _
      _ ≤ old * F64.U + new * P := Nat.add_le_add_right hnv _
  have hE1 : S * (new * P) ≤ old * F64.U := by
    calc S * (new * P) = new * (S * P) := by simp only [Nat.mul_comm, Nat.mul_left_comm]
      _ ≤ new * v := Nat.mul_le_mul_left _ hulp
      _ ≤ old * F64.U := hnv
  -- second rounding
  rcases Nat.lt_or_ge (new * r) (2 * S) with hsm | hbig
  · have : round53 (new * r) 1 = new * r := ieee_rnd_small (new * r) hsm
    rw [this]
    have : new * r / F64.U ≤ 1 := by
      apply Nat.le_of_lt_succ
      rw [Nat.div_lt_iff_lt_mul hUpos]
      omega
    omega
  · have hr2 := round53_le (new * r) 1 (by decide)
    rw [Nat.div_one] at hr2
    have hulp2 := (shOf_big hbig).2.1
    generalize hP2 : 2 ^ shOf (new * r) = P2 at *
    generalize hRR : round53 (new * r) 1 = R at *
    generalize hy' : new * r = y at *
    generalize hA : old * F64.U = A at *
    generalize hE : new * P = E1 at *
    have h3A : 3 * A < S * F64.U := by
      rw [← hA]
      calc 3 * (old * F64.U) = (3 * old) * F64.U := by rw [Nat.mul_assoc]
        _ < S * F64.U := Nat.mul_lt_mul_of_pos_right hsmall hUpos
    have hSR : S * R ≤ S * y + S * P2 := by
      calc S * R ≤ S * (y + P2) := Nat.mul_le_mul_left _ hr2
        _ = S * y + S * P2 := Nat.mul_add _ _ _
    have hSy : S * y ≤ S * A + S * E1 := by
      calc S * y ≤ S * (A + E1) := Nat.mul_le_mul_left _ hy
        _ = S * A + S * E1 := Nat.mul_add _ _ _
    have hE1le : E1 ≤ S * E1 := Nat.le_mul_of_pos_left _ hSpos
    have hfin : S * R < S * (A + F64.U) := by
      rw [Nat.mul_add]
      omega
    have hRlt : R < A + F64.U := Nat.lt_of_mul_lt_mul_left hfin
    have : R / F64.U < old + 1 := by
      rw [Nat.div_lt_iff_lt_mul hUpos, Nat.add_mul, Nat.one_mul, hA]
      exact hRlt
    omega

/-- **the raw boundaries `[int(i * (old / new)) for i in range(new + 1)]` satisfy `BoundsOK`** in exact IEEE double
    arithmetic: start at 0, non-decreasing, end at or below `old` (`0 < new ≤ old`, fewer than `2^50` partitions) -/
theorem toFewerRaw_boundsOK (new old : Nat) (hn : 0 < new) (hno : new ≤ old) (hsmall : 3 * old < S) :
    ∃ raw, toFewerRaw new old = some raw ∧ BoundsOK raw old := by
  refine ⟨(List.range (new + 1)).map fun i => F64.trunc (F64.mulNat i (F64.div old new)), ?_, ?_, ?_, ?_, ?_⟩
  · unfold toFewerRaw
    have : new ≠ 0 := by omega
    simp only [this, if_false]
  · rw [List.range_succ_eq_map]
    simp only [List.map_cons, List.head?_cons, mulNat_zero]
    simp [F64.trunc]
  · exact range_map_mono _ (fun i j hij => trunc_mono (mulNat_mono _ hij)) _
  · intro l hl
    rw [List.range_succ, List.map_append, List.getLast?_append] at hl
    simp only [List.map_cons, List.map_nil, List.getLast?_singleton, Option.some_or, Option.some.injEq] at hl
    rw [← hl]
    exact toFewer_last_le new old hn hno hsmall
  · simp only [List.length_map, List.length_range]; omega

/-- **the cut positions `np.linspace(0, len, k + 1).astype(int)` are non-decreasing** (and the computed ones never
    exceed `len`), in exact IEEE double arithmetic (`k ≤ 2^52` pieces, `len ≤ 2^53` rows) -/
theorem splitPositions_mono (len k : Nat) (hk : 0 < k) (hk52 : k ≤ S) (hlen : len ≤ 2 ^ 53) (pos : List Nat)
    (h : splitPositions len k = some pos) : pos.Pairwise (· ≤ ·) := by
  unfold splitPositions at h
  have hk0 : k ≠ 0 := by omega
  simp only [hk0, if_false, Option.some.injEq] at h
  subst h
  rw [List.pairwise_append]
  refine ⟨range_map_mono _ (fun i j hij => trunc_mono (mulNat_mono _ hij)) _, List.pairwise_singleton _ _, ?_⟩
  intro x hx y hy
  have hy' : y = len := by simpa using hy
  rw [hy']
  simp only [List.mem_map, List.mem_range] at hx
  obtain ⟨i, hik, rfl⟩ := hx
  have hUpos := U_pos
  -- i * fl(len / k) ≤ len (exactly), hence its rounding is at most the double `len`
  have hprod : i * F64.div len k ≤ len * F64.U := by
    unfold F64.div
    rcases Nat.eq_zero_or_pos len with h0 | hpos
    · subst h0; rw [Nat.zero_mul, round53_zero]; simp
    · have hr := round53_le (len * F64.U) k hk
      have hulp := ulp_le (len * F64.U / k)
      have hvS : S ≤ len * F64.U / k := by
        rw [Nat.le_div_iff_mul_le hk]
        calc S * k ≤ S * S := Nat.mul_le_mul_left _ hk52
          _ ≤ 1 * F64.U := by
            rw [Nat.one_mul, S_eq, U_eq, ← Nat.pow_add]
            exact Nat.pow_le_pow_right (by decide) (by decide)
          _ ≤ len * F64.U := Nat.mul_le_mul_right _ hpos
      have hmax : max (len * F64.U / k) S = len * F64.U / k := by omega
      rw [hmax] at hulp
      have hkv : k * (len * F64.U / k) ≤ len * F64.U := Nat.mul_div_le _ _
      generalize len * F64.U / k = v at *
      generalize 2 ^ shOf v = P at *
      generalize round53 (len * F64.U) k = st at *
      have h1 : i * st ≤ i * v + i * P := by
        calc i * st ≤ i * (v + P) := Nat.mul_le_mul_left _ hr
          _ = i * v + i * P := Nat.mul_add _ _ _
      have h2 : i * P ≤ S * P := Nat.mul_le_mul_right _ (by omega)
      have h3 : i * v + v ≤ k * v := by
        have : i + 1 ≤ k := hik
        calc i * v + v = (i + 1) * v := by rw [Nat.add_mul, Nat.one_mul]
          _ ≤ k * v := Nat.mul_le_mul_right _ this
      omega
  have hle : F64.mulNat i (F64.div len k) ≤ len * F64.U := by
    unfold F64.mulNat
    calc round53 (i * F64.div len k) 1 ≤ round53 (len * F64.U) 1 := round53_mono _ _ 1 (by decide) hprod
      _ = len * F64.U := round53_int len hlen
  show F64.trunc (F64.mulNat i (F64.div len k)) ≤ len
  unfold F64.trunc
  calc F64.mulNat i (F64.div len k) / F64.U ≤ len * F64.U / F64.U := Nat.div_le_div_right hle
    _ = len := Nat.mul_div_cancel _ hUpos

end Dask.Repart
