import DaskModel.Lemmas.SchedInv
/-! `complete`: `state["cache"][key] = res; finish_task(dsk, key, state, results, sortkey)` for a
running `key` succeeds (no `KeyError` / `AssertionError`) and preserves `Inv`. -/
namespace Dask.Sched
variable {α : Type}

theorem becomesReady_iff (s : State α) (key j : Key) :
    becomesReady s key j = true ↔ ∃ w, s.waiting.get? j = some w ∧ srem key w = [] := by
  unfold becomesReady
  cases s.waiting.get? j <;> simp

theorem releasedBy_iff (results : List Key) (s : State α) (key j : Key) :
    releasedBy results s key j = true ↔
      ∃ wd, s.waitingData.get? j = some wd ∧ srem key wd = [] ∧ j ∉ results := by
  unfold releasedBy
  cases s.waitingData.get? j <;> simp

theorem releasedBy_congr (results : List Key) {s s' : State α} (h : s'.waitingData = s.waitingData) (key : Key) :
    releasedBy results s' key = releasedBy results s key := by
  funext j
  unfold releasedBy
  rw [h]

/-- every dependent of a running task is waiting for it -/
theorem Inv.dependent_waiting {g : Graph} {results : List Key} {s : State α} (h : Inv g results s)
    {key j : Key} (hk : key ∈ s.running) (hj : j ∈ s.dtsOf key) :
    ∃ w, s.waiting.get? j = some w ∧ key ∈ w := by
  have hkd : key ∈ s.depsOf j := (h.dtsIff key j).mp hj
  have hjt := h.toStatic.task_of_dep hkd
  have hknf : key ∉ s.finished := h.runningFinished key hk
  have hknd : ¬ done g s key := by
    rintro (hd | hf)
    · exact not_data_of_task (h.runningTask key hk).2 hd
    · exact hknf hf
  rcases h.cover j hjt.1 hjt.2 with ⟨w, hw⟩ | hact
  · exact ⟨w, hw, ((h.waitingExact j w hw).2 key).mpr ⟨hkd, hknd⟩⟩
  · exact absurd (h.activeDone j hact key hkd) hknd

/-- every dependency of a running task still lists it in `waiting_data` -/
theorem Inv.dep_waitingData {g : Graph} {results : List Key} {s : State α} (h : Inv g results s)
    {key d : Key} (hk : key ∈ s.running) (hd : d ∈ s.depsOf key) :
    ∃ wd, s.waitingData.get? d = some wd ∧ key ∈ wd := by
  have hknf : key ∉ s.finished := h.runningFinished key hk
  have hseen : s.seen d := by
    obtain ⟨ds, hds⟩ := seen_of_mem_depsOf hd
    exact h.depsSeen key ds hds d (by rw [depsOf_of_get hds] at hd; exact hd)
  have hnr : d ∉ s.released := h.not_released_of_dep hd hknf
  cases hwd : s.waitingData.get? d with
  | none => exact absurd ((h.relIff d hseen).mp hwd) hnr
  | some wd => exact ⟨wd, rfl, ((h.wdExact d wd hwd) key).mpr ⟨(h.dtsIff d key).mpr hd, hknf⟩⟩

/-- `Inv` for a state described by the equations that `finishDependents_spec` / `finishDeps_spec` provide -/
theorem Inv.complete_aux {g : Graph} {results : List Key} {s s' : State α} (h : Inv g results s)
    {key : Key} (hk : key ∈ s.running) (res : α) {L deps : List Key}
    (hL : ∀ x, x ∈ L ↔ x ∈ s.dtsOf key) (hLN : L.Nodup)
    (hdeps : s.dependencies.get? key = some deps)
    (hW : ∀ j, s'.waiting.get? j = if j ∈ L then waitingAfter key (s.waiting.get? j) else s.waiting.get? j)
    (hR : s'.ready = (L.filter (becomesReady s key)).reverse ++ s.ready)
    (hWD : ∀ j, s'.waitingData.get? j =
      if j ∈ deps then waitingDataAfter results key j (s.waitingData.get? j) else s.waitingData.get? j)
    (hRel : ∀ j, j ∈ s'.released ↔ j ∈ s.released ∨ (j ∈ deps ∧ releasedBy results s key j = true))
    (hRelN : s'.released.Nodup)
    (hC : ∀ j, s'.cache.get? j = if j ∈ deps ∧ releasedBy results s key j = true then none
                                 else if key = j then some res else s.cache.get? j)
    (hD1 : s'.dependencies = s.dependencies) (hD2 : s'.dependents = s.dependents)
    (hRun : s'.running = srem key s.running) (hFin : s'.finished = sadd key s.finished) :
    Inv g results s' := by
  have hkt := h.runningTask key hk
  have hknf : key ∉ s.finished := h.runningFinished key hk
  have hkndata : ¬ isData g key := not_data_of_task hkt.2
  have hknd : ¬ done g s key := by
    rintro (hd | hf)
    · exact hkndata hd
    · exact hknf hf
  have hdepsOf : s.depsOf key = deps := depsOf_of_get hdeps
  have hdone' : ∀ d, done g s' d ↔ (done g s d ∨ d = key) := by
    intro d
    unfold done
    rw [hFin]
    simp only [mem_sadd]
    constructor
    · rintro (h1 | h1 | h1)
      · exact Or.inl (Or.inl h1)
      · exact Or.inr h1
      · exact Or.inl (Or.inr h1)
    · rintro ((h1 | h1) | h1)
      · exact Or.inl h1
      · exact Or.inr (Or.inr h1)
      · exact Or.inr (Or.inl h1)
  have hdepsOf' : ∀ k, s'.depsOf k = s.depsOf k := by intro k; unfold State.depsOf; rw [hD1]
  have hdtsOf' : ∀ k, s'.dtsOf k = s.dtsOf k := by intro k; unfold State.dtsOf; rw [hD2]
  have hseen' : ∀ k, s'.seen k ↔ s.seen k := by intro k; unfold State.seen; rw [hD1]
  have hLdep : ∀ j, j ∈ L ↔ key ∈ s.depsOf j := by intro j; rw [hL, h.dtsIff]
  have hLw : ∀ j, j ∈ L → ∃ w, s.waiting.get? j = some w ∧ key ∈ w :=
    fun j hj => h.dependent_waiting hk ((hL j).mp hj)
  have hdwd : ∀ d, d ∈ deps → ∃ wd, s.waitingData.get? d = some wd ∧ key ∈ wd :=
    fun d hd => h.dep_waitingData hk (by rw [hdepsOf]; exact hd)
  have hready' : ∀ j, j ∈ s'.ready ↔ j ∈ s.ready ∨ (j ∈ L ∧ ∃ w, s.waiting.get? j = some w ∧ srem key w = []) := by
    intro j
    rw [hR]
    simp only [List.mem_append, List.mem_reverse, List.mem_filter, becomesReady_iff]
    exact Or.comm
  have hfin' : ∀ j, j ∈ s'.finished ↔ j = key ∨ j ∈ s.finished := by intro j; rw [hFin]; exact mem_sadd
  have hrun' : ∀ j, j ∈ s'.running ↔ j ∈ s.running ∧ j ≠ key := by intro j; rw [hRun]; exact mem_srem
  -- a waiting entry of s' comes from a waiting entry of s
  have hWsome : ∀ k w, s'.waiting.get? k = some w →
      ∃ w0, s.waiting.get? k = some w0 ∧ ((k ∈ L ∧ w = srem key w0 ∧ srem key w0 ≠ []) ∨ (k ∉ L ∧ w = w0)) := by
    intro k w hw
    rw [hW k] at hw
    by_cases hkL : k ∈ L
    · simp only [hkL, if_true] at hw
      obtain ⟨w0, hw0, _⟩ := hLw k hkL
      refine ⟨w0, hw0, Or.inl ⟨hkL, ?_⟩⟩
      simp only [hw0, waitingAfter] at hw
      by_cases he : srem key w0 = []
      · simp [he] at hw
      · simp only [he, if_false, Option.some.injEq] at hw
        exact ⟨hw.symm, he⟩
    · simp only [hkL, if_false] at hw
      exact ⟨w, hw, Or.inr ⟨hkL, rfl⟩⟩
  refine ⟨h.toStatic.congr hD1 hD2, ?_, ?_, ?_, ?_, ?_, ?_, ?_, ?_, ?_, ?_, ?_, ?_, ?_, ?_, ?_, ?_, ?_, ?_, ?_, ?_, ?_⟩
  · -- readyNodup
    rw [hR, List.nodup_append]
    refine ⟨(List.reverse_perm _).nodup_iff.mpr (hLN.filter _), h.readyNodup, ?_⟩
    intro a ha b hb hab
    subst hab
    simp only [List.mem_reverse, List.mem_filter] at ha
    obtain ⟨w, hw, _⟩ := hLw a ha.1
    exact (h.waitingDisj a w hw).1 hb
  · rw [hRun]; exact nodup_srem h.runningNodup
  · rw [hFin]; exact nodup_sadd h.finishedNodup
  · exact hRelN
  · -- readyTask
    intro k hk'
    rw [hseen']
    rcases (hready' k).mp hk' with h1 | ⟨_, w, hw, _⟩
    · exact h.readyTask k h1
    · exact h.waitingTask k w hw
  · intro k hk'
    rw [hseen']
    exact h.runningTask k ((hrun' k).mp hk').1
  · intro k hk'
    rw [hseen']
    rcases (hfin' k).mp hk' with rfl | h1
    · exact hkt
    · exact h.finishedTask k h1
  · intro k w hw
    rw [hseen']
    obtain ⟨w0, hw0, _⟩ := hWsome k w hw
    exact h.waitingTask k w0 hw0
  · -- readyRunning
    intro k hk' hk2
    have hk2 := (hrun' k).mp hk2
    rcases (hready' k).mp hk' with h1 | ⟨_, w, hw, _⟩
    · exact h.readyRunning k h1 hk2.1
    · exact (h.waitingDisj k w hw).2.1 hk2.1
  · -- readyFinished
    intro k hk' hk2
    rcases (hready' k).mp hk' with h1 | ⟨_, w, hw, _⟩
    · rcases (hfin' k).mp hk2 with rfl | h2
      · exact h.readyRunning _ h1 hk
      · exact h.readyFinished k h1 h2
    · rcases (hfin' k).mp hk2 with rfl | h2
      · exact (h.waitingDisj _ w hw).2.1 hk
      · exact (h.waitingDisj k w hw).2.2 h2
  · -- runningFinished
    intro k hk' hk2
    have hk1 := (hrun' k).mp hk'
    rcases (hfin' k).mp hk2 with h2 | h2
    · exact hk1.2 h2
    · exact h.runningFinished k hk1.1 h2
  · -- waitingDisj
    intro k w hw
    obtain ⟨w0, hw0, hcase⟩ := hWsome k w hw
    obtain ⟨a, b, c⟩ := h.waitingDisj k w0 hw0
    refine ⟨?_, ?_, ?_⟩
    · intro hk'
      rcases (hready' k).mp hk' with h1 | ⟨hkL, w1, hw1, he⟩
      · exact a h1
      · rw [hw0] at hw1
        cases hw1
        rcases hcase with ⟨_, _, hne⟩ | ⟨hnL, _⟩
        · exact hne he
        · exact hnL hkL
    · intro hk'; exact b ((hrun' k).mp hk').1
    · intro hk'
      rcases (hfin' k).mp hk' with rfl | h2
      · exact b hk
      · exact c h2
  · -- cover
    intro k hs ht
    rw [hseen'] at hs
    rcases h.cover k hs ht with ⟨w0, hw0⟩ | h1 | h1 | h1
    · by_cases hkL : k ∈ L
      · by_cases he : srem key w0 = []
        · exact Or.inr (Or.inl ((hready' k).mpr (Or.inr ⟨hkL, w0, hw0, he⟩)))
        · refine Or.inl ⟨srem key w0, ?_⟩
          rw [hW k]
          simp [hkL, hw0, waitingAfter, he]
      · refine Or.inl ⟨w0, ?_⟩
        rw [hW k]
        simp [hkL, hw0]
    · exact Or.inr (Or.inl ((hready' k).mpr (Or.inl h1)))
    · by_cases hkk : k = key
      · exact Or.inr (Or.inr (Or.inr ((hfin' k).mpr (Or.inl hkk))))
      · exact Or.inr (Or.inr (Or.inl ((hrun' k).mpr ⟨h1, hkk⟩)))
    · exact Or.inr (Or.inr (Or.inr ((hfin' k).mpr (Or.inr h1))))
  · -- waitingExact
    intro k w hw
    obtain ⟨w0, hw0, hcase⟩ := hWsome k w hw
    obtain ⟨hne0, hex0⟩ := h.waitingExact k w0 hw0
    rcases hcase with ⟨hkL, rfl, hne⟩ | ⟨hnL, rfl⟩
    · refine ⟨hne, ?_⟩
      intro d
      rw [mem_srem, hex0 d, hdepsOf', hdone']
      constructor
      · rintro ⟨⟨h1, h2⟩, h3⟩
        exact ⟨h1, fun h4 => h4.elim h2 h3⟩
      · rintro ⟨h1, h2⟩
        exact ⟨⟨h1, fun h3 => h2 (Or.inl h3)⟩, fun h3 => h2 (Or.inr h3)⟩
    · refine ⟨hne0, ?_⟩
      intro d
      rw [hex0 d, hdepsOf', hdone']
      constructor
      · rintro ⟨h1, h2⟩
        refine ⟨h1, fun h4 => h4.elim h2 ?_⟩
        rintro rfl
        exact hnL ((hLdep k).mpr h1)
      · rintro ⟨h1, h2⟩
        exact ⟨h1, fun h3 => h2 (Or.inl h3)⟩
  · -- activeDone
    intro k hk' d hd
    rw [hdepsOf'] at hd
    rw [hdone']
    rcases hk' with h1 | h1 | h1
    · rcases (hready' k).mp h1 with h2 | ⟨hkL, w0, hw0, he⟩
      · exact Or.inl (h.activeDone k (Or.inl h2) d hd)
      · by_cases hdd : done g s d
        · exact Or.inl hdd
        · right
          have : d ∈ w0 := ((h.waitingExact k w0 hw0).2 d).mpr ⟨hd, hdd⟩
          exact (srem_eq_nil_iff.mp he) d this
    · exact Or.inl (h.activeDone k (Or.inr (Or.inl ((hrun' k).mp h1).1)) d hd)
    · rcases (hfin' k).mp h1 with rfl | h2
      · exact Or.inl (h.activeDone _ (Or.inr (Or.inl hk)) d hd)
      · exact Or.inl (h.activeDone k (Or.inr (Or.inr h2)) d hd)
  · -- wdExact
    intro d l hl j
    rw [hdtsOf', hfin']
    rw [hWD d] at hl
    by_cases hdd : d ∈ deps
    · simp only [hdd, if_true] at hl
      obtain ⟨wd0, hwd0, _⟩ := hdwd d hdd
      simp only [hwd0, waitingDataAfter] at hl
      split at hl
      · cases hl
      · simp only [Option.some.injEq] at hl
        subst hl
        rw [mem_srem, h.wdExact d wd0 hwd0 j]
        constructor
        · rintro ⟨⟨h1, h2⟩, h3⟩
          exact ⟨h1, fun h4 => h4.elim h3 h2⟩
        · rintro ⟨h1, h2⟩
          exact ⟨⟨h1, fun h3 => h2 (Or.inr h3)⟩, fun h3 => h2 (Or.inl h3)⟩
    · simp only [hdd, if_false] at hl
      rw [h.wdExact d l hl j]
      constructor
      · rintro ⟨h1, h2⟩
        refine ⟨h1, fun h4 => h4.elim ?_ h2⟩
        rintro rfl
        apply hdd
        rw [← hdepsOf]
        exact (h.dtsIff d j).mp h1
      · rintro ⟨h1, h2⟩
        exact ⟨h1, fun h3 => h2 (Or.inr h3)⟩
  · -- relIff
    intro d hs
    rw [hseen'] at hs
    rw [hWD d, hRel d]
    by_cases hdd : d ∈ deps
    · obtain ⟨wd0, hwd0, _⟩ := hdwd d hdd
      have hnr : d ∉ s.released := h.not_released_of_dep (by rw [hdepsOf]; exact hdd) hknf
      simp only [hdd, if_true, hwd0, waitingDataAfter, true_and, releasedBy_iff]
      constructor
      · intro h1
        split at h1
        · rename_i h2
          exact Or.inr ⟨wd0, rfl, h2.1, h2.2⟩
        · cases h1
      · rintro (h1 | ⟨wd1, h1, h2, h3⟩)
        · exact absurd h1 hnr
        · cases h1
          simp [h2, h3]
    · simp only [hdd, if_false, false_and, or_false]
      exact h.relIff d hs
  · -- relOnly
    intro d hd
    rw [hseen', hdone', hdtsOf']
    rcases (hRel d).mp hd with h1 | ⟨hdd, hrb⟩
    · obtain ⟨a, b, c, e⟩ := h.relOnly d h1
      exact ⟨a, b, Or.inl c, fun j hj => (hfin' j).mpr (Or.inr (e j hj))⟩
    · obtain ⟨wd0, hwd0, he, hres⟩ := (releasedBy_iff results s key d).mp hrb
      have hdk : d ∈ s.depsOf key := by rw [hdepsOf]; exact hdd
      refine ⟨h.depsSeen key deps hdeps d hdd, hres, Or.inl (h.activeDone key (Or.inr (Or.inl hk)) d hdk), ?_⟩
      intro j hj
      rw [hfin']
      by_cases hjf : j ∈ s.finished
      · exact Or.inr hjf
      · left
        have : j ∈ wd0 := ((h.wdExact d wd0 hwd0) j).mpr ⟨hj, hjf⟩
        exact (srem_eq_nil_iff.mp he) j this
  · -- cacheIff
    intro d hs
    rw [hseen'] at hs
    rw [hC d, hdone', hRel d]
    by_cases hcase : d ∈ deps ∧ releasedBy results s key d = true
    · rw [if_pos hcase]
      constructor
      · rintro ⟨v, hv⟩; cases hv
      · rintro ⟨_, h2⟩; exact absurd (Or.inr ⟨hcase.1, hcase.2⟩) h2
    · rw [if_neg hcase]
      by_cases hkd : key = d
      · subst hkd
        rw [if_pos rfl]
        constructor
        · intro _
          refine ⟨Or.inr rfl, ?_⟩
          rintro (h1 | h1)
          · exact hknd (h.relOnly key h1).2.2.1
          · exact hcase h1
        · intro _; exact ⟨res, rfl⟩
      · rw [if_neg hkd, h.cacheIff d hs]
        constructor
        · rintro ⟨h1, h2⟩
          refine ⟨Or.inl h1, ?_⟩
          rintro (h3 | h3)
          · exact h2 h3
          · exact hcase h3
        · rintro ⟨h1 | h1, h2⟩
          · exact ⟨h1, fun h3 => h2 (Or.inl h3)⟩
          · exact absurd h1.symm hkd
  · -- wdLive
    intro d l hl hres
    rw [hWD d] at hl
    by_cases hdd : d ∈ deps
    · simp only [hdd, if_true] at hl
      obtain ⟨wd0, hwd0, _⟩ := hdwd d hdd
      simp only [hwd0, waitingDataAfter] at hl
      split at hl
      · cases hl
      · rename_i hne
        simp only [Option.some.injEq] at hl
        subst hl
        intro he
        exact hne ⟨he, hres⟩
    · simp only [hdd, if_false] at hl
      exact h.wdLive d l hl hres
  · -- cacheSeen
    intro d v hv
    rw [hseen']
    rw [hC d] at hv
    split at hv
    · cases hv
    · split at hv
      · rename_i hkd
        subst hkd
        exact hkt.1
      · exact h.cacheSeen d v hv

/-- **complete**: for a running `key`, `cache[key] = res; finish_task(...)` does not raise, preserves the
invariant, moves `key` from running to finished, and changes the cache only by adding `key ↦ res` and
deleting released dependencies. -/
theorem Inv.complete {cfg : Cfg} {s : State α} (h : Inv cfg.g cfg.results s) {key : Key}
    (hk : key ∈ s.running) (res : α) :
    ∃ s', finishTask cfg key { s with cache := s.cache.set key res } = .ok s' ∧ Inv cfg.g cfg.results s' ∧
      s'.finished = sadd key s.finished ∧ s'.running = srem key s.running ∧
      s'.dependencies = s.dependencies ∧ s'.dependents = s.dependents ∧
      (∀ j v, s'.cache.get? j = some v → (key = j ∧ v = res) ∨ s.cache.get? j = some v) ∧
      (∀ j, j ∈ s.ready → j ∈ s'.ready) := by
  have hkt := h.runningTask key hk
  obtain ⟨dts, hdts⟩ := h.dtsDom key hkt.1
  obtain ⟨deps, hdeps⟩ := hkt.1
  have hLN : (sortDesc cfg.prio dts).Nodup := nodup_isort (h.dtsNodup key dts hdts)
  have hL : ∀ x, x ∈ sortDesc cfg.prio dts ↔ x ∈ s.dtsOf key := by
    intro x; rw [dtsOf_of_get hdts]; exact mem_isort
  have hpre1 : ∀ dep ∈ sortDesc cfg.prio dts,
      ∃ w, ({ s with cache := s.cache.set key res } : State α).waiting.get? dep = some w ∧ key ∈ w :=
    fun dep hd => h.dependent_waiting hk ((hL dep).mp hd)
  obtain ⟨s1, hs1, hW, hR, e1, e2, e3, e4, e5, e6, e7⟩ :=
    finishDependents_spec key (sortDesc cfg.prio dts) { s with cache := s.cache.set key res } hLN hpre1
  have hpre2 : ∀ dep ∈ deps, ∃ wd, s1.waitingData.get? dep = some wd ∧ key ∈ wd := by
    rw [e3]
    intro dep hd
    exact h.dep_waitingData hk (by rw [depsOf_of_get hdeps]; exact hd)
  have hcache2 : ∀ dep ∈ deps, releasedBy cfg.results s1 key dep = true → s1.cache.has dep = true := by
    intro dep hd _
    rw [e4, Map.has_iff]
    simp only [Map.get?_set]
    by_cases hkd : key = dep
    · exact ⟨res, by simp [hkd]⟩
    · obtain ⟨v, hv⟩ := h.dep_cached (Or.inr hk) (by rw [depsOf_of_get hdeps]; exact hd : dep ∈ s.depsOf key)
      exact ⟨v, by simp [hkd, hv]⟩
  obtain ⟨s2, hs2, hWD, hRel, hRelN, hC, f1, f2, f3, f4, f5, f6⟩ :=
    finishDeps_spec cfg.results key deps s1 (h.depsNodup key deps hdeps) hpre2 hcache2
  have hrun : key ∈ s2.running := by rw [f5, e5]; exact hk
  have hd1 : s1.dependencies.get? key = some deps := by rw [e1]; exact hdeps
  have hrb : releasedBy cfg.results s1 key = releasedBy cfg.results s key := releasedBy_congr cfg.results e3 key
  have hCache : ∀ j, s2.cache.get? j = if j ∈ deps ∧ releasedBy cfg.results s key j = true then none
                                 else if key = j then some res else s.cache.get? j := by
    intro j
    rw [hC j, hrb, e4]
    simp only [Map.get?_set]
  refine ⟨{ s2 with finished := sadd key s2.finished, running := srem key s2.running }, ?_, ?_, ?_, ?_, ?_, ?_, ?_, ?_⟩
  · unfold finishTask
    have hd0 : ({ s with cache := s.cache.set key res } : State α).dependents.get? key = some dts := hdts
    rw [hd0]
    simp only []
    rw [hs1]
    simp only []
    rw [hd1]
    simp only []
    rw [hs2]
    simp only [hrun, if_true]
  · apply h.complete_aux hk res hL hLN hdeps
    · intro j; show s2.waiting.get? j = _; rw [f3]; exact hW j
    · show s2.ready = _; rw [f4]; exact hR
    · intro j; show s2.waitingData.get? j = _; rw [hWD j, e3]
    · intro j; show j ∈ s2.released ↔ _; rw [hRel j, e7, hrb]
    · show s2.released.Nodup; exact hRelN (by rw [e7]; exact h.releasedNodup)
    · exact hCache
    · show s2.dependencies = _; rw [f1, e1]
    · show s2.dependents = _; rw [f2, e2]
    · show srem key s2.running = _; rw [f5, e5]
    · show sadd key s2.finished = _; rw [f6, e6]
  · show sadd key s2.finished = _; rw [f6, e6]
  · show srem key s2.running = _; rw [f5, e5]
  · show s2.dependencies = _; rw [f1, e1]
  · show s2.dependents = _; rw [f2, e2]
  · intro j v hv
    have hv' : s2.cache.get? j = some v := hv
    rw [hCache j] at hv'
    split at hv'
    · cases hv'
    · split at hv'
      · rename_i hkj
        simp only [Option.some.injEq] at hv'
        exact Or.inl ⟨hkj, hv'.symm⟩
      · exact Or.inr hv'
  · intro j hj
    show j ∈ s2.ready
    rw [f4, hR]
    exact List.mem_append_right _ hj

end Dask.Sched
