import DaskModel.Lemmas.SortValues
import DaskModel.Lemmas.Truthful
/-! The presorted shortcut of `set_index`: `mins + [maxes[-1]]` are truthful divisions (C41's `Truthful`).
    Core Lean only. -/
namespace Dask.SortValues
open Dask.Shuffle
variable {β : Type}

theorem calcPresorted_mins (asc : Bool) (K : List (List (Option Nat))) :
    (calcPresorted asc K).2.1 = bfill (K.map partMin) ∧ (calcPresorted asc K).2.2 = bfill (K.map partMax) := by
  unfold calcPresorted
  simp only
  split <;> exact ⟨rfl, rfl⟩

theorem bfill_ne_nil (l : List (Option Nat)) (h : l ≠ []) : bfill l ≠ [] := by
  intro hb
  have := bfill_length l
  rw [hb] at this
  cases l with
  | nil => exact h rfl
  | cons x xs => simp at this

theorem bfill_getLast? : ∀ l : List (Option Nat), (bfill l).getLast? = l.getLast?
  | [] => rfl
  | [x] => by cases x <;> simp [bfill]
  | x :: y :: ys => by
    have ih := bfill_getLast? (y :: ys)
    have hne := bfill_ne_nil (y :: ys) (by simp)
    show (_ :: bfill (y :: ys)).getLast? = _
    rw [List.getLast?_cons_of_ne_nil hne, ih]
    simp

theorem filterMap_id_map_some (l : List Nat) : (l.map some).filterMap id = l := by
  induction l with
  | nil => rfl
  | cons a as ih => simp [ih]

/-- **set_index through the presorted shortcut is truthful**: when `_calculate_divisions` reports `presorted`
    (ascending), `SetIndex._lower` publishes `mins + [maxes[-1]]` as divisions and only sorts every partition where it
    is; partition `i` then holds keys in `[mins[i], mins[i+1])`, the last one in `[mins[-1], maxes[-1]]` -/
theorem presorted_truthful (key : β → Nat) (sortp : List β → List β) (parts : List (List β)) (hpos : 0 < parts.length)
    (hpre : presortedB true (parts.map fun p => p.map fun r => some (key r)) = true)
    (hmem : ∀ l r, r ∈ sortp l → r ∈ l) :
    Dask.Divs.Truthful key
      (presortedDivisions ((calcPresorted true (parts.map fun p => p.map fun r => some (key r))).2.1.filterMap id)
        ((calcPresorted true (parts.map fun p => p.map fun r => some (key r))).2.2.filterMap id))
      (sortValuesPresorted sortp parts) := by
  generalize hK : (parts.map fun p => p.map fun r => some (key r)) = K at hpre ⊢
  have hKlen : K.length = parts.length := by rw [← hK]; simp
  obtain ⟨mn, mx, e1, e2, l1, l2, hnn, hsmn, hsmx, hchain⟩ := presorted_facts true K hpre
  obtain ⟨c1, c2⟩ := calcPresorted_mins true K
  rw [c1, c2, e1, e2, filterMap_id_map_some, filterMap_id_map_some]
  simp only [if_true] at hchain
  -- the last entry of maxes
  have hmxne : mx ≠ [] := by intro h; rw [h] at l2; simp at l2; omega
  obtain ⟨Ml, hMl⟩ : ∃ Ml, mx.getLast? = some Ml := by
    cases h : mx.getLast? with
    | none => exact absurd (List.getLast?_eq_none_iff.mp h) hmxne
    | some v => exact ⟨v, rfl⟩
  have hMl' : mx[mx.length - 1]? = some Ml := by rw [← List.getLast?_eq_getElem?]; exact hMl
  have hdivs : presortedDivisions mn mx = mn ++ [Ml] := by simp [presortedDivisions, hMl]
  rw [hdivs]
  -- bounds of the keys of partition i
  have hb : ∀ (i : Nat) (p : List β), parts[i]? = some p → ∀ r ∈ p, ∃ m M, mn[i]? = some m ∧ mx[i]? = some M ∧ m ≤ key r ∧ key r ≤ M := by
    intro i p hp r hr
    apply presorted_bounds K mn mx e1 e2 i (p.map fun r => some (key r))
    · rw [← hK, List.getElem?_map, hp]; rfl
    · exact List.mem_map.mpr ⟨r, hr, rfl⟩
  -- the last partition is not empty: mn[last] ≤ mx[last]
  have hlastle : ∀ m, mn[mn.length - 1]? = some m → m ≤ Ml := by
    intro m hm
    have hg : (bfill (K.map partMin)).getLast? = some (some m) := by
      rw [e1, List.getLast?_eq_getElem?, List.length_map, List.getElem?_map, hm]; rfl
    rw [bfill_getLast?, List.getLast?_eq_getElem?, List.length_map, List.getElem?_map] at hg
    cases hks : K[K.length - 1]? with
    | none => rw [hks] at hg; simp at hg
    | some ks =>
      rw [hks] at hg
      simp only [Option.map_some, Option.some.injEq] at hg
      -- a valid key exists in the last partition
      have : ∃ v, some v ∈ ks := by
        unfold partMin at hg
        cases hf : ks.filterMap id with
        | nil => rw [hf] at hg; simp [minNat?] at hg
        | cons v vs =>
          have : v ∈ ks.filterMap id := by rw [hf]; exact List.mem_cons_self
          obtain ⟨x, hx, hxv⟩ := List.mem_filterMap.mp this
          simp only [id] at hxv
          subst hxv
          exact ⟨v, hx⟩
      obtain ⟨v, hv⟩ := this
      obtain ⟨m', M', hm', hM', h1, h2⟩ := presorted_bounds K mn mx e1 e2 (K.length - 1) ks hks v hv
      rw [← l1] at hm'
      rw [← l2] at hM'
      rw [hm] at hm'; rw [hMl'] at hM'
      cases hm'; cases hM'
      omega
  refine ⟨?_, ?_, ?_⟩
  · unfold sortValuesPresorted
    simp only [List.length_map, List.length_append, List.length_cons, List.length_nil]
    omega
  · rw [List.pairwise_append]
    refine ⟨hsmn.imp (by intro a b h; simpa [dirLe] using h), by simp, ?_⟩
    intro a ha b hb'
    simp only [List.mem_singleton] at hb'
    subst hb'
    obtain ⟨i, hi, rfl⟩ := List.getElem_of_mem ha
    have hlast : mn.length - 1 < mn.length := by omega
    have h1 := pairwise_get_le true mn hsmn i (mn.length - 1) mn[i] mn[mn.length - 1] (by omega)
      (List.getElem?_eq_getElem hi) (List.getElem?_eq_getElem hlast)
    have h2 := hlastle _ (List.getElem?_eq_getElem hlast)
    simp [dirLe] at h1
    omega
  · intro i p lo hi hp hlo hhi r hr
    unfold sortValuesPresorted at hp
    rw [List.getElem?_map] at hp
    cases hpi : parts[i]? with
    | none => rw [hpi] at hp; cases hp
    | some p0 =>
      rw [hpi] at hp
      simp only [Option.map_some, Option.some.injEq] at hp
      subst hp
      have hilt : i < parts.length := (List.getElem?_eq_some_iff.mp hpi).1
      obtain ⟨m, M, hm, hM, h1, h2⟩ := hb i p0 hpi r (hmem _ _ hr)
      have hlo' : lo = m := by
        rw [List.getElem?_append_left (by omega), hm] at hlo
        exact (Option.some.inj hlo).symm
      subst hlo'
      refine ⟨h1, ?_⟩
      by_cases hlast : i + 1 < mn.length
      · left
        rw [List.getElem?_append_left hlast] at hhi
        exact Nat.lt_of_le_of_lt h2 (hchain i M _ hM hhi)
      · right
        have hieq : i + 1 = mn.length := by omega
        refine ⟨by unfold sortValuesPresorted; simp; omega, ?_⟩
        rw [List.getElem?_append_right (by omega), hieq] at hhi
        simp at hhi
        have hMi : mx[i]? = some Ml := by
          have e : i = mx.length - 1 := by omega
          rw [e]; exact hMl'
        rw [hMi] at hM
        have hMM : Ml = M := Option.some.inj hM
        omega

end Dask.SortValues
