import DaskModel.Model.GroupbyX
import DaskModel.Lemmas.GroupbySets
/-! C38 extension: `nunique` with NaN group keys (`dropna=d`): the tree of `nuCombineD d` + `nuAggregateD d` over the
    chunks (which keep the NaN-key rows) equals pandas `groupby(c, dropna=d).a.nunique()` on the whole frame.
    Invariant: `Covers` of `Lemmas/GroupbySets`, restricted to the keys that are not dropped. -/
namespace Dask.GroupbyX
open Dask.Groupby

/-- the union of the partial sets of every group that is not dropped -/
def CoversD (d : Bool) (ps : List (Nat → List (Option Int))) (rows : List (Nat × Option Int)) : Prop :=
  ∀ k v, dropped d k = false → ((∃ p ∈ ps, v ∈ p k) ↔ v ∈ groupCells rows k)

theorem enc_flatten {V : Type} (parts : List (List (Key × V))) : enc parts.flatten = (parts.map enc).flatten := by
  unfold enc; rw [List.map_flatten]

theorem coversD_chunks (d : Bool) (parts : List (List (Key × Option Int))) :
    CoversD d (parts.map nuChunkD) (enc parts.flatten) := by
  intro k v _
  have h := covers_chunks (parts.map enc) k v
  rw [List.map_map, ← enc_flatten] at h
  exact h

theorem coversD_level (d : Bool) (k : Nat) (hk : 0 < k) (ps : List (Nat → List (Option Int)))
    (rows : List (Nat × Option Int)) (h : CoversD d ps rows) :
    CoversD d ((partitionAll k ps.length ps).map (nuCombineD d)) rows := by
  intro key v hd
  rw [← h key v hd]
  have hfl := partitionAll_flatten k hk ps.length ps (Nat.le_refl _)
  have hc : ∀ batch, nuCombineD d batch key = nuCombine batch key := by
    intro batch; simp [nuCombineD, hd]
  simp only [List.mem_map]
  constructor
  · rintro ⟨p, ⟨batch, hb, rfl⟩, hv⟩
    rw [hc] at hv
    obtain ⟨q, hq, hqv⟩ := (mem_nuCombine batch key v).1 hv
    refine ⟨q, ?_, hqv⟩
    rw [← hfl]; exact List.mem_flatten.2 ⟨batch, hb, hq⟩
  · rintro ⟨q, hq, hqv⟩
    rw [← hfl] at hq
    obtain ⟨batch, hb, hqb⟩ := List.mem_flatten.1 hq
    refine ⟨nuCombineD d batch, ⟨batch, hb, rfl⟩, ?_⟩
    rw [hc]; exact (mem_nuCombine batch key v).2 ⟨q, hqb, hqv⟩

/-- the result in terms of the encoded rows of the WHOLE frame (NaN-key rows included) -/
def specE (d : Bool) (rows : List (Nat × Option Int)) : Nat → Option Nat :=
  fun k => if dropped d k || (groupCells rows k).isEmpty then none else some (nuniqueSpec rows k)

theorem nuAggregateD_of_coversD (d : Bool) (ps : List (Nat → List (Option Int))) (rows : List (Nat × Option Int))
    (h : CoversD d ps rows) (k : Nat) : nuAggregateD d ps k = specE d rows k := by
  unfold nuAggregateD specE
  cases hd : dropped d k with
  | true => simp
  | false =>
    have hm : ∀ v, v ∈ nuCombine ps k ↔ v ∈ groupCells rows k := fun v => (mem_nuCombine ps k v).trans (h k v hd)
    have he : (nuCombine ps k).isEmpty = (groupCells rows k).isEmpty := by
      rw [Bool.eq_iff_iff, List.isEmpty_iff, List.isEmpty_iff, List.eq_nil_iff_forall_not_mem,
        List.eq_nil_iff_forall_not_mem]
      exact ⟨fun g v hv => g v ((hm v).2 hv), fun g v hv => g v ((hm v).1 hv)⟩
    have hn : nuAggregate ps k = nuniqueSpec rows k := by
      unfold nuAggregate nuniqueSpec
      apply List.Perm.length_eq
      apply (List.perm_ext_iff_of_nodup ((nodup_dedup _).filter _) ((nodup_dedup _).filter _)).2
      intro v
      have h1 := hm v
      simp only [nuCombine] at h1
      rw [List.mem_filter, List.mem_filter, h1, mem_dedup]
    rw [he, hn]

theorem nuniqueD_tree (d : Bool) (se : Nat) (hse : 0 < se) (rows : List (Nat × Option Int)) :
    ∀ (fuel : Nat) (ps : List (Nat → List (Option Int))), CoversD d ps rows →
      treeReduce2 (nuCombineD d) (nuAggregateD d) se fuel ps = specE d rows
  | 0, ps, h => by funext k; exact nuAggregateD_of_coversD d ps rows h k
  | fuel + 1, ps, h => by
    unfold treeReduce2
    split
    · funext k; exact nuAggregateD_of_coversD d ps rows h k
    · exact nuniqueD_tree d se hse rows fuel _ (coversD_level d se hse ps rows h)

/-- under `dropna=True` no row of the aggregated frame is in group 0 -/
theorem groupCells_dropRows_zero (rws : List (Key × Option Int)) : groupCells (enc (dropRows true rws)) 0 = [] := by
  induction rws with
  | nil => rfl
  | cons r rs ih =>
    obtain ⟨_ | a, c⟩ := r
    · simpa [groupCells, enc, dropRows] using ih
    · simpa [groupCells, enc, dropRows, encK] using ih

/-- a group that is not dropped has the same cells in the aggregated frame and in the whole frame -/
theorem groupCells_dropRows (d : Bool) (rws : List (Key × Option Int)) (k : Nat) (hd : dropped d k = false) :
    groupCells (enc (dropRows d rws)) k = groupCells (enc rws) k := by
  cases d with
  | false => rfl
  | true =>
    have hk : k ≠ 0 := by simpa [dropped] using hd
    induction rws with
    | nil => rfl
    | cons r rs ih =>
      obtain ⟨_ | a, c⟩ := r
      · have : (0 == k) = false := by simp; omega
        simpa [groupCells, enc, dropRows, encK, this] using ih
      · simp only [groupCells, enc, dropRows, if_true] at ih ⊢
        simp only [Option.isSome_some, List.filter_cons_of_pos, List.map_cons, List.filter_cons]
        split
        · simp only [List.map_cons, ih]
        · exact ih

theorem nuniqueSpecD_eq_specE (d : Bool) (rws : List (Key × Option Int)) : nuniqueSpecD d rws = specE d (enc rws) := by
  funext k
  unfold nuniqueSpecD specE
  cases hd : dropped d k with
  | true =>
    obtain ⟨rfl, rfl⟩ : d = true ∧ k = 0 := by simpa [dropped] using hd
    simp [groupCells_dropRows_zero]
  | false => simp [nuniqueSpec, groupCells_dropRows d rws k hd]

/-- C38: tree `nunique` with NaN keys and `dropna=d` = the global `groupby(dropna=d).nunique()` -/
theorem nuniqueD_eq_global (d : Bool) (se : Nat) (hse : 0 < se) (fuel : Nat) (parts : List (List (Key × Option Int))) :
    nuniqueD d se fuel parts = nuniqueSpecD d parts.flatten := by
  rw [nuniqueSpecD_eq_specE]
  exact nuniqueD_tree d se hse (enc parts.flatten) fuel _ (coversD_chunks d parts)

example : nuniqueD false 2 5 [[(none, some 1), (some 0, some 2)], [(none, some 3)], [(none, some 1)]] 0 = some 2
    ∧ nuniqueD true 2 5 [[(none, some 1), (some 0, some 2)], [(none, some 3)], [(none, some 1)]] 0 = none := by decide

end Dask.GroupbyX
