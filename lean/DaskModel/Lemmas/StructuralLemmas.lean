import DaskModel.Model.Structural
import DaskModel.Lemmas.ChunksPlanner
import DaskModel.Lemmas.ChunksBlocks
/-! Helper lemmas for C24 (structural operations). -/
namespace Dask.Structural
open Dask.Chunks

/-! expand_tuple -/
theorem expandRest_sum (x : Nat) : sum (expandRest x) = x := by
  unfold expandRest; split <;> simp_all [sum]

theorem expandRest_pos (x : Nat) : ∀ y ∈ expandRest x, 0 < y := by
  intro y hy; unfold expandRest at hy; split at hy <;> simp_all <;> omega

theorem expandPart_le {c f x : Nat} (h : expandCond c f x = true) : expandPart c f ≤ x := by
  unfold expandCond at h; unfold expandPart
  split at h
  · rename_i hb
    simp only [hb, if_true]
    have h : 2 * c ≤ x * f := by simpa using h
    apply Nat.div_le_of_le_mul
    rw [Nat.mul_comm]; omega
  · rename_i hb
    simp only [hb, if_false]
    have h : 2 ≤ x := by simpa using h
    omega

theorem expandPart_pos (c f : Nat) (hf : 0 < f) : 0 < expandPart c f := by
  unfold expandPart; split
  · rename_i hb; exact Nat.div_pos hb hf
  · omega

theorem expandLoop_sum (c f : Nat) : ∀ (fuel x : Nat), sum (expandLoop c f fuel x) = x
  | 0, x => expandRest_sum x
  | fuel + 1, x => by
    simp only [expandLoop]
    split
    · rename_i hc
      rw [sum_cons, expandLoop_sum c f fuel]
      have := expandPart_le hc
      omega
    · exact expandRest_sum x

theorem expandLoop_pos (c f : Nat) (hf : 0 < f) : ∀ (fuel x : Nat), ∀ y ∈ expandLoop c f fuel x, 0 < y
  | 0, x, y, hy => expandRest_pos x y hy
  | fuel + 1, x, y, hy => by
    simp only [expandLoop] at hy
    split at hy
    · simp only [List.mem_cons] at hy
      rcases hy with hy | hy
      · subst hy; exact expandPart_pos c f hf
      · exact expandLoop_pos c f hf fuel _ y hy
    · exact expandRest_pos x y hy

/-! contract_tuple -/
theorem contractLoop_sum (f : Nat) (hf : 0 < f) : ∀ (cs : List Nat) (res : Nat), res < f →
    sum (contractLoop f res cs) + (res + sum cs) % f = res + sum cs
  | [], res, hres => by
    simp only [contractLoop, sum, List.foldr_nil, Nat.add_zero, Nat.zero_add]
    exact Nat.mod_eq_of_lt hres
  | c :: cs, res, _ => by
    simp only [contractLoop, sum_append, sum_cons]
    have ih := contractLoop_sum f hf cs ((c + res) % f) (Nat.mod_lt _ hf)
    have hm : ((c + res) % f + sum cs) % f = (res + (c + sum cs)) % f := by
      rw [Nat.mod_add_mod]; congr 1; omega
    have hg : sum (if f * ((c + res) / f) ≠ 0 then [f * ((c + res) / f)] else []) = f * ((c + res) / f) := by
      split <;> simp_all [sum]
    have hd := Nat.div_add_mod (c + res) f
    rw [hg]; rw [hm] at ih; omega

theorem contractLoop_dvd (f : Nat) : ∀ (cs : List Nat) (res : Nat), ∀ y ∈ contractLoop f res cs, f ∣ y ∧ 0 < y
  | [], _, y, hy => by simp [contractLoop] at hy
  | c :: cs, res, y, hy => by
    simp only [contractLoop, List.mem_append] at hy
    rcases hy with hy | hy
    · split at hy
      · simp only [List.mem_singleton] at hy; subst hy
        exact ⟨Nat.dvd_mul_right .., by omega⟩
      · simp at hy
    · exact contractLoop_dvd f cs _ y hy

theorem splitBy_append {α} : ∀ (c1 c2 : List Nat) (xs ys : List α), xs.length = sum c1 →
    splitBy (c1 ++ c2) (xs ++ ys) = splitBy c1 xs ++ splitBy c2 ys
  | [], c2, xs, ys, h => by
    have : xs = [] := by simpa [sum] using h
    subst this; simp [splitBy]
  | c :: c1, c2, xs, ys, h => by
    rw [sum_cons] at h
    simp only [List.cons_append, splitBy]
    have h1 : (xs ++ ys).take c = xs.take c := by
      rw [List.take_append_of_le_length (by omega)]
    have h2 : (xs ++ ys).drop c = xs.drop c ++ ys := by
      rw [List.drop_append_of_le_length (by omega)]
    rw [h1, h2, splitBy_append c1 c2 (xs.drop c) ys (by simp; omega)]

/-- blocks addressed through the plan are the concatenated block lists -/
theorem map_blockOf_eq_flatten {β} (d : β) : ∀ (ls : List (List β)),
    (List.range (sum (ls.map List.length))).map (fun b =>
      match blockOf (ls.map List.length) b with
      | some (i, j) => (ls.getD i []).getD j d
      | none => d) = ls.flatten
  | [] => by simp [sum]
  | l :: ls => by
    simp only [List.map_cons, sum_cons, List.flatten_cons]
    rw [List.range_add, List.map_append, List.map_map]
    congr 1
    · apply List.ext_getElem
      · simp
      · intro i h1 h2
        simp only [List.length_map, List.length_range] at h1
        simp [blockOf, h1]
    · rw [← map_blockOf_eq_flatten d ls]
      apply List.map_congr_left
      intro b _
      simp only [Function.comp, blockOf, Nat.not_lt.2 (Nat.le_add_right _ _), if_false, Nat.add_sub_cancel_left]
      cases blockOf (List.map List.length ls) b with
      | none => rfl
      | some p => obtain ⟨i, j⟩ := p; simp

/-! merge-reshape -/
theorem flatten_take_rows {α} (m : Nat) : ∀ (rows : List (List α)) (c : Nat), (∀ r ∈ rows, r.length = m) →
    (rows.take c).flatten = rows.flatten.take (c * m) ∧ (rows.drop c).flatten = rows.flatten.drop (c * m)
  | rows, 0, _ => by simp
  | [], c + 1, _ => by simp
  | r :: rows, c + 1, h => by
    have hr : r.length = m := h r (by simp)
    obtain ⟨i1, i2⟩ := flatten_take_rows m rows c (fun r hr => h r (by simp [hr]))
    simp only [List.take_succ_cons, List.flatten_cons, List.drop_succ_cons, Nat.succ_mul]
    constructor
    · rw [i1, Nat.add_comm (c * m) m, List.take_append, hr, Nat.add_sub_cancel_left,
        List.take_of_length_le (l := r) (by omega)]
    · rw [i2, Nat.add_comm (c * m) m, List.drop_append, hr, Nat.add_sub_cancel_left,
        List.drop_of_length_le (l := r) (by omega), List.nil_append]

theorem pyBound_of_range (n : Nat) (k : Nat) (h : k ≤ n) : pyBound n (k : Int) = k := by
  unfold pyBound
  have h1 : ¬ ((k : Int) < 0) := by omega
  have h2 : ¬ ((n : Int) < (k : Int)) := by omega
  simp [h1, h2]

/-- emod of a shifted value, one wrap -/
theorem emod_wrap (a n : Int) (hn : 0 < n) (h0 : 0 ≤ a) (h1 : a < 2 * n) :
    a % n = if a < n then a else a - n := by
  split
  · exact Int.emod_eq_of_lt h0 (by assumption)
  · rw [← Int.sub_emod_right]; exact Int.emod_eq_of_lt (by omega) (by omega)

theorem pyBound_nat (n : Nat) (k : Nat) (h : k ≤ n) : pyBound n (k : Int) = k := by
  unfold pyBound
  have h1 : ¬ ((k : Int) < 0) := by omega
  have h2 : ¬ ((n : Int) < (k : Int)) := by omega
  simp [h1, h2]

theorem pyBound_sub (n r : Nat) (h : r ≤ n) : pyBound n ((n : Int) - (r : Int)) = n - r := by
  have : (n : Int) - (r : Int) = ((n - r : Nat) : Int) := by omega
  rw [this, pyBound_nat n (n - r) (by omega)]

theorem pyBound_sub1 (n r : Nat) (h : r + 1 ≤ n) : pyBound n ((n : Int) - (r : Int) - 1) = n - r - 1 := by
  have : (n : Int) - (r : Int) - 1 = ((n - r - 1 : Nat) : Int) := by omega
  rw [this, pyBound_nat n (n - r - 1) (by omega)]

/-- a list described position by position -/
theorem eq_map_range {α} (d : α) (ys : List α) (f : Nat → α)
    (hg : ∀ j, j < ys.length → ys.getD j d = f j) : ys = (List.range ys.length).map f := by
  apply List.ext_getElem
  · simp
  · intro j h1 h2
    have := hg j h1
    rw [List.getD_eq_getElem?_getD, List.getElem?_eq_getElem h1] at this
    simpa using this

/-- `(xs[a:a+len])[::-1]` position `p` is `xs[a+len-1-p]` -/
theorem getD_reverse_slice {α} (d : α) (xs : List α) (a len p : Nat) (h : a + len ≤ xs.length) (hp : p < len) :
    (((xs.drop a).take len).reverse).getD p d = xs.getD (a + len - 1 - p) d := by
  have hl : ((xs.drop a).take len).length = len := by simp; omega
  rw [List.getD_eq_getElem?_getD, List.getElem?_eq_getElem (by simp; omega), List.getElem_reverse]
  simp only [List.getElem_take, List.getElem_drop, Option.getD_some, hl]
  rw [List.getD_eq_getElem?_getD, List.getElem?_eq_getElem (by omega)]
  simp only [Option.getD_some]
  congr 1; omega

theorem getD_slice {α} (d : α) (xs : List α) (a len p : Nat) (h : a + len ≤ xs.length) (hp : p < len) :
    ((xs.drop a).take len).getD p d = xs.getD (a + p) d := by
  rw [List.getD_eq_getElem?_getD, List.getElem?_eq_getElem (by simp; omega)]
  simp only [List.getElem_take, List.getElem_drop, Option.getD_some]
  rw [List.getD_eq_getElem?_getD, List.getElem?_eq_getElem (by omega)]
  rfl

theorem range3 (l n r : Nat) (f : Nat → β) :
    (List.range (l + n + r)).map f
      = (List.range l).map f ++ (List.range n).map (fun i => f (l + i)) ++ (List.range r).map (fun q => f (l + n + q)) := by
  rw [List.range_add, List.map_append, List.range_add, List.map_append, List.map_map, List.map_map]
  rfl

theorem emod_neg_wrap (t n : Int) (h0 : -n ≤ t) (h1 : t < 0) : t % n = t + n := by
  rw [Int.emod_eq_add_self_emod]; exact Int.emod_eq_of_lt (by omega) (by omega)

/-- index maps of the three modes, in the ranges `pad_reuse` is correct for -/
theorem padIndex_mid (mode : PadMode) (n i : Nat) (hi : i < n) : padIndex mode n (i : Int) = i := by
  have hn : (0 : Int) < n := by omega
  cases mode
  · -- reflect
    unfold padIndex
    by_cases h1 : n ≤ 1
    · simp [h1]; omega
    · simp only [h1, if_false]
      rw [Int.fmod_eq_emod_of_nonneg _ (by omega), Int.emod_eq_of_lt (by omega) (by omega)]
      simp [hi]
  · unfold padIndex
    simp only
    rw [Int.fmod_eq_emod_of_nonneg _ (by omega), Int.emod_eq_of_lt (by omega) (by omega)]
    simp [hi]
  · unfold padIndex
    simp only
    rw [Int.fmod_eq_emod_of_nonneg _ (by omega), Int.emod_eq_of_lt (by omega) (by omega)]
    simp

theorem padIndex_sym_left (n l p : Nat) (hl : l ≤ n) (hp : p < l) : padIndex .symmetric n ((p : Int) - l) = l - 1 - p := by
  unfold padIndex; simp only
  rw [Int.fmod_eq_emod_of_nonneg _ (by omega), emod_neg_wrap _ _ (by omega) (by omega)]
  have : ((p : Int) - l + 2 * (n : Int)).toNat = 2 * n - l + p := by omega
  rw [this]; split <;> omega

theorem padIndex_sym_right (n r q : Nat) (hr : r ≤ n) (hq : q < r) (l : Nat) :
    padIndex .symmetric n (((l + n + q : Nat) : Int) - l) = n - 1 - q := by
  unfold padIndex; simp only
  have : ((l + n + q : Nat) : Int) - l = ((n + q : Nat) : Int) := by omega
  rw [this, Int.fmod_eq_emod_of_nonneg _ (by omega), Int.emod_eq_of_lt (by omega) (by omega)]
  simp only [Int.toNat_natCast]; split <;> omega

theorem padIndex_wrap_left (n l p : Nat) (hl : l ≤ n) (hp : p < l) : padIndex .wrap n ((p : Int) - l) = n - l + p := by
  unfold padIndex; simp only
  rw [Int.fmod_eq_emod_of_nonneg _ (by omega), emod_neg_wrap _ _ (by omega) (by omega)]
  omega

theorem padIndex_wrap_right (n r q : Nat) (hr : r ≤ n) (hq : q < r) (l : Nat) :
    padIndex .wrap n (((l + n + q : Nat) : Int) - l) = q := by
  unfold padIndex; simp only
  have : ((l + n + q : Nat) : Int) - l = (q : Int) + (n : Int) := by omega
  rw [this, Int.fmod_eq_emod_of_nonneg _ (by omega), ← Int.emod_eq_add_self_emod, Int.emod_eq_of_lt (by omega) (by omega)]
  simp

theorem padIndex_refl_left (n l p : Nat) (hl : l + 1 ≤ n) (hp : p < l) : padIndex .reflect n ((p : Int) - l) = l - p := by
  unfold padIndex
  have h1 : ¬ n ≤ 1 := by omega
  simp only [h1, if_false]
  rw [Int.fmod_eq_emod_of_nonneg _ (by omega), emod_neg_wrap _ _ (by omega) (by omega)]
  have : ((p : Int) - l + (2 * (n : Int) - 2)).toNat = 2 * n - 2 - l + p := by omega
  rw [this]; split <;> omega

theorem padIndex_refl_right (n r q : Nat) (hr : r + 1 ≤ n) (hq : q < r) (l : Nat) :
    padIndex .reflect n (((l + n + q : Nat) : Int) - l) = n - 2 - q := by
  unfold padIndex
  have h1 : ¬ n ≤ 1 := by omega
  simp only [h1, if_false]
  have : ((l + n + q : Nat) : Int) - l = ((n + q : Nat) : Int) := by omega
  rw [this, Int.fmod_eq_emod_of_nonneg _ (by omega)]
  by_cases hq2 : q = n - 2
  · have : ((n + q : Nat) : Int) = 0 + (2 * (n : Int) - 2) := by omega
    rw [this, ← Int.emod_eq_add_self_emod, Int.zero_emod]
    simp only [Int.toNat_zero]
    split <;> omega
  · rw [Int.emod_eq_of_lt (by omega) (by omega)]
    simp only [Int.toNat_natCast]; split <;> omega

theorem piece_eq {α} (d : α) (ys : List α) (L : Nat) (f : Nat → α) (hlen : ys.length = L)
    (h : ∀ j, j < L → ys.getD j d = f j) : ys = (List.range L).map f := by
  subst hlen; exact eq_map_range d ys f h

/-- the data itself, position by position -/
theorem self_eq_map_range {α} [Inhabited α] (xs : List α) :
    xs = (List.range xs.length).map (fun i => xs.getD i default) :=
  eq_map_range default xs _ (fun _ _ => rfl)


/-! proofs -/
theorem mem_insertP (a x : Nat × Nat) : ∀ l, x ∈ insertP a l ↔ x = a ∨ x ∈ l
  | [] => by simp [insertP]
  | b :: l => by
    unfold insertP; split
    · simp
    · simp only [List.mem_cons, mem_insertP a x l]
      constructor <;> intro h <;> rcases h with h | h | h <;> simp [h]

theorem length_insertP (a : Nat × Nat) : ∀ l, (insertP a l).length = l.length + 1
  | [] => rfl
  | b :: l => by unfold insertP; split <;> simp [length_insertP a l]

theorem mem_sortPairs_aux (x : Nat × Nat) : ∀ (l : List (Nat × Nat)), x ∈ l.foldr insertP [] ↔ x ∈ l
  | [] => by simp
  | a :: l => by simp only [List.foldr_cons, mem_insertP, mem_sortPairs_aux x l, List.mem_cons]

theorem length_sortPairs_aux : ∀ (l : List (Nat × Nat)), (l.foldr insertP []).length = l.length
  | [] => rfl
  | a :: l => by simp only [List.foldr_cons, length_insertP, length_sortPairs_aux l, List.length_cons]

theorem mem_sortPairs (T : List Nat) (x : Nat × Nat) : x ∈ sortPairs T ↔ T[x.2]? = some x.1 := by
  unfold sortPairs; rw [mem_sortPairs_aux, List.mem_zipIdx_iff_getElem?]

theorem length_sortPairs (T : List Nat) : (sortPairs T).length = T.length := by
  unfold sortPairs; rw [length_sortPairs_aux, List.length_zipIdx]

theorem runsBy_flatten (key : Nat → Nat) : ∀ l, (runsBy key l).flatMap (·.2) = l
  | [] => rfl
  | g :: gs => by
    have ih := runsBy_flatten key gs
    unfold runsBy
    cases h : runsBy key gs with
    | nil => rw [h] at ih; simp at ih; subst ih; simp
    | cons kr rest =>
      obtain ⟨k, run⟩ := kr
      rw [h] at ih
      simp only
      split
      · simp only [List.flatMap_cons] at ih ⊢; rw [← ih]; simp
      · simp only [List.flatMap_cons] at ih ⊢; rw [← ih]; simp

theorem runsBy_key (key : Nat → Nat) : ∀ l, ∀ cr ∈ runsBy key l, ∀ g ∈ cr.2, key g = cr.1
  | [], cr, h, _, _ => by simp [runsBy] at h
  | g :: gs, cr, h, g', hg' => by
    have ih := runsBy_key key gs
    unfold runsBy at h
    cases hr : runsBy key gs with
    | nil =>
      rw [hr] at h; simp at h; subst h; simp at hg'; subst hg'; rfl
    | cons kr rest =>
      obtain ⟨k, run⟩ := kr
      rw [hr] at h ih
      simp only at h
      split at h
      · rename_i hk
        rcases List.mem_cons.1 h with h | h
        · subst h
          rcases List.mem_cons.1 hg' with h2 | h2
          · subst h2; exact hk
          · exact ih (k, run) (by simp) g' h2
        · exact ih cr (by simp [h]) g' hg'
      · rcases List.mem_cons.1 h with h | h
        · subst h; simp at hg'; subst hg'; rfl
        · exact ih cr h g' hg'

/-- reading global index `g` through the block decomposition -/
theorem block_read {α} [Inhabited α] (old : List Nat) (xs : List α) (g : Nat) (hg : g < sum old) :
    ((splitBy old xs).getD (sourceOf old g) []).getD (g - blockStart old (sourceOf old g)) default = xs.getD g default := by
  obtain ⟨b, o, hb⟩ := blockOf_some hg
  obtain ⟨c, hc, ho, hs⟩ := blockOf_spec hb
  have hsrc : sourceOf old g = b := by simp [sourceOf, hb]
  rw [hsrc, splitBy_getD old xs b c hc]
  have : g - blockStart old b = o := by omega
  rw [this]
  simp only [List.getD_eq_getElem?_getD, List.getElem?_take, ho, if_true, List.getElem?_drop, hs]

theorem flatMap_congr' {β γ} {f g : β → List γ} : ∀ {l : List β}, (∀ x ∈ l, f x = g x) → l.flatMap f = l.flatMap g
  | [], _ => rfl
  | a :: l, h => by
    simp only [List.flatMap_cons]
    rw [h a (by simp), flatMap_congr' (fun x hx => h x (by simp [hx]))]


theorem packGroups_spec (limit tn td : Nat) : ∀ (groups : List (List Nat)) (cur : List Nat),
    (packGroups limit tn td cur groups).flatten = cur ++ groups.flatten ∧
    ∀ c ∈ packGroups limit tn td cur groups, c ≠ []
  | [], cur => by
    unfold packGroups
    split
    · rename_i h
      exact ⟨by simp, fun c hc => by simp at hc; subst hc; intro h0; subst h0; simp at h⟩
    · rename_i h
      have : cur = [] := List.eq_nil_of_length_eq_zero (by omega)
      subst this; exact ⟨by simp, by simp⟩
  | idx :: rest, cur => by
    unfold packGroups
    split
    · rename_i h
      obtain ⟨i1, i2⟩ := packGroups_spec limit tn td rest idx
      refine ⟨by simp [i1], fun c hc => ?_⟩
      rcases List.mem_cons.1 hc with rfl | hc
      · intro h0; subst h0; simp at h
      · exact i2 c hc
    · split
      · rename_i h
        obtain ⟨i1, i2⟩ := packGroups_spec limit tn td rest []
        refine ⟨by simp [i1], fun c hc => ?_⟩
        rcases List.mem_cons.1 hc with rfl | hc
        · intro h0; rw [h0] at h; simp at h
        · exact i2 c hc
      · obtain ⟨i1, i2⟩ := packGroups_spec limit tn td rest (cur ++ idx)
        exact ⟨by simp [i1], i2⟩


theorem reshape_merge_ones_aux {α} (cc : List Nat) : ∀ (rows : List (List α)), (∀ r ∈ rows, r.length = sum cc) →
    reshapeMergeOnesBlocks cc rows = splitBy ((List.replicate rows.length cc).flatten) rows.flatten
  | [], _ => by simp [reshapeMergeOnesBlocks, splitBy]
  | r :: rows, h => by
    have ih := reshape_merge_ones_aux cc rows (fun r hr => h r (by simp [hr]))
    unfold reshapeMergeOnesBlocks at ih ⊢
    simp only [List.flatMap_cons, List.length_cons, List.replicate_succ, List.flatten_cons]
    rw [splitBy_append cc _ r rows.flatten (h r (by simp)), ih]


end Dask.Structural
