import DaskModel.Lemmas.PartQuantPvw
/-! Lemmas about `Model/PartQuant.lean`, part 3: `tree_groups`, the merge tree of `RepartitionQuantiles`. -/
namespace Dask.PQ

/-! ### Bresenham: `tree_groups(N, g)` has `g` entries that add up to `N` -/

theorem tgLoop_sum (gs : Nat) (dx dy : Int) (hdy0 : 0 ≤ dy) (hdy : dy ≤ dx) :
    ∀ (m : Nat) (D : Int), 2 * dy - 2 * dx ≤ D → D < 2 * dy →
      ∃ k : Nat, (tgLoop gs dx dy m D).sum = gs * m + k ∧ (tgLoop gs dx dy m D).length = m ∧
        2 * dy - 2 * dx ≤ D + 2 * dy * (m : Int) - 2 * dx * (k : Int) ∧
        D + 2 * dy * (m : Int) - 2 * dx * (k : Int) < 2 * dy := by
  intro m
  induction m with
  | zero => intro D h1 h2; exact ⟨0, by simp [tgLoop], by simp [tgLoop], by simpa using h1, by simpa using h2⟩
  | succ m ih =>
    intro D h1 h2
    unfold tgLoop
    split
    · rename_i hneg
      obtain ⟨k, hs, hl, hb1, hb2⟩ := ih (D + 2 * dy) (by linarith) (by linarith)
      refine ⟨k, ?_, by simp [hl], ?_, ?_⟩
      · simp only [List.sum_cons, hs]; rw [Nat.mul_succ]; omega
      · push_cast; linarith
      · push_cast; linarith
    · rename_i hnn
      obtain ⟨k, hs, hl, hb1, hb2⟩ := ih (D - 2 * dx + 2 * dy) (by linarith) (by linarith)
      refine ⟨k + 1, ?_, by simp [hl], ?_, ?_⟩
      · simp only [List.sum_cons, hs]; rw [Nat.mul_succ]; omega
      · push_cast; linarith
      · push_cast; linarith

theorem treeGroups_spec {N g : Nat} {l : List Nat} (h : treeGroups N g = some l) : l.sum = N ∧ l.length = g := by
  unfold treeGroups at h
  split at h
  · cases h
  · rename_i hg
    simp only [Option.some.injEq] at h
    have hgpos : 0 < g := Nat.pos_of_ne_zero hg
    have hmod : N / g * g + N % g = N := by rw [Nat.mul_comm]; exact Nat.div_add_mod N g
    have hlt : N % g < g := Nat.mod_lt N hgpos
    have hdy : ((N : Int) - ((N / g * g : Nat) : Int)) = ((N % g : Nat) : Int) := by omega
    rw [hdy] at h
    obtain ⟨k, hs, hl, hb1, hb2⟩ := tgLoop_sum (N / g) (g : Int) ((N % g : Nat) : Int) (by omega) (by omega) g
      (2 * ((N % g : Nat) : Int) - g) (by omega) (by omega)
    rw [h] at hs hl
    refine ⟨?_, hl⟩
    -- 2dy - 2g ≤ 2dy - g + 2g(dy - k) < 2dy  forces  k = dy
    have hk : (k : Int) = ((N % g : Nat) : Int) := by
      have hg' : (0 : Int) < g := by omega
      rcases Int.lt_trichotomy (k : Int) ((N % g : Nat) : Int) with hlt' | heq | hgt'
      · exfalso
        have : (g : Int) * ((k : Int) + 1) ≤ g * ((N % g : Nat) : Int) := Int.mul_le_mul_of_nonneg_left (by omega) (by omega)
        nlinarith
      · exact heq
      · exfalso
        have : (g : Int) * (((N % g : Nat) : Int) + 1) ≤ g * (k : Int) := Int.mul_le_mul_of_nonneg_left (by omega) (by omega)
        nlinarith
    have hk' : k = N % g := by omega
    rw [hs, hk']; exact hmod

/-! ### one level, all levels -/

theorem length_treeLevel (gs : List Nat) (xs : List Summary) : (treeLevel gs xs).length = gs.length := by
  induction gs generalizing xs with
  | nil => rfl
  | cons g gs ih => simp [treeLevel, ih]

theorem treeLevel_strict (gs : List Nat) (xs : List Summary) (hs : ∀ x ∈ xs, ValSorted x) :
    ∀ y ∈ treeLevel gs xs, StrictVals y := by
  induction gs generalizing xs with
  | nil => intro y hy; simp [treeLevel] at hy
  | cons g gs ih =>
    intro y hy
    simp only [treeLevel, List.mem_cons] at hy
    rcases hy with rfl | hy
    · exact mac_strict _ (fun s h => hs s (List.mem_of_mem_take h))
    · exact ih (xs.drop g) (fun s h => hs s (List.mem_of_mem_drop h)) y hy

theorem treeLevel_pos (gs : List Nat) (xs : List Summary) (hp : ∀ x ∈ xs, PosW x) :
    ∀ y ∈ treeLevel gs xs, PosW y := by
  induction gs generalizing xs with
  | nil => intro y hy; simp [treeLevel] at hy
  | cons g gs ih =>
    intro y hy
    simp only [treeLevel, List.mem_cons] at hy
    rcases hy with rfl | hy
    · exact mac_pos _ (fun s h => hp s (List.mem_of_mem_take h))
    · exact ih (xs.drop g) (fun s h => hp s (List.mem_of_mem_drop h)) y hy

theorem treeLevel_vals (gs : List Nat) (xs : List Summary) (v : Int) :
    (∃ y ∈ treeLevel gs xs, v ∈ vals y) ↔ ∃ x ∈ xs.take gs.sum, v ∈ vals x := by
  induction gs generalizing xs with
  | nil => simp [treeLevel]
  | cons g gs ih =>
    simp only [treeLevel, List.sum_cons]
    have hsplit : (∃ y ∈ mergeAndCompress (xs.take g) :: treeLevel gs (xs.drop g), v ∈ vals y) ↔
        (v ∈ vals (mergeAndCompress (xs.take g)) ∨ ∃ y ∈ treeLevel gs (xs.drop g), v ∈ vals y) := by
      constructor
      · rintro ⟨y, hy, hv⟩
        rcases List.mem_cons.mp hy with rfl | hy
        · exact Or.inl hv
        · exact Or.inr ⟨y, hy, hv⟩
      · rintro (h | ⟨y, hy, hv⟩)
        · exact ⟨_, by simp, h⟩
        · exact ⟨y, List.mem_cons_of_mem _ hy, hv⟩
    rw [hsplit, mem_vals_mac, ih (xs.drop g), List.take_add]
    constructor
    · rintro (⟨x, hx, hv⟩ | ⟨x, hx, hv⟩)
      · exact ⟨x, List.mem_append.mpr (Or.inl hx), hv⟩
      · exact ⟨x, List.mem_append.mpr (Or.inr hx), hv⟩
    · rintro ⟨x, hx, hv⟩
      rcases List.mem_append.mp hx with h | h
      · exact Or.inl ⟨x, h, hv⟩
      · exact Or.inr ⟨x, h, hv⟩

theorem treeReduce_strict : ∀ (ws : List Nat) (xs out : List Summary), treeReduce ws xs = some out →
    (∀ x ∈ xs, ValSorted x) → ((∀ x ∈ xs, StrictVals x) ∨ 1 < xs.length) → ∀ y ∈ out, StrictVals y := by
  intro ws
  induction ws with
  | nil =>
    intro xs out h hs hor
    unfold treeReduce at h
    split at h
    · cases h
      rcases hor with h1 | h1
      · exact h1
      · omega
    · cases h
  | cons w ws ih =>
    intro xs out h hs hor
    unfold treeReduce at h
    split at h
    · cases h
      rcases hor with h1 | h1
      · exact h1
      · omega
    · simp only at h
      split at h
      · cases h
      · rename_i gs hgs
        have hg := treeLevel_strict gs xs hs
        exact ih (treeLevel gs xs) out h (fun y hy => (hg y hy).valSorted) (Or.inl hg)

theorem treeReduce_pos : ∀ (ws : List Nat) (xs out : List Summary), treeReduce ws xs = some out →
    (∀ x ∈ xs, PosW x) → ∀ y ∈ out, PosW y := by
  intro ws
  induction ws with
  | nil =>
    intro xs out h hp
    unfold treeReduce at h
    split at h
    · cases h; exact hp
    · cases h
  | cons w ws ih =>
    intro xs out h hp
    unfold treeReduce at h
    split at h
    · cases h; exact hp
    · simp only at h
      split at h
      · cases h
      · rename_i gs hgs
        exact ih (treeLevel gs xs) out h (treeLevel_pos gs xs hp)

theorem treeReduce_vals : ∀ (ws : List Nat) (xs out : List Summary), treeReduce ws xs = some out →
    ∀ v, (∃ y ∈ out, v ∈ vals y) ↔ ∃ x ∈ xs, v ∈ vals x := by
  intro ws
  induction ws with
  | nil =>
    intro xs out h v
    unfold treeReduce at h
    split at h
    · cases h; exact Iff.rfl
    · cases h
  | cons w ws ih =>
    intro xs out h v
    unfold treeReduce at h
    split at h
    · cases h; exact Iff.rfl
    · simp only at h
      split at h
      · cases h
      · rename_i gs hgs
        rw [ih (treeLevel gs xs) out h v, treeLevel_vals, (treeGroups_spec hgs).1, List.take_length]

theorem mergedSummary_spec {widths : List Nat} {parts : List Summary} {s : Summary}
    (h : mergedSummary widths parts = some s) (hs : ∀ x ∈ parts, ValSorted x) :
    StrictVals s ∧ (∀ v, v ∈ vals s ↔ ∃ x ∈ parts, v ∈ vals x) ∧ ((∀ x ∈ parts, PosW x) → PosW s) := by
  unfold mergedSummary at h
  split at h
  · cases h
  · rename_i p
    cases h
    exact ⟨mac_strict _ hs, fun v => mem_vals_mac _ v, fun hp => mac_pos _ hp⟩
  · rename_i hne1 hne2
    split at h
    · rename_i s' hred
      cases h
      have hlen : 1 < parts.length := by
        match parts, hne1, hne2 with
        | [], h1, _ => exact absurd rfl h1
        | [p], _, h2 => exact absurd rfl (h2 p)
        | _ :: _ :: _, _, _ => simp
      refine ⟨treeReduce_strict _ _ _ hred hs (Or.inr hlen) s (by simp), fun v => ?_,
        fun hp => treeReduce_pos _ _ _ hred hp s (by simp)⟩
      rw [← treeReduce_vals _ _ _ hred v]
      simp
    · cases h

/-! ### unfolding helpers for `Props/C45xQuantiles.lean` -/

theorem dupIndex_length {L m : Nat} {idx : List Nat} (h : dupIndex L m = some idx) : idx.length = m := by
  unfold dupIndex at h
  split at h
  · rename_i h0; cases h; simp [h0]
  · split at h
    · rename_i h1; cases h; simp [h1]
    · unfold Repart.splitPositions at h
      split at h
      · cases h
      · cases h; simp; omega

theorem undersampled_ok {s : Summary} {n : Nat} {numeric : Bool} {d : List Int} (h : undersampled s n numeric = .ok d) :
    ∃ dv, d = sortInts (vals s ++ dv) ∧ (∀ b ∈ dv, b ∈ vals s) ∧ dv.length = n - s.length + 1 := by
  unfold undersampled at h
  split at h
  · cases h
  · simp only at h
    split at h
    · cases h
    · rename_i idx hidx
      split at h
      · cases h
      · rename_i dv hdv
        injection h with h
        obtain ⟨h1, h2, _⟩ := mapM_some hdv
        refine ⟨dv, h.symm, ?_, ?_⟩
        · intro b hb
          obtain ⟨i, _, hi⟩ := h2 b hb
          exact List.mem_of_getElem? hi
        · rw [h1, dupIndex_length hidx]; simp

theorem oversampled_ok {s : Summary} {n : Nat} {d : List Int} (h : oversampled s n = .ok d) :
    ((s.filter (isJumbo ((s.map (·.2)).sum) n)).length ≤ n) ∧
    ∃ trimmed, pickTrimmed (s.filter (fun p => !isJumbo ((s.map (·.2)).sum) n p))
        (n - (s.filter (isJumbo ((s.map (·.2)).sum) n)).length) = some trimmed ∧
      d = sortInts (trimmed ++ (s.filter (isJumbo ((s.map (·.2)).sum) n)).map (·.1)) := by
  unfold oversampled at h
  simp only [List.length_map] at h
  split at h
  · cases h
  · rename_i hle
    split at h
    · cases h
    · rename_i trimmed htr
      injection h with h
      exact ⟨by omega, trimmed, htr, h.symm⟩

theorem filter_vals_sub (p : P → Bool) (s : Summary) : ∀ x ∈ vals (s.filter p), x ∈ vals s := by
  intro x hx
  obtain ⟨q, hq, rfl⟩ := mem_vals.mp hx
  exact mem_vals.mpr ⟨q, (List.mem_filter.mp hq).1, rfl⟩

theorem head?_filter_of_pos {p : P → Bool} {s : Summary} {a : P} (h : s.head? = some a) (ha : p a = true) :
    (s.filter p).head? = some a := by
  obtain ⟨ys, rfl⟩ := List.head?_eq_some_iff.mp h
  simp [List.filter_cons_of_pos ha]

theorem getLast?_filter_of_pos {p : P → Bool} {s : Summary} {a : P} (h : s.getLast? = some a) (ha : p a = true) :
    (s.filter p).getLast? = some a := by
  obtain ⟨ys, rfl⟩ := List.getLast?_eq_some_iff.mp h
  rw [List.filter_append]
  simp [ha]

theorem rq_unfold {widths : List Nat} {parts : List Summary} {n : Nat} {numeric : Bool} {d : List Int}
    (h : repartitionQuantiles widths parts n numeric = .ok d) :
    ∃ s, mergedSummary widths parts = some s ∧ processValWeights s n numeric = .ok d := by
  unfold repartitionQuantiles at h
  split at h
  · cases h
  · rename_i s hs; exact ⟨s, hs, h⟩

end Dask.PQ
