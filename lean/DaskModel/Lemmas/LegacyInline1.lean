import DaskModel.Lemmas.Subs
/-! C09 extension round, part 1: the operational legacy semantics (`evalKeyL`) on DAGs — monotone in the fuel, stable
beyond the rank, a solution of the graph's equations; transfer of values between graphs with the same solutions; deleting
a set of unreferenced keys. -/
namespace Dask.TaskTerm

/-- some recursion depth of the legacy denotation yields `v` -/
def ComputesL (g : LGraph) (cache : Obj → Option Obj) (k v : Obj) : Prop :=
  ∃ fuel, evalKeyL g (g.map Prod.fst) cache fuel k = some v

/-- `rank` decreases along the references of the graph: the graph is a DAG -/
def DagL (g : LGraph) (rank : Obj → Nat) : Prop :=
  ∀ k t, g.lookup k = some t → ∀ d ∈ legacyRefs (g.map Prod.fst) t, rank d < rank k

mutual
theorem evalObj_mono (K : List Obj) (env env' : Obj → Option Obj) (hle : ∀ k v, env k = some v → env' k = some v) :
    ∀ o v, evalObj K env o = some v → evalObj K env' o = some v
  | .tuple (h :: args), v, hv => by
    by_cases hc : h.callable = true
    · simp only [evalObj, hc, if_true] at hv ⊢
      cases ha : evalObjs K env args with
      | none => rw [ha] at hv; cases hv
      | some as =>
        rw [ha] at hv
        rw [evalObjs_mono K env env' hle args as ha]
        exact hv
    · simp only [evalObj, hc, Bool.false_eq_true, if_false] at hv ⊢
      split at hv
      · rename_i hi; simp only [hi, if_true]; exact hle _ _ hv
      · rename_i hi; simp only [hi, Bool.false_eq_true, if_false]; exact hv
  | .tuple [], v, hv => by
    simp only [evalObj] at hv ⊢
    split at hv
    · rename_i hi; simp only [hi, if_true]; exact hle _ _ hv
    · rename_i hi; simp only [hi, Bool.false_eq_true, if_false]; exact hv
  | .list xs, v, hv => by
    simp only [evalObj] at hv ⊢
    cases ha : evalObjs K env xs with
    | none => rw [ha] at hv; cases hv
    | some as => rw [ha] at hv; rw [evalObjs_mono K env env' hle xs as ha]; exact hv
  | .dict kvs, v, hv => by
    simp only [evalObj] at hv ⊢
    cases ha : evalVals K env kvs with
    | none => rw [ha] at hv; cases hv
    | some as => rw [ha] at hv; rw [evalVals_mono K env env' hle kvs as ha]; exact hv
  | .int n, v, hv => by
    simp only [evalObj] at hv ⊢
    split at hv
    · rename_i hi; simp only [hi, if_true]; exact hle _ _ hv
    · rename_i hi; simp only [hi, Bool.false_eq_true, if_false]; exact hv
  | .str s, v, hv => by
    simp only [evalObj] at hv ⊢
    split at hv
    · rename_i hi; simp only [hi, if_true]; exact hle _ _ hv
    · rename_i hi; simp only [hi, Bool.false_eq_true, if_false]; exact hv
  | .none, v, hv => by simpa [evalObj] using hv
  | .fn _, v, hv => by simpa [evalObj] using hv
  | .quoted _, v, hv => by simpa [evalObj] using hv
  | .app _ _ _, v, hv => by simpa [evalObj] using hv
theorem evalObjs_mono (K : List Obj) (env env' : Obj → Option Obj) (hle : ∀ k v, env k = some v → env' k = some v) :
    ∀ xs vs, evalObjs K env xs = some vs → evalObjs K env' xs = some vs
  | [], vs, hv => by simpa [evalObjs] using hv
  | x :: xs, vs, hv => by
    simp only [evalObjs] at hv ⊢
    cases h1 : evalObj K env x with
    | none => rw [h1] at hv; cases hv
    | some v1 =>
      cases h2 : evalObjs K env xs with
      | none => rw [h1, h2] at hv; cases hv
      | some v2 =>
        rw [h1, h2] at hv
        rw [evalObj_mono K env env' hle x v1 h1, evalObjs_mono K env env' hle xs v2 h2]
        exact hv
theorem evalVals_mono (K : List Obj) (env env' : Obj → Option Obj) (hle : ∀ k v, env k = some v → env' k = some v) :
    ∀ kvs vs, evalVals K env kvs = some vs → evalVals K env' kvs = some vs
  | [], vs, hv => by simpa [evalVals] using hv
  | (k, x) :: xs, vs, hv => by
    simp only [evalVals] at hv ⊢
    cases h1 : evalObj K env x with
    | none => rw [h1] at hv; cases hv
    | some v1 =>
      cases h2 : evalVals K env xs with
      | none => rw [h1, h2] at hv; cases hv
      | some v2 =>
        rw [h1, h2] at hv
        rw [evalObj_mono K env env' hle x v1 h1, evalVals_mono K env env' hle xs v2 h2]
        exact hv
end

theorem evalKeyL_mono_succ (g : LGraph) (K : List Obj) (cache : Obj → Option Obj) :
    ∀ n k v, evalKeyL g K cache n k = some v → evalKeyL g K cache (n + 1) k = some v
  | 0, k, v, h => by simp [evalKeyL] at h
  | n + 1, k, v, h => by
    unfold evalKeyL at h ⊢
    cases hl : g.lookup k with
    | none => rw [hl] at h; exact h
    | some t =>
      rw [hl] at h
      exact evalObj_mono K _ _ (fun k' v' h' => evalKeyL_mono_succ g K cache n k' v' h') t v h

theorem evalKeyL_mono_le (g : LGraph) (K : List Obj) (cache : Obj → Option Obj) (n m : Nat) (hnm : n ≤ m) (k v : Obj)
    (h : evalKeyL g K cache n k = some v) : evalKeyL g K cache m k = some v := by
  induction hnm with
  | refl => exact h
  | step _ ih => exact evalKeyL_mono_succ g K cache _ k v ih

/-- beyond the rank of a key, more fuel changes nothing -/
theorem evalKeyL_stable (g : LGraph) (hKt : ∀ k ∈ g.map Prod.fst, k.keyTyped = true) (cache : Obj → Option Obj)
    (rank : Obj → Nat) (hdag : DagL g rank) :
    ∀ r k, rank k ≤ r → ∀ n, rank k < n →
      evalKeyL g (g.map Prod.fst) cache n k = evalKeyL g (g.map Prod.fst) cache (rank k + 1) k := by
  intro r
  induction r with
  | zero =>
    intro k hk n hn
    cases n with
    | zero => omega
    | succ n' =>
      unfold evalKeyL
      cases hl : g.lookup k with
      | none => rfl
      | some t =>
        simp only
        apply evalObj_congr_refs _ hKt
        intro d hd
        have := hdag k t hl d hd
        omega
  | succ r ih =>
    intro k hk n hn
    cases n with
    | zero => omega
    | succ n' =>
      unfold evalKeyL
      cases hl : g.lookup k with
      | none => rfl
      | some t =>
        simp only
        apply evalObj_congr_refs _ hKt
        intro d hd
        have hlt := hdag k t hl d hd
        rw [ih d (by omega) n' (by omega), ih d (by omega) (rank k) hlt]

/-- the value of a key at the depth given by its rank -/
def canonL (g : LGraph) (cache : Obj → Option Obj) (rank : Obj → Nat) (k : Obj) : Option Obj :=
  evalKeyL g (g.map Prod.fst) cache (rank k + 1) k

theorem canonL_solution (g : LGraph) (hKt : ∀ k ∈ g.map Prod.fst, k.keyTyped = true) (cache : Obj → Option Obj)
    (rank : Obj → Nat) (hdag : DagL g rank) : Solution g (g.map Prod.fst) cache (canonL g cache rank) := by
  intro k
  unfold canonL
  conv => lhs; unfold evalKeyL
  cases hl : g.lookup k with
  | none => rfl
  | some t =>
    simp only
    apply evalObj_congr_refs _ hKt
    intro d hd
    have hlt := hdag k t hl d hd
    exact evalKeyL_stable g hKt cache rank hdag (rank d) d (Nat.le_refl _) (rank k) hlt

theorem computesL_iff_canon (g : LGraph) (hKt : ∀ k ∈ g.map Prod.fst, k.keyTyped = true) (cache : Obj → Option Obj)
    (rank : Obj → Nat) (hdag : DagL g rank) (k v : Obj) :
    ComputesL g cache k v ↔ canonL g cache rank k = some v := by
  constructor
  · rintro ⟨fuel, h⟩
    have h' := evalKeyL_mono_le g _ cache fuel (fuel + (rank k + 1)) (by omega) k v h
    unfold canonL
    rw [← evalKeyL_stable g hKt cache rank hdag (rank k) k (Nat.le_refl _) (fuel + (rank k + 1)) (by omega)]
    exact h'
  · intro h; exact ⟨_, h⟩

/-- **Two DAGs (same rank) such that every solution of the first solves the second compute the same values.** -/
theorem computesL_transfer (g h : LGraph) (hKg : ∀ k ∈ g.map Prod.fst, k.keyTyped = true)
    (hKh : ∀ k ∈ h.map Prod.fst, k.keyTyped = true) (rank : Obj → Nat) (hdg : DagL g rank) (hdh : DagL h rank)
    (cache : Obj → Option Obj)
    (hsol : ∀ ρ, Solution g (g.map Prod.fst) cache ρ → Solution h (h.map Prod.fst) cache ρ) (k v : Obj) :
    ComputesL h cache k v ↔ ComputesL g cache k v := by
  rw [computesL_iff_canon g hKg cache rank hdg, computesL_iff_canon h hKh cache rank hdh]
  have := solution_unique h _ hKh cache rank hdh _ _ (hsol _ (canonL_solution g hKg cache rank hdg))
    (canonL_solution h hKh cache rank hdh) k
  rw [this]

/-! ### deleting a set of keys nobody refers to -/

theorem lookup_filterKeys (g : LGraph) (D : List Obj) (k : Obj) :
    (g.filter fun kv => !D.contains kv.1).lookup k = if D.contains k = true then none else g.lookup k := by
  induction g with
  | nil => simp
  | cons kv rest ih =>
    obtain ⟨k', v'⟩ := kv
    by_cases hD : D.contains k' = true
    · rw [List.filter_cons]
      simp only [hD, Bool.not_true, Bool.false_eq_true, if_false, ih, List.lookup]
      by_cases hk : (k == k') = true
      · have : k = k' := eq_of_beq hk
        subst this
        rw [if_pos hD, if_pos hD]
      · have hk' : (k == k') = false := by simpa using hk
        rw [hk']
    · have hD' : D.contains k' = false := by simpa using hD
      rw [List.filter_cons]
      simp only [hD', Bool.not_false, if_true, List.lookup]
      by_cases hk : (k == k') = true
      · have : k = k' := eq_of_beq hk
        subst this
        rw [if_neg hD]
        simp
      · have hk' : (k == k') = false := by simpa using hk
        simp only [hk', ih]

theorem keys_filterKeys (g : LGraph) (D : List Obj) :
    (g.filter fun kv => !D.contains kv.1).map Prod.fst = (g.map Prod.fst).filter (fun x => !D.contains x) := by
  induction g with
  | nil => rfl
  | cons kv rest ih =>
    by_cases hD : D.contains kv.1 = true
    · rw [List.filter_cons, List.map_cons, List.filter_cons]
      simp only [hD, Bool.not_true, Bool.false_eq_true, if_false, ih]
    · have hD' : D.contains kv.1 = false := by simpa using hD
      rw [List.filter_cons, List.map_cons, List.filter_cons]
      simp only [hD', Bool.not_false, if_true, List.map_cons, ih]

/-- **Deleting keys that no remaining entry refers to keeps every other value.** -/
theorem drop_keys_computes (g : LGraph) (hKt : ∀ k ∈ g.map Prod.fst, k.keyTyped = true) (rank : Obj → Nat)
    (hdag : DagL g rank) (D : List Obj)
    (hunref : ∀ k t, g.lookup k = some t → k ∉ D → ∀ d ∈ legacyRefs (g.map Prod.fst) t, d ∉ D)
    (cache : Obj → Option Obj) (k v : Obj) (hk : k ∉ D) :
    ComputesL (g.filter fun kv => !D.contains kv.1) cache k v ↔ ComputesL g cache k v := by
  have hK' : (g.filter fun kv => !D.contains kv.1).map Prod.fst = (g.map Prod.fst).filter (fun x => !D.contains x) :=
    keys_filterKeys g D
  have hsub : ∀ x ∈ (g.map Prod.fst).filter (fun x => !D.contains x), x ∈ g.map Prod.fst :=
    fun x hx => (List.mem_filter.mp hx).1
  have hKt' : ∀ x ∈ (g.filter fun kv => !D.contains kv.1).map Prod.fst, x.keyTyped = true := by
    rw [hK']; exact fun x hx => hKt x (hsub x hx)
  have hrefs : ∀ k t, g.lookup k = some t → k ∉ D →
      ∀ d ∈ legacyRefs (g.map Prod.fst) t, d ∈ (g.map Prod.fst).filter (fun x => !D.contains x) := by
    intro k t hl hkD d hd
    rw [List.mem_filter]
    refine ⟨legacyRefs_mem _ t d hd, ?_⟩
    have := hunref k t hl hkD d hd
    simpa using this
  have hdag' : DagL (g.filter fun kv => !D.contains kv.1) rank := by
    intro k t hl d hd
    rw [lookup_filterKeys] at hl
    split at hl
    · cases hl
    · rename_i hkD
      have hkD' : k ∉ D := by simpa using hkD
      rw [hK', legacyRefs_restrict _ _ hsub t (hrefs k t hl hkD')] at hd
      exact hdag k t hl d hd
  rw [computesL_iff_canon g hKt cache rank hdag, computesL_iff_canon _ hKt' cache rank hdag']
  -- the canonical solution of `g`, with the deleted keys read from the cache, solves the smaller graph
  have hsol : Solution (g.filter fun kv => !D.contains kv.1) ((g.filter fun kv => !D.contains kv.1).map Prod.fst) cache
      (fun x => if D.contains x = true then cache x else canonL g cache rank x) := by
    intro x
    rw [lookup_filterKeys]
    by_cases hx : D.contains x = true
    · simp only [hx, if_true]
    · simp only [hx, Bool.false_eq_true, if_false]
      have hxD : x ∉ D := by simpa using hx
      have hs := canonL_solution g hKt cache rank hdag x
      cases hl : g.lookup x with
      | none => rw [hl] at hs; exact hs
      | some t =>
        rw [hl] at hs
        simp only
        rw [hs, hK']
        symm
        apply evalObj_restrict _ _ _ _ hsub hKt _ t (hrefs x t hl hxD)
        intro d hd
        have hdD : D.contains d = false := by
          have := (List.mem_filter.mp hd).2
          simpa using this
        show (if D.contains d = true then cache d else canonL g cache rank d) = canonL g cache rank d
        rw [hdD]; rfl
  have := solution_unique _ _ hKt' cache rank hdag' _ _ hsol (canonL_solution _ hKt' cache rank hdag') k
  have hkD : D.contains k = false := by simpa using hk
  simp only [hkD, Bool.false_eq_true, if_false] at this
  rw [← this]

end Dask.TaskTerm
