import DaskModel.Lemmas.Match
import DaskModel.Lemmas.MatchWalk
/-!
C51, part 2: what the walk finds (`walk_spec`), that a genuine instance of a rule's left-hand side is found
(`pathMatch_of_inst`), and that `_process_match` rebuilds the substitution from the bindings (`processGo_complete`).
-/
namespace Dask.Match

/-- `path` consumes the pending terms `S` (exact edges descend into a term, `VAR` edges skip and bind a whole term),
    producing the bindings `ms` in order -/
inductive PathMatch : List Edge → List Term → List Term → Prop
  | nil : PathMatch [] [] []
  | sym (t : Term) (rest : List Term) (p : List Edge) (ms : List Term) :
      PathMatch p (t.args ++ rest) ms → PathMatch (.sym t.head :: p) (t :: rest) ms
  | var (t : Term) (rest : List Term) (p : List Edge) (ms : List Term) :
      PathMatch p rest ms → PathMatch (.var :: p) (t :: rest) (t :: ms)

theorem nonempty_of_mem {α : Type} (l : List α) (a : α) (h : a ∈ l) : l.isEmpty = false := by
  cases l with
  | nil => cases h
  | cons _ _ => rfl

/-- **What the walk yields**: rule index `i` appears in a yield with bindings `m` iff some path of the net labelled
`i` consumes the pending terms with exactly those bindings. -/
theorem walk_spec (N : Net) (S : Trav) (m0 : List Term) (i : Nat) (m : List Term) :
    (∃ y ∈ walk N S m0, i ∈ y.1 ∧ y.2 = m) ↔ ∃ path ms, (path, i) ∈ N ∧ PathMatch path S ms ∧ m = m0 ++ ms := by
  induction N, S, m0 using walk.induct generalizing m with
  | case1 N m0 =>
    rw [walk]
    simp only [List.mem_singleton, exists_eq_left, mem_patterns]
    constructor
    · rintro ⟨hi, rfl⟩
      exact ⟨[], [], hi, PathMatch.nil, by simp⟩
    · rintro ⟨path, ms, hp, hm, rfl⟩
      cases hm
      exact ⟨hp, by simp⟩
  | case2 N m0 t rest ih1 ih2 =>
    rw [walk]
    simp only [List.mem_append]
    constructor
    · rintro ⟨y, hy | hy, hi, rfl⟩
      · by_cases h : (N.child (.sym t.head)).isEmpty = false
        · rw [dif_pos h] at hy
          obtain ⟨path, ms, hp, hm, he⟩ := (ih1 h y.2).mp ⟨y, hy, hi, rfl⟩
          exact ⟨.sym t.head :: path, ms, (mem_child _ _ _ _).mp hp, PathMatch.sym _ _ _ _ hm, he⟩
        · rw [dif_neg h] at hy; cases hy
      · by_cases h : (N.child .var).isEmpty = false
        · rw [dif_pos h] at hy
          obtain ⟨path, ms, hp, hm, he⟩ := (ih2 h y.2).mp ⟨y, hy, hi, rfl⟩
          exact ⟨.var :: path, t :: ms, (mem_child _ _ _ _).mp hp, PathMatch.var _ _ _ _ hm, by simp [he]⟩
        · rw [dif_neg h] at hy; cases hy
    · rintro ⟨path, ms, hp, hm, rfl⟩
      cases hm with
      | sym _ _ p ms' hm' =>
        have hc : (p, i) ∈ N.child (.sym t.head) := (mem_child _ _ _ _).mpr hp
        have h := nonempty_of_mem _ _ hc
        obtain ⟨y, hy, hi, he⟩ := (ih1 h (m0 ++ ms)).mpr ⟨p, ms, hc, hm', rfl⟩
        exact ⟨y, Or.inl (by rw [dif_pos h]; exact hy), hi, he⟩
      | var _ _ p ms' hm' =>
        have hc : (p, i) ∈ N.child .var := (mem_child _ _ _ _).mpr hp
        have h := nonempty_of_mem _ _ hc
        obtain ⟨y, hy, hi, he⟩ := (ih2 h (m0 ++ t :: ms')).mpr ⟨p, ms', hc, hm', by simp⟩
        exact ⟨y, Or.inr (by rw [dif_pos h]; exact hy), hi, he⟩

/-! ### a genuine instance follows the rule's path -/

def edgesOf (vars : List Sym) (ss : List Sym) : List Edge := ss.map fun s => if s ∈ vars then Edge.var else Edge.sym s

mutual
/-- the values `σ` gives to the variable occurrences of a pattern, in preorder -/
def bindsOf (vars : List Sym) (σ : Subst) : Term → List Term
  | .app _ ps => bindsOfList vars σ ps
  | .lst ps => bindsOfList vars σ ps
  | .atom s => if s ∈ vars then (match σ.get s with | some t => [t] | none => []) else []
def bindsOfList (vars : List Sym) (σ : Subst) : List Term → List Term
  | [] => []
  | p :: ps => bindsOf vars σ p ++ bindsOfList vars σ ps
end

mutual
/-- the rule is well formed: no head of a compound sub-pattern is declared a variable -/
def headsOk (vars : List Sym) : Term → Bool
  | .app f ps => !(vars.contains (.fn f)) && headsOkList vars ps
  | .lst ps => !(vars.contains listSym) && headsOkList vars ps
  | .atom _ => true
def headsOkList (vars : List Sym) : List Term → Bool
  | [] => true
  | p :: ps => headsOk vars p && headsOkList vars ps
end

theorem edgesOf_append (vars : List Sym) (a b : List Sym) : edgesOf vars (a ++ b) = edgesOf vars a ++ edgesOf vars b := by
  simp [edgesOf]

mutual
theorem pathMatch_of_inst (vars : List Sym) (σ : Subst) :
    ∀ (p t : Term), headsOk vars p = true → instPattern vars σ p = some t →
      ∀ (pr : List Edge) (S ms : List Term), PathMatch pr S ms →
        PathMatch (edgesOf vars p.flatten ++ pr) (t :: S) (bindsOf vars σ p ++ ms)
  | .atom s, t, _, hi, pr, S, ms, hpm => by
    simp only [instPattern] at hi
    by_cases hs : s ∈ vars
    · simp only [hs, if_true] at hi
      simp only [Term.flatten, edgesOf, List.map_cons, List.map_nil, hs, if_true, bindsOf, hi, List.cons_append,
        List.nil_append]
      exact PathMatch.var _ _ _ _ hpm
    · simp only [hs, if_false, Option.some.injEq] at hi
      subst hi
      simp only [Term.flatten, edgesOf, List.map_cons, List.map_nil, hs, if_false, bindsOf, List.cons_append,
        List.nil_append]
      exact PathMatch.sym (.atom s) S pr ms (by simpa [Term.args] using hpm)
  | .app f ps, t, hh, hi, pr, S, ms, hpm => by
    simp only [instPattern, Option.map_eq_some_iff] at hi
    obtain ⟨ts, hts, rfl⟩ := hi
    simp only [headsOk, Bool.and_eq_true, Bool.not_eq_true', List.contains_eq_mem, decide_eq_false_iff_not] at hh
    have hnv : ¬ Sym.fn f ∈ vars := by simpa using hh.1
    simp only [Term.flatten, edgesOf, List.map_cons, hnv, if_false, bindsOf, List.cons_append]
    have := pathMatch_of_instList vars σ ps ts hh.2 hts pr S ms hpm
    exact PathMatch.sym (.app f ts) S _ _ (by simpa [Term.args, edgesOf] using this)
  | .lst ps, t, hh, hi, pr, S, ms, hpm => by
    simp only [instPattern, Option.map_eq_some_iff] at hi
    obtain ⟨ts, hts, rfl⟩ := hi
    simp only [headsOk, Bool.and_eq_true, Bool.not_eq_true', List.contains_eq_mem, decide_eq_false_iff_not] at hh
    have hnv : ¬ listSym ∈ vars := by simpa using hh.1
    simp only [Term.flatten, edgesOf, List.map_cons, hnv, if_false, bindsOf, List.cons_append]
    have := pathMatch_of_instList vars σ ps ts hh.2 hts pr S ms hpm
    exact PathMatch.sym (.lst ts) S _ _ (by simpa [Term.args, Term.head, edgesOf] using this)
theorem pathMatch_of_instList (vars : List Sym) (σ : Subst) :
    ∀ (ps ts : List Term), headsOkList vars ps = true → instPatternList vars σ ps = some ts →
      ∀ (pr : List Edge) (S ms : List Term), PathMatch pr S ms →
        PathMatch (edgesOf vars (flattenList ps) ++ pr) (ts ++ S) (bindsOfList vars σ ps ++ ms)
  | [], ts, _, hi, pr, S, ms, hpm => by
    simp only [instPatternList, Option.some.injEq] at hi
    subst hi
    simpa [flattenList, edgesOf, bindsOfList] using hpm
  | p :: ps, ts, hh, hi, pr, S, ms, hpm => by
    simp only [instPatternList, Option.bind_eq_some_iff, Option.map_eq_some_iff] at hi
    obtain ⟨t, ht, ts', hts', rfl⟩ := hi
    simp only [headsOkList, Bool.and_eq_true] at hh
    have h2 := pathMatch_of_instList vars σ ps ts' hh.2 hts' pr S ms hpm
    have h1 := pathMatch_of_inst vars σ p t hh.1 ht _ _ _ h2
    simpa [flattenList, edgesOf_append, bindsOfList, List.append_assoc] using h1
end

/-! ### `_process_match` rebuilds the substitution -/

theorem Subst.get_append (σ : Subst) (v w : Sym) (t : Term) :
    Subst.get (σ ++ [(w, t)]) v = match σ.get v with
      | some x => some x
      | none => if w = v then some t else none := by
  induction σ with
  | nil => simp [Subst.get]
  | cons kv r ih =>
    obtain ⟨k, x⟩ := kv
    simp only [List.cons_append, Subst.get]
    by_cases hk : k = v
    · simp [hk]
    · simp [hk, ih]

/-- If every recorded binding agrees with `τ` (the bindings list is `τ` read off at the variable occurrences, and
what has been accumulated so far agrees with `τ`), `_process_match` succeeds and the result still agrees with `τ`
on every variable it binds, and binds every variable of the list. -/
theorem processGo_complete (τ : Subst) : ∀ (vs : List Sym) (ss : List Term) (acc : Subst),
    vs.length = ss.length →
    (∀ j (hj : j < vs.length) (hj' : j < ss.length), τ.get vs[j] = some ss[j]) →
    (∀ v t, acc.get v = some t → τ.get v = some t) →
    ∃ σ', processGo vs ss acc = some σ' ∧ (∀ v t, σ'.get v = some t → τ.get v = some t) ∧
      (∀ v ∈ vs, (σ'.get v).isSome) ∧ (∀ v t, acc.get v = some t → σ'.get v = some t)
  | [], [], acc, _, _, hacc => ⟨acc, by simp [processGo], hacc, by simp, fun _ _ h => h⟩
  | [], _ :: _, _, hl, _, _ => by simp at hl
  | _ :: _, [], _, hl, _, _ => by simp at hl
  | v :: vs, s :: ss, acc, hl, hτ, hacc => by
    have hv : τ.get v = some s := hτ 0 (by simp) (by simp)
    have hrest : ∀ j (hj : j < vs.length) (hj' : j < ss.length), τ.get vs[j] = some ss[j] := by
      intro j hj hj'
      have := hτ (j + 1) (by simp; omega) (by simp; omega)
      simpa using this
    have hl' : vs.length = ss.length := by simpa using hl
    simp only [processGo]
    cases hg : acc.get v with
    | some s' =>
      have : s' = s := by
        have := hacc v s' hg
        rw [hv] at this
        exact (Option.some.inj this).symm
      subst this
      simp only [if_true]
      obtain ⟨σ', h1, h2, h3, h4⟩ := processGo_complete τ vs ss acc hl' hrest hacc
      refine ⟨σ', h1, h2, ?_, h4⟩
      intro w hw
      simp only [List.mem_cons] at hw
      rcases hw with rfl | hw
      · rw [h4 _ _ hg]; rfl
      · exact h3 w hw
    | none =>
      simp only
      have hacc' : ∀ w t, Subst.get (acc ++ [(v, s)]) w = some t → τ.get w = some t := by
        intro w t hw
        rw [Subst.get_append] at hw
        cases hga : acc.get w with
        | some x => rw [hga] at hw; simp only at hw; rw [← hw]; exact hacc w x hga
        | none =>
          rw [hga] at hw
          simp only at hw
          by_cases hvw : v = w
          · simp only [hvw, if_true, Option.some.injEq] at hw; subst hw; subst hvw; exact hv
          · simp [hvw] at hw
      obtain ⟨σ', h1, h2, h3, h4⟩ := processGo_complete τ vs ss (acc ++ [(v, s)]) hl' hrest hacc'
      refine ⟨σ', h1, h2, ?_, ?_⟩
      · intro w hw
        simp only [List.mem_cons] at hw
        rcases hw with rfl | hw
        · have : Subst.get (acc ++ [(w, s)]) w = some s := by rw [Subst.get_append, hg]; simp
          rw [h4 _ _ this]; rfl
        · exact h3 w hw
      · intro w t hw
        apply h4
        rw [Subst.get_append, hw]

/-! ### bindings = the substitution read off at the variable occurrences -/

mutual
theorem bindsOf_spec (vars : List Sym) (σ : Subst) :
    ∀ (p t : Term), headsOk vars p = true → instPattern vars σ p = some t →
      (p.flatten.filter (· ∈ vars)).map σ.get = (bindsOf vars σ p).map some
  | .atom s, t, _, hi => by
    simp only [instPattern] at hi
    by_cases hs : s ∈ vars
    · simp only [hs, if_true] at hi
      simp [Term.flatten, bindsOf, hs, hi]
    · simp [Term.flatten, bindsOf, hs]
  | .app f ps, t, hh, hi => by
    simp only [instPattern, Option.map_eq_some_iff] at hi
    obtain ⟨ts, hts, _⟩ := hi
    simp only [headsOk, Bool.and_eq_true, Bool.not_eq_true', List.contains_eq_mem, decide_eq_false_iff_not] at hh
    have hnv : ¬ Sym.fn f ∈ vars := by simpa using hh.1
    simp only [Term.flatten, bindsOf, List.filter_cons, hnv, decide_false, Bool.false_eq_true, if_false]
    exact bindsOfList_spec vars σ ps ts hh.2 hts
  | .lst ps, t, hh, hi => by
    simp only [instPattern, Option.map_eq_some_iff] at hi
    obtain ⟨ts, hts, _⟩ := hi
    simp only [headsOk, Bool.and_eq_true, Bool.not_eq_true', List.contains_eq_mem, decide_eq_false_iff_not] at hh
    have hnv : ¬ listSym ∈ vars := by simpa using hh.1
    simp only [Term.flatten, bindsOf, List.filter_cons, hnv, decide_false, Bool.false_eq_true, if_false]
    exact bindsOfList_spec vars σ ps ts hh.2 hts
theorem bindsOfList_spec (vars : List Sym) (σ : Subst) :
    ∀ (ps ts : List Term), headsOkList vars ps = true → instPatternList vars σ ps = some ts →
      ((flattenList ps).filter (· ∈ vars)).map σ.get = (bindsOfList vars σ ps).map some
  | [], _, _, _ => by simp [flattenList, bindsOfList]
  | p :: ps, ts, hh, hi => by
    simp only [instPatternList, Option.bind_eq_some_iff, Option.map_eq_some_iff] at hi
    obtain ⟨t, ht, ts', hts', _⟩ := hi
    simp only [headsOkList, Bool.and_eq_true] at hh
    simp only [flattenList, bindsOfList, List.filter_append, List.map_append,
      bindsOf_spec vars σ p t hh.1 ht, bindsOfList_spec vars σ ps ts' hh.2 hts']
end

mutual
/-- `σ(pattern)` only depends on the values of the variables occurring in the pattern -/
theorem instPattern_congr (vars : List Sym) (σ σ' : Subst) :
    ∀ (p : Term), (∀ v ∈ p.flatten.filter (· ∈ vars), σ'.get v = σ.get v) → instPattern vars σ' p = instPattern vars σ p
  | .atom s, h => by
    simp only [instPattern]
    by_cases hs : s ∈ vars
    · simp only [hs, if_true]
      exact h s (by simp [Term.flatten, hs])
    · simp [hs]
  | .app f ps, h => by
    simp only [instPattern]
    rw [instPatternList_congr vars σ σ' ps (by
      intro v hv
      apply h v
      simp only [Term.flatten, List.mem_filter, List.mem_cons] at hv ⊢
      exact ⟨Or.inr hv.1, hv.2⟩)]
  | .lst ps, h => by
    simp only [instPattern]
    rw [instPatternList_congr vars σ σ' ps (by
      intro v hv
      apply h v
      simp only [Term.flatten, List.mem_filter, List.mem_cons] at hv ⊢
      exact ⟨Or.inr hv.1, hv.2⟩)]
theorem instPatternList_congr (vars : List Sym) (σ σ' : Subst) :
    ∀ (ps : List Term), (∀ v ∈ (flattenList ps).filter (· ∈ vars), σ'.get v = σ.get v) →
      instPatternList vars σ' ps = instPatternList vars σ ps
  | [], _ => by simp [instPatternList]
  | p :: ps, h => by
    simp only [instPatternList]
    rw [instPattern_congr vars σ σ' p (by
        intro v hv
        apply h v
        simp only [flattenList, List.filter_append, List.mem_append]
        exact Or.inl hv),
      instPatternList_congr vars σ σ' ps (by
        intro v hv
        apply h v
        simp only [flattenList, List.filter_append, List.mem_append]
        exact Or.inr hv)]
end

theorem mem_ofRulesFrom (rules : List Rule) (k i : Nat) (r : Rule) (h : rules[i]? = some r) :
    (r.path, k + i) ∈ Net.ofRulesFrom k rules := by
  induction rules generalizing k i with
  | nil => simp at h
  | cons a as ih =>
    cases i with
    | zero =>
      simp only [List.getElem?_cons_zero, Option.some.injEq] at h
      subst h
      simp [Net.ofRulesFrom]
    | succ i =>
      simp only [List.getElem?_cons_succ] at h
      have := ih (k + 1) i h
      simp only [Net.ofRulesFrom, List.mem_cons]
      right
      have e : k + 1 + i = k + (i + 1) := by omega
      rw [e] at this
      exact this

theorem mem_ofRules (rules : List Rule) (i : Nat) (r : Rule) (h : rules[i]? = some r) :
    (r.path, i) ∈ Net.ofRules rules := by
  have := mem_ofRulesFrom rules 0 i r h
  simpa [Net.ofRules] using this

end Dask.Match
