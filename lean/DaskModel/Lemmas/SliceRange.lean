import DaskModel.Model.Slice1D
/-! Lemmas about Python's `range` as modelled by `rangeUp` / `rangeDown`: unfolding, splitting at a
    block boundary, shifting, length. -/
namespace Dask.Slice1D

/-! ### `rangeUp` -/

theorem upFrom_fuel2 (stop step : Int) (hs : 0 < step) :
    ∀ (f g : Nat) (a : Int), (stop - a).toNat ≤ f → (stop - a).toNat ≤ g →
      upFrom stop step f a = upFrom stop step g a := by
  intro f
  induction f with
  | zero =>
    intro g a h _
    have hge : ¬ a < stop := by omega
    cases g with
    | zero => rfl
    | succ g => simp [upFrom, hge]
  | succ f ih =>
    intro g a h hg
    by_cases hlt : a < stop
    · cases g with
      | zero => omega
      | succ g =>
        simp only [upFrom, hlt, if_true]
        congr 1
        exact ih g (a + step) (by omega) (by omega)
    · cases g with
      | zero => simp [upFrom, hlt]
      | succ g => simp [upFrom, hlt]

theorem upFrom_fuel (stop step : Int) (hs : 0 < step) (f : Nat) (a : Int) (h : (stop - a).toNat ≤ f) :
    upFrom stop step f a = upFrom stop step (stop - a).toNat a :=
  upFrom_fuel2 stop step hs f _ a h (Nat.le_refl _)

theorem rangeUp_unfold (a stop step : Int) (hs : 0 < step) :
    rangeUp a stop step = if a < stop then a :: rangeUp (a + step) stop step else [] := by
  unfold rangeUp
  by_cases hlt : a < stop
  · obtain ⟨k, hk⟩ : ∃ k, (stop - a).toNat = k + 1 := ⟨(stop - a).toNat - 1, by omega⟩
    rw [hk]
    simp only [upFrom, hlt, if_true]
    congr 1
    exact upFrom_fuel stop step hs k (a + step) (by omega)
  · have : (stop - a).toNat = 0 := by omega
    rw [this]
    simp [upFrom, hlt]

theorem rangeUp_nil {a stop step : Int} (h : stop ≤ a) : rangeUp a stop step = [] := by
  unfold rangeUp
  have : (stop - a).toNat = 0 := by omega
  rw [this]; rfl

/-- induction principle following the iteration of `range` -/
theorem rangeUp_induction {step : Int} (hs : 0 < step) (stop : Int) (P : Int → Prop)
    (hdone : ∀ a, stop ≤ a → P a) (hstep : ∀ a, a < stop → P (a + step) → P a) : ∀ a, P a := by
  intro a
  generalize hn : (stop - a).toNat = n
  induction n using Nat.strongRecOn generalizing a with
  | _ n ih =>
    by_cases h : a < stop
    · exact hstep a h (ih (stop - (a + step)).toNat (by omega) (a + step) rfl)
    · exact hdone a (by omega)

/-- shifting a range -/
theorem rangeUp_shift (c stop step : Int) (hs : 0 < step) :
    ∀ a, (rangeUp a stop step).map (fun p => p + c) = rangeUp (a + c) (stop + c) step := by
  apply rangeUp_induction hs stop
  · intro a h
    rw [rangeUp_nil h, rangeUp_nil (by omega)]; rfl
  · intro a h ih
    rw [rangeUp_unfold a stop step hs, rangeUp_unfold (a + c) (stop + c) step hs]
    have h2 : a + c < stop + c := by omega
    simp only [h, h2, if_true, List.map_cons]
    rw [ih]
    congr 2; omega

/-- all elements of a range are below the stop and at least the start -/
theorem rangeUp_bounds (stop step : Int) (hs : 0 < step) :
    ∀ a, ∀ p ∈ rangeUp a stop step, a ≤ p ∧ p < stop := by
  apply rangeUp_induction hs stop
  · intro a h p hp
    rw [rangeUp_nil h] at hp; cases hp
  · intro a h ih p hp
    rw [rangeUp_unfold a stop step hs] at hp
    simp only [h, if_true, List.mem_cons] at hp
    rcases hp with rfl | hp
    · omega
    · have := ih p hp; omega

/-- Splitting a range at a boundary `len`: the part below `len`, then the part from the first element
    `≥ len`, which is `len + (a - len) % step` — the "running start" computed by `_slice_1d`. -/
theorem rangeUp_split (stop step len : Int) (hs : 0 < step) :
    ∀ a, a < len → rangeUp a stop step =
      rangeUp a (min stop len) step ++ rangeUp (len + (a - len) % step) stop step := by
  -- generalise the congruence class so that the induction can step
  suffices h : ∀ a, ∀ r, (a - len) % step = r → a < len + step →
      rangeUp a stop step = rangeUp a (min stop len) step ++ rangeUp (len + r) stop step by
    intro a ha; exact h a _ rfl (by omega)
  apply rangeUp_induction hs (min stop len)
  · intro a hge r hr hlt
    rw [rangeUp_nil hge, List.nil_append]
    have hnn : 0 ≤ (a - len) % step := Int.emod_nonneg _ (by omega)
    by_cases hstop : stop ≤ a
    · rw [rangeUp_nil hstop, rangeUp_nil]
      by_cases hlen : len ≤ a
      · have : (a - len) % step = a - len := Int.emod_eq_of_lt (by omega) (by omega)
        omega
      · omega
    · -- a ≥ len, a < len + step: (a - len) % step = a - len
      have hlen : len ≤ a := by omega
      have : (a - len) % step = a - len := Int.emod_eq_of_lt (by omega) (by omega)
      rw [← hr, this]; congr 1; omega
  · intro a hlt ih r hr hlt2
    rw [rangeUp_unfold a stop step hs, rangeUp_unfold a (min stop len) step hs]
    have h1 : a < stop := by omega
    simp only [h1, hlt, if_true, List.cons_append]
    congr 1
    apply ih
    · rw [← hr]
      have : a + step - len = (a - len) + step := by omega
      rw [this, Int.add_emod_right]
    · omega

/-- `len(range(a, stop, step))` for `a < stop`... stated without division: a range below `stop ≤ a + step` has one element -/
theorem rangeUp_length_le (stop step : Int) (hs : 0 < step) :
    ∀ a, ((rangeUp a stop step).length : Int) * step < (stop - a) + step ∨ stop ≤ a := by
  apply rangeUp_induction hs stop
  · intro a h; exact Or.inr h
  · intro a h ih
    left
    rw [rangeUp_unfold a stop step hs]
    simp only [h, if_true, List.length_cons]
    rcases ih with ih | ih
    · have : ((((rangeUp (a + step) stop step).length + 1 : Nat) : Int)) * step
          = ((rangeUp (a + step) stop step).length : Int) * step + step := by
        rw [Int.natCast_add, Int.add_mul]; simp
      rw [this]; omega
    · rw [rangeUp_nil ih]; simp; omega

/-! ### `rangeDown` as the mirror image of `rangeUp` -/

theorem downFrom_neg (stop step : Int) : ∀ (f : Nat) (a : Int),
    downFrom stop step f a = (upFrom (-stop) (-step) f (-a)).map (fun p => -p) := by
  intro f
  induction f with
  | zero => intro a; rfl
  | succ f ih =>
    intro a
    simp only [downFrom, upFrom]
    by_cases h : stop < a
    · have h2 : -a < -stop := by omega
      simp only [h, h2, if_true, List.map_cons, Int.neg_neg]
      congr 1
      rw [ih]
      congr 2; omega
    · have h2 : ¬ (-a < -stop) := by omega
      simp [h, h2]

theorem rangeDown_neg (a stop step : Int) :
    rangeDown a stop step = (rangeUp (-a) (-stop) (-step)).map (fun p => -p) := by
  unfold rangeDown rangeUp
  rw [downFrom_neg]
  congr 2; omega

theorem rangeDown_unfold (a stop step : Int) (hs : step < 0) :
    rangeDown a stop step = if stop < a then a :: rangeDown (a + step) stop step else [] := by
  rw [rangeDown_neg, rangeUp_unfold _ _ _ (by omega : 0 < -step), rangeDown_neg]
  by_cases h : stop < a
  · have h2 : -a < -stop := by omega
    simp only [h, h2, if_true, List.map_cons, Int.neg_neg]
    congr 3; omega
  · have h2 : ¬ (-a < -stop) := by omega
    simp [h, h2]

theorem rangeDown_nil {a stop step : Int} (h : a ≤ stop) : rangeDown a stop step = [] := by
  rw [rangeDown_neg, rangeUp_nil (by omega)]; rfl

theorem rangeDown_shift (c stop step : Int) (hs : step < 0) (a : Int) :
    (rangeDown a stop step).map (fun p => p + c) = rangeDown (a + c) (stop + c) step := by
  rw [rangeDown_neg, rangeDown_neg, List.map_map]
  have := rangeUp_shift (-c) (-stop) (-step) (by omega) (-a)
  have e1 : -(a + c) = -a + -c := by omega
  have e2 : -(stop + c) = -stop + -c := by omega
  rw [e1, e2, ← this, List.map_map]
  apply List.map_congr_left
  intro p _; simp only [Function.comp]; omega

theorem rangeDown_bounds (stop step : Int) (hs : step < 0) (a : Int) :
    ∀ p ∈ rangeDown a stop step, stop < p ∧ p ≤ a := by
  intro p hp
  rw [rangeDown_neg] at hp
  simp only [List.mem_map] at hp
  obtain ⟨q, hq, rfl⟩ := hp
  have := rangeUp_bounds (-stop) (-step) (by omega) (-a) q hq
  omega

/-- Splitting a descending range at a lower block boundary `c` (the block is `[c, …)`): the part
    `≥ c`, then the part from the first element `< c`, which is `c - 1 - (c - 1 - a) % (-step)`. -/
theorem rangeDown_split (stop step c : Int) (hs : step < 0) (a : Int) (ha : c ≤ a) :
    rangeDown a stop step =
      rangeDown a (max stop (c - 1)) step ++ rangeDown (c - 1 - (c - 1 - a) % (-step)) stop step := by
  rw [rangeDown_neg, rangeDown_neg, rangeDown_neg]
  have h := rangeUp_split (-stop) (-step) (-(c - 1)) (by omega) (-a) (by omega)
  rw [h, List.map_append]
  congr 2
  · congr 1; omega
  · congr 1
    have : -a - -(c - 1) = c - 1 - a := by omega
    rw [this]; omega

end Dask.Slice1D
