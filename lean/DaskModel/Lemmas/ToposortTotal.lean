import DaskModel.Lemmas.Toposort
/-! Totality of `_toposort` (repaired code): the loops terminate within the fuel, nothing is looked up outside a
closed graph, and the greedy cycle walk always closes. Part 1: the stack-structure invariant. -/
namespace Dask.GraphAlg

/-- every dependency mentioned in the graph has an entry -/
def Closed (g : Graph) : Prop := ∀ a b, Edge g a b → (deps? g b).isSome

structure Inv2 (g : Graph) (s : St) : Prop where
  disj : ∀ x ∈ s.seen, x ∉ s.completed
  seenNodup : s.seen.Nodup
  /-- a seen node sits on the stack and all its uncompleted dependencies are above its top-most occurrence -/
  seenAbove : ∀ x ∈ s.seen, ∃ pre post, s.nodes = pre ++ x :: post ∧ x ∉ pre ∧
    ∀ d, Edge g x d → d ∈ s.completed ∨ d ∈ pre
  /-- every stack entry but the bottom one was pushed by the nearest expanded node below it -/
  pusher : ∀ above v below, s.nodes = above ++ v :: below → below ≠ [] →
    ∃ mid t rest, below = mid ++ t :: rest ∧ t ∈ s.seen ∧ Edge g t v ∧ t ∉ above ++ v :: mid ∧
      ∀ u ∈ mid, u ∈ s.seen → u ∈ above ++ [v]
  entries : ∀ x ∈ s.nodes, (deps? g x).isSome

theorem mem_erase_nodup {l : List Key} (hn : l.Nodup) {a x : Key} : x ∈ l.erase a ↔ x ∈ l ∧ x ≠ a := by
  rw [hn.mem_erase_iff]; exact And.comm

/-- splitting `x :: l = above ++ v :: below` -/
theorem cons_eq_append_cons {x v : Key} {l above below : List Key} (h : x :: l = above ++ v :: below) :
    (above = [] ∧ x = v ∧ l = below) ∨ ∃ above', above = x :: above' ∧ l = above' ++ v :: below := by
  cases above with
  | nil => simp at h; exact Or.inl ⟨rfl, h.1, h.2⟩
  | cons a as =>
    simp only [List.cons_append, List.cons.injEq] at h
    exact Or.inr ⟨as, by rw [h.1], h.2⟩

/-- splitting `cs ++ l = above ++ v :: below`: `v` lies in `cs` or in `l` -/
theorem append_eq_append_cons {cs l above below : List Key} {v : Key} (h : cs ++ l = above ++ v :: below) :
    (∃ a b, cs = a ++ v :: b ∧ above = a ∧ below = b ++ l) ∨
    (∃ above0, above = cs ++ above0 ∧ l = above0 ++ v :: below) := by
  induction cs generalizing above with
  | nil => exact Or.inr ⟨above, by simp, by simpa using h⟩
  | cons c cs ih =>
    cases above with
    | nil =>
      simp only [List.cons_append, List.nil_append, List.cons.injEq] at h
      exact Or.inl ⟨[], cs, by simp [h.1], rfl, h.2.symm⟩
    | cons a as =>
      simp only [List.cons_append, List.cons.injEq] at h
      rcases ih h.2 with ⟨a', b, h1, h2, h3⟩ | ⟨above0, h1, h2⟩
      · exact Or.inl ⟨c :: a', b, by simp [h1], by simp [h.1, h2], h3⟩
      · exact Or.inr ⟨above0, by simp [h.1, h1], h2⟩

end Dask.GraphAlg

namespace Dask.GraphAlg

theorem mem_seen' {seen : List Key} {cur x : Key} :
    x ∈ (if seen.contains cur = true then seen else cur :: seen) ↔ x = cur ∨ x ∈ seen := by
  split
  · rename_i h
    have hc : cur ∈ seen := by simpa using h
    constructor
    · exact fun hx => Or.inr hx
    · rintro (rfl | hx)
      · exact hc
      · exact hx
  · simp

theorem nodup_seen' {seen : List Key} {cur : Key} (hn : seen.Nodup) :
    (if seen.contains cur = true then seen else cur :: seen).Nodup := by
  split
  · exact hn
  · rename_i h
    have hc : cur ∉ seen := by simpa using h
    exact List.nodup_cons.mpr ⟨hc, hn⟩

theorem step_inv2 {g : Graph} (hcl : Closed g) {s s' : St} (hi : Inv2 g s) (h : step g s = .cont s') : Inv2 g s' := by
  unfold step at h
  split at h
  · cases h; exact hi
  · rename_i cur rest hn
    split at h
    · -- pop a completed node
      rename_i hcc
      have hcurC : cur ∈ s.completed := by simpa using hcc
      cases h
      refine ⟨hi.disj, hi.seenNodup, ?_, ?_, fun x hx => hi.entries x (by simp [hn, hx])⟩
      · intro x hx
        obtain ⟨pre, post, hd, hxp, hdeps⟩ := hi.seenAbove x hx
        have hne : cur ≠ x := fun he => hi.disj x hx (he ▸ hcurC)
        rw [hn] at hd
        rcases cons_eq_append_cons hd with ⟨_, h2, _⟩ | ⟨pre', h1, h2⟩
        · exact absurd h2 hne
        · subst h1
          refine ⟨pre', post, h2, fun hc => hxp (List.mem_cons_of_mem _ hc), ?_⟩
          intro d hd'
          rcases hdeps d hd' with h | h
          · exact Or.inl h
          · rcases List.mem_cons.mp h with rfl | h
            · exact Or.inl hcurC
            · exact Or.inr h
      · intro above v below hdec hb
        obtain ⟨mid, t, rest', h1, h2, h3, h4, h5⟩ :=
          hi.pusher (cur :: above) v below (by simp only at hdec; rw [hn, hdec]; simp) hb
        refine ⟨mid, t, rest', h1, h2, h3, ?_, ?_⟩
        · intro hc; exact h4 (by simp only [List.cons_append, List.mem_cons]; exact Or.inr (by simpa using hc))
        · intro u hu hus
          have := h5 u hu hus
          simp only [List.cons_append, List.mem_cons] at this
          rcases this with rfl | this
          · exact absurd hcurC (hi.disj _ hus)
          · simpa using this
    · rename_i hcc
      have hcurNC : cur ∉ s.completed := by simpa using hcc
      simp only at h
      split at h
      · cases h
      · rename_i ds hds
        split at h
        · cases h
        · rename_i hfind
          -- facts about the candidates
          have hF : ∀ c ∈ ds.filter (fun d => !s.completed.contains d),
              c ∈ ds ∧ c ∉ s.completed ∧ c ≠ cur ∧ c ∉ s.seen := by
            intro c hc
            have h1 := mem_filter_not_completed hc
            have h2 := List.find?_eq_none.mp hfind c hc
            have h3 : ¬ (c = cur ∨ c ∈ s.seen) := fun hx => h2 (by simpa using (mem_seen'.mpr hx))
            exact ⟨h1.1, h1.2, fun he => h3 (Or.inl he), fun hs => h3 (Or.inr hs)⟩
          have hedge : ∀ d, Edge g cur d ↔ d ∈ ds := by
            intro d
            constructor
            · rintro ⟨ds', h1, h2⟩; rw [hds] at h1; cases h1; exact h2
            · exact fun hd => ⟨ds, hds, hd⟩
          split at h
          · -- complete `cur`
            rename_i hemp
            cases h
            have hall : ∀ d ∈ ds, d ∈ s.completed := by
              simpa [List.isEmpty_iff] using hemp
            have hmemE : ∀ x, x ∈ (if s.seen.contains cur = true then s.seen else cur :: s.seen).erase cur ↔
                x ∈ s.seen ∧ x ≠ cur := by
              intro x
              rw [mem_erase_nodup (nodup_seen' hi.seenNodup), mem_seen']
              constructor
              · rintro ⟨h1 | h1, h2⟩
                · exact absurd h1 h2
                · exact ⟨h1, h2⟩
              · rintro ⟨h1, h2⟩; exact ⟨Or.inr h1, h2⟩
            refine ⟨?_, (nodup_seen' hi.seenNodup).erase _, ?_, ?_, fun x hx => hi.entries x (by simp [hn, hx])⟩
            · intro x hx
              obtain ⟨h1, h2⟩ := (hmemE x).mp hx
              intro hc
              rcases List.mem_cons.mp hc with rfl | hc
              · exact h2 rfl
              · exact hi.disj x h1 hc
            · intro x hx
              obtain ⟨hxs, hxne⟩ := (hmemE x).mp hx
              obtain ⟨pre, post, hd, hxp, hdeps⟩ := hi.seenAbove x hxs
              rw [hn] at hd
              rcases cons_eq_append_cons hd with ⟨_, h2, _⟩ | ⟨pre', h1, h2⟩
              · exact absurd h2.symm hxne
              · subst h1
                refine ⟨pre', post, h2, fun hc => hxp (List.mem_cons_of_mem _ hc), ?_⟩
                intro d hd'
                rcases hdeps d hd' with h | h
                · exact Or.inl (List.mem_cons_of_mem _ h)
                · rcases List.mem_cons.mp h with rfl | h
                  · exact Or.inl (by simp)
                  · exact Or.inr h
            · intro above v below hdec hb
              obtain ⟨mid, t, rest', h1, h2, h3, h4, h5⟩ :=
                hi.pusher (cur :: above) v below (by simp only at hdec; rw [hn, hdec]; simp) hb
              have htne : t ≠ cur := fun he => h4 (by simp [he])
              refine ⟨mid, t, rest', h1, (hmemE t).mpr ⟨h2, htne⟩, h3, ?_, ?_⟩
              · intro hc; exact h4 (by simp only [List.cons_append, List.mem_cons]; exact Or.inr (by simpa using hc))
              · intro u hu hus
                obtain ⟨hu1, hu2⟩ := (hmemE u).mp hus
                have := h5 u hu hu1
                simp only [List.cons_append, List.mem_cons] at this
                rcases this with rfl | this
                · exact absurd rfl hu2
                · simpa using this
          · -- push the candidates
            cases h
            refine ⟨?_, nodup_seen' hi.seenNodup, ?_, ?_, ?_⟩
            · intro x hx
              rcases mem_seen'.mp hx with rfl | hx
              · exact hcurNC
              · exact hi.disj x hx
            · intro x hx
              by_cases hxc : x = cur
              · subst hxc
                refine ⟨(ds.filter (fun d => !s.completed.contains d)).reverse, rest, by simp [hn], ?_, ?_⟩
                · intro hc
                  exact (hF _ (List.mem_reverse.mp hc)).2.2.1 rfl
                · intro d hd'
                  have hdd := (hedge d).mp hd'
                  by_cases hdc : d ∈ s.completed
                  · exact Or.inl hdc
                  · right
                    simp only [List.mem_reverse, List.mem_filter, Bool.not_eq_true', List.contains_eq_mem,
                      decide_eq_false_iff_not]
                    exact ⟨hdd, hdc⟩
              · have hxs : x ∈ s.seen := by
                  rcases mem_seen'.mp hx with h | h
                  · exact absurd h hxc
                  · exact h
                obtain ⟨pre, post, hd, hxp, hdeps⟩ := hi.seenAbove x hxs
                refine ⟨(ds.filter (fun d => !s.completed.contains d)).reverse ++ pre, post, by simp [hd], ?_, ?_⟩
                · intro hc
                  rcases List.mem_append.mp hc with hc | hc
                  · exact (hF _ (List.mem_reverse.mp hc)).2.2.2 hxs
                  · exact hxp hc
                · intro d hd'
                  rcases hdeps d hd' with h | h
                  · exact Or.inl h
                  · exact Or.inr (List.mem_append_right _ h)
            · intro above v below hdec hb
              simp only at hdec
              rcases append_eq_append_cons hdec with ⟨a, b, h1, h2, h3⟩ | ⟨above0, h1, h2⟩
              · -- `v` is one of the freshly pushed candidates: its pusher is `cur`
                subst h2
                have hvc : v ∈ ds.filter (fun d => !s.completed.contains d) := by
                  apply List.mem_reverse.mp; rw [h1]; simp
                refine ⟨b, cur, rest, by rw [h3, hn], mem_seen'.mpr (Or.inl rfl), (hedge v).mpr (hF v hvc).1, ?_, ?_⟩
                · intro hc
                  rw [← h1] at hc
                  exact (hF _ (List.mem_reverse.mp hc)).2.2.1 rfl
                · intro u hu hus
                  exfalso
                  have huc : u ∈ ds.filter (fun d => !s.completed.contains d) := by
                    apply List.mem_reverse.mp; rw [h1]; simp [hu]
                  rcases mem_seen'.mp hus with h | h
                  · exact (hF u huc).2.2.1 h
                  · exact (hF u huc).2.2.2 h
              · -- `v` was already on the stack
                obtain ⟨mid, t, rest', e1, e2, e3, e4, e5⟩ := hi.pusher above0 v below h2 hb
                refine ⟨mid, t, rest', e1, mem_seen'.mpr (Or.inr e2), e3, ?_, ?_⟩
                · intro hc
                  rw [h1] at hc
                  simp only [List.append_assoc, List.mem_append] at hc
                  rcases hc with hc | hc
                  · exact (hF _ (List.mem_reverse.mp hc)).2.2.2 e2
                  · exact e4 (by simpa using hc)
                · intro u hu hus
                  rw [h1]
                  rcases mem_seen'.mp hus with rfl | hus
                  · -- `cur` is the top of the old stack, hence in `above0 ++ [v]`
                    rw [hn] at h2
                    rcases cons_eq_append_cons h2 with ⟨h0, hv, _⟩ | ⟨a', ha', _⟩
                    · subst h0; subst hv; simp
                    · subst ha'; simp
                  · have := e5 u hu hus
                    simp only [List.append_assoc, List.mem_append] at this ⊢
                    exact Or.inr this
            · intro x hx
              simp only [List.mem_append, List.mem_reverse] at hx
              rcases hx with hx | hx
              · exact hcl cur x ((hedge x).mpr (hF x hx).1)
              · exact hi.entries x hx

end Dask.GraphAlg

namespace Dask.GraphAlg

/-! ### the traversal terminates within the fuel -/

def degOf (g : Graph) (k : Key) : Nat := ((deps? g k).getD []).length

/-- weight of the keys that are neither completed nor expanded yet -/
def wsum (g : Graph) (ex : Key → Bool) : List Key → Nat
  | [] => 0
  | k :: ks => (if ex k then 0 else degOf g k + 1) + wsum g ex ks

theorem wsum_mono (g : Graph) (ex ex' : Key → Bool) (h : ∀ k, ex k = true → ex' k = true) :
    ∀ l, wsum g ex' l ≤ wsum g ex l
  | [] => Nat.le_refl _
  | k :: ks => by
    have ih := wsum_mono g ex ex' h ks
    simp only [wsum]
    by_cases hk : ex k = true
    · rw [if_pos hk, if_pos (h k hk)]; omega
    · rw [if_neg hk]
      by_cases hk' : ex' k = true
      · rw [if_pos hk']; omega
      · rw [if_neg hk']; omega

theorem wsum_drop (g : Graph) (ex ex' : Key → Bool) (h : ∀ k, ex k = true → ex' k = true) (cur : Key)
    (h0 : ex cur = false) (h1 : ex' cur = true) :
    ∀ l, cur ∈ l → wsum g ex' l + (degOf g cur + 1) ≤ wsum g ex l
  | [], hm => by simp at hm
  | k :: ks, hm => by
    simp only [wsum]
    by_cases hkc : k = cur
    · subst hkc
      have := wsum_mono g ex ex' h ks
      rw [if_pos h1, if_neg (by simp [h0])]; omega
    · have hm' : cur ∈ ks := by
        rcases List.mem_cons.mp hm with h | h
        · exact absurd h.symm hkc
        · exact h
      have ih := wsum_drop g ex ex' h cur h0 h1 ks hm'
      by_cases hk : ex k = true
      · rw [if_pos hk, if_pos (h k hk)]; omega
      · rw [if_neg hk]
        by_cases hk' : ex' k = true
        · rw [if_pos hk']; omega
        · rw [if_neg hk']; omega

def excl (s : St) (k : Key) : Bool := s.completed.contains k || s.seen.contains k

theorem excl_iff (s : St) (k : Key) : excl s k = true ↔ k ∈ s.completed ∨ k ∈ s.seen := by
  simp [excl]

def phi (g : Graph) (s : St) : Nat := s.nodes.length + wsum g (excl s) (g.map Prod.fst)

theorem lookup_some_mem_keys (g : Graph) (k : Key) (ds : List Key) (h : deps? g k = some ds) : k ∈ g.map Prod.fst := by
  unfold deps? at h
  induction g with
  | nil => simp at h
  | cons kv rest ih =>
    obtain ⟨k', v'⟩ := kv
    simp only [List.lookup] at h
    split at h
    · rename_i heq
      have : k = k' := by simpa using heq
      subst this; simp
    · simp [ih h]

theorem step_phi {g : Graph} {s s' : St} (hi : Inv2 g s) (h : step g s = .cont s') (hne : s.nodes ≠ []) :
    phi g s' < phi g s := by
  unfold step at h
  split at h
  · rename_i hn; exact absurd hn hne
  · rename_i cur rest hn
    split at h
    · cases h
      simp only [phi, hn, List.length_cons]
      have : wsum g (excl { s with nodes := rest }) (g.map Prod.fst) = wsum g (excl s) (g.map Prod.fst) := rfl
      omega
    · rename_i hcc
      have hcurNC : cur ∉ s.completed := by simpa using hcc
      simp only at h
      split at h
      · cases h
      · rename_i ds hds
        have hdeg : degOf g cur = ds.length := by simp [degOf, hds]
        have hmem := lookup_some_mem_keys g cur ds hds
        split at h
        · cases h
        · split at h
          · -- completion
            rename_i hemp
            cases h
            simp only [phi, hn, List.length_cons]
            have hm : wsum g (excl (St.mk rest (cur :: s.completed)
                ((if s.seen.contains cur = true then s.seen else cur :: s.seen).erase cur) (cur :: s.ordered)))
                (g.map Prod.fst) ≤ wsum g (excl s) (g.map Prod.fst) := by
              apply wsum_mono
              intro k hk
              rw [excl_iff] at hk
              rw [excl_iff]
              show k ∈ cur :: s.completed ∨ k ∈ (if s.seen.contains cur = true then s.seen else cur :: s.seen).erase cur
              rcases hk with hk | hk
              · exact Or.inl (List.mem_cons_of_mem _ hk)
              · by_cases hkc : k = cur
                · subst hkc; exact Or.inl (by simp)
                · right
                  rw [mem_erase_nodup (nodup_seen' hi.seenNodup)]
                  exact ⟨mem_seen'.mpr (Or.inr hk), hkc⟩
            omega
          · -- push: `cur` cannot have been expanded before
            rename_i hnemp
            cases h
            have hcurNS : cur ∉ s.seen := by
              intro hcs
              obtain ⟨pre, post, hd, hxp, hdeps⟩ := hi.seenAbove cur hcs
              rw [hn] at hd
              rcases cons_eq_append_cons hd with ⟨h0, _, _⟩ | ⟨pre', h1, _⟩
              · subst h0
                apply hnemp
                rw [List.isEmpty_iff, List.filter_eq_nil_iff]
                intro d hd'
                rcases hdeps d ⟨ds, hds, hd'⟩ with h | h
                · simp [h]
                · simp at h
              · subst h1; exact hxp (by simp)
            simp only [phi, hn, List.length_append, List.length_reverse, List.length_cons]
            have hlen : (ds.filter (fun d => !s.completed.contains d)).length ≤ ds.length := List.length_filter_le _ _
            have hd := wsum_drop g (excl s)
              (excl (St.mk ((ds.filter (fun d => !s.completed.contains d)).reverse ++ cur :: rest) s.completed
                      (if s.seen.contains cur = true then s.seen else cur :: s.seen) s.ordered))
              (by
                intro k hk
                rw [excl_iff] at hk
                rw [excl_iff]
                show k ∈ s.completed ∨ k ∈ (if s.seen.contains cur = true then s.seen else cur :: s.seen)
                rcases hk with hk | hk
                · exact Or.inl hk
                · exact Or.inr (mem_seen'.mpr (Or.inr hk)))
              cur (by
                rw [Bool.eq_false_iff]; intro hc
                rcases (excl_iff s cur).mp hc with h | h
                · exact hcurNC h
                · exact hcurNS h)
              (by
                rw [excl_iff]
                show cur ∈ s.completed ∨ cur ∈ (if s.seen.contains cur = true then s.seen else cur :: s.seen)
                exact Or.inr (mem_seen'.mpr (Or.inl rfl)))
              (g.map Prod.fst) hmem
            omega

end Dask.GraphAlg
