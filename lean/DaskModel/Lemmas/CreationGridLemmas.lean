import DaskModel.Model.CreationGrid
import DaskModel.Lemmas.DiagonalNdLemmas
/-! `meshgrid` / `indices` / `fromfunction`: offset + local index = global index, for every chunking (C34). -/
namespace Dask.Creation
open Dask.Chunks

theorem addOffs_locate : ∀ (css : List (List Nat)) (p : List Nat) (locs : List (Nat × Nat)),
    locateAll css p = some locs →
    addOffs ((blockOffs css (locs.map (·.1))).map (·.1)) (locs.map (·.2)) = p
  | [], [], locs, h => by simp [locateAll] at h; subst h; rfl
  | [], _ :: _, _, h => by simp [locateAll] at h
  | _ :: _, [], _, h => by simp [locateAll] at h
  | cs :: css, p :: ps, locs, h => by
    simp only [locateAll, bind, Option.bind, pure] at h
    cases hb : blockOf cs p with
    | none => simp [hb] at h
    | some l =>
      cases hr : locateAll css ps with
      | none => simp [hb, hr] at h
      | some rest =>
        simp [hb, hr] at h
        subst h
        obtain ⟨b, o⟩ := l
        obtain ⟨c, _, _, hs⟩ := blockOf_spec hb
        simp only [List.map_cons, blockOffs, addOffs]
        rw [addOffs_locate css ps rest hr, hs]

theorem swap01_length {α} (xs : List α) : (swap01 xs).length = xs.length := by
  unfold swap01; split <;> simp

theorem swap01_get {α} (xs : List α) (j : Nat) : (swap01 xs)[sigma true xs.length j]? = xs[j]? := by
  unfold sigma
  match xs with
  | [] => simp [swap01]
  | [a] => simp [swap01]
  | a :: b :: r =>
    simp only [swap01, List.length_cons, true_and]
    have : 1 < r.length + 1 + 1 := by omega
    simp only [this, if_true]
    match j with
    | 0 => simp
    | 1 => simp
    | j + 2 => simp

theorem meshgridChunks_get (cs : List (List Nat)) (xy sparse : Bool) (j : Nat) :
    (meshgridChunks cs xy sparse j)[sigma xy cs.length j]? = cs[j]? := by
  have hd : (if xy then swap01 cs else cs)[sigma xy cs.length j]? = cs[j]? := by
    cases xy with
    | true => simpa using swap01_get cs j
    | false => simp [sigma]
  unfold meshgridChunks
  cases sparse with
  | false => simpa using hd
  | true =>
    simp only [if_true, List.getElem?_map, List.getElem?_zipIdx, Nat.zero_add]
    rw [hd]
    cases cs[j]? <;> simp
