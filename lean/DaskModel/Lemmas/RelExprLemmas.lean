import DaskModel.Model.RelExpr
/-! Helper lemmas for C43 / C42: lookups, filter sets, zips. -/
namespace Dask.RelExpr

theorem colIdx_cons (c : String) (cs : List String) (n : String) :
    colIdx (c :: cs) n = if c == n then some 0 else (colIdx cs n).map (· + 1) := by
  unfold colIdx
  simp only [List.findIdx_cons, List.length_cons]
  by_cases h : (c == n) = true
  · simp [h]
  · simp only [h, Bool.false_eq_true, if_false, cond_false]
    by_cases h2 : List.findIdx (fun x => x == n) cs < cs.length
    · simp [h2]
    · simp [h2]

theorem colIdx_some_lt {cols : List String} {n : String} {i : Nat} (h : colIdx cols n = some i) : i < cols.length := by
  unfold colIdx at h
  by_cases h2 : List.findIdx (fun x => x == n) cols < cols.length
  · simp [h2] at h; omega
  · simp [h2] at h

theorem colIdx_isSome_iff_mem (cols : List String) (n : String) : (colIdx cols n).isSome = true ↔ n ∈ cols := by
  induction cols with
  | nil => simp [colIdx]
  | cons c cs ih =>
    rw [colIdx_cons]
    by_cases h : (c == n) = true
    · have : c = n := by simpa using h
      simp [h, this]
    · have hne : ¬ c = n := by simpa using h
      simp only [h, Bool.false_eq_true, if_false, Option.isSome_map, ih, List.mem_cons]
      constructor
      · intro hm; exact Or.inr hm
      · intro hm
        rcases hm with hm | hm
        · exact absurd hm.symm hne
        · exact hm

/-- reading every column of a well-formed row gives the row back -/
theorem map_getCell_self (cols : List String) (hnd : cols.Nodup) (r : List Cell) (hlen : r.length = cols.length) :
    cols.map (getCell cols r) = r := by
  induction cols generalizing r with
  | nil => simp at hlen; simp [hlen]
  | cons c cs ih =>
    cases r with
    | nil => simp at hlen
    | cons x xs =>
      simp only [List.length_cons, Nat.add_right_cancel_iff] at hlen
      have hnd' := (List.nodup_cons.mp hnd)
      simp only [List.map_cons]
      congr 1
      · simp [getCell, colIdx_cons]
      · have hcongr : cs.map (getCell (c :: cs) (x :: xs)) = cs.map (getCell cs xs) := by
          apply List.map_congr_left
          intro n hn
          have hne : (c == n) = false := by
            simp only [beq_eq_false_iff_ne, ne_eq]
            intro heq; subst heq; exact hnd'.1 hn
          simp only [getCell, colIdx_cons, hne, Bool.false_eq_true, if_false]
          cases hci : colIdx cs n with
          | none => simp
          | some i => simp
        rw [hcongr]
        exact ih hnd'.2 xs hlen

/-- symbolic column lookup agrees with the concrete lookup in the evaluated row -/
theorem lookup_agree (sc : List String) (r : List Cell) (cols : List (String × CX)) (n : String) :
    match lookupCX cols n with
    | some cx => (colIdx (cols.map (·.1)) n).isSome = true ∧
        getCell (cols.map (·.1)) (cols.map (fun kv => kv.2.eval sc r)) n = cx.eval sc r
    | none => colIdx (cols.map (·.1)) n = none := by
  induction cols with
  | nil => simp [lookupCX, colIdx]
  | cons kv rest ih =>
    simp only [lookupCX, List.find?_cons, List.map_cons, colIdx_cons]
    by_cases h : (kv.1 == n) = true
    · simp [h, getCell, colIdx_cons]
    · simp only [h, Bool.false_eq_true, if_false]
      simp only [lookupCX] at ih
      cases hf : List.find? (fun x => x.1 == n) rest with
      | none =>
        simp only [hf, Option.map_none] at ih ⊢
        simp [ih]
      | some kv' =>
        simp only [hf, Option.map_some] at ih ⊢
        obtain ⟨h1, h2⟩ := ih
        refine ⟨by simpa using h1, ?_⟩
        simp only [getCell, colIdx_cons, h, Bool.false_eq_true, if_false] at h2 ⊢
        cases hci : colIdx (List.map (fun x => x.1) rest) n with
        | none => simp [hci] at h1
        | some i => simpa [hci] using h2

theorem conj_all (sc : List String) (r : List Cell) (c : CX) :
    (conj c).all (fun x => x.eval sc r == some 1) = (c.eval sc r == some 1) := by
  induction c with
  | col n => simp [conj]
  | const c => simp [conj]
  | not a _ => simp [conj]
  | bin op a b iha ihb =>
    cases op <;> try (simp [conj]; done)
    simp only [conj, List.all_append, iha, ihb, CX.eval, BinOp.app, b2c]
    cases h1 : (a.eval sc r == some 1) <;> cases h2 : (b.eval sc r == some 1) <;> simp

theorem all_of_subset (p : CX → Bool) (a b : List CX) (h : subset a b = true) (hb : b.all p = true) : a.all p = true := by
  simp only [subset, List.all_eq_true, List.contains_iff_mem] at h hb ⊢
  intro x hx
  exact hb x (by simpa using h x hx)

theorem all_sameSet (p : CX → Bool) (a b : List CX) (h : sameSet a b = true) : a.all p = b.all p := by
  simp only [sameSet, Bool.and_eq_true] at h
  cases ha : a.all p <;> cases hb : b.all p <;> try rfl
  · have := all_of_subset p a b h.1 hb; rw [ha] at this; cases this
  · have := all_of_subset p b a h.2 ha; rw [hb] at this; cases this

theorem keep_sameSet (s : Src) (a b : List CX) (h : sameSet a b = true) : keep s a = keep s b := by
  unfold keep
  congr 1
  funext ir
  exact all_sameSet _ a b h

theorem keep_append (s : Src) (fl : List CX) (c : CX) :
    keep s (fl ++ conj c) = (keep s fl).filter (fun ir => c.eval s.cols ir.2 == some 1) := by
  unfold keep
  rw [List.filter_filter]
  congr 1
  funext ir
  simp only [List.all_append, conj_all, Bool.and_comm]

theorem zip_map_map {α β γ} (l : List α) (f : α → β) (g : α → γ) :
    (l.map f).zip (l.map g) = l.map (fun x => (f x, g x)) := by
  induction l with
  | nil => rfl
  | cons x xs ih => simp [ih]

theorem sameSet_refl (a : List CX) : sameSet a a = true := by
  simp [sameSet, subset, List.all_eq_true]

def truthOf (sc : List String) (r : List Cell) (c : CX) : Bool := c.eval sc r == some 1

theorem truthWith_truthOf (sc : List String) (r : List Cell) (x : CX) :
    truthWith (truthOf sc r) x = truthOf sc r x := by
  induction x with
  | col n => simp [truthWith]
  | const c => simp [truthWith]
  | not a ih =>
    simp only [truthWith, ih, truthOf, CX.eval, notC, b2c]
    cases h : (a.eval sc r == some 1) <;> simp
  | bin op a b iha ihb =>
    cases op <;> try (simp [truthWith]; done)
    · simp only [truthWith, iha, ihb, truthOf, CX.eval, BinOp.app, b2c]
      cases h1 : (a.eval sc r == some 1) <;> cases h2 : (b.eval sc r == some 1) <;> simp
    · simp only [truthWith, iha, ihb, truthOf, CX.eval, BinOp.app, b2c]
      cases h1 : (a.eval sc r == some 1) <;> cases h2 : (b.eval sc r == some 1) <;> simp

theorem truthWith_congr (σ τ : CX → Bool) (x : CX) (h : ∀ c ∈ atoms x, σ c = τ c) : truthWith σ x = truthWith τ x := by
  induction x with
  | col n => simp only [truthWith]; exact h _ (by simp [atoms])
  | const c => simp only [truthWith]; exact h _ (by simp [atoms])
  | not a ih => simp only [truthWith]; rw [ih (fun c hc => h c (by simpa [atoms] using hc))]
  | bin op a b iha ihb =>
    cases op
    case and =>
      simp only [truthWith]
      rw [iha (fun c hc => h c (by simp [atoms, hc])), ihb (fun c hc => h c (by simp [atoms, hc]))]
    case or =>
      simp only [truthWith]
      rw [iha (fun c hc => h c (by simp [atoms, hc])), ihb (fun c hc => h c (by simp [atoms, hc]))]
    all_goals (simp only [truthWith]; exact h _ (by simp [atoms]))

theorem assign_map (as : List CX) (τ : CX → Bool) (c : CX) (hc : c ∈ as) : assign as (as.map τ) c = τ c := by
  induction as with
  | nil => simp at hc
  | cons a as' ih =>
    simp only [List.map_cons, assign]
    by_cases h : (a == c) = true
    · have : a = c := by simpa using h
      simp [h, this]
    · simp only [h, Bool.false_eq_true, if_false]
      have : c ∈ as' := by
        rcases List.mem_cons.mp hc with h1 | h1
        · exfalso; apply h; simp [h1]
        · exact h1
      exact ih this

theorem mem_allBools (bs : List Bool) : bs ∈ allBools bs.length := by
  induction bs with
  | nil => simp [allBools]
  | cons b bs ih =>
    simp only [List.length_cons, allBools, List.mem_flatMap]
    refine ⟨bs, ih, ?_⟩
    cases b <;> simp

/-- truth-table equivalent filter lists select the same rows -/
theorem ttEquiv_sound (sc : List String) (r : List Cell) (fl fl' : List CX) (h : ttEquiv fl fl' = true) :
    fl.all (fun c => c.eval sc r == some 1) = fl'.all (fun c => c.eval sc r == some 1) := by
  unfold ttEquiv at h
  simp only [List.all_eq_true] at h
  have hlen : ((fl ++ fl').flatMap atoms).length = (((fl ++ fl').flatMap atoms).map (truthOf sc r)).length := by simp
  have hmem : ((fl ++ fl').flatMap atoms).map (truthOf sc r) ∈ allBools ((fl ++ fl').flatMap atoms).length := by
    rw [hlen]; exact mem_allBools _
  have hb := h _ hmem
  simp only [beq_iff_eq] at hb
  have key : ∀ x ∈ fl ++ fl', truthWith (assign ((fl ++ fl').flatMap atoms) (((fl ++ fl').flatMap atoms).map (truthOf sc r))) x
      = truthOf sc r x := by
    intro x hx
    rw [← truthWith_truthOf sc r x]
    apply truthWith_congr
    intro c hc
    apply assign_map
    simp only [List.mem_flatMap]
    exact ⟨x, hx, hc⟩
  have allc : ∀ (l : List CX) (f g : CX → Bool), (∀ x ∈ l, f x = g x) → l.all f = l.all g := by
    intro l f g hfg
    induction l with
    | nil => rfl
    | cons y ys ih =>
      simp only [List.all_cons]
      rw [hfg y (by simp), ih (fun x hx => hfg x (by simp [hx]))]
  rw [allc fl _ (truthOf sc r) (fun x hx => key x (by simp [hx])),
      allc fl' _ (truthOf sc r) (fun x hx => key x (by simp [hx]))] at hb
  exact hb

theorem keep_filtEquiv (s : Src) (a b : List CX) (h : filtEquiv a b = true) : keep s a = keep s b := by
  unfold filtEquiv at h
  cases hs : sameSet a b with
  | true => exact keep_sameSet s a b hs
  | false =>
    simp only [hs, Bool.false_or] at h
    unfold keep
    apply List.filter_congr
    intro ir _
    exact ttEquiv_sound s.cols ir.2 a b h


end Dask.RelExpr
