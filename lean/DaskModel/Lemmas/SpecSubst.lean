import DaskModel.Lemmas.SpecEval
/-! `GraphNode.substitute`: evaluating a substituted node = evaluating the node in the substituted environment. -/
namespace Dask.TaskTerm

/-- the environment seen through a substitution: a renamed dependency reads the new key, an inlined dependency is
    computed on the spot -/
def substEnv (env : Obj → Option Obj) (σ : List (Obj × SubVal)) : Obj → Option Obj := fun d =>
  match σ.lookup d with
  | some (.key k') => env k'
  | some (.node m) => evalNode env m
  | none => env d

mutual
theorem substNode_eval (env : Obj → Option Obj) (σ : List (Obj × SubVal)) :
    ∀ n : Node, evalNode env (substNode σ n) = evalNode (substEnv env σ) n
  | .alias t => by
    cases hl : σ.lookup t with
    | none => simp [substNode, substEnv, hl, evalNode]
    | some s => cases s <;> simp [substNode, substEnv, hl, evalNode]
  | .ref k => by
    cases hl : σ.lookup k with
    | none => simp [substNode, substEnv, hl, evalNode]
    | some s => cases s <;> simp [substNode, substEnv, hl, evalNode]
  | .data v => by simp [substNode, evalNode]
  | .raw v => by simp [substNode, evalNode]
  | .task f args kw => by
    simp only [substNode, evalNode, substNodes_eval env σ args, substKw_eval env σ kw]
theorem substNodes_eval (env : Obj → Option Obj) (σ : List (Obj × SubVal)) :
    ∀ ns : List Node, evalNodes env (substNodes σ ns) = evalNodes (substEnv env σ) ns
  | [] => by simp [substNodes, evalNodes]
  | n :: ns => by simp only [substNodes, evalNodes, substNode_eval env σ n, substNodes_eval env σ ns]
theorem substKw_eval (env : Obj → Option Obj) (σ : List (Obj × SubVal)) :
    ∀ ns : List (Obj × Node), evalKw env (substKw σ ns) = evalKw (substEnv env σ) ns
  | [] => by simp [substKw, evalKw]
  | (a, n) :: ns => by simp only [substKw, evalKw, substNode_eval env σ n, substKw_eval env σ ns]
end

/-- a substitution is *valid* in `env` on the dependencies of a node when every renamed dependency has the value of its
    new key and every inlined dependency has the value of the node put in its place -/
def SubValid (env : Obj → Option Obj) (σ : List (Obj × SubVal)) (ds : List Obj) : Prop :=
  ∀ d ∈ ds, substEnv env σ d = env d

theorem substNode_eval_valid (env : Obj → Option Obj) (σ : List (Obj × SubVal)) (n : Node)
    (h : SubValid env σ n.deps) : evalNode env (substNode σ n) = evalNode env n := by
  rw [substNode_eval]
  exact evalNode_congr _ _ n h

/-! ### graph level: inlining the definition of one key into every node that refers to it -/

/-- `{k: n.substitute({a: dsk[a]}) for k, n in dsk.items()}` (the entry of `a` itself is kept as it is) -/
def inlineKey (g : NGraph) (a : Obj) (ta : Node) : NGraph :=
  g.map fun kn => (kn.1, if kn.1 == a then kn.2 else substNode [(a, .node ta)] kn.2)

theorem lookup_inlineKey (g : NGraph) (a : Obj) (ta : Node) (k : Obj) :
    (inlineKey g a ta).lookup k =
      (g.lookup k).map fun n => if k == a then n else substNode [(a, .node ta)] n := by
  induction g with
  | nil => simp [inlineKey]
  | cons kn rest ih =>
    obtain ⟨k', n'⟩ := kn
    unfold inlineKey at ih ⊢
    simp only [List.map_cons, List.lookup]
    by_cases hk : (k == k') = true
    · have : k = k' := eq_of_beq hk
      subst this
      simp
    · have hk' : (k == k') = false := by simpa using hk
      simp only [hk', ih]

theorem substEnv_single_le {E : Nat → Obj → Option Obj} (a : Obj) (ta : Node) (f : Nat)
    (hE : MonoFam E) (ha : ∀ f, E (f + 1) a = evalNode (E f) ta) :
    EnvLe (E f) (substEnv (E f) [(a, .node ta)]) ∧ EnvLe (substEnv (E f) [(a, .node ta)]) (E (f + 1)) := by
  constructor
  · intro d v hd
    unfold substEnv
    by_cases hda : (d == a) = true
    · have : d = a := eq_of_beq hda
      subst this
      simp only [List.lookup, beq_self_eq_true]
      rw [← ha f]
      exact hE f _ _ hd
    · have hda' : (d == a) = false := by simpa using hda
      simp only [List.lookup, hda']
      exact hd
  · intro d v hd
    unfold substEnv at hd
    by_cases hda : (d == a) = true
    · have : d = a := eq_of_beq hda
      subst this
      simp only [List.lookup, beq_self_eq_true] at hd
      rw [ha f]; exact hd
    · have hda' : (d == a) = false := by simpa using hda
      simp only [List.lookup, hda'] at hd
      exact hE f _ _ hd

/-- **Inlining a dependency by its node keeps every value**, for every key of the graph and every key outside it. -/
theorem inlineKey_computes (g : NGraph) (a : Obj) (ta : Node) (hta : g.lookup a = some ta) (cache : Obj → Option Obj)
    (k v : Obj) : Computes (inlineKey g a ta) cache k v ↔ Computes g cache k v := by
  have haG : ∀ f, evalKeyN g cache (f + 1) a = evalNode (evalKeyN g cache f) ta := fun f => by
    simp [evalKeyN, hta]
  have haO : ∀ f, evalKeyN (inlineKey g a ta) cache (f + 1) a = evalNode (evalKeyN (inlineKey g a ta) cache f) ta :=
    fun f => by simp [evalKeyN, lookup_inlineKey, hta]
  constructor
  · -- out → g
    rintro ⟨f, hf⟩
    suffices H : ∀ f k v, evalKeyN (inlineKey g a ta) cache f k = some v → Computes g cache k v from H f k v hf
    intro f
    induction f with
    | zero => intro k v h; simp [evalKeyN] at h
    | succ f ih =>
      intro k v h
      simp only [evalKeyN, lookup_inlineKey] at h
      cases hl : g.lookup k with
      | none => rw [hl] at h; exact ⟨1, by simpa [evalKeyN, hl] using h⟩
      | some n =>
        rw [hl] at h
        simp only [Option.map_some] at h
        by_cases hka : (k == a) = true
        · rw [if_pos hka] at h
          obtain ⟨F, hF⟩ := transfer (monoFam_evalKeyN g cache) h (fun d _ w hw => ih d w hw)
          exact ⟨F + 1, by simpa [evalKeyN, hl] using hF F (Nat.le_refl _)⟩
        · rw [if_neg hka, substNode_eval] at h
          obtain ⟨F, hF⟩ := transfer (monoFam_evalKeyN g cache) h (fun d _ w hw => by
            unfold substEnv at hw
            by_cases hda : (d == a) = true
            · have : d = a := eq_of_beq hda
              subst this
              simp only [List.lookup, beq_self_eq_true] at hw
              obtain ⟨F, hF⟩ := transfer (monoFam_evalKeyN g cache) hw (fun x _ wx hx => ih x wx hx)
              exact ⟨F + 1, by rw [haG F]; exact hF F (Nat.le_refl _)⟩
            · have hda' : (d == a) = false := by simpa using hda
              simp only [List.lookup, hda'] at hw
              exact ih d w hw)
          exact ⟨F + 1, by simpa [evalKeyN, hl] using hF F (Nat.le_refl _)⟩
  · -- g → out
    rintro ⟨f, hf⟩
    suffices H : ∀ f k v, evalKeyN g cache f k = some v → Computes (inlineKey g a ta) cache k v from H f k v hf
    intro f
    induction f with
    | zero => intro k v h; simp [evalKeyN] at h
    | succ f ih =>
      intro k v h
      simp only [evalKeyN] at h
      cases hl : g.lookup k with
      | none => rw [hl] at h; exact ⟨1, by simpa [evalKeyN, lookup_inlineKey, hl] using h⟩
      | some n =>
        rw [hl] at h
        obtain ⟨F, hF⟩ := transfer (monoFam_evalKeyN (inlineKey g a ta) cache) h (fun d _ w hw => ih d w hw)
        refine ⟨F + 1, ?_⟩
        simp only [evalKeyN, lookup_inlineKey, hl, Option.map_some]
        by_cases hka : (k == a) = true
        · rw [if_pos hka]; exact hF F (Nat.le_refl _)
        · rw [if_neg hka, substNode_eval]
          exact evalNode_mono (substEnv_single_le a ta F (monoFam_evalKeyN (inlineKey g a ta) cache) haO).1
            (hF F (Nat.le_refl _))

end Dask.TaskTerm

namespace Dask.TaskTerm

/-! ### graph level: renaming one dependency everywhere and adding an alias under the new name -/

/-- `{k: n.substitute({old: fresh}) for k ≠ old} ∪ {old: dsk[old], fresh: Alias(fresh, old)}` -/
def renameDep (g : NGraph) (old fresh : Obj) : NGraph :=
  (g.map fun kn => (kn.1, if kn.1 == old then kn.2 else substNode [(old, .key fresh)] kn.2)) ++ [(fresh, .alias old)]

theorem lookup_renameDep (g : NGraph) (old fresh k : Obj) :
    (renameDep g old fresh).lookup k =
      match g.lookup k with
      | some n => some (if k == old then n else substNode [(old, .key fresh)] n)
      | none => if k == fresh then some (.alias old) else none := by
  induction g with
  | nil =>
    simp only [renameDep, List.map_nil, List.nil_append, List.lookup]
    by_cases h : (k == fresh) = true
    · simp [h]
    · have h' : (k == fresh) = false := by simpa using h
      simp [h']
  | cons kn rest ih =>
    obtain ⟨k', n'⟩ := kn
    unfold renameDep at ih ⊢
    simp only [List.map_cons, List.cons_append, List.lookup]
    by_cases hk : (k == k') = true
    · have : k = k' := eq_of_beq hk
      subst this
      simp
    · have hk' : (k == k') = false := by simpa using hk
      simp only [hk', ih]

/-- **Renaming a dependency keeps every value** (of every key but the new name itself), provided the new name is not
    a key of the graph and is not referred to by it. -/
theorem renameDep_computes (g : NGraph) (old fresh : Obj) (hfk : g.lookup fresh = none)
    (hfr : ∀ k n, g.lookup k = some n → fresh ∉ n.deps) (hne : old ≠ fresh) (cache : Obj → Option Obj)
    (k v : Obj) (hk : k ≠ fresh) : Computes (renameDep g old fresh) cache k v ↔ Computes g cache k v := by
  have hfresh : ∀ f, evalKeyN (renameDep g old fresh) cache (f + 1) fresh = evalKeyN (renameDep g old fresh) cache f old :=
    fun f => by simp [evalKeyN, lookup_renameDep, hfk, evalNode]
  have hnf : (old == fresh) = false := by simpa using hne
  constructor
  · rintro ⟨f, hf⟩
    suffices H : ∀ f k v, k ≠ fresh → evalKeyN (renameDep g old fresh) cache f k = some v → Computes g cache k v from
      H f k v hk hf
    intro f
    induction f with
    | zero => intro k v _ h; simp [evalKeyN] at h
    | succ f ih =>
      intro k v hk h
      have hkf : (k == fresh) = false := by simpa using hk
      simp only [evalKeyN, lookup_renameDep] at h
      cases hl : g.lookup k with
      | none => rw [hl] at h; simp only [hkf] at h; exact ⟨1, by simpa [evalKeyN, hl] using h⟩
      | some n =>
        rw [hl] at h
        simp only at h
        by_cases hko : (k == old) = true
        · rw [if_pos hko] at h
          obtain ⟨F, hF⟩ := transfer (monoFam_evalKeyN g cache) h
            (fun d hd w hw => ih d w (fun e => hfr k n hl (e ▸ hd)) hw)
          exact ⟨F + 1, by simpa [evalKeyN, hl] using hF F (Nat.le_refl _)⟩
        · rw [if_neg hko, substNode_eval] at h
          obtain ⟨F, hF⟩ := transfer (monoFam_evalKeyN g cache) h (fun d hd w hw => by
            have hdf : d ≠ fresh := fun e => hfr k n hl (e ▸ hd)
            unfold substEnv at hw
            by_cases hdo : (d == old) = true
            · have : d = old := eq_of_beq hdo
              subst this
              simp only [List.lookup, beq_self_eq_true] at hw
              -- the alias `fresh → old` was evaluated one level below
              cases f with
              | zero => simp [evalKeyN] at hw
              | succ f0 =>
                rw [hfresh f0] at hw
                exact ih d w hdf (evalKeyN_succ _ cache f0 d w hw)
            · have hdo' : (d == old) = false := by simpa using hdo
              simp only [List.lookup, hdo'] at hw
              exact ih d w hdf hw)
          exact ⟨F + 1, by simpa [evalKeyN, hl] using hF F (Nat.le_refl _)⟩
  · rintro ⟨f, hf⟩
    suffices H : ∀ f k v, k ≠ fresh → evalKeyN g cache f k = some v → Computes (renameDep g old fresh) cache k v from
      H f k v hk hf
    intro f
    induction f with
    | zero => intro k v _ h; simp [evalKeyN] at h
    | succ f ih =>
      intro k v hk h
      have hkf : (k == fresh) = false := by simpa using hk
      simp only [evalKeyN] at h
      cases hl : g.lookup k with
      | none => rw [hl] at h; exact ⟨1, by simpa [evalKeyN, lookup_renameDep, hl, hkf] using h⟩
      | some n =>
        rw [hl] at h
        obtain ⟨F, hF⟩ := transfer (monoFam_evalKeyN (renameDep g old fresh) cache) h
          (fun d hd w hw => ih d w (fun e => hfr k n hl (e ▸ hd)) hw)
        by_cases hko : (k == old) = true
        · exact ⟨F + 1, by simpa [evalKeyN, lookup_renameDep, hl, hko] using hF F (Nat.le_refl _)⟩
        · refine ⟨F + 2, ?_⟩
          have hlk : (renameDep g old fresh).lookup k = some (substNode [(old, .key fresh)] n) := by
            rw [lookup_renameDep, hl]; simp [hko]
          have hstep : evalKeyN (renameDep g old fresh) cache (F + 1 + 1) k =
              evalNode (evalKeyN (renameDep g old fresh) cache (F + 1)) (substNode [(old, .key fresh)] n) := by
            rw [evalKeyN, hlk]
          rw [hstep, substNode_eval]
          refine evalNode_mono ?_ (hF F (Nat.le_refl _))
          intro d w hd
          unfold substEnv
          by_cases hdo : (d == old) = true
          · have : d = old := eq_of_beq hdo
            subst this
            simp only [List.lookup, beq_self_eq_true]
            rw [hfresh F]; exact hd
          · have hdo' : (d == old) = false := by simpa using hdo
            simp only [List.lookup, hdo']
            exact evalKeyN_succ _ cache F d w hd

end Dask.TaskTerm
