import DaskModel.Model.Moment
import DaskModel.Lemmas.ArrayReduce
import Mathlib.Algebra.Order.Field.Rat
import Mathlib.Tactic.Ring
import Mathlib.Tactic.FieldSimp
import Mathlib.Tactic.Linarith
/-! The k-way Chan / Pébay merge of `(n, Σx, Σ(x-mean)²)` that `moment_combine` performs equals the same triple of the
concatenated data (exact rational arithmetic), hence the var/std tree equals NumPy's two-pass formula for every
blocking — empty blocks included —, every `split_every` and every valid depth. -/
namespace Dask.ArrayReduce
variable {β β' γ γ' : Type}

/-- 1-d naturality of the tree: if `combine`/`aggregate` commute with a map `φ` of the partials, so does the tree -/
theorem partialReduce_map (φ : β' → β) (ψ : γ' → γ) (f : List β → γ) (f' : List β' → γ')
    (hf : ∀ ys, f (ys.map φ) = ψ (f' ys)) (k : Nat) (xs : List β') :
    partialReduce f k (xs.map φ) = (partialReduce f' k xs).map ψ := by
  unfold partialReduce
  rw [partitionAll_map, List.map_map, List.map_map]
  apply List.map_congr_left
  intro ys _
  exact hf ys

theorem iter_partialReduce_map (φ : β' → β) (comb : List β → β) (comb' : List β' → β')
    (hc : ∀ ys, comb (ys.map φ) = φ (comb' ys)) (k : Nat) :
    ∀ (n : Nat) (xs : List β'),
      iter (partialReduce comb k) n (xs.map φ) = (iter (partialReduce comb' k) n xs).map φ := by
  intro n
  induction n with
  | zero => intro xs; rfl
  | succ n ih =>
    intro xs
    simp only [iter]
    rw [partialReduce_map φ φ comb comb' hc, ih]

theorem treeReduce_map (φ : β' → β) (ψ : γ' → γ) (comb : List β → β) (agg : List β → γ)
    (comb' : List β' → β') (agg' : List β' → γ')
    (hc : ∀ ys, comb (ys.map φ) = φ (comb' ys)) (ha : ∀ ys, agg (ys.map φ) = ψ (agg' ys))
    (k depth : Nat) (xs : List β') :
    treeReduce comb agg k depth (xs.map φ) = (treeReduce comb' agg' k depth xs).map ψ := by
  unfold treeReduce
  rw [iter_partialReduce_map φ comb comb' hc, partialReduce_map φ ψ agg agg' ha]

theorem hom_flatten {α : Type} : Hom (List.flatten : List (List α) → List α) List.flatten := by
  intro gs _ _
  exact List.flatten_flatten.symm

end Dask.ArrayReduce

namespace Dask.Moment
open Dask.ArrayReduce

theorem rsum_cons (x : Rat) (xs : List Rat) : rsum (x :: xs) = x + rsum xs := rfl
theorem rsum_append (xs ys : List Rat) : rsum (xs ++ ys) = rsum xs + rsum ys := by
  induction xs with
  | nil => simp [rsum]
  | cons x xs ih => simp only [List.cons_append, rsum_cons, ih]; ring

theorem rsum_flatten (gs : List (List Rat)) : rsum gs.flatten = rsum (gs.map rsum) := by
  induction gs with
  | nil => rfl
  | cons g gs ih => simp only [List.flatten_cons, rsum_append, List.map_cons, rsum_cons, ih]

theorem nsum_lengths (gs : List (List Rat)) : nsum (gs.map List.length) = gs.flatten.length := by
  induction gs with
  | nil => rfl
  | cons g gs ih =>
    simp only [List.map_cons, List.flatten_cons, List.length_append, ← ih]; rfl

theorem sqdev_append (c : Rat) (xs ys : List Rat) : sqdev c (xs ++ ys) = sqdev c xs + sqdev c ys := by
  unfold sqdev; rw [List.map_append, rsum_append]

theorem sqdev_flatten (c : Rat) (gs : List (List Rat)) : sqdev c gs.flatten = rsum (gs.map (sqdev c)) := by
  induction gs with
  | nil => rfl
  | cons g gs ih => simp only [List.flatten_cons, sqdev_append, List.map_cons, rsum_cons, ih]

/-- Σ(x-c)² = Σx² - 2c Σx + n c² -/
theorem sqdev_expand (c : Rat) (xs : List Rat) :
    sqdev c xs = sqdev 0 xs - 2 * c * rsum xs + (xs.length : Rat) * c * c := by
  induction xs with
  | nil => simp [sqdev, rsum]
  | cons x xs ih =>
    have h1 : sqdev c (x :: xs) = (x - c) * (x - c) + sqdev c xs := rfl
    have h2 : sqdev 0 (x :: xs) = (x - 0) * (x - 0) + sqdev 0 xs := rfl
    rw [h1, h2, ih, rsum_cons]
    push_cast [List.length_cons]
    ring

/-- **the shift identity behind the Chan merge**: deviations about any `c` = deviations about the block mean plus
    `n (mean - c)²` (for a non-empty block) -/
theorem sqdev_shift (c : Rat) (b : List Rat) (hb : b ≠ []) :
    sqdev c b = sqdev (rsum b / (b.length : Rat)) b
      + (b.length : Rat) * ((rsum b / (b.length : Rat) - c) * (rsum b / (b.length : Rat) - c)) := by
  have hn : (b.length : Rat) ≠ 0 := by
    have : b.length ≠ 0 := by cases b with | nil => exact absurd rfl hb | cons => simp
    exact_mod_cast this
  rw [sqdev_expand c b, sqdev_expand (rsum b / (b.length : Rat)) b]
  field_simp
  ring

/-- one term of `moment_combine` for the partial of block `b`, about the global mean `mu` -/
theorem block_term (mu : Rat) (b : List Rat) :
    (momChunk b).m2 + ((momChunk b).n : Rat) * (inner mu (momChunk b) * inner mu (momChunk b)) = sqdev mu b := by
  cases b with
  | nil => simp [momChunk, inner, sqdev, rsum]
  | cons x xs =>
    have hne : (x :: xs) ≠ [] := by simp
    have := sqdev_shift mu (x :: xs) hne
    simp only [momChunk, inner, List.length_cons, Nat.succ_ne_zero, if_false, Nat.add_one_ne_zero] at this ⊢
    rw [this]

theorem rsum_map_add {α : Type} (f g : α → Rat) (xs : List α) :
    rsum (xs.map f) + rsum (xs.map g) = rsum (xs.map fun x => f x + g x) := by
  induction xs with
  | nil => simp [rsum]
  | cons x xs ih => simp only [List.map_cons, rsum_cons, ← ih]; ring

/-- **Chan merge = direct computation**: combining the partials of the blocks gives the partial of the concatenation -/
theorem momCombine_chunks (ds : List (List Rat)) : momCombine (ds.map momChunk) = momChunk ds.flatten := by
  unfold momCombine
  have hn : nsum ((ds.map momChunk).map (·.n)) = ds.flatten.length := by
    rw [List.map_map, ← nsum_lengths]; rfl
  have ht : rsum ((ds.map momChunk).map (·.total)) = rsum ds.flatten := by
    rw [List.map_map, rsum_flatten]; rfl
  simp only [hn, ht]
  show (⟨_, _, _⟩ : P) = ⟨ds.flatten.length, rsum ds.flatten, sqdev _ ds.flatten⟩
  congr 1
  rw [List.map_map, List.map_map, rsum_map_add, sqdev_flatten]
  congr 1
  apply List.map_congr_left
  intro b _
  exact block_term _ b

theorem momAgg_chunks (ddof : Nat) (ds : List (List Rat)) :
    momAgg ddof (ds.map momChunk) = varSpec ddof ds.flatten := by
  unfold momAgg varSpec
  rw [momCombine_chunks]
  rfl

end Dask.Moment
