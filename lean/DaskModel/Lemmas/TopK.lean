import DaskModel.Model.ArrayReduce
/-! Top-k: "the k best of a concatenation are the k best of the per-part k best" for the insertion sort of
`Model/ArrayReduce.lean`, for any decidable total order `le` on `Int` (descending for `k > 0`, ascending for `k < 0`). -/
namespace Dask.ArrayReduce

structure IsTotalOrder (le : Int → Int → Bool) : Prop where
  total : ∀ a b, le a b = true ∨ le b a = true
  trans : ∀ a b c, le a b = true → le b c = true → le a c = true
  antisymm : ∀ a b, le a b = true → le b a = true → a = b

variable {le : Int → Int → Bool}

abbrev SortedBy (le : Int → Int → Bool) (xs : List Int) : Prop := List.Pairwise (fun a b => le a b = true) xs

theorem insertSorted_perm (le : Int → Int → Bool) (x : Int) (xs : List Int) :
    (insertSorted le x xs).Perm (x :: xs) := by
  induction xs with
  | nil => exact List.Perm.refl _
  | cons y ys ih =>
    simp only [insertSorted]
    split
    · exact List.Perm.refl _
    · exact (List.Perm.cons y ih).trans (List.Perm.swap x y ys)

theorem isort_perm (le : Int → Int → Bool) (xs : List Int) : (isort le xs).Perm xs := by
  induction xs with
  | nil => exact List.Perm.refl _
  | cons x xs ih => exact (insertSorted_perm le x _).trans (List.Perm.cons x ih)

theorem insertSorted_sorted (h : IsTotalOrder le) (x : Int) (xs : List Int) (hs : SortedBy le xs) :
    SortedBy le (insertSorted le x xs) := by
  induction xs with
  | nil => simp [insertSorted, SortedBy]
  | cons y ys ih =>
    have hy := List.pairwise_cons.mp hs
    simp only [insertSorted]
    split
    · rename_i hxy
      refine List.pairwise_cons.mpr ⟨?_, hs⟩
      intro z hz
      rcases List.mem_cons.mp hz with rfl | hz'
      · exact hxy
      · exact h.trans _ _ _ hxy (hy.1 z hz')
    · rename_i hxy
      have hyx : le y x = true := by
        rcases h.total x y with h1 | h1
        · exact absurd h1 hxy
        · exact h1
      refine List.pairwise_cons.mpr ⟨?_, ih hy.2⟩
      intro z hz
      have := (insertSorted_perm le x ys).subset hz
      rcases List.mem_cons.mp this with rfl | hz'
      · exact hyx
      · exact hy.1 z hz'

theorem isort_sorted (h : IsTotalOrder le) (xs : List Int) : SortedBy le (isort le xs) := by
  induction xs with
  | nil => simp [isort, SortedBy]
  | cons x xs ih => exact insertSorted_sorted h x _ ih

/-- two sorted arrangements of the same multiset are equal -/
theorem sorted_unique (h : IsTotalOrder le) {xs ys : List Int} (hx : SortedBy le xs) (hy : SortedBy le ys)
    (hp : xs.Perm ys) : xs = ys :=
  List.Perm.eq_of_pairwise (fun a b _ _ hab hba => h.antisymm a b hab hba) hx hy hp

theorem isort_of_sorted (h : IsTotalOrder le) {xs : List Int} (hx : SortedBy le xs) : isort le xs = xs :=
  sorted_unique h (isort_sorted h xs) hx (isort_perm le xs)

/-- merge of two sorted lists -/
def merge (le : Int → Int → Bool) : List Int → List Int → List Int
  | [], ys => ys
  | xs, [] => xs
  | x :: xs, y :: ys => if le x y then x :: merge le xs (y :: ys) else y :: merge le (x :: xs) ys
termination_by xs ys => xs.length + ys.length

theorem merge_nil_left (le : Int → Int → Bool) (ys : List Int) : merge le [] ys = ys := by
  rw [merge]
theorem merge_nil_right (le : Int → Int → Bool) (xs : List Int) : merge le xs [] = xs := by
  cases xs with
  | nil => rw [merge]
  | cons x xs => rw [merge]; simp
theorem merge_cons (le : Int → Int → Bool) (x y : Int) (xs ys : List Int) :
    merge le (x :: xs) (y :: ys) = if le x y then x :: merge le xs (y :: ys) else y :: merge le (x :: xs) ys := by
  rw [merge]

theorem merge_perm (le : Int → Int → Bool) : ∀ (xs ys : List Int), (merge le xs ys).Perm (xs ++ ys) := by
  intro xs ys
  induction xs generalizing ys with
  | nil => rw [merge_nil_left]; exact List.Perm.refl _
  | cons x xs ihx =>
    induction ys with
    | nil => rw [merge_nil_right]; simp
    | cons y ys ihy =>
      rw [merge_cons]
      split
      · exact List.Perm.cons x (ihx (y :: ys))
      · refine (List.Perm.cons y ihy).trans ?_
        exact (List.perm_middle (a := y) (l₁ := x :: xs) (l₂ := ys)).symm

theorem merge_sorted (h : IsTotalOrder le) : ∀ (xs ys : List Int), SortedBy le xs → SortedBy le ys →
    SortedBy le (merge le xs ys) := by
  intro xs
  induction xs with
  | nil => intro ys _ hy; rw [merge_nil_left]; exact hy
  | cons x xs ihx =>
    intro ys
    induction ys with
    | nil => intro hx _; rw [merge_nil_right]; exact hx
    | cons y ys ihy =>
      intro hx hy
      have hx' := List.pairwise_cons.mp hx
      have hy' := List.pairwise_cons.mp hy
      rw [merge_cons]
      split
      · rename_i hxy
        refine List.pairwise_cons.mpr ⟨?_, ihx (y :: ys) hx'.2 hy⟩
        intro z hz
        have := (merge_perm le xs (y :: ys)).subset hz
        rcases List.mem_append.mp this with h1 | h1
        · exact hx'.1 z h1
        · rcases List.mem_cons.mp h1 with rfl | h2
          · exact hxy
          · exact h.trans _ _ _ hxy (hy'.1 z h2)
      · rename_i hxy
        have hyx : le y x = true := by
          rcases h.total x y with h1 | h1
          · exact absurd h1 hxy
          · exact h1
        refine List.pairwise_cons.mpr ⟨?_, ihy hx hy'.2⟩
        intro z hz
        have := (merge_perm le (x :: xs) ys).subset hz
        rcases List.mem_append.mp this with h1 | h1
        · rcases List.mem_cons.mp h1 with rfl | h2
          · exact hyx
          · exact h.trans _ _ _ hyx (hx'.1 z h2)
        · exact hy'.1 z h1

theorem isort_append (h : IsTotalOrder le) (xs ys : List Int) :
    isort le (xs ++ ys) = merge le (isort le xs) (isort le ys) := by
  apply sorted_unique h (isort_sorted h _) (merge_sorted h _ _ (isort_sorted h xs) (isort_sorted h ys))
  exact (isort_perm le _).trans ((List.Perm.append (isort_perm le xs) (isort_perm le ys)).symm.trans
    (merge_perm le _ _).symm)

/-- the first `k` outputs of a merge only look at the first `k` elements of each input -/
theorem take_merge (le : Int → Int → Bool) : ∀ (k : Nat) (s t : List Int),
    (merge le s t).take k = (merge le (s.take k) (t.take k)).take k := by
  intro k
  induction k with
  | zero => intro s t; simp
  | succ k ih =>
    intro s t
    cases s with
    | nil => simp [merge_nil_left, List.take_take]
    | cons a s =>
      cases t with
      | nil => simp [merge_nil_right, List.take_take]
      | cons b t =>
        simp only [List.take_succ_cons, merge_cons]
        split
        · simp only [List.take_succ_cons]
          rw [ih s (b :: t), ih (s.take k) (b :: t.take k)]
          simp only [List.take_take, Nat.min_self]
          congr 3
          cases k with
          | zero => rfl
          | succ k => simp [List.take_take]
        · simp only [List.take_succ_cons]
          rw [ih (a :: s) t, ih (a :: s.take k) (t.take k)]
          simp only [List.take_take, Nat.min_self]
          congr 2
          cases k with
          | zero => rfl
          | succ k => simp [List.take_take]

theorem take_sorted (k : Nat) {xs : List Int} (hx : SortedBy le xs) : SortedBy le (xs.take k) :=
  List.Pairwise.sublist (List.take_sublist k xs) hx

/-- the `k` best of a concatenation = the `k` best of the two parts' `k` best -/
theorem topk_append (h : IsTotalOrder le) (k : Nat) (xs ys : List Int) :
    (isort le (xs ++ ys)).take k = (isort le ((isort le xs).take k ++ (isort le ys).take k)).take k := by
  rw [isort_append h, isort_append h, take_merge,
    isort_of_sorted h (take_sorted k (isort_sorted h xs)), isort_of_sorted h (take_sorted k (isort_sorted h ys))]

/-- the `k` best of many groups = the `k` best of the groups' `k` best (the chunk → combine → aggregate tree) -/
theorem topk_parts (h : IsTotalOrder le) (k : Nat) (ls : List (List Int)) :
    (isort le ((ls.map fun l => (isort le l).take k).flatten)).take k = (isort le ls.flatten).take k := by
  induction ls with
  | nil => rfl
  | cons l ls ih =>
    simp only [List.map_cons, List.flatten_cons]
    rw [topk_append h, topk_append h k l, ih]
    rw [isort_of_sorted h (take_sorted k (isort_sorted h l))]
    simp only [List.take_take, Nat.min_self]

theorem desc_order : IsTotalOrder (fun a b : Int => decide (b ≤ a)) :=
  ⟨by intro a b; simp only [decide_eq_true_eq]; omega,
   by intro a b c; simp only [decide_eq_true_eq]; omega,
   by intro a b; simp only [decide_eq_true_eq]; omega⟩

theorem asc_order : IsTotalOrder (fun a b : Int => decide (a ≤ b)) :=
  ⟨by intro a b; simp only [decide_eq_true_eq]; omega,
   by intro a b c; simp only [decide_eq_true_eq]; omega,
   by intro a b; simp only [decide_eq_true_eq]; omega⟩

end Dask.ArrayReduce
