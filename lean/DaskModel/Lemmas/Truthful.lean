import DaskModel.Model.Divs
import DaskModel.Lemmas.SDL
import DaskModel.Lemmas.Repart
/-! `Truthful`: known divisions describe the partitions (C41), and closure lemmas. Core Lean only. -/
namespace Dask.Divs

/-- **C41 predicate.** `divs` has one more entry than there are partitions, is non-decreasing, and every
    row of partition `i` has its key in `[divs[i], divs[i+1])` — closed on the right for the last partition. -/
def Truthful {α : Type} (key : α → Nat) (divs : List Nat) (parts : List (List α)) : Prop :=
  parts.length + 1 = divs.length ∧ divs.Pairwise (· ≤ ·) ∧
  ∀ i p lo hi, parts[i]? = some p → divs[i]? = some lo → divs[i + 1]? = some hi →
    ∀ r ∈ p, lo ≤ key r ∧ (key r < hi ∨ (i + 1 = parts.length ∧ key r ≤ hi))

/-- a legal division vector: strictly increasing except that the last two entries may coincide -/
def ValidDivs (d : List Nat) : Prop := 2 ≤ d.length ∧ d.dropLast.Pairwise (· < ·) ∧ d.Pairwise (· ≤ ·)

/-- partition-wise operations that only keep (or re-label without changing the index key of) rows of
    the same partition preserve truthfulness: filters, projections, assign, elementwise arithmetic,
    `map_partitions` of index-preserving functions, cumulative ops … -/
theorem Truthful.map {α β : Type} {key : α → Nat} {key' : β → Nat} {divs : List Nat} {parts : List (List α)}
    (h : Truthful key divs parts) (f : List α → List β)
    (hf : ∀ p, ∀ r ∈ f p, ∃ r' ∈ p, key' r = key r') : Truthful key' divs (parts.map f) := by
  obtain ⟨hlen, hs, hrows⟩ := h
  refine ⟨by simpa using hlen, hs, ?_⟩
  intro i p lo hi hp hlo hhi r hr
  simp only [List.getElem?_map, Option.map_eq_some_iff] at hp
  obtain ⟨p0, hp0, rfl⟩ := hp
  obtain ⟨r', hr', hk⟩ := hf p0 r hr
  have := hrows i p0 lo hi hp0 hlo hhi r' hr'
  simpa [hk] using this

end Dask.Divs
