import DaskModel.Model.SortValues
import DaskModel.Lemmas.ShufflePerm
/-! Lemmas for the `sort_values` / `set_index` pipeline model (`Model/SortValues.lean`): the key order, monotone
    routing by `set_partitions_pre`, "sorted + permutation" of the pipeline for ANY sound shuffle, and what the
    `presorted` flag of `_calculate_divisions` implies. Core Lean only. -/
namespace Dask.SortValues
open Dask.Shuffle
variable {β : Type}

/-! ### insertion sort -/

theorem insertBy_perm (le : β → β → Bool) (x : β) : ∀ l : List β, (insertBy le x l).Perm (x :: l)
  | [] => List.Perm.refl _
  | y :: ys => by
    unfold insertBy
    split
    · exact List.Perm.refl _
    · exact (List.Perm.cons y (insertBy_perm le x ys)).trans (List.Perm.swap x y ys)

theorem isort_perm (le : β → β → Bool) : ∀ l : List β, (isort le l).Perm l
  | [] => List.Perm.refl _
  | x :: xs => (insertBy_perm le x (isort le xs)).trans (List.Perm.cons x (isort_perm le xs))

theorem insertBy_pairwise (le : β → β → Bool) (trans : ∀ a b c, le a b = true → le b c = true → le a c = true)
    (total : ∀ a b, (le a b || le b a) = true) (x : β) :
    ∀ l : List β, l.Pairwise (fun a b => le a b = true) → (insertBy le x l).Pairwise (fun a b => le a b = true)
  | [], _ => by simp [insertBy]
  | y :: ys, h => by
    unfold insertBy
    rw [List.pairwise_cons] at h
    split
    · rename_i hxy
      rw [List.pairwise_cons]
      refine ⟨?_, List.pairwise_cons.mpr h⟩
      intro z hz
      rcases List.mem_cons.mp hz with rfl | hz
      · exact hxy
      · exact trans _ _ _ hxy (h.1 z hz)
    · rename_i hxy
      have hyx : le y x = true := by
        have := total x y
        cases h1 : le x y
        · simpa [h1] using this
        · exact absurd h1 hxy
      rw [List.pairwise_cons]
      refine ⟨?_, insertBy_pairwise le trans total x ys h.2⟩
      intro z hz
      rcases List.mem_cons.mp ((insertBy_perm le x ys).mem_iff.mp hz) with rfl | hz
      · exact hyx
      · exact h.1 z hz

theorem isort_pairwise (le : β → β → Bool) (trans : ∀ a b c, le a b = true → le b c = true → le a c = true)
    (total : ∀ a b, (le a b || le b a) = true) : ∀ l : List β, (isort le l).Pairwise (fun a b => le a b = true)
  | [] => List.Pairwise.nil
  | x :: xs => insertBy_pairwise le trans total x _ (isort_pairwise le trans total xs)

/-! ### the key order -/
theorem keyLe_total (asc naLast : Bool) (a b : Option Nat) : (keyLe asc naLast a b || keyLe asc naLast b a) = true := by
  cases a <;> cases b <;> cases asc <;> cases naLast <;> simp [keyLe] <;> omega

theorem keyLe_trans (asc naLast : Bool) (a b c : Option Nat) :
    keyLe asc naLast a b = true → keyLe asc naLast b c = true → keyLe asc naLast a c = true := by
  cases a <;> cases b <;> cases c <;> cases asc <;> cases naLast <;> simp [keyLe] <;> omega

theorem keyLe_antisymm (asc naLast : Bool) (a b : Option Nat) :
    keyLe asc naLast a b = true → keyLe asc naLast b a = true → a = b := by
  cases a <;> cases b <;> cases asc <;> cases naLast <;> simp [keyLe] <;> omega

/-! ### `set_partitions_pre` is monotone in the key order -/
theorem bisectRight_mono (xs : List Nat) (v w : Nat) (h : v ≤ w) : bisectRight xs v ≤ bisectRight xs w := by
  unfold bisectRight
  induction xs with
  | nil => simp
  | cons a as ih =>
    simp only [List.takeWhile_cons]
    by_cases h1 : a ≤ v
    · have h2 : a ≤ w := by omega
      simp [h1, h2]; exact ih
    · simp [h1]

theorem spp_lt (divs : List Nat) (x : Option Nat) (asc naLast : Bool) (h2 : 2 ≤ divs.length) :
    setPartitionsPre divs x asc naLast < divs.length - 1 := by
  unfold setPartitionsPre
  cases x with
  | none => simp only; split <;> omega
  | some v =>
    have := bisectRight_le_length divs v
    cases asc with
    | true =>
      simp only [if_true]
      split
      · omega
      · split <;> omega
    | false =>
      simp only [Bool.false_eq_true, if_false]
      split
      · omega
      · split <;> omega

theorem spp_mono (divs : List Nat) (asc naLast : Bool) (a b : Option Nat) (h2 : 2 ≤ divs.length)
    (h : keyLe asc naLast a b = true) :
    setPartitionsPre divs a asc naLast ≤ setPartitionsPre divs b asc naLast := by
  have hb := spp_lt divs b asc naLast h2
  have ha := spp_lt divs a asc naLast h2
  cases a with
  | none =>
    cases b with
    | none => exact Nat.le_refl _
    | some w =>
      have : naLast = false := by cases naLast <;> simp_all [keyLe]
      subst this
      simp [setPartitionsPre]
  | some v =>
    cases b with
    | none =>
      have : naLast = true := by cases naLast <;> simp_all [keyLe]
      subst this
      have e : setPartitionsPre divs none asc true = divs.length - 2 := by simp [setPartitionsPre]
      rw [e]; omega
    | some w =>
      have hle1 := bisectRight_le_length divs v
      have hle2 := bisectRight_le_length divs w
      cases asc with
      | true =>
        have hvw : v ≤ w := by simpa [keyLe] using h
        have hm := bisectRight_mono divs v w hvw
        unfold setPartitionsPre
        simp only [if_true]
        split <;> split <;> (try split) <;> (try split) <;> omega
      | false =>
        have hvw : w ≤ v := by simpa [keyLe] using h
        have hm := bisectRight_mono divs w v hvw
        unfold setPartitionsPre
        simp only [Bool.false_eq_true, if_false]
        split <;> split <;> (try split) <;> (try split) <;> omega

/-! ### the pipeline -/

theorem mem_assigned (key : β → Option Nat) (divs : List Nat) (asc naLast : Bool) (parts : List (List β))
    (r : Nat × β) (h : r ∈ (parts.map (assignPartitions key divs asc naLast)).flatten) :
    r.1 = setPartitionsPre divs (key r.2) asc naLast ∧ r.2 ∈ parts.flatten := by
  obtain ⟨l, hl, hr⟩ := List.mem_flatten.mp h
  obtain ⟨rows, hrows, rfl⟩ := List.mem_map.mp hl
  unfold assignPartitions at hr
  obtain ⟨x, hx, rfl⟩ := List.mem_map.mp hr
  exact ⟨rfl, List.mem_flatten.mpr ⟨rows, hrows, hx⟩⟩

theorem assigned_flatten_snd (key : β → Option Nat) (divs : List Nat) (asc naLast : Bool) (parts : List (List β)) :
    (parts.map (assignPartitions key divs asc naLast)).flatten.map (·.2) = parts.flatten := by
  induction parts with
  | nil => rfl
  | cons p ps ih =>
    simp only [List.map_cons, List.flatten_cons, List.map_append, ih]
    congr 1
    simp [assignPartitions, Function.comp_def]

theorem assigned_target_lt (key : β → Option Nat) (divs : List Nat) (asc naLast : Bool) (parts : List (List β))
    (h2 : 2 ≤ divs.length) :
    ∀ rows ∈ parts.map (assignPartitions key divs asc naLast), ∀ r ∈ rows, r.1 < divs.length - 1 := by
  intro rows hrows r hr
  have := (mem_assigned key divs asc naLast parts r (List.mem_flatten.mpr ⟨rows, hrows, hr⟩)).1
  rw [this]
  exact spp_lt divs _ asc naLast h2

theorem flatten_map_perm {γ δ : Type} (L : List γ) (f g : γ → List δ) (h : ∀ a ∈ L, (f a).Perm (g a)) :
    (L.map f).flatten.Perm (L.map g).flatten := by
  induction L with
  | nil => simp
  | cons a as ih =>
    simp only [List.map_cons, List.flatten_cons]
    exact List.Perm.append (h a List.mem_cons_self) (ih fun b hb => h b (List.mem_cons_of_mem _ hb))

/-- **globally ordered**: whatever shuffle is used, if every row found in output `p` is an input row with
    `_partitions = p` and every partition is then sorted, the concatenation of the outputs is sorted -/
theorem sortValuesWith_sorted (sh : List (List (Nat × β)) → Nat → List (List (Nat × β))) (sortp : List β → List β)
    (key : β → Option Nat) (divs : List Nat) (asc naLast : Bool) (parts : List (List β)) (h2 : 2 ≤ divs.length)
    (hsound : ∀ p out, (sh (parts.map (assignPartitions key divs asc naLast)) (divs.length - 1))[p]? = some out →
      ∀ r ∈ out, r ∈ (parts.map (assignPartitions key divs asc naLast)).flatten ∧ r.1 = p)
    (hsorted : ∀ l, (sortp l).Pairwise fun a b => keyLe asc naLast (key a) (key b) = true)
    (hmem : ∀ l r, r ∈ sortp l → r ∈ l) :
    (sortValuesWith sh sortp key divs asc naLast parts).flatten.Pairwise
      fun a b => keyLe asc naLast (key a) (key b) = true := by
  unfold sortValuesWith
  rw [List.pairwise_flatten]
  constructor
  · intro l hl
    obtain ⟨o, _, rfl⟩ := List.mem_map.mp hl
    exact hsorted _
  · rw [List.pairwise_map, List.pairwise_iff_getElem]
    intro i j hi hj hij x hx y hy
    -- the partition number of a row of output `i` is `i`
    have hpart : ∀ (t : Nat) (ht : t < _) (z : β),
        z ∈ sortp (((sh (parts.map (assignPartitions key divs asc naLast)) (divs.length - 1))[t]'ht).map (·.2)) →
        setPartitionsPre divs (key z) asc naLast = t := by
      intro t ht z hz
      obtain ⟨r, hr, rfl⟩ := List.mem_map.mp (hmem _ _ hz)
      obtain ⟨hin, ht'⟩ := hsound t _ (List.getElem?_eq_getElem ht) r hr
      rw [← (mem_assigned key divs asc naLast parts r hin).1, ht']
    have hxi := hpart i hi x hx
    have hyj := hpart j hj y hy
    cases hle : keyLe asc naLast (key x) (key y) with
    | true => rfl
    | false =>
      have ht := keyLe_total asc naLast (key x) (key y)
      rw [hle, Bool.false_or] at ht
      have := spp_mono divs asc naLast (key y) (key x) h2 ht
      omega

/-- **exactly the input rows**: if the shuffle preserves the multiset of rows and the per-partition sort does,
    the concatenation of the outputs is a permutation of the concatenation of the inputs -/
theorem sortValuesWith_perm (sh : List (List (Nat × β)) → Nat → List (List (Nat × β))) (sortp : List β → List β)
    (key : β → Option Nat) (divs : List Nat) (asc naLast : Bool) (parts : List (List β))
    (hperm : (sh (parts.map (assignPartitions key divs asc naLast)) (divs.length - 1)).flatten.Perm
      (parts.map (assignPartitions key divs asc naLast)).flatten)
    (hsp : ∀ l, (sortp l).Perm l) :
    (sortValuesWith sh sortp key divs asc naLast parts).flatten.Perm parts.flatten := by
  unfold sortValuesWith
  refine (flatten_map_perm _ _ (fun (p : List (Nat × β)) => p.map (·.2)) (fun p _ => hsp _)).trans ?_
  rw [← List.map_flatten, ← assigned_flatten_snd key divs asc naLast parts]
  exact hperm.map _

/-- two sorted arrangements of the same rows have the same key column: "equal to pandas" for the keys -/
theorem sorted_perm_keys_unique (key : β → Option Nat) (asc naLast : Bool) (l₁ l₂ : List β) (hp : l₁.Perm l₂)
    (h₁ : l₁.Pairwise fun a b => keyLe asc naLast (key a) (key b) = true)
    (h₂ : l₂.Pairwise fun a b => keyLe asc naLast (key a) (key b) = true) : l₁.map key = l₂.map key := by
  apply List.Perm.eq_of_pairwise (le := fun a b => keyLe asc naLast a b = true)
  · intro a b _ _ hab hba; exact keyLe_antisymm asc naLast a b hab hba
  · exact List.pairwise_map.mpr h₁
  · exact List.pairwise_map.mpr h₂
  · exact hp.map key

/-- the per-partition sort of the model is a sorted permutation -/
theorem sortPart_sorted (key : β → Option Nat) (asc naLast : Bool) (l : List β) :
    (sortPart key asc naLast l).Pairwise fun a b => keyLe asc naLast (key a) (key b) = true := by
  unfold sortPart
  exact isort_pairwise (fun a b => keyLe asc naLast (key a) (key b))
    (fun a b c => keyLe_trans asc naLast (key a) (key b) (key c)) (fun a b => keyLe_total asc naLast (key a) (key b)) l

theorem sortPart_perm (key : β → Option Nat) (asc naLast : Bool) (l : List β) : (sortPart key asc naLast l).Perm l :=
  isort_perm _ l


/-! ### `_calculate_divisions`: what `presorted = True` implies -/

theorem foldl_min_le (xs : List Nat) : ∀ x, xs.foldl min x ≤ x ∧ ∀ y ∈ xs, xs.foldl min x ≤ y := by
  induction xs with
  | nil => intro x; simp
  | cons a as ih =>
    intro x
    simp only [List.foldl_cons]
    obtain ⟨h1, h2⟩ := ih (min x a)
    refine ⟨by omega, ?_⟩
    intro y hy
    rcases List.mem_cons.mp hy with rfl | hy
    · omega
    · exact h2 y hy

theorem le_foldl_max (xs : List Nat) : ∀ x, x ≤ xs.foldl max x ∧ ∀ y ∈ xs, y ≤ xs.foldl max x := by
  induction xs with
  | nil => intro x; simp
  | cons a as ih =>
    intro x
    simp only [List.foldl_cons]
    obtain ⟨h1, h2⟩ := ih (max x a)
    refine ⟨by omega, ?_⟩
    intro y hy
    rcases List.mem_cons.mp hy with rfl | hy
    · omega
    · exact h2 y hy

theorem minNat?_spec (l : List Nat) (v : Nat) (hv : v ∈ l) : ∃ m, minNat? l = some m ∧ m ≤ v := by
  cases l with
  | nil => simp at hv
  | cons x xs =>
    refine ⟨_, rfl, ?_⟩
    obtain ⟨h1, h2⟩ := foldl_min_le xs x
    rcases List.mem_cons.mp hv with rfl | hv
    · exact h1
    · exact h2 v hv

theorem maxNat?_spec (l : List Nat) (v : Nat) (hv : v ∈ l) : ∃ m, maxNat? l = some m ∧ v ≤ m := by
  cases l with
  | nil => simp at hv
  | cons x xs =>
    refine ⟨_, rfl, ?_⟩
    obtain ⟨h1, h2⟩ := le_foldl_max xs x
    rcases List.mem_cons.mp hv with rfl | hv
    · exact h1
    · exact h2 v hv

theorem partMin_spec (ks : List (Option Nat)) (v : Nat) (hv : some v ∈ ks) : ∃ m, partMin ks = some m ∧ m ≤ v :=
  minNat?_spec _ v (List.mem_filterMap.mpr ⟨some v, hv, rfl⟩)

theorem partMax_spec (ks : List (Option Nat)) (v : Nat) (hv : some v ∈ ks) : ∃ m, partMax ks = some m ∧ v ≤ m :=
  maxNat?_spec _ v (List.mem_filterMap.mpr ⟨some v, hv, rfl⟩)

theorem bfill_length : ∀ l : List (Option Nat), (bfill l).length = l.length
  | [] => rfl
  | x :: xs => by simp [bfill, bfill_length xs]

/-- `bfill` leaves valid entries alone -/
theorem bfill_getElem?_some : ∀ (l : List (Option Nat)) (i v : Nat), l[i]? = some (some v) → (bfill l)[i]? = some (some v)
  | [], i, v, h => by simp at h
  | x :: xs, 0, v, h => by
    simp only [List.getElem?_cons_zero, Option.some.injEq] at h
    subst h
    simp [bfill]
  | x :: xs, i + 1, v, h => by
    simp only [List.getElem?_cons_succ] at h
    simp only [bfill, List.getElem?_cons_succ]
    exact bfill_getElem?_some xs i v h

theorem all_some_eq : ∀ l : List (Option Nat), l.any Option.isNone = false → l = (l.filterMap id).map some
  | [], _ => rfl
  | none :: xs, h => by simp at h
  | some v :: xs, h => by
    simp only [List.any_cons, Option.isNone_some, Bool.false_or] at h
    simp only [List.filterMap_cons, id, List.map_cons]
    rw [← all_some_eq xs h]

/-- the direction of `sort_values(ascending=asc)` on plain values -/
def dirLe (asc : Bool) (a b : Nat) : Bool := if asc then decide (a ≤ b) else decide (b ≤ a)

theorem equalsSorted_pairwise (asc : Bool) (xs : List Nat) (h : equalsSorted asc xs = true) :
    xs.Pairwise fun a b => dirLe asc a b = true := by
  unfold equalsSorted at h
  have h' : xs = isort (dirLe asc) xs := by
    simp only [beq_iff_eq] at h
    exact h
  have := isort_pairwise (dirLe asc)
    (by intro a b c; cases asc <;> simp [dirLe] <;> omega)
    (by intro a b; cases asc <;> simp [dirLe] <;> omega) xs
  rw [← h'] at this
  exact this

/-- everything `presorted = True` says, in usable form: `mins` / `maxes` are all valid (`mn`, `mx`), no key is
    missing, both lists are sorted in the direction, and each partition's max is strictly before the next min -/
theorem presorted_facts (asc : Bool) (K : List (List (Option Nat))) (h : presortedB asc K = true) :
    ∃ mn mx : List Nat,
      bfill (K.map partMin) = mn.map some ∧ bfill (K.map partMax) = mx.map some ∧
      mn.length = K.length ∧ mx.length = K.length ∧
      (∀ ks ∈ K, ∀ x ∈ ks, x ≠ none) ∧
      (mn.Pairwise fun a b => dirLe asc a b = true) ∧ (mx.Pairwise fun a b => dirLe asc a b = true) ∧
      (∀ i a b, (if asc then mx[i]? else mx[i + 1]?) = some a → (if asc then mn[i + 1]? else mn[i]?) = some b → a < b) := by
  unfold presortedB calcPresorted at h
  simp only at h
  split at h
  · simp at h
  · rename_i hc
    simp only [Bool.or_eq_true, not_or, Bool.not_eq_true] at hc
    obtain ⟨⟨hc1, hc2⟩, hc3⟩ := hc
    simp only [Bool.and_eq_true] at h
    obtain ⟨⟨hs1, hs2⟩, hchain⟩ := h
    have e1 := all_some_eq _ hc1
    have e2 := all_some_eq _ hc2
    have l1 : ((bfill (K.map partMin)).filterMap id).length = K.length := by
      have := congrArg List.length e1
      rw [bfill_length, List.length_map, List.length_map] at this
      exact this.symm
    have l2 : ((bfill (K.map partMax)).filterMap id).length = K.length := by
      have := congrArg List.length e2
      rw [bfill_length, List.length_map, List.length_map] at this
      exact this.symm
    refine ⟨_, _, e1, e2, l1, l2, ?_, equalsSorted_pairwise asc _ hs1, equalsSorted_pairwise asc _ hs2, ?_⟩
    · intro ks hks x hx hxn
      subst hxn
      have : (K.map fun ks => ks.any Option.isNone).any id = true :=
        List.any_eq_true.mpr ⟨true, List.mem_map.mpr ⟨ks, hks, List.any_eq_true.mpr ⟨none, hx, rfl⟩⟩, rfl⟩
      rw [this] at hc3
      cases hc3
    · intro i a b ha hb
      rw [List.all_eq_true] at hchain
      have := hchain (a, b) (by
        apply List.mem_of_getElem? (i := i)
        rw [List.getElem?_zip_eq_some]
        cases asc with
        | true =>
          simp only [if_true] at ha hb ⊢
          have hi : i + 1 < ((bfill (K.map partMin)).filterMap id).length := (List.getElem?_eq_some_iff.mp hb).1
          constructor
          · rw [List.getElem?_take, if_pos (by omega)]; exact ha
          · rw [List.getElem?_drop, Nat.add_comm]; exact hb
        | false =>
          simp only [Bool.false_eq_true, if_false] at ha hb ⊢
          have hi : i + 1 < ((bfill (K.map partMax)).filterMap id).length := (List.getElem?_eq_some_iff.mp ha).1
          constructor
          · rw [List.getElem?_drop, Nat.add_comm]; exact ha
          · rw [List.getElem?_take, if_pos (by omega)]; exact hb)
      simpa using this

/-- a key of partition `i` lies between `mn[i]` and `mx[i]` -/
theorem presorted_bounds (K : List (List (Option Nat))) (mn mx : List Nat)
    (e1 : bfill (K.map partMin) = mn.map some) (e2 : bfill (K.map partMax) = mx.map some)
    (i : Nat) (ks : List (Option Nat)) (hks : K[i]? = some ks) (v : Nat) (hv : some v ∈ ks) :
    ∃ m M, mn[i]? = some m ∧ mx[i]? = some M ∧ m ≤ v ∧ v ≤ M := by
  obtain ⟨m, hm, hmv⟩ := partMin_spec ks v hv
  obtain ⟨M, hM, hvM⟩ := partMax_spec ks v hv
  have h1 : (K.map partMin)[i]? = some (some m) := by rw [List.getElem?_map, hks]; simp [hm]
  have h2 : (K.map partMax)[i]? = some (some M) := by rw [List.getElem?_map, hks]; simp [hM]
  have g1 := bfill_getElem?_some _ i m h1
  have g2 := bfill_getElem?_some _ i M h2
  rw [e1, List.getElem?_map] at g1
  rw [e2, List.getElem?_map] at g2
  refine ⟨m, M, ?_, ?_, hmv, hvM⟩
  · cases h : mn[i]? with
    | none => rw [h] at g1; simp at g1
    | some m' => rw [h] at g1; simp at g1; rw [g1]
  · cases h : mx[i]? with
    | none => rw [h] at g2; simp at g2
    | some m' => rw [h] at g2; simp at g2; rw [g2]

theorem pairwise_get_le (asc : Bool) (l : List Nat) (hp : l.Pairwise fun a b => dirLe asc a b = true)
    (i j : Nat) (a b : Nat) (hij : i ≤ j) (ha : l[i]? = some a) (hb : l[j]? = some b) : dirLe asc a b = true := by
  rcases Nat.lt_or_eq_of_le hij with h | h
  · obtain ⟨hi, rfl⟩ := List.getElem?_eq_some_iff.mp ha
    obtain ⟨hj, rfl⟩ := List.getElem?_eq_some_iff.mp hb
    exact (List.pairwise_iff_getElem.mp hp) i j hi hj h
  · subst h
    rw [ha] at hb; cases hb
    cases asc <;> simp [dirLe]

/-- **keys of an earlier partition come strictly before keys of a later one** when `presorted` holds -/
theorem presorted_cross (asc : Bool) (K : List (List (Option Nat))) (h : presortedB asc K = true)
    (i j : Nat) (hij : i < j) (ks ks' : List (Option Nat)) (hi : K[i]? = some ks) (hj : K[j]? = some ks')
    (x y : Option Nat) (hx : x ∈ ks) (hy : y ∈ ks') :
    ∃ v w, x = some v ∧ y = some w ∧ (if asc then v < w else w < v) := by
  obtain ⟨mn, mx, e1, e2, l1, l2, hnn, hsmn, hsmx, hchain⟩ := presorted_facts asc K h
  have hxn := hnn ks (List.mem_of_getElem? hi) x hx
  have hyn := hnn ks' (List.mem_of_getElem? hj) y hy
  cases x with
  | none => exact absurd rfl hxn
  | some v =>
  cases y with
  | none => exact absurd rfl hyn
  | some w =>
  refine ⟨v, w, rfl, rfl, ?_⟩
  obtain ⟨m, M, hm, hM, hmv, hvM⟩ := presorted_bounds K mn mx e1 e2 i ks hi v hx
  obtain ⟨m', M', hm', hM', hmw, hwM⟩ := presorted_bounds K mn mx e1 e2 j ks' hj w hy
  have hjlt : j < K.length := (List.getElem?_eq_some_iff.mp hj).1
  cases asc with
  | true =>
    simp only [if_true] at hchain ⊢
    -- v ≤ mx[i] ≤ mx[j-1] < mn[j] ≤ w
    have hj1 : j - 1 < mx.length := by omega
    have c := hchain (j - 1) mx[j - 1] m' (List.getElem?_eq_getElem hj1) (by rw [show j - 1 + 1 = j by omega]; exact hm')
    have s := pairwise_get_le true mx hsmx i (j - 1) M mx[j - 1] (by omega) hM (List.getElem?_eq_getElem hj1)
    simp [dirLe] at s
    omega
  | false =>
    simp only [Bool.false_eq_true, if_false] at hchain ⊢
    -- w ≤ mx[j] < mn[j-1] ≤ mn[i] ≤ v
    have hj1 : j - 1 < mn.length := by omega
    have c := hchain (j - 1) M' mn[j - 1] (by rw [show j - 1 + 1 = j by omega]; exact hM') (List.getElem?_eq_getElem hj1)
    have s := pairwise_get_le false mn hsmn i (j - 1) m mn[j - 1] (by omega) hm (List.getElem?_eq_getElem hj1)
    simp [dirLe] at s
    omega

/-- **the presorted shortcut is globally ordered**: when `_calculate_divisions` reports `presorted`, sorting
    every partition where it is gives a globally sorted frame (for either `na_position`: no key is missing) -/
theorem presorted_sorted (key : β → Option Nat) (asc naLast : Bool) (sortp : List β → List β) (parts : List (List β))
    (hpre : presortedB asc (parts.map fun p => p.map key) = true)
    (hsorted : ∀ l, (sortp l).Pairwise fun a b => keyLe asc naLast (key a) (key b) = true)
    (hmem : ∀ l r, r ∈ sortp l → r ∈ l) :
    (sortValuesPresorted sortp parts).flatten.Pairwise fun a b => keyLe asc naLast (key a) (key b) = true := by
  unfold sortValuesPresorted
  rw [List.pairwise_flatten]
  constructor
  · intro l hl
    obtain ⟨o, _, rfl⟩ := List.mem_map.mp hl
    exact hsorted _
  · rw [List.pairwise_map, List.pairwise_iff_getElem]
    intro i j hi hj hij x hx y hy
    have hx' := hmem _ _ hx
    have hy' := hmem _ _ hy
    obtain ⟨v, w, hv, hw, hvw⟩ := presorted_cross asc _ hpre i j hij (parts[i].map key) (parts[j].map key)
      (by rw [List.getElem?_map, List.getElem?_eq_getElem hi]; rfl)
      (by rw [List.getElem?_map, List.getElem?_eq_getElem hj]; rfl)
      (key x) (key y) (List.mem_map_of_mem hx') (List.mem_map_of_mem hy')
    rw [hv, hw]
    cases asc <;> simp_all [keyLe] <;> omega

/-! ### several sort columns -/

/-- **globally ordered, several sort columns**: the rows are routed by the FIRST sort column only (`key`), every
    partition is then sorted by the full order `le` (all columns, one direction per column, NaN placement — whatever
    pandas does on one partition). If `le` is total and refines the order of the first column, the concatenation of
    the outputs is sorted by `le`. -/
theorem sortValuesWith_sorted_refined (sh : List (List (Nat × β)) → Nat → List (List (Nat × β)))
    (sortp : List β → List β) (key : β → Option Nat) (le : β → β → Bool) (divs : List Nat) (asc naLast : Bool)
    (parts : List (List β)) (h2 : 2 ≤ divs.length)
    (hrefines : ∀ a b, le a b = true → keyLe asc naLast (key a) (key b) = true)
    (htotal : ∀ a b, (le a b || le b a) = true)
    (hsound : ∀ p out, (sh (parts.map (assignPartitions key divs asc naLast)) (divs.length - 1))[p]? = some out →
      ∀ r ∈ out, r ∈ (parts.map (assignPartitions key divs asc naLast)).flatten ∧ r.1 = p)
    (hsorted : ∀ l, (sortp l).Pairwise fun a b => le a b = true)
    (hmem : ∀ l r, r ∈ sortp l → r ∈ l) :
    (sortValuesWith sh sortp key divs asc naLast parts).flatten.Pairwise fun a b => le a b = true := by
  unfold sortValuesWith
  rw [List.pairwise_flatten]
  constructor
  · intro l hl
    obtain ⟨o, _, rfl⟩ := List.mem_map.mp hl
    exact hsorted _
  · rw [List.pairwise_map, List.pairwise_iff_getElem]
    intro i j hi hj hij x hx y hy
    have hpart : ∀ (t : Nat) (ht : t < _) (z : β),
        z ∈ sortp (((sh (parts.map (assignPartitions key divs asc naLast)) (divs.length - 1))[t]'ht).map (·.2)) →
        setPartitionsPre divs (key z) asc naLast = t := by
      intro t ht z hz
      obtain ⟨r, hr, rfl⟩ := List.mem_map.mp (hmem _ _ hz)
      obtain ⟨hin, ht'⟩ := hsound t _ (List.getElem?_eq_getElem ht) r hr
      rw [← (mem_assigned key divs asc naLast parts r hin).1, ht']
    have hxi := hpart i hi x hx
    have hyj := hpart j hj y hy
    cases hle : le x y with
    | true => rfl
    | false =>
      have ht := htotal x y
      rw [hle, Bool.false_or] at ht
      have := spp_mono divs asc naLast (key y) (key x) h2 (hrefines y x ht)
      omega

/-- lexicographic order on two columns (first column: `keyLe asc₁ naLast`; second: `keyLe asc₂ naLast`) -/
def lexLe (k1 k2 : β → Option Nat) (asc₁ asc₂ naLast : Bool) (a b : β) : Bool :=
  if k1 a = k1 b then keyLe asc₂ naLast (k2 a) (k2 b) else keyLe asc₁ naLast (k1 a) (k1 b)

theorem lexLe_refines (k1 k2 : β → Option Nat) (asc₁ asc₂ naLast : Bool) (a b : β)
    (h : lexLe k1 k2 asc₁ asc₂ naLast a b = true) : keyLe asc₁ naLast (k1 a) (k1 b) = true := by
  unfold lexLe at h
  split at h
  · rename_i he
    rw [he]
    have := keyLe_total asc₁ naLast (k1 b) (k1 b)
    simpa using this
  · exact h

theorem lexLe_total (k1 k2 : β → Option Nat) (asc₁ asc₂ naLast : Bool) (a b : β) :
    (lexLe k1 k2 asc₁ asc₂ naLast a b || lexLe k1 k2 asc₁ asc₂ naLast b a) = true := by
  unfold lexLe
  by_cases he : k1 a = k1 b
  · rw [if_pos he, if_pos he.symm]; exact keyLe_total asc₂ naLast _ _
  · rw [if_neg he, if_neg (fun h => he h.symm)]; exact keyLe_total asc₁ naLast _ _

theorem lexLe_trans (k1 k2 : β → Option Nat) (asc₁ asc₂ naLast : Bool) (a b c : β)
    (h1 : lexLe k1 k2 asc₁ asc₂ naLast a b = true) (h2 : lexLe k1 k2 asc₁ asc₂ naLast b c = true) :
    lexLe k1 k2 asc₁ asc₂ naLast a c = true := by
  unfold lexLe at *
  by_cases e1 : k1 a = k1 b <;> by_cases e2 : k1 b = k1 c
  · rw [if_pos e1] at h1; rw [if_pos e2] at h2; rw [if_pos (e1.trans e2)]
    exact keyLe_trans asc₂ naLast _ _ _ h1 h2
  · rw [if_neg e2] at h2
    have e3 : ¬ k1 a = k1 c := by rw [e1]; exact e2
    rw [if_neg e3, e1]; exact h2
  · rw [if_neg e1] at h1
    have e3 : ¬ k1 a = k1 c := by rw [← e2]; exact e1
    rw [if_neg e3, ← e2]; exact h1
  · rw [if_neg e1] at h1; rw [if_neg e2] at h2
    have h3 := keyLe_trans asc₁ naLast _ _ _ h1 h2
    by_cases e3 : k1 a = k1 c
    · exfalso
      rw [← e3] at h2
      exact e1 (keyLe_antisymm asc₁ naLast _ _ h1 h2)
    · rw [if_neg e3]; exact h3

/-- a per-partition sort by two columns that satisfies the hypotheses of `sortValuesWith_sorted_refined` -/
theorem isort_lexLe_sorted (k1 k2 : β → Option Nat) (asc₁ asc₂ naLast : Bool) (l : List β) :
    (isort (lexLe k1 k2 asc₁ asc₂ naLast) l).Pairwise fun a b => lexLe k1 k2 asc₁ asc₂ naLast a b = true :=
  isort_pairwise _ (lexLe_trans k1 k2 asc₁ asc₂ naLast) (lexLe_total k1 k2 asc₁ asc₂ naLast) l

end Dask.SortValues
