import DaskModel.Lemmas.SchedInit3
/-! `startState_ok`: for every closed graph `start_state_from_dask` returns (no "Missing dependency", fuel
suffices) a state satisfying the scheduler invariant — the hypothesis `StartOK` of the C01–C05/C52 theorems. -/
namespace Dask.Sched
variable {α : Type}

/-- the state `start_state_from_dask` builds from the final traversal state -/
def finalState (prio : Key → Nat) (s : InitSt α) : State α :=
  { dependencies := s.dependencies, dependents := s.dependents, waiting := s.waiting, waitingData := s.waitingData, cache := s.cache, ready := sortAsc prio s.readySet }

theorem IInv.startOK {cfg : Cfg} {P : Params α} {den : Key → α} (hden : IsDen cfg.g P den)
    (hG : GraphOK cfg.g cfg.results) {s : InitSt α} (h : IInv cfg.g cfg.results P s) (hstack : s.stack = []) :
    StartOK cfg den (finalState cfg.prio s) := by
  have hseenIff : ∀ k, (finalState cfg.prio s).seen k ↔ k ∈ s.seen := fun k => h.depsDom k
  have hdepsOf : ∀ k, k ∈ s.seen → (finalState cfg.prio s).depsOf k = nodeDeps cfg.g k := by
    intro k hk
    obtain ⟨ds, hds⟩ := (h.depsDom k).mpr hk
    show (s.dependencies.get? k).getD [] = _
    rw [hds]
    exact h.depsVal k ds hds
  have hdepsOf0 : ∀ k, k ∉ s.seen → (finalState cfg.prio s).depsOf k = [] := by
    intro k hk
    show (s.dependencies.get? k).getD [] = _
    cases hc : s.dependencies.get? k with
    | none => rfl
    | some ds => exact absurd ((h.depsDom k).mp ⟨ds, hc⟩) hk
  have hdepSeen : ∀ k ∈ s.seen, ∀ d ∈ nodeDeps cfg.g k, d ∈ s.seen := by
    intro k hk d hd
    rcases h.depCover k hk d hd with h1 | h1
    · exact h1
    · rw [hstack] at h1; cases h1
  have hdone : ∀ d, done cfg.g (finalState cfg.prio s) d ↔ isData cfg.g d := by
    intro d
    unfold done
    show isData cfg.g d ∨ d ∈ ([] : List Key) ↔ _
    simp
  have hCD : ∀ k ∈ s.seen, ∀ d ∈ nodeDeps cfg.g k, (CD cfg.g s d ↔ isData cfg.g d) := by
    intro k hk d hd
    unfold CD
    constructor
    · exact fun hc => hc.2
    · exact fun hc => ⟨hdepSeen k hk d hd, hc⟩
  have hready : ∀ k, k ∈ (finalState cfg.prio s).ready ↔ k ∈ s.readySet := fun k => mem_isort
  have hgraph : ∀ k ∈ s.seen, isData cfg.g k ∨ isTask cfg.g k := by
    intro k hk
    obtain ⟨nd, hnd⟩ := h.seenGraph k hk
    cases nd with
    | data => exact Or.inl hnd
    | task deps => exact Or.inr ⟨deps, hnd⟩
  have hdtsOf : ∀ d, (finalState cfg.prio s).dtsOf d = (s.dependents.get? d).getD [] := fun d => rfl
  refine ⟨⟨⟨?_, ?_, ?_, ?_, ?_, ?_, ?_⟩, ?_, ?_, ?_, ?_, ?_, ?_, ?_, ?_, ?_, ?_, ?_, ?_, ?_, ?_, ?_, ?_, ?_, ?_, ?_, ?_, ?_⟩,
    ?_, rfl, rfl, ?_⟩
  · exact h.depsVal
  · intro k ds hds
    have := h.depsVal k ds hds
    subst this
    unfold nodeDeps
    cases hg : cfg.g.get? k with
    | none => simp
    | some nd =>
      cases nd with
      | data => simp
      | task deps => simpa using hG.depsNodup k deps hg
  · intro k ds hds d hd
    have hk : k ∈ s.seen := (h.depsDom k).mp ⟨ds, hds⟩
    have := h.depsVal k ds hds
    subst this
    exact (hseenIff d).mpr (hdepSeen k hk d hd)
  · intro k hk
    exact hgraph k ((hseenIff k).mp hk)
  · exact h.dtsNodup
  · intro k hk
    exact h.dtsDom k ((hseenIff k).mp hk)
  · intro d j
    rw [hdtsOf, h.dtsVal d j]
    constructor
    · rintro ⟨h1, h2⟩
      rw [hdepsOf j h1]; exact h2
    · intro h1
      by_cases hj : j ∈ s.seen
      · rw [hdepsOf j hj] at h1; exact ⟨hj, h1⟩
      · rw [hdepsOf0 j hj] at h1; cases h1
  · exact nodup_isort h.readyNodup
  · exact List.nodup_nil
  · exact List.nodup_nil
  · exact List.nodup_nil
  · intro k hk
    obtain ⟨a, b, _⟩ := (h.readyIff k).mp ((hready k).mp hk)
    exact ⟨(hseenIff k).mpr a, b⟩
  · intro k hk; cases hk
  · intro k hk; cases hk
  · intro k w hw
    obtain ⟨a, b, _⟩ := h.waitIff k w hw
    exact ⟨(hseenIff k).mpr a, b⟩
  · intro k _ hk; cases hk
  · intro k _ hk; cases hk
  · intro k hk; cases hk
  · intro k w hw
    refine ⟨?_, (fun hk => by cases hk), (fun hk => by cases hk)⟩
    intro hk
    obtain ⟨_, _, hne, hex⟩ := h.waitIff k w hw
    obtain ⟨d, hd⟩ := List.exists_mem_of_ne_nil w hne
    obtain ⟨hdk, hncd⟩ := (hex d).mp hd
    exact hncd (((h.readyIff k).mp ((hready k).mp hk)).2.2 d hdk)
  · intro k hk ht
    have hks := (hseenIff k).mp hk
    by_cases hall : ∀ d ∈ nodeDeps cfg.g k, CD cfg.g s d
    · exact Or.inr (Or.inl ((hready k).mpr ((h.readyIff k).mpr ⟨hks, ht, hall⟩)))
    · left
      apply h.waitCover k hks ht
      apply Classical.byContradiction
      intro hno
      apply hall
      intro d hd
      apply Classical.byContradiction
      intro hc
      exact hno ⟨d, hd, hc⟩
  · intro k w hw
    obtain ⟨hks, _, hne, hex⟩ := h.waitIff k w hw
    refine ⟨hne, ?_⟩
    intro d
    rw [hex d, hdepsOf k hks, hdone]
    constructor
    · rintro ⟨h1, h2⟩
      exact ⟨h1, fun hc => h2 ((hCD k hks d h1).mpr hc)⟩
    · rintro ⟨h1, h2⟩
      exact ⟨h1, fun hc => h2 hc.2⟩
  · intro k hk d hd
    rcases hk with h1 | h1 | h1
    · obtain ⟨hks, _, hall⟩ := (h.readyIff k).mp ((hready k).mp h1)
      rw [hdepsOf k hks] at hd
      exact (hdone d).mpr (hall d hd).2
    · cases h1
    · cases h1
  · intro d l hl j
    have hl' : s.dependents.get? d = some l := by
      have : s.waitingData.get? d = some l := hl
      rw [h.wdEq] at this; exact this
    rw [hdtsOf, hl']
    simp only [Option.getD_some]
    constructor
    · intro hj; exact ⟨hj, fun hc => by cases hc⟩
    · intro hj; exact hj.1
  · intro d hd
    have hds := (hseenIff d).mp hd
    obtain ⟨l, hl⟩ := h.dtsDom d hds
    have : (finalState cfg.prio s).waitingData.get? d = some l := by
      show s.waitingData.get? d = some l
      rw [h.wdEq]; exact hl
    rw [this]
    constructor
    · intro hc; cases hc
    · intro hc; cases hc
  · intro d hd; cases hd
  · intro d hd
    have hds := (hseenIff d).mp hd
    rw [hdone]
    constructor
    · rintro ⟨v, hv⟩
      exact ⟨((h.cacheVal d v).mp hv).2.1, fun hc => by cases hc⟩
    · rintro ⟨hdat, _⟩
      exact ⟨P.dataVal d, (h.cacheVal d _).mpr ⟨hds, hdat, rfl⟩⟩
  · intro d l hl hres
    have hl' : s.dependents.get? d = some l := by
      have : s.waitingData.get? d = some l := hl
      rw [h.wdEq] at this; exact this
    intro he
    subst he
    rcases h.dtsLive d [] hl' with h1 | h1
    · rcases h.needed d (Or.inl h1) with h2 | ⟨j, hj, hdj⟩
      · exact hres h2
      · have := (h.dtsVal d j).mpr ⟨hj, hdj⟩
        rw [hl'] at this
        cases this
    · exact h1 rfl
  · intro d v hv
    exact (hseenIff d).mpr ((h.cacheVal d v).mp hv).1
  · intro d v hv
    obtain ⟨_, hdat, hval⟩ := (h.cacheVal d v).mp hv
    rw [hval]
    exact (hden.data d hdat).symm
  · intro r hr
    rcases h.resCover r hr with h1 | h1
    · exact (hseenIff r).mpr h1
    · rw [hstack] at h1; cases h1

/-- the keys the traversal visited are exactly the keys reachable from the request -/
theorem IInv.seen_iff_reach {g : Graph} {results : List Key} {P : Params α} {s : InitSt α}
    (h : IInv g results P s) (hstack : s.stack = []) (k : Key) : k ∈ s.seen ↔ Reach g results k := by
  constructor
  · intro hk; exact h.reach k (Or.inl hk)
  · intro hr
    induction hr with
    | base hr =>
      rcases h.resCover _ hr with h1 | h1
      · exact h1
      · rw [hstack] at h1; cases h1
    | step _ hkj ih =>
      rcases h.depCover _ ih _ hkj with h1 | h1
      · exact h1
      · rw [hstack] at h1; cases h1

/-- **`startState_ok`**: `start_state_from_dask` on a closed graph never raises and returns a state satisfying the
invariant the scheduler theorems start from. -/
theorem startState_ok (cfg : Cfg) (P : Params α) {den : Key → α} (hden : IsDen cfg.g P den)
    (hG : GraphOK cfg.g cfg.results) :
    ∃ st0, startState cfg P = .ok st0 ∧ StartOK cfg den st0 ∧ ∀ k, st0.seen k ↔ Reach cfg.g cfg.results k := by
  have hm : measure cfg.g ({ stack := cfg.results } : InitSt α) < initFuel cfg := by
    have hf : initFuel cfg = cfg.results.length + remSum cfg.g [] + 1 := by
      unfold initFuel
      rw [remSum_nil]
      rfl
    rw [hf]
    unfold measure
    show cfg.results.length + remSum cfg.g [] < _
    omega
  obtain ⟨s', hrun, hI, hst⟩ := initLoop_spec (P := P) hG (initFuel cfg) _ (IInv.init hG) hm
  refine ⟨finalState cfg.prio s', ?_, hI.startOK hden hG hst, ?_⟩
  · unfold startState
    rw [hrun]
    rfl
  · intro k
    exact (hI.depsDom k).trans (hI.seen_iff_reach hst k)

end Dask.Sched
