import DaskModel.Model.MaskedRed
import DaskModel.Lemmas.ArrayReduce
/-! Helper lemmas for `Props/C33xRed.lean`: the masked reduction kernel `maChunk` / `maRed` is a homomorphism on
concatenation (so K1 `treeReduce_eq_fold` applies), the payload of a partial is the fold of the unmasked values, chunk
splitting. -/
namespace Dask.MaskedRed
open Dask.ArrayReduce

variable {α : Type} {op : α → α → α} {e : α}

theorem foldr_flatten_monoid (h : IsMonoid op e) (gs : List (List α)) :
    (gs.map fun g => g.foldr op e).foldr op e = gs.flatten.foldr op e := by
  induction gs with
  | nil => rfl
  | cons g gs ih =>
    simp only [List.map_cons, List.foldr_cons, List.flatten_cons, List.foldr_append, ih]
    generalize gs.flatten.foldr op e = t
    induction g with
    | nil => simp [h.id_left]
    | cons x xs ihx => simp only [List.foldr_cons, h.assoc, ihx]

/-- an all-masked (or empty) block folds to the unit: every element is read as `e` -/
theorem foldFilled_allMasked (h : IsMonoid op e) (xs : List (Masked α)) (hm : allMasked xs = true) :
    foldFilled op e xs = e := by
  unfold foldFilled
  induction xs with
  | nil => rfl
  | cons x xs ih =>
    simp only [allMasked, List.all_cons, Bool.and_eq_true] at hm
    have ih' := ih (by simpa [allMasked] using hm.2)
    simp only [List.map_cons, List.foldr_cons, ih', fill, hm.1, if_true, h.id_left]

/-- **an element contributes iff its mask bit is false**: the payload of a partial is the fold of the unmasked values -/
theorem foldFilled_eq_unmasked (h : IsMonoid op e) (xs : List (Masked α)) :
    foldFilled op e xs = (unmasked xs).foldr op e := by
  unfold foldFilled unmasked
  induction xs with
  | nil => rfl
  | cons x xs ih =>
    cases hx : x.mask with
    | true => simp only [List.map_cons, List.foldr_cons, ih, fill, hx, if_true, h.id_left, List.filterMap_cons, Masked.toOpt]
    | false =>
      simp only [List.map_cons, List.foldr_cons, ih, fill, hx, List.filterMap_cons, Masked.toOpt]
      rfl

/-- reading a partial back with `filled(e)` gives its payload whether or not it is masked -/
theorem fill_maChunk (h : IsMonoid op e) (nm : Bool) (xs : List (Masked α)) :
    fill e (maChunk nm op e xs) = foldFilled op e xs := by
  unfold fill maChunk
  by_cases hm : (!nm && allMasked xs) = true
  · have : allMasked xs = true := by
      cases nm <;> simp_all
    simp only [hm, if_true, foldFilled_allMasked h xs this]
  · simp only [hm]
    rfl

theorem allMasked_flatten (gs : List (List (Masked α))) : allMasked gs.flatten = gs.all allMasked := by
  unfold allMasked
  induction gs with
  | nil => rfl
  | cons g gs ih => simp only [List.flatten_cons, List.all_append, List.all_cons, ih]

/-- the partials of a list of blocks, reduced once more, = payload of everything, masked iff every partial is -/
theorem maRed_chunks (h : IsMonoid op e) (bs : List (MBlock α)) :
    maRed op e (bs.map (chunkOf op e))
      = ⟨foldFilled op e (bs.map (·.elems)).flatten, bs.all fun b => !b.nomask && allMasked b.elems⟩ := by
  unfold maRed maChunk
  congr 1
  · unfold foldFilled
    rw [List.map_map]
    have : (fill e ∘ chunkOf op e) = fun b : MBlock α => (b.elems.map (fill e)).foldr op e := by
      funext b
      exact fill_maChunk h b.nomask b.elems
    rw [this, List.map_flatten, ← foldr_flatten_monoid h, List.map_map, List.map_map]
    rfl
  · simp only [Bool.not_false, Bool.true_and, allMasked, List.all_map]
    rfl

theorem maRed_hom (h : IsMonoid op e) : Hom (maRed op e) (maRed op e) := by
  intro gs _ _
  have := maRed_chunks h (gs.map fun g => (⟨false, g⟩ : MBlock α))
  simp only [List.map_map, Function.comp_def, chunkOf, List.all_map, Bool.not_false, Bool.true_and] at this
  rw [show (gs.map fun g => maChunk false op e g) = gs.map (maRed op e) from rfl] at this
  rw [this]
  unfold maRed maChunk
  simp only [List.map_id', Bool.not_false, Bool.true_and, allMasked_flatten]

/-- component-wise reduction of pairs is a homomorphism when both components are -/
theorem hom_pair {β₁ β₂ : Type} (f : List β₁ → β₁) (g : List β₂ → β₂) (hf : Hom f f) (hg : Hom g g) :
    Hom (fun ps : List (β₁ × β₂) => (f (ps.map (·.1)), g (ps.map (·.2))))
        (fun ps : List (β₁ × β₂) => (f (ps.map (·.1)), g (ps.map (·.2)))) := by
  intro gs hne hall
  have h1 : (gs.map fun ps : List (β₁ × β₂) => (f (ps.map (·.1)), g (ps.map (·.2)))).map (·.1)
      = (gs.map (List.map (·.1))).map f := by simp [List.map_map, Function.comp_def]
  have h2 : (gs.map fun ps : List (β₁ × β₂) => (f (ps.map (·.1)), g (ps.map (·.2)))).map (·.2)
      = (gs.map (List.map (·.2))).map g := by simp [List.map_map, Function.comp_def]
  have n1 : gs.map (List.map (·.1)) ≠ [] := by simpa using hne
  have n2 : gs.map (List.map (·.2)) ≠ [] := by simpa using hne
  have a1 : ∀ x ∈ gs.map (List.map (·.1)), x ≠ [] := by
    intro x hx
    obtain ⟨y, hy, rfl⟩ := List.mem_map.1 hx
    simpa using hall y hy
  have a2 : ∀ x ∈ gs.map (List.map (·.2)), x ≠ [] := by
    intro x hx
    obtain ⟨y, hy, rfl⟩ := List.mem_map.1 hx
    simpa using hall y hy
  show (f _, g _) = (f _, g _)
  rw [h1, h2, hf _ n1 a1, hg _ n2 a2, ← List.map_flatten, ← List.map_flatten]

theorem flatten_splitChunks : ∀ (cs : List Nat) (xs : List α), cs.sum = xs.length → (splitChunks cs xs).flatten = xs
  | [], xs, h => by
    have : xs = [] := List.length_eq_zero_iff.1 (by simpa using h.symm)
    subst this; rfl
  | c :: cs, xs, h => by
    simp only [splitChunks, List.flatten_cons]
    rw [flatten_splitChunks cs (xs.drop c) (by simp only [List.sum_cons] at h; simp only [List.length_drop]; omega)]
    exact List.take_append_drop c xs

theorem length_splitChunks (cs : List Nat) (xs : List α) : (splitChunks cs xs).length = cs.length := by
  induction cs generalizing xs with
  | nil => rfl
  | cons c cs ih => simp [splitChunks, ih]

/-- the lengths of the blocks are the chunk sizes -/
theorem lengths_splitChunks : ∀ (cs : List Nat) (xs : List α), cs.sum = xs.length →
    (splitChunks cs xs).map List.length = cs
  | [], _, _ => rfl
  | c :: cs, xs, h => by
    simp only [List.sum_cons] at h
    simp only [splitChunks, List.map_cons, List.length_take]
    rw [lengths_splitChunks cs (xs.drop c) (by simp only [List.length_drop]; omega)]
    congr 1
    omega

theorem replicate_flatten_lengths (cs : List Nat) :
    (cs.map fun c => List.replicate c false).flatten = List.replicate cs.sum false := by
  induction cs with
  | nil => rfl
  | cons c cs ih => simp only [List.map_cons, List.flatten_cons, ih, List.sum_cons, List.replicate_append_replicate]

end Dask.MaskedRed
