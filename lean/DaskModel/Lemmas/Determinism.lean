import DaskModel.Lemmas.SortCanon
import DaskModel.Lemmas.TaskNode
/-!
Determinism of the normaliser: values that no observer can tell apart (`ObsEq`: dict / set order ignored, array
layout ignored) have the same normal form, hence the same token — for well-formed values (`WF`): dict keys and
set elements are hashable plain data whose sort keys `(str, type name)` are pairwise different.
-/
namespace Dask.NF

mutual
/-- hashable plain data: what can be a dict key or a set element -/
def hashable : Val → Bool
  | .int _ => true | .bool _ => true | .float _ => true | .str _ => true | .bytes _ => true | .none => true
  | .tuple xs => hashableL xs
  | _ => false
def hashableL : List Val → Bool
  | [] => true
  | x :: xs => hashable x && hashableL xs
end

mutual
theorem hashable_rigid : ∀ v : Val, hashable v = true → rigid v = true
  | .int _, _ => rfl | .bool _, _ => rfl | .float _, _ => rfl | .str _, _ => rfl | .bytes _, _ => rfl | .none, _ => rfl
  | .tuple xs, h => by simp only [hashable] at h; simp only [rigid]; exact hashableL_rigid xs h
  | .atom _, h => by simp [hashable] at h
  | .hash _ _, h => by simp [hashable] at h
  | .list _, h => by simp [hashable] at h
  | .dict _, h => by simp [hashable] at h
  | .set _, h => by simp [hashable] at h
  | .arr0 _ _, h => by simp [hashable] at h
  | .ndarray _ _ _ _ _, h => by simp [hashable] at h
  | .objarr _ _, h => by simp [hashable] at h
  | .digest _, h => by simp [hashable] at h
  | .sortedTokens _, h => by simp [hashable] at h
  | .pickled _ _, h => by simp [hashable] at h
theorem hashableL_rigid : ∀ xs : List Val, hashableL xs = true → rigidL xs = true
  | [], _ => rfl
  | x :: xs, h => by
    simp only [hashableL, Bool.and_eq_true] at h
    simp only [rigidL, Bool.and_eq_true]
    exact ⟨hashable_rigid x h.1, hashableL_rigid xs h.2⟩
end

mutual
/-- well-formed values of the modelled universe -/
def WF : Val → Prop
  | .list xs => WFL xs
  | .tuple xs => WFL xs
  | .dict kvs => WFP kvs ∧ (kvs.map (fun p => sortKey p.1)).Nodup
  | .set xs => WFL xs ∧ hashableL xs = true ∧ (xs.map sortKey).Nodup
  | .digest _ => False
  | .sortedTokens _ => False
  | .pickled _ _ => False
  | _ => True
def WFL : List Val → Prop
  | [] => True
  | x :: xs => WF x ∧ WFL xs
def WFP : List (Val × Val) → Prop
  | [] => True
  | (k, v) :: r => hashable k = true ∧ WF k ∧ WF v ∧ WFP r
end

theorem WFP_iff : ∀ l : List (Val × Val), WFP l ↔ ∀ p ∈ l, hashable p.1 = true ∧ WF p.1 ∧ WF p.2
  | [] => by simp [WFP]
  | (k, v) :: r => by
    simp only [WFP, WFP_iff r, List.mem_cons, forall_eq_or_imp]
    constructor
    · rintro ⟨a, b, c, d⟩; exact ⟨⟨a, b, c⟩, d⟩
    · rintro ⟨⟨a, b, c⟩, d⟩; exact ⟨a, b, c, d⟩

theorem WFL_iff : ∀ l : List Val, WFL l ↔ ∀ x ∈ l, WF x
  | [] => by simp [WFL]
  | x :: r => by simp only [WFL, WFL_iff r, List.mem_cons, forall_eq_or_imp]

theorem normP_eq_map : ∀ kvs : List (Val × Val),
    normP kvs = kvs.map (fun p => (sortKey p.1, Val.tuple [.str "tuple", .tuple [norm p.1, norm p.2]]))
  | [] => rfl
  | (k, v) :: r => by simp [normP, normP_eq_map r]

theorem normS_eq_map : ∀ xs : List Val, normS xs = xs.map (fun x => (sortKey x, norm x))
  | [] => rfl
  | x :: r => by simp [normS, normS_eq_map r]

mutual
/-- **Observably equal well-formed values have the same normal form.** -/
theorem norm_deterministic : ∀ a b : Val, ObsEq a b → WF a → WF b → norm a = norm b
  | .int _, _, h, _, _ => by cases h; rfl
  | .bool _, _, h, _, _ => by cases h; rfl
  | .float _, _, h, _, _ => by cases h; rfl
  | .str _, _, h, _, _ => by cases h; rfl
  | .bytes _, _, h, _, _ => by cases h; rfl
  | .none, _, h, _, _ => by cases h; rfl
  | .atom _, _, h, _, _ => by cases h; rfl
  | .hash _ _, _, h, _, _ => by cases h; rfl
  | .list xs, _, h, ha, hb => by
    cases h with
    | list hl =>
      simp only [WF] at ha hb
      simp only [norm, normL_deterministic xs _ hl ha hb]
  | .tuple xs, _, h, ha, hb => by
    cases h with
    | tuple hl =>
      simp only [WF] at ha hb
      simp only [norm, normL_deterministic xs _ hl ha hb]
  | .dict xs, _, h, ha, hb => by
    cases h with
    | @dict _ zs ys hxz hp =>
      simp only [WF] at ha hb
      have hwz : WFP zs := (WFP_iff zs).mpr (fun p hpz => (WFP_iff ys).mp hb.1 p (hp.subset hpz))
      have e1 : normP xs = normP zs := normP_deterministic xs zs hxz ha.1 hwz
      have hperm : (normP zs).Perm (normP ys) := by
        rw [normP_eq_map, normP_eq_map]; exact hp.map _
      have hnodup : ((normP zs).map Prod.fst).Nodup := by
        rw [← e1, normP_eq_map, List.map_map]
        exact ha.2
      simp only [norm, e1, ssort_canonical _ _ hperm hnodup]
  | .set xs, _, h, ha, hb => by
    cases h with
    | @set _ zs ys hxz hp =>
      simp only [WF] at ha hb
      have e0 : xs = zs := eq_of_rigidL xs zs (hashableL_rigid xs ha.2.1) hxz
      subst e0
      have hperm : (normS xs).Perm (normS ys) := by
        rw [normS_eq_map, normS_eq_map]; exact hp.map _
      have hnodup : ((normS xs).map Prod.fst).Nodup := by
        rw [normS_eq_map, List.map_map]
        exact ha.2.2
      simp only [norm, ssort_canonical _ _ hperm hnodup]
  | .arr0 _ _, _, h, _, _ => by cases h; rfl
  | .ndarray dt shape st o buf, _, h, _, _ => by
    cases h with
    | ndarray h1 h2 => simp only [norm, h1, h2]
    | ndarraySame => rfl
  | .objarr _ _, _, h, _, _ => by cases h; rfl
  | .digest _, _, _, ha, _ => by simp [WF] at ha
  | .sortedTokens _, _, _, ha, _ => by simp [WF] at ha
  | .pickled _ _, _, _, ha, _ => by simp [WF] at ha
theorem normL_deterministic : ∀ xs ys : List Val, ObsEqL xs ys → WFL xs → WFL ys → normL xs = normL ys
  | [], _, h, _, _ => by cases h; rfl
  | x :: xs, _, h, ha, hb => by
    cases h with
    | cons h1 h2 =>
      simp only [WFL] at ha hb
      simp only [normL, norm_deterministic x _ h1 ha.1 hb.1, normL_deterministic xs _ h2 ha.2 hb.2]
theorem normP_deterministic : ∀ xs zs : List (Val × Val), ObsEqP xs zs → WFP xs → WFP zs → normP xs = normP zs
  | [], _, h, _, _ => by cases h; rfl
  | (k, v) :: r, _, h, ha, hb => by
    cases h with
    | cons hk hv hr =>
      simp only [WFP] at ha hb
      have ek := eq_of_rigid k _ (hashable_rigid k ha.1) hk
      subst ek
      simp only [normP, norm_deterministic v _ hv ha.2.2.1 hb.2.2.1, normP_deterministic r _ hr ha.2.2.2 hb.2.2.2]
end

end Dask.NF
